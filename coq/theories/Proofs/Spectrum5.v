(* C14 proofs, part 5: one request (pth_assign_one) and whole request histories (run). *)
From Coq Require Import Lia ZifyBool Permutation Sorted.
From Verif Require Import Prelude Model.Spectrum Proofs.SpectrumBase Proofs.Spectrum Proofs.Spectrum2
     Proofs.Spectrum3 Proofs.Spectrum4.
Open Scope Z_scope.
Local Arguments Z.mul : simpl never.
Local Arguments Z.add : simpl never.
Local Arguments Z.sub : simpl never.
Local Arguments Z.opp : simpl never.
Local Arguments Z.div : simpl never.
Local Arguments Z.max : simpl never.
Local Arguments Z.min : simpl never.
Local Arguments Z.of_nat : simpl never.
Local Arguments Z.to_nat : simpl never.

Definition rq_nb_wl (rq : request) : Z := cdiv (bandwidth rq) (bit_rate rq).
Definition rq_pcm (rq : request) : Z := cdiv (spacing rq) slot_width * cdiv (bit_rate rq) (bit_rate rq).
Definition rq_required (rq : request) : Z := cdiv (spacing rq) slot_width * rq_nb_wl rq.

Definition pairwise_disjoint (rs : list (Z * Z)) : Prop :=
  NoDup rs /\ forall x y, In x rs -> In y rs -> x <> y -> disjoint_rng x y.

Definition feasible_on_path (st : state) (ids : list Z) (n m : Z) : Prop :=
  forall i o, In i ids -> oms_at st i = Some o -> feasible (bm o) n m.

Record accepted_ok (d : dims) (p : policy) (st st' : state) (rq : request) (ns ms : list Z) : Prop := {
  ao_len : length ns = length ms;
  ao_feas : forall n m, In (n, m) (combine ns ms) -> 0 < m /\ feasible_on_path st (path_oms rq) n m;
  ao_disj : pairwise_disjoint (combine ns ms);
  ao_enough : rq_required rq <= sum_m (combine ns ms);
  ao_commit : committed d st st' (path_oms rq) (combine ns ms);
  ao_fixed : exists ordered done rest,
      Permutation ordered (slots rq) /\ Permutation (combine ns ms) done /\
      processed ordered done rest /\ Forall m_none rest;
  ao_first : forall mo n m, slots rq = [(None, mo)] -> ns = [n] -> ms = [m] ->
      match p with
      | FirstFit => forall n', feasible_on_path st (path_oms rq) n' m -> n <= n'
      | LastFit => forall n', feasible_on_path st (path_oms rq) n' m -> n' <= n
      end
}.

Lemma combine_fst_snd {A B} (l : list (A * B)) : combine (map fst l) (map snd l) = l.
Proof. induction l as [|[a b] t IH]; cbn [map combine fst snd]; [reflexivity|]. f_equal. exact IH. Qed.

Lemma disjoint_sym a b : disjoint_rng a b -> disjoint_rng b a.
Proof. unfold disjoint_rng. intros [H|H]; [right|left]; exact H. Qed.

Lemma pairwise_of_FOP l :
  ForallOrdPairs disjoint_rng l -> Forall (fun nm => 0 < snd nm) l -> pairwise_disjoint l.
Proof.
  intros H Hm. split.
  - induction H as [|a l Ha Hl IH]; [constructor|]. inversion Hm as [|? ? Hma Hml]; subst.
    constructor; [|apply IH; exact Hml]. intros Hin. rewrite Forall_forall in Ha. specialize (Ha a Hin).
    unfold disjoint_rng in Ha. lia.
  - intros x y Hx Hy Hne. destruct (ForallOrdPairs_In H x y Hx Hy) as [->|[Hr|Hr]]; [contradiction|exact Hr|].
    apply disjoint_sym. exact Hr.
Qed.

Lemma pairwise_perm l l' : Permutation l l' -> pairwise_disjoint l -> pairwise_disjoint l'.
Proof.
  intros P (Hn & Hd). split; [eapply Permutation_NoDup; eauto|].
  intros x y Hx Hy. apply Hd; eapply Permutation_in; try apply Permutation_sym; eauto.
Qed.

Lemma sum_m_perm l l' : Permutation l l' -> sum_m l = sum_m l'.
Proof. induction 1; cbn [sum_m]; lia. Qed.

Lemma sel_inv_init test0 : WFb test0 -> sel_inv test0 test0 [].
Proof.
  intros W. constructor; [exact W|unfold same_dims; auto 10|reflexivity|constructor|constructor].
Qed.

(* single free-N slot: the centre is extremal among all feasible centres of the aggregate *)
Lemma cnm_loop_single test p pcm rem mo sel rem' test' :
  WFb test -> cnm_loop test rem pcm p [(None, mo)] [] = Ok (Some (sel, rem', test')) ->
  forall n m, sel = [(n, m)] ->
  match p with
  | FirstFit => forall n', feasible test n' m -> n <= n'
  | LastFit => forall n', feasible test n' m -> n' <= n
  end.
Proof.
  intros W H n m ->. cbn [cnm_loop] in H.
  destruct (cnm_step test rem pcm p (None, mo)) as [r|e] eqn:Es; [|discriminate]. cbn [bind] in H.
  destruct r as [n1 m1| |]; [|discriminate|discriminate].
  destruct (assign test n1 m1) as [t1|e] eqn:Ea; [|discriminate]. cbn [bind app] in H.
  injection H as -> -> _ _.
  assert (Hm : 0 < m) by (apply (assign_inv test n m t1 W) in Ea; lia).
  destruct (cnm_step_continue test rem pcm p (None, mo) n m W Hm Es) as (_ & _ & _ & Hmin).
  apply Hmin. reflexivity.
Qed.

Theorem pth_assign_one_spec d p st rq st' out :
  WFst d st -> valid_ids st (path_oms rq) -> 0 < rq_required rq ->
  pth_assign_one p st rq = Ok (st', out) ->
  match out with
  | Skipped => st' = st
  | Blocked _ => st' = st
  | Accepted ns ms => accepted_ok d p st st' rq ns ms
  end.
Proof.
  intros W Hv Hreq H. unfold pth_assign_one in H.
  destruct (pre_blocked rq); [injection H as <- <-; reflexivity|].
  fold (rq_nb_wl rq) in H. fold (rq_pcm rq) in H. fold (rq_required rq) in H.
  match type of H with (if ?c then _ else _) = _ => destruct c end; [injection H as <- <-; reflexivity|].
  destruct (compute_n_m st (rq_required rq) (rq_pcm rq) p (slots rq) (path_oms rq)) as [r|e] eqn:Ec; [|discriminate].
  cbn [bind] in H. destruct r as [[ns ms] remaining].
  destruct (0 <? remaining) eqn:Er; [injection H as <- <-; reflexivity|].
  destruct (commit st (path_oms rq) ns ms (rid rq) (rq_nb_wl rq)) as [st1|e] eqn:Eco; [|discriminate].
  cbn [bind] in H. injection H as <- <-.
  (* open compute_n_m *)
  unfold compute_n_m in Ec.
  destruct (aggregate st (path_oms rq)) as [test0|e] eqn:Eag; [|discriminate]. cbn [bind] in Ec.
  destruct (aggregate_spec d st _ test0 W Hv Eag) as (Hne & Wt & Hn & Hx & Hg & Hcell).
  set (ordered := order_slots (slots rq)) in *.
  destruct (cnm_loop test0 (rq_required rq) (rq_pcm rq) p (map snd ordered) []) as [r|e] eqn:El; [|discriminate].
  cbn [bind] in Ec. destruct r as [[[sel rem] tfin]|].
  2:{ injection Ec as <- <- <-. lia. }
  injection Ec as <- <- <-.
  destruct (cnm_loop_spec test0 p (rq_pcm rq) _ test0 _ [] sel rem tfin (sel_inv_init test0 Wt) El)
    as (I & done & rest & Hsel & Hrem & Hproc & Hrest).
  cbn [app] in Hsel. subst done.
  pose proof (processed_length _ _ _ Hproc) as Hlen. rewrite map_length in Hlen.
  set (restored := restore_order (map Some sel ++ repeat None (length ordered - length sel)) (map fst ordered)) in *.
  assert (Hperm : Permutation restored sel).
  { apply restore_order_perm. rewrite map_length. lia. }
  destruct I as [Wf Df Cf Jf Ff].
  assert (Hpos : Forall (fun nm => 0 < snd nm) sel) by (eapply Forall_impl; [|exact Ff]; intros ? (? & _); assumption).
  constructor.
  - rewrite !map_length. reflexivity.
  - rewrite combine_fst_snd. intros n m Hin. apply (Permutation_in _ Hperm) in Hin.
    rewrite Forall_forall in Ff. specialize (Ff _ Hin). cbn [fst snd] in Ff. destruct Ff as (Hm & Hf).
    split; [exact Hm|]. unfold feasible_on_path. apply (feasible_aggregate d st _ test0 n m W Hv Eag). exact Hf.
  - rewrite combine_fst_snd. apply (pairwise_perm sel); [apply Permutation_sym; exact Hperm|].
    apply pairwise_of_FOP; assumption.
  - rewrite combine_fst_snd. rewrite (sum_m_perm _ _ Hperm). lia.
  - rewrite combine_fst_snd. rewrite <- (combine_fst_snd restored). eapply commit_spec; eauto.
  - rewrite combine_fst_snd. exists (map snd ordered), sel, rest.
    split; [apply order_slots_perm|]. split; [exact Hperm|]. split; [exact Hproc|].
    eapply nones_last_suffix; [apply order_slots_nones_last|exact Hproc|exact Hrest].
  - intros mo n m Hs Hns Hms.
    assert (Hrs : restored = [(n, m)]).
    { rewrite <- (combine_fst_snd restored), Hns, Hms. reflexivity. }
    rewrite Hrs in Hperm. apply Permutation_length_1_inv in Hperm.
    assert (Hord : map snd ordered = [(None, mo)]).
    { pose proof (order_slots_perm (slots rq)) as Hp. fold ordered in Hp. rewrite Hs in Hp.
      apply Permutation_sym, Permutation_length_1_inv in Hp. exact Hp. }
    rewrite Hord in El.
    pose proof (cnm_loop_single test0 p _ _ mo sel _ tfin Wt El n m Hperm) as Hmin.
    destruct p; intros n' Hf; apply Hmin; unfold feasible_on_path in Hf; apply (feasible_aggregate d st _ test0 n' m W Hv Eag); exact Hf.
Qed.

(* ------------------------------------------------------------------ histories *)
Definition entry := (list Z * list (Z * Z))%type.     (* OMS ids of path U reverse path, accepted (N, M) list *)

Definition booked (log : list entry) (i k : Z) : bool :=
  existsb (fun e => in_ids i (fst e) && covered (snd e) k) log.

Definition no_double (st0 : state) (e1 e2 : entry) : Prop :=
  forall i k o0, 0 <= i -> oms_at st0 i = Some o0 ->
                 in_ids i (fst e1) = true -> in_ids i (fst e2) = true ->
                 covered (snd e1) k = true -> covered (snd e2) k = true -> False.

Record hist_inv (st0 st : state) (log : list entry) : Prop := {
  hi_len : length st = length st0;
  (* recorded occupancy = initial occupancy + exactly the accepted assignments *)
  hi_occ : forall i o0, 0 <= i -> oms_at st0 i = Some o0 ->
           exists o, oms_at st i = Some o /\
                     forall k, cell (bm o) k = if booked log i k then Some SO else cell (bm o0) k;
  (* every booked slot was FREE (usable and unoccupied) in the initial state *)
  hi_free : forall e i k o0, In e log -> 0 <= i -> in_ids i (fst e) = true -> covered (snd e) k = true ->
            oms_at st0 i = Some o0 -> cell (bm o0) k = Some SF;
  (* no slot of an OMS is given to two accepted services *)
  hi_nodouble : ForallOrdPairs (no_double st0) log
}.

Fixpoint log_of (rqs : list request) (outs : list outcome) : list entry :=
  match rqs, outs with
  | rq :: t, Accepted ns ms :: u => (path_oms rq, combine ns ms) :: log_of t u
  | _ :: t, _ :: u => log_of t u
  | _, _ => []
  end.

Lemma booked_app log e i k : booked (log ++ [e]) i k = booked log i k || (in_ids i (fst e) && covered (snd e) k).
Proof. unfold booked. rewrite existsb_app. cbn [existsb]. rewrite orb_false_r. reflexivity. Qed.

Lemma covered_in rs k : covered rs k = true -> exists n m, In (n, m) rs /\ n - m <= k <= n + m - 1.
Proof.
  unfold covered. intros H. apply existsb_exists in H. destruct H as ([n m] & Hin & Hr).
  exists n, m. split; [exact Hin|]. unfold in_range in Hr. cbn [fst snd] in Hr. lia.
Qed.

Lemma in_ids_In i ids : in_ids i ids = true -> In i ids.
Proof. unfold in_ids. intros H. apply existsb_exists in H. destruct H as (x & Hx & E). replace i with x by lia. exact Hx. Qed.

Lemma hist_step d p st0 st st' log rq ns ms :
  hist_inv st0 st log -> accepted_ok d p st st' rq ns ms ->
  hist_inv st0 st' (log ++ [(path_oms rq, combine ns ms)]).
Proof.
  intros [Hl Ho Hf Hd] A. destruct A as [_ Afeas _ _ (Wc & Lc & Cc) _ _].
  (* a newly covered slot of a path OMS is FREE in st, hence unbooked and FREE initially *)
  assert (Hnew : forall i k o0, 0 <= i -> in_ids i (path_oms rq) = true -> covered (combine ns ms) k = true ->
                 oms_at st0 i = Some o0 -> booked log i k = false /\ cell (bm o0) k = Some SF).
  { intros i k o0 Hi Hin Hc Ho0. destruct (Ho i o0 Hi Ho0) as (o & Hio & Hck).
    destruct (covered_in _ _ Hc) as (n & m & Hnm & Hk).
    destruct (Afeas n m Hnm) as (_ & Hfe). specialize (Hfe i o (in_ids_In _ _ Hin) Hio).
    destruct Hfe as (_ & _ & Hfree). specialize (Hfree k Hk). rewrite Hck in Hfree.
    destruct (booked log i k); [discriminate|]. auto. }
  constructor.
  - congruence.
  - intros i o0 Hi Ho0. destruct (Ho i o0 Hi Ho0) as (o & Hio & Hck).
    destruct (Cc i o Hi Hio) as (o' & Hio' & Hck'). exists o'. split; [exact Hio'|].
    intros k. rewrite Hck', Hck, booked_app. cbn [fst snd].
    destruct (in_ids i (path_oms rq) && covered (combine ns ms) k); [rewrite orb_true_r|rewrite orb_false_r]; reflexivity.
  - intros e i k o0 Hin Hi0 Hi Hc Ho0. apply in_app_or in Hin. destruct Hin as [Hin|[<-|[]]].
    + eapply Hf; eauto.
    + cbn [fst snd] in *. destruct (Hnew i k o0 Hi0 Hi Hc Ho0) as (_ & H). exact H.
  - apply FOP_snoc; [exact Hd|]. apply Forall_forall. intros e Hin i k o0 Hi0 Ho0 H1 H2 H3 H4. cbn [fst snd] in *.
    destruct (Hnew i k o0 Hi0 H2 H4 Ho0) as (Hb & _).
    assert (booked log i k = true).
    { unfold booked. apply existsb_exists. exists e. split; [exact Hin|]. rewrite H1, H3. reflexivity. }
    congruence.
Qed.

Lemma hist_inv_init st0 : hist_inv st0 st0 [].
Proof.
  constructor; [reflexivity| | |constructor].
  - intros i o0 Hi Ho. exists o0. split; [exact Ho|]. reflexivity.
  - intros e i k o0 [].
Qed.

Lemma committed_valid d st st' ids rs l : committed d st st' ids rs -> valid_ids st l -> valid_ids st' l.
Proof. intros (_ & Hl & _) H. unfold valid_ids in *. rewrite Hl. exact H. Qed.

Definition rq_ok (st : state) (rq : request) : Prop := valid_ids st (path_oms rq) /\ 0 < rq_required rq.

(* every history: the invariant holds after any number of requests, whatever their outcomes *)
Lemma run_inv d p : forall rqs st0 st log st' outs,
  WFst d st -> length st = length st0 -> Forall (rq_ok st) rqs ->
  hist_inv st0 st log -> run p st rqs = Ok (st', outs) ->
  WFst d st' /\ length outs = length rqs /\ hist_inv st0 st' (log ++ log_of rqs outs).
Proof.
  induction rqs as [|rq t IH]; intros st0 st log st' outs W Hl Hok I H.
  - cbn [run] in H. injection H as <- <-. cbn [log_of]. rewrite app_nil_r. auto.
  - cbn [run] in H. destruct (pth_assign_one p st rq) as [[st1 o]|e] eqn:E1; [|discriminate]. cbn [bind fst snd] in H.
    destruct (run p st1 t) as [[st2 outs2]|e] eqn:E2; [|discriminate]. cbn [bind fst snd] in H. injection H as <- <-.
    inversion Hok as [|? ? (Hv & Hr) Ht]; subst.
    pose proof (pth_assign_one_spec d p st rq st1 o W Hv Hr E1) as S.
    destruct o as [|reason|ns ms].
    + subst st1. destruct (IH st0 st log st2 outs2 W Hl Ht I E2) as (A & B & C).
      split; [exact A|]. split; [cbn [length]; lia|]. cbn [log_of]. exact C.
    + subst st1. destruct (IH st0 st log st2 outs2 W Hl Ht I E2) as (A & B & C).
      split; [exact A|]. split; [cbn [length]; lia|]. cbn [log_of]. exact C.
    + pose proof (hist_step d p st0 st st1 log rq ns ms I S) as I1.
      destruct S as [_ _ _ _ Hc _ _]. pose proof Hc as (W1 & L1 & _).
      assert (Ht1 : Forall (rq_ok st1) t).
      { eapply Forall_impl; [|exact Ht]. intros r (A & B). split; [|exact B]. eapply committed_valid; eauto. }
      destruct (IH st0 st1 _ st2 outs2 W1 ltac:(congruence) Ht1 I1 E2) as (A & B & C).
      split; [exact A|]. split; [cbn [length]; lia|]. cbn [log_of]. rewrite <- app_assoc in C. exact C.
Qed.

Theorem run_spec d p rqs st0 st' outs :
  WFst d st0 -> Forall (rq_ok st0) rqs -> run p st0 rqs = Ok (st', outs) ->
  WFst d st' /\ length outs = length rqs /\ hist_inv st0 st' (log_of rqs outs).
Proof.
  intros W Hok H. apply (run_inv d p rqs st0 st0 [] st' outs W eq_refl Hok (hist_inv_init st0) H).
Qed.
