(* C14 proofs, part 2: determine_slot_numbers, the compute_n_m loop. *)
From Coq Require Import Lia ZifyBool Permutation Sorted.
From Verif Require Import Prelude Model.Spectrum Proofs.SpectrumBase Proofs.Spectrum.
Open Scope Z_scope.
Local Arguments Z.mul : simpl never.
Local Arguments Z.add : simpl never.
Local Arguments Z.sub : simpl never.
Local Arguments Z.opp : simpl never.
Local Arguments Z.div : simpl never.
Local Arguments Z.max : simpl never.
Local Arguments Z.min : simpl never.
Local Arguments Z.of_nat : simpl never.
Local Arguments Z.to_nat : simpl never.

(* ------------------------------------------------------------------ determine_slot_numbers *)
Lemma dsn_cond_true b c i req :
  WFb b -> 0 < i -> 0 <= c -> dsn_cond b c i req = Ok true ->
  feasible b (n_min b + c) i /\ i <= req.
Proof.
  intros W Hi Hc H. pose proof W as (Hx & Hl & Hfm & HfM & Hg). unfold dsn_cond in H.
  destruct (slice_all_free (cells b) (c - i) (c + i) (2 * i)) eqn:Es; [|discriminate].
  replace (c + i) with (c - i + 2 * i) in Es by lia.
  apply slice_all_free_spec in Es; [|lia|lia]. destruct Es as (H0 & Hlen & Hf).
  rewrite idx_at_wf in H by (auto; lia). cbn [bind] in H.
  destruct (fi_min b <=? n_min b + (c - i)) eqn:E1; [|discriminate].
  rewrite idx_at_wf in H by (auto; lia). cbn [bind] in H.
  destruct (n_min b + (c + i - 1) <=? fi_max b) eqn:E2; [|discriminate].
  injection H as H. split; [|lia]. unfold feasible. split; [lia|]. split; [lia|].
  replace (n_min b + c - i) with (n_min b + (c - i)) by lia.
  replace (n_min b + c + i - 1) with (n_min b + (c - i) + 2 * i - 1) by lia.
  apply free_of_local; [lia|exact Hf].
Qed.

Lemma dsn_loop_spec b c req pcm :
  forall fuel i r, dsn_loop b c req pcm i fuel = Ok r -> 0 < pcm ->
  r = i - pcm \/ (i <= r /\ dsn_cond b c r req = Ok true).
Proof.
  induction fuel as [|f IH]; intros i r H Hp; [discriminate|].
  cbn [dsn_loop] in H. destruct (dsn_cond b c i req) as [ok|e] eqn:Ec; [|discriminate]. cbn [bind] in H.
  destruct ok.
  - apply IH in H; [|exact Hp]. destruct H as [->|(Hle & Hc)].
    + right. replace (i + pcm - pcm) with i by lia. split; [lia|exact Ec].
    + right. split; [lia|exact Hc].
  - injection H as <-. left. reflexivity.
Qed.

Lemma determine_spec b n req pcm r :
  WFb b -> determine_slot_numbers b n req pcm = Ok r ->
  r = 0 \/ (0 < pcm /\ pcm <= r /\ r <= req /\ feasible b n r).
Proof.
  intros W H. pose proof W as (Hx & Hl & Hfm & HfM & Hg). unfold determine_slot_numbers in H.
  rewrite Hx, mem_z_zrange in H.
  destruct ((n_min b <=? n) && (n <? n_max b + 1)) eqn:Em; cbn [negb] in H; [|injection H as <-; left; reflexivity].
  rewrite geti_wf in H by (auto; lia). cbn [bind] in H.
  destruct (pcm <=? 0) eqn:Ep; [discriminate|].
  apply dsn_loop_spec in H; [|lia]. destruct H as [->|(Hle & Hc)]; [left; lia|].
  right. apply dsn_cond_true in Hc; [|exact W|lia|lia].
  replace (n_min b + (n - n_min b)) with n in Hc by lia. destruct Hc as (Hf & Hr). repeat split; try lia; apply Hf.
Qed.

(* ------------------------------------------------------------------ one step of compute_n_m *)
Definition slot_matches (s : slot_req) (n m : Z) : Prop :=
  (fst s = Some n \/ fst s = None) /\ (snd s = Some m \/ snd s = None).

Lemma cnm_step_continue test rem pcm p s n m :
  WFb test -> 0 < m -> cnm_step test rem pcm p s = Ok (Continue n m) ->
  feasible test n m /\ slot_matches s n m /\
  (snd s = None -> m <= rem) /\
  (fst s = None -> match p with
                   | FirstFit => forall n', feasible test n' m -> n <= n'
                   | LastFit => forall n', feasible test n' m -> n' <= n
                   end).
Proof.
  intros W Hm H. unfold cnm_step in H. destruct s as [[sn|] [sm|]].
  - destruct (determine_slot_numbers test sn sm sm) as [av|e] eqn:Ed; [|discriminate]. cbn [bind] in H.
    destruct (av =? 0) eqn:Ea; [discriminate|]. injection H as <- <-.
    apply determine_spec in Ed; [|exact W]. destruct Ed as [->|(Hp & Hle & Hr & Hf)]; [discriminate|].
    assert (av = sm) by lia. subst av.
    split; [exact Hf|]. split; [split; left; reflexivity|]. split; [discriminate|discriminate].
  - destruct (determine_slot_numbers test sn rem pcm) as [m'|e] eqn:Ed; [|discriminate]. cbn [bind] in H.
    destruct ((m' =? 0) || (rem <=? 0)) eqn:Ea; [discriminate|]. injection H as <- <-.
    apply determine_spec in Ed; [|exact W]. destruct Ed as [->|(Hp & Hle & Hr & Hf)]; [discriminate|].
    split; [exact Hf|]. split; [split; [left|right]; reflexivity|]. split; [intros _; exact Hr|discriminate].
  - destruct (select_free test sm p) as [c|e] eqn:Es; [|discriminate]. cbn [bind] in H.
    destruct c as [c|]; [|discriminate]. injection H as <- <-.
    apply select_free_spec in Es; [|exact W|exact Hm]. destruct Es as (Hf & Hmin).
    split; [exact Hf|]. split; [split; [right|left]; reflexivity|]. split; [discriminate|intros _; exact Hmin].
  - destruct (rem <=? 0) eqn:Er; [discriminate|].
    destruct (select_free test rem p) as [c|e] eqn:Es; [|discriminate]. cbn [bind] in H.
    destruct c as [c|]; [|discriminate]. injection H as <- <-.
    apply select_free_spec in Es; [|exact W|lia]. destruct Es as (Hf & Hmin).
    split; [exact Hf|]. split; [split; right; reflexivity|]. split; [intros _; lia|intros _; exact Hmin].
Qed.

(* Break only happens on a slot whose M the user left undefined *)
Lemma cnm_step_break test rem pcm p s : cnm_step test rem pcm p s = Ok Break -> snd s = None.
Proof.
  unfold cnm_step. destruct s as [[sn|] [sm|]]; cbn [snd]; intros H; try reflexivity; exfalso.
  - destruct (determine_slot_numbers test sn sm sm); [|discriminate]. cbn [bind] in H.
    destruct (_ =? 0); discriminate.
  - destruct (select_free test sm p) as [[c|]|]; discriminate.
Qed.

(* ------------------------------------------------------------------ the loop *)
Definition covered (sel : list (Z * Z)) (k : Z) : bool :=
  existsb (fun nm => in_range (fst nm) (snd nm) k) sel.

Definition disjoint_rng (a b : Z * Z) : Prop :=
  fst a + snd a - 1 < fst b - snd b \/ fst b + snd b - 1 < fst a - snd a.

Record sel_inv (test0 test : bitmap) (sel : list (Z * Z)) : Prop := {
  si_wf : WFb test;
  si_dims : same_dims test0 test;
  si_cells : forall k, cell test k = if covered sel k then Some SO else cell test0 k;
  si_disj : ForallOrdPairs disjoint_rng sel;
  si_feas : Forall (fun nm => 0 < snd nm /\ feasible test0 (fst nm) (snd nm)) sel
}.

Lemma covered_app sel x k : covered (sel ++ [x]) k = covered sel k || in_range (fst x) (snd x) k.
Proof. unfold covered. rewrite existsb_app. cbn [existsb]. rewrite orb_false_r. reflexivity. Qed.

Lemma FOP_snoc {A} (R : A -> A -> Prop) l x :
  ForallOrdPairs R l -> Forall (fun y => R y x) l -> ForallOrdPairs R (l ++ [x]).
Proof.
  induction 1 as [|a l Ha Hl IH]; intros Hx; cbn [app].
  - constructor; constructor.
  - inversion Hx as [|? ? Hax Hlx]; subst. constructor.
    + apply Forall_app. split; [exact Ha|]. constructor; [exact Hax|constructor].
    + apply IH. exact Hlx.
Qed.

Lemma feasible_same_dims b b' n m :
  same_dims b b' -> (forall k, n - m <= k <= n + m - 1 -> cell b' k = cell b k) -> feasible b' n m -> feasible b n m.
Proof.
  intros (A & B & C & D & E & F) Hc (H1 & H2 & H3). unfold feasible. rewrite <- C, <- D.
  split; [exact H1|]. split; [exact H2|]. intros k Hk. rewrite <- Hc by exact Hk. apply H3. exact Hk.
Qed.

Lemma sel_inv_step test0 test sel n m test' :
  sel_inv test0 test sel -> 0 < m -> feasible test n m -> assign test n m = Ok test' ->
  sel_inv test0 test' (sel ++ [(n, m)]) /\ feasible test0 n m.
Proof.
  intros I Hm Hf Ha. destruct I as [W D C J F].
  destruct (assign_spec test n m test' W Ha) as (W' & D' & C').
  (* cells of the new range are FREE in test, hence not covered and FREE in test0 *)
  assert (Hnc : forall k, n - m <= k <= n + m - 1 -> covered sel k = false /\ cell test0 k = Some SF).
  { intros k Hk. destruct Hf as (_ & _ & Hfree). specialize (Hfree k Hk). rewrite C in Hfree.
    destruct (covered sel k); [discriminate|]. auto. }
  assert (Hf0 : feasible test0 n m).
  { apply (feasible_same_dims test0 test n m D); [|exact Hf].
    intros k Hk. rewrite C. destruct (Hnc k Hk) as (-> & _). reflexivity. }
  split; [|exact Hf0]. constructor.
  - exact W'.
  - destruct D as (A1 & A2 & A3 & A4 & A5 & A6). destruct D' as (B1 & B2 & B3 & B4 & B5 & B6).
    unfold same_dims. repeat split; congruence.
  - intros k. rewrite C', covered_app. cbn [fst snd].
    destruct (in_range n m k) eqn:Er.
    + rewrite orb_true_r. reflexivity.
    + rewrite orb_false_r. apply C.
  - apply FOP_snoc; [exact J|]. apply Forall_forall. intros [n1 m1] Hin.
    rewrite Forall_forall in F. specialize (F _ Hin). cbn [fst snd] in F. destruct F as (Hm1 & _).
    unfold disjoint_rng. cbn [fst snd].
    (* if the ranges met at k, k would be covered by sel *)
    destruct (Z_lt_le_dec (n1 + m1 - 1) (n - m)) as [|H1]; [left; lia|].
    destruct (Z_lt_le_dec (n + m - 1) (n1 - m1)) as [|H2]; [right; lia|].
    exfalso. set (k := Z.max (n - m) (n1 - m1)).
    destruct (Hnc k ltac:(unfold k; lia)) as (Hcov & _).
    assert (covered sel k = true).
    { unfold covered. apply existsb_exists. exists (n1, m1). split; [exact Hin|].
      unfold in_range. cbn [fst snd]. unfold k. lia. }
    congruence.
  - apply Forall_app. split; [exact F|]. constructor; [|constructor]. cbn [fst snd]. auto.
Qed.

Fixpoint sum_m (l : list (Z * Z)) : Z := match l with [] => 0 | x :: t => snd x + sum_m t end.
Lemma sum_m_app l1 l2 : sum_m (l1 ++ l2) = sum_m l1 + sum_m l2.
Proof. induction l1 as [|x t IH]; cbn [app sum_m]; lia. Qed.

(* what the loop guarantees about the slots it processed *)
Inductive processed : list slot_req -> list (Z * Z) -> list slot_req -> Prop :=
  | P_done : forall rest, processed rest [] rest
  | P_step : forall s l n m sel rest, slot_matches s n m -> processed l sel rest -> processed (s :: l) ((n, m) :: sel) rest.

Lemma cnm_loop_spec test0 p pcm :
  forall l test rem sel sel' rem' test',
  sel_inv test0 test sel ->
  cnm_loop test rem pcm p l sel = Ok (Some (sel', rem', test')) ->
  sel_inv test0 test' sel' /\
  exists done rest, sel' = sel ++ done /\ rem' = rem - sum_m done /\ processed l done rest /\
                    (rest = [] \/ exists s t, rest = s :: t /\ snd s = None).
Proof.
  induction l as [|s t IH]; intros test rem sel sel' rem' test' I H.
  - cbn [cnm_loop] in H. injection H as <- <- <-. split; [exact I|].
    exists [], []. rewrite app_nil_r. split; [reflexivity|]. split; [cbn; lia|]. split; [constructor|left; reflexivity].
  - cbn [cnm_loop] in H. destruct (cnm_step test rem pcm p s) as [r|e] eqn:Es; [|discriminate]. cbn [bind] in H.
    destruct r as [n m| |].
    + destruct (assign test n m) as [test1|e] eqn:Ea; [|discriminate]. cbn [bind] in H.
      assert (Hm : 0 < m) by (apply (assign_inv test n m test1 (si_wf _ _ _ I)) in Ea; lia).
      destruct (cnm_step_continue test rem pcm p s n m (si_wf _ _ _ I) Hm Es) as (Hf & Hsm & _).
      destruct (sel_inv_step test0 test sel n m test1 I Hm Hf Ea) as (I1 & _).
      destruct (IH test1 (rem - m) (sel ++ [(n, m)]) sel' rem' test' I1 H) as (I' & done & rest & -> & -> & Hp & Hr).
      split; [exact I'|]. exists ((n, m) :: done), rest. rewrite <- app_assoc. cbn [app sum_m snd].
      split; [reflexivity|]. split; [lia|]. split; [constructor; assumption|exact Hr].
    + injection H as <- <- <-. split; [exact I|]. exists [], (s :: t). rewrite app_nil_r.
      split; [reflexivity|]. split; [cbn; lia|]. split; [constructor|].
      right. exists s, t. split; [reflexivity|]. eapply cnm_step_break; exact Es.
    + discriminate.
Qed.
