(* C12 — proofs about Model/Disjoint.v *)
From Coq Require Import Lia ZifyBool.
From Verif Require Import Prelude Model.Route Proofs.Route Model.Disjoint.
Open Scope Z_scope.

(* ------------------------------------------------------------------ pairs of integers *)
Lemma pair_eqb_eq x y : pair_eqb x y = true <-> x = y.
Proof.
  destruct x as (a, b), y as (c, d). unfold pair_eqb. cbn [fst snd]. rewrite andb_true_iff. split.
  - intros (H1 & H2). f_equal; lia.
  - intros H. injection H as -> ->. split; lia.
Qed.

Lemma mem_pair_In x l : mem_pair x l = true <-> In x l.
Proof.
  induction l as [|y t IH]; cbn [mem_pair In]; [split; [discriminate|tauto]|].
  destruct (pair_eqb x y) eqn:E.
  - apply pair_eqb_eq in E. split; [intros _; left; congruence|reflexivity].
  - rewrite IH. split; [tauto|]. intros [H|H]; [|exact H]. symmetry in H. apply pair_eqb_eq in H. congruence.
Qed.

Lemma any_in_spec e1 e2 : any_in e1 e2 = true <-> exists e, In e e1 /\ In e e2.
Proof.
  induction e1 as [|e t IH]; cbn [any_in].
  - split; [discriminate|]. intros (e & [] & _).
  - destruct (mem_pair e e2) eqn:E.
    + apply mem_pair_In in E. split; [intros _; exists e; split; [left; reflexivity|exact E]|reflexivity].
    + rewrite IH. split.
      * intros (x & Hx & Hx2). exists x. split; [right; exact Hx|exact Hx2].
      * intros (x & [<-|Hx] & Hx2).
        -- apply mem_pair_In in Hx2. congruence.
        -- exists x. split; assumption.
Qed.

Lemma any_in_false e1 e2 : any_in e1 e2 = false <-> forall e, In e e1 -> ~ In e e2.
Proof.
  split.
  - intros H e H1 H2. assert (any_in e1 e2 = true) by (apply any_in_spec; exists e; split; assumption). congruence.
  - intros H. destruct (any_in e1 e2) eqn:E; [|reflexivity]. apply any_in_spec in E.
    destruct E as (e & H1 & H2). exfalso. exact (H e H1 H2).
Qed.

Lemma share_sym l1 l2 : share l1 l2 = share l2 l1.
Proof.
  unfold share. destruct (any_in l1 l2) eqn:E1, (any_in l2 l1) eqn:E2; try reflexivity.
  - apply any_in_spec in E1. destruct E1 as (e & H1 & H2).
    assert (any_in l2 l1 = true) by (apply any_in_spec; exists e; split; assumption). congruence.
  - apply any_in_spec in E2. destruct E2 as (e & H1 & H2).
    assert (any_in l1 l2 = true) by (apply any_in_spec; exists e; split; assumption). congruence.
Qed.

(* ------------------------------------------------------------------ isdisjoint *)
Lemma pairwise_spec : forall p x y, In (x, y) (pairwise p) <-> exists l1 l2, p = l1 ++ x :: y :: l2.
Proof.
  induction p as [|a q IH]; intros x y.
  - cbn. split; [tauto|]. intros (l1 & l2 & H). destruct l1; discriminate.
  - destruct q as [|b q'].
    + cbn. split; [tauto|]. intros (l1 & l2 & H). destruct l1 as [|? [|? ?]]; discriminate.
    + change (pairwise (a :: b :: q')) with ((a, b) :: pairwise (b :: q')). cbn [In]. rewrite IH. split.
      * intros [H|(l1 & l2 & H)].
        -- injection H as -> ->. exists [], q'. reflexivity.
        -- exists (a :: l1), l2. cbn. rewrite H. reflexivity.
      * intros (l1 & l2 & H). destruct l1 as [|c l1'].
        -- cbn in H. injection H as -> -> _. left; reflexivity.
        -- cbn in H. injection H as -> H. right. exists l1', l2. exact H.
Qed.

(* isdisjoint returns 0 exactly when the two lists have no common consecutive pair *)
Theorem isdisjoint_spec p1 p2 :
  isdisjoint p1 p2 = 0 <->
  forall x y, (exists l1 l2, p1 = l1 ++ x :: y :: l2) -> ~ exists l1 l2, p2 = l1 ++ x :: y :: l2.
Proof.
  unfold isdisjoint. destruct (any_in (pairwise p1) (pairwise p2)) eqn:E.
  - split; [discriminate|]. intros H. exfalso. apply any_in_spec in E. destruct E as ((x, y) & H1 & H2).
    apply (H x y); apply pairwise_spec; assumption.
  - split; [|reflexivity]. intros _ x y H1 H2. rewrite any_in_false in E.
    apply (E (x, y)); apply pairwise_spec; assumption.
Qed.

Theorem isdisjoint_01 p1 p2 : isdisjoint p1 p2 = 0 \/ isdisjoint p1 p2 = 1.
Proof. unfold isdisjoint. destruct (any_in _ _); [right|left]; reflexivity. Qed.

(* ------------------------------------------------------------------ validator of a set of returned paths *)
Definition no_common_link (n : net) (p q : list Z) : Prop :=
  forall l, In l (links n p) -> ~ In l (links n q).

Lemma share_false n p q : share (links n p) (links n q) = false <-> no_common_link n p q.
Proof. unfold share, no_common_link. apply any_in_false. Qed.

Lemma all_pairs_ok_spec (f : Z -> Z -> bool) :
  (forall a b, f a b = f b a) -> (forall a, f a a = true) ->
  forall l, all_pairs_ok f l = true <-> forall a b, In a l -> In b l -> f a b = true.
Proof.
  intros Hsym Hrefl. induction l as [|x t IH]; cbn [all_pairs_ok].
  - split; [intros _ a b []|reflexivity].
  - rewrite andb_true_iff, forallb_forall, IH. split.
    + intros (Hx & Ht) a b [<-|Ha] [<-|Hb].
      * apply Hrefl.
      * apply Hx; exact Hb.
      * rewrite Hsym. apply Hx; exact Ha.
      * apply Ht; assumption.
    + intros H. split.
      * intros b Hb. apply H; [left; reflexivity|right; exact Hb].
      * intros a b Ha Hb. apply H; right; assumption.
Qed.

Lemma pair_ok_sym n paths a b : pair_ok n paths a b = pair_ok n paths b a.
Proof. unfold pair_ok. rewrite share_sym. f_equal. lia. Qed.

Lemma pair_ok_refl n paths a : pair_ok n paths a a = true.
Proof. unfold pair_ok. rewrite Z.eqb_refl. reflexivity. Qed.

Theorem disjoint_ok_spec n paths groups :
  disjoint_ok n paths groups = true <->
  forall grp, In grp groups -> forall a b, In a grp -> In b grp -> a <> b ->
    no_common_link n (path_of paths a) (path_of paths b).
Proof.
  unfold disjoint_ok. rewrite forallb_forall. split.
  - intros H grp Hg a b Ha Hb Hab. specialize (H grp Hg).
    rewrite (all_pairs_ok_spec _ (pair_ok_sym n paths) (pair_ok_refl n paths)) in H.
    specialize (H a b Ha Hb). unfold pair_ok in H. apply orb_true_iff in H. destruct H as [H|H]; [lia|].
    apply negb_true_iff in H. apply share_false. exact H.
  - intros H grp Hg. apply (all_pairs_ok_spec _ (pair_ok_sym n paths) (pair_ok_refl n paths)).
    intros a b Ha Hb. unfold pair_ok. destruct (a =? b) eqn:E; [reflexivity|]. cbn [orb].
    apply negb_true_iff. apply share_false. apply (H grp Hg a b Ha Hb). lia.
Qed.

(* ------------------------------------------------------------------ existence of a disjoint pair *)
Lemma existsb_lazy_spec {A} (f : A -> bool) l : existsb_lazy f l = true <-> exists x, In x l /\ f x = true.
Proof.
  induction l as [|x t IH]; cbn [existsb_lazy].
  - split; [discriminate|]. intros (x & [] & _).
  - destruct (f x) eqn:E.
    + split; [intros _; exists x; split; [left; reflexivity|exact E]|reflexivity].
    + rewrite IH. split.
      * intros (y & Hy & Hf). exists y. split; [right; exact Hy|exact Hf].
      * intros (y & [<-|Hy] & Hf); [congruence|]. exists y. split; assumption.
Qed.

Lemma cands_spec n s t inc cutoff p :
  In p (cands n s t inc cutoff) <-> Route (ngraph n) s t inc p /\ (length p <= S cutoff)%nat.
Proof.
  unfold cands. rewrite filter_In, andb_true_iff, all_routes_spec, Nat.leb_le. unfold Route. split.
  - intros ((Hw & Hnd & Hh & Hl & _) & Hi & Hlen). split; [|exact Hlen].
    repeat split; try assumption. apply ispart_spec; assumption.
  - intros ((Hw & Hnd & Hh & Hl & Hv) & Hlen). split; [repeat split; try assumption; constructor|].
    split; [apply ispart_spec; assumption|exact Hlen].
Qed.

(* complete for candidate paths of at most `cutoff` links (the documented search cut-off is 80) *)
Theorem exists_disjoint_pair_spec n s1 t1 inc1 s2 t2 inc2 cutoff :
  exists_disjoint_pair n s1 t1 inc1 s2 t2 inc2 cutoff = true <->
  exists p1 p2,
    Route (ngraph n) s1 t1 inc1 p1 /\ (length p1 <= S cutoff)%nat /\
    Route (ngraph n) s2 t2 inc2 p2 /\ (length p2 <= S cutoff)%nat /\
    no_common_link n p1 p2.
Proof.
  unfold exists_disjoint_pair. rewrite existsb_lazy_spec. split.
  - intros (p1 & H1 & H). apply existsb_lazy_spec in H. destruct H as (l2 & Hl2 & Hd).
    apply in_map_iff in Hl2. destruct Hl2 as (p2 & <- & H2).
    apply cands_spec in H1, H2. destruct H1 as (R1 & L1), H2 as (R2 & L2).
    exists p1, p2. split; [exact R1|]. split; [exact L1|]. split; [exact R2|]. split; [exact L2|].
    apply share_false. apply negb_true_iff. exact Hd.
  - intros (p1 & p2 & R1 & L1 & R2 & L2 & Hd). exists p1. split; [apply cands_spec; split; assumption|].
    apply existsb_lazy_spec. exists (links n p2). split.
    + apply in_map. apply cands_spec. split; assumption.
    + apply negb_true_iff. apply share_false. exact Hd.
Qed.

(* ------------------------------------------------------------------ request ids, sets of ids *)
Lemma zlist_eqb_refl : forall a, zlist_eqb a a = true.
Proof. induction a as [|x a IH]; [reflexivity|]. cbn [zlist_eqb]. rewrite Z.eqb_refl, IH. reflexivity. Qed.

Lemma zlist_eqb_iff a b : zlist_eqb a b = true <-> a = b.
Proof. split; [apply zlist_eqb_eq|intros ->; apply zlist_eqb_refl]. Qed.

Lemma rid_mem_In x l : rid_mem x l = true <-> In x l.
Proof.
  induction l as [|y t IH]; cbn [rid_mem In]; [split; [discriminate|tauto]|].
  destruct (zlist_eqb x y) eqn:E.
  - apply zlist_eqb_iff in E. split; [intros _; left; congruence|reflexivity].
  - rewrite IH. split; [tauto|]. intros [H|H]; [|exact H]. symmetry in H. apply zlist_eqb_iff in H. congruence.
Qed.

Lemma rid_incl_spec a b : rid_incl a b = true <-> incl a b.
Proof.
  unfold rid_incl. rewrite forallb_forall. unfold incl. split.
  - intros H x Hx. apply rid_mem_In. apply H. exact Hx.
  - intros H x Hx. apply rid_mem_In. apply H. exact Hx.
Qed.

Lemma set_eq_spec a b : set_eq a b = true <-> forall x, In x a <-> In x b.
Proof.
  unfold set_eq. rewrite andb_true_iff, !rid_incl_spec. unfold incl. split.
  - intros (H1 & H2) x. split; [apply H1|apply H2].
  - intros H. split; intros x Hx; apply H; exact Hx.
Qed.

Lemma set_eq_refl a : set_eq a a = true.
Proof. apply set_eq_spec. tauto. Qed.
Lemma set_eq_sym a b : set_eq a b = true -> set_eq b a = true.
Proof. rewrite !set_eq_spec. intros H x. symmetry. apply H. Qed.
Lemma set_eq_trans a b c : set_eq a b = true -> set_eq b c = true -> set_eq a c = true.
Proof. rewrite !set_eq_spec. intros H1 H2 x. rewrite H1. apply H2. Qed.

(* ------------------------------------------------------------------ deduplicate_disjunctions *)
Lemma remove_at_incl {A} : forall k (l : list A), incl (remove_at k l) l.
Proof.
  induction k as [|k IH]; intros l; destruct l as [|x t]; cbn [remove_at].
  - intros z Hz. exact Hz.
  - intros z Hz. right; exact Hz.
  - intros z Hz. exact Hz.
  - intros z [<-|Hz]; [left; reflexivity|right; apply IH; exact Hz].
Qed.

Lemma remove_at_keeps {A} : forall k (l : list A) d x,
  nth_error l k = Some d -> In x l -> x <> d -> In x (remove_at k l).
Proof.
  induction k as [|k IH]; intros [|y t] d x Hn Hin Hne; cbn in Hn; try discriminate.
  - injection Hn as ->. cbn [remove_at]. destruct Hin as [<-|Hin]; [congruence|exact Hin].
  - cbn [remove_at]. destruct Hin as [<-|Hin]; [left; reflexivity|right; eapply IH; eassumption].
Qed.

(* every set of requests represented in `src` is represented in l *)
Definition represents (src l : list grp) : Prop :=
  forall d, In d src -> exists d', In d' l /\ set_eq (members d) (members d') = true.

Lemma dd_inner_inv src elem : forall fuel l j,
  In elem l -> represents src l -> incl l src ->
  let l' := dd_inner elem l j fuel in In elem l' /\ represents src l' /\ incl l' src.
Proof.
  induction fuel as [|f IH]; intros l j Hel Hrep Hincl; cbn [dd_inner]; [auto|].
  destruct (nth_error l j) as [d|] eqn:En; [|auto].
  destruct (set_eq (members elem) (members d) && negb (gid elem =? gid d)) eqn:Ec; [|apply IH; assumption].
  apply andb_true_iff in Ec. destruct Ec as (Eset & Egid).
  assert (Hne : elem <> d) by (intros ->; rewrite Z.eqb_refl in Egid; discriminate).
  apply IH.
  - eapply remove_at_keeps; eassumption.
  - intros x Hx. destruct (Hrep x Hx) as (x' & Hx' & Hs).
    (* either x' survives the removal, or x' = d and elem represents x *)
    assert (Hdec : x' = d \/ x' <> d).
    { destruct x' as [g1 m1], d as [g2 m2].
      destruct (Z.eq_dec g1 g2) as [->|Hg]; [|right; congruence].
      destruct (list_eq_dec (list_eq_dec Z.eq_dec) m1 m2) as [->|Hm]; [left; reflexivity|right; congruence]. }
    destruct Hdec as [->|Hnd].
    + exists elem. split; [eapply remove_at_keeps; eassumption|].
      eapply set_eq_trans; [exact Hs|apply set_eq_sym; exact Eset].
    + exists x'. split; [eapply remove_at_keeps; eassumption|exact Hs].
  - intros x Hx. apply Hincl. eapply remove_at_incl. exact Hx.
Qed.

Lemma dd_outer_inv src : forall fuel l i,
  represents src l -> incl l src ->
  let l' := dd_outer l i fuel in represents src l' /\ incl l' src.
Proof.
  induction fuel as [|f IH]; intros l i Hrep Hincl; cbn [dd_outer]; [auto|].
  destruct (nth_error l i) as [elem|] eqn:En; [|auto].
  assert (Hel : In elem l) by (eapply nth_error_In; exact En).
  destruct (dd_inner_inv src elem (S (length l)) l 0%nat Hel Hrep Hincl) as (_ & Hr & Hi).
  apply IH; assumption.
Qed.

(* groups_preserved: every declared set of requests is still declared after de-duplication, and nothing is invented *)
Theorem dedup_groups_preserved l :
  (forall d, In d l -> exists d', In d' (deduplicate l) /\ set_eq (members d) (members d') = true) /\
  incl (deduplicate l) l.
Proof.
  unfold deduplicate. apply (dd_outer_inv l).
  - intros d Hd. exists d. split; [exact Hd|apply set_eq_refl].
  - apply incl_refl.
Qed.

(* ------------------------------------------------------------------ validator: declared pairs still declared *)
Definition Covered (gs : list grp) (a b : Z) : Prop :=
  exists d x y, In d gs /\ In x (members d) /\ In y (members d) /\ In a x /\ In b y /\ x <> y.

Lemma pair_covered_spec gs a b : pair_covered gs a b = true <-> Covered gs a b.
Proof.
  unfold pair_covered, Covered, carries. rewrite existsb_exists. split.
  - intros (d & Hd & H). apply existsb_exists in H. destruct H as (x & Hx & H).
    apply andb_true_iff in H. destruct H as (Ha & H). apply existsb_exists in H. destruct H as (y & Hy & H).
    apply andb_true_iff in H. destruct H as (Hb & Hne). exists d, x, y.
    apply memZ_In in Ha, Hb. repeat split; try assumption.
    intros ->. rewrite zlist_eqb_refl in Hne. discriminate.
  - intros (d & x & y & Hd & Hx & Hy & Ha & Hb & Hne). exists d. split; [exact Hd|].
    apply existsb_exists. exists x. split; [exact Hx|]. apply andb_true_iff. split; [apply memZ_In; exact Ha|].
    apply existsb_exists. exists y. split; [exact Hy|]. apply andb_true_iff. split; [apply memZ_In; exact Hb|].
    apply negb_true_iff. destruct (zlist_eqb x y) eqn:E; [|reflexivity]. apply zlist_eqb_iff in E. contradiction.
Qed.

Lemma Covered_sym gs a b : Covered gs a b -> Covered gs b a.
Proof.
  intros (d & x & y & Hd & Hx & Hy & Ha & Hb & Hne). exists d, y, x. repeat split; try assumption. congruence.
Qed.

Lemma all_pairs_z_spec (f : Z -> Z -> bool) :
  (forall a b, f a b = true -> f b a = true) ->
  forall l, all_pairs_z f l = true <-> forall a b, In a l -> In b l -> a <> b -> f a b = true.
Proof.
  intros Hsym. induction l as [|x t IH]; cbn [all_pairs_z].
  - split; [intros _ a b []|reflexivity].
  - rewrite andb_true_iff, forallb_forall, IH. split.
    + intros (Hx & Ht) a b [<-|Ha] [<-|Hb] Hab.
      * congruence.
      * specialize (Hx b Hb). apply orb_true_iff in Hx. destruct Hx as [Hx|Hx]; [lia|exact Hx].
      * specialize (Hx a Ha). apply orb_true_iff in Hx. destruct Hx as [Hx|Hx]; [lia|apply Hsym; exact Hx].
      * apply Ht; assumption.
    + intros H. split.
      * intros b Hb. destruct (x =? b) eqn:E; [reflexivity|]. cbn [orb]. apply H; [left; reflexivity|right; exact Hb|lia].
      * intros a b Ha Hb Hab. apply H; [right; exact Ha|right; exact Hb|exact Hab].
Qed.

Theorem covered_ok_spec declared gs :
  covered_ok declared gs = true <->
  forall grp, In grp declared -> forall a b, In a grp -> In b grp -> a <> b -> Covered gs a b.
Proof.
  unfold covered_ok. rewrite forallb_forall.
  assert (Hsym : forall a b, pair_covered gs a b = true -> pair_covered gs b a = true).
  { intros a b H. apply pair_covered_spec. apply Covered_sym. apply pair_covered_spec. exact H. }
  split.
  - intros H grp Hg a b Ha Hb Hab. apply pair_covered_spec.
    apply (proj1 (all_pairs_z_spec _ Hsym grp) (H grp Hg) a b Ha Hb Hab).
  - intros H grp Hg. apply (all_pairs_z_spec _ Hsym). intros a b Ha Hb Hab. apply pair_covered_spec.
    apply (H grp Hg a b Ha Hb Hab).
Qed.

(* ------------------------------------------------------------------ requests_aggregation *)
(* requests that differ in some compared attribute are never merged: ids and groups are returned untouched *)
Lemma agg_find_none rqs st i : forall cand,
  (forall j, In j cand -> j = i \/ a_sig (nth i rqs (mkA [] 0 false)) <> a_sig (nth j rqs (mkA [] 0 false))) ->
  agg_find rqs st i cand = None.
Proof.
  induction cand as [|j t IH]; intros H; cbn [agg_find]; [reflexivity|].
  destruct (H j (or_introl eq_refl)) as [->|Hne].
  - rewrite zlist_eqb_refl. cbn [negb andb]. apply IH. intros k Hk. apply H. right; exact Hk.
  - assert (E : (a_sig (nth i rqs (mkA [] 0 false)) =? a_sig (nth j rqs (mkA [] 0 false))) = false) by lia.
    rewrite E. rewrite andb_false_r. cbn [andb]. apply IH. intros k Hk. apply H. right; exact Hk.
Qed.

Lemma NoDup_nth_neq (l : list Z) i j d :
  NoDup l -> (i < length l)%nat -> (j < length l)%nat -> i <> j -> nth i l d <> nth j l d.
Proof. intros Hnd Hi Hj Hij Heq. apply Hij. rewrite NoDup_nth in Hnd. apply Hnd; eassumption. Qed.

Lemma fold_left_fix {A B} (f : A -> B -> A) (l : list B) (a : A) :
  (forall b, In b l -> f a b = a) -> fold_left f l a = a.
Proof.
  induction l as [|b t IH]; intros H; [reflexivity|]. cbn [fold_left]. rewrite (H b (or_introl eq_refl)).
  apply IH. intros c Hc. apply H. right; exact Hc.
Qed.

Theorem aggregate_distinct_untouched rqs gs :
  NoDup (map a_sig rqs) ->
  aggregate rqs gs = mkS (map a_id rqs) (seq 0 (length rqs)) gs.
Proof.
  intros Hnd. unfold aggregate. apply fold_left_fix. intros i Hi. apply in_seq in Hi.
  unfold agg_step. rewrite agg_find_none; [reflexivity|].
  intros j Hj. cbn [s_local] in Hj. apply in_seq in Hj.
  destruct (Nat.eq_dec j i) as [->|Hne]; [left; reflexivity|right].
  rewrite <- !(map_nth a_sig). cbn [a_sig].
  apply NoDup_nth_neq; try assumption; rewrite ?map_length; lia.
Qed.

(* regression data: the inputs on which the aggregation of the pinned tree lost a declared pair (K2) / kept a stale
   id (K3); see Props/C12.v examples *)
Definition k2_rqs : list areq := [mkA [0] 7 true; mkA [1] 1 true; mkA [2] 1 true; mkA [3] 8 true].
Definition k2_groups : list grp := [mkG 0 [[3]; [1]]; mkG 1 [[0]; [1]]; mkG 2 [[0]; [3]; [2]]].
Definition k2_declared : list (list Z) := [[3; 1]; [0; 1]; [0; 3; 2]].
Definition k3_rqs : list areq := [mkA [0] 1 true; mkA [1] 5 false; mkA [2] 1 true; mkA [3] 1 true].
Definition k3_groups : list grp := [mkG 0 [[1]; [2]]; mkG 1 [[3]; [2]]; mkG 2 [[3]; [1]; [0]]].

(* ------------------------------------------------------------------ links: direction does not matter *)
Lemma norm_swap x y : norm (x, y) = norm (y, x).
Proof.
  unfold norm. cbn [fst snd]. destruct (x <=? y) eqn:E1, (y <=? x) eqn:E2; try reflexivity.
  - assert (x = y) by lia. subst. reflexivity.
  - lia.
Qed.

Lemma pairwise_rev l x y : In (x, y) (pairwise (rev l)) <-> In (y, x) (pairwise l).
Proof.
  rewrite !pairwise_spec. split.
  - intros (l1 & l2 & H). exists (rev l2), (rev l1).
    rewrite <- (rev_involutive l), H. rewrite rev_app_distr. cbn [rev]. rewrite <- !app_assoc. reflexivity.
  - intros (l1 & l2 & H). exists (rev l2), (rev l1).
    rewrite H. rewrite rev_app_distr. cbn [rev]. rewrite <- !app_assoc. reflexivity.
Qed.

Lemma filter_rev {A} (f : A -> bool) l : filter f (rev l) = rev (filter f l).
Proof.
  induction l as [|x t IH]; [reflexivity|]. cbn [rev filter]. rewrite filter_app, IH. cbn [filter].
  destruct (f x); [reflexivity|]. rewrite app_nil_r. reflexivity.
Qed.

(* a path and the same sites walked the other way round use the same links *)
Theorem links_rev n p l : In l (links n (rev p)) <-> In l (links n p).
Proof.
  unfold links, roadms. rewrite filter_rev, !in_map_iff. split.
  - intros ((x, y) & Hn & Hin). apply (proj1 (pairwise_rev _ _ _)) in Hin. exists (y, x).
    split; [rewrite <- norm_swap; exact Hn|exact Hin].
  - intros ((x, y) & Hn & Hin). exists (y, x). split; [rewrite <- norm_swap; exact Hn|].
    apply pairwise_rev. exact Hin.
Qed.

(* a link of p is an unordered pair of successive ROADMs of p *)
Theorem links_spec n p a b :
  In (a, b) (links n p) <->
  a <= b /\ exists l1 l2, roadms n p = l1 ++ a :: b :: l2 \/ roadms n p = l1 ++ b :: a :: l2.
Proof.
  unfold links. rewrite in_map_iff. split.
  - intros ((x, y) & Hn & Hin). apply pairwise_spec in Hin. destruct Hin as (l1 & l2 & H).
    unfold norm in Hn. cbn [fst snd] in Hn. destruct (x <=? y) eqn:E.
    + injection Hn as <- <-. split; [lia|]. exists l1, l2. left; exact H.
    + injection Hn as <- <-. split; [lia|]. exists l1, l2. right; exact H.
  - intros (Hab & l1 & l2 & [H|H]).
    + exists (a, b). split; [unfold norm; cbn [fst snd]; assert (E : (a <=? b) = true) by lia; rewrite E; reflexivity|].
      apply pairwise_spec. exists l1, l2. exact H.
    + exists (b, a). split; [rewrite norm_swap; unfold norm; cbn [fst snd]; assert (E : (a <=? b) = true) by lia; rewrite E; reflexivity|].
      apply pairwise_spec. exists l1, l2. exact H.
Qed.

(* ================================================================== requests_aggregation preserves the groups *)
(* ---------- list helpers ---------- *)
Lemma id_at_set_nth_same : forall (ids : list rid) j v, (j < length ids)%nat -> id_at (set_nth j v ids) j = v.
Proof.
  unfold id_at. induction ids as [|x t IH]; intros j v H; cbn in H; [lia|].
  destruct j; cbn [set_nth nth]; [reflexivity|]. apply IH. lia.
Qed.

Lemma id_at_set_nth_other : forall (ids : list rid) j k v, k <> j -> id_at (set_nth j v ids) k = id_at ids k.
Proof.
  unfold id_at. induction ids as [|x t IH]; intros j k v H; [destruct j; reflexivity|].
  destruct j, k; cbn [set_nth nth]; try reflexivity; try lia. apply IH. lia.
Qed.

Lemma set_nth_length {A} : forall (l : list A) j v, length (set_nth j v l) = length l.
Proof. induction l as [|x t IH]; intros [|j] v; cbn; try reflexivity. rewrite IH. reflexivity. Qed.

Lemma remove_first_In x r l : In x (remove_first r l) -> In x l.
Proof.
  induction l as [|y t IH]; cbn [remove_first]; [tauto|]. destruct (zlist_eqb r y); [intros H; right; exact H|].
  intros [<-|H]; [left; reflexivity|right; apply IH; exact H].
Qed.

Lemma remove_first_keep x r l : In x l -> x <> r -> In x (remove_first r l).
Proof.
  induction l as [|y t IH]; cbn [remove_first]; [tauto|]. intros [<-|H] Hne.
  - destruct (zlist_eqb r y) eqn:E; [apply zlist_eqb_iff in E; congruence|left; reflexivity].
  - destruct (zlist_eqb r y); [exact H|right; apply IH; assumption].
Qed.

Lemma remove_first_nodup r l : NoDup l -> NoDup (remove_first r l) /\ ~ In r (remove_first r l).
Proof.
  induction l as [|y t IH]; cbn [remove_first]; intros Hnd; [split; [constructor|tauto]|].
  inversion Hnd as [|? ? Hny Hnt]; subst. destruct (zlist_eqb r y) eqn:E.
  - apply zlist_eqb_iff in E. subst. split; assumption.
  - destruct (IH Hnt) as (H1 & H2). split.
    + constructor; [|exact H1]. intros H. apply Hny. eapply remove_first_In. exact H.
    + intros [->|H]; [rewrite zlist_eqb_refl in E; discriminate|exact (H2 H)].
Qed.

Lemma rid_remove_all_In x r l : In x (rid_remove_all r l) <-> In x l /\ x <> r.
Proof.
  induction l as [|y t IH]; cbn [rid_remove_all In]; [tauto|]. destruct (zlist_eqb r y) eqn:E.
  - apply zlist_eqb_iff in E. subst. rewrite IH. split; [tauto|]. intros ([->|H] & Hne); [congruence|tauto].
  - cbn [In]. rewrite IH. split.
    + intros [<-|(H & Hne)]; [split; [left; reflexivity|]|tauto].
      intros ->. rewrite zlist_eqb_refl in E. discriminate.
    + intros ([<-|H] & Hne); [left; reflexivity|right; tauto].
Qed.

Lemma take_seteq_spec a : forall l l', take_seteq a l = Some l' ->
  exists b0, set_eq a b0 = true /\ forall b, In b l <-> b = b0 \/ In b l'.
Proof.
  induction l as [|b t IH]; intros l' H; cbn [take_seteq] in H; [discriminate|].
  destruct (set_eq a b) eqn:E.
  - injection H as <-. exists b. split; [exact E|]. intros x. cbn [In]. split; [intros [<-|Hx]; tauto|intros [->|Hx]; tauto].
  - destruct (take_seteq a t) as [t'|] eqn:Et; [|discriminate]. injection H as <-.
    destruct (IH t' eq_refl) as (b0 & Hb0 & Hiff). exists b0. split; [exact Hb0|].
    intros x. cbn [In]. rewrite Hiff. tauto.
Qed.

Lemma ms_eq_cover : forall l1 l2, ms_eq l1 l2 = true -> forall b, In b l2 -> exists a, In a l1 /\ set_eq a b = true.
Proof.
  induction l1 as [|a t IH]; intros l2 H b Hb; cbn [ms_eq] in H.
  - destruct l2; [destruct Hb|discriminate].
  - destruct (take_seteq a l2) as [l2'|] eqn:Et; [|discriminate].
    destruct (take_seteq_spec a l2 l2' Et) as (b0 & Hb0 & Hiff). apply Hiff in Hb. destruct Hb as [->|Hb].
    + exists a. split; [left; reflexivity|exact Hb0].
    + destruct (IH l2' H b Hb) as (a' & Ha' & Hs). exists a'. split; [right; exact Ha'|exact Hs].
Qed.

Lemma shape_In s r gs : In s (shape r gs) <->
  exists d, In d gs /\ In r (members d) /\ s = rid_remove_all r (members d).
Proof.
  unfold shape. rewrite in_map_iff. split.
  - intros (d & <- & Hd). apply filter_In in Hd. destruct Hd as (Hd & Hm). apply rid_mem_In in Hm.
    exists d. repeat split; assumption.
  - intros (d & Hd & Hm & ->). exists d. split; [reflexivity|]. apply filter_In. split; [exact Hd|].
    apply rid_mem_In. exact Hm.
Qed.

Lemma in_some_spec r gs : in_some r gs = true <-> exists d, In d gs /\ In r (members d).
Proof.
  unfold in_some. rewrite existsb_exists. split; intros (d & Hd & H); exists d; split; try assumption;
    apply rid_mem_In; exact H.
Qed.

(* ---------- invariant ---------- *)
Definition atoms_disjoint (x y : rid) : Prop := forall a, In a x -> ~ In a y.

Record Inv (st : astate) : Prop := {
  inv_range : forall k, In k (s_local st) -> (k < length (s_ids st))%nat;
  inv_nonempty : forall k, In k (s_local st) -> id_at (s_ids st) k <> [];
  inv_atoms : forall k l, In k (s_local st) -> In l (s_local st) -> k <> l ->
              atoms_disjoint (id_at (s_ids st) k) (id_at (s_ids st) l);
  inv_members : forall d m, In d (s_groups st) -> In m (members d) ->
                exists k, In k (s_local st) /\ id_at (s_ids st) k = m;
  inv_nodup : forall d, In d (s_groups st) -> NoDup (members d)
}.

Lemma agg_find_spec rqs st i : forall cand j,
  agg_find rqs st i cand = Some j ->
  In j cand /\ id_at (s_ids st) i <> id_at (s_ids st) j /\
  same_disj (id_at (s_ids st) i) (id_at (s_ids st) j) (s_groups st) = true.
Proof.
  induction cand as [|c t IH]; intros j H; cbn [agg_find] in H; [discriminate|].
  match type of H with (if ?c then _ else _) = _ => destruct c eqn:E end.
  - injection H as <-. rewrite !andb_true_iff in E. destruct E as (((E1 & _) & E3) & _).
    split; [left; reflexivity|]. split; [|exact E3].
    intros Heq. rewrite Heq, zlist_eqb_refl in E1. discriminate.
  - destruct (IH j H) as (H1 & H2). split; [right; exact H1|exact H2].
Qed.

Lemma nonempty_app_neq (old ri : rid) : ri <> [] -> old ++ ri <> old.
Proof.
  intros Hne Heq. assert (H : length (old ++ ri) = length old) by (rewrite Heq; reflexivity).
  rewrite app_length in H. destruct ri; [congruence|cbn in H; lia].
Qed.


Lemma NoDup_snoc {A} (l : list A) x : NoDup l -> ~ In x l -> NoDup (l ++ [x]).
Proof.
  induction l as [|y t IH]; intros Hnd Hx; cbn [app]; [constructor; [tauto|constructor]|].
  inversion Hnd as [|? ? Hny Hnt]; subst. constructor.
  - rewrite in_app_iff. intros [H|[H|[]]]; [exact (Hny H)|]. apply Hx. left; symmetry; exact H.
  - apply IH; [exact Hnt|]. intros H. apply Hx. right; exact H.
Qed.

Definition rename (ri new : rid) (d : grp) : grp :=
  if rid_mem ri (members d) then mkG (gid d) (remove_first ri (members d) ++ [new]) else d.

Lemma agg_step_unfold rqs st i j :
  agg_find rqs st i (s_local st) = Some j ->
  agg_step rqs st i =
    let ri := id_at (s_ids st) i in
    let old := id_at (s_ids st) j in
    let new := old ++ ri in
    mkS (set_nth j new (s_ids st)) (filter (fun k => negb (Nat.eqb k i)) (s_local st))
        (filter (fun d => negb (rid_mem old (members d))) (map (rename ri new) (s_groups st))).
Proof. intros H. unfold agg_step. rewrite H. reflexivity. Qed.

Lemma rename_members ri new d m :
  NoDup (members d) -> In m (members (rename ri new d)) ->
  m = new \/ (In m (members d) /\ m <> ri).
Proof.
  unfold rename. intros Hnd. destruct (rid_mem ri (members d)) eqn:E.
  - cbn [members]. rewrite in_app_iff. intros [H|[<-|[]]]; [right|left; reflexivity].
    split; [eapply remove_first_In; exact H|]. intros ->. exact (proj2 (remove_first_nodup ri _ Hnd) H).
  - intros H. right. split; [exact H|]. intros ->. apply rid_mem_In in H. congruence.
Qed.

Lemma rename_keeps ri new d m : In m (members d) -> m <> ri -> In m (members (rename ri new d)).
Proof.
  unfold rename. intros H Hne. destruct (rid_mem ri (members d)); [|exact H].
  cbn [members]. apply in_or_app. left. apply remove_first_keep; assumption.
Qed.

Lemma rename_new ri new d : In ri (members d) -> In new (members (rename ri new d)).
Proof.
  unfold rename. intros H. apply rid_mem_In in H. rewrite H. cbn [members]. apply in_or_app. right. left. reflexivity.
Qed.

Lemma step_preserves rqs st i :
  Inv st -> In i (s_local st) ->
  let st' := agg_step rqs st i in
  Inv st' /\ (forall a b, Covered (s_groups st) a b -> Covered (s_groups st') a b) /\
  incl (s_local st') (s_local st).
Proof.
  intros HI Hi. cbn zeta. destruct (agg_find rqs st i (s_local st)) as [j|] eqn:Ef.
  2:{ unfold agg_step. rewrite Ef. split; [exact HI|]. split; [auto|apply incl_refl]. }
  rewrite (agg_step_unfold _ _ _ _ Ef). cbn zeta.
  destruct (agg_find_spec _ _ _ _ _ Ef) as (Hj & Hne & Hsd).
  set (ids := s_ids st) in *. set (ri := id_at ids i) in *. set (old := id_at ids j) in *.
  set (new := old ++ ri). set (gs := s_groups st) in *.
  destruct HI as [Hrange Hnonempty Hatoms Hmembers Hnodup]. fold ids gs in Hrange, Hnonempty, Hatoms, Hmembers, Hnodup.
  assert (Hij : i <> j) by (intros ->; apply Hne; reflexivity).
  assert (Hri : ri <> []) by (apply Hnonempty; exact Hi).
  assert (Hold : old <> []) by (apply Hnonempty; exact Hj).
  assert (Hnew_fresh : forall k, In k (s_local st) -> id_at ids k <> new).
  { intros k Hk Heq. destruct (Nat.eq_dec k j) as [->|Hkj].
    - fold old in Heq. symmetry in Heq. exact (nonempty_app_neq old ri Hri Heq).
    - destruct old as [|a o'] eqn:Eo; [congruence|].
      apply (Hatoms k j Hk Hj Hkj a).
      + rewrite Heq. unfold new. left; reflexivity.
      + fold old. rewrite Eo. left; reflexivity. }
  assert (Hnew_notin : forall d, In d gs -> ~ In new (members d)).
  { intros d Hd Hin. destruct (Hmembers d new Hd Hin) as (k & Hk & Hid). exact (Hnew_fresh k Hk Hid). }
  assert (Hidj : id_at (set_nth j new ids) j = new) by (apply id_at_set_nth_same; apply Hrange; exact Hj).
  assert (Hidk : forall k, k <> j -> id_at (set_nth j new ids) k = id_at ids k)
    by (intros k Hk; apply id_at_set_nth_other; exact Hk).
  assert (Hloc : forall k, In k (filter (fun k => negb (Nat.eqb k i)) (s_local st)) <-> In k (s_local st) /\ k <> i).
  { intros k. rewrite filter_In. split; intros (H1 & H2); split; try assumption.
    - intros ->. rewrite Nat.eqb_refl in H2. discriminate.
    - apply negb_true_iff. apply Nat.eqb_neq. exact H2. }
  (* a member of a surviving group is the id of a request that is still there *)
  assert (Hsurv : forall d m, In d gs -> ~ In old (members (rename ri new d)) -> In m (members (rename ri new d)) ->
                  exists k, (In k (s_local st) /\ k <> i) /\ id_at (set_nth j new ids) k = m).
  { intros d m Hd Hnold Hm. destruct (rename_members ri new d m (Hnodup d Hd) Hm) as [->|(Hm' & Hmri)].
    - exists j. split; [split; [exact Hj|congruence]|exact Hidj].
    - destruct (Hmembers d m Hd Hm') as (k & Hk & Hid). exists k. split; [split; [exact Hk|]|].
      + intros ->. apply Hmri. symmetry. exact Hid.
      + rewrite Hidk; [exact Hid|]. intros ->. apply Hnold. fold old in Hid. rewrite Hid. exact Hm. }
  split; [|split].
  - (* invariant *)
    constructor; cbn [s_ids s_local s_groups].
    + intros k Hk. apply Hloc in Hk. rewrite set_nth_length. apply Hrange. tauto.
    + intros k Hk. apply Hloc in Hk. destruct Hk as (Hk & _). destruct (Nat.eq_dec k j) as [->|Hkj].
      * rewrite Hidj. unfold new. destruct old; [congruence|discriminate].
      * rewrite Hidk by exact Hkj. apply Hnonempty. exact Hk.
    + intros k l Hk Hl Hkl. apply Hloc in Hk, Hl. destruct Hk as (Hk & Hki), Hl as (Hl & Hli).
      destruct (Nat.eq_dec k j) as [->|Hkj]; destruct (Nat.eq_dec l j) as [->|Hlj]; try congruence.
      * rewrite Hidj, (Hidk l Hlj). intros a Ha. unfold new in Ha. apply in_app_or in Ha. destruct Ha as [Ha|Ha].
        -- apply (Hatoms j l Hj Hl Hkl a). exact Ha.
        -- apply (Hatoms i l Hi Hl (not_eq_sym Hli) a). exact Ha.
      * rewrite Hidj, (Hidk k Hkj). intros a Ha Hb. unfold new in Hb. apply in_app_or in Hb. destruct Hb as [Hb|Hb].
        -- apply (Hatoms k j Hk Hj Hkl a); assumption.
        -- apply (Hatoms k i Hk Hi Hki a); assumption.
      * rewrite (Hidk k Hkj), (Hidk l Hlj). apply Hatoms; assumption.
    + intros d' m Hd' Hm. apply filter_In in Hd'. destruct Hd' as (Hd' & Hnold).
      apply in_map_iff in Hd'. destruct Hd' as (d & <- & Hd).
      assert (Hno : ~ In old (members (rename ri new d))).
      { intros H. apply rid_mem_In in H. rewrite H in Hnold. discriminate. }
      destruct (Hsurv d m Hd Hno Hm) as (k & Hk & Hid). exists k. split; [apply Hloc; exact Hk|exact Hid].
    + intros d' Hd'. apply filter_In in Hd'. destruct Hd' as (Hd' & _).
      apply in_map_iff in Hd'. destruct Hd' as (d & <- & Hd). unfold rename.
      destruct (rid_mem ri (members d)); [|apply Hnodup; exact Hd]. cbn [members].
      apply NoDup_snoc; [apply remove_first_nodup; apply Hnodup; exact Hd|].
      intros H. apply (Hnew_notin d Hd). eapply remove_first_In. exact H.
  - (* declared pairs stay declared *)
    cbn [s_groups]. intros a b (d & x & y & Hd & Hx & Hy & Ha & Hb & Hxy).
    assert (Hgroup : forall d0 x0 y0, In d0 gs -> ~ In old (members d0) -> In x0 (members d0) -> In y0 (members d0) ->
                     In a x0 -> In b y0 -> x0 <> y0 ->
                     Covered (filter (fun d => negb (rid_mem old (members d))) (map (rename ri new) gs)) a b).
    { intros d0 x0 y0 Hd0 Hno Hx0 Hy0 Ha0 Hb0 Hxy0.
      assert (Hno' : ~ In old (members (rename ri new d0))).
      { intros H. destruct (rename_members ri new d0 old (Hnodup d0 Hd0) H) as [He|(He & _)]; [|exact (Hno He)].
        symmetry in He. exact (nonempty_app_neq old ri Hri He). }
      assert (Hin : In (rename ri new d0) (filter (fun d => negb (rid_mem old (members d))) (map (rename ri new) gs))).
      { apply filter_In. split; [apply in_map; exact Hd0|]. apply negb_true_iff.
        destruct (rid_mem old (members (rename ri new d0))) eqn:E; [apply rid_mem_In in E; contradiction|reflexivity]. }
      destruct (list_eq_dec Z.eq_dec x0 ri) as [Hxr|Hxr]; destruct (list_eq_dec Z.eq_dec y0 ri) as [Hyr|Hyr].
      - congruence.
      - subst x0. exists (rename ri new d0), new, y0. repeat split; try assumption.
        + apply rename_new. exact Hx0.
        + apply rename_keeps; assumption.
        + unfold new. apply in_or_app. right. exact Ha0.
        + intros <-. exact (Hnew_notin d0 Hd0 Hy0).
      - subst y0. exists (rename ri new d0), x0, new. repeat split; try assumption.
        + apply rename_keeps; assumption.
        + apply rename_new. exact Hy0.
        + unfold new. apply in_or_app. right. exact Hb0.
        + intros ->. exact (Hnew_notin d0 Hd0 Hx0).
      - exists (rename ri new d0), x0, y0. repeat split; try assumption; apply rename_keeps; assumption. }
    destruct (in_dec (list_eq_dec Z.eq_dec) old (members d)) as [Hoin|Honot].
    2:{ apply (Hgroup d x y); assumption. }
    (* the group is deleted: a group of ri with the same other members takes over *)
    assert (Hshape : exists d', In d' gs /\ In ri (members d') /\
                                set_eq (rid_remove_all ri (members d')) (rid_remove_all old (members d)) = true).
    { unfold same_disj in Hsd. fold ri old gs in Hsd.
      assert (Hio : in_some old gs = true) by (apply in_some_spec; exists d; split; assumption).
      rewrite Hio in Hsd. destruct (in_some ri gs); [|discriminate].
      assert (Hs : In (rid_remove_all old (members d)) (shape old gs)).
      { apply shape_In. exists d. repeat split; assumption. }
      destruct (ms_eq_cover _ _ Hsd _ Hs) as (s1 & Hs1 & Hse). apply shape_In in Hs1.
      destruct Hs1 as (d' & Hd' & Hrid' & ->). exists d'. repeat split; assumption. }
    destruct Hshape as (d' & Hd' & Hrid' & Hse). rewrite set_eq_spec in Hse.
    assert (Hno' : ~ In old (members d')).
    { intros H. assert (H' : In old (rid_remove_all ri (members d'))) by (apply rid_remove_all_In; split; [exact H|congruence]).
      apply Hse in H'. apply rid_remove_all_In in H'. destruct H' as (_ & H'). congruence. }
    assert (Hmove : forall z, In z (members d) -> z <> old -> In z (members d') /\ z <> ri).
    { intros z Hz Hzo. apply rid_remove_all_In. apply Hse. apply rid_remove_all_In. split; assumption. }
    assert (Hin : In (rename ri new d') (filter (fun d => negb (rid_mem old (members d))) (map (rename ri new) gs))).
    { apply filter_In. split; [apply in_map; exact Hd'|]. apply negb_true_iff.
      destruct (rid_mem old (members (rename ri new d'))) eqn:E; [|reflexivity]. apply rid_mem_In in E.
      destruct (rename_members ri new d' old (Hnodup d' Hd') E) as [He|(He & _)]; [|contradiction].
      symmetry in He. exfalso. exact (nonempty_app_neq old ri Hri He). }
    destruct (list_eq_dec Z.eq_dec x old) as [Hxo|Hxo]; destruct (list_eq_dec Z.eq_dec y old) as [Hyo|Hyo].
    + congruence.
    + subst x. destruct (Hmove y Hy Hyo) as (Hy' & Hyr).
      exists (rename ri new d'), new, y. repeat split; try assumption.
      * apply rename_new. exact Hrid'.
      * apply rename_keeps; assumption.
      * unfold new. apply in_or_app. left. exact Ha.
      * intros <-. exact (Hnew_notin d' Hd' Hy').
    + subst y. destruct (Hmove x Hx Hxo) as (Hx' & Hxr).
      exists (rename ri new d'), x, new. repeat split; try assumption.
      * apply rename_keeps; assumption.
      * apply rename_new. exact Hrid'.
      * unfold new. apply in_or_app. left. exact Hb.
      * intros ->. exact (Hnew_notin d' Hd' Hx').
    + destruct (Hmove x Hx Hxo) as (Hx' & Hxr). destruct (Hmove y Hy Hyo) as (Hy' & Hyr).
      exists (rename ri new d'), x, y. repeat split; try assumption; apply rename_keeps; assumption.
  - cbn [s_local]. intros k Hk. apply Hloc in Hk. tauto.
Qed.

Lemma step_keeps_local rqs st i k : In k (s_local st) -> k <> i -> In k (s_local (agg_step rqs st i)).
Proof.
  intros Hk Hne. unfold agg_step. destruct (agg_find rqs st i (s_local st)); [|exact Hk].
  cbn [s_local]. apply filter_In. split; [exact Hk|]. apply negb_true_iff. apply Nat.eqb_neq. exact Hne.
Qed.

Lemma fold_preserves rqs : forall l st,
  NoDup l -> (forall k, In k l -> In k (s_local st)) -> Inv st ->
  let st' := fold_left (agg_step rqs) l st in
  Inv st' /\ (forall a b, Covered (s_groups st) a b -> Covered (s_groups st') a b).
Proof.
  induction l as [|i t IH]; intros st Hnd Hin HI; cbn [fold_left]; [split; [exact HI|auto]|].
  inversion Hnd as [|? ? Hni Hnt]; subst.
  destruct (step_preserves rqs st i HI (Hin i (or_introl eq_refl))) as (HI1 & Hc1 & _).
  destruct (IH (agg_step rqs st i) Hnt) as (HI2 & Hc2).
  - intros k Hk. apply step_keeps_local; [apply Hin; right; exact Hk|]. intros ->. contradiction.
  - exact HI1.
  - split; [exact HI2|]. intros a b H. apply Hc2, Hc1. exact H.
Qed.

Lemma inv_no_stale st : Inv st -> no_stale (final_ids st) (s_groups st) = true.
Proof.
  intros HI. unfold no_stale, final_ids. apply forallb_forall. intros d Hd. apply forallb_forall. intros m Hm.
  apply rid_mem_In. destruct (inv_members st HI d m Hd Hm) as (k & Hk & <-). apply in_map. exact Hk.
Qed.

(* groups_preserved for requests_aggregation: every pair declared disjoint is still declared for the requests
   that now carry it, and no group names a request that no longer exists.
   Hypothesis = well-formed input (Inv of the initial state): request ids are non-empty and share no atom, groups
   only name existing requests and name each at most once. *)
Theorem aggregate_preserves rqs gs :
  Inv (mkS (map a_id rqs) (seq 0 (length rqs)) gs) ->
  let st := aggregate rqs gs in
  (forall a b, Covered gs a b -> Covered (s_groups st) a b) /\
  no_stale (final_ids st) (s_groups st) = true.
Proof.
  intros HI. cbn zeta. unfold aggregate.
  destruct (fold_preserves rqs (seq 0 (length rqs)) (mkS (map a_id rqs) (seq 0 (length rqs)) gs)
              (seq_NoDup _ _) (fun k H => H) HI) as (HI' & Hc).
  split; [exact Hc|]. apply inv_no_stale. exact HI'.
Qed.

(* non-vacuity: the K2 / K3 witnesses are well-formed inputs, and the repaired aggregation keeps their pairs *)
Lemma k2_inv : Inv (mkS (map a_id k2_rqs) (seq 0 (length k2_rqs)) k2_groups).
Proof.
  constructor; cbn [s_ids s_local s_groups k2_rqs k2_groups map a_id length seq].
  - intros k H. cbn in H. cbn. lia.
  - intros k H. cbn in H. unfold id_at. destruct H as [<-|[<-|[<-|[<-|[]]]]]; discriminate.
  - intros k l Hk Hl Hkl a. unfold id_at. cbn in Hk, Hl.
    destruct Hk as [<-|[<-|[<-|[<-|[]]]]]; destruct Hl as [<-|[<-|[<-|[<-|[]]]]]; try congruence;
      cbn; intros [<-|[]] [H|[]]; discriminate.
  - intros d m Hd Hm. unfold id_at. cbn in Hd.
    destruct Hd as [<-|[<-|[<-|[]]]]; cbn in Hm;
      repeat (destruct Hm as [<-|Hm]; [first [exists 0%nat; split; [cbn; tauto|reflexivity]
                                            |exists 1%nat; split; [cbn; tauto|reflexivity]
                                            |exists 2%nat; split; [cbn; tauto|reflexivity]
                                            |exists 3%nat; split; [cbn; tauto|reflexivity]]|]); destruct Hm.
  - intros d Hd. cbn in Hd. destruct Hd as [<-|[<-|[<-|[]]]]; cbn [members];
      repeat constructor; cbn; intuition discriminate.
Qed.

(* ================================================================== existence of a disjoint assignment (whole batch) *)
Fixpoint all_compat (groups : list (list Z)) (new chosen : list item) : Prop :=
  match new with
  | [] => True
  | x :: t => Forall (fun c => compat groups x c = true) chosen /\ all_compat groups t (x :: chosen)
  end.

Lemma assign_spec groups : forall rqs chosen,
  assign groups rqs chosen = true <->
  exists ls, Forall2 (fun rq l => In l (snd rq)) rqs ls /\ all_compat groups (combine (map fst rqs) ls) chosen.
Proof.
  induction rqs as [|(r, cs) rest IH]; intros chosen; cbn [assign].
  - split; [intros _; exists []; split; [constructor|exact I]|reflexivity].
  - rewrite existsb_lazy_spec. split.
    + intros (l & Hl & H). destruct (forallb (compat groups (r, l)) chosen) eqn:Ef; [|discriminate].
      apply IH in H. destruct H as (ls & Hls & Hac). exists (l :: ls). split; [constructor; assumption|].
      cbn [map fst combine all_compat]. split; [|exact Hac]. apply Forall_forall. rewrite forallb_forall in Ef. exact Ef.
    + intros (ls & Hls & Hac). inversion Hls as [|? l ? ls' Hl Hls']; subst. cbn [map fst combine all_compat snd] in *.
      destruct Hac as (Hf & Hac). exists l. split; [exact Hl|].
      assert (Ef : forallb (compat groups (r, l)) chosen = true).
      { apply forallb_forall. rewrite Forall_forall in Hf. exact Hf. }
      rewrite Ef. apply IH. exists ls'. split; assumption.
Qed.

Lemma all_compat_split groups : forall new chosen,
  all_compat groups new chosen <->
  Forall (fun x => Forall (fun c => compat groups x c = true) chosen) new /\
  ForallOrdPairs (fun x y => compat groups y x = true) new.
Proof.
  induction new as [|x t IH]; intros chosen; cbn [all_compat].
  - split; [intros _; split; constructor|tauto].
  - rewrite IH. split.
    + intros (Hx & Ht & Hp). split.
      * constructor; [exact Hx|]. rewrite Forall_forall in *. intros y Hy. specialize (Ht y Hy).
        inversion Ht; assumption.
      * constructor; [|exact Hp]. rewrite Forall_forall in *. intros y Hy. specialize (Ht y Hy).
        inversion Ht; assumption.
    + intros (Hall & Hp). inversion Hall as [|? ? Hx Ht]; subst. inversion Hp as [|? ? Hxp Hp']; subst.
      split; [exact Hx|]. split; [|exact Hp']. rewrite Forall_forall in *. intros y Hy. constructor.
      * apply Hxp. exact Hy.
      * apply Ht. exact Hy.
Qed.

Lemma conflict_sym groups a b : conflict groups a b = conflict groups b a.
Proof.
  unfold conflict. f_equal; [f_equal; lia|]. induction groups as [|g t IH]; [reflexivity|]. cbn [existsb].
  rewrite IH. f_equal. apply andb_comm.
Qed.

Lemma conflict_spec groups a b :
  conflict groups a b = true <-> a <> b /\ exists grp, In grp groups /\ In a grp /\ In b grp.
Proof.
  unfold conflict. rewrite andb_true_iff, existsb_exists. split.
  - intros (Hne & grp & Hg & H). apply andb_true_iff in H. destruct H as (Ha & Hb). apply memZ_In in Ha, Hb.
    split; [lia|]. exists grp. repeat split; assumption.
  - intros (Hne & grp & Hg & Ha & Hb). split; [lia|]. exists grp. split; [exact Hg|].
    apply andb_true_iff. split; apply memZ_In; assumption.
Qed.

Lemma compat_paths n groups a pa b pb :
  compat groups (b, links n pb) (a, links n pa) = true <->
  (conflict groups a b = true -> no_common_link n pa pb).
Proof.
  unfold compat. cbn [fst snd]. rewrite (conflict_sym groups b a), share_sym.
  destruct (conflict groups a b); cbn [negb orb].
  - rewrite negb_true_iff, share_false. tauto.
  - split; [discriminate|reflexivity].
Qed.

Lemma Forall2_pick {A B C} (P : A -> B -> Prop) (f : B -> C) : forall l ls,
  Forall2 (fun a c => exists b, P a b /\ c = f b) l ls -> exists bs, Forall2 P l bs /\ ls = map f bs.
Proof.
  induction 1 as [|a c l ls (b & Hb & ->) _ (bs & Hbs & ->)]; [exists []; split; constructor|].
  exists (b :: bs). split; [constructor; assumption|reflexivity].
Qed.

Lemma FOP_map {A B} (f : A -> B) (R : B -> B -> Prop) : forall l,
  ForallOrdPairs R (map f l) <-> ForallOrdPairs (fun x y => R (f x) (f y)) l.
Proof.
  induction l as [|x t IH]; cbn [map]; [split; constructor|]. split; intros H; inversion H; subst; constructor;
    try (apply IH; assumption).
  - rewrite Forall_map in *. assumption.
  - rewrite Forall_map. assumption.
Qed.

Definition cand_items (n : net) (cutoff : nat) (rqs : list breq) : list (Z * list (list (Z * Z))) :=
  map (fun r => (b_id r, map (links n) (cands n (b_src r) (b_dst r) (b_inc r) cutoff))) rqs.

Lemma cands_pick n cutoff : forall rqs ls,
  Forall2 (fun rq l => In l (snd rq)) (cand_items n cutoff rqs) ls ->
  Forall2 (fun r l => exists p, (Route (ngraph n) (b_src r) (b_dst r) (b_inc r) p /\ (length p <= S cutoff)%nat)
                                /\ l = links n p) rqs ls.
Proof.
  induction rqs as [|r t IH]; intros ls H; cbn [cand_items map] in H.
  - inversion H; subst. constructor.
  - inversion H as [|x l xs ls' Hin Hrest]; subst. constructor; [|apply IH; exact Hrest].
    cbn [snd] in Hin. apply in_map_iff in Hin. destruct Hin as (p & <- & Hp). apply cands_spec in Hp.
    exists p. split; [exact Hp|reflexivity].
Qed.

Lemma cands_unpick n cutoff : forall rqs ps,
  Forall2 (fun r p => Route (ngraph n) (b_src r) (b_dst r) (b_inc r) p /\ (length p <= S cutoff)%nat) rqs ps ->
  Forall2 (fun rq l => In l (snd rq)) (cand_items n cutoff rqs) (map (links n) ps).
Proof.
  induction 1 as [|r p rqs' ps' (Hr & Hl) _ IH]; cbn [cand_items map]; constructor; [|exact IH].
  cbn [snd]. apply in_map. apply cands_spec. split; assumption.
Qed.

Lemma cand_items_ids n cutoff rqs : map fst (cand_items n cutoff rqs) = map b_id rqs.
Proof. unfold cand_items. rewrite map_map. reflexivity. Qed.

Lemma combine_map_links n : forall (ids : list Z) (ps : list (list Z)),
  combine ids (map (links n) ps) = map (fun x : Z * list Z => (fst x, links n (snd x))) (combine ids ps).
Proof. induction ids as [|i ids IH]; intros [|p ps]; cbn; try reflexivity. rewrite IH. reflexivity. Qed.

Lemma FOP_ext {A} (R R' : A -> A -> Prop) l :
  (forall x y, R x y -> R' x y) -> ForallOrdPairs R l -> ForallOrdPairs R' l.
Proof.
  intros H. induction 1 as [|a l Ha _ IH]; constructor; [|exact IH].
  rewrite Forall_forall in *. intros y Hy. apply H. apply Ha. exact Hy.
Qed.

(* sound and complete: an assignment exists exactly when the procedure says so (routes of at most cutoff links).
   The statement is positional: for any two positions i < j of the batch whose requests are named together in some
   group, the chosen routes share no link. *)
Theorem exists_disjoint_assignment_spec n cutoff groups rqs :
  exists_disjoint_assignment n cutoff groups rqs = true <->
  exists ps,
    Forall2 (fun r p => Route (ngraph n) (b_src r) (b_dst r) (b_inc r) p /\ (length p <= S cutoff)%nat) rqs ps /\
    ForallOrdPairs (fun x y => conflict groups (fst x) (fst y) = true -> no_common_link n (snd x) (snd y))
                   (combine (map b_id rqs) ps).
Proof.
  unfold exists_disjoint_assignment. fold (cand_items n cutoff rqs). rewrite assign_spec, cand_items_ids. split.
  - intros (ls & Hls & Hac). apply all_compat_split in Hac. destruct Hac as (_ & Hp).
    destruct (Forall2_pick _ _ _ _ (cands_pick n cutoff rqs ls Hls)) as (ps & Hps & ->).
    exists ps. split; [exact Hps|].
    rewrite combine_map_links in Hp. apply FOP_map in Hp.
    eapply FOP_ext; [|exact Hp]. intros (a, pa) (b, pb) H. cbn [fst snd] in *. apply compat_paths. exact H.
  - intros (ps & Hps & Hp). exists (map (links n) ps). split; [apply cands_unpick; exact Hps|].
    apply all_compat_split. split; [apply Forall_forall; intros x _; constructor|].
    rewrite combine_map_links. apply FOP_map.
    eapply FOP_ext; [|exact Hp]. intros (a, pa) (b, pb) H. cbn [fst snd] in *. apply compat_paths. exact H.
Qed.

(* ================================================================== deduplicate_disjunctions is NOT complete:
   two groups with the same set of requests and different ids can both survive (remove-while-iterating skips).
   Six groups a b a a b b (a = {1,2}, b = {3,4}) -> the groups 1, 3, 5 remain, 1 and 5 are both b. *)
Definition dd_witness : list grp :=
  [mkG 0 [[1]; [2]]; mkG 1 [[3]; [4]]; mkG 2 [[1]; [2]]; mkG 3 [[1]; [2]]; mkG 4 [[3]; [4]]; mkG 5 [[3]; [4]]].
Theorem dedup_complete_refuted :
  exists l d d', NoDup (map gid l) /\ In d (deduplicate l) /\ In d' (deduplicate l) /\
                 gid d <> gid d' /\ set_eq (members d) (members d') = true.
Proof.
  exists dd_witness, (mkG 1 [[3]; [4]]), (mkG 5 [[3]; [4]]).
  split; [repeat constructor; cbn; intuition discriminate|].
  split; [vm_compute; tauto|]. split; [vm_compute; tauto|]. split; [discriminate|reflexivity].
Qed.
