(* C12 — proofs about Model/Disjoint.v *)
From Coq Require Import Lia ZifyBool.
From Verif Require Import Prelude Model.Route Proofs.Route Model.Disjoint.
Open Scope Z_scope.

(* ------------------------------------------------------------------ pairs of integers *)
Lemma pair_eqb_eq x y : pair_eqb x y = true <-> x = y.
Proof.
  destruct x as (a, b), y as (c, d). unfold pair_eqb. cbn [fst snd]. rewrite andb_true_iff. split.
  - intros (H1 & H2). f_equal; lia.
  - intros H. injection H as -> ->. split; lia.
Qed.

Lemma mem_pair_In x l : mem_pair x l = true <-> In x l.
Proof.
  induction l as [|y t IH]; cbn [mem_pair In]; [split; [discriminate|tauto]|].
  destruct (pair_eqb x y) eqn:E.
  - apply pair_eqb_eq in E. split; [intros _; left; congruence|reflexivity].
  - rewrite IH. split; [tauto|]. intros [H|H]; [|exact H]. symmetry in H. apply pair_eqb_eq in H. congruence.
Qed.

Lemma any_in_spec e1 e2 : any_in e1 e2 = true <-> exists e, In e e1 /\ In e e2.
Proof.
  induction e1 as [|e t IH]; cbn [any_in].
  - split; [discriminate|]. intros (e & [] & _).
  - destruct (mem_pair e e2) eqn:E.
    + apply mem_pair_In in E. split; [intros _; exists e; split; [left; reflexivity|exact E]|reflexivity].
    + rewrite IH. split.
      * intros (x & Hx & Hx2). exists x. split; [right; exact Hx|exact Hx2].
      * intros (x & [<-|Hx] & Hx2).
        -- apply mem_pair_In in Hx2. congruence.
        -- exists x. split; assumption.
Qed.

Lemma any_in_false e1 e2 : any_in e1 e2 = false <-> forall e, In e e1 -> ~ In e e2.
Proof.
  split.
  - intros H e H1 H2. assert (any_in e1 e2 = true) by (apply any_in_spec; exists e; split; assumption). congruence.
  - intros H. destruct (any_in e1 e2) eqn:E; [|reflexivity]. apply any_in_spec in E.
    destruct E as (e & H1 & H2). exfalso. exact (H e H1 H2).
Qed.

Lemma share_sym l1 l2 : share l1 l2 = share l2 l1.
Proof.
  unfold share. destruct (any_in l1 l2) eqn:E1, (any_in l2 l1) eqn:E2; try reflexivity.
  - apply any_in_spec in E1. destruct E1 as (e & H1 & H2).
    assert (any_in l2 l1 = true) by (apply any_in_spec; exists e; split; assumption). congruence.
  - apply any_in_spec in E2. destruct E2 as (e & H1 & H2).
    assert (any_in l1 l2 = true) by (apply any_in_spec; exists e; split; assumption). congruence.
Qed.

(* ------------------------------------------------------------------ isdisjoint *)
Lemma pairwise_spec : forall p x y, In (x, y) (pairwise p) <-> exists l1 l2, p = l1 ++ x :: y :: l2.
Proof.
  induction p as [|a q IH]; intros x y.
  - cbn. split; [tauto|]. intros (l1 & l2 & H). destruct l1; discriminate.
  - destruct q as [|b q'].
    + cbn. split; [tauto|]. intros (l1 & l2 & H). destruct l1 as [|? [|? ?]]; discriminate.
    + change (pairwise (a :: b :: q')) with ((a, b) :: pairwise (b :: q')). cbn [In]. rewrite IH. split.
      * intros [H|(l1 & l2 & H)].
        -- injection H as -> ->. exists [], q'. reflexivity.
        -- exists (a :: l1), l2. cbn. rewrite H. reflexivity.
      * intros (l1 & l2 & H). destruct l1 as [|c l1'].
        -- cbn in H. injection H as -> -> _. left; reflexivity.
        -- cbn in H. injection H as -> H. right. exists l1', l2. exact H.
Qed.

(* isdisjoint returns 0 exactly when the two lists have no common consecutive pair *)
Theorem isdisjoint_spec p1 p2 :
  isdisjoint p1 p2 = 0 <->
  forall x y, (exists l1 l2, p1 = l1 ++ x :: y :: l2) -> ~ exists l1 l2, p2 = l1 ++ x :: y :: l2.
Proof.
  unfold isdisjoint. destruct (any_in (pairwise p1) (pairwise p2)) eqn:E.
  - split; [discriminate|]. intros H. exfalso. apply any_in_spec in E. destruct E as ((x, y) & H1 & H2).
    apply (H x y); apply pairwise_spec; assumption.
  - split; [|reflexivity]. intros _ x y H1 H2. rewrite any_in_false in E.
    apply (E (x, y)); apply pairwise_spec; assumption.
Qed.

Theorem isdisjoint_01 p1 p2 : isdisjoint p1 p2 = 0 \/ isdisjoint p1 p2 = 1.
Proof. unfold isdisjoint. destruct (any_in _ _); [right|left]; reflexivity. Qed.

(* ------------------------------------------------------------------ validator of a set of returned paths *)
Definition no_common_link (n : net) (p q : list Z) : Prop :=
  forall l, In l (links n p) -> ~ In l (links n q).

Lemma share_false n p q : share (links n p) (links n q) = false <-> no_common_link n p q.
Proof. unfold share, no_common_link. apply any_in_false. Qed.

Lemma all_pairs_ok_spec (f : Z -> Z -> bool) :
  (forall a b, f a b = f b a) -> (forall a, f a a = true) ->
  forall l, all_pairs_ok f l = true <-> forall a b, In a l -> In b l -> f a b = true.
Proof.
  intros Hsym Hrefl. induction l as [|x t IH]; cbn [all_pairs_ok].
  - split; [intros _ a b []|reflexivity].
  - rewrite andb_true_iff, forallb_forall, IH. split.
    + intros (Hx & Ht) a b [<-|Ha] [<-|Hb].
      * apply Hrefl.
      * apply Hx; exact Hb.
      * rewrite Hsym. apply Hx; exact Ha.
      * apply Ht; assumption.
    + intros H. split.
      * intros b Hb. apply H; [left; reflexivity|right; exact Hb].
      * intros a b Ha Hb. apply H; right; assumption.
Qed.

Lemma pair_ok_sym n paths a b : pair_ok n paths a b = pair_ok n paths b a.
Proof. unfold pair_ok. rewrite share_sym. f_equal. lia. Qed.

Lemma pair_ok_refl n paths a : pair_ok n paths a a = true.
Proof. unfold pair_ok. rewrite Z.eqb_refl. reflexivity. Qed.

Theorem disjoint_ok_spec n paths groups :
  disjoint_ok n paths groups = true <->
  forall grp, In grp groups -> forall a b, In a grp -> In b grp -> a <> b ->
    no_common_link n (path_of paths a) (path_of paths b).
Proof.
  unfold disjoint_ok. rewrite forallb_forall. split.
  - intros H grp Hg a b Ha Hb Hab. specialize (H grp Hg).
    rewrite (all_pairs_ok_spec _ (pair_ok_sym n paths) (pair_ok_refl n paths)) in H.
    specialize (H a b Ha Hb). unfold pair_ok in H. apply orb_true_iff in H. destruct H as [H|H]; [lia|].
    apply negb_true_iff in H. apply share_false. exact H.
  - intros H grp Hg. apply (all_pairs_ok_spec _ (pair_ok_sym n paths) (pair_ok_refl n paths)).
    intros a b Ha Hb. unfold pair_ok. destruct (a =? b) eqn:E; [reflexivity|]. cbn [orb].
    apply negb_true_iff. apply share_false. apply (H grp Hg a b Ha Hb). lia.
Qed.

(* ------------------------------------------------------------------ existence of a disjoint pair *)
Lemma existsb_lazy_spec {A} (f : A -> bool) l : existsb_lazy f l = true <-> exists x, In x l /\ f x = true.
Proof.
  induction l as [|x t IH]; cbn [existsb_lazy].
  - split; [discriminate|]. intros (x & [] & _).
  - destruct (f x) eqn:E.
    + split; [intros _; exists x; split; [left; reflexivity|exact E]|reflexivity].
    + rewrite IH. split.
      * intros (y & Hy & Hf). exists y. split; [right; exact Hy|exact Hf].
      * intros (y & [<-|Hy] & Hf); [congruence|]. exists y. split; assumption.
Qed.

Lemma cands_spec n s t inc cutoff p :
  In p (cands n s t inc cutoff) <-> Route (ngraph n) s t inc p /\ (length p <= S cutoff)%nat.
Proof.
  unfold cands. rewrite filter_In, andb_true_iff, all_routes_spec, Nat.leb_le. unfold Route. split.
  - intros ((Hw & Hnd & Hh & Hl & _) & Hi & Hlen). split; [|exact Hlen].
    repeat split; try assumption. apply ispart_spec; assumption.
  - intros ((Hw & Hnd & Hh & Hl & Hv) & Hlen). split; [repeat split; try assumption; constructor|].
    split; [apply ispart_spec; assumption|exact Hlen].
Qed.

(* complete for candidate paths of at most `cutoff` links (the documented search cut-off is 80) *)
Theorem exists_disjoint_pair_spec n s1 t1 inc1 s2 t2 inc2 cutoff :
  exists_disjoint_pair n s1 t1 inc1 s2 t2 inc2 cutoff = true <->
  exists p1 p2,
    Route (ngraph n) s1 t1 inc1 p1 /\ (length p1 <= S cutoff)%nat /\
    Route (ngraph n) s2 t2 inc2 p2 /\ (length p2 <= S cutoff)%nat /\
    no_common_link n p1 p2.
Proof.
  unfold exists_disjoint_pair. rewrite existsb_lazy_spec. split.
  - intros (p1 & H1 & H). apply existsb_lazy_spec in H. destruct H as (l2 & Hl2 & Hd).
    apply in_map_iff in Hl2. destruct Hl2 as (p2 & <- & H2).
    apply cands_spec in H1, H2. destruct H1 as (R1 & L1), H2 as (R2 & L2).
    exists p1, p2. split; [exact R1|]. split; [exact L1|]. split; [exact R2|]. split; [exact L2|].
    apply share_false. apply negb_true_iff. exact Hd.
  - intros (p1 & p2 & R1 & L1 & R2 & L2 & Hd). exists p1. split; [apply cands_spec; split; assumption|].
    apply existsb_lazy_spec. exists (links n p2). split.
    + apply in_map. apply cands_spec. split; assumption.
    + apply negb_true_iff. apply share_false. exact Hd.
Qed.

(* ------------------------------------------------------------------ request ids, sets of ids *)
Lemma zlist_eqb_refl : forall a, zlist_eqb a a = true.
Proof. induction a as [|x a IH]; [reflexivity|]. cbn [zlist_eqb]. rewrite Z.eqb_refl, IH. reflexivity. Qed.

Lemma zlist_eqb_iff a b : zlist_eqb a b = true <-> a = b.
Proof. split; [apply zlist_eqb_eq|intros ->; apply zlist_eqb_refl]. Qed.

Lemma rid_mem_In x l : rid_mem x l = true <-> In x l.
Proof.
  induction l as [|y t IH]; cbn [rid_mem In]; [split; [discriminate|tauto]|].
  destruct (zlist_eqb x y) eqn:E.
  - apply zlist_eqb_iff in E. split; [intros _; left; congruence|reflexivity].
  - rewrite IH. split; [tauto|]. intros [H|H]; [|exact H]. symmetry in H. apply zlist_eqb_iff in H. congruence.
Qed.

Lemma rid_incl_spec a b : rid_incl a b = true <-> incl a b.
Proof.
  unfold rid_incl. rewrite forallb_forall. unfold incl. split.
  - intros H x Hx. apply rid_mem_In. apply H. exact Hx.
  - intros H x Hx. apply rid_mem_In. apply H. exact Hx.
Qed.

Lemma set_eq_spec a b : set_eq a b = true <-> forall x, In x a <-> In x b.
Proof.
  unfold set_eq. rewrite andb_true_iff, !rid_incl_spec. unfold incl. split.
  - intros (H1 & H2) x. split; [apply H1|apply H2].
  - intros H. split; intros x Hx; apply H; exact Hx.
Qed.

Lemma set_eq_refl a : set_eq a a = true.
Proof. apply set_eq_spec. tauto. Qed.
Lemma set_eq_sym a b : set_eq a b = true -> set_eq b a = true.
Proof. rewrite !set_eq_spec. intros H x. symmetry. apply H. Qed.
Lemma set_eq_trans a b c : set_eq a b = true -> set_eq b c = true -> set_eq a c = true.
Proof. rewrite !set_eq_spec. intros H1 H2 x. rewrite H1. apply H2. Qed.

(* ------------------------------------------------------------------ deduplicate_disjunctions *)
Lemma remove_at_incl {A} : forall k (l : list A), incl (remove_at k l) l.
Proof.
  induction k as [|k IH]; intros l; destruct l as [|x t]; cbn [remove_at].
  - intros z Hz. exact Hz.
  - intros z Hz. right; exact Hz.
  - intros z Hz. exact Hz.
  - intros z [<-|Hz]; [left; reflexivity|right; apply IH; exact Hz].
Qed.

Lemma remove_at_keeps {A} : forall k (l : list A) d x,
  nth_error l k = Some d -> In x l -> x <> d -> In x (remove_at k l).
Proof.
  induction k as [|k IH]; intros [|y t] d x Hn Hin Hne; cbn in Hn; try discriminate.
  - injection Hn as ->. cbn [remove_at]. destruct Hin as [<-|Hin]; [congruence|exact Hin].
  - cbn [remove_at]. destruct Hin as [<-|Hin]; [left; reflexivity|right; eapply IH; eassumption].
Qed.

(* every set of requests represented in `src` is represented in l *)
Definition represents (src l : list grp) : Prop :=
  forall d, In d src -> exists d', In d' l /\ set_eq (members d) (members d') = true.

Lemma dd_inner_inv src elem : forall fuel l j,
  In elem l -> represents src l -> incl l src ->
  let l' := dd_inner elem l j fuel in In elem l' /\ represents src l' /\ incl l' src.
Proof.
  induction fuel as [|f IH]; intros l j Hel Hrep Hincl; cbn [dd_inner]; [auto|].
  destruct (nth_error l j) as [d|] eqn:En; [|auto].
  destruct (set_eq (members elem) (members d) && negb (gid elem =? gid d)) eqn:Ec; [|apply IH; assumption].
  apply andb_true_iff in Ec. destruct Ec as (Eset & Egid).
  assert (Hne : elem <> d) by (intros ->; rewrite Z.eqb_refl in Egid; discriminate).
  apply IH.
  - eapply remove_at_keeps; eassumption.
  - intros x Hx. destruct (Hrep x Hx) as (x' & Hx' & Hs).
    (* either x' survives the removal, or x' = d and elem represents x *)
    assert (Hdec : x' = d \/ x' <> d).
    { destruct x' as [g1 m1], d as [g2 m2].
      destruct (Z.eq_dec g1 g2) as [->|Hg]; [|right; congruence].
      destruct (list_eq_dec (list_eq_dec Z.eq_dec) m1 m2) as [->|Hm]; [left; reflexivity|right; congruence]. }
    destruct Hdec as [->|Hnd].
    + exists elem. split; [eapply remove_at_keeps; eassumption|].
      eapply set_eq_trans; [exact Hs|apply set_eq_sym; exact Eset].
    + exists x'. split; [eapply remove_at_keeps; eassumption|exact Hs].
  - intros x Hx. apply Hincl. eapply remove_at_incl. exact Hx.
Qed.

Lemma dd_outer_inv src : forall fuel l i,
  represents src l -> incl l src ->
  let l' := dd_outer l i fuel in represents src l' /\ incl l' src.
Proof.
  induction fuel as [|f IH]; intros l i Hrep Hincl; cbn [dd_outer]; [auto|].
  destruct (nth_error l i) as [elem|] eqn:En; [|auto].
  assert (Hel : In elem l) by (eapply nth_error_In; exact En).
  destruct (dd_inner_inv src elem (S (length l)) l 0%nat Hel Hrep Hincl) as (_ & Hr & Hi).
  apply IH; assumption.
Qed.

(* groups_preserved: every declared set of requests is still declared after de-duplication, and nothing is invented *)
Theorem dedup_groups_preserved l :
  (forall d, In d l -> exists d', In d' (deduplicate l) /\ set_eq (members d) (members d') = true) /\
  incl (deduplicate l) l.
Proof.
  unfold deduplicate. apply (dd_outer_inv l).
  - intros d Hd. exists d. split; [exact Hd|apply set_eq_refl].
  - apply incl_refl.
Qed.

(* ------------------------------------------------------------------ validator: declared pairs still declared *)
Definition Covered (gs : list grp) (a b : Z) : Prop :=
  exists d x y, In d gs /\ In x (members d) /\ In y (members d) /\ In a x /\ In b y /\ x <> y.

Lemma pair_covered_spec gs a b : pair_covered gs a b = true <-> Covered gs a b.
Proof.
  unfold pair_covered, Covered, carries. rewrite existsb_exists. split.
  - intros (d & Hd & H). apply existsb_exists in H. destruct H as (x & Hx & H).
    apply andb_true_iff in H. destruct H as (Ha & H). apply existsb_exists in H. destruct H as (y & Hy & H).
    apply andb_true_iff in H. destruct H as (Hb & Hne). exists d, x, y.
    apply memZ_In in Ha, Hb. repeat split; try assumption.
    intros ->. rewrite zlist_eqb_refl in Hne. discriminate.
  - intros (d & x & y & Hd & Hx & Hy & Ha & Hb & Hne). exists d. split; [exact Hd|].
    apply existsb_exists. exists x. split; [exact Hx|]. apply andb_true_iff. split; [apply memZ_In; exact Ha|].
    apply existsb_exists. exists y. split; [exact Hy|]. apply andb_true_iff. split; [apply memZ_In; exact Hb|].
    apply negb_true_iff. destruct (zlist_eqb x y) eqn:E; [|reflexivity]. apply zlist_eqb_iff in E. contradiction.
Qed.

Lemma Covered_sym gs a b : Covered gs a b -> Covered gs b a.
Proof.
  intros (d & x & y & Hd & Hx & Hy & Ha & Hb & Hne). exists d, y, x. repeat split; try assumption. congruence.
Qed.

Lemma all_pairs_z_spec (f : Z -> Z -> bool) :
  (forall a b, f a b = true -> f b a = true) ->
  forall l, all_pairs_z f l = true <-> forall a b, In a l -> In b l -> a <> b -> f a b = true.
Proof.
  intros Hsym. induction l as [|x t IH]; cbn [all_pairs_z].
  - split; [intros _ a b []|reflexivity].
  - rewrite andb_true_iff, forallb_forall, IH. split.
    + intros (Hx & Ht) a b [<-|Ha] [<-|Hb] Hab.
      * congruence.
      * specialize (Hx b Hb). apply orb_true_iff in Hx. destruct Hx as [Hx|Hx]; [lia|exact Hx].
      * specialize (Hx a Ha). apply orb_true_iff in Hx. destruct Hx as [Hx|Hx]; [lia|apply Hsym; exact Hx].
      * apply Ht; assumption.
    + intros H. split.
      * intros b Hb. destruct (x =? b) eqn:E; [reflexivity|]. cbn [orb]. apply H; [left; reflexivity|right; exact Hb|lia].
      * intros a b Ha Hb Hab. apply H; [right; exact Ha|right; exact Hb|exact Hab].
Qed.

Theorem covered_ok_spec declared gs :
  covered_ok declared gs = true <->
  forall grp, In grp declared -> forall a b, In a grp -> In b grp -> a <> b -> Covered gs a b.
Proof.
  unfold covered_ok. rewrite forallb_forall.
  assert (Hsym : forall a b, pair_covered gs a b = true -> pair_covered gs b a = true).
  { intros a b H. apply pair_covered_spec. apply Covered_sym. apply pair_covered_spec. exact H. }
  split.
  - intros H grp Hg a b Ha Hb Hab. apply pair_covered_spec.
    apply (proj1 (all_pairs_z_spec _ Hsym grp) (H grp Hg) a b Ha Hb Hab).
  - intros H grp Hg. apply (all_pairs_z_spec _ Hsym). intros a b Ha Hb Hab. apply pair_covered_spec.
    apply (H grp Hg a b Ha Hb Hab).
Qed.

(* ------------------------------------------------------------------ requests_aggregation: what holds and what does not *)
(* requests that differ in some compared attribute are never merged: ids and groups are returned untouched *)
Lemma agg_find_none rqs st i : forall cand,
  (forall j, In j cand -> j = i \/ a_sig (nth i rqs (mkA [] 0 false)) <> a_sig (nth j rqs (mkA [] 0 false))) ->
  agg_find rqs st i cand = None.
Proof.
  induction cand as [|j t IH]; intros H; cbn [agg_find]; [reflexivity|].
  destruct (H j (or_introl eq_refl)) as [->|Hne].
  - rewrite zlist_eqb_refl. cbn [negb andb]. apply IH. intros k Hk. apply H. right; exact Hk.
  - assert (E : (a_sig (nth i rqs (mkA [] 0 false)) =? a_sig (nth j rqs (mkA [] 0 false))) = false) by lia.
    rewrite E. rewrite andb_false_r. cbn [andb]. apply IH. intros k Hk. apply H. right; exact Hk.
Qed.

Lemma NoDup_nth_neq (l : list Z) i j d :
  NoDup l -> (i < length l)%nat -> (j < length l)%nat -> i <> j -> nth i l d <> nth j l d.
Proof. intros Hnd Hi Hj Hij Heq. apply Hij. rewrite NoDup_nth in Hnd. apply Hnd; eassumption. Qed.

Lemma fold_left_fix {A B} (f : A -> B -> A) (l : list B) (a : A) :
  (forall b, In b l -> f a b = a) -> fold_left f l a = a.
Proof.
  induction l as [|b t IH]; intros H; [reflexivity|]. cbn [fold_left]. rewrite (H b (or_introl eq_refl)).
  apply IH. intros c Hc. apply H. right; exact Hc.
Qed.

Theorem aggregate_distinct_untouched rqs gs :
  NoDup (map a_sig rqs) ->
  aggregate rqs gs = mkS (map a_id rqs) (seq 0 (length rqs)) gs.
Proof.
  intros Hnd. unfold aggregate. apply fold_left_fix. intros i Hi. apply in_seq in Hi.
  unfold agg_step. rewrite agg_find_none; [reflexivity|].
  intros j Hj. cbn [s_local] in Hj. apply in_seq in Hj.
  destruct (Nat.eq_dec j i) as [->|Hne]; [left; reflexivity|right].
  rewrite <- !(map_nth a_sig). cbn [a_sig].
  apply NoDup_nth_neq; try assumption; rewrite ?map_length; lia.
Qed.

(* K2: merging r1 (declared disjoint from x and from y by two pair groups) into r2 (declared in one triple group
   {r2, x, y}) deletes the triple: the declared pair x / y is no longer declared anywhere *)
Definition k2_rqs : list areq := [mkA [0] 7 true; mkA [1] 1 true; mkA [2] 1 true; mkA [3] 8 true].
Definition k2_groups : list grp := [mkG 0 [[3]; [1]]; mkG 1 [[0]; [1]]; mkG 2 [[0]; [3]; [2]]].
Definition k2_declared : list (list Z) := [[3; 1]; [0; 1]; [0; 3; 2]].

Theorem aggregation_drops_pair_refuted :
  exists rqs gs declared,
    covered_ok declared gs = true /\ covered_ok declared (s_groups (aggregate rqs gs)) = false.
Proof. exists k2_rqs, k2_groups, k2_declared. split; vm_compute; reflexivity. Qed.

(* K3: two groups holding the absorbing request's old id sit next to each other: the second one is skipped by the
   remove-while-iterating loop and keeps an id that no request carries any more *)
Definition k3_rqs : list areq := [mkA [0] 1 true; mkA [1] 5 false; mkA [2] 1 true; mkA [3] 1 true].
Definition k3_groups : list grp := [mkG 0 [[1]; [2]]; mkG 1 [[3]; [2]]; mkG 2 [[3]; [1]; [0]]].

Theorem aggregation_stale_refuted :
  exists rqs gs,
    no_stale (map a_id rqs) gs = true /\
    no_stale (final_ids (aggregate rqs gs)) (s_groups (aggregate rqs gs)) = false.
Proof. exists k3_rqs, k3_groups. split; vm_compute; reflexivity. Qed.

(* K1: step 4 of compute_path_dsjctn tests the include list against the *short list* of the candidate, which only
   holds ROADMs and the element right after each ROADM: any other line element is never "part" of it *)
Definition k1_net : net :=
  mkNet [(0, [(1, 1)]); (1, [(0, 1); (2, 1)]); (2, [(3, 1)]); (3, [(4, 100)]); (4, [(5, 1)]); (5, [(4, 1)])]
        [KT; KR; KL; KL; KR; KT] [([1; 2; 3; 4], None)].
Theorem shortlist_ispart_refuted :
  exists n p inc, route_ok (ngraph n) 0 5 inc p = true /\ ispart inc (short_list n p) = false.
Proof. exists k1_net, [0; 1; 2; 3; 4; 5], [3]. split; vm_compute; reflexivity. Qed.

(* ------------------------------------------------------------------ links: direction does not matter *)
Lemma norm_swap x y : norm (x, y) = norm (y, x).
Proof.
  unfold norm. cbn [fst snd]. destruct (x <=? y) eqn:E1, (y <=? x) eqn:E2; try reflexivity.
  - assert (x = y) by lia. subst. reflexivity.
  - lia.
Qed.

Lemma pairwise_rev l x y : In (x, y) (pairwise (rev l)) <-> In (y, x) (pairwise l).
Proof.
  rewrite !pairwise_spec. split.
  - intros (l1 & l2 & H). exists (rev l2), (rev l1).
    rewrite <- (rev_involutive l), H. rewrite rev_app_distr. cbn [rev]. rewrite <- !app_assoc. reflexivity.
  - intros (l1 & l2 & H). exists (rev l2), (rev l1).
    rewrite H. rewrite rev_app_distr. cbn [rev]. rewrite <- !app_assoc. reflexivity.
Qed.

Lemma filter_rev {A} (f : A -> bool) l : filter f (rev l) = rev (filter f l).
Proof.
  induction l as [|x t IH]; [reflexivity|]. cbn [rev filter]. rewrite filter_app, IH. cbn [filter].
  destruct (f x); [reflexivity|]. rewrite app_nil_r. reflexivity.
Qed.

(* a path and the same sites walked the other way round use the same links *)
Theorem links_rev n p l : In l (links n (rev p)) <-> In l (links n p).
Proof.
  unfold links, roadms. rewrite filter_rev, !in_map_iff. split.
  - intros ((x, y) & Hn & Hin). apply (proj1 (pairwise_rev _ _ _)) in Hin. exists (y, x).
    split; [rewrite <- norm_swap; exact Hn|exact Hin].
  - intros ((x, y) & Hn & Hin). exists (y, x). split; [rewrite <- norm_swap; exact Hn|].
    apply pairwise_rev. exact Hin.
Qed.

(* a link of p is an unordered pair of successive ROADMs of p *)
Theorem links_spec n p a b :
  In (a, b) (links n p) <->
  a <= b /\ exists l1 l2, roadms n p = l1 ++ a :: b :: l2 \/ roadms n p = l1 ++ b :: a :: l2.
Proof.
  unfold links. rewrite in_map_iff. split.
  - intros ((x, y) & Hn & Hin). apply pairwise_spec in Hin. destruct Hin as (l1 & l2 & H).
    unfold norm in Hn. cbn [fst snd] in Hn. destruct (x <=? y) eqn:E.
    + injection Hn as <- <-. split; [lia|]. exists l1, l2. left; exact H.
    + injection Hn as <- <-. split; [lia|]. exists l1, l2. right; exact H.
  - intros (Hab & l1 & l2 & [H|H]).
    + exists (a, b). split; [unfold norm; cbn [fst snd]; assert (E : (a <=? b) = true) by lia; rewrite E; reflexivity|].
      apply pairwise_spec. exists l1, l2. exact H.
    + exists (b, a). split; [rewrite norm_swap; unfold norm; cbn [fst snd]; assert (E : (a <=? b) = true) by lia; rewrite E; reflexivity|].
      apply pairwise_spec. exists l1, l2. exact H.
Qed.
