(* C20 — lemmas about Model/Sheet.v, part 3: what `build` produces on sane rows: the element list, uniqueness of
   uids (symbolic and rendered), existence of connection end points. *)
From Coq Require Import QArith Lia.
From Verif Require Import Prelude Model.Sheet Proofs.Sheet Proofs.Sheet2.
Open Scope Z_scope.

(* ------------------------------------------------------------------ generic list facts *)
Lemma NoDup_app_intro : forall {A} (a b : list A),
  NoDup a -> NoDup b -> (forall x, In x a -> In x b -> False) -> NoDup (a ++ b).
Proof.
  intros A. induction a as [|x t IH]; intros b Ha Hb Hd; cbn [app]; [exact Hb|].
  inversion Ha as [|y u Hy Hu]; subst. constructor.
  - intros Hin. apply in_app_or in Hin. destruct Hin as [Hin|Hin]; [contradiction|].
    exact (Hd x (or_introl eq_refl) Hin).
  - apply IH; [exact Hu | exact Hb |]. intros z Hz. apply Hd. right. exact Hz.
Qed.
Lemma NoDup_map_inj_in : forall {A B} (f : A -> B) l,
  NoDup l -> (forall x y, In x l -> In y l -> f x = f y -> x = y) -> NoDup (map f l).
Proof.
  intros A B f. induction l as [|x t IH]; intros Hn Hi; cbn [map]; [constructor|].
  inversion Hn as [|y u Hy Hu]; subst. constructor.
  - intros Hin. apply in_map_iff in Hin. destruct Hin as [z [Hz1 Hz2]].
    assert (z = x) by (apply Hi; [right; exact Hz2 | left; reflexivity | exact Hz1]). subst. contradiction.
  - apply IH; [exact Hu|]. intros a b Ha Hb. apply Hi; right; assumption.
Qed.
Lemma NoDup_map_factor : forall {A B C} (f : A -> B) (g : A -> C) l,
  (forall x y, f x = f y -> g x = g y) -> NoDup (map g l) -> NoDup (map f l).
Proof.
  intros A B C f g. induction l as [|x t IH]; intros Hfg Hn; cbn [map] in *; [constructor|].
  inversion Hn as [|y u Hy Hu]; subst. constructor; [|apply IH; assumption].
  intros Hin. apply in_map_iff in Hin. destruct Hin as [z [Hz1 Hz2]].
  apply Hy. apply in_map_iff. exists z. split; [apply Hfg; exact Hz1 | exact Hz2].
Qed.
Lemma NoDup_of_map : forall {A B} (f : A -> B) l, NoDup (map f l) -> NoDup l.
Proof.
  intros A B f. induction l as [|x t IH]; intros H; [constructor|].
  cbn [map] in H. inversion H as [|y u Hy Hu]; subst. constructor; [|apply IH; exact Hu].
  intros Hin. apply Hy. apply in_map. exact Hin.
Qed.
Lemma Forall2_map_eq : forall {A B C} (f : A -> C) (g : B -> C) l r,
  Forall2 (fun x y => g y = f x) l r -> map g r = map f l.
Proof. intros A B C f g l r H. induction H; cbn [map]; [reflexivity|]. rewrite H, IHForall2. reflexivity. Qed.
Lemma Forall2_weaken : forall {A B} (P Q : A -> B -> Prop) l r,
  (forall x y, P x y -> Q x y) -> Forall2 P l r -> Forall2 Q l r.
Proof. intros A B P Q l r H F. induction F; constructor; auto. Qed.
Lemma Forall2_In_r : forall {A B} (P : A -> B -> Prop) l r y, Forall2 P l r -> In y r -> exists x, In x l /\ P x y.
Proof.
  intros A B P l r y F. induction F; intros Hin; [destruct Hin|].
  destruct Hin as [Hin|Hin].
  - subst. eexists. split; [left; reflexivity | eassumption].
  - destruct (IHF Hin) as [x' [H1 H2]]. exists x'. split; [right; exact H1 | exact H2].
Qed.
Lemma Forall2_In_l : forall {A B} (P : A -> B -> Prop) l r x, Forall2 P l r -> In x l -> exists y, In y r /\ P x y.
Proof.
  intros A B P l r x F. induction F; intros Hin; [destruct Hin|].
  destruct Hin as [Hin|Hin].
  - subst. eexists. split; [left; reflexivity | eassumption].
  - destruct (IHF Hin) as [y' [H1 H2]]. exists y'. split; [right; exact H1 | exact H2].
Qed.

(* ------------------------------------------------------------------ the builders, element by element *)
Definition side_of (d : dir) (l : link) : side := match d with East => l_east l | West => l_west l end.
Definition fiber_uid_of (d : dir) (l : link) : uid := match d with East => east_fiber_uid l | West => west_fiber_uid l end.
Definition amp_of (d : dir) (e : eqpt) : amp := match d with East => e_east e | West => e_west e end.

Lemma fiber_el_ok : forall ns d l e, fiber_el ns d l = Ok e ->
  el_uid e = fiber_uid_of d l /\ el_c e = fiber_content (side_of d l).
Proof.
  intros ns d l e H. unfold fiber_el in H.
  destruct (lookup_node (l_from l) ns) as [a|]; cbn [bind] in H; [|discriminate].
  destruct (lookup_node (l_to l) ns) as [b|]; cbn [bind] in H; [|discriminate].
  destruct (pmd_check _) as [[]|]; cbn [bind] in H; [|discriminate].
  destruct d; inversion H; split; reflexivity.
Qed.
Lemma eqpt_el_ok : forall ns d q e, eqpt_el ns d q = Ok e ->
  el_uid e = UEdfaTo d (e_from q) (e_to q) /\ el_c e = amp_content (amp_of d q).
Proof.
  intros ns d q e H. unfold eqpt_el in H.
  destruct (lookup_node (e_from q) ns) as [a|]; cbn [bind] in H; [|discriminate].
  inversion H. split; reflexivity.
Qed.

Lemma roadm_el_ok : forall rs n e, roadm_el rs n = Ok e ->
  el_uid e = URoadm (n_city n) /\ el_loc e = node_loc n /\
  exists imps, mapM (row_impairments (n_city n)) (roadms_of (n_city n) rs) = Ok imps /\
    el_c e = CRoadm (last_variety (roadms_of (n_city n) rs)) (restrictions n)
                    (match roadms_of (n_city n) rs with [] => None | _ => Some (per_degree (n_city n) (roadms_of (n_city n) rs)) end)
                    (cat_options imps).
Proof.
  intros rs n e H. unfold roadm_el in H.
  destruct (mapM (row_impairments (n_city n)) (roadms_of (n_city n) rs)) as [imps|] eqn:E; cbn [bind] in H; [|discriminate].
  inversion H. cbn [el_uid el_loc el_c]. repeat split. exists imps. split; reflexivity.
Qed.

Definition trx_conns (ns : list node) : list (uid * uid) :=
  flat_map (fun n => [(UTrx (n_city n), URoadm (n_city n)); (URoadm (n_city n), UTrx (n_city n))])
           (filter (is_t TRoadm) ns).
Definition all_chains (ns : list node) (ls : list link) (es : list eqpt) : list chain :=
  flat_map (node_chains ls es) ns.
Definition auto_ilas (ns : list node) (es : list eqpt) : list node :=
  filter (fun n => is_t TIla n && negb (has_eqpt (n_city n) es)) ns.

(* the uids of the element list, in order *)
Definition uid_list (ns : list node) (ls : list link) (es : list eqpt) : list uid :=
  map (fun n => UTrx (n_city n)) (filter (is_t TRoadm) ns) ++
  map (fun n => URoadm (n_city n)) (filter (is_t TRoadm) ns) ++
  map (fun n => UFused West (n_city n)) (filter (is_t TFused) ns) ++
  map (fun n => UFused East (n_city n)) (filter (is_t TFused) ns) ++
  map east_fiber_uid ls ++ map west_fiber_uid ls ++
  map (fun n => UEdfa West (n_city n)) (auto_ilas ns es) ++
  map (fun n => UEdfa East (n_city n)) (auto_ilas ns es) ++
  map (fun e => UEdfaTo East (e_from e) (e_to e)) es ++
  map (fun e => UEdfaTo West (e_from e) (e_to e)) es.

Record built (ns : list node) (ls : list link) (es : list eqpt) (rs : list roadm_row) (n : net)
             (b_re b_ef b_wf b_ee b_we : list element) : Prop := mkBuilt {
  b_re_ok : Forall2 (fun m e => roadm_el rs m = Ok e) (filter (is_t TRoadm) ns) b_re;
  b_ef_ok : Forall2 (fun l e => el_uid e = east_fiber_uid l /\ el_c e = fiber_content (l_east l)) ls b_ef;
  b_wf_ok : Forall2 (fun l e => el_uid e = west_fiber_uid l /\ el_c e = fiber_content (l_west l)) ls b_wf;
  b_ee_ok : Forall2 (fun q e => el_uid e = UEdfaTo East (e_from q) (e_to q) /\ el_c e = amp_content (e_east q)) es b_ee;
  b_we_ok : Forall2 (fun q e => el_uid e = UEdfaTo West (e_from q) (e_to q) /\ el_c e = amp_content (e_west q)) es b_we;
  b_elements : elements n =
    map trx_el (filter (is_t TRoadm) ns) ++ b_re ++
    map (fused_el West) (filter (is_t TFused) ns) ++ map (fused_el East) (filter (is_t TFused) ns) ++
    b_ef ++ b_wf ++ map (auto_edfa_el West) (auto_ilas ns es) ++ map (auto_edfa_el East) (auto_ilas ns es) ++
    b_ee ++ b_we;
  b_connections : connections n = flat_map connect3 (all_chains ns ls es) ++ trx_conns ns
}.

Lemma build_inv : forall ns ls es rs n, NoDup (cities ns) -> links_distinct ls -> no_loops ls ->
  build ns ls es rs = Ok n -> exists re ef wf ee we, built ns ls es rs n re ef wf ee we.
Proof.
  intros ns ls es rs n Hnd Hd Hl H. unfold build in H.
  destruct (mapM (roadm_el rs) (filter (is_t TRoadm) ns)) as [re|] eqn:E0; cbn [bind] in H; [|discriminate].
  destruct (mapM (fiber_el ns East) ls) as [ef|] eqn:E1; cbn [bind] in H; [|discriminate].
  destruct (mapM (fiber_el ns West) ls) as [wf|] eqn:E2; cbn [bind] in H; [|discriminate].
  destruct (mapM (eqpt_el ns East) es) as [ee|] eqn:E3; cbn [bind] in H; [|discriminate].
  destruct (mapM (eqpt_el ns West) es) as [we|] eqn:E4; cbn [bind] in H; [|discriminate].
  destruct (mapM (fun n0 => eqpt_connection_by_city (n_city n0) ns ls es) ns) as [cx|] eqn:E5; cbn [bind] in H; [|discriminate].
  inversion H; subst n; clear H.
  exists re, ef, wf, ee, we. constructor.
  - apply mapM_Forall2 in E0. exact E0.
  - apply mapM_Forall2 in E1. eapply Forall2_weaken; [|exact E1]. intros l e He. exact (fiber_el_ok ns East l e He).
  - apply mapM_Forall2 in E2. eapply Forall2_weaken; [|exact E2]. intros l e He. exact (fiber_el_ok ns West l e He).
  - apply mapM_Forall2 in E3. eapply Forall2_weaken; [|exact E3]. intros q e He. exact (eqpt_el_ok ns East q e He).
  - apply mapM_Forall2 in E4. eapply Forall2_weaken; [|exact E4]. intros q e He. exact (eqpt_el_ok ns West q e He).
  - reflexivity.
  - cbn [connections]. f_equal.
    rewrite (mapM_ok_map (fun n0 => eqpt_connection_by_city (n_city n0) ns ls es)
                         (fun n0 => flat_map connect3 (node_chains ls es n0)) ns cx); [| |exact E5].
    + unfold all_chains. rewrite flat_map_flat_map. reflexivity.
    + intros x y Hx Hy. exact (ecc_chains ns ls es x y Hnd Hd Hl Hx Hy).
Qed.

Lemma built_uids : forall ns ls es rs n re ef wf ee we, built ns ls es rs n re ef wf ee we ->
  map el_uid (elements n) = uid_list ns ls es.
Proof.
  intros ns ls es rs n re ef wf ee we B. destruct B as [B0 B1 B2 B3 B4 B5 _]. rewrite B5. unfold uid_list.
  rewrite !map_app, !map_map. cbn [trx_el fused_el auto_edfa_el el_uid].
  rewrite (Forall2_map_eq (fun m => URoadm (n_city m)) el_uid (filter (is_t TRoadm) ns) re),
          (Forall2_map_eq east_fiber_uid el_uid ls ef),
          (Forall2_map_eq west_fiber_uid el_uid ls wf),
          (Forall2_map_eq (fun q => UEdfaTo East (e_from q) (e_to q)) el_uid es ee),
          (Forall2_map_eq (fun q => UEdfaTo West (e_from q) (e_to q)) el_uid es we).
  - reflexivity.
  - eapply Forall2_weaken; [|exact B4]. intros x y [H _]. exact H.
  - eapply Forall2_weaken; [|exact B3]. intros x y [H _]. exact H.
  - eapply Forall2_weaken; [|exact B2]. intros x y [H _]. exact H.
  - eapply Forall2_weaken; [|exact B1]. intros x y [H _]. exact H.
  - eapply Forall2_weaken; [|exact B0]. intros x y H. exact (proj1 (roadm_el_ok _ _ _ H)).
Qed.

(* ------------------------------------------------------------------ uids are unique *)
Lemma NoDup_site_uids : forall (K : string -> uid) ns (p : node -> bool),
  (forall a b, K a = K b -> a = b) -> NoDup (cities ns) -> NoDup (map (fun n => K (n_city n)) (filter p ns)).
Proof.
  intros K ns p HK Hnd. apply NoDup_map_inj_in.
  - apply NoDup_filter. exact (NoDup_of_map n_city ns Hnd).
  - intros x y Hx Hy He. apply filter_In in Hx, Hy.
    apply (same_city_same_node ns x y Hnd (proj1 Hx) (proj1 Hy)). apply HK. exact He.
Qed.

Lemma NoDup_fiber_uids : forall ls, links_distinct ls -> no_loops ls ->
  NoDup (map east_fiber_uid ls ++ map west_fiber_uid ls).
Proof.
  intros ls Hd Hl. pose proof (links_distinct_NoDup ls Hd) as Hn. apply NoDup_app_intro.
  - apply NoDup_map_inj_in; [exact Hn|]. intros x y Hx Hy He. unfold east_fiber_uid in He. inversion He.
    apply (links_distinct_eq ls x y Hd Hx Hy). apply link_eqv_spec. left. split; assumption.
  - apply NoDup_map_inj_in; [exact Hn|]. intros x y Hx Hy He. unfold west_fiber_uid in He. inversion He.
    apply (links_distinct_eq ls x y Hd Hx Hy). apply link_eqv_spec. left. split; assumption.
  - intros u H1 H2. apply in_map_iff in H1, H2. destruct H1 as [x [E1 I1]], H2 as [y [E2 I2]].
    rewrite <- E2 in E1. unfold east_fiber_uid, west_fiber_uid in E1. inversion E1.
    assert (x = y) by (apply (links_distinct_eq ls x y Hd I1 I2); apply link_eqv_spec; right; split; assumption).
    subst y. apply (Hl x I1). congruence.
Qed.

Ltac in_maps := repeat match goal with
  | H : In _ (_ ++ _) |- _ => apply in_app_or in H; destruct H as [H|H]
  | H : In _ (map _ _) |- _ => apply in_map_iff in H; let x := fresh "x" in let E := fresh "E" in destruct H as [x [E H]]
  end.

Lemma uid_list_NoDup : forall ns ls es, NoDup (cities ns) -> links_distinct ls -> no_loops ls ->
  NoDup (map (fun e => pair_key (e_from e) (e_to e)) es) -> NoDup (uid_list ns ls es).
Proof.
  intros ns ls es Hnd Hd Hl He. unfold uid_list.
  assert (HE : forall d, NoDup (map (fun e => UEdfaTo d (e_from e) (e_to e)) es)).
  { intros d. apply (NoDup_map_factor _ (fun e => pair_key (e_from e) (e_to e))); [|exact He].
    intros x y H. inversion H. congruence. }
  assert (HS : forall (K : string -> uid) p, (forall a b, K a = K b -> a = b) ->
                 NoDup (map (fun n => K (n_city n)) (filter p ns))) by (intros; apply NoDup_site_uids; assumption).
  do 4 (apply NoDup_app_intro;
          [ apply HS; intros a b Hab; inversion Hab; reflexivity
          | | intros u H1 H2; in_maps; subst; discriminate ]).
  rewrite app_assoc. apply NoDup_app_intro.
  - apply NoDup_fiber_uids; assumption.
  - do 2 (apply NoDup_app_intro;
            [ apply HS; intros a b Hab; inversion Hab; reflexivity
            | | intros u H1 H2; in_maps; subst; discriminate ]).
    apply NoDup_app_intro; [apply HE | apply HE | intros u H1 H2; in_maps; subst; discriminate].
  - intros u H1 H2; in_maps; subst; discriminate.
Qed.
