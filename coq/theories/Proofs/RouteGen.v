(* Translator tie for C11: the definitions generated from /repo's source on every run (Gen/RouteGen.v) are the
   hand-written model (Model/Route.v).  A semantic edit of one of the translated tests / constants / branches changes the
   generated term and breaks a lemma below. *)
From Coq Require Import Lia ZifyBool.
From Verif Require Import Prelude Model.Route Proofs.Route Gen.RouteGen.
Open Scope Z_scope.

Definition same_result {A} (r1 r2 : res A) : Prop :=
  match r1, r2 with Ok x, Ok y => x = y | Err _, Err _ => True | _, _ => False end.

(* the reference search is the networkx contract instantiated with gnpy's filter, fall-back test and reasons *)
Lemma search_by_model_route g s t inc strict :
  search_by g s t (ispart inc) (negb strict) "NO_PATH" "NO_PATH_WITH_CONSTRAINT" = model_route g s t inc strict.
Proof.
  unfold search_by, model_route. destruct (best g (all_routes g s t)); [|reflexivity].
  destruct (best g (filter (ispart inc) (all_routes g s t))); [reflexivity|]. destruct strict; reflexivity.
Qed.

(* compute_constrained_path: same guard, same list handed to explicit_path / ispart, same fall-back rule, same reasons *)
Lemma gen_ccp n s t nodes_list strict_list :
  same_result (g_ccp n s t nodes_list strict_list) (model_ccp n s t nodes_list strict_list).
Proof.
  unfold g_ccp, model_ccp, same_result. destruct (negb (last nodes_list (t + 1) =? t)); [exact I|].
  destruct (explicit_path n (removelast nodes_list) s t); [reflexivity|].
  f_equal. f_equal. apply (search_by_model_route (ngraph n) s t (removelast nodes_list)).
Qed.

Lemma gen_ispart_from : forall a b j, g_ispart_from j a b = ispart_from j a b.
Proof.
  induction a as [|e a IH]; intros b j; cbn [g_ispart_from ispart_from]; [reflexivity|].
  destruct (idx b e) as [i|]; [|reflexivity]. destruct (j <=? i)%nat; [apply IH|reflexivity].
Qed.

Lemma gen_ispart a b : g_ispart_from 0 a b = ispart a b.
Proof. apply gen_ispart_from. Qed.

(* explicit_path: the spelled path is rejected exactly when the model's validation fails *)
Lemma gen_explicit_reject n node_list t path :
  path <> [] -> g_explicit_reject n node_list t path = negb (explicit_check n node_list t path).
Proof.
  intros Hne. unfold g_explicit_reject, explicit_check, lastb.
  rewrite (last_indep path (t + 1) t Hne).
  destruct (last path t =? t), (walkb (ngraph n) path), (ispart node_list path); reflexivity.
Qed.

(* find_reversed_path collects the OMS of every element that is neither a transceiver nor a ROADM = the line elements *)
Lemma gen_rev_keeps n el : g_rev_keeps n el = rev_keeps n el.
Proof. reflexivity. Qed.

Lemma rev_keeps_line n el : kind_of n el <> None -> rev_keeps n el = is_line n el.
Proof.
  unfold rev_keeps, is_trx, is_roadm, is_line. destruct (kind_of n el) as [[| |]|]; try reflexivity. congruence.
Qed.

(* network_from_json: the edge leaving a Fiber (any subclass) weighs its length, any other edge 0.01 m = 1 cm *)
Lemma gen_edge_weight f l : g_edge_weight f l = edge_weight f l.
Proof. reflexivity. Qed.

(* compute_path_dsjctn step 4 (members of a synchronisation vector): the include list is tested with ispart against the
   FULL element path of the candidate; one STRICT hop makes the list strict *)
Lemma gen_vector_include nl full short strict_list :
  g_vector_include_ok nl full short = ispart nl full /\ g_vector_strict strict_list = existsb (fun b => b) strict_list.
Proof. split; reflexivity. Qed.

(* correct_json_route_list strips the own source with pop(0) / pop(0) and the own destination with pop(-1) / pop(-1) *)
Lemma gen_clean_pops : g_clean_pops = clean_pops.
Proof. reflexivity. Qed.
(* compare_reqs: twins agree on these attributes by plain equality (ordered include lists) *)
Lemma gen_twin_attrs : g_twin_attrs = twin_attrs.
Proof. reflexivity. Qed.
