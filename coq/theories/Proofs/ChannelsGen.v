(* The definitions generated from /repo's source (Gen/ChannelsGen.v, harness/pygen_c07.py) are the hand-written model
   (Model/Channels.v).  A change of the meaning of a translated expression breaks one of these lemmas. *)
From Coq Require Import QArith Qround Lia.
From Verif Require Import Prelude Model.Channels Gen.ChannelsGen.
Open Scope Q_scope.

Lemma gen_is_in_band : g_is_in_band = in_band.
Proof. reflexivity. Qed.
Lemma gen_adj_over : g_adj_over = adj_over.
Proof. reflexivity. Qed.
Lemma gen_exceeds : g_exceeds = exceeds.
Proof. reflexivity. Qed.

Lemma adj_any_overlap s : adj_any adj_over s = adj_overlap s.
Proof.
  induction s as [|a t IH]; auto. destruct t as [|b t']; auto.
  change (adj_any adj_over (a :: b :: t')) with (adj_over a b || adj_any adj_over (b :: t')).
  change (adj_overlap (a :: b :: t')) with (adj_over a b || adj_overlap (b :: t')). rewrite IH. reflexivity.
Qed.

Lemma gen_check_si s : g_check_si s = check_si s.
Proof. unfold g_check_si, check_si. rewrite gen_adj_over, gen_exceeds, adj_any_overlap. reflexivity. Qed.
Lemma gen_mk_si l : g_mk_si l = mk_si l.
Proof. unfold g_mk_si, mk_si. apply gen_check_si. Qed.
Lemma gen_select_channels p s : g_select_channels p s = select p s.
Proof. unfold g_select_channels, select. apply gen_mk_si. Qed.

Lemma existsb_filter {A} (p : A -> bool) l : existsb p l = negb (is_nil (filter p l)).
Proof. induction l as [|a t IH]; cbn [existsb filter]; auto. destruct (p a); cbn; auto. Qed.

Lemma gen_demux s b : g_demux s b = demux s b.
Proof.
  unfold g_demux, demux. rewrite gen_is_in_band, existsb_filter, gen_select_channels. unfold select.
  destruct (filter (in_band b) s) eqn:E; cbn [is_nil negb]; reflexivity.
Qed.

Lemma gen_si_add a b : g_si_add a b = si_add a b.
Proof. unfold g_si_add, si_add. rewrite gen_mk_si. reflexivity. Qed.

Lemma gen_mux l : g_mux l = mux l.
Proof.
  induction l as [|s t IH]; auto. destruct t as [|s' t']; auto.
  change (g_mux (s :: s' :: t')) with (let* r := g_mux (s' :: t') in g_si_add s r).
  change (mux (s :: s' :: t')) with (let* r := mux (s' :: t') in si_add s r).
  rewrite IH. destruct (mux (s' :: t')); cbn [bind]; auto. apply gen_si_add.
Qed.

Lemma gen_demux_all bs s : g_demux_all bs s = demux_all bs s.
Proof. induction bs as [|b t IH]; cbn [g_demux_all demux_all]; auto. rewrite gen_demux, IH. reflexivity. Qed.

Lemma gen_filter_bands cr s : g_filter_bands cr s = filter_bands cr s.
Proof.
  unfold g_filter_bands, filter_bands. rewrite gen_demux_all. destruct (demux_all cr s) as [parts|e]; cbn [bind]; auto.
  destruct parts; cbn [is_nil]; auto. apply gen_mux.
Qed.

Lemma gen_get_spacing_from_band ddb lo hi : g_get_spacing_from_band ddb lo hi = spacing_from_band ddb (half (lo + hi)).
Proof. unfold g_get_spacing_from_band. induction ddb as [|b t IH]; cbn [spacing_from_band]; auto. rewrite IH. reflexivity. Qed.

Lemma gen_calculate_spacing d f s lo hi : g_calculate_spacing d f s lo hi = spacing_of d f s lo hi.
Proof.
  unfold g_calculate_spacing, spacing_of. destruct (bsp f), (bsp s); auto.
  rewrite gen_get_spacing_from_band. destruct (snd d); cbn [is_nil negb]; reflexivity.
Qed.

Lemma gen_inter d f s : g_inter d f s = inter d f s.
Proof. unfold g_inter, inter. cbv zeta. rewrite gen_calculate_spacing. reflexivity. Qed.

Lemma gen_cr_step d cr bands : g_cr_step d cr bands = cr_step d cr bands.
Proof.
  unfold g_cr_step, cr_step. apply flat_map_ext. intros f. apply flat_map_ext. intros s. apply gen_inter.
Qed.

Lemma fold_left_ext {A B} (f g : A -> B -> A) l : (forall a b, f a b = g a b) -> forall a, fold_left f l a = fold_left g l a.
Proof. intros H. induction l as [|x t IH]; intros a; cbn [fold_left]; auto. rewrite H. apply IH. Qed.

Lemma gen_find_common_range amps dmin dmax dsp ddb :
  g_find_common_range amps dmin dmax dsp ddb = find_common_range_gen amps dmin dmax dsp ddb.
Proof.
  unfold g_find_common_range, find_common_range_gen. destruct (remove_dups _) as [|first rest]; auto.
  unfold common_of. f_equal. apply fold_left_ext. apply gen_cr_step.
Qed.

Lemma gen_automatic_nch fmin fmax sp : g_automatic_nch fmin fmax sp = automatic_nch fmin fmax sp.
Proof. reflexivity. Qed.

Lemma gen_grid_freq fmin sp baud label tx i : g_grid_freq fmin sp i = cf (grid_chan fmin sp baud label tx i).
Proof. reflexivity. Qed.

Lemma gen_edfa_call a s : g_edfa_call a s = edfa_call a s.
Proof. unfold g_edfa_call, edfa_call. destruct (abands a); auto. rewrite gen_demux. reflexivity. Qed.

Lemma gen_multi_parts subs s : g_multi_parts subs s = multi_parts subs s.
Proof.
  induction subs as [|a t IH]; cbn [g_multi_parts multi_parts]; auto.
  destruct (abands a); auto. rewrite gen_demux. destruct (demux s b) as [[x|]|e]; cbn [bind]; auto.
  rewrite gen_edfa_call, IH. reflexivity.
Qed.

Lemma gen_multi_call subs s : g_multi_call subs s = multi_call subs s.
Proof.
  unfold g_multi_call, multi_call. rewrite gen_multi_parts. destruct (multi_parts subs s) as [parts|e]; cbn [bind]; auto.
  destruct parts; cbn [is_nil]; auto. apply gen_mux.
Qed.
