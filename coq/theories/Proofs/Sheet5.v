(* C20 — lemmas about Model/Sheet.v, part 5: every connection end point exists; every line element (fibre, amplifier,
   fused) has exactly one predecessor and one successor; Eqpt rows face their neighbour. *)
From Coq Require Import QArith Lia.
From Verif Require Import Prelude Model.Sheet Proofs.Sheet Proofs.Sheet2 Proofs.Sheet3 Proofs.Sheet4.
Open Scope Z_scope.

Notation ein := eqpt_in_city_to_city.
Definition rc_out (c : string) (es : list eqpt) (l : link) : chain :=
  (URoadm c, ein c (other_city c l) es TRoadm East, out_uid c l).
Definition rc_in (c : string) (es : list eqpt) (l : link) : chain :=
  (in_uid c l, ein c (other_city c l) es TRoadm West, URoadm c).
Definition lc_a (c : string) (t : ntype) (es : list eqpt) (l0 l1 : link) : chain :=
  (in_uid c l0, ein c (other_city c l0) es t West, out_uid c l1).
Definition lc_b (c : string) (t : ntype) (es : list eqpt) (l0 l1 : link) : chain :=
  (in_uid c l1, ein c (other_city c l0) es t East, out_uid c l0).

(* what the chains of a site of a good network are *)
Inductive chain_shape (ls : list link) (es : list eqpt) (n : node) (ch : chain) : Prop :=
| ShRoadmOut (l : link) (T : n_type n = TRoadm) (I : In l (links_of (n_city n) ls)) (E : ch = rc_out (n_city n) es l)
| ShRoadmIn (l : link) (T : n_type n = TRoadm) (I : In l (links_of (n_city n) ls)) (E : ch = rc_in (n_city n) es l)
| ShLineA (l0 l1 : link) (T : n_type n <> TRoadm) (L : links_of (n_city n) ls = [l0; l1])
          (E : ch = lc_a (n_city n) (n_type n) es l0 l1)
| ShLineB (l0 l1 : link) (T : n_type n <> TRoadm) (L : links_of (n_city n) ls = [l0; l1])
          (E : ch = lc_b (n_city n) (n_type n) es l0 l1).

Lemma chain_cases : forall ns ls es n ch, good ns ls es -> In n ns -> In ch (node_chains ls es n) ->
  chain_shape ls es n ch.
Proof.
  intros ns ls es n ch G Hn H. destruct (n_type n) eqn:T.
  - destruct (roadm_node_chains ls es n ch T H) as [l [I [E|E]]].
    + eapply ShRoadmOut; eassumption.
    + eapply ShRoadmIn; eassumption.
  - assert (T' : n_type n <> TRoadm) by congruence.
    destruct (g_line_two _ _ _ G n Hn T') as [l0 [l1 L]].
    destruct (line_node_chains ls es n l0 l1 ch T' L H) as [E|E]; rewrite T in E.
    + eapply ShLineA; [exact T' | exact L | rewrite T; exact E].
    + eapply ShLineB; [exact T' | exact L | rewrite T; exact E].
  - assert (T' : n_type n <> TRoadm) by congruence.
    destruct (g_line_two _ _ _ G n Hn T') as [l0 [l1 L]].
    destruct (line_node_chains ls es n l0 l1 ch T' L H) as [E|E]; rewrite T in E.
    + eapply ShLineA; [exact T' | exact L | rewrite T; exact E].
    + eapply ShLineB; [exact T' | exact L | rewrite T; exact E].
Qed.

(* conversely *)
Lemma rc_out_In : forall ls es n l, n_type n = TRoadm -> In l (links_of (n_city n) ls) ->
  In (rc_out (n_city n) es l) (node_chains ls es n).
Proof.
  intros ls es n l T I. unfold node_chains. rewrite T. apply in_flat_map. exists l. split; [exact I|]. left. reflexivity.
Qed.
Lemma rc_in_In : forall ls es n l, n_type n = TRoadm -> In l (links_of (n_city n) ls) ->
  In (rc_in (n_city n) es l) (node_chains ls es n).
Proof.
  intros ls es n l T I. unfold node_chains. rewrite T. apply in_flat_map. exists l. split; [exact I|]. right. left. reflexivity.
Qed.
Lemma lc_In : forall ls es n l0 l1, n_type n <> TRoadm -> links_of (n_city n) ls = [l0; l1] ->
  In (lc_a (n_city n) (n_type n) es l0 l1) (node_chains ls es n) /\
  In (lc_b (n_city n) (n_type n) es l0 l1) (node_chains ls es n).
Proof.
  intros ls es n l0 l1 T L. unfold node_chains. rewrite L. destruct (n_type n); [congruence| |];
    (split; [left | right; left]; reflexivity).
Qed.

(* ------------------------------------------------------------------ end points and equipment of a chain *)
Definition is_end (u : uid) : Prop := match u with UFiber _ _ _ | URoadm _ => True | _ => False end.
Definition fiber_head (u : uid) : string := match u with UFiber _ b _ => b | _ => EmptyString end.
Definition fiber_tail (u : uid) : string := match u with UFiber a _ _ => a | _ => EmptyString end.

Lemma in_uid_facts : forall c ls l, In l (links_of c ls) ->
  is_fiber (in_uid c l) /\ fiber_head (in_uid c l) = c /\ fiber_tail (in_uid c l) = other_city c l.
Proof. intros c ls l H. destruct (in_uid_shape c ls l H) as [k E]. rewrite E. cbn. auto. Qed.
Lemma out_uid_facts : forall c ls l, In l (links_of c ls) ->
  is_fiber (out_uid c l) /\ fiber_tail (out_uid c l) = c /\ fiber_head (out_uid c l) = other_city c l.
Proof. intros c ls l H. destruct (out_uid_shape c ls l H) as [k E]. rewrite E. cbn. auto. Qed.

Lemma two_links_In : forall c ls l0 l1, links_of c ls = [l0; l1] -> In l0 (links_of c ls) /\ In l1 (links_of c ls).
Proof. intros c ls l0 l1 L. rewrite L. split; [left | right; left]; reflexivity. Qed.

Lemma fiber_is_end : forall u, is_fiber u -> is_end u.
Proof. intros [] H; cbn in *; auto. Qed.
Lemma end_not_mid : forall u, is_end u -> is_mid u -> False.
Proof. intros [] H1 H2; cbn in *; auto. Qed.
Lemma fiber_not_mid : forall u, is_fiber u -> is_mid u -> False.
Proof. intros [] H1 H2; cbn in *; auto. Qed.

Lemma chain_ends : forall ls es n ch, chain_shape ls es n ch -> is_end (c_first ch) /\ is_end (c_last ch).
Proof.
  intros ls es n ch S. destruct S as [l T I E|l T I E|l0 l1 T L E|l0 l1 T L E]; subst ch; cbn [c_first c_last fst snd rc_out rc_in lc_a lc_b].
  - split; [exact Logic.I|]. apply fiber_is_end. apply (out_uid_facts _ ls l I).
  - split; [|exact Logic.I]. apply fiber_is_end. apply (in_uid_facts _ ls l I).
  - destruct (two_links_In _ _ _ _ L) as [I0 I1].
    split; apply fiber_is_end; [apply (in_uid_facts _ ls l0 I0) | apply (out_uid_facts _ ls l1 I1)].
  - destruct (two_links_In _ _ _ _ L) as [I0 I1].
    split; apply fiber_is_end; [apply (in_uid_facts _ ls l1 I1) | apply (out_uid_facts _ ls l0 I0)].
Qed.

Lemma chain_mid_kind : forall ls es n ch m, chain_shape ls es n ch -> c_mid ch = Some m ->
  is_mid m /\ mid_city m = n_city n.
Proof.
  intros ls es n ch m S H. destruct S as [l T I E|l T I E|l0 l1 T L E|l0 l1 T L E]; subst ch;
    cbn [c_mid fst snd rc_out rc_in lc_a lc_b] in H; eapply ein_kind; exact H.
Qed.

(* a chain that starts with a fibre belongs to the site the fibre arrives at; one that ends with a fibre to the
   site the fibre leaves *)
Lemma first_fiber_site : forall ls es n ch, chain_shape ls es n ch -> is_fiber (c_first ch) ->
  fiber_head (c_first ch) = n_city n.
Proof.
  intros ls es n ch S F. destruct S as [l T I E|l T I E|l0 l1 T L E|l0 l1 T L E]; subst ch;
    cbn [c_first fst snd rc_out rc_in lc_a lc_b] in *.
  - destruct F.
  - apply (in_uid_facts _ ls l I).
  - apply (in_uid_facts _ ls l0). apply (two_links_In _ _ _ _ L).
  - apply (in_uid_facts _ ls l1). apply (two_links_In _ _ _ _ L).
Qed.
Lemma last_fiber_site : forall ls es n ch, chain_shape ls es n ch -> is_fiber (c_last ch) ->
  fiber_tail (c_last ch) = n_city n.
Proof.
  intros ls es n ch S F. destruct S as [l T I E|l T I E|l0 l1 T L E|l0 l1 T L E]; subst ch;
    cbn [c_last fst snd rc_out rc_in lc_a lc_b] in *.
  - apply (out_uid_facts _ ls l I).
  - destruct F.
  - apply (out_uid_facts _ ls l1). apply (two_links_In _ _ _ _ L).
  - apply (out_uid_facts _ ls l0). apply (two_links_In _ _ _ _ L).
Qed.

Lemma in_uid_inj : forall c ls l1 l2, links_distinct ls -> no_loops ls ->
  In l1 (links_of c ls) -> In l2 (links_of c ls) -> in_uid c l1 = in_uid c l2 -> l1 = l2.
Proof.
  intros c ls l1 l2 Hd Hl I1 I2 E. apply (other_city_inj c ls l1 l2 Hd Hl I1 I2).
  destruct (in_uid_facts c ls l1 I1) as [_ [_ T1]]. destruct (in_uid_facts c ls l2 I2) as [_ [_ T2]].
  rewrite <- T1, <- T2, E. reflexivity.
Qed.
Lemma out_uid_inj : forall c ls l1 l2, links_distinct ls -> no_loops ls ->
  In l1 (links_of c ls) -> In l2 (links_of c ls) -> out_uid c l1 = out_uid c l2 -> l1 = l2.
Proof.
  intros c ls l1 l2 Hd Hl I1 I2 E. apply (other_city_inj c ls l1 l2 Hd Hl I1 I2).
  destruct (out_uid_facts c ls l1 I1) as [_ [_ T1]]. destruct (out_uid_facts c ls l2 I2) as [_ [_ T2]].
  rewrite <- T1, <- T2, E. reflexivity.
Qed.

Lemma two_links_neq : forall c ls l0 l1, links_distinct ls -> no_loops ls -> links_of c ls = [l0; l1] -> l0 <> l1.
Proof.
  intros c ls l0 l1 Hd Hl L E. pose proof (links_of_NoDup c ls Hd Hl) as N. rewrite L in N.
  inversion N as [|x t Hx Ht]; subst. apply Hx. left. reflexivity.
Qed.

(* ------------------------------------------------------------------ uniqueness: one chain per fibre end, per equipment *)
Lemma first_unique_node : forall ns ls es n ch1 ch2, good ns ls es ->
  chain_shape ls es n ch1 -> chain_shape ls es n ch2 ->
  c_first ch1 = c_first ch2 -> is_fiber (c_first ch1) -> ch1 = ch2.
Proof.
  intros ns ls es n ch1 ch2 G S1 S2 E F. pose proof (g_links _ _ _ G) as Hd. pose proof (g_loops _ _ _ G) as Hl.
  destruct S1 as [l T I E1|l T I E1|l0 l1 T L E1|l0 l1 T L E1]; subst ch1;
  destruct S2 as [l' T' I' E2|l' T' I' E2|l0' l1' T' L' E2|l0' l1' T' L' E2]; subst ch2;
    cbn [c_first fst snd rc_out rc_in lc_a lc_b] in *; try contradiction; try (destruct F; fail);
    try (rewrite E in F; destruct F; fail).
  - assert (l = l') by (eapply in_uid_inj; eassumption). subst. reflexivity.
  - rewrite L in L'. inversion L'; subst. reflexivity.
  - rewrite L in L'. inversion L'; subst. exfalso.
    destruct (two_links_In _ _ _ _ L) as [I0 I1]. apply (two_links_neq _ _ _ _ Hd Hl L).
    eapply in_uid_inj; eassumption.
  - rewrite L in L'. inversion L'; subst. exfalso.
    destruct (two_links_In _ _ _ _ L) as [I0 I1]. apply (two_links_neq _ _ _ _ Hd Hl L). symmetry.
    eapply in_uid_inj; eassumption.
  - rewrite L in L'. inversion L'; subst. reflexivity.
Qed.
Lemma last_unique_node : forall ns ls es n ch1 ch2, good ns ls es ->
  chain_shape ls es n ch1 -> chain_shape ls es n ch2 ->
  c_last ch1 = c_last ch2 -> is_fiber (c_last ch1) -> ch1 = ch2.
Proof.
  intros ns ls es n ch1 ch2 G S1 S2 E F. pose proof (g_links _ _ _ G) as Hd. pose proof (g_loops _ _ _ G) as Hl.
  destruct S1 as [l T I E1|l T I E1|l0 l1 T L E1|l0 l1 T L E1]; subst ch1;
  destruct S2 as [l' T' I' E2|l' T' I' E2|l0' l1' T' L' E2|l0' l1' T' L' E2]; subst ch2;
    cbn [c_last fst snd rc_out rc_in lc_a lc_b] in *; try contradiction; try (destruct F; fail);
    try (rewrite E in F; destruct F; fail).
  - assert (l = l') by (eapply out_uid_inj; eassumption). subst. reflexivity.
  - rewrite L in L'. inversion L'; subst. reflexivity.
  - rewrite L in L'. inversion L'; subst. exfalso.
    destruct (two_links_In _ _ _ _ L) as [I0 I1]. apply (two_links_neq _ _ _ _ Hd Hl L). symmetry.
    eapply out_uid_inj; eassumption.
  - rewrite L in L'. inversion L'; subst. exfalso.
    destruct (two_links_In _ _ _ _ L) as [I0 I1]. apply (two_links_neq _ _ _ _ Hd Hl L).
    eapply out_uid_inj; eassumption.
  - rewrite L in L'. inversion L'; subst. reflexivity.
Qed.

(* the two chains of a line site carry different equipment *)
Lemma line_mids_differ : forall ns ls es n o m, good ns ls es -> In n ns -> n_type n <> TRoadm ->
  ein (n_city n) o es (n_type n) West = Some m -> ein (n_city n) o es (n_type n) East = Some m -> False.
Proof.
  intros ns ls es n o m G Hn T H1 H2. destruct (n_type n) eqn:Ty; [congruence| |].
  - pose proof (g_ila_one _ _ _ G n Hn Ty) as Hle.
    destruct (eqpts_of (n_city n) es) as [|e [|e' t]] eqn:E; cbn [length] in Hle; [| |lia].
    + rewrite (ein_ila_none _ _ _ _ E) in H1. rewrite (ein_ila_none _ _ _ _ E) in H2. congruence.
    + rewrite (ein_ila_one _ _ _ _ _ E) in H1. rewrite (ein_ila_one _ _ _ _ _ E) in H2. destruct (seqb (e_to e) o); cbn [rev_dir] in *; congruence.
  - rewrite ein_fused in H1. rewrite ein_fused in H2. congruence.
Qed.

Lemma mid_unique_node : forall ns ls es n ch1 ch2 m, good ns ls es -> In n ns ->
  chain_shape ls es n ch1 -> chain_shape ls es n ch2 ->
  c_mid ch1 = Some m -> c_mid ch2 = Some m -> ch1 = ch2.
Proof.
  intros ns ls es n ch1 ch2 m G Hn S1 S2 M1 M2. pose proof (g_links _ _ _ G) as Hd. pose proof (g_loops _ _ _ G) as Hl.
  destruct S1 as [l T I E1|l T I E1|l0 l1 T L E1|l0 l1 T L E1]; subst ch1;
  destruct S2 as [l' T' I' E2|l' T' I' E2|l0' l1' T' L' E2|l0' l1' T' L' E2]; subst ch2;
    cbn [c_mid fst snd rc_out rc_in lc_a lc_b] in *; try contradiction.
  - rewrite ein_roadm in M1. rewrite ein_roadm in M2.
    destruct (has_row _ (other_city _ l) es); [|discriminate]. destruct (has_row _ (other_city _ l') es); [|discriminate].
    assert (l = l') by (apply (other_city_inj (n_city n) ls l l' Hd Hl I I'); congruence). subst. reflexivity.
  - rewrite ein_roadm in M1. rewrite ein_roadm in M2.
    destruct (has_row _ (other_city _ l) es); [|discriminate]. destruct (has_row _ (other_city _ l') es); [|discriminate].
    congruence.
  - rewrite ein_roadm in M1. rewrite ein_roadm in M2.
    destruct (has_row _ (other_city _ l) es); [|discriminate]. destruct (has_row _ (other_city _ l') es); [|discriminate].
    congruence.
  - rewrite ein_roadm in M1. rewrite ein_roadm in M2.
    destruct (has_row _ (other_city _ l) es); [|discriminate]. destruct (has_row _ (other_city _ l') es); [|discriminate].
    assert (l = l') by (apply (other_city_inj (n_city n) ls l l' Hd Hl I I'); congruence). subst. reflexivity.
  - rewrite L in L'. inversion L'; subst. reflexivity.
  - rewrite L in L'. inversion L'; subst. exfalso. eapply line_mids_differ; eassumption.
  - rewrite L in L'. inversion L'; subst. exfalso. eapply line_mids_differ; eassumption.
  - rewrite L in L'. inversion L'; subst. reflexivity.
Qed.

(* across sites *)
Lemma chain_shape_of : forall ns ls es ch, good ns ls es -> In ch (all_chains ns ls es) ->
  exists n, In n ns /\ chain_shape ls es n ch.
Proof.
  intros ns ls es ch G H. apply all_chains_In in H. destruct H as [n [Hn Hc]]. exists n. split; [exact Hn|].
  eapply chain_cases; eassumption.
Qed.

Lemma first_unique : forall ns ls es ch1 ch2, good ns ls es ->
  In ch1 (all_chains ns ls es) -> In ch2 (all_chains ns ls es) ->
  c_first ch1 = c_first ch2 -> is_fiber (c_first ch1) -> ch1 = ch2.
Proof.
  intros ns ls es ch1 ch2 G H1 H2 E F.
  destruct (chain_shape_of _ _ _ _ G H1) as [n1 [N1 S1]]. destruct (chain_shape_of _ _ _ _ G H2) as [n2 [N2 S2]].
  assert (n1 = n2).
  { apply (same_city_same_node ns n1 n2 (g_cities _ _ _ G) N1 N2).
    rewrite <- (first_fiber_site _ _ _ _ S1 F). rewrite E in F. rewrite <- (first_fiber_site _ _ _ _ S2 F), E. reflexivity. }
  subst n2. eapply first_unique_node; eassumption.
Qed.
Lemma last_unique : forall ns ls es ch1 ch2, good ns ls es ->
  In ch1 (all_chains ns ls es) -> In ch2 (all_chains ns ls es) ->
  c_last ch1 = c_last ch2 -> is_fiber (c_last ch1) -> ch1 = ch2.
Proof.
  intros ns ls es ch1 ch2 G H1 H2 E F.
  destruct (chain_shape_of _ _ _ _ G H1) as [n1 [N1 S1]]. destruct (chain_shape_of _ _ _ _ G H2) as [n2 [N2 S2]].
  assert (n1 = n2).
  { apply (same_city_same_node ns n1 n2 (g_cities _ _ _ G) N1 N2).
    rewrite <- (last_fiber_site _ _ _ _ S1 F). rewrite E in F. rewrite <- (last_fiber_site _ _ _ _ S2 F), E. reflexivity. }
  subst n2. eapply last_unique_node; eassumption.
Qed.
Lemma mid_unique : forall ns ls es ch1 ch2 m, good ns ls es ->
  In ch1 (all_chains ns ls es) -> In ch2 (all_chains ns ls es) ->
  c_mid ch1 = Some m -> c_mid ch2 = Some m -> ch1 = ch2.
Proof.
  intros ns ls es ch1 ch2 m G H1 H2 M1 M2.
  destruct (chain_shape_of _ _ _ _ G H1) as [n1 [N1 S1]]. destruct (chain_shape_of _ _ _ _ G H2) as [n2 [N2 S2]].
  assert (n1 = n2).
  { apply (same_city_same_node ns n1 n2 (g_cities _ _ _ G) N1 N2).
    destruct (chain_mid_kind _ _ _ _ _ S1 M1) as [_ C1]. destruct (chain_mid_kind _ _ _ _ _ S2 M2) as [_ C2]. congruence. }
  subst n2. eapply mid_unique_node; eassumption.
Qed.
