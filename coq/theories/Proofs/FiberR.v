(* C05 — proofs over the reals: quadrature accumulation of PMD / PDL (sqrt form used by the code vs the
   squared form executed by the model), first-order Raman pump gain. *)
From Coq Require Import Reals Lra Permutation QArith Qreals List Ranalysis1.
Import ListNotations.
From Verif Require Import Model.Fiber Proofs.Fiber.
Open Scope R_scope.

(* the update performed by Fiber / Roadm / Edfa .propagate:  x := sqrt(x**2 + contribution**2) *)
Definition quad_step (acc x : R) : R := sqrt (acc * acc + x * x).
Definition quad_fold (l : list R) (a : R) : R := fold_left quad_step l a.
Definition sum_sq (l : list R) : R := fold_right (fun x s => x * x + s) 0 l.

Lemma sum_sq_nonneg : forall l, 0 <= sum_sq l.
Proof. induction l as [|x t IH]; cbn [sum_sq fold_right]; [lra|]. fold (sum_sq t). nra. Qed.

Lemma quad_fold_from : forall l a, 0 <= a -> quad_fold l a = sqrt (a * a + sum_sq l).
Proof.
  induction l as [|x t IH]; intros a Ha; cbn [quad_fold fold_left sum_sq fold_right].
  - rewrite Rplus_0_r. symmetry. apply sqrt_square. exact Ha.
  - fold (quad_fold t (quad_step a x)). fold (sum_sq t). rewrite IH by apply sqrt_pos.
    unfold quad_step. rewrite sqrt_sqrt by nra. f_equal. ring.
Qed.

Lemma pmd_quadrature : forall l, quad_fold l 0 = sqrt (sum_sq l).
Proof. intros l. rewrite quad_fold_from by lra. f_equal. ring. Qed.

Lemma sum_sq_perm : forall l l', Permutation l l' -> sum_sq l = sum_sq l'.
Proof.
  induction 1 as [|x l l' HP IH|x y l|l l' l'' HP1 IH1 HP2 IH2]; cbn [sum_sq fold_right].
  - reflexivity.
  - fold (sum_sq l). fold (sum_sq l'). rewrite IH. reflexivity.
  - fold (sum_sq l). ring.
  - congruence.
Qed.

Lemma quad_fold_perm : forall l l' a, 0 <= a -> Permutation l l' -> quad_fold l a = quad_fold l' a.
Proof. intros l l' a Ha HP. rewrite !quad_fold_from by exact Ha. rewrite (sum_sq_perm _ _ HP). reflexivity. Qed.

Lemma quad_fold_app : forall l1 l2 a, quad_fold (l1 ++ l2) a = quad_fold l2 (quad_fold l1 a).
Proof. intros. unfold quad_fold. apply fold_left_app. Qed.

(* the squared, rational form the model executes *)
Definition q_sq_fold (l : list Q) (s : Q) : Q := fold_left (fun s x => (s + x * x)%Q) l s.

Lemma q_sq_fold_R : forall l s, Q2R (q_sq_fold l s) = Q2R s + sum_sq (map Q2R l).
Proof.
  induction l as [|x t IH]; intros s; cbn [q_sq_fold fold_left map sum_sq fold_right].
  - ring.
  - fold (q_sq_fold t (s + x * x)%Q). fold (sum_sq (map Q2R t)). rewrite IH, Q2R_plus, Q2R_mult. ring.
Qed.

Lemma pmd_sq_exec : forall (l : list Q) (a : Q), 0 <= Q2R a ->
  sqrt (Q2R (q_sq_fold l (a * a)%Q)) = quad_fold (map Q2R l) (Q2R a).
Proof.
  intros l a Ha. rewrite quad_fold_from by exact Ha. rewrite q_sq_fold_R, Q2R_mult. reflexivity.
Qed.

(* the model's accumulator field is this fold: a_pmd2 after a path = q_sq_fold of the square roots *)
Lemma accumulate_pmd2_fold : forall cs a,
  a_pmd2 (accumulate cs a) = fold_left (fun s c => (s + d_pmd2 c)%Q) cs (a_pmd2 a) /\
  a_pdl2 (accumulate cs a) = fold_left (fun s c => (s + d_pdl2 c)%Q) cs (a_pdl2 a).
Proof.
  induction cs as [|c t IH]; intros a; cbn [accumulate fold_left]; [split; reflexivity|].
  fold (accumulate t (add_contrib a c)). destruct (IH (add_contrib a c)) as [H1 H2]. rewrite H1, H2.
  split; reflexivity.
Qed.

(* Fiber.pmd = pmd_coef * sqrt(length); its square is what the model adds *)
Lemma fiber_pmd_sq : forall coef L, 0 <= L -> (coef * sqrt L) * (coef * sqrt L) = coef * coef * L.
Proof. intros coef L HL. replace (coef * sqrt L * (coef * sqrt L)) with (coef * coef * (sqrt L * sqrt L)) by ring.
  rewrite sqrt_sqrt by exact HL. reflexivity. Qed.

(* ------------------------------------------------------------------------------------------------
   perturbative solver, order 1: exponent_j(z) = -alpha_j z + sum_k cr_jk P_k Leff_k(z).
   Pumps (cr_j,pump >= 0, power >= 0) only add gain. *)
Definition eff_length (alpha z : R) : R := (1 - exp (- alpha * z)) / alpha.

Lemma eff_length_nonneg : forall alpha z, 0 < alpha -> 0 <= z -> 0 <= eff_length alpha z.
Proof.
  intros alpha z Ha Hz. unfold eff_length. apply Rmult_le_pos; [|left; apply Rinv_0_lt_compat; exact Ha].
  assert (exp (- alpha * z) <= 1); [|lra].
  rewrite <- exp_0. destruct (Req_dec (- alpha * z) 0) as [->|Hne]; [lra|].
  left. apply exp_increasing. nra.
Qed.

(* a pump = (cr_j,pump, power, alpha_pump) *)
Definition pump_term (z : R) (p : R * R * R) : R := let '(cr, pw, al) := p in cr * pw * eff_length al z.
Definition pumps_gain (z : R) (ps : list (R * R * R)) : R := fold_right (fun p s => pump_term z p + s) 0 ps.

Lemma pumps_gain_nonneg : forall z ps, 0 <= z ->
  Forall (fun p => let '(cr, pw, al) := p in 0 <= cr /\ 0 <= pw /\ 0 < al) ps -> 0 <= pumps_gain z ps.
Proof.
  intros z ps Hz HF. induction HF as [|[[cr pw] al] t [H1 [H2 H3]] HF IH]; cbn [pumps_gain fold_right]; [lra|].
  fold (pumps_gain z t). unfold pump_term. pose proof (eff_length_nonneg al z H3 Hz).
  assert (0 <= cr * pw) by nra. nra.
Qed.

Lemma pump_gain_nonneg_order1 : forall base z ps, 0 <= z ->
  Forall (fun p => let '(cr, pw, al) := p in 0 <= cr /\ 0 <= pw /\ 0 < al) ps ->
  exp base <= exp (base + pumps_gain z ps).
Proof.
  intros base z ps Hz HF. pose proof (pumps_gain_nonneg z ps Hz HF) as H.
  destruct (Req_dec (pumps_gain z ps) 0) as [->|Hne]; [rewrite Rplus_0_r; lra|].
  left. apply exp_increasing. lra.
Qed.

(* ------------------------------------------------------------------------------------------------
   Euler scheme at zero power vs the exponential attenuation: the discretisation bound *)
Definition prod1m (xs : list R) : R := fold_right (fun x p => (1 - x) * p) 1 xs.
Definition rsum (xs : list R) : R := fold_right Rplus 0 xs.

Lemma ln_le_sub1 : forall y, 0 < y -> ln y <= y - 1.
Proof.
  intros y Hy. pose proof (exp_ineq1_le (ln y)) as H. rewrite exp_ln in H by exact Hy. lra.
Qed.

Lemma ln_1m_bounds : forall x, 0 <= x <= 1 / 2 -> - x - 2 * (x * x) <= ln (1 - x) <= - x.
Proof.
  intros x [H0 H1]. assert (0 < 1 - x) as Hp by lra. split.
  - assert (- ln (1 - x) <= x + 2 * (x * x)); [|lra].
    rewrite <- ln_Rinv by exact Hp.
    eapply Rle_trans; [apply ln_le_sub1; apply Rinv_0_lt_compat; exact Hp|].
    assert (/ (1 - x) - 1 = x * / (1 - x)) as -> by (field; lra).
    assert (/ (1 - x) <= 2) as Hi.
    { replace 2 with (/ (1 / 2)) by field. apply Rinv_le_contravar; lra. }
    assert (x * / (1 - x) = x + x * x * / (1 - x)) as -> by (field; lra).
    assert (0 <= x * x) by nra. nra.
  - pose proof (ln_le_sub1 (1 - x) Hp). lra.
Qed.

Lemma prod1m_pos : forall xs, Forall (fun x => 0 <= x <= 1 / 2) xs -> 0 < prod1m xs.
Proof.
  induction 1 as [|x t Hx HF IH]; cbn [prod1m fold_right]; [lra|]. fold (prod1m t).
  apply Rmult_lt_0_compat; [lra|exact IH].
Qed.

Lemma euler_vs_budget : forall xs, Forall (fun x => 0 <= x <= 1 / 2) xs ->
  - 2 * rsum (map (fun x => x * x) xs) <= ln (prod1m xs) + rsum xs <= 0.
Proof.
  induction 1 as [|x t Hx HF IH]; cbn [prod1m rsum map fold_right].
  - rewrite ln_1. lra.
  - fold (prod1m t). fold (rsum t). fold (rsum (map (fun x => x * x) t)).
    rewrite ln_mult; [|lra|apply prod1m_pos; exact HF].
    pose proof (ln_1m_bounds x Hx). lra.
Qed.

(* the rational zero-power factor of the model is this product *)
Fixpoint grid_dzs (grid : list (Q * Q)) : list Q :=
  match grid with
  | [] => []
  | (z0, _) :: t =>
      match t with
      | [] => []
      | (z1, _) :: _ => (z1 - z0)%Q :: grid_dzs t
      end
  end.

Lemma Q2R_1 : Q2R 1 = 1.
Proof. unfold Q2R. cbn. field. Qed.

Lemma step_prod_R : forall a grid,
  Q2R (step_prod a grid) = prod1m (map (fun dz => Q2R a * Q2R dz) (grid_dzs grid)).
Proof.
  intros a grid. induction grid as [|[z0 l0] t IH].
  - cbn. apply Q2R_1.
  - destruct t as [|[z1 l1] t'].
    + cbn. apply Q2R_1.
    + rewrite step_prod_step. change (grid_dzs ((z0, l0) :: (z1, l1) :: t')) with ((z1 - z0)%Q :: grid_dzs ((z1, l1) :: t')).
      cbn [map prod1m fold_right]. fold (prod1m (map (fun dz => Q2R a * Q2R dz) (grid_dzs ((z1, l1) :: t')))).
      rewrite <- IH, Q2R_mult, Q2R_minus, Q2R_mult, Q2R_1. reflexivity.
Qed.

(* ln of the Euler attenuation over the grid vs -alpha * length: off by at most 2 * sum (alpha dz_k)^2 *)
Theorem euler_discretisation_bound : forall a grid,
  Forall (fun dz => 0 <= Q2R a * Q2R dz <= 1 / 2) (grid_dzs grid) ->
  let xs := map (fun dz => Q2R a * Q2R dz) (grid_dzs grid) in
  - 2 * rsum (map (fun x => x * x) xs) <= ln (Q2R (step_prod a grid)) + rsum xs <= 0.
Proof.
  intros a grid HF xs. rewrite step_prod_R. apply euler_vs_budget.
  unfold xs. rewrite Forall_forall in *. intros x Hx. apply in_map_iff in Hx. destruct Hx as [dz [<- Hdz]].
  apply HF; exact Hdz.
Qed.

(* ================================================================================================
   the zero-power LIMIT of the Euler scheme (continuity in the scaling factor of the input powers) *)
(* Euler scheme over R, loss-profile form, with the input powers scaled by t: state = one function of t per channel *)
Definition cont0 (f : R -> R) : Prop := continuity_pt f 0.

Fixpoint dotF (r : list R) (ps : list (R -> R)) : R -> R :=
  match r, ps with
  | a :: r', p :: ps' => fun t => a * p t + dotF r' ps' t
  | _, _ => fun _ => 0
  end.

Fixpoint powersF (p0 : list R) (gs : list (R -> R)) : list (R -> R) :=
  match p0, gs with
  | p :: p0', g :: gs' => (fun t => (t * p) * g t) :: powersF p0' gs'
  | _, _ => []
  end.

Fixpoint stepF_aux (ps : list (R -> R)) (dz ll : R) (gs : list (R -> R)) (alpha : list R) (cr : list (list R))
  : list (R -> R) :=
  match gs, alpha, cr with
  | g :: gs', a :: alpha', c :: cr' =>
      (fun t => g t * (1 + (- a + dotF c ps t) * dz) * ll) :: stepF_aux ps dz ll gs' alpha' cr'
  | _, _, _ => []
  end.
Definition stepF (alpha : list R) (cr : list (list R)) (p0 : list R) (dz ll : R) (gs : list (R -> R)) : list (R -> R) :=
  stepF_aux (powersF p0 gs) dz ll gs alpha cr.

Fixpoint eulerF (alpha : list R) (cr : list (list R)) (p0 : list R) (grid : list (R * R)) (gs : list (R -> R))
  : list (R -> R) :=
  match grid with
  | [] => gs
  | (z0, l0) :: t =>
      match t with
      | [] => gs
      | (z1, _) :: _ => eulerF alpha cr p0 t (stepF alpha cr p0 (z1 - z0) l0 gs)
      end
  end.

Fixpoint grid_factorR (a : R) (grid : list (R * R)) : R :=
  match grid with
  | [] => 1
  | (z0, l0) :: t =>
      match t with
      | [] => 1
      | (z1, _) :: _ => (1 - a * (z1 - z0)) * l0 * grid_factorR a t
      end
  end.

Lemma cont0_const : forall c, cont0 (fun _ => c).
Proof. intros c. apply continuity_pt_const. intros x y. reflexivity. Qed.
Lemma cont0_id : cont0 (fun t => t).
Proof. apply derivable_continuous_pt. apply derivable_pt_id. Qed.
Lemma cont0_plus : forall f g, cont0 f -> cont0 g -> cont0 (fun t => f t + g t).
Proof. intros f g Hf Hg. apply (continuity_pt_plus f g 0 Hf Hg). Qed.
Lemma cont0_mult : forall f g, cont0 f -> cont0 g -> cont0 (fun t => f t * g t).
Proof. intros f g Hf Hg. apply (continuity_pt_mult f g 0 Hf Hg). Qed.

Lemma dotF_cont : forall r ps, Forall cont0 ps -> cont0 (dotF r ps).
Proof.
  induction r as [|a r IH]; intros ps HF; cbn [dotF]; [apply cont0_const|].
  destruct ps as [|p ps]; [apply cont0_const|]. inversion HF as [|x l Hp HFt]; subst.
  apply cont0_plus; [apply cont0_mult; [apply cont0_const|exact Hp]|apply IH; exact HFt].
Qed.

Lemma powersF_cont : forall p0 gs, Forall cont0 gs -> Forall cont0 (powersF p0 gs).
Proof.
  induction p0 as [|p p0 IH]; intros gs HF; cbn [powersF]; [constructor|].
  destruct gs as [|g gs]; [constructor|]. inversion HF as [|x l Hg HFt]; subst. constructor.
  - apply cont0_mult; [apply cont0_mult; [apply cont0_id|apply cont0_const]|exact Hg].
  - apply IH; exact HFt.
Qed.

Lemma stepF_aux_cont : forall ps dz ll gs alpha cr, Forall cont0 ps -> Forall cont0 gs ->
  Forall cont0 (stepF_aux ps dz ll gs alpha cr).
Proof.
  intros ps dz ll. induction gs as [|g gs IH]; intros alpha cr Hps HF; cbn [stepF_aux]; [constructor|].
  destruct alpha as [|a alpha]; [constructor|]. destruct cr as [|c cr]; [constructor|].
  inversion HF as [|x l Hg HFt]; subst. constructor; [|apply IH; assumption].
  apply cont0_mult; [|apply cont0_const]. apply cont0_mult; [exact Hg|].
  apply cont0_plus; [apply cont0_const|]. apply cont0_mult; [|apply cont0_const].
  apply cont0_plus; [apply cont0_const|apply dotF_cont; exact Hps].
Qed.

Lemma eulerF_cont : forall alpha cr p0 grid gs, Forall cont0 gs -> Forall cont0 (eulerF alpha cr p0 grid gs).
Proof.
  intros alpha cr p0 grid. induction grid as [|[z0 l0] t IH]; intros gs HF; cbn [eulerF]; [exact HF|].
  destruct t as [|[z1 l1] t']; [exact HF|]. apply IH. unfold stepF.
  apply stepF_aux_cont; [apply powersF_cont; exact HF|exact HF].
Qed.

(* value at t = 0: every channel decouples *)
Lemma dotF_zero : forall r ps, Forall (fun p => p 0 = 0) ps -> dotF r ps 0 = 0.
Proof.
  induction r as [|a r IH]; intros ps HF; cbn [dotF]; [reflexivity|].
  destruct ps as [|p ps]; [reflexivity|]. inversion HF as [|x l Hp HFt]; subst. rewrite Hp, (IH ps HFt). ring.
Qed.
Lemma powersF_zero : forall p0 gs, Forall (fun p => p 0 = 0) (powersF p0 gs).
Proof.
  induction p0 as [|p p0 IH]; intros gs; cbn [powersF]; [constructor|].
  destruct gs as [|g gs]; [constructor|]. constructor; [ring|apply IH].
Qed.

(* the values at 0 of a list of functions *)
Definition at0 (gs : list (R -> R)) : list R := map (fun g => g 0) gs.

Fixpoint lin_stepR (dz ll : R) (g : list R) (alpha : list R) (cr : list (list R)) : list R :=
  match g, alpha, cr with
  | x :: g', a :: alpha', _ :: cr' => x * (1 - a * dz) * ll :: lin_stepR dz ll g' alpha' cr'
  | _, _, _ => []
  end.

Lemma stepF_at0 : forall ps dz ll gs alpha cr, Forall (fun p => p 0 = 0) ps ->
  at0 (stepF_aux ps dz ll gs alpha cr) = lin_stepR dz ll (at0 gs) alpha cr.
Proof.
  intros ps dz ll. induction gs as [|g gs IH]; intros alpha cr Hps; cbn [stepF_aux at0 map lin_stepR]; [reflexivity|].
  destruct alpha as [|a alpha]; [reflexivity|]. destruct cr as [|c cr]; [reflexivity|].
  cbn [map]. rewrite (dotF_zero c ps Hps). f_equal; [ring|]. apply (IH alpha cr Hps).
Qed.

Fixpoint closedR (grid : list (R * R)) (g : list R) (alpha : list R) (cr : list (list R)) : list R :=
  match g, alpha, cr with
  | x :: g', a :: alpha', _ :: cr' => x * grid_factorR a grid :: closedR grid g' alpha' cr'
  | _, _, _ => []
  end.

Lemma closedR_unit : forall g alpha cr, length alpha = length g -> length cr = length g ->
  closedR [] g alpha cr = g.
Proof.
  induction g as [|x g IH]; intros alpha cr Ha Hc; [reflexivity|].
  destruct alpha as [|a alpha]; [discriminate|]. destruct cr as [|c cr]; [discriminate|].
  cbn [closedR grid_factorR]. f_equal; [ring|]. apply IH; cbn [length] in *; congruence.
Qed.
Lemma closedR_single : forall p g alpha cr, length alpha = length g -> length cr = length g ->
  closedR [p] g alpha cr = g.
Proof.
  intros [z l]. induction g as [|x g IH]; intros alpha cr Ha Hc; [reflexivity|].
  destruct alpha as [|a alpha]; [discriminate|]. destruct cr as [|c cr]; [discriminate|].
  cbn [closedR grid_factorR]. f_equal; [ring|]. apply IH; cbn [length] in *; congruence.
Qed.

Lemma lin_step_length : forall dz ll g alpha cr, length alpha = length g -> length cr = length g ->
  length (lin_stepR dz ll g alpha cr) = length g.
Proof.
  induction g as [|x g IH]; intros alpha cr Ha Hc; [reflexivity|].
  destruct alpha as [|a alpha]; [discriminate|]. destruct cr as [|c cr]; [discriminate|].
  cbn [lin_stepR length]. f_equal. apply IH; cbn [length] in *; congruence.
Qed.

Lemma closedR_step : forall z0 l0 z1 l1 t g alpha cr,
  closedR ((z1, l1) :: t) (lin_stepR (z1 - z0) l0 g alpha cr) alpha cr = closedR ((z0, l0) :: (z1, l1) :: t) g alpha cr.
Proof.
  intros z0 l0 z1 l1 t. induction g as [|x g IH]; intros alpha cr; [reflexivity|].
  destruct alpha as [|a alpha]; [reflexivity|]. destruct cr as [|c cr]; [reflexivity|].
  cbn [lin_stepR closedR]. f_equal; [|apply IH].
  change (grid_factorR a ((z0, l0) :: (z1, l1) :: t)) with ((1 - a * (z1 - z0)) * l0 * grid_factorR a ((z1, l1) :: t)). ring.
Qed.

Lemma at0_length : forall gs, length (at0 gs) = length gs.
Proof. intros. unfold at0. apply map_length. Qed.

Lemma eulerF_step : forall alpha cr p0 z0 l0 z1 l1 t gs,
  eulerF alpha cr p0 ((z0, l0) :: (z1, l1) :: t) gs = eulerF alpha cr p0 ((z1, l1) :: t) (stepF alpha cr p0 (z1 - z0) l0 gs).
Proof. reflexivity. Qed.

Lemma eulerF_at0 : forall alpha cr p0 grid gs, length alpha = length gs -> length cr = length gs ->
  at0 (eulerF alpha cr p0 grid gs) = closedR grid (at0 gs) alpha cr.
Proof.
  intros alpha cr p0 grid. induction grid as [|[z0 l0] t IH]; intros gs Ha Hc.
  - cbn [eulerF]. rewrite closedR_unit; rewrite ?at0_length; auto.
  - destruct t as [|[z1 l1] t'].
    + cbn [eulerF]. rewrite closedR_single; rewrite ?at0_length; auto.
    + rewrite eulerF_step, IH.
      * unfold stepF. rewrite stepF_at0 by apply powersF_zero. apply closedR_step.
      * unfold stepF. rewrite <- (at0_length (stepF_aux _ _ _ _ _ _)), stepF_at0 by apply powersF_zero.
        rewrite lin_step_length; rewrite ?at0_length; auto.
      * unfold stepF. rewrite <- (at0_length (stepF_aux _ _ _ _ _ _)), stepF_at0 by apply powersF_zero.
        rewrite lin_step_length; rewrite ?at0_length; auto.
Qed.

(* the limit: as the input powers t * p0 go to 0, the loss profile of every channel tends to the zero-power
   closed form g_j * prod_k (1 - alpha_j dz_k) * lumped_k *)
Theorem euler_zero_power_limit : forall alpha cr p0 grid (g : list R) j,
  length alpha = length g -> length cr = length g ->
  let Gs := eulerF alpha cr p0 grid (map (fun x => fun _ : R => x) g) in
  forall eps, 0 < eps -> exists delta, 0 < delta /\
    forall t, Rabs t < delta ->
      Rabs (nth j Gs (fun _ => 0) t - nth j (closedR grid g alpha cr) 0) < eps.
Proof.
  intros alpha cr p0 grid g j Ha Hc Gs eps Heps.
  assert (Forall cont0 Gs) as HF.
  { apply eulerF_cont. clear. induction g; constructor; [apply cont0_const|assumption]. }
  assert (at0 Gs = closedR grid g alpha cr) as H0.
  { unfold Gs. rewrite eulerF_at0; rewrite ?map_length; auto. f_equal. unfold at0. rewrite map_map. apply map_id. }
  assert (cont0 (nth j Gs (fun _ => 0))) as Hj.
  { destruct (nth_in_or_default j Gs (fun _ => 0)) as [Hin|Hd]; [|rewrite Hd; apply cont0_const].
    rewrite Forall_forall in HF. apply HF; exact Hin. }
  assert (nth j (closedR grid g alpha cr) 0 = nth j Gs (fun _ => 0) 0) as ->.
  { rewrite <- H0. unfold at0. exact (map_nth (fun g : R -> R => g 0) Gs (fun _ => 0) j). }
  destruct (Hj eps Heps) as [delta [Hd Hlim]]. exists delta. split; [exact Hd|].
  intros t Ht. destruct (Req_dec t 0) as [->|Hne].
  - rewrite Rminus_diag_eq by reflexivity. rewrite Rabs_R0. exact Heps.
  - apply Hlim. split; [split; [exact I|auto]|]. cbn. unfold R_dist. rewrite Rminus_0_r. exact Ht.
Qed.

(* the rational Euler scheme of Model/Fiber.v, read in R, is eulerF evaluated at the scaling factor *)
Definition evalF (t : R) (Gs : list (R -> R)) : list R := map (fun G => G t) Gs.
Definition gridR (grid : list (Q * Q)) : list (R * R) := map (fun zl => (Q2R (fst zl), Q2R (snd zl))) grid.

Lemma Q2R_0' : Q2R 0 = 0.
Proof. unfold Q2R. cbn. field. Qed.
Lemma Q2R_1' : Q2R 1 = 1.
Proof. unfold Q2R. cbn. field. Qed.
Lemma Q2R_Qred : forall q, Q2R (Qred q) = Q2R q.
Proof. intros q. apply Qeq_eqR. apply Qred_correct. Qed.

Lemma dot_R : forall t r p Ps, evalF t Ps = map Q2R p -> Q2R (dot r p) = dotF (map Q2R r) Ps t.
Proof.
  intros t. unfold dot. induction r as [|a r IH]; intros p Ps H; cbn [map dotF combine qsum fold_right].
  - apply Q2R_0'.
  - destruct p as [|x p]; destruct Ps as [|P Ps]; try discriminate H; cbn [map combine fold_right dotF].
    + apply Q2R_0'.
    + cbn [evalF map] in H. injection H as H1 H2. cbn [fst snd].
      rewrite Q2R_plus, Q2R_mult, <- H1. f_equal. apply IH. exact H2.
Qed.

Lemma powers_R : forall t tq p0 g Gs, t = Q2R tq -> evalF t Gs = map Q2R g ->
  evalF t (powersF (map Q2R p0) Gs) = map Q2R (map (fun pg => (fst pg * snd pg)%Q) (combine (map (Qmult tq) p0) g)).
Proof.
  intros t tq p0. induction p0 as [|p p0 IH]; intros g Gs Ht H; cbn [map powersF combine evalF]; [reflexivity|].
  destruct g as [|x g]; destruct Gs as [|G Gs]; try discriminate H; cbn [map combine powersF]; [reflexivity|].
  cbn [evalF map] in H. injection H as H1 H2. cbn [fst snd]. f_equal.
  - rewrite !Q2R_mult, H1, Ht. reflexivity.
  - apply IH; assumption.
Qed.

Lemma step_R : forall t Ps pq dz ll g Gs alpha cr, evalF t Ps = map Q2R pq -> evalF t Gs = map Q2R g ->
  evalF t (stepF_aux Ps (Q2R dz) (Q2R ll) Gs (map Q2R alpha) (map (map Q2R) cr)) =
  map Q2R (map (fun u : Q * (Q * list Q) => let '(gj, (aj, crj)) := u in
                 Qred (gj * (1 + (- aj + Qred (dot crj pq)) * dz) * ll))%Q (combine g (combine alpha cr))).
Proof.
  intros t Ps pq dz ll. induction g as [|x g IH]; intros Gs alpha cr HP H.
  - destruct Gs; [reflexivity|discriminate H].
  - destruct Gs as [|G Gs]; [discriminate H|]. cbn [evalF map] in H. injection H as H1 H2.
    destruct alpha as [|a alpha]; [reflexivity|]. destruct cr as [|c cr]; [reflexivity|].
    cbn [map combine stepF_aux evalF]. f_equal.
    + rewrite Q2R_Qred, !Q2R_mult, Q2R_plus, Q2R_mult, Q2R_plus, Q2R_opp, Q2R_Qred, Q2R_1', H1.
      rewrite (dot_R t c pq Ps HP). reflexivity.
    + apply IH; assumption.
Qed.

Lemma euler_g_R : forall alpha cr p0 tq grid g Gs, evalF (Q2R tq) Gs = map Q2R g ->
  evalF (Q2R tq) (eulerF (map Q2R alpha) (map (map Q2R) cr) (map Q2R p0) (gridR grid) Gs) =
  map Q2R (euler_g alpha cr (map (Qmult tq) p0) grid g).
Proof.
  intros alpha cr p0 tq grid. induction grid as [|[z0 l0] t IH]; intros g Gs H; [exact H|].
  destruct t as [|[z1 l1] t']; [exact H|].
  change (gridR ((z0, l0) :: (z1, l1) :: t')) with ((Q2R z0, Q2R l0) :: (Q2R z1, Q2R l1) :: gridR t').
  rewrite eulerF_step. change ((Q2R z1, Q2R l1) :: gridR t') with (gridR ((z1, l1) :: t')).
  cbn [euler_g]. apply IH. unfold stepF, euler_step_g. rewrite <- Q2R_minus.
  apply step_R; [|exact H]. apply (powers_R (Q2R tq) tq); [reflexivity|exact H].
Qed.
