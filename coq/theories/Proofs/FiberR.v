(* C05 — proofs over the reals: quadrature accumulation of PMD / PDL (sqrt form used by the code vs the
   squared form executed by the model), first-order Raman pump gain. *)
From Coq Require Import Reals Lra Permutation QArith Qreals List.
Import ListNotations.
From Verif Require Import Model.Fiber Proofs.Fiber.
Open Scope R_scope.

(* the update performed by Fiber / Roadm / Edfa .propagate:  x := sqrt(x**2 + contribution**2) *)
Definition quad_step (acc x : R) : R := sqrt (acc * acc + x * x).
Definition quad_fold (l : list R) (a : R) : R := fold_left quad_step l a.
Definition sum_sq (l : list R) : R := fold_right (fun x s => x * x + s) 0 l.

Lemma sum_sq_nonneg : forall l, 0 <= sum_sq l.
Proof. induction l as [|x t IH]; cbn [sum_sq fold_right]; [lra|]. fold (sum_sq t). nra. Qed.

Lemma quad_fold_from : forall l a, 0 <= a -> quad_fold l a = sqrt (a * a + sum_sq l).
Proof.
  induction l as [|x t IH]; intros a Ha; cbn [quad_fold fold_left sum_sq fold_right].
  - rewrite Rplus_0_r. symmetry. apply sqrt_square. exact Ha.
  - fold (quad_fold t (quad_step a x)). fold (sum_sq t). rewrite IH by apply sqrt_pos.
    unfold quad_step. rewrite sqrt_sqrt by nra. f_equal. ring.
Qed.

Lemma pmd_quadrature : forall l, quad_fold l 0 = sqrt (sum_sq l).
Proof. intros l. rewrite quad_fold_from by lra. f_equal. ring. Qed.

Lemma sum_sq_perm : forall l l', Permutation l l' -> sum_sq l = sum_sq l'.
Proof.
  induction 1 as [|x l l' HP IH|x y l|l l' l'' HP1 IH1 HP2 IH2]; cbn [sum_sq fold_right].
  - reflexivity.
  - fold (sum_sq l). fold (sum_sq l'). rewrite IH. reflexivity.
  - fold (sum_sq l). ring.
  - congruence.
Qed.

Lemma quad_fold_perm : forall l l' a, 0 <= a -> Permutation l l' -> quad_fold l a = quad_fold l' a.
Proof. intros l l' a Ha HP. rewrite !quad_fold_from by exact Ha. rewrite (sum_sq_perm _ _ HP). reflexivity. Qed.

Lemma quad_fold_app : forall l1 l2 a, quad_fold (l1 ++ l2) a = quad_fold l2 (quad_fold l1 a).
Proof. intros. unfold quad_fold. apply fold_left_app. Qed.

(* the squared, rational form the model executes *)
Definition q_sq_fold (l : list Q) (s : Q) : Q := fold_left (fun s x => (s + x * x)%Q) l s.

Lemma q_sq_fold_R : forall l s, Q2R (q_sq_fold l s) = Q2R s + sum_sq (map Q2R l).
Proof.
  induction l as [|x t IH]; intros s; cbn [q_sq_fold fold_left map sum_sq fold_right].
  - ring.
  - fold (q_sq_fold t (s + x * x)%Q). fold (sum_sq (map Q2R t)). rewrite IH, Q2R_plus, Q2R_mult. ring.
Qed.

Lemma pmd_sq_exec : forall (l : list Q) (a : Q), 0 <= Q2R a ->
  sqrt (Q2R (q_sq_fold l (a * a)%Q)) = quad_fold (map Q2R l) (Q2R a).
Proof.
  intros l a Ha. rewrite quad_fold_from by exact Ha. rewrite q_sq_fold_R, Q2R_mult. reflexivity.
Qed.

(* the model's accumulator field is this fold: a_pmd2 after a path = q_sq_fold of the square roots *)
Lemma accumulate_pmd2_fold : forall cs a,
  a_pmd2 (accumulate cs a) = fold_left (fun s c => (s + d_pmd2 c)%Q) cs (a_pmd2 a) /\
  a_pdl2 (accumulate cs a) = fold_left (fun s c => (s + d_pdl2 c)%Q) cs (a_pdl2 a).
Proof.
  induction cs as [|c t IH]; intros a; cbn [accumulate fold_left]; [split; reflexivity|].
  fold (accumulate t (add_contrib a c)). destruct (IH (add_contrib a c)) as [H1 H2]. rewrite H1, H2.
  split; reflexivity.
Qed.

(* Fiber.pmd = pmd_coef * sqrt(length); its square is what the model adds *)
Lemma fiber_pmd_sq : forall coef L, 0 <= L -> (coef * sqrt L) * (coef * sqrt L) = coef * coef * L.
Proof. intros coef L HL. replace (coef * sqrt L * (coef * sqrt L)) with (coef * coef * (sqrt L * sqrt L)) by ring.
  rewrite sqrt_sqrt by exact HL. reflexivity. Qed.

(* ------------------------------------------------------------------------------------------------
   perturbative solver, order 1: exponent_j(z) = -alpha_j z + sum_k cr_jk P_k Leff_k(z).
   Pumps (cr_j,pump >= 0, power >= 0) only add gain. *)
Definition eff_length (alpha z : R) : R := (1 - exp (- alpha * z)) / alpha.

Lemma eff_length_nonneg : forall alpha z, 0 < alpha -> 0 <= z -> 0 <= eff_length alpha z.
Proof.
  intros alpha z Ha Hz. unfold eff_length. apply Rmult_le_pos; [|left; apply Rinv_0_lt_compat; exact Ha].
  assert (exp (- alpha * z) <= 1); [|lra].
  rewrite <- exp_0. destruct (Req_dec (- alpha * z) 0) as [->|Hne]; [lra|].
  left. apply exp_increasing. nra.
Qed.

(* a pump = (cr_j,pump, power, alpha_pump) *)
Definition pump_term (z : R) (p : R * R * R) : R := let '(cr, pw, al) := p in cr * pw * eff_length al z.
Definition pumps_gain (z : R) (ps : list (R * R * R)) : R := fold_right (fun p s => pump_term z p + s) 0 ps.

Lemma pumps_gain_nonneg : forall z ps, 0 <= z ->
  Forall (fun p => let '(cr, pw, al) := p in 0 <= cr /\ 0 <= pw /\ 0 < al) ps -> 0 <= pumps_gain z ps.
Proof.
  intros z ps Hz HF. induction HF as [|[[cr pw] al] t [H1 [H2 H3]] HF IH]; cbn [pumps_gain fold_right]; [lra|].
  fold (pumps_gain z t). unfold pump_term. pose proof (eff_length_nonneg al z H3 Hz).
  assert (0 <= cr * pw) by nra. nra.
Qed.

Lemma pump_gain_nonneg_order1 : forall base z ps, 0 <= z ->
  Forall (fun p => let '(cr, pw, al) := p in 0 <= cr /\ 0 <= pw /\ 0 < al) ps ->
  exp base <= exp (base + pumps_gain z ps).
Proof.
  intros base z ps Hz HF. pose proof (pumps_gain_nonneg z ps Hz HF) as H.
  destruct (Req_dec (pumps_gain z ps) 0) as [->|Hne]; [rewrite Rplus_0_r; lra|].
  left. apply exp_increasing. lra.
Qed.

(* ------------------------------------------------------------------------------------------------
   Euler scheme at zero power vs the exponential attenuation: the discretisation bound *)
Definition prod1m (xs : list R) : R := fold_right (fun x p => (1 - x) * p) 1 xs.
Definition rsum (xs : list R) : R := fold_right Rplus 0 xs.

Lemma ln_le_sub1 : forall y, 0 < y -> ln y <= y - 1.
Proof.
  intros y Hy. pose proof (exp_ineq1_le (ln y)) as H. rewrite exp_ln in H by exact Hy. lra.
Qed.

Lemma ln_1m_bounds : forall x, 0 <= x <= 1 / 2 -> - x - 2 * (x * x) <= ln (1 - x) <= - x.
Proof.
  intros x [H0 H1]. assert (0 < 1 - x) as Hp by lra. split.
  - assert (- ln (1 - x) <= x + 2 * (x * x)); [|lra].
    rewrite <- ln_Rinv by exact Hp.
    eapply Rle_trans; [apply ln_le_sub1; apply Rinv_0_lt_compat; exact Hp|].
    assert (/ (1 - x) - 1 = x * / (1 - x)) as -> by (field; lra).
    assert (/ (1 - x) <= 2) as Hi.
    { replace 2 with (/ (1 / 2)) by field. apply Rinv_le_contravar; lra. }
    assert (x * / (1 - x) = x + x * x * / (1 - x)) as -> by (field; lra).
    assert (0 <= x * x) by nra. nra.
  - pose proof (ln_le_sub1 (1 - x) Hp). lra.
Qed.

Lemma prod1m_pos : forall xs, Forall (fun x => 0 <= x <= 1 / 2) xs -> 0 < prod1m xs.
Proof.
  induction 1 as [|x t Hx HF IH]; cbn [prod1m fold_right]; [lra|]. fold (prod1m t).
  apply Rmult_lt_0_compat; [lra|exact IH].
Qed.

Lemma euler_vs_budget : forall xs, Forall (fun x => 0 <= x <= 1 / 2) xs ->
  - 2 * rsum (map (fun x => x * x) xs) <= ln (prod1m xs) + rsum xs <= 0.
Proof.
  induction 1 as [|x t Hx HF IH]; cbn [prod1m rsum map fold_right].
  - rewrite ln_1. lra.
  - fold (prod1m t). fold (rsum t). fold (rsum (map (fun x => x * x) t)).
    rewrite ln_mult; [|lra|apply prod1m_pos; exact HF].
    pose proof (ln_1m_bounds x Hx). lra.
Qed.

(* the rational zero-power factor of the model is this product *)
Fixpoint grid_dzs (grid : list (Q * Q)) : list Q :=
  match grid with
  | [] => []
  | (z0, _) :: t =>
      match t with
      | [] => []
      | (z1, _) :: _ => (z1 - z0)%Q :: grid_dzs t
      end
  end.

Lemma Q2R_1 : Q2R 1 = 1.
Proof. unfold Q2R. cbn. field. Qed.

Lemma step_prod_R : forall a grid,
  Q2R (step_prod a grid) = prod1m (map (fun dz => Q2R a * Q2R dz) (grid_dzs grid)).
Proof.
  intros a grid. induction grid as [|[z0 l0] t IH].
  - cbn. apply Q2R_1.
  - destruct t as [|[z1 l1] t'].
    + cbn. apply Q2R_1.
    + rewrite step_prod_step. change (grid_dzs ((z0, l0) :: (z1, l1) :: t')) with ((z1 - z0)%Q :: grid_dzs ((z1, l1) :: t')).
      cbn [map prod1m fold_right]. fold (prod1m (map (fun dz => Q2R a * Q2R dz) (grid_dzs ((z1, l1) :: t')))).
      rewrite <- IH, Q2R_mult, Q2R_minus, Q2R_mult, Q2R_1. reflexivity.
Qed.

(* ln of the Euler attenuation over the grid vs -alpha * length: off by at most 2 * sum (alpha dz_k)^2 *)
Theorem euler_discretisation_bound : forall a grid,
  Forall (fun dz => 0 <= Q2R a * Q2R dz <= 1 / 2) (grid_dzs grid) ->
  let xs := map (fun dz => Q2R a * Q2R dz) (grid_dzs grid) in
  - 2 * rsum (map (fun x => x * x) xs) <= ln (Q2R (step_prod a grid)) + rsum xs <= 0.
Proof.
  intros a grid HF xs. rewrite step_prod_R. apply euler_vs_budget.
  unfold xs. rewrite Forall_forall in *. intros x Hx. apply in_map_iff in Hx. destruct Hx as [dz [<- Hdz]].
  apply HF; exact Hdz.
Qed.
