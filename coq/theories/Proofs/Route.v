(* C11 — specification predicates and proofs about Model/Route.v *)
From Coq Require Import Lia ZifyBool.
From Verif Require Import Prelude Model.Route.
Open Scope Z_scope.

(* ------------------------------------------------------------------ specification predicates *)
(* p follows existing directed links of g (and is not empty) *)
Fixpoint is_walk (g : graph) (p : list Z) : Prop :=
  match p with
  | [] => False
  | [x] => True
  | x :: ((y :: _) as q) => In y (map fst (succs g x)) /\ is_walk g q
  end.

(* "a is crossed in order by b": a embeds into b order-preservingly; an element of b may serve several
   successive equal entries of a (Python's ispart accepts [x; x]) *)
Inductive visits : list Z -> list Z -> Prop :=
| vis_nil b : visits [] b
| vis_here x a b : visits a (x :: b) -> visits (x :: a) (x :: b)
| vis_skip a y b : visits a b -> visits a (y :: b).

(* a route for (s, t, include list): real links, loop-free, right ends, includes crossed in order *)
Definition Route (g : graph) (s t : Z) (inc p : list Z) : Prop :=
  is_walk g p /\ NoDup p /\ hd_error p = Some s /\ last p t = t /\ visits inc p.

Definition disjointl (p vis : list Z) : Prop := forall x, In x p -> ~ In x vis.

(* ------------------------------------------------------------------ basics *)
Lemma memZ_In x l : memZ x l = true <-> In x l.
Proof.
  induction l as [|y t IH]; cbn [memZ In].
  - split; [discriminate|tauto].
  - destruct (x =? y) eqn:E.
    + split; [intros _; left; lia|reflexivity].
    + rewrite IH. split; [tauto|intros [H|H]; [lia|exact H]].
Qed.

Lemma memZ_false x l : memZ x l = false <-> ~ In x l.
Proof.
  rewrite <- memZ_In. destruct (memZ x l).
  - split; [discriminate|intros H; exfalso; apply H; reflexivity].
  - split; [intros _; discriminate|reflexivity].
Qed.

Lemma last_cons_cons {A} (x y : A) l d : last (x :: y :: l) d = last (y :: l) d.
Proof. reflexivity. Qed.

Lemma last_In {A} (l : list A) d : l <> [] -> In (last l d) l.
Proof.
  induction l as [|x t IH]; [congruence|]. intros _. destruct t as [|y t'].
  - left; reflexivity.
  - right. rewrite last_cons_cons. apply IH. discriminate.
Qed.

Lemma last_indep {A} (l : list A) d d' : l <> [] -> last l d = last l d'.
Proof.
  induction l as [|x t IH]; [congruence|]. intros _. destruct t as [|y t']; [reflexivity|].
  rewrite !last_cons_cons. apply IH. discriminate.
Qed.

Lemma is_walk_nonempty g p : is_walk g p -> p <> [].
Proof. destruct p; cbn; [tauto|discriminate]. Qed.

(* ------------------------------------------------------------------ enumeration: soundness *)
Lemma paths_sound : forall g fuel vis u t p,
  In p (paths g fuel vis u t) ->
  is_walk g p /\ hd_error p = Some u /\ last p t = t /\ NoDup p /\ disjointl (tl p) (u :: vis).
Proof.
  intros g; induction fuel as [|f IH]; intros vis u t p Hin; cbn [paths] in Hin; [contradiction|].
  destruct (u =? t) eqn:Eut.
  - destruct Hin as [<-|[]]. assert (u = t) by lia. subst.
    split; [exact I|]. split; [reflexivity|]. split; [reflexivity|].
    split; [constructor; [intros []|constructor]|intros x []].
  - apply in_flat_map in Hin. destruct Hin as ((v, w) & Hvw & Hin). cbn [fst] in Hin.
    destruct (memZ v (u :: vis)) eqn:Emem; [contradiction|].
    apply in_map_iff in Hin. destruct Hin as (q & <- & Hq).
    apply IH in Hq. destruct Hq as (Hw & Hhd & Hlast & Hnd & Hdis).
    apply memZ_false in Emem.
    destruct q as [|y q']; [discriminate|]. cbn in Hhd. injection Hhd as ->.
    split; [|split; [|split; [|split]]].
    + cbn [is_walk]. split; [|exact Hw]. apply in_map_iff. exists (v, w). split; [reflexivity|exact Hvw].
    + reflexivity.
    + rewrite last_cons_cons. exact Hlast.
    + constructor; [|exact Hnd]. intros [->|Hin].
      * apply Emem. left; reflexivity.
      * apply (Hdis u); [exact Hin|]. right; left; reflexivity.
    + intros x Hx Hx'. cbn [tl] in Hx. destruct Hx as [->|Hx].
      * apply Emem. exact Hx'.
      * apply (Hdis x); [exact Hx|]. right. exact Hx'.
Qed.

(* ------------------------------------------------------------------ enumeration: completeness *)
Lemma paths_complete : forall g fuel p vis u t,
  is_walk g p -> hd_error p = Some u -> last p t = t -> NoDup p -> disjointl p vis ->
  (length p <= fuel)%nat -> In p (paths g fuel vis u t).
Proof.
  intros g; induction fuel as [|f IH]; intros p vis u t Hw Hhd Hlast Hnd Hdis Hlen.
  - destruct p; cbn in *; [contradiction|lia].
  - destruct p as [|x q]; [cbn in Hw; contradiction|].
    cbn in Hhd. injection Hhd as ->. cbn [paths].
    destruct (u =? t) eqn:Eut.
    + assert (u = t) by lia. subst t. destruct q as [|y q'].
      * left; reflexivity.
      * exfalso. rewrite last_cons_cons in Hlast.
        assert (Hin : In u (y :: q')). { rewrite <- Hlast at 1. apply last_In. discriminate. }
        inversion Hnd; contradiction.
    + destruct q as [|y q'].
      * cbn in Hlast. lia.
      * destruct Hw as [Hin Hw']. apply in_map_iff in Hin. destruct Hin as ((y0, w) & Hy & Hin).
        cbn [fst] in Hy. subst y0.
        apply in_flat_map. exists (y, w). split; [exact Hin|]. cbn [fst].
        assert (Hny : ~ In y (u :: vis)).
        { intros [->|Hv]; [inversion Hnd as [|? ? Hnin _]; apply Hnin; left; reflexivity
                          | apply (Hdis y); [right; left; reflexivity|exact Hv]]. }
        apply memZ_false in Hny. rewrite Hny.
        apply in_map. apply IH.
        -- exact Hw'.
        -- reflexivity.
        -- rewrite last_cons_cons in Hlast. exact Hlast.
        -- inversion Hnd; assumption.
        -- intros z Hz [->|Hv].
           ++ inversion Hnd as [|? ? Hnin _]. contradiction.
           ++ apply (Hdis z); [right; exact Hz|exact Hv].
        -- cbn [length] in Hlen |- *. lia.
Qed.

(* every node of a walk with at least two nodes is a node of the graph *)
Lemma succs_in_nodes : forall g u v, In v (map fst (succs g u)) -> In u (nodes g) /\ In v (nodes g).
Proof.
  induction g as [|(x, l) r IH]; intros u v Hin; cbn [succs] in Hin; [contradiction|].
  unfold nodes. cbn [map fst flat_map snd].
  destruct (x =? u) eqn:E.
  - assert (x = u) by lia. subst. split.
    + left; reflexivity.
    + right. apply in_or_app. right. apply in_or_app. left. exact Hin.
  - destruct (IH u v Hin) as [Hu Hv]. unfold nodes in Hu, Hv.
    apply in_app_or in Hu. apply in_app_or in Hv. split.
    + destruct Hu as [Hu|Hu]; [right; apply in_or_app; left; exact Hu|].
      right. apply in_or_app. right. apply in_or_app. right. exact Hu.
    + destruct Hv as [Hv|Hv]; [right; apply in_or_app; left; exact Hv|].
      right. apply in_or_app. right. apply in_or_app. right. exact Hv.
Qed.

Lemma walk_incl_nodes : forall g p, is_walk g p -> (2 <= length p)%nat -> incl p (nodes g).
Proof.
  intros g; induction p as [|x q IH]; intros Hw Hlen; [cbn in Hw; contradiction|].
  destruct q as [|y q']; [cbn in Hlen; lia|].
  destruct Hw as [Hin Hw']. destruct (succs_in_nodes _ _ _ Hin) as [Hx Hy].
  intros z [<-|Hz]; [exact Hx|].
  destruct q' as [|y' q''].
  - destruct Hz as [<-|[]]. exact Hy.
  - apply IH; [exact Hw'|cbn; lia|exact Hz].
Qed.

Lemma simple_walk_short g p : is_walk g p -> NoDup p -> (length p <= S (length (nodes g)))%nat.
Proof.
  intros Hw Hnd. destruct p as [|x [|y q]]; [cbn; lia|cbn; lia|].
  assert (H : (length (x :: y :: q) <= length (nodes g))%nat).
  { apply NoDup_incl_length; [exact Hnd|]. apply walk_incl_nodes; [exact Hw|cbn; lia]. }
  lia.
Qed.

Theorem all_routes_spec g s t p : In p (all_routes g s t) <-> Route g s t [] p.
Proof.
  unfold all_routes, Route. split.
  - intros Hin. apply paths_sound in Hin. destruct Hin as (Hw & Hhd & Hl & Hnd & _).
    repeat split; try assumption. constructor.
  - intros (Hw & Hnd & Hhd & Hl & _). apply paths_complete; try assumption.
    + intros x _ [].
    + apply simple_walk_short; assumption.
Qed.

(* ------------------------------------------------------------------ ispart *)
Lemma idx_from_spec : forall l x k i,
  idx_from l x k = Some i -> (k <= i)%nat /\ nth_error l (i - k) = Some x /\
                             forall j, (j < i - k)%nat -> nth_error l j <> Some x.
Proof.
  induction l as [|y t IH]; intros x k i H; cbn [idx_from] in H; [discriminate|].
  destruct (y =? x) eqn:E.
  - injection H as <-. assert (y = x) by lia. subst. rewrite Nat.sub_diag. repeat split; [lia|].
    intros j Hj; lia.
  - apply IH in H. destruct H as (Hk & Hn & Hmin). split; [lia|].
    replace (i - k)%nat with (S (i - S k)) by lia. split; [exact Hn|].
    intros j Hj. destruct j as [|j']; cbn [nth_error].
    + intros Heq. injection Heq as ->. lia.
    + apply Hmin. lia.
Qed.

Lemma idx_from_none : forall l x k, idx_from l x k = None -> ~ In x l.
Proof.
  induction l as [|y t IH]; intros x k H; cbn [idx_from] in H; [intros []|].
  destruct (y =? x) eqn:E; [discriminate|]. intros [->|Hin]; [lia|]. exact (IH _ _ H Hin).
Qed.

Lemma idx_some l x i : idx l x = Some i -> nth_error l i = Some x.
Proof. unfold idx. intros H. apply idx_from_spec in H. rewrite Nat.sub_0_r in H. tauto. Qed.

Lemma NoDup_nth_unique {A} (l : list A) i j x :
  NoDup l -> nth_error l i = Some x -> nth_error l j = Some x -> i = j.
Proof.
  intros Hnd Hi Hj. rewrite NoDup_nth_error in Hnd. apply Hnd.
  - apply nth_error_Some. congruence.
  - congruence.
Qed.

Lemma idx_of_nth l x i : NoDup l -> nth_error l i = Some x -> idx l x = Some i.
Proof.
  intros Hnd Hn. destruct (idx l x) as [k|] eqn:E.
  - apply idx_some in E. f_equal. exact (NoDup_nth_unique _ _ _ _ Hnd E Hn).
  - exfalso. unfold idx in E. apply idx_from_none in E. apply E. eapply nth_error_In. exact Hn.
Qed.

Lemma visits_app_l a c l : visits a c -> visits a (l ++ c).
Proof. intros H. induction l as [|y l IH]; [exact H|]. cbn. apply vis_skip. exact IH. Qed.

Lemma visits_cons_inv : forall a c, visits a c -> forall e a', a = e :: a' ->
  exists k, nth_error c k = Some e /\ visits a' (skipn k c).
Proof.
  induction 1 as [b|x a b H IH|a y b H IH]; intros e a' Heq.
  - discriminate.
  - injection Heq as -> ->. exists 0%nat. split; [reflexivity|exact H].
  - destruct (IH _ _ Heq) as (k & Hk & Hv). exists (S k). split; [exact Hk|exact Hv].
Qed.

Lemma skipn_nth_cons {A} : forall (l : list A) i x, nth_error l i = Some x -> skipn i l = x :: skipn (S i) l.
Proof.
  induction l as [|y t IH]; intros i x H; destruct i; cbn in *; try discriminate.
  - injection H as ->. reflexivity.
  - apply IH. exact H.
Qed.

Lemma skipn_skipn' {A} : forall b a (l : list A), skipn a (skipn b l) = skipn (b + a) l.
Proof.
  induction b as [|b IH]; intros a l; [reflexivity|].
  destruct l as [|x l]; [rewrite !skipn_nil; reflexivity|]. cbn [skipn Nat.add]. apply IH.
Qed.

Lemma nth_error_skipn' {A} : forall j (l : list A) k, nth_error (skipn j l) k = nth_error l (j + k).
Proof.
  induction j as [|j IH]; intros l k; [reflexivity|].
  destruct l as [|x l]; [rewrite skipn_nil; destruct k; reflexivity|]. cbn [skipn Nat.add nth_error]. apply IH.
Qed.

Lemma skipn_split {A} (l : list A) j i : (j <= i)%nat -> exists pre, skipn j l = pre ++ skipn i l.
Proof.
  intros H. exists (firstn (i - j) (skipn j l)).
  replace (skipn i l) with (skipn (i - j) (skipn j l)) by (rewrite skipn_skipn'; f_equal; lia).
  symmetry. apply firstn_skipn.
Qed.

Lemma ispart_from_spec : forall a b j, NoDup b ->
  (ispart_from j a b = true <-> visits a (skipn j b)).
Proof.
  induction a as [|e a' IH]; intros b j Hnd; cbn [ispart_from].
  - split; [constructor|reflexivity].
  - destruct (idx b e) as [i|] eqn:Ei.
    + destruct (j <=? i)%nat eqn:Eji.
      * apply Nat.leb_le in Eji. rewrite IH by exact Hnd. apply idx_some in Ei. split.
        -- intros Hv. destruct (skipn_split b j i Eji) as (pre & ->). apply visits_app_l.
           rewrite (skipn_nth_cons _ _ _ Ei) in Hv |- *. apply vis_here. exact Hv.
        -- intros Hv. destruct (visits_cons_inv _ _ Hv _ _ eq_refl) as (k & Hk & Hv').
           rewrite nth_error_skipn' in Hk. rewrite skipn_skipn' in Hv'.
           assert (i = (j + k)%nat) by exact (NoDup_nth_unique _ _ _ _ Hnd Ei Hk).
           subst i. exact Hv'.
      * apply Nat.leb_gt in Eji. split; [discriminate|]. intros Hv. exfalso.
        destruct (visits_cons_inv _ _ Hv _ _ eq_refl) as (k & Hk & _).
        rewrite nth_error_skipn' in Hk. apply idx_some in Ei.
        assert (i = (j + k)%nat) by exact (NoDup_nth_unique _ _ _ _ Hnd Ei Hk). lia.
    + split; [discriminate|]. intros Hv. exfalso.
      destruct (visits_cons_inv _ _ Hv _ _ eq_refl) as (k & Hk & _).
      rewrite nth_error_skipn' in Hk. unfold idx in Ei. apply idx_from_none in Ei. apply Ei.
      eapply nth_error_In. exact Hk.
Qed.

Theorem ispart_spec a b : NoDup b -> (ispart a b = true <-> visits a b).
Proof. intros Hnd. unfold ispart. rewrite ispart_from_spec by exact Hnd. reflexivity. Qed.

(* what "visits" means, element-wise: every include is on the path, and two distinct successive includes
   appear in that order *)
Lemma visits_In a b : visits a b -> incl a b.
Proof.
  induction 1 as [b|x a b H IH|a y b H IH]; intros z Hz.
  - destruct Hz.
  - destruct Hz as [<-|Hz]; [left; reflexivity|apply IH; exact Hz].
  - right. apply IH. exact Hz.
Qed.

Lemma visits_tail x a b : visits (x :: a) b -> visits a b.
Proof.
  intros H. remember (x :: a) as xa eqn:E. revert x a E.
  induction H as [b|x0 a0 b H IH|a0 y b H IH]; intros x a E.
  - discriminate.
  - injection E as -> ->. exact H.
  - apply vis_skip. eapply IH. exact E.
Qed.

Lemma visits_order x y a b : visits (x :: y :: a) b -> x <> y ->
  exists l1 l2 l3, b = l1 ++ x :: l2 ++ y :: l3.
Proof.
  intros H Hxy. remember (x :: y :: a) as xa eqn:E. revert E.
  induction H as [b|x0 a0 b H IH|a0 y0 b H IH]; intros E.
  - discriminate.
  - injection E as -> ->. clear IH.
    (* y :: a is visited by x :: b, and y <> x: so by b *)
    assert (Hy : In y b).
    { apply visits_In in H. specialize (H y (or_introl eq_refl)). destruct H as [H|H]; [congruence|exact H]. }
    apply in_split in Hy. destruct Hy as (l2 & l3 & ->). exists [], l2, l3. reflexivity.
  - destruct (IH E) as (l1 & l2 & l3 & ->). exists (y0 :: l1), l2, l3. reflexivity.
Qed.

(* ------------------------------------------------------------------ validator reflection *)
Lemma walkb_spec g p : walkb g p = true <-> is_walk g p.
Proof.
  induction p as [|x q IH]; cbn [walkb is_walk]; [split; [discriminate|tauto]|].
  destruct q as [|y q']; [split; auto|].
  destruct (memZ y (map fst (succs g x))) eqn:E.
  - apply memZ_In in E. rewrite IH. tauto.
  - apply memZ_false in E. split; [discriminate|tauto].
Qed.

Lemma nodupb_spec p : nodupb p = true <-> NoDup p.
Proof.
  induction p as [|x t IH]; cbn [nodupb]; [split; [constructor|reflexivity]|].
  destruct (memZ x t) eqn:E.
  - apply memZ_In in E. split; [discriminate|]. intros H; inversion H; contradiction.
  - apply memZ_false in E. rewrite IH. split; [intros H; constructor; assumption|intros H; inversion H; assumption].
Qed.

Lemma headb_spec p s : headb p s = true <-> hd_error p = Some s.
Proof.
  destruct p as [|x t]; cbn; [split; discriminate|]. split; [intros H; f_equal; lia|intros H; injection H; lia].
Qed.

Theorem route_ok_spec g s t inc p : route_ok g s t inc p = true <-> Route g s t inc p.
Proof.
  unfold route_ok, Route, lastb. rewrite !andb_true_iff, walkb_spec, nodupb_spec, headb_spec. split.
  - intros ((((Hw & Hnd) & Hh) & Hl) & Hi). repeat split; try assumption; [lia|].
    apply ispart_spec; assumption.
  - intros (Hw & Hnd & Hh & Hl & Hv). repeat split; try assumption; [lia|].
    apply ispart_spec; assumption.
Qed.

(* ------------------------------------------------------------------ optimum over the enumeration *)
Lemma best_from_spec g : forall ps cur,
  let b := best_from g cur ps in
  (b = cur \/ In b ps) /\ weight g b <= weight g cur /\ forall q, In q ps -> weight g b <= weight g q.
Proof.
  induction ps as [|p t IH]; intros cur; cbn [best_from].
  - cbn. repeat split; [left; reflexivity|lia|intros q []].
  - destruct (weight g p <? weight g cur) eqn:E.
    + destruct (IH p) as (Hin & Hle & Hall). cbn zeta. repeat split.
      * right. destruct Hin as [->|Hin]; [left; reflexivity|right; exact Hin].
      * lia.
      * intros q [<-|Hq]; [exact Hle|apply Hall; exact Hq].
    + destruct (IH cur) as (Hin & Hle & Hall). cbn zeta. repeat split.
      * destruct Hin as [->|Hin]; [left; reflexivity|right; right; exact Hin].
      * exact Hle.
      * intros q [<-|Hq]; [lia|apply Hall; exact Hq].
Qed.

Lemma best_some g ps p : best g ps = Some p -> In p ps /\ forall q, In q ps -> weight g p <= weight g q.
Proof.
  destruct ps as [|p0 t]; cbn [best]; [discriminate|]. intros H. injection H as <-.
  destruct (best_from_spec g t p0) as (Hin & Hle & Hall). cbn zeta in *. split.
  - destruct Hin as [->|Hin]; [left; reflexivity|right; exact Hin].
  - intros q [<-|Hq]; [exact Hle|apply Hall; exact Hq].
Qed.

Lemma best_none g ps : best g ps = None <-> ps = [].
Proof. destruct ps; cbn; split; congruence. Qed.

Lemma routes_filter g s t inc p :
  In p (filter (ispart inc) (all_routes g s t)) <-> Route g s t inc p.
Proof.
  rewrite filter_In, all_routes_spec. unfold Route. split.
  - intros ((Hw & Hnd & Hh & Hl & _) & Hi). repeat split; try assumption. apply ispart_spec; assumption.
  - intros (Hw & Hnd & Hh & Hl & Hv). split; [repeat split; try assumption; constructor|].
    apply ispart_spec; assumption.
Qed.

(* optimal among ALL routes meeting the include list `eff` *)
Definition optimal (g : graph) (s t : Z) (eff p : list Z) : Prop :=
  Route g s t eff p /\ forall q, Route g s t eff q -> weight g p <= weight g q.

Theorem model_route_spec g s t inc strict :
  let r := model_route g s t inc strict in
  (* a returned path is optimal for the effective constraints: the include list when it can be met,
     nothing when it cannot and no hop is STRICT *)
  (forall p, r = RPath p ->
     ((exists q, Route g s t inc q) /\ optimal g s t inc p) \/
     ((~ exists q, Route g s t inc q) /\ strict = false /\ optimal g s t [] p)) /\
  (* no path at all *)
  (r = RBlock "NO_PATH" <-> ~ exists q, Route g s t [] q) /\
  (* routes exist, none meets the list, a STRICT hop is present *)
  (r = RBlock "NO_PATH_WITH_CONSTRAINT" <->
     (exists q, Route g s t [] q) /\ (~ exists q, Route g s t inc q) /\ strict = true) /\
  (* nothing else is ever returned *)
  ((exists p, r = RPath p) \/ r = RBlock "NO_PATH" \/ r = RBlock "NO_PATH_WITH_CONSTRAINT").
Proof.
  cbn zeta. unfold model_route.
  destruct (best g (all_routes g s t)) as [pu|] eqn:Eall.
  - apply best_some in Eall. destruct Eall as (Hpu & Hpumin).
    assert (Hex : exists q, Route g s t [] q) by (exists pu; apply all_routes_spec; exact Hpu).
    destruct (best g (filter (ispart inc) (all_routes g s t))) as [p|] eqn:Einc.
    + apply best_some in Einc. destruct Einc as (Hp & Hpmin).
      assert (Hexi : exists q, Route g s t inc q) by (exists p; apply routes_filter; exact Hp).
      split; [|split; [|split]].
      * intros p' Heq. injection Heq as <-. left. split; [exact Hexi|]. split.
        -- apply routes_filter; exact Hp.
        -- intros q Hq. apply Hpmin. apply routes_filter. exact Hq.
      * split; [discriminate|]. intros Hn. exfalso. exact (Hn Hex).
      * split; [discriminate|]. intros (_ & Hn & _). exfalso. exact (Hn Hexi).
      * left. exists p. reflexivity.
    + apply best_none in Einc.
      assert (Hnone : ~ exists q, Route g s t inc q).
      { intros (q & Hq). apply routes_filter in Hq. rewrite Einc in Hq. destruct Hq. }
      destruct strict.
      * split; [|split; [|split]].
        -- intros p' Heq. discriminate.
        -- split; [discriminate|]. intros Hn. exfalso. exact (Hn Hex).
        -- split; [intros _; split; [exact Hex|split; [exact Hnone|reflexivity]]|reflexivity].
        -- right; right; reflexivity.
      * split; [|split; [|split]].
        -- intros p' Heq. injection Heq as <-. right. split; [exact Hnone|]. split; [reflexivity|]. split.
           ++ apply all_routes_spec; exact Hpu.
           ++ intros q Hq. apply Hpumin. apply all_routes_spec. exact Hq.
        -- split; [discriminate|]. intros Hn. exfalso. exact (Hn Hex).
        -- split; [discriminate|]. intros (_ & _ & H). discriminate.
        -- left. exists pu. reflexivity.
  - apply best_none in Eall.
    assert (Hnone : ~ exists q, Route g s t [] q).
    { intros (q & Hq). apply all_routes_spec in Hq. rewrite Eall in Hq. destruct Hq. }
    split; [|split; [|split]].
    + intros p' Heq. discriminate.
    + split; [intros _; exact Hnone|reflexivity].
    + split; [discriminate|]. intros (H & _). exfalso. exact (Hnone H).
    + right; left; reflexivity.
Qed.

(* the LOOSE clause on its own: only LOOSE hops, list cannot be met, a route exists  =>  unconstrained optimum *)
Corollary loose_fallback g s t inc :
  (exists q, Route g s t [] q) -> (~ exists q, Route g s t inc q) ->
  exists p, model_route g s t inc false = RPath p /\ optimal g s t [] p.
Proof.
  intros Hex Hno. destruct (model_route_spec g s t inc false) as (Hp & Hnp & Hnc & Hcases). cbn zeta in *.
  destruct Hcases as [(p & Hr)|[Hr|Hr]].
  - exists p. split; [exact Hr|]. destruct (Hp p Hr) as [(H & _)|(_ & _ & H)]; [contradiction|exact H].
  - apply Hnp in Hr. contradiction.
  - apply Hnc in Hr. destruct Hr as (_ & _ & H). discriminate.
Qed.

(* ------------------------------------------------------------------ dual-potential certificate *)
Lemma succs_key : forall g u vw, In vw (succs g u) -> exists r, In r g /\ fst r = u.
Proof.
  induction g as [|(x, l) r IH]; intros u vw Hin; cbn [succs] in Hin; [contradiction|].
  destruct (x =? u) eqn:E.
  - exists (x, l). split; [left; reflexivity|cbn; lia].
  - destruct (IH _ _ Hin) as (r0 & Hr0 & Hf). exists r0. split; [right; exact Hr0|exact Hf].
Qed.

Lemma assocZ_In : forall l v w, assocZ l v = Some w -> In (v, w) l.
Proof.
  induction l as [|(x, w0) t IH]; intros v w H; cbn [assocZ] in H; [discriminate|].
  destruct (x =? v) eqn:E.
  - injection H as <-. left. f_equal. lia.
  - right. apply IH. exact H.
Qed.

Lemma assocZ_some : forall l v, In v (map fst l) -> exists w, assocZ l v = Some w.
Proof.
  induction l as [|(x, w0) t IH]; intros v H; cbn [assocZ map fst] in *; [contradiction|].
  destruct (x =? v) eqn:E; [eexists; reflexivity|].
  destruct H as [H|H]; [lia|]. apply IH. exact H.
Qed.

Lemma feasible_edge g pi u v w :
  feasible g pi = true -> In (v, w) (succs g u) -> pot pi v <= pot pi u + w.
Proof.
  intros Hf Hin. unfold feasible in Hf. rewrite forallb_forall in Hf.
  destruct (succs_key _ _ _ Hin) as (r & Hr & <-). specialize (Hf r Hr).
  rewrite forallb_forall in Hf. specialize (Hf (v, w) Hin). cbn [fst snd] in Hf. lia.
Qed.

Lemma weight_cons2 g u v q :
  weight g (u :: v :: q) = match ew g u v with Some w => w | None => 0 end + weight g (v :: q).
Proof. reflexivity. Qed.

Lemma potential_walk g pi : feasible g pi = true -> forall q, is_walk g q ->
  pot pi (last q 0) - pot pi (hd 0 q) <= weight g q.
Proof.
  intros Hf. induction q as [|x q' IH]; intros Hw; [cbn in Hw; contradiction|].
  destruct q' as [|y q'']; [cbn; lia|].
  destruct Hw as [Hin Hw']. specialize (IH Hw'). rewrite last_cons_cons. cbn [hd] in IH |- *.
  rewrite weight_cons2. destruct (assocZ_some _ _ Hin) as (w & Hw0). unfold ew. rewrite Hw0.
  apply assocZ_In in Hw0. pose proof (feasible_edge _ _ _ _ _ Hf Hw0) as He. lia.
Qed.

Theorem potential_cert g pi s t p :
  potential_ok g pi s t p = true ->
  forall q, is_walk g q -> hd_error q = Some s -> last q t = t -> weight g p <= weight g q.
Proof.
  unfold potential_ok. rewrite andb_true_iff. intros (Hf & Heq) q Hw Hh Hl.
  pose proof (potential_walk g pi Hf q Hw) as H.
  destruct q as [|x q']; [cbn in Hw; contradiction|]. cbn in Hh. injection Hh as ->. cbn [hd] in H.
  rewrite (last_indep (s :: q') 0 t) in H by discriminate. rewrite Hl in H. lia.
Qed.

(* ------------------------------------------------------------------ unique_ordered *)
Lemma uo_app : forall a seen b, uo seen (a ++ b) = uo seen a ++ uo (rev (uo seen a) ++ seen) b.
Proof.
  induction a as [|x t IH]; intros seen b; [reflexivity|].
  cbn [app uo]. destruct (memZ x seen) eqn:E.
  - apply IH.
  - cbn [app rev]. rewrite IH. rewrite <- app_assoc. reflexivity.
Qed.

Lemma uo_fresh : forall l seen, NoDup (uo seen l) /\ forall x, In x (uo seen l) -> ~ In x seen.
Proof.
  induction l as [|x t IH]; intros seen; cbn [uo]; [split; [constructor|intros x []]|].
  destruct (memZ x seen) eqn:E; [apply IH|].
  apply memZ_false in E. destruct (IH (x :: seen)) as (Hnd & Hfr). split.
  - constructor; [|exact Hnd]. intros Hin. apply (Hfr x Hin). left; reflexivity.
  - intros y [<-|Hy]; [exact E|]. intros Hs. apply (Hfr y Hy). right; exact Hs.
Qed.

Lemma uo_id : forall l seen, NoDup l -> (forall x, In x l -> ~ In x seen) -> uo seen l = l.
Proof.
  induction l as [|x t IH]; intros seen Hnd Hfr; [reflexivity|]. cbn [uo].
  assert (E : memZ x seen = false) by (apply memZ_false; apply Hfr; left; reflexivity).
  rewrite E. f_equal. apply IH.
  - inversion Hnd; assumption.
  - intros y Hy [<-|Hs]; [inversion Hnd; contradiction|]. apply (Hfr y); [right; exact Hy|exact Hs].
Qed.

Lemma memZ_ext x l l' : (In x l <-> In x l') -> memZ x l = memZ x l'.
Proof.
  intros H. destruct (memZ x l) eqn:E, (memZ x l') eqn:E'; try reflexivity.
  - apply memZ_In in E. apply memZ_false in E'. tauto.
  - apply memZ_In in E'. apply memZ_false in E. tauto.
Qed.

Lemma uo_seen_ext : forall l seen seen', (forall x, In x seen <-> In x seen') -> uo seen l = uo seen' l.
Proof.
  induction l as [|x t IH]; intros seen seen' H; [reflexivity|]. cbn [uo].
  rewrite (memZ_ext x seen seen' (H x)). destruct (memZ x seen'); [apply IH; exact H|].
  f_equal. apply IH. intros y. cbn [In]. rewrite H. tauto.
Qed.

(* applying unique_ordered after every extension = applying it once at the end *)
Lemma uo_uo_app a b : unique_ordered (unique_ordered a ++ b) = unique_ordered (a ++ b).
Proof.
  unfold unique_ordered. rewrite !uo_app. destruct (uo_fresh a []) as (Hnd & Hfr).
  rewrite (uo_id (uo [] a) []) by assumption. reflexivity.
Qed.

Lemma filter_uo (f : Z -> bool) : forall l seen, filter f (uo seen l) = uo (filter f seen) (filter f l).
Proof.
  induction l as [|x t IH]; intros seen; [reflexivity|]. cbn [uo filter].
  destruct (f x) eqn:Ef.
  - cbn [uo]. assert (Em : memZ x (filter f seen) = memZ x seen).
    { apply memZ_ext. rewrite filter_In. tauto. }
    rewrite Em. destruct (memZ x seen); [apply IH|]. cbn [filter]. rewrite Ef. f_equal.
    rewrite IH. cbn [filter]. rewrite Ef. reflexivity.
  - destruct (memZ x seen); [apply IH|]. cbn [filter]. rewrite Ef. rewrite IH. cbn [filter]. rewrite Ef.
    reflexivity.
Qed.

(* ------------------------------------------------------------------ find_reversed_path *)
Lemma zlist_eqb_eq : forall a b, zlist_eqb a b = true -> a = b.
Proof.
  induction a as [|x a IH]; intros [|y b] H; cbn [zlist_eqb] in H; try discriminate; [reflexivity|].
  apply andb_true_iff in H. destruct H as (Hxy & H). f_equal; [lia|apply IH; exact H].
Qed.

Lemma zll_eqb_eq : forall a b, zll_eqb a b = true -> a = b.
Proof.
  induction a as [|x a IH]; intros [|y b] H; cbn [zll_eqb] in H; try discriminate; [reflexivity|].
  apply andb_true_iff in H. destruct H as (Hxy & H). f_equal; [apply zlist_eqb_eq; exact Hxy|apply IH; exact H].
Qed.

Lemma all_some_spec : forall l os, all_some l = Some os -> l = map Some os.
Proof.
  induction l as [|[x|] t IH]; intros os H; cbn [all_some] in H.
  - injection H as <-. reflexivity.
  - destruct (all_some t) as [r|] eqn:E; [|discriminate]. injection H as <-. cbn [map]. f_equal. apply IH. reflexivity.
  - discriminate.
Qed.

Lemma rev_extend_all n : forall os acc0,
  rev_extend n (map Some os) (unique_ordered acc0) =
  Ok (unique_ordered (acc0 ++ concat (map (oms_els n) os))).
Proof.
  induction os as [|o r IH]; intros acc0; cbn [map rev_extend concat].
  - rewrite app_nil_r. reflexivity.
  - rewrite uo_uo_app. rewrite IH. rewrite <- app_assoc. reflexivity.
Qed.

Lemma uo_pairs_from : forall l a seen, In a seen -> NoDup l -> (forall x, In x l -> ~ In x seen) ->
  uo seen (concat (pairs (a :: l))) = l.
Proof.
  induction l as [|b t IH]; intros a seen Ha Hnd Hfr; [reflexivity|].
  change (concat (pairs (a :: b :: t))) with (a :: b :: concat (pairs (b :: t))).
  cbn [uo]. assert (Ea : memZ a seen = true) by (apply memZ_In; exact Ha). rewrite Ea.
  assert (Eb : memZ b seen = false) by (apply memZ_false; apply Hfr; left; reflexivity). rewrite Eb.
  f_equal. apply IH.
  - left; reflexivity.
  - inversion Hnd; assumption.
  - intros y Hy [<-|Hs]; [inversion Hnd; contradiction|]. apply (Hfr y); [right; exact Hy|exact Hs].
Qed.

Lemma uo_pairs l : NoDup l -> (2 <= length l)%nat -> unique_ordered (concat (pairs l)) = l.
Proof.
  intros Hnd Hlen. destruct l as [|a [|b t]]; cbn [length] in Hlen; try lia.
  change (concat (pairs (a :: b :: t))) with (a :: b :: concat (pairs (b :: t))).
  unfold unique_ordered. cbn [uo memZ].
  assert (Hab : a <> b) by (intros ->; inversion Hnd as [|? ? Hn _]; apply Hn; left; reflexivity).
  assert (E : (b =? a) = false) by lia. rewrite E. do 2 f_equal.
  inversion Hnd as [|? ? Hna Hnd']. apply uo_pairs_from.
  - left; reflexivity.
  - inversion Hnd'; assumption.
  - intros y Hy [<-|[<-|[]]].
    + inversion Hnd'; contradiction.
    + apply Hna. right; exact Hy.
Qed.

Lemma concat_map_filter {A B} (f : B -> bool) (h : A -> list B) : forall l,
  filter f (concat (map h l)) = concat (map (fun o => filter f (h o)) l).
Proof.
  induction l as [|x t IH]; [reflexivity|]. cbn [map concat]. rewrite filter_app, IH. reflexivity.
Qed.

(* the reverse path of a bidirectional request visits the same sites in reverse *)
Theorem reversed_sites n pth :
  rev_wf n pth = true ->
  exists rp, find_reversed_path n pth = Ok rp /\ roadms n rp = rev (roadms n pth).
Proof.
  unfold rev_wf, find_reversed_path. destruct pth as [|first rest]; [discriminate|].
  set (pth := first :: rest).
  rewrite !andb_true_iff. intros ((((Hf & Hl) & Hnd) & Hlen) & Hos).
  destruct (all_some (ouo [] (rev (line_rev_oms n pth)))) as [os|] eqn:Eos; [|discriminate].
  apply all_some_spec in Eos. apply zll_eqb_eq in Hos. rewrite Eos.
  change [last pth first] with (unique_ordered [last pth first]).
  rewrite rev_extend_all. cbn [bind]. eexists. split; [reflexivity|].
  unfold roadms at 1. rewrite filter_app. unfold unique_ordered. rewrite filter_uo.
  cbn [app filter]. apply negb_true_iff in Hf, Hl. rewrite Hf, Hl. rewrite app_nil_r.
  rewrite concat_map_filter. fold (roadms n). unfold roadms in Hos at 1. unfold roadms at 1.
  rewrite Hos. apply nodupb_spec in Hnd.
  apply uo_pairs.
  - apply NoDup_rev. exact Hnd.
  - rewrite rev_length. unfold roadms in *. apply Z.leb_le in Hlen. lia.
Qed.

(* ------------------------------------------------------------------ explicit_path and compute_constrained_path *)
Lemma chain_prefix n : forall rest o0 acc p, chain n o0 rest acc = Some p -> exists tail, p = acc ++ tail.
Proof.
  induction rest as [|o r IH]; intros o0 acc p H; cbn [chain] in H.
  - injection H as <-. exists []. rewrite app_nil_r. reflexivity.
  - destruct (oms_els n o0) as [|a0 e0]; [discriminate|]. destruct (oms_els n o) as [|h e1]; [discriminate|].
    destruct (last (a0 :: e0) 0 =? h); [|discriminate].
    destruct (IH _ _ _ H) as (tail & ->). exists ((h :: e1) ++ tail). rewrite app_assoc. reflexivity.
Qed.

Lemma explicit_raw_shape n inc s t p :
  explicit_path_raw n inc s t = Some p -> NoDup p /\ hd_error p = Some s.
Proof.
  unfold explicit_path_raw. intros H.
  destruct (unique_ordered _) as [|o0 rest]; [discriminate|].
  destruct (succs (ngraph n) s) as [|[nx w] l]; [discriminate|].
  destruct (first_pred (ngraph n) t) as [pv|]; [|discriminate].
  destruct (oms_els n o0) as [|h e] eqn:E0; [discriminate|].
  destruct (oms_els n (last (o0 :: rest) o0)) as [|h' e']; [discriminate|].
  destruct ((h =? _) && _); [|discriminate].
  destruct (chain n o0 rest (s :: h :: e)) as [q|] eqn:Ec; [|discriminate]. injection H as <-.
  destruct (chain_prefix _ _ _ _ _ Ec) as (tail & ->). split.
  - apply uo_fresh.
  - unfold unique_ordered. cbn [app uo memZ]. reflexivity.
Qed.

(* what an explicit answer guarantees: it is a route of the request (real links, loop-free, from source to
   destination, the WHOLE include list crossed in order) *)
Theorem explicit_path_route n inc s t p :
  explicit_path n inc s t = Some p -> Route (ngraph n) s t inc p.
Proof.
  unfold explicit_path, explicit_check. destruct (explicit_path_raw n inc s t) as [q|] eqn:Er; [|discriminate].
  destruct (lastb q t && walkb (ngraph n) q && ispart inc q) eqn:Ec; [|discriminate]. intros H. injection H as <-.
  rewrite !andb_true_iff in Ec. destruct Ec as ((Hl & Hw) & Hi).
  destruct (explicit_raw_shape _ _ _ _ _ Er) as (Hnd & Hh).
  unfold Route. unfold lastb in Hl. repeat split.
  - apply walkb_spec. exact Hw.
  - exact Hnd.
  - exact Hh.
  - lia.
  - apply ispart_spec; assumption.
Qed.

(* compute_constrained_path, without guard: the answer is either an explicit route of the request or the reference
   search (whose result is characterised by model_route_spec) *)
Theorem model_ccp_spec n s t nodes_list strict_list :
  last nodes_list (t + 1) = t ->
  exists r, model_ccp n s t nodes_list strict_list = Ok r /\
    match r with
    | CExplicit p => Route (ngraph n) s t (removelast nodes_list) p
    | CSearch o => explicit_path n (removelast nodes_list) s t = None /\
                   o = model_route (ngraph n) s t (removelast nodes_list)
                                   (existsb (fun b => b) (removelast strict_list))
    end.
Proof.
  intros Hl. unfold model_ccp. rewrite Hl, Z.eqb_refl. cbn [negb].
  destruct (explicit_path n (removelast nodes_list) s t) as [p|] eqn:E.
  - exists (CExplicit p). split; [reflexivity|]. apply explicit_path_route. exact E.
  - eexists. split; [reflexivity|]. split; reflexivity.
Qed.

(* hence: whatever path compute_constrained_path returns is a route for the effective constraints, and a block is
   only ever NO_PATH / NO_PATH_WITH_CONSTRAINT under the conditions of model_route_spec *)
Corollary model_ccp_path_is_route n s t nodes_list strict_list r p :
  last nodes_list (t + 1) = t ->
  model_ccp n s t nodes_list strict_list = Ok r ->
  (r = CExplicit p \/ r = CSearch (RPath p)) ->
  Route (ngraph n) s t (removelast nodes_list) p \/ Route (ngraph n) s t [] p.
Proof.
  intros Hl Hr Hp. destruct (model_ccp_spec n s t nodes_list strict_list Hl) as (r' & Hr' & Hm).
  rewrite Hr in Hr'. injection Hr' as <-. destruct Hp as [-> | ->].
  - left. exact Hm.
  - destruct Hm as (_ & Hm).
    destruct (model_route_spec (ngraph n) s t (removelast nodes_list) (existsb (fun b => b) (removelast strict_list)))
      as (Hpath & _). cbn zeta in Hpath. symmetry in Hm.
    destruct (Hpath p Hm) as [(_ & (H & _))|(_ & _ & (H & _))]; [left|right]; exact H.
Qed.

(* three ROADM sites A B C with lines A-B and A-C (used by the examples):
     0 trx A, 1 roadm A, 2 trx B, 3 roadm B, 4 trx C, 5 roadm C, 6 = A->B, 7 = B->A, 8 = A->C, 9 = C->A *)
Definition f11_net : net :=
  mkNet [(0, [(1, 1)]); (1, [(0, 1); (6, 1); (8, 1)]); (2, [(3, 1)]); (3, [(2, 1); (7, 1)]);
         (4, [(5, 1)]); (5, [(4, 1); (9, 1)]); (6, [(3, 100)]); (7, [(1, 100)]); (8, [(5, 100)]); (9, [(1, 100)])]
        [KT; KR; KT; KR; KT; KR; KL; KL; KL; KL]
        [([1; 6; 3], Some 1); ([3; 7; 1], Some 0); ([1; 8; 5], Some 3); ([5; 9; 1], Some 2)].

(* ------------------------------------------------------------------ route-list clean-up *)
Definition usable (n : net) (x : Z) : bool := is_roadm n x || is_line n x.

Lemma remove_at_count : forall k (l : list Z) x, nth_error l k = Some x ->
  forall y, count_occ Z.eq_dec (remove_at k l) y =
            if Z.eq_dec x y then (count_occ Z.eq_dec l y - 1)%nat else count_occ Z.eq_dec l y.
Proof.
  induction k as [|k IH]; intros [|z t] x Hn y; cbn in Hn; try discriminate.
  - injection Hn as ->. cbn [remove_at count_occ]. destruct (Z.eq_dec x y); lia.
  - cbn [remove_at count_occ]. rewrite (IH t x Hn y). destruct (Z.eq_dec z y), (Z.eq_dec x y); try lia.
    subst. assert (H : (count_occ Z.eq_dec t y > 0)%nat).
    { apply count_occ_In. eapply nth_error_In. exact Hn. } lia.
Qed.

Lemma remove_at_incl' {A} : forall k (l : list A), incl (remove_at k l) l.
Proof.
  induction k as [|k IH]; intros l; destruct l as [|x t]; cbn [remove_at].
  - intros z Hz. exact Hz.
  - intros z Hz. right; exact Hz.
  - intros z Hz. exact Hz.
  - intros z [<-|Hz]; [left; reflexivity|right; apply IH; exact Hz].
Qed.

Lemma clean_loop_spec n : forall temp cur_n cur_s out_n out_s,
  clean_loop n temp cur_n cur_s = Ok (out_n, out_s) ->
  (forall y, usable n y = false -> count_occ Z.eq_dec cur_n y = count_occ Z.eq_dec (map fst temp) y) ->
  (forall y, In y out_n -> usable n y = true) /\ incl out_n cur_n.
Proof.
  induction temp as [|(x, st) r IH]; intros cur_n cur_s out_n out_s H Hinv; cbn [clean_loop] in H.
  - injection H as <- <-. split; [|apply incl_refl]. intros y Hy.
    destruct (usable n y) eqn:E; [reflexivity|]. exfalso. specialize (Hinv y E). cbn in Hinv.
    apply (count_occ_In Z.eq_dec) in Hy. lia.
  - assert (Hgood : usable n x = true -> clean_loop n r cur_n cur_s = Ok (out_n, out_s) ->
                    (forall y, In y out_n -> usable n y = true) /\ incl out_n cur_n).
    { intros Hu H'. apply (IH _ _ _ _ H'). intros y Hy. rewrite (Hinv y Hy). cbn [map fst count_occ].
      destruct (Z.eq_dec x y) as [->|]; [congruence|reflexivity]. }
    assert (Hbad : usable n x = false ->
                   (if st then Err "ServiceError:strict constraint can not be applied"
                    else match idx cur_n x with
                         | Some k => clean_loop n r (remove_at k cur_n) (remove_at k cur_s)
                         | None => Err "ValueError:list.index" end) = Ok (out_n, out_s) ->
                   (forall y, In y out_n -> usable n y = true) /\ incl out_n cur_n).
    { intros Hu H'. destruct st; [discriminate|]. destruct (idx cur_n x) as [k|] eqn:Ek; [|discriminate].
      apply idx_some in Ek. destruct (IH _ _ _ _ H') as (Hv & Hi).
      - intros y Hy. rewrite (remove_at_count _ _ _ Ek y). specialize (Hinv y Hy). cbn [map fst count_occ] in Hinv.
        destruct (Z.eq_dec x y); lia.
      - split; [exact Hv|]. intros z Hz. eapply remove_at_incl'. apply Hi. exact Hz. }
    destruct (kind_of n x) as [[| |]|] eqn:Ek.
    + apply Hbad; [|exact H]. unfold usable, is_roadm, is_line. rewrite Ek. reflexivity.
    + apply Hgood; [|exact H]. unfold usable, is_roadm. rewrite Ek. reflexivity.
    + apply Hgood; [|exact H]. unfold usable, is_roadm, is_line. rewrite Ek. reflexivity.
    + apply Hbad; [|exact H]. unfold usable, is_roadm, is_line. rewrite Ek. reflexivity.
Qed.

Lemma map_fst_combine : forall (a : list Z) (b : list bool), (length a <= length b)%nat -> map fst (combine a b) = a.
Proof.
  induction a as [|x a IH]; intros [|y b] H; cbn in *; try reflexivity; try lia. f_equal. apply IH. lia.
Qed.

Lemma removelast_length {A} (l : list A) : length (removelast l) = (length l - 1)%nat.
Proof.
  induction l as [|x t IH]; [reflexivity|]. destruct t as [|y t']; [reflexivity|].
  change (removelast (x :: y :: t')) with (x :: removelast (y :: t')). cbn [length] in *. rewrite IH. lia.
Qed.

Lemma removelast_incl {A} (l : list A) : incl (removelast l) l.
Proof.
  induction l as [|x t IH]; [apply incl_refl|]. destruct t as [|y t']; [intros z []|].
  change (removelast (x :: y :: t')) with (x :: removelast (y :: t')).
  intros z [<-|Hz]; [left; reflexivity|right; apply IH; exact Hz].
Qed.

(* the cleaned list only names ROADMs and line elements of the topology, all taken from the user's list;
   unknown names and transceivers are gone (a STRICT one raises instead) *)
Theorem clean_route_valid n s t nodes_list strict_list out_n out_s :
  length nodes_list = length strict_list ->
  clean_route n s t nodes_list strict_list = Ok (out_n, out_s) ->
  (forall y, In y out_n -> is_roadm n y = true \/ is_line n y = true) /\ incl out_n nodes_list.
Proof.
  intros Hlen H. unfold clean_route in H.
  destruct (negb (is_trx n s)); [discriminate|]. destruct (negb (is_trx n t)); [discriminate|].
  set (c1 := match nodes_list with
             | x :: r => if x =? s then (r, tl strict_list) else (nodes_list, strict_list)
             | [] => (nodes_list, strict_list) end) in H.
  assert (H1 : length (fst c1) = length (snd c1) /\ incl (fst c1) nodes_list).
  { unfold c1. destruct nodes_list as [|x r]; [split; [exact Hlen|apply incl_refl]|].
    destruct (x =? s); [|split; [exact Hlen|apply incl_refl]]. cbn [fst snd]. split.
    - destruct strict_list; cbn in *; lia.
    - intros z Hz. right; exact Hz. }
  destruct c1 as (n1, s1). cbn [fst snd] in H1. destruct H1 as (Hl1 & Hi1).
  set (c2 := match n1 with
             | _ :: _ => if last n1 0 =? t then (removelast n1, removelast s1) else (n1, s1)
             | [] => (n1, s1) end) in H.
  assert (H2 : length (fst c2) = length (snd c2) /\ incl (fst c2) n1).
  { unfold c2. destruct n1 as [|x r]; [split; [exact Hl1|apply incl_refl]|].
    destruct (last (x :: r) 0 =? t); [|split; [exact Hl1|apply incl_refl]]. cbn [fst snd]. split.
    - rewrite !removelast_length. lia.
    - apply removelast_incl. }
  destruct c2 as (n2, s2). cbn [fst snd] in H2. destruct H2 as (Hl2 & Hi2).
  destruct (clean_loop_spec n _ _ _ _ _ H) as (Hv & Hi).
  - intros y _. rewrite map_fst_combine by lia. reflexivity.
  - split.
    + intros y Hy. specialize (Hv y Hy). unfold usable in Hv. apply orb_true_iff in Hv. exact Hv.
    + intros z Hz. apply Hi1, Hi2, Hi. exact Hz.
Qed.


(* ------------------------------------------------------------------ leg-wise certificate (include lists on large meshes) *)
Lemma walk_split g : forall k q x, is_walk g q -> nth_error q k = Some x ->
  is_walk g (firstn (S k) q) /\ is_walk g (skipn k q) /\
  weight g q = weight g (firstn (S k) q) + weight g (skipn k q) /\
  hd 0 (firstn (S k) q) = hd 0 q /\ last (firstn (S k) q) 0 = x /\
  hd_error (skipn k q) = Some x /\ (forall d, last (skipn k q) d = last q d).
Proof.
  induction k as [|k IH]; intros q x Hw Hn.
  - destruct q as [|a q']; [discriminate|]. cbn in Hn. injection Hn as ->.
    cbn [firstn skipn]. repeat split; try reflexivity; try exact Hw; cbn; lia.
  - destruct q as [|a q']; [discriminate|]. cbn [nth_error] in Hn.
    destruct q' as [|b q'']; [destruct k; discriminate|].
    destruct Hw as (He & Hw'). destruct (IH _ _ Hw' Hn) as (H1 & H2 & H3 & H4 & H5 & H6 & H7).
    change (firstn (S (S k)) (a :: b :: q'')) with (a :: firstn (S k) (b :: q'')).
    change (skipn (S k) (a :: b :: q'')) with (skipn k (b :: q'')).
    change (firstn (S k) (b :: q'')) with (b :: firstn k q'') in *.
    split; [split; assumption|]. split; [exact H2|]. split; [rewrite !weight_cons2; lia|].
    split; [reflexivity|]. split; [rewrite last_cons_cons; exact H5|]. split; [exact H6|].
    intros d. rewrite last_cons_cons. apply H7.
Qed.

Lemma seg_bound_le g t : forall inc pis u q,
  forallb (feasible g) pis = true -> length pis = S (length inc) ->
  is_walk g q -> hd_error q = Some u -> last q t = t -> visits inc q ->
  seg_bound pis u (inc ++ [t]) <= weight g q.
Proof.
  induction inc as [|x inc' IH]; intros pis u q Hf Hlen Hw Hh Hl Hv.
  - destruct pis as [|pi [|? ?]]; cbn in Hlen; try lia. cbn [forallb] in Hf. apply andb_true_iff in Hf.
    destruct Hf as (Hf & _). cbn [app seg_bound]. pose proof (potential_walk g pi Hf q Hw) as H.
    destruct q as [|a q']; [cbn in Hw; contradiction|]. cbn in Hh. injection Hh as ->. cbn [hd] in H.
    rewrite (last_indep (u :: q') 0 t) in H by discriminate. rewrite Hl in H. lia.
  - destruct pis as [|pi pis']; cbn in Hlen; [lia|]. cbn [forallb] in Hf. apply andb_true_iff in Hf.
    destruct Hf as (Hf & Hf'). cbn [app seg_bound].
    destruct (visits_cons_inv _ _ Hv _ _ eq_refl) as (k & Hk & Hv').
    destruct (walk_split g k q x Hw Hk) as (H1 & H2 & H3 & H4 & H5 & H6 & H7).
    pose proof (potential_walk g pi Hf _ H1) as Hp. rewrite H4, H5 in Hp.
    assert (Hu : hd 0 q = u) by (destruct q; [discriminate|cbn in Hh; injection Hh as ->; reflexivity]).
    rewrite Hu in Hp.
    assert (Hrest : seg_bound pis' x (inc' ++ [t]) <= weight g (skipn k q)).
    { apply IH; try assumption; [lia|]. rewrite H7. exact Hl. }
    lia.
Qed.

Theorem seg_cert g pis s t inc p :
  seg_cert_ok g pis s t inc p = true ->
  forall q, is_walk g q -> hd_error q = Some s -> last q t = t -> visits inc q -> weight g p <= weight g q.
Proof.
  unfold seg_cert_ok. rewrite !andb_true_iff. intros ((Hf & Hlen) & Heq) q Hw Hh Hl Hv.
  apply Nat.eqb_eq in Hlen. pose proof (seg_bound_le g t inc pis s q Hf Hlen Hw Hh Hl Hv). lia.
Qed.

(* ------------------------------------------------------------------ uniqueness of a forced path *)
Definition adj (q : list Z) (u v : Z) : Prop := exists l1 l2, q = l1 ++ u :: v :: l2.
Fixpoint all_adj (q p : list Z) : Prop :=
  match p with
  | u :: ((v :: _) as p') => adj q u v /\ all_adj q p'
  | _ => True
  end.

Lemma walk_app_edge g : forall l1 u x l2, is_walk g (l1 ++ u :: x :: l2) -> In x (map fst (succs g u)).
Proof.
  induction l1 as [|a l1 IH]; intros u x l2 H.
  - cbn [app] in H. destruct H as (H & _). exact H.
  - cbn [app] in H. destruct l1 as [|b l1'].
    + cbn [app] in H. destruct H as (_ & H). apply (IH u x l2). exact H.
    + cbn [app] in H. destruct H as (_ & H). apply (IH u x l2). exact H.
Qed.

Lemma only_succ_spec g u v : only_succ g u v = true -> forall x, In x (map fst (succs g u)) -> x = v.
Proof.
  unfold only_succ. destruct (succs g u) as [|(y, w) [|? ?]]; try discriminate.
  intros H x [Hx|[]]. cbn in Hx. lia.
Qed.

Lemma only_pred_spec g u v : only_pred g u v = true -> forall x, In v (map fst (succs g x)) -> x = u.
Proof.
  unfold only_pred. rewrite forallb_forall. intros H x Hin.
  apply in_map_iff in Hin. destruct Hin as (vw & Hv & Hin).
  destruct (succs_key _ _ _ Hin) as (r & Hr & Hfx). specialize (H r Hr). rewrite Hfx in H.
  assert (Hm : memZ v (map fst (succs g x)) = true).
  { apply memZ_In. apply in_map_iff. exists vw. split; assumption. }
  rewrite Hm in H. lia.
Qed.

Lemma last_app_cons {A} (l1 : list A) x l2 d : last (l1 ++ x :: l2) d = last (x :: l2) d.
Proof.
  induction l1 as [|a l1 IH]; [reflexivity|]. cbn [app]. destruct (l1 ++ x :: l2) eqn:E.
  - destruct l1; discriminate.
  - rewrite <- E. rewrite <- IH. rewrite E. reflexivity.
Qed.

Lemma adj_fwd g q t u v :
  is_walk g q -> last q t = t -> In u q -> only_succ g u v = true -> u <> t -> adj q u v.
Proof.
  intros Hw Hl Hin Hs Hne. apply in_split in Hin. destruct Hin as (l1 & l2 & ->).
  destruct l2 as [|x l2'].
  - rewrite last_app_cons in Hl. cbn in Hl. congruence.
  - pose proof (walk_app_edge g l1 u x l2' Hw) as He. rewrite (only_succ_spec g u v Hs x He). exists l1, l2'. reflexivity.
Qed.

Lemma adj_bwd g q s u v :
  is_walk g q -> hd_error q = Some s -> In v q -> only_pred g u v = true -> v <> s -> adj q u v.
Proof.
  intros Hw Hh Hin Hp Hne. apply in_split in Hin. destruct Hin as (l1 & l2 & ->).
  destruct (exists_last (l := l1)) as (l1' & x & ->).
  - intros ->. cbn in Hh. congruence.
  - rewrite <- app_assoc in Hw. cbn [app] in Hw. pose proof (walk_app_edge g l1' x v l2 Hw) as He.
    rewrite (only_pred_spec g u v Hp x He). exists l1', l2. rewrite <- app_assoc. reflexivity.
Qed.

Lemma nodup_split_unique : forall (a a' : list Z) x b b',
  NoDup (a ++ x :: b) -> a ++ x :: b = a' ++ x :: b' -> a = a' /\ b = b'.
Proof.
  induction a as [|y a IH]; intros a' x b b' Hnd Heq.
  - destruct a' as [|y' a'']; cbn [app] in *.
    + injection Heq as ->. split; reflexivity.
    + injection Heq as <- ->. exfalso. inversion Hnd as [|? ? Hn _]. apply Hn. apply in_or_app. right. left. reflexivity.
  - destruct a' as [|y' a'']; cbn [app] in *.
    + injection Heq as -> <-. exfalso. inversion Hnd as [|? ? Hn _]. apply Hn. apply in_or_app. right. left. reflexivity.
    + injection Heq as <- Heq. inversion Hnd as [|? ? _ Hnd']. destruct (IH _ _ _ _ Hnd' Heq) as (-> & ->).
      split; reflexivity.
Qed.

Lemma prefix_from q : NoDup q -> forall p u pre suf,
  all_adj q (u :: p) -> q = pre ++ u :: suf -> exists rest, suf = p ++ rest.
Proof.
  intros Hnd. induction p as [|v p' IH]; intros u pre suf Ha Hq.
  - exists suf. reflexivity.
  - destruct Ha as ((l1 & l2 & Hadj) & Ha').
    assert (Hnd' : NoDup (pre ++ u :: suf)) by (rewrite <- Hq; exact Hnd).
    rewrite Hq in Hadj. destruct (nodup_split_unique _ _ _ _ _ Hnd' Hadj) as (-> & ->).
    destruct (IH v (l1 ++ [u]) l2 Ha') as (rest & ->).
    + rewrite Hq. rewrite <- app_assoc. reflexivity.
    + exists rest. reflexivity.
Qed.

Lemma nodup_app_disj : forall (a b : list Z) x, NoDup (a ++ b) -> In x a -> In x b -> False.
Proof.
  induction a as [|y a IH]; intros b x Hnd Ha Hb; [destruct Ha|].
  cbn [app] in Hnd. inversion Hnd as [|? ? Hn Hnd']; subst. destruct Ha as [->|Ha].
  - apply Hn. apply in_or_app. right. exact Hb.
  - exact (IH b x Hnd' Ha Hb).
Qed.

Lemma forced_unique q p s t :
  NoDup q -> hd_error q = Some s -> last q t = t ->
  hd_error p = Some s -> last p t = t -> all_adj q p -> q = p.
Proof.
  intros Hnd Hhq Hlq Hhp Hlp Ha.
  destruct q as [|s' suf]; [discriminate|]. cbn in Hhq. injection Hhq as ->.
  destruct p as [|s' p']; [discriminate|]. cbn in Hhp. injection Hhp as ->.
  destruct (prefix_from _ Hnd p' s [] suf Ha eq_refl) as (rest & ->).
  destruct rest as [|x rest']; [rewrite app_nil_r; reflexivity|]. exfalso.
  (* t is the last element of s :: p' and of the longer list: it would occur twice *)
  assert (Hin1 : In t (s :: p')) by (rewrite <- Hlp at 1; apply last_In; discriminate).
  change (s :: p' ++ x :: rest') with ((s :: p') ++ x :: rest') in Hlq, Hnd.
  rewrite last_app_cons in Hlq.
  assert (Hin2 : In t (x :: rest')) by (rewrite <- Hlq at 1; apply last_In; discriminate).
  exact (nodup_app_disj _ _ t Hnd Hin1 Hin2).
Qed.

(* ---------- the boolean certificate ---------- *)

Definition Mem (q : list Z) (x : Z) (b : bool) : Prop := b = true -> In x q.

Lemma fgo_sound g q t A :
  is_walk g q -> last q t = t -> (forall x, In x A -> In x q) ->
  forall l u fu, Mem q u fu -> Forall2 (Mem q) l (fgo g t A u fu l).
Proof.
  intros Hw Hl HA. induction l as [|v l IH]; intros u fu Hu; cbn [fgo]; constructor.
  - intros H. apply orb_true_iff in H. destruct H as [H|H]; [apply HA; apply memZ_In; exact H|].
    apply andb_true_iff in H. destruct H as (Hfu & Hf). unfold ffwd in Hf. apply andb_true_iff in Hf.
    destruct Hf as (Hs & Hne). destruct (adj_fwd g q t u v Hw Hl (Hu Hfu) Hs ltac:(lia)) as (l1 & l2 & ->).
    apply in_or_app. right. right. left. reflexivity.
  - apply IH. intros H. apply orb_true_iff in H. destruct H as [H|H]; [apply HA; apply memZ_In; exact H|].
    apply andb_true_iff in H. destruct H as (Hfu & Hf). unfold ffwd in Hf. apply andb_true_iff in Hf.
    destruct Hf as (Hs & Hne). destruct (adj_fwd g q t u v Hw Hl (Hu Hfu) Hs ltac:(lia)) as (l1 & l2 & ->).
    apply in_or_app. right. right. left. reflexivity.
Qed.

Lemma bgo_sound g q s A :
  is_walk g q -> hd_error q = Some s -> (forall x, In x A -> In x q) ->
  forall l v bv, Mem q v bv -> Forall2 (Mem q) l (bgo g s A v bv l).
Proof.
  intros Hw Hh HA. induction l as [|u l IH]; intros v bv Hv; cbn [bgo]; constructor.
  - intros H. apply orb_true_iff in H. destruct H as [H|H]; [apply HA; apply memZ_In; exact H|].
    apply andb_true_iff in H. destruct H as (Hbv & Hf). unfold fbwd in Hf. apply andb_true_iff in Hf.
    destruct Hf as (Hp & Hne). destruct (adj_bwd g q s u v Hw Hh (Hv Hbv) Hp ltac:(lia)) as (l1 & l2 & ->).
    apply in_or_app. right. left. reflexivity.
  - apply IH. intros H. apply orb_true_iff in H. destruct H as [H|H]; [apply HA; apply memZ_In; exact H|].
    apply andb_true_iff in H. destruct H as (Hbv & Hf). unfold fbwd in Hf. apply andb_true_iff in Hf.
    destruct Hf as (Hp & Hne). destruct (adj_bwd g q s u v Hw Hh (Hv Hbv) Hp ltac:(lia)) as (l1 & l2 & ->).
    apply in_or_app. right. left. reflexivity.
Qed.

Lemma Forall2_rev' {A B} (R : A -> B -> Prop) : forall l l', Forall2 R l l' -> Forall2 R (rev l) (rev l').
Proof.
  induction 1 as [|x y l l' Hxy _ IH]; [constructor|]. cbn [rev]. apply Forall2_app; [exact IH|].
  constructor; [exact Hxy|constructor].
Qed.

Lemma fscan_sound g q t A p :
  is_walk g q -> last q t = t -> (forall x, In x A -> In x q) -> Forall2 (Mem q) p (fscan g t A p).
Proof.
  intros Hw Hl HA. destruct p as [|x l]; cbn [fscan]; constructor.
  - intros H. apply HA. apply memZ_In. exact H.
  - apply fgo_sound; try assumption. intros H. apply HA. apply memZ_In. exact H.
Qed.

Lemma bscan_sound g q s A p :
  is_walk g q -> hd_error q = Some s -> (forall x, In x A -> In x q) -> Forall2 (Mem q) p (bscan g s A p).
Proof.
  intros Hw Hh HA. unfold bscan. rewrite <- (rev_involutive p) at 1. apply Forall2_rev'.
  destruct (rev p) as [|x l]; constructor.
  - intros H. apply HA. apply memZ_In. exact H.
  - apply bgo_sound; try assumption. intros H. apply HA. apply memZ_In. exact H.
Qed.

Lemma orl_sound q : forall p a b, Forall2 (Mem q) p a -> Forall2 (Mem q) p b -> Forall2 (Mem q) p (orl a b).
Proof.
  induction p as [|x p IH]; intros a b Ha Hb; inversion Ha; inversion Hb; subst; cbn [orl]; constructor.
  - intros H. apply orb_true_iff in H. destruct H as [H|H]; auto.
  - apply IH; assumption.
Qed.

Lemma echeck_sound g q s t :
  is_walk g q -> hd_error q = Some s -> last q t = t ->
  forall p M, Forall2 (Mem q) p M -> echeck g s t p M = true -> all_adj q p.
Proof.
  intros Hw Hh Hl. induction p as [|u p IH]; intros M HM He; [exact I|].
  destruct p as [|v p']; [exact I|].
  inversion HM as [|? mu ? M1 Hmu HM1]; subst. inversion HM1 as [|? mv ? M2 Hmv HM2]; subst.
  cbn [echeck] in He. apply andb_true_iff in He. destruct He as (Hedge & Hrest).
  split; [|apply (IH (mv :: M2)); assumption].
  apply orb_true_iff in Hedge. destruct Hedge as [H|H]; apply andb_true_iff in H; destruct H as (Hf & Hm).
  - unfold ffwd in Hf. apply andb_true_iff in Hf. destruct Hf as (Hs & Hne).
    apply (adj_fwd g q t u v Hw Hl (Hmu Hm) Hs). lia.
  - unfold fbwd in Hf. apply andb_true_iff in Hf. destruct Hf as (Hp & Hne).
    apply (adj_bwd g q s u v Hw Hh (Hmv Hm) Hp). lia.
Qed.

(* a path that passes the certificate is THE route of the request: any route from s to t crossing inc equals it *)
Theorem explicit_forced_unique n inc s t p :
  explicit_forced n inc s t p = true -> hd_error p = Some s -> last p t = t ->
  forall q, Route (ngraph n) s t inc q -> q = p.
Proof.
  unfold explicit_forced. intros Hc Hhp Hlp q (Hw & Hnd & Hh & Hl & Hv).
  assert (HA : forall x, In x (s :: t :: inc) -> In x q).
  { intros x [<-|[<-|Hx]].
    - destruct q; [discriminate|]. cbn in Hh. injection Hh as ->. left; reflexivity.
    - rewrite <- Hl at 1. apply last_In. apply (is_walk_nonempty _ _ Hw).
    - apply (visits_In _ _ Hv). exact Hx. }
  apply (forced_unique q p s t Hnd Hh Hl Hhp Hlp).
  eapply echeck_sound; try eassumption.
  apply orl_sound; [apply fscan_sound|apply bscan_sound]; assumption.
Qed.

Corollary explicit_forced_optimal n inc s t p :
  explicit_path n inc s t = Some p -> explicit_forced n inc s t p = true ->
  optimal (ngraph n) s t inc p.
Proof.
  intros He Hc. pose proof (explicit_path_route _ _ _ _ _ He) as Hr. split; [exact Hr|].
  intros q Hq. destruct Hr as (_ & _ & Hh & Hl & _).
  rewrite (explicit_forced_unique n inc s t p Hc Hh Hl q Hq). lia.
Qed.

(* ------------------------------------------------------------------ a route whose every line section is pinned by the list is unique *)
(* chain structure along p: line elements have exactly one successor and one predecessor, the source transceiver one
   successor, the destination one predecessor, and two successive ROADMs of p are separated by a line element *)
Definition chain_hyp (n : net) (s t : Z) (p : list Z) : Prop :=
  (forall x, In x p -> is_line n x = true ->
     (exists y, only_succ (ngraph n) x y = true) /\ (exists w, only_pred (ngraph n) w x = true)) /\
  (exists r, only_succ (ngraph n) s r = true) /\ (exists w, only_pred (ngraph n) w t = true) /\
  is_line n s = false /\ is_line n t = false /\
  (forall l1 u v l2, p = l1 ++ u :: v :: l2 -> is_line n u = true \/ is_line n v = true \/ u = s \/ v = t).

(* the list names at least one element of every line section (OMS) of p: every line element of p sits in a run of
   successive line elements of p that contains a listed element *)
Definition covered (n : net) (inc p : list Z) : Prop :=
  forall x, In x p -> is_line n x = true ->
  exists m1 run m2 a, p = m1 ++ run ++ m2 /\ Forall (fun y => is_line n y = true) run /\
                      In x run /\ In a run /\ In a inc.

Lemma all_adj_intro q : forall p,
  (forall l1 u v l2, p = l1 ++ u :: v :: l2 -> adj q u v) -> all_adj q p.
Proof.
  induction p as [|u p IH]; intros H; [exact I|]. destruct p as [|v p']; [exact I|]. split.
  - apply (H [] u v p'). reflexivity.
  - apply IH. intros l1 a b l2 E. apply (H (u :: l1) a b l2). rewrite E. reflexivity.
Qed.


Lemma run_fwd n (t : Z) p q :
  is_walk (ngraph n) p -> is_walk (ngraph n) q -> last q t = t -> is_line n t = false ->
  (forall x, In x p -> is_line n x = true -> exists y, only_succ (ngraph n) x y = true) ->
  forall r2 a pre post, p = pre ++ a :: r2 ++ post -> is_line n a = true ->
    Forall (fun y => is_line n y = true) r2 -> In a q -> forall y, In y r2 -> In y q.
Proof.
  intros Hwp Hwq Hl Hlt Hs. induction r2 as [|b r2 IH]; intros a pre post E Ha Hr Hq y Hy; [destruct Hy|].
  assert (Hb : In b q).
  { destruct (Hs a) as (b' & Hb'); [rewrite E; apply in_or_app; right; left; reflexivity|exact Ha|].
    rewrite E in Hwp. cbn [app] in Hwp. pose proof (walk_app_edge _ _ _ _ _ Hwp) as He.
    pose proof (only_succ_spec _ _ _ Hb' b He) as Hbb. subst b'.
    assert (Hne : a <> t) by (intros ->; congruence).
    destruct (adj_fwd _ q t a b Hwq Hl Hq Hb' Hne) as (l1 & l2 & ->).
    apply in_or_app. right. right. left. reflexivity. }
  destruct Hy as [<-|Hy]; [exact Hb|]. inversion Hr as [|? ? Hlb Hr'].
  apply (IH b (pre ++ [a]) post); try assumption. rewrite E, <- app_assoc. reflexivity.
Qed.

Lemma run_bwd n (s : Z) p q :
  is_walk (ngraph n) p -> is_walk (ngraph n) q -> hd_error q = Some s -> is_line n s = false ->
  (forall x, In x p -> is_line n x = true -> exists w, only_pred (ngraph n) w x = true) ->
  forall r1 a pre post, p = pre ++ r1 ++ a :: post -> is_line n a = true ->
    Forall (fun y => is_line n y = true) r1 -> In a q -> forall y, In y r1 -> In y q.
Proof.
  intros Hwp Hwq Hh Hls Hp. induction r1 as [|b r1 IH] using rev_ind; intros a pre post E Ha Hr Hq y Hy; [destruct Hy|].
  apply Forall_app in Hr. destruct Hr as (Hr1 & Hb). inversion Hb as [|? ? Hlb _].
  assert (Hbq : In b q).
  { destruct (Hp a) as (w & Hw); [rewrite E; apply in_or_app; right; apply in_or_app; right; left; reflexivity|exact Ha|].
    assert (E' : p = (pre ++ r1) ++ b :: a :: post) by (rewrite E, <- !app_assoc; reflexivity).
    rewrite E' in Hwp. pose proof (walk_app_edge _ _ _ _ _ Hwp) as He.
    pose proof (only_pred_spec _ _ _ Hw b He) as Hbw. subst w.
    assert (Hne : a <> s) by (intros ->; congruence).
    destruct (adj_bwd _ q s b a Hwq Hh Hq Hw Hne) as (l1 & l2 & ->).
    apply in_or_app. right. left. reflexivity. }
  apply in_app_or in Hy. destruct Hy as [Hy|[<-|[]]]; [|exact Hbq].
  apply (IH b pre (a :: post)); try assumption. rewrite E. rewrite <- !app_assoc. reflexivity.
Qed.

Theorem covered_route_unique n s t inc p :
  Route (ngraph n) s t inc p -> chain_hyp n s t p -> covered n inc p ->
  forall q, Route (ngraph n) s t inc q -> q = p.
Proof.
  intros (Hwp & Hndp & Hhp & Hlp & Hvp) (Hline & (rs & Hrs) & (wt & Hwt) & Hls & Hlt & Hkinds) Hcov
         q (Hwq & Hndq & Hhq & Hlq & Hvq).
  assert (Hsq : In s q) by (destruct q; [discriminate|]; cbn in Hhq; injection Hhq as ->; left; reflexivity).
  assert (Htq : In t q) by (rewrite <- Hlq at 1; apply last_In; apply (is_walk_nonempty _ _ Hwq)).
  (* every line element of p is on q *)
  assert (Hmem : forall x, In x p -> is_line n x = true -> In x q).
  { intros x Hx Hlx. destruct (Hcov x Hx Hlx) as (m1 & run & m2 & a & E & Hrun & Hxr & Har & Hai).
    assert (Haq : In a q) by (apply (visits_In _ _ Hvq); exact Hai).
    apply in_split in Har. destruct Har as (r1 & r2 & ->).
    apply Forall_app in Hrun. destruct Hrun as (Hr1 & Hr2). inversion Hr2 as [|? ? Hla Hr2']; subst.
    apply in_app_or in Hxr. destruct Hxr as [Hxr|[<-|Hxr]]; [|exact Haq|].
    - apply (run_bwd n s _ q Hwp Hwq Hhq Hls (fun z Hz Hlz => proj2 (Hline z Hz Hlz)) r1 a m1 (r2 ++ m2)); try assumption.
      rewrite <- !app_assoc. reflexivity.
    - apply (run_fwd n t _ q Hwp Hwq Hlq Hlt (fun z Hz Hlz => proj1 (Hline z Hz Hlz)) r2 a (m1 ++ r1) m2); try assumption.
      rewrite <- !app_assoc. reflexivity. }
  apply (forced_unique q p s t Hndq Hhq Hlq Hhp Hlp). apply all_adj_intro. intros l1 u v l2 E.
  assert (He : In v (map fst (succs (ngraph n) u))) by (rewrite E in Hwp; exact (walk_app_edge _ _ _ _ _ Hwp)).
  assert (Hu : In u p) by (rewrite E; apply in_or_app; right; left; reflexivity).
  assert (Hv : In v p) by (rewrite E; apply in_or_app; right; right; left; reflexivity).
  (* s <> t: otherwise s would occur twice in p *)
  assert (Hst : s <> t).
  { intros <-. destruct p as [|a p']; [discriminate|]. cbn in Hhp. injection Hhp as ->.
    destruct p' as [|b p'']; [destruct l1 as [|? [|? ?]]; discriminate|].
    rewrite last_cons_cons in Hlp. inversion Hndp as [|? ? Hn _]. apply Hn. rewrite <- Hlp at 1. apply last_In. discriminate. }
  destruct (is_line n u) eqn:Elu.
  { destruct (proj1 (Hline u Hu Elu)) as (y & Hy). pose proof (only_succ_spec _ _ _ Hy v He) as Hvy. subst y.
    apply (adj_fwd _ q t u v Hwq Hlq (Hmem u Hu Elu) Hy). intros ->. congruence. }
  destruct (is_line n v) eqn:Elv.
  { destruct (proj2 (Hline v Hv Elv)) as (w & Hw). pose proof (only_pred_spec _ _ _ Hw u He) as Huw. subst w.
    apply (adj_bwd _ q s u v Hwq Hhq (Hmem v Hv Elv) Hw). intros ->. congruence. }
  destruct (Hkinds l1 u v l2 E) as [H|[H|[-> | ->]]]; try congruence.
  - pose proof (only_succ_spec _ _ _ Hrs v He) as Hvr. subst rs. apply (adj_fwd _ q t s v Hwq Hlq Hsq Hrs Hst).
  - pose proof (only_pred_spec _ _ _ Hwt u He) as Huw. subst wt. apply (adj_bwd _ q s u t Hwq Hhq Htq Hwt). congruence.
Qed.

(* hence: an explicit answer whose line sections are all pinned by the list is optimal among the routes of the request *)
Corollary explicit_path_optimal n inc s t p :
  explicit_path n inc s t = Some p -> chain_hyp n s t p -> covered n inc p ->
  optimal (ngraph n) s t inc p.
Proof.
  intros He Hc Hcov. pose proof (explicit_path_route _ _ _ _ _ He) as Hr. split; [exact Hr|].
  intros q Hq. rewrite (covered_route_unique n s t inc p Hr Hc Hcov q Hq). lia.
Qed.
