(* The definitions translated from gnpy/core/info.py on every run (Gen/SIGen.v, harness/pygen_c01.py) are the
   hand-written model of Model/SI.v.  A semantic edit of one of the translated methods changes the generated term
   and breaks a lemma below (all are conversions: the model mirrors the code statement by statement). *)
From Verif Require Import Prelude Model.SI Gen.SIGen.
From Coq Require Import QArith.
Open Scope Q_scope.

Lemma gen_add_nli x c : g_add_nli x c = add_nli x c.
Proof. reflexivity. Qed.
Lemma gen_add_ase x c : g_add_ase x c = add_ase x c.
Proof. reflexivity. Qed.
Lemma gen_apply_attenuation_lin k c : g_apply_attenuation_lin k c = att k c.
Proof. reflexivity. Qed.
Lemma gen_apply_gain_lin g c : g_apply_gain_lin g c = gain g c.
Proof. reflexivity. Qed.
(* the dB forms only convert their argument and call the linear form: attenuation by 1 / db2lin d, gain by db2lin d *)
Lemma gen_apply_attenuation_db db2lin d c : g_apply_attenuation_db db2lin d c = att (1 / db2lin d) c.
Proof. reflexivity. Qed.
Lemma gen_apply_gain_db db2lin d c : g_apply_gain_db db2lin d c = gain (db2lin d) c.
Proof. reflexivity. Qed.

Lemma gen_signal c : g_signal c = sig_pow c.
Proof. reflexivity. Qed.
Lemma gen_ase c : g_ase c = ase_pow c.
Proof. reflexivity. Qed.
Lemma gen_nli c : g_nli c = nli_pow c.
Proof. reflexivity. Qed.
Lemma gen_snr_lin c : g_snr_lin c = osnr c.
Proof. reflexivity. Qed.
Lemma gen_snr_nli c : g_snr_nli c = snr_nli c.
Proof. reflexivity. Qed.
Lemma gen_gsnr c : g_gsnr c = gsnr c.
Proof. reflexivity. Qed.

Lemma gen_is_in_band lo hi c : g_is_in_band lo hi c = in_band lo hi c.
Proof. reflexivity. Qed.
(* the constructor's two validity tests are the ones of mk_si *)
Lemma gen_overlap : forall l, overlapb l =
  match l with c :: ((d :: _) as t) => g_overlap c d || overlapb t | _ => false end.
Proof. intros [|c [|d t]]; reflexivity. Qed.
Lemma gen_exceed l : exceedb l = existsb g_exceed l.
Proof. reflexivity. Qed.

(* consequences for the source, through the model's theorems: the translated add_ase / add_nli keep the shares
   summing to one, the translated attenuation / gain leave the shares untouched *)
Lemma gen_att_shares k c : rs (g_apply_attenuation_lin k c) = rs c /\ ra (g_apply_attenuation_lin k c) = ra c /\
                           rn (g_apply_attenuation_lin k c) = rn c.
Proof. repeat split. Qed.
Lemma gen_gain_shares g c : rs (g_apply_gain_lin g c) = rs c /\ ra (g_apply_gain_lin g c) = ra c /\
                            rn (g_apply_gain_lin g c) = rn c.
Proof. repeat split. Qed.

(* ------------------------------------------------------------------ element programs
   g_program_<kind> lists the SpectralInformation primitives the propagate / __call__ body of each element kind applies
   (extracted from gnpy/core/elements.py on every run); g_variants expands the optional ones.  They are the programs of
   the model: every variant is accepted by prog_kinds_okb, and for the kinds whose model program is a fixed list the
   accepted lists are exactly the variants. *)
From Verif Require Proofs.SI.

Lemma gen_program_roadm : forallb (prog_kinds_okb KRoadm) (g_variants g_program_roadm) = true.
Proof. reflexivity. Qed.
Lemma gen_program_fused : forallb (prog_kinds_okb KFused) (g_variants g_program_fused) = true.
Proof. reflexivity. Qed.
Lemma gen_program_fiber : forallb (prog_kinds_okb KFiber) (g_variants g_program_fiber) = true.
Proof. reflexivity. Qed.
Lemma gen_program_raman : forallb (prog_kinds_okb KRaman) (g_variants g_program_raman) = true.
Proof. reflexivity. Qed.
Lemma gen_program_edfa : forallb (prog_kinds_okb KEdfa) (g_variants g_program_edfa) = true.
Proof. reflexivity. Qed.
Lemma gen_program_trx : forallb (prog_kinds_okb KTrx) (g_variants g_program_trx) = true.
Proof. reflexivity. Qed.

Lemma gen_program_fiber_iff l : prog_kinds_okb KFiber l = true <-> In l (g_variants g_program_fiber).
Proof.
  cbn. split.
  - intros H. apply Proofs.SI.kinds_eqb_eq in H. left. symmetry. exact H.
  - intros [<-|[]]. reflexivity.
Qed.
Lemma gen_program_raman_iff l : prog_kinds_okb KRaman l = true <-> In l (g_variants g_program_raman).
Proof.
  cbn. split.
  - intros H. apply Proofs.SI.kinds_eqb_eq in H. left. symmetry. exact H.
  - intros [<-|[]]. reflexivity.
Qed.
Lemma gen_program_edfa_iff l : prog_kinds_okb KEdfa l = true <-> In l (g_variants g_program_edfa).
Proof.
  cbn. rewrite Bool.orb_true_iff. split.
  - intros [H|H]; apply Proofs.SI.kinds_eqb_eq in H; subst l; tauto.
  - intros [<-|[<-|[]]]; [right|left]; reflexivity.
Qed.
Lemma gen_program_trx_iff l : prog_kinds_okb KTrx l = true <-> In l (g_variants g_program_trx).
Proof.
  cbn. split.
  - intros H. apply Proofs.SI.kinds_eqb_eq in H. left. symmetry. exact H.
  - intros [<-|[]]. reflexivity.
Qed.

(* hence the clause of C02 for the kind holds of every history of updates that follows the code's program *)
Lemma source_program_quality k p : forallb (prog_kinds_okb k) (g_variants p) = true ->
  forall l, In l (g_variants p) -> forall ops c, map ckind_of ops = l -> Inv c -> WfOps c ops ->
  elem_claim k (crun ops c) c.
Proof.
  intros H l Hl ops c Hk Hi Hw. rewrite forallb_forall in H. specialize (H l Hl).
  apply Proofs.SI.elem_quality; [|exact Hi|exact Hw]. unfold cprog_okb. rewrite Hk. exact H.
Qed.
