(* The definitions translated from /repo's source on every run (Gen/OmsGen.v, by harness/pygen_c15.py) are the
   hand-written model Model/Oms.v.  A semantic edit of one of these source functions changes the generated term and
   breaks a lemma below. *)
From Coq Require Import QArith Lia ZifyBool.
From Verif Require Import Prelude Model.Spectrum Model.Oms Gen.OmsGen Proofs.Oms.
Local Open Scope Z_scope.

(* same outcome, error details aside *)
Definition same_res {A} (r1 r2 : res A) : Prop :=
  match r1, r2 with Ok x, Ok y => x = y | Err _, Err _ => True | _, _ => False end.

Lemma same_res_refl {A} (r : res A) : same_res r r.
Proof. destruct r; cbn; auto. Qed.

Lemma gen_frequency_to_n f g : g_frequency_to_n f g = frequency_to_n f g.
Proof. reflexivity. Qed.

Lemma gen_nvalue_to_frequency n g : g_nvalue_to_frequency n g = nvalue_to_frequency n g.
Proof. reflexivity. Qed.

(* Bitmap(...): the model makes Python's ZeroDivisionError for grid = 0 explicit *)
Lemma gen_Bitmap_init f_min f_max grid gbd ex :
  Qeq_bool grid 0 = false -> same_res (g_Bitmap_init f_min f_max grid gbd ex) (mk_bitmap f_min f_max grid gbd ex).
Proof.
  intros Hg. unfold g_Bitmap_init, mk_bitmap. rewrite Hg. cbv zeta. change g_frequency_to_n with frequency_to_n.
  destruct ex as [c|].
  - destruct (Nat.eqb (length c) _) eqn:E.
    + apply Nat.eqb_eq in E. rewrite E, Z.eqb_refl. reflexivity.
    + apply Nat.eqb_neq in E.
      match goal with |- context [?a =? ?b] => destruct (a =? b) eqn:E2 end; [lia|exact I].
  - cbn. repeat f_equal; lia.
Qed.

Lemma gen_insert_left b nw : same_res (g_insert_left b nw) (insert_left b nw).
Proof.
  unfold g_insert_left, insert_left. cbv zeta.
  destruct (zrange (n_min b - Z.of_nat (length nw)) (n_min b) ++ idx b) as [|h t]; cbn; auto.
Qed.

Lemma gen_insert_right b nw : same_res (g_insert_right b nw) (insert_right b nw).
Proof.
  unfold g_insert_right, insert_right. cbv zeta.
  destruct (idx b ++ zrange (n_max b + 1) (n_max b + 1 + Z.of_nat (length nw))) as [|h t]; cbn; auto.
Qed.

Lemma gen_oms_loop grid nmin nmax rest : forall prev,
  g_oms_loop grid nmin nmax prev rest = oms_tail nmax prev (map (band_slots grid) rest).
Proof.
  induction rest as [|[lo hi] t IH]; intros prev; cbn [g_oms_loop map oms_tail]; [reflexivity|].
  unfold band_slots at 1. cbn [fst snd]. cbv zeta. change g_frequency_to_n with frequency_to_n. rewrite IH, <- app_assoc.
  repeat f_equal; lia.
Qed.

Lemma gen_create_oms_bitmap common f_min f_max grid :
  Qeq_bool grid 0 = false ->
  same_res (g_create_oms_bitmap common f_min f_max grid) (create_oms_bitmap common f_min f_max grid).
Proof.
  intros Hg. unfold g_create_oms_bitmap, create_oms_bitmap. rewrite Hg. cbv zeta.
  destruct common as [|[lo hi] t]; [exact I|]. cbn [map oms_cells]. unfold band_slots at 1. cbn [fst snd same_res].
  change g_frequency_to_n with frequency_to_n. rewrite gen_oms_loop, <- app_assoc. repeat f_equal; lia.
Qed.

Lemma bind_same {A B} (r1 r2 : res A) (f1 f2 : A -> res B) :
  same_res r1 r2 -> (forall x, same_res (f1 x) (f2 x)) -> same_res (bind r1 f1) (bind r2 f2).
Proof. destruct r1, r2; cbn; intros H Hf; try contradiction; [subst; apply Hf|exact I]. Qed.

Lemma gen_align_one nmin nmax b : same_res (g_align_one nmin nmax b) (align_one nmin nmax b).
Proof.
  unfold g_align_one, align_one. apply bind_same.
  - destruct (0 <? n_min b - nmin); [apply gen_insert_left|reflexivity].
  - intros b1. destruct (0 <? nmax - n_max b1); [apply gen_insert_right|reflexivity].
Qed.

Lemma mapM_same {A B} (f1 f2 : A -> res B) l :
  (forall x, same_res (f1 x) (f2 x)) -> same_res (mapM f1 l) (mapM f2 l).
Proof.
  intros H. induction l as [|x t IH]; [reflexivity|]. cbn [mapM]. apply bind_same; [apply H|].
  intros y. apply bind_same; [exact IH|]. intros r. reflexivity.
Qed.

Lemma gen_align_grids l : same_res (g_align_grids l) (align_grids l).
Proof.
  unfold g_align_grids, align_grids. destruct l as [|b0 t]; [exact I|]. cbv zeta. unfold list_min, list_max.
  apply mapM_same. intros x. apply gen_align_one.
Qed.

Lemma gen_find_network_freq_range g :
  same_res (g_find_network_freq_range (all_amp_bands g)) (find_network_freq_range g).
Proof.
  unfold g_find_network_freq_range, find_network_freq_range. destruct (all_amp_bands g) as [|b t]; [exact I|].
  reflexivity.
Qed.

(* one step of the walk of build_oms_list from a non-ROADM element *)
Lemma gen_walk_step g f x y n :
  lookup g y = Some n -> kind_eqb (kind n) KRoadm = false ->
  same_res (walk g (S f) x y)
           (let* nx := g_walk_next x y (succs n) in let* r := walk g f y nx in Ok (y :: r)).
Proof.
  intros Hn Hk. cbn [walk]. rewrite Hn, Hk. unfold g_walk_next.
  destruct (filter (fun s => negb (s =? x)) (succs n)) as [|nx l]; [exact I|]. cbn [bind]. apply same_res_refl.
Qed.
