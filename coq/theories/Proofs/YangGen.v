(* C18 — the definitions generated from gnpy's converter sources (Gen/YangGen.v) are the functions of Model/Yang.v. *)
From Verif Require Import Prelude Model.YangPrecision Model.Yang Proofs.Yang Gen.YangGen.
Open Scope Z_scope.

Lemma mapM_ext : forall {A B} (f g : A -> res B) l, (forall x, f x = g x) -> mapM f l = mapM g l.
Proof.
  intros A B f g l H; induction l as [|x t IH]; [reflexivity|].
  change (mapM f (x :: t)) with (let* y := f x in let* t' := mapM f t in Ok (y :: t')).
  change (mapM g (x :: t)) with (let* y := g x in let* t' := mapM g t in Ok (y :: t')).
  now rewrite H, IH.
Qed.
Lemma on_elements_ext : forall f g doc, (forall e, f e = g e) -> on_elements f doc = on_elements g doc.
Proof.
  intros f g doc H. unfold on_elements. destruct (jreq K_elements doc); [|reflexivity]. cbn [bind].
  destruct (as_arr a); [|reflexivity]. cbn [bind].
  rewrite (mapM_ext _ (fun e => let* eo := as_obj e in let* eo' := g eo in Ok (JObj eo'))); [reflexivity|].
  intros e. destruct (as_obj e); [|reflexivity]. cbn [bind]. now rewrite H.
Qed.
Lemma on_entries_ext : forall key f g doc, (forall e, f e = g e) -> on_entries key f doc = on_entries key g doc.
Proof.
  intros key f g doc H. unfold on_entries. destruct (jget key doc); [|reflexivity].
  destruct (as_arr j); [|reflexivity]. cbn [bind].
  rewrite (mapM_ext _ (fun e => let* eo := as_obj e in let* eo' := g eo in Ok (JObj eo'))); [reflexivity|].
  intros e. destruct (as_obj e); [|reflexivity]. cbn [bind]. now rewrite H.
Qed.
Lemma upd_sub_ext : forall key f g e, (forall p, f p = g p) -> upd_sub key f e = upd_sub key g e.
Proof.
  intros key f g e H. unfold upd_sub. destruct (jreq key e); [|reflexivity]. cbn [bind].
  destruct (as_obj a); [|reflexivity]. cbn [bind]. now rewrite H.
Qed.
Lemma with_params_ext : forall f g e, (forall p, f p = g p) -> with_params f e = with_params g e.
Proof.
  intros f g e H. unfold with_params. destruct (jget K_params e) as [[| | | | |p]|]; try reflexivity. now apply upd_sub_ext.
Qed.
Lemma fold_left_ext : forall {A B} (f g : A -> B -> A) l a, (forall x y, f x y = g x y) -> fold_left f l a = fold_left g l a.
Proof. intros A B f g l; induction l as [|y t IH]; intros a H; cbn; [reflexivity|]. now rewrite H, IH. Qed.

(* ------------------------------------------------------------------ convert_degree *)
Lemma gen_cd_params : forall p, g_cd_params p = degree_params p.
Proof.
  intros p. unfold g_cd_params, degree_params.
  change (fold_left g_cd_step g_cd_types (Ok (p, []))) with (fold_left degree_step eq_types (Ok (p, []))).
  destruct (fold_left degree_step eq_types (Ok (p, []))) as [[p' nt]|]; [|reflexivity]. cbn [bind].
  destruct nt; reflexivity.
Qed.
Theorem gen_convert_degree : forall doc, g_convert_degree doc = convert_degree doc.
Proof.
  intros doc. unfold g_convert_degree, convert_degree. apply on_elements_ext. intros e.
  unfold degree_elem, roadm_with_params. destruct (jreq K_type e) as [t|]; [|reflexivity]. cbn [bind].
  unfold g_cd_guard. destruct (is_str "Roadm" t && jhas "params" e) eqn:E;
    change (is_str K_roadm t && jhas K_params e) with (is_str "Roadm" t && jhas "params" e); rewrite E; [|reflexivity].
  apply upd_sub_ext, gen_cd_params.
Qed.

(* ------------------------------------------------------------------ convert_back_degree / process_power_targets *)
Lemma gen_cbd_target_step : forall du tg st eqt, g_cbd_target_step du tg st eqt = back_target_step du tg st eqt.
Proof.
  intros du tg st eqt. unfold g_cbd_target_step, back_target_step, g_cbd_present, jreq.
  destruct st as [p|]; [|reflexivity]. cbn [bind]. destruct (jget eqt tg); reflexivity.
Qed.
Lemma gen_cbd_target : forall st t, g_cbd_target st t = back_target st t.
Proof.
  intros st t. unfold g_cbd_target, back_target. destruct st as [p|]; [|reflexivity]. cbn [bind].
  destruct (as_obj t) as [tg|]; [|reflexivity]. cbn [bind]. destruct (jreq K_degree tg) as [duj|]; [|reflexivity]. cbn [bind].
  destruct (as_key duj) as [du|]; [|reflexivity]. cbn [bind].
  change g_cbd_types with eq_types. apply fold_left_ext. intros; apply gen_cbd_target_step.
Qed.
Lemma gen_cbd_params : forall p, g_cbd_params p = back_degree_params p.
Proof.
  intros p. unfold g_cbd_params, back_degree_params, g_cbd_empty.
  change g_cbd_key with K_pdt. destruct (jget K_pdt p) as [pt|]; [|reflexivity].
  destruct (truthy pt); cbn [negb]; [|reflexivity].
  destruct (as_arr pt) as [l|]; [|reflexivity]. cbn [bind]. apply fold_left_ext. intros; apply gen_cbd_target.
Qed.
Theorem gen_convert_back_degree : forall doc, g_convert_back_degree doc = convert_back_degree doc.
Proof.
  intros doc. unfold g_convert_back_degree, convert_back_degree. apply on_elements_ext. intros e.
  unfold back_degree_elem, roadm_with_params. destruct (jreq K_type e) as [t|]; [|reflexivity]. cbn [bind].
  unfold g_cbd_skip. change K_roadm with "Roadm"%string. change K_params with "params"%string.
  destruct (is_str "Roadm" t); destruct (jhas "params" e); cbn [negb orb andb]; try reflexivity.
  apply upd_sub_ext, gen_cbd_params.
Qed.

(* ------------------------------------------------------------------ design bands *)
Lemma gen_db_params : forall p, g_db_params p = design_band_params p.
Proof.
  intros p. unfold g_db_params, design_band_params. change g_db_key with K_pddb.
  destruct (jget K_pddb p) as [t|]; [|reflexivity]. unfold g_db_poptest.
  destruct t as [|b|m d|s|l|items]; cbn [truthy bind].
  - reflexivity.
  - destruct b; reflexivity.
  - destruct (negb (m =? 0)); reflexivity.
  - destruct (negb (String.eqb s "")); reflexivity.
  - destruct l; reflexivity.
  - destruct items as [|i r]; reflexivity.
Qed.
Theorem gen_convert_design_band : forall doc, g_convert_design_band doc = convert_design_band doc.
Proof.
  intros doc. unfold g_convert_design_band, convert_design_band. apply on_elements_ext. intros e.
  unfold design_band_elem, band_elem_with_params. destruct (jreq K_type e) as [t|]; [|reflexivity]. cbn [bind].
  unfold g_db_guard. change K_roadm with "Roadm"%string. change K_trx with "Transceiver"%string. change K_params with "params"%string.
  destruct ((is_str "Roadm" t || is_str "Transceiver" t) && jhas "params" e); [|reflexivity].
  apply upd_sub_ext, gen_db_params.
Qed.
Lemma gen_bdb_params : forall p, g_bdb_params p = back_design_band_params p.
Proof.
  intros p. unfold g_bdb_params, back_design_band_params. change g_bdb_key with K_pddbt.
  destruct (jget K_pddbt p) as [t|]; [|reflexivity]. unfold g_bdb_poptest. destruct (truthy t); [|reflexivity].
  destruct (as_arr t) as [l|]; [|reflexivity]. cbn [bind].
  change (fold_left g_bdb_step l (Ok [])) with (fold_left back_db_step l (Ok [])).
  destruct (fold_left back_db_step l (Ok [])) as [d|]; [|reflexivity]. cbn [bind]. destruct d; reflexivity.
Qed.
Theorem gen_convert_back_design_band : forall doc, g_convert_back_design_band doc = convert_back_design_band doc.
Proof.
  intros doc. unfold g_convert_back_design_band, convert_back_design_band. apply on_elements_ext. intros e.
  unfold back_design_band_elem, band_elem_with_params. destruct (jreq K_type e) as [t|]; [|reflexivity]. cbn [bind].
  unfold g_bdb_guard. change K_roadm with "Roadm"%string. change K_trx with "Transceiver"%string. change K_params with "params"%string.
  destruct ((is_str "Roadm" t || is_str "Transceiver" t) && jhas "params" e); [|reflexivity].
  apply upd_sub_ext, gen_bdb_params.
Qed.

(* ------------------------------------------------------------------ per-frequency loss, Raman coefficient *)
Theorem gen_convert_loss_coeff_list : forall doc, g_convert_loss_coeff_list doc = convert_loss_coeff_list doc.
Proof. reflexivity. Qed.
Theorem gen_convert_back_loss_coeff_list : forall doc, g_convert_back_loss_coeff_list doc = convert_back_loss_coeff_list doc.
Proof. reflexivity. Qed.
Theorem gen_convert_raman_coef : forall doc, g_convert_raman_coef doc = convert_raman_coef doc.
Proof. reflexivity. Qed.
Lemma gen_brc_params : forall p, g_brc_params p = back_raman_params p.
Proof.
  intros p. unfold g_brc_params, back_raman_params. change g_rc_key with K_raman.
  destruct (jget K_raman p) as [rcj|]; [|reflexivity].
  change g_brc_gk with "g0_per_frequency"%string.
  destruct (key_in "g0_per_frequency" rcj) as [[|]|]; try reflexivity. cbn [bind].
  destruct (as_obj rcj) as [rc|]; [|reflexivity]. cbn [bind].
  destruct (jreq "g0_per_frequency" rc) as [gpf|]; [|reflexivity]. cbn [bind].
  destruct (as_arr gpf) as [items|]; [|reflexivity]. cbn [bind].
  change g_brc_rg with "g0"%string. change g_brc_rf with "frequency_offset"%string.
  destruct (pluck "g0" items) as [g0s|]; [|reflexivity]. cbn [bind].
  destruct (pluck "frequency_offset" items) as [fos|]; [|reflexivity]. cbn [bind].
  destruct fos; reflexivity.
Qed.
Theorem gen_convert_back_raman_coef : forall doc, g_convert_back_raman_coef doc = convert_back_raman_coef doc.
Proof.
  intros doc. unfold g_convert_back_raman_coef, convert_back_raman_coef. apply on_elements_ext. intros e.
  apply with_params_ext, gen_brc_params.
Qed.

(* ------------------------------------------------------------------ nf_coef / nf_fit_coeff *)
Lemma gen_nf_enum : forall l i, g_nf_enum i l = enum_coef i l.
Proof. induction l as [|c t IH]; intros i; cbn; [reflexivity|]. now rewrite IH. Qed.
Lemma gen_nff_enum : forall l i, g_nff_enum i l = enum_coef i l.
Proof. induction l as [|c t IH]; intros i; cbn; [reflexivity|]. now rewrite IH. Qed.

(* reading the coefficients back with a filter that keeps everything is the plain comprehension *)
Lemma read_all : forall k (sorted : list (json * json)),
  (let* css := mapM (fun p => let* o := as_obj (snd p) in
                              if (fun _ : option json => true) (jget k o) then let* c := jreq k o in Ok [c] else Ok []) sorted in
   Ok (concat css))
  = mapM (fun p => let* o := as_obj (snd p) in jreq k o) sorted.
Proof.
  intros k sorted; induction sorted as [|p t IH]; [reflexivity|].
  rewrite !mapM_cons. cbn beta.
  destruct (as_obj (snd p)) as [o|]; [|reflexivity]. cbn [bind].
  destruct (jreq k o) as [c|]; [|reflexivity]. cbn [bind].
  rewrite <- IH. cbn beta.
  destruct (mapM _ t) as [css|]; reflexivity.
Qed.

Lemma gen_nf_forth : forall e, g_nf_forth e = nf_forth "nf_coef" e.
Proof.
  intros e. unfold g_nf_forth, nf_forth. change g_nf_key with "nf_coef"%string.
  destruct (jget "nf_coef" e) as [v|]; [|reflexivity]. destruct (as_arr v) as [l|]; [|reflexivity]. cbn [bind].
  destruct (nth_req l 0) as [h|]; [|reflexivity]. cbn [bind]. now rewrite gen_nf_enum.
Qed.
Lemma gen_nf_back : forall e, g_nf_back e = nf_back "nf_coef" e.
Proof.
  intros e. unfold g_nf_back, nf_back. change g_nf_key with "nf_coef"%string.
  destruct (jget "nf_coef" e) as [v|]; [|reflexivity]. destruct (as_arr v) as [l|]; [|reflexivity]. cbn [bind].
  destruct (nth_req l 0) as [h|]; [|reflexivity]. cbn [bind]. destruct (is_dict h); [|reflexivity].
  change g_nf_ko with "coef_order"%string.
  destruct (mapM (fun it => let* o := as_obj it in let* k := jreq "coef_order" o in Ok (k, it)) l) as [pairs|]; [|reflexivity].
  cbn [bind]. destruct (sort_by pairs) as [sorted|]; [|reflexivity]. cbn [bind].
  pose proof (read_all "nf_coef" sorted) as R. unfold g_nf_keep, g_nf_rc.
  destruct (mapM (fun p => let* o := as_obj (snd p) in
                          if (fun _ : option json => true) (jget "nf_coef" o) then let* c := jreq "nf_coef" o in Ok [c] else Ok []) sorted)
    as [css|] eqn:E; cbn [bind] in *; rewrite <- R; reflexivity.
Qed.
Theorem gen_convert_nf_coef : forall doc, g_convert_nf_coef doc = convert_nf_coef doc.
Proof. intros doc. unfold g_convert_nf_coef, convert_nf_coef. apply on_entries_ext, gen_nf_forth. Qed.
Theorem gen_convert_back_nf_coef : forall doc, g_convert_back_nf_coef doc = convert_back_nf_coef doc.
Proof. intros doc. unfold g_convert_back_nf_coef, convert_back_nf_coef. apply on_entries_ext, gen_nf_back. Qed.

Theorem gen_convert_nf_fit_coef : forall doc, g_convert_nf_fit_coef doc = convert_nf_fit_coef doc.
Proof.
  intros e. unfold g_convert_nf_fit_coef, convert_nf_fit_coef, g_nff_forth, nf_forth. change g_nff_key with "nf_fit_coeff"%string.
  destruct (jget "nf_fit_coeff" e) as [v|]; [|reflexivity]. destruct (as_arr v) as [l|]; [|reflexivity]. cbn [bind].
  destruct (nth_req l 0) as [h|]; [|reflexivity]. cbn [bind]. now rewrite gen_nff_enum.
Qed.
Theorem gen_convert_back_nf_fit_coef : forall doc, g_convert_back_nf_fit_coef doc = convert_back_nf_fit_coef doc.
Proof.
  intros e. unfold g_convert_back_nf_fit_coef, convert_back_nf_fit_coef, g_nff_back, nf_back. change g_nff_key with "nf_fit_coeff"%string.
  destruct (jget "nf_fit_coeff" e) as [v|]; [|reflexivity]. destruct (as_arr v) as [l|]; [|reflexivity]. cbn [bind].
  destruct (nth_req l 0) as [h|]; [|reflexivity]. cbn [bind]. destruct (is_dict h); [|reflexivity].
  change g_nff_ko with "coef_order"%string.
  destruct (mapM (fun it => let* o := as_obj it in let* k := jreq "coef_order" o in Ok (k, it)) l) as [pairs|]; [|reflexivity].
  cbn [bind]. destruct (sort_by pairs) as [sorted|]; [|reflexivity]. cbn [bind].
  pose proof (read_all "nf_coef" sorted) as R. unfold g_nff_keep, g_nff_rc.
  destruct (mapM (fun p => let* o := as_obj (snd p) in
                          if (fun _ : option json => true) (jget "nf_coef" o) then let* c := jreq "nf_coef" o in Ok [c] else Ok []) sorted)
    as [css|] eqn:E; cbn [bind] in *; rewrite <- R; reflexivity.
Qed.

(* ------------------------------------------------------------------ Span / SI power ranges *)
Lemma gen_range_entry : forall lk dk e, g_range_entry lk dk e = range_entry lk dk e.
Proof.
  intros lk dk e. unfold g_range_entry, range_entry, g_range_dict. destruct (jhas dk e); [reflexivity|].
  destruct (jget lk e) as [r|]; [|reflexivity]. destruct (as_arr r) as [l|]; [|reflexivity]. cbn [bind].
  destruct (nth_req l 0); [|reflexivity]. cbn [bind]. destruct (nth_req l 1); [|reflexivity]. cbn [bind].
  destruct (nth_req l 2); reflexivity.
Qed.
Theorem gen_convert_delta_power_range : forall doc, g_convert_delta_power_range doc = convert_delta_power_range doc.
Proof.
  intros doc. unfold g_convert_delta_power_range, convert_delta_power_range.
  rewrite (on_entries_ext g_span_cont _ (range_entry g_span_lk g_span_dk)) by (intros; apply gen_range_entry).
  change (on_entries g_span_cont (range_entry g_span_lk g_span_dk) doc)
    with (on_entries "Span" (range_entry "delta_power_range_db" "delta_power_range_dict_db") doc).
  destruct (on_entries "Span" (range_entry "delta_power_range_db" "delta_power_range_dict_db") doc) as [d1|]; [|reflexivity].
  cbn [bind]. apply (on_entries_ext g_si_cont). intros; apply gen_range_entry.
Qed.
Lemma gen_back_range_entry : forall lk dk e,
  g_back_range_entry lk dk ["min_value"; "max_value"; "step"]%string e = back_range_entry lk dk e.
Proof.
  intros lk dk e. unfold g_back_range_entry, back_range_entry. destruct (key_in dk e) as [[|]|]; try reflexivity. cbn [bind].
  destruct (as_obj e) as [eo|]; [|reflexivity]. cbn [bind]. destruct (jreq dk eo) as [r|]; [|reflexivity]. cbn [bind].
  destruct (as_obj r) as [ro|]; [|reflexivity]. cbn [bind].
  change (mapM (fun k => jreq k ro) ["min_value"; "max_value"; "step"]%string)
    with (let* a := jreq "min_value" ro in let* t := (let* b := jreq "max_value" ro in
          let* t2 := (let* c := jreq "step" ro in Ok [c]) in Ok (b :: t2)) in Ok (a :: t)).
  destruct (jreq "min_value" ro); [|reflexivity]. cbn [bind]. destruct (jreq "max_value" ro); [|reflexivity]. cbn [bind].
  destruct (jreq "step" ro); reflexivity.
Qed.
Lemma gen_back_range_all : forall key lk dk doc,
  g_back_range_all key lk dk ["min_value"; "max_value"; "step"]%string doc = back_range_all key lk dk doc.
Proof.
  intros key lk dk doc. unfold g_back_range_all, back_range_all. destruct (jget key doc) as [l|]; [|reflexivity].
  destruct (as_arr l) as [items|]; [|reflexivity]. cbn [bind].
  rewrite (mapM_ext _ (back_range_entry lk dk)); [reflexivity|]. intros; apply gen_back_range_entry.
Qed.
Theorem gen_convert_back_delta_power_range : forall doc,
  g_convert_back_delta_power_range doc = convert_back_delta_power_range doc.
Proof.
  intros doc. unfold g_convert_back_delta_power_range, convert_back_delta_power_range.
  change g_bspan_read with ["min_value"; "max_value"; "step"]%string. change g_bsi_read with ["min_value"; "max_value"; "step"]%string.
  rewrite gen_back_range_all.
  change (back_range_all g_bspan_cont g_bspan_lk g_bspan_dk doc)
    with (back_range_all "Span" "delta_power_range_db" "delta_power_range_dict_db" doc).
  destruct (back_range_all "Span" "delta_power_range_db" "delta_power_range_dict_db" doc) as [d1|]; [|reflexivity].
  cbn [bind]. apply gen_back_range_all.
Qed.

(* ------------------------------------------------------------------ the dispatchers: tests and order of the calls *)
Theorem gen_legacy_to_yang : forall doc, g_legacy_to_yang doc = legacy_to_yang doc.
Proof. reflexivity. Qed.
Theorem gen_yang_to_legacy : forall doc, g_yang_to_legacy doc = yang_to_legacy doc.
Proof. reflexivity. Qed.

(* ------------------------------------------------------------------ other_name loops *)
Theorem gen_expand_edfa : forall e, g_expand_edfa e = expand_edfa e.
Proof. reflexivity. Qed.
Theorem gen_expand_trx : forall e, g_expand_trx e = expand_trx e.
Proof. reflexivity. Qed.
Theorem gen_expand_modes : forall ms, g_expand_modes ms = expand_modes ms.
Proof. reflexivity. Qed.

(* ------------------------------------------------------------------ the gnpy-api:api section *)
(* yang_to_legacy converts its argument in place; the API branch must therefore work on a copy of the caller's payload
   (and of every extra item), and converts exactly the six core sections *)
Theorem gen_api_section :
  g_api_payload_copied = true /\ g_api_item_copied = true /\
  g_api_core_keys = [TOPO_NMSP; SERV_NMSP; EQPT_NMSP; SIM_PARAMS_NMSP; EDFA_CONFIG_NMSP; RESP_NMSP].
Proof. repeat split. Qed.
