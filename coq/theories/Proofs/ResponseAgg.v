(* C19 — requests_aggregation: every original request ends up in exactly one joined request, whose id is the
   joined id, whose bandwidth is the sum and whose N / M lists are the concatenation, in join order; only requests
   whose compared fields are equal (and whose mode is fixed) are joined.  The comparison ignores `bidir`
   (agg_bidir_refuted). *)
From Verif Require Import Prelude Model.Response Proofs.Response.
From Coq Require Import QArith Qfield Lia ZifyBool Permutation.
Open Scope Z_scope.

(* ------------------------------------------------------------------ originals, looked up by tag *)
Definition by_tag (reqs : list areq) (t : nat) : option areq := find (fun r => Nat.eqb (a_tag r) t) reqs.
Definition oget {A} (f : areq -> A) (d : A) (reqs : list areq) (t : nat) : A :=
  match by_tag reqs t with Some r => f r | None => d end.
Definition id_of := oget a_id EmptyString.
Definition bw_of := oget a_bw 0%Q.
Definition N_of := oget a_N [].
Definition M_of := oget a_M [].
Definition key_of := oget a_key [].
Definition bidir_of := oget a_bidir false.
Definition mode_of := oget a_mode_set false.

(* what a (possibly joined) request must be, in terms of the originals it stands for *)
Record joined_ok (reqs : list areq) (r : areq) : Prop := mkJ {
  j_head : hd_error (a_members r) = Some (a_tag r);                                (* the absorbing request comes first *)
  j_id : a_id r = join sep (map (id_of reqs) (a_members r));                       (* joined id *)
  j_bw : (a_bw r == qsum_plain (map (bw_of reqs) (a_members r)))%Q;                  (* bandwidths summed *)
  j_N : a_N r = flat_map (N_of reqs) (a_members r);                                (* N lists concatenated *)
  j_M : a_M r = flat_map (M_of reqs) (a_members r);
  j_key : a_key r = key_of reqs (a_tag r);
  j_bidir : a_bidir r = bidir_of reqs (a_tag r);
  j_mode : a_mode_set r = mode_of reqs (a_tag r);
  j_same : Forall (fun t => key_eqb (key_of reqs t) (a_key r) = true) (a_members r); (* members agree on the compared fields *)
  j_fixed : (1 < length (a_members r))%nat -> a_mode_set r = true                  (* only fixed-mode requests absorb *)
}.

Definition Inv (reqs local : list areq) : Prop :=
  Permutation (flat_map a_members local) (map a_tag reqs) /\ Forall (joined_ok reqs) local.

(* ------------------------------------------------------------------ small facts *)
Lemma append_assoc' : forall a b c : string, ((a ++ b) ++ c = a ++ (b ++ c))%string.
Proof. induction a as [|ch a IH]; intros b c; cbn; [reflexivity|]. rewrite IH. reflexivity. Qed.

Lemma join_app : forall s l1 l2, l1 <> [] -> l2 <> [] -> join s (l1 ++ l2) = (join s l1 ++ s ++ join s l2)%string.
Proof.
  intros s l1 l2 H1 H2. induction l1 as [|x t IH]; [contradiction|].
  destruct t as [|y t'].
  - cbn [app join]. destruct l2 as [|z t2]; [contradiction|]. reflexivity.
  - change ((x :: y :: t') ++ l2) with (x :: ((y :: t') ++ l2)).
    assert (E : forall l, l <> [] -> join s (x :: l) = (x ++ s ++ join s l)%string).
    { intros [|a l] Hl; [contradiction|]. reflexivity. }
    rewrite E by (cbn; discriminate). rewrite IH by discriminate.
    rewrite (E (y :: t')) by discriminate. rewrite !append_assoc'. reflexivity.
Qed.

Lemma qsum_plain_app : forall a b, (qsum_plain (a ++ b) == qsum_plain a + qsum_plain b)%Q.
Proof. induction a as [|x t IH]; intros b; cbn [app qsum_plain]; [ring|]. rewrite IH. ring. Qed.

Lemma qsum_plain_perm : forall a b, Permutation a b -> (qsum_plain a == qsum_plain b)%Q.
Proof.
  induction 1; cbn [qsum_plain].
  - reflexivity.
  - rewrite IHPermutation. reflexivity.
  - ring.
  - rewrite IHPermutation1. exact IHPermutation2.
Qed.

Lemma slist_eqb_eq : forall a b, slist_eqb a b = true <-> a = b.
Proof.
  induction a as [|x t IH]; intros [|y t']; cbn [slist_eqb]; split; try discriminate; try reflexivity.
  - intros H. apply andb_prop in H as [H1 H2]. apply String.eqb_eq in H1. apply IH in H2. congruence.
  - intros H. injection H as -> ->. rewrite String.eqb_refl. apply IH. reflexivity.
Qed.

Lemma fld_eqb_refl : forall a, fld_eqb a a = true.
Proof.
  intros [|q|s|l|b]; cbn; [reflexivity|apply Qeq_bool_iff; reflexivity|apply String.eqb_refl|apply slist_eqb_eq; reflexivity|
                           apply Bool.eqb_reflx].
Qed.
Lemma fld_eqb_sym : forall a b, fld_eqb a b = true -> fld_eqb b a = true.
Proof.
  intros [|q|s|l|b] [|q'|s'|l'|b']; cbn; try discriminate; try reflexivity; intros H.
  - apply Qeq_bool_iff. apply Qeq_bool_iff in H. symmetry. exact H.
  - apply String.eqb_eq in H. subst. apply String.eqb_refl.
  - apply slist_eqb_eq in H. subst. apply slist_eqb_eq. reflexivity.
  - apply Bool.eqb_prop in H. subst. apply Bool.eqb_reflx.
Qed.
Lemma fld_eqb_trans : forall a b c, fld_eqb a b = true -> fld_eqb b c = true -> fld_eqb a c = true.
Proof.
  intros [|q|s|l|b] [|q'|s'|l'|b'] [|q''|s''|l''|b'']; cbn; try discriminate; try reflexivity; intros H1 H2.
  - apply Qeq_bool_iff. apply Qeq_bool_iff in H1. apply Qeq_bool_iff in H2. rewrite H1. exact H2.
  - apply String.eqb_eq in H1. apply String.eqb_eq in H2. subst. apply String.eqb_refl.
  - apply slist_eqb_eq in H1. apply slist_eqb_eq in H2. subst. apply slist_eqb_eq. reflexivity.
  - apply Bool.eqb_prop in H1. apply Bool.eqb_prop in H2. subst. apply Bool.eqb_reflx.
Qed.
Lemma key_eqb_refl : forall a, key_eqb a a = true.
Proof. induction a as [|x t IH]; cbn [key_eqb]; [reflexivity|]. rewrite fld_eqb_refl, IH. reflexivity. Qed.
Lemma key_eqb_sym : forall a b, key_eqb a b = true -> key_eqb b a = true.
Proof.
  induction a as [|x t IH]; intros [|y t'] H; cbn [key_eqb] in *; try discriminate; [reflexivity|].
  apply andb_prop in H as [H1 H2]. rewrite (fld_eqb_sym _ _ H1), (IH _ H2). reflexivity.
Qed.
Lemma key_eqb_trans : forall a b c, key_eqb a b = true -> key_eqb b c = true -> key_eqb a c = true.
Proof.
  induction a as [|x t IH]; intros [|y t'] [|z t''] H1 H2; cbn [key_eqb] in *; try discriminate; [reflexivity|].
  apply andb_prop in H1 as [A1 A2]. apply andb_prop in H2 as [B1 B2].
  rewrite (fld_eqb_trans _ _ _ A1 B1), (IH _ _ A2 B2). reflexivity.
Qed.

Lemma by_tag_some : forall l t r, by_tag l t = Some r -> In r l /\ a_tag r = t.
Proof. intros l t r H. apply find_some in H as [H1 H2]. apply Nat.eqb_eq in H2. auto. Qed.

Lemma by_tag_in : forall l r, NoDup (map a_tag l) -> In r l -> by_tag l (a_tag r) = Some r.
Proof.
  induction l as [|x t IH]; intros r ND Hin; [destruct Hin|].
  cbn [map] in ND. inversion ND as [|? ? Hnot ND']; subst. unfold by_tag. cbn [find].
  destruct (Nat.eqb (a_tag x) (a_tag r)) eqn:E.
  - apply Nat.eqb_eq in E. destruct Hin as [->|Hin]; [reflexivity|].
    exfalso. apply Hnot. rewrite E. apply in_map. exact Hin.
  - destruct Hin as [->|Hin]; [rewrite Nat.eqb_refl in E; discriminate|]. apply IH; assumption.
Qed.

Lemma tags_in_members : forall l, Forall (fun r => hd_error (a_members r) = Some (a_tag r)) l ->
  forall t, In t (map a_tag l) -> In t (flat_map a_members l).
Proof.
  induction l as [|x l IH]; intros HF t Hin; [destruct Hin|].
  inversion HF as [|? ? Hx HF']; subst. cbn [map flat_map] in *. apply in_or_app.
  destruct Hin as [<-|Hin].
  - left. destruct (a_members x) as [|m ms]; [discriminate|]. injection Hx as ->. left. reflexivity.
  - right. apply IH; assumption.
Qed.

Lemma nodup_app_r : forall A (a b : list A), NoDup (a ++ b) -> NoDup b.
Proof. induction a as [|x a IH]; intros b H; [exact H|]. cbn [app] in H. inversion H; subst. apply IH. assumption. Qed.

Lemma tags_nodup : forall l, Forall (fun r => hd_error (a_members r) = Some (a_tag r)) l ->
  NoDup (flat_map a_members l) -> NoDup (map a_tag l).
Proof.
  induction l as [|x l IH]; intros HF ND; [constructor|].
  inversion HF as [|? ? Hx HF']; subst. cbn [map flat_map] in *. constructor.
  - intros Hin. apply (tags_in_members l HF') in Hin.
    destruct (a_members x) as [|m ms]; [discriminate|]. injection Hx as ->.
    cbn [app] in ND. inversion ND as [|? ? Hnot _]; subst. apply Hnot. apply in_or_app. right. exact Hin.
  - apply IH; [exact HF'|]. apply nodup_app_r in ND. exact ND.
Qed.

Lemma filter_keep_all : forall (l : list areq) t, ~ In t (map a_tag l) ->
  filter (fun r => negb (Nat.eqb (a_tag r) t)) l = l.
Proof.
  induction l as [|x l IH]; intros t Hn; [reflexivity|]. cbn [map In] in Hn. cbn [filter].
  destruct (Nat.eqb (a_tag x) t) eqn:E.
  - apply Nat.eqb_eq in E. exfalso. apply Hn. left. exact E.
  - cbn [negb]. rewrite IH; [reflexivity|]. intros H. apply Hn. right. exact H.
Qed.

Lemma perm_remove : forall l req, NoDup (map a_tag l) -> In req l ->
  Permutation (flat_map a_members l)
              (a_members req ++ flat_map a_members (filter (fun r => negb (Nat.eqb (a_tag r) (a_tag req))) l)).
Proof.
  induction l as [|x l IH]; intros req ND Hin; [destruct Hin|].
  cbn [map] in ND. inversion ND as [|? ? Hnot ND']; subst. cbn [flat_map filter].
  destruct Hin as [->|Hin].
  - rewrite Nat.eqb_refl. cbn [negb]. rewrite filter_keep_all by exact Hnot. reflexivity.
  - destruct (Nat.eqb (a_tag x) (a_tag req)) eqn:E.
    + apply Nat.eqb_eq in E. exfalso. apply Hnot. rewrite E. apply in_map. exact Hin.
    + cbn [negb flat_map]. rewrite (IH req ND' Hin) at 1.
      rewrite !app_assoc. apply Permutation_app_tail. apply Permutation_app_comm.
Qed.

Lemma map_upd_id : forall (l : list areq) t nr, ~ In t (map a_tag l) ->
  map (fun r => if Nat.eqb (a_tag r) t then nr else r) l = l.
Proof.
  induction l as [|x l IH]; intros t nr Hn; [reflexivity|]. cbn [map In] in *.
  destruct (Nat.eqb (a_tag x) t) eqn:E.
  - apply Nat.eqb_eq in E. exfalso. apply Hn. left. exact E.
  - rewrite IH; [reflexivity|]. intros H. apply Hn. right. exact H.
Qed.

Lemma perm_update : forall l this_r nr extra, NoDup (map a_tag l) -> In this_r l ->
  a_members nr = a_members this_r ++ extra ->
  Permutation (flat_map a_members (map (fun r => if Nat.eqb (a_tag r) (a_tag this_r) then nr else r) l))
              (flat_map a_members l ++ extra).
Proof.
  induction l as [|x l IH]; intros this_r nr extra ND Hin Hm; [destruct Hin|].
  cbn [map] in ND. inversion ND as [|? ? Hnot ND']; subst. cbn [map flat_map].
  destruct Hin as [->|Hin].
  - rewrite Nat.eqb_refl. rewrite map_upd_id by exact Hnot. rewrite Hm.
    rewrite <- !app_assoc. apply Permutation_app_head. apply Permutation_app_comm.
  - destruct (Nat.eqb (a_tag x) (a_tag this_r)) eqn:E.
    + apply Nat.eqb_eq in E. exfalso. apply Hnot. rewrite E. apply in_map. exact Hin.
    + rewrite (IH this_r nr extra ND' Hin Hm). rewrite app_assoc. reflexivity.
Qed.

Lemma nodup_tags_filter : forall (l : list areq) p, NoDup (map a_tag l) -> NoDup (map a_tag (filter p l)).
Proof.
  induction l as [|x l IH]; intros p ND; [constructor|]. cbn [map] in ND. inversion ND as [|? ? Hnot ND']; subst.
  cbn [filter]. destruct (p x); [|apply IH; exact ND']. cbn [map]. constructor; [|apply IH; exact ND'].
  intros H. apply Hnot. apply in_map_iff in H as (y & E & Hy). apply filter_In in Hy as [Hy _].
  rewrite <- E. apply in_map. exact Hy.
Qed.

(* ------------------------------------------------------------------ one absorption keeps the invariant *)
Lemma merge_ok : forall reqs this_r req disj,
  joined_ok reqs this_r -> joined_ok reqs req -> can_absorb req disj this_r = true ->
  joined_ok reqs (merge this_r req).
Proof.
  intros reqs this_r req disj [h1 i1 b1 n1 m1 k1 d1 o1 s1 f1] [h2 i2 b2 n2 m2 k2 d2 o2 s2 f2] CA.
  unfold can_absorb in CA. apply andb_prop in CA as [CA MS]. apply andb_prop in CA as [_ CR].
  unfold compare_reqs in CR. apply andb_prop in CR as [KE _].
  assert (NE1 : a_members this_r <> []) by (intros E; rewrite E in h1; discriminate).
  assert (NE2 : a_members req <> []) by (intros E; rewrite E in h2; discriminate).
  constructor; cbn [merge a_tag a_id a_members a_key a_mode_set a_bw a_N a_M a_bidir].
  - destruct (a_members this_r); [contradiction|]. exact h1.
  - rewrite map_app, join_app; [rewrite <- i1, <- i2; reflexivity| |];
      intros E; apply map_eq_nil in E; contradiction.
  - rewrite map_app, qsum_plain_app, <- b1, <- b2. reflexivity.
  - rewrite flat_map_app, <- n1, <- n2. reflexivity.
  - rewrite flat_map_app, <- m1, <- m2. reflexivity.
  - exact k1.
  - exact d1.
  - exact o1.
  - apply Forall_app. split; [exact s1|].
    eapply Forall_impl; [|exact s2]. cbn beta. intros t Ht.
    eapply key_eqb_trans; [exact Ht|exact KE].
  - intros _. exact MS.
Qed.

Lemma agg_step_inv : forall reqs local disj t local' disj',
  NoDup (map a_tag reqs) -> Inv reqs local -> agg_step (local, disj) t = (local', disj') -> Inv reqs local'.
Proof.
  intros reqs local disj t local' disj' NDr [P F] H. unfold agg_step in H.
  destruct (find (fun r => Nat.eqb (a_tag r) t) local) as [req|] eqn:Freq; [|injection H as <- <-; split; assumption].
  destruct (find (can_absorb req disj) local) as [this_r|] eqn:Fthis; [|injection H as <- <-; split; assumption].
  injection H as <- _.
  apply by_tag_some in Freq as [Ireq Treq]. apply find_some in Fthis as [Ithis CA].
  assert (HH : Forall (fun r => hd_error (a_members r) = Some (a_tag r)) local).
  { eapply Forall_impl; [|exact F]. intros r [h _ _ _ _ _ _ _ _ _]. exact h. }
  assert (NDm : NoDup (flat_map a_members local)).
  { eapply Permutation_NoDup; [symmetry; exact P|exact NDr]. }
  assert (NDt : NoDup (map a_tag local)) by (apply tags_nodup; assumption).
  rewrite Forall_forall in F.
  assert (Jreq := F _ Ireq). assert (Jthis := F _ Ithis).
  assert (Tne : a_tag this_r <> t).
  { intros E. assert (this_r = req).
    { pose proof (by_tag_in local this_r NDt Ithis) as A. pose proof (by_tag_in local req NDt Ireq) as B.
      rewrite E, <- Treq in A. rewrite A in B. injection B as ->. reflexivity. }
    subst this_r. unfold can_absorb in CA. rewrite String.eqb_refl in CA. discriminate. }
  set (fl := filter (fun r => negb (Nat.eqb (a_tag r) t)) local).
  assert (Ithis' : In this_r fl).
  { apply filter_In. split; [exact Ithis|]. apply Nat.eqb_neq in Tne. rewrite Tne. reflexivity. }
  split.
  - rewrite (perm_update fl this_r (merge this_r req) (a_members req)
               (nodup_tags_filter _ _ NDt) Ithis' eq_refl).
    rewrite <- P. rewrite (perm_remove local req NDt Ireq). rewrite Treq. fold fl. apply Permutation_app_comm.
  - apply Forall_forall. intros r Hr. apply in_map_iff in Hr as (r0 & E & Hr0).
    apply filter_In in Hr0 as [Hr0 _].
    destruct (Nat.eqb (a_tag r0) (a_tag this_r)); subst r; [|apply F; exact Hr0].
    eapply merge_ok; eassumption.
Qed.

Lemma fold_agg_inv : forall reqs tags local disj local' disj',
  NoDup (map a_tag reqs) -> Inv reqs local ->
  fold_left agg_step tags (local, disj) = (local', disj') -> Inv reqs local'.
Proof.
  intros reqs tags. induction tags as [|t ts IH]; intros local disj local' disj' ND I H; cbn [fold_left] in H.
  - injection H as <- _. exact I.
  - destruct (agg_step (local, disj) t) as [l1 d1] eqn:S.
    eapply IH; [exact ND| |exact H]. eapply agg_step_inv; eassumption.
Qed.

(* the input of requests_aggregation: distinct objects, each standing for itself *)
Definition fresh (reqs : list areq) : Prop :=
  NoDup (map a_tag reqs) /\ Forall (fun r => a_members r = [a_tag r]) reqs.

Lemma inv_init : forall reqs, fresh reqs -> Inv reqs reqs.
Proof.
  intros reqs [ND FM]. split.
  - assert (E : flat_map a_members reqs = map a_tag reqs).
    { clear ND. induction reqs as [|x l IH]; [reflexivity|]. inversion FM as [|? ? Hx FM']; subst.
      cbn [flat_map map]. rewrite Hx, IH by exact FM'. reflexivity. }
    rewrite E. reflexivity.
  - rewrite Forall_forall in *. intros r Hr. specialize (FM r Hr).
    assert (B : by_tag reqs (a_tag r) = Some r) by (apply by_tag_in; assumption).
    constructor; rewrite ?FM; cbn [hd_error map flat_map join qsum_plain length];
      unfold id_of, bw_of, N_of, M_of, key_of, bidir_of, mode_of, oget; rewrite ?B; try reflexivity.
    + ring.
    + rewrite app_nil_r. reflexivity.
    + rewrite app_nil_r. reflexivity.
    + constructor; [|constructor]. rewrite B. apply key_eqb_refl.
    + intros H. lia.
Qed.

(* ================================================================== the theorem *)
Theorem aggregation_spec : forall reqs disj out disj',
  fresh reqs -> requests_aggregation reqs disj = (out, disj') ->
  (* every original request is a member of exactly one reported request *)
  Permutation (flat_map a_members out) (map a_tag reqs) /\
  (* each reported request is the join of its members: id, bandwidth, N, M; members agree on the compared fields *)
  Forall (joined_ok reqs) out /\
  (* total requested bandwidth is preserved *)
  (qsum_plain (map a_bw out) == qsum_plain (map a_bw reqs))%Q.
Proof.
  intros reqs disj out disj' FR H. unfold requests_aggregation in H.
  assert (I : Inv reqs out) by (eapply fold_agg_inv; [apply FR|apply inv_init; exact FR|exact H]).
  destruct I as [P F]. split; [exact P|]. split; [exact F|].
  assert (S1 : (qsum_plain (map a_bw out) == qsum_plain (map (bw_of reqs) (flat_map a_members out)))%Q).
  { clear P H. induction out as [|x l IH]; [reflexivity|]. inversion F as [|? ? Hx F']; subst.
    cbn [map flat_map qsum_plain]. rewrite map_app, qsum_plain_app.
    apply Qplus_comp; [exact (j_bw _ _ Hx)|apply IH; exact F']. }
  rewrite S1. rewrite (qsum_plain_perm _ _ (Permutation_map (bw_of reqs) P)).
  destruct FR as [ND _]. rewrite map_map.
  assert (E : forall l, (forall r, In r l -> In r reqs) -> map (fun x => bw_of reqs (a_tag x)) l = map a_bw l).
  { induction l as [|x l IH]; intros Hl; [reflexivity|]. cbn [map]. rewrite IH by (intros r Hr; apply Hl; right; exact Hr).
    unfold bw_of, oget. rewrite (by_tag_in reqs x ND (Hl x (or_introl eq_refl))). reflexivity. }
  rewrite E by auto. reflexivity.
Qed.

(* "exactly one": with distinct input objects no original occurs twice among the members *)
Corollary aggregation_once : forall reqs disj out disj',
  fresh reqs -> requests_aggregation reqs disj = (out, disj') ->
  NoDup (flat_map a_members out) /\ forall r, In r reqs -> In (a_tag r) (flat_map a_members out).
Proof.
  intros reqs disj out disj' FR H. destruct (aggregation_spec _ _ _ _ FR H) as (P & _ & _). split.
  - eapply Permutation_NoDup; [symmetry; exact P|apply FR].
  - intros r Hr. eapply Permutation_in; [symmetry; exact P|]. apply in_map. exact Hr.
Qed.

(* ------------------------------------------------------------------ `bidir` is one of the compared fields *)
Lemma key_eqb_nth : forall a b n x, key_eqb a b = true -> nth_error a n = Some x ->
  exists y, nth_error b n = Some y /\ fld_eqb x y = true.
Proof.
  induction a as [|u t IH]; intros [|v t'] n x H Hn; cbn [key_eqb] in H; try discriminate.
  - destruct n; discriminate Hn.
  - apply andb_prop in H as [H1 H2]. destruct n as [|n]; cbn [nth_error] in *.
    + injection Hn as <-. eauto.
    + eapply IH; eassumption.
Qed.

(* the key of every input request carries its bidir flag at position 2 (third field of compare_reqs) *)
Definition key_has_bidir (r : areq) : Prop := nth_error (a_key r) 2 = Some (FBool (a_bidir r)).

Theorem aggregation_bidir : forall reqs disj out disj',
  fresh reqs -> Forall key_has_bidir reqs -> requests_aggregation reqs disj = (out, disj') ->
  forall r t, In r out -> In t (a_members r) -> bidir_of reqs t = a_bidir r.
Proof.
  intros reqs disj out disj' FR KB H r t Hr Ht.
  destruct (aggregation_spec _ _ _ _ FR H) as (P & F & _).
  rewrite Forall_forall in F, KB. pose proof (F r Hr) as J.
  destruct FR as [ND _].
  assert (InTags : forall u, In u (a_members r) -> exists ru, by_tag reqs u = Some ru /\ In ru reqs /\ a_tag ru = u).
  { intros u Hu. assert (Hin : In u (map a_tag reqs)).
    { eapply Permutation_in; [exact P|]. apply in_flat_map. exists r. split; assumption. }
    apply in_map_iff in Hin as (ru & E & Hru). exists ru. subst u. split; [apply by_tag_in; assumption|auto]. }
  assert (Hhead : In (a_tag r) (a_members r)).
  { pose proof (j_head _ _ J) as Hh. destruct (a_members r) as [|x xs]; [discriminate|]. injection Hh as ->. left. reflexivity. }
  destruct (InTags t Ht) as (rt & Bt & Irt & Tt). destruct (InTags _ Hhead) as (r0 & B0 & Ir0 & T0).
  pose proof (j_same _ _ J) as SM. rewrite Forall_forall in SM. specialize (SM t Ht).
  rewrite (j_key _ _ J) in SM. rewrite (j_bidir _ _ J).
  unfold key_of, bidir_of, oget in *. rewrite Bt, B0 in *.
  destruct (key_eqb_nth _ _ 2%nat _ SM (KB rt Irt)) as (y & Ny & Ey).
  rewrite (KB r0 Ir0) in Ny. injection Ny as <-. cbn [fld_eqb] in Ey. apply Bool.eqb_prop in Ey. exact Ey.
Qed.
