(* C20 — lemmas about Model/Sheet.v, part 7: the statements about `convert` itself (accepted workbooks), the rejected
   ones, the witnesses of the three regions where convert.py misbehaves, and the service sheet. *)
From Coq Require Import QArith Qround Lia.
From Verif Require Import Prelude Model.Sheet Proofs.Sheet Proofs.Sheet2 Proofs.Sheet3 Proofs.Sheet4 Proofs.Sheet5
                          Proofs.Sheet6.
Open Scope Z_scope.

Definition nodes_of (w : rows) : list node := map mk_node (w_nodes w).
Definition links_of_w (w : rows) : list link := map mk_link (w_links w).
Definition eqpts_of_w (w : rows) : list eqpt := map mk_eqpt (w_eqpts w).
(* the node list after the ILA -> ROADM correction *)
Definition final_nodes (w : rows) : list node := map (correct_type (links_of_w w)) (nodes_of w).

(* Hypotheses beyond the sanity rules: well-formed site names (none of ' ', ')', '|') and no Eqpt row on a FUSED
   site.  The latter is a region where convert.py does not reject and does not convert properly either (open
   finding, see eqpt_on_fused_refuted below). *)
Record wellformed (w : rows) : Prop := mkWf {
  wf_names : forall c, In c (cities (nodes_of w)) -> name_ok c = true;
  wf_fused : forall n, In n (nodes_of w) -> n_type n = TFused -> eqpts_of (n_city n) (eqpts_of_w w) = []
}.

Lemma convert_good : forall w n, convert w = Ok n -> wellformed w ->
  good (final_nodes w) (links_of_w w) (eqpts_of_w w) /\
  exists re ef wf ee we, built (final_nodes w) (links_of_w w) (eqpts_of_w w) (w_roadms w) n re ef wf ee we.
Proof.
  intros w n H [W1 W3]. destruct (convert_ok_sane w n H) as [S B].
  pose proof (sane_good _ _ _ S W1 W3) as G. split; [exact G|].
  apply build_inv; [apply (g_cities _ _ _ G) | apply (g_links _ _ _ G) | apply (g_loops _ _ _ G) | exact B].
Qed.

Lemma built_conns : forall ns ls es rs n re ef wf ee we, built ns ls es rs n re ef wf ee we -> connections n = conns ns ls es.
Proof. intros ns ls es rs n re ef wf ee we B. destruct B as [_ _ _ _ _ _ B6]. exact B6. Qed.

Definition uids (n : net) : list uid := map el_uid (elements n).
Definition names (n : net) : list string := map render (uids n).

(* ------------------------------------------------------------------ sheet_structure *)
Theorem sheet_structure : forall w n, convert w = Ok n -> wellformed w ->
  let ns := final_nodes w in let ls := links_of_w w in let es := eqpts_of_w w in
  (* which elements exist: one transceiver + one ROADM per ROADM site, two fused per FUSED site, one east and one
     west fibre per link, two amplifiers per ILA site without Eqpt row, an east and a west element per Eqpt row *)
  uids n = uid_list ns ls es /\
  (* every fibre carries the values of its side of the Links row *)
  (forall l, In l ls -> exists e1 e2, In e1 (elements n) /\ In e2 (elements n) /\
     el_uid e1 = UFiber (l_from l) (l_to l) (s_cable (l_east l)) /\ el_c e1 = fiber_content (l_east l) /\
     el_uid e2 = UFiber (l_to l) (l_from l) (s_cable (l_west l)) /\ el_c e2 = fiber_content (l_west l)) /\
  (* names are unique *)
  NoDup (names n) /\
  (* all connection end points exist *)
  (forall a b, In (a, b) (connections n) -> In a (uids n) /\ In b (uids n)) /\
  (* every fibre / amplifier / fused element has exactly one successor and one predecessor *)
  (forall u, In u (uids n) -> is_line u -> one_succ (connections n) u /\ one_pred (connections n) u).
Proof.
  intros w n H W ns ls es. destruct (convert_good w n H W) as [G [re [ef [wf [ee [we B]]]]]].
  fold ns ls es in G, B. pose proof (built_uids _ _ _ _ _ _ _ _ _ _ B) as U. pose proof (built_conns _ _ _ _ _ _ _ _ _ _ B) as C.
  unfold names, uids. rewrite U, C. split; [reflexivity|]. split; [|split; [|split]].
  - intros l Il. destruct B as [_ B1 B2 _ _ B5 _].
    destruct (Forall2_In_l _ _ _ l B1 Il) as [e1 [I1 [U1 C1]]]. destruct (Forall2_In_l _ _ _ l B2 Il) as [e2 [I2 [U2 C2]]].
    exists e1, e2. rewrite B5. split; [|split; [|auto]].
    + do 4 (apply in_or_app; right). apply in_or_app. left. exact I1.
    + do 5 (apply in_or_app; right). apply in_or_app. left. exact I2.
  - apply rendered_NoDup. exact G.
  - intros a b Hab. apply endpoints_exist; assumption.
  - intros u Hu L. apply line_degree; assumption.
Qed.

(* the same with names as strings: a line element's name occurs as the source of connections to exactly one name *)
Definition named_conns (n : net) : list (string * string) :=
  map (fun c => (render (fst c), render (snd c))) (connections n).
Theorem line_degree_names : forall w n, convert w = Ok n -> wellformed w ->
  forall u, In u (uids n) -> is_line u ->
  (exists v, In (render u, v) (named_conns n) /\ forall v', In (render u, v') (named_conns n) -> v' = v) /\
  (exists p, In (p, render u) (named_conns n) /\ forall p', In (p', render u) (named_conns n) -> p' = p).
Proof.
  intros w n H W u Hu L. destruct (sheet_structure w n H W) as [U [_ [_ [E D]]]].
  destruct (convert_good w n H W) as [G _]. destruct (D u Hu L) as [[v [V1 V2]] [p [P1 P2]]].
  assert (Nm : forall x, In x (uids n) -> uid_names_ok x) by (intros x Hx; rewrite U in Hx; eapply uid_list_names; eassumption).
  unfold named_conns. split.
  - exists (render v). split; [apply in_map_iff; exists (u, v); split; [reflexivity | exact V1]|].
    intros v' Hv. apply in_map_iff in Hv. destruct Hv as [[x y] [E1 I1]]. cbn [fst snd] in E1. inversion E1.
    destruct (E x y I1) as [Hx _]. assert (x = u) by (apply render_inj; auto). subst x. rewrite (V2 y I1). reflexivity.
  - exists (render p). split; [apply in_map_iff; exists (p, u); split; [reflexivity | exact P1]|].
    intros p' Hp. apply in_map_iff in Hp. destruct Hp as [[x y] [E1 I1]]. cbn [fst snd] in E1. inversion E1.
    destruct (E x y I1) as [_ Hy]. assert (y = u) by (apply render_inj; auto). subst y. rewrite (P2 x I1). reflexivity.
Qed.

(* ------------------------------------------------------------------ eqpt_facing *)
Theorem eqpt_facing : forall w n, convert w = Ok n -> wellformed w ->
  forall e, In e (eqpts_of_w w) ->
  (* the east settings of row (A, Z) are those of the element that feeds the fibre A -> Z *)
  (exists el k, In el (elements n) /\ el_uid el = UEdfaTo East (e_from e) (e_to e) /\ el_c el = amp_content (e_east e) /\
                In (UEdfaTo East (e_from e) (e_to e), UFiber (e_from e) (e_to e) k) (connections n) /\
                In (UFiber (e_from e) (e_to e) k) (uids n)) /\
  (* the west settings those of the element fed by the fibre Z -> A *)
  (exists el k, In el (elements n) /\ el_uid el = UEdfaTo West (e_from e) (e_to e) /\ el_c el = amp_content (e_west e) /\
                In (UFiber (e_to e) (e_from e) k, UEdfaTo West (e_from e) (e_to e)) (connections n) /\
                In (UFiber (e_to e) (e_from e) k) (uids n)).
Proof.
  intros w n H W e Ie. destruct (convert_good w n H W) as [G [re [ef [wf [ee [we B]]]]]].
  pose proof (built_uids _ _ _ _ _ _ _ _ _ _ B) as U. pose proof (built_conns _ _ _ _ _ _ _ _ _ _ B) as C.
  destruct B as [_ _ _ B3 B4 B5 _]. unfold uids. rewrite U, C. split.
  - destruct (Forall2_In_l _ _ _ e B3 Ie) as [el [I1 [U1 C1]]].
    destruct (eqpt_chain _ _ _ e East G Ie) as [ch [Hc [M [k K]]]].
    assert (Hconn : In (UEdfaTo East (e_from e) (e_to e), UFiber (e_from e) (e_to e) k)
                       (conns (final_nodes w) (links_of_w w) (eqpts_of_w w))).
    { apply conns_In. left. exists ch. split; [exact Hc|]. apply connect3_In. rewrite M. right. split; [reflexivity | symmetry; exact K]. }
    exists el, k. rewrite B5. split; [do 8 (apply in_or_app; right); apply in_or_app; left; exact I1|].
    split; [exact U1|]. split; [exact C1|]. split; [exact Hconn|]. apply (endpoints_exist _ _ _ _ _ G Hconn).
  - destruct (Forall2_In_l _ _ _ e B4 Ie) as [el [I1 [U1 C1]]].
    destruct (eqpt_chain _ _ _ e West G Ie) as [ch [Hc [M [k K]]]].
    assert (Hconn : In (UFiber (e_to e) (e_from e) k, UEdfaTo West (e_from e) (e_to e))
                       (conns (final_nodes w) (links_of_w w) (eqpts_of_w w))).
    { apply conns_In. left. exists ch. split; [exact Hc|]. apply connect3_In. rewrite M. left. split; [symmetry; exact K | reflexivity]. }
    exists el, k. rewrite B5. split; [do 9 (apply in_or_app; right); exact I1|].
    split; [exact U1|]. split; [exact C1|]. split; [exact Hconn|]. apply (endpoints_exist _ _ _ _ _ G Hconn).
Qed.

(* ------------------------------------------------------------------ sanity_rejects *)
Inductive violation (ns : list node) (ls : list link) (es : list eqpt) : Prop :=
| V_duplicate_city : ~ NoDup (cities ns) -> violation ns ls es
| V_link_unknown_node (l : link) : In l ls -> ~ In (l_from l) (cities ns) \/ ~ In (l_to l) (cities ns) -> violation ns ls es
| V_self_loop_link (l : link) : In l ls -> l_from l = l_to l -> violation ns ls es
| V_fused_degree (n : node) : In n ns -> n_type n = TFused -> length (links_of (n_city n) ls) <> 2%nat -> violation ns ls es
| V_duplicate_link (l1 l2 l3 : list link) (a b : link) :
    ls = l1 ++ a :: l2 ++ b :: l3 -> link_eqv a b = true -> violation ns ls es    (* same or reversed end points *)
| V_unreferenced_node (n : node) : In n ns -> (forall l, In l ls -> ~ incident (n_city n) l) -> violation ns ls es
| V_eqpt_unknown_node (e : eqpt) : In e es -> ~ In (e_from e) (cities ns) \/ ~ In (e_to e) (cities ns) -> violation ns ls es
| V_eqpt_unknown_link (e : eqpt) : In e es ->
    (forall l, In l ls -> ~ (l_from l = e_from e /\ l_to l = e_to e) /\ ~ (l_to l = e_from e /\ l_from l = e_to e)) ->
    (forall c, In c (cities ns) -> name_ok c = true) -> In (e_from e) (cities ns) ->
    (forall l, In l ls -> In (l_from l) (cities ns) /\ In (l_to l) (cities ns)) -> violation ns ls es
| V_duplicate_eqpt (e1 e2 e3 : list eqpt) (a b : eqpt) :
    es = e1 ++ a :: e2 ++ b :: e3 -> e_from a = e_from b -> e_to a = e_to b -> violation ns ls es
| V_duplicate_ila (n : node) (a b : eqpt) : In n ns -> n_type n = TIla -> a <> b -> In a es -> In b es ->
    e_from a = n_city n -> e_from b = n_city n -> violation ns ls es.

Lemma dup_links_app : forall l1 a l2 b l3, link_eqv a b = true -> dup_links (l1 ++ a :: l2 ++ b :: l3) = true.
Proof.
  induction l1 as [|x t IH]; intros a l2 b l3 H; cbn [app dup_links].
  - apply orb_true_iff. left. apply existsb_exists. exists b. split; [apply in_or_app; right; left; reflexivity | exact H].
  - apply orb_true_iff. right. apply IH. exact H.
Qed.
Lemma NoDup_app_mid : forall {A} (l1 : list A) a l2 b l3, a = b -> ~ NoDup (l1 ++ a :: l2 ++ b :: l3).
Proof.
  intros A l1 a l2 b l3 E N. subst b. apply NoDup_remove_2 in N. apply N.
  apply in_or_app. right. apply in_or_app. right. left. reflexivity.
Qed.
Lemma two_in_filter : forall {A} (p : A -> bool) l a b, a <> b -> In a l -> In b l -> p a = true -> p b = true ->
  (2 <= length (filter p l))%nat.
Proof.
  intros A p. induction l as [|x t IH]; intros a b N Ia Ib Pa Pb; [destruct Ia|].
  cbn [filter]. destruct Ia as [->|Ia], Ib as [->|Ib].
  - congruence.
  - rewrite Pa. cbn [length]. assert (In b (filter p t)) by (apply filter_In; auto).
    destruct (filter p t); [destruct H | cbn [length]; lia].
  - rewrite Pb. cbn [length]. assert (In a (filter p t)) by (apply filter_In; auto).
    destruct (filter p t); [destruct H | cbn [length]; lia].
  - specialize (IH a b N Ia Ib Pa Pb). destruct (p x); cbn [length]; lia.
Qed.

Lemma violation_not_sane : forall ns ls es, violation ns ls es -> ~ sane ns ls es.
Proof.
  intros ns ls es V [S0 S1 S2 S3 S4 S5 S6 S7 S8 S9]. destruct V as [H|l I H|l I H|n I T H|l1 l2 l3 a b E H|n I H|e I H|e I H Hn Ha Hl|e1 e2 e3 a b E Hf Ht|n a b I T N Ia Ib Fa Fb].
  - contradiction.
  - destruct (S2 l I). tauto.
  - exact (S0 l I H).
  - exact (H (S9 n I T)).
  - apply dup_links_spec in S3. subst ls. rewrite (dup_links_app _ _ _ _ _ H) in S3. discriminate.
  - destruct (S4 n I) as [l [Il Hi]]. exact (H l Il Hi).
  - destruct (S5 e I). tauto.
  - destruct (S6 e I) as [K _].
    destruct (possible_links_In ls (e_from e) (e_to e)) as [l [Il Hc]]; [| apply Hn; exact Ha | exact K |].
    + intros l Il. destruct (Hl l Il). split; apply Hn; assumption.
    + destruct (H l Il) as [H1 H2]. tauto.
  - subst es. rewrite map_app in S7. cbn [map] in S7. rewrite map_app in S7. cbn [map] in S7.
    revert S7. apply NoDup_app_mid. rewrite Hf, Ht. reflexivity.
  - pose proof (S8 n I T) as Hle.
    pose proof (two_in_filter (fun e => seqb (e_from e) (n_city n)) es a b N Ia Ib) as H2.
    unfold eqpts_of in Hle. cbv beta in H2. rewrite Fa, Fb, seqb_refl in H2. specialize (H2 eq_refl eq_refl). lia.
Qed.

(* duplicate / dangling / inconsistent rows: an error naming one of the ten rules, never a network *)
Theorem sanity_rejects : forall w, violation (nodes_of w) (links_of_w w) (eqpts_of_w w) ->
  (exists r, In r rules /\ convert w = Err (topo_err r)) /\ forall n, convert w <> Ok n.
Proof.
  intros w V. pose proof (violation_not_sane _ _ _ V) as N.
  destruct (convert_rejects w N) as [r [Hr He]]. split; [exists r; auto|]. intros n H. rewrite He in H. discriminate.
Qed.
(* conversely an accepted workbook satisfies every rule *)
Theorem accepted_is_sane : forall w n, convert w = Ok n -> sane (nodes_of w) (links_of_w w) (eqpts_of_w w).
Proof. intros w n H. exact (proj1 (convert_ok_sane w n H)). Qed.

(* ------------------------------------------------------------------ where convert.py is wrong: witness *)
Definition blank_side : side_row := mkSideRow None None None None None None None.
Definition lk (a z : string) : link_row := mkLinkRow a z (mkSideRow (Some 50%Q) None None None None None None) blank_side.
Definition nd (c t : string) : node_row := mkNodeRow c None None None (Some t) None None.
Definition blank_amp : amp_row := mkAmpRow None None None None None None.

(* an Eqpt row on a FUSED site is converted into two elements that nothing is connected to *)
Definition w_eqpt_on_fused : rows :=
  mkRows [nd "A" "ROADM"; nd "B" "ROADM"; nd "F" "FUSED"] [lk "A" "F"; lk "F" "B"]
         [mkEqptRow "F" "B" (mkAmpRow (Some "std_low_gain"%string) (Some 12%Q) None None None None) blank_amp] [].
Lemma eqpt_on_fused_refuted : exists n, convert w_eqpt_on_fused = Ok n /\
  In (UEdfaTo East "F" "B") (uids n) /\
  forall a b, In (a, b) (connections n) -> a <> UEdfaTo East "F" "B" /\ b <> UEdfaTo East "F" "B".
Proof.
  eexists. split; [vm_compute; reflexivity|]. split.
  - vm_compute. tauto.
  - intros a b H. vm_compute in H.
    repeat (destruct H as [H|H]; [inversion H; split; discriminate|]). destruct H.
Qed.

(* ------------------------------------------------------------------ the service sheet *)
Lemma giga_val : giga == 1000000000.
Proof. reflexivity. Qed.

Theorem request_element_spec : forall equipment bidir r q, request_element equipment bidir r = Ok q ->
  exists trx modes sp,
    (* the transceiver type is known, the mode (if given) is one of its modes, the spacing is given *)
    id_str (q_trx r) = Some trx /\ assoc trx equipment = Some modes /\ r_trx q = trx /\
    r_mode q = id_str (q_mode r) /\ (forall m, r_mode q = Some m -> In m modes) /\
    q_spacing r = Some sp /\ ~ sp == 0 /\
    (* units: GHz -> Hz, Gbit/s -> bit/s, dBm kept (converted to W by db2lin), channel count truncated *)
    r_spacing_hz q == sp * 1000000000 /\
    r_bw_bps q == match q_bw r with Some b => b * 1000000000 | None => 0 end /\
    r_power_dbm q = q_power r /\ r_nbch q = option_map qtrunc (q_nbch r) /\
    (* end points are the sites' transceivers *)
    r_src q = ("trx " +s pystr (ostr_o (q_src r))) /\ r_dst q = ("trx " +s pystr (ostr_o (q_dst r))) /\
    (* route list, strictness, disjunction list *)
    r_nodes q = (if seqb (ostr "" (q_path r)) "" then [] else split bar (ostr "" (q_path r))) /\
    r_loose q = is_loose_cell (q_loose r) /\
    r_disj q = (match id_str (q_disj r) with Some s => split bar s | None => [] end) /\
    r_id q = id_str (q_id r) /\ r_bidir q = bidir.
Proof.
  intros equipment bidir r q H. unfold request_element in H.
  destruct (id_str (q_trx r)) as [trx|] eqn:T; [|discriminate].
  destruct (assoc trx equipment) as [modes|] eqn:A; cbn [bind] in H; [|discriminate].
  destruct (match id_str (q_mode r) with
            | Some m => if smem m (snd (trx, modes)) then Ok (Some m) else Err "ServiceError:unknown_mode"%string
            | None => Ok None end) as [mode|] eqn:M; cbn [bind] in H; [|discriminate].
  destruct (q_spacing r) as [sp|] eqn:S; [|discriminate].
  destruct (Qeq_bool sp 0) eqn:Z; cbn [bind] in H; [discriminate|].
  inversion H; subst q; clear H. cbn [r_trx r_mode r_spacing_hz r_bw_bps r_power_dbm r_nbch r_src r_dst r_nodes r_loose r_disj r_id r_bidir fst snd].
  exists trx, modes, sp. repeat split; try reflexivity; try assumption.
  - destruct (id_str (q_mode r)) as [m|]; [|inversion M; reflexivity].
    cbn [snd] in M. destruct (smem m modes); inversion M. reflexivity.
  - intros m Hm. subst mode. destruct (id_str (q_mode r)) as [m'|]; [|discriminate].
    cbn [snd] in M. destruct (smem m' modes) eqn:Sm; [|discriminate]. inversion M; subst. apply smem_In. exact Sm.
  - intros E. apply Qeq_bool_neq in Z. contradiction.
  - change (Qred (sp * giga) == sp * 1000000000). rewrite Qred_correct, giga_val. reflexivity.
  - destruct (q_bw r) as [b|]; [|reflexivity].
    change (Qred (b * giga) == b * 1000000000). rewrite Qred_correct, giga_val. reflexivity.
  - destruct (id_str (q_disj r)) as [s|] eqn:D; cbn [odef].
    + destruct (seqb s "") eqn:E; [|reflexivity]. apply seqb_eq in E. subst s.
      (* id_str never returns the empty string *)
      unfold id_str in D. destruct (q_disj r) as [|s|x]; try discriminate.
      * destruct (seqb s "") eqn:E'; [discriminate|]. inversion D; subst. rewrite seqb_refl in E'. discriminate.
      * exfalso. inversion D as [D']. unfold zs in D'.
        destruct (Z.to_int (qtrunc x)) as [d|d]; cbn in D'; [destruct d | ]; discriminate.
    + reflexivity.
Qed.

(* one synchronisation vector per row whose 'disjoint from' cell is filled: [request id] + the ids named *)
Theorem pathsync_spec : forall q,
  (r_disj q = [] -> pathsync q = None) /\
  (r_disj q <> [] -> pathsync q = Some (r_id q, r_id q :: map Some (r_disj q))).
Proof. intros q. unfold pathsync. destruct (r_disj q); split; intros H; congruence. Qed.

Definition sync_vectors (l : list request) : list (option string * list (option string)) :=
  flat_map (fun q => match pathsync q with Some s => [s] | None => [] end) l.
Theorem one_vector_per_disjoint_row : forall l,
  length (sync_vectors l) = length (filter (fun q => match r_disj q with [] => false | _ => true end) l).
Proof.
  induction l as [|q t IH]; [reflexivity|]. unfold sync_vectors in *. cbn [flat_map filter].
  unfold pathsync at 1. destruct (r_disj q); cbn [app length]; rewrite IH; reflexivity.
Qed.

(* the route objects list the nodes in order; without repeated names the indices are 0, 1, 2, ... *)
Lemma sindex_from_app : forall pre x post k, ~ In x pre -> sindex_from (pre ++ x :: post) x k = k + Z.of_nat (length pre).
Proof.
  induction pre as [|y t IH]; intros x post k H; cbn [app sindex_from length].
  - rewrite seqb_refl. lia.
  - destruct (seqb y x) eqn:E; [apply seqb_eq in E; exfalso; apply H; left; exact E|].
    rewrite IH; [lia|]. intros Hin. apply H. right. exact Hin.
Qed.
Theorem route_objects_spec : forall q,
  map snd (route_objects q) = r_nodes q /\
  (NoDup (r_nodes q) -> forall i x, nth_error (r_nodes q) i = Some x ->
                         nth_error (route_objects q) i = Some (Z.of_nat i, x)).
Proof.
  intros q. unfold route_objects. split.
  - rewrite map_map. cbn [snd]. apply map_id.
  - intros N i x H. rewrite nth_error_map, H. cbn [option_map]. f_equal. f_equal.
    destruct (nth_error_split _ _ H) as [l1 [l2 [E L]]]. rewrite E in N |- *.
    rewrite sindex_from_app; [lia|]. apply NoDup_remove_2 in N. intros Hin. apply N. apply in_or_app. left. exact Hin.
Qed.

(* name correction touches nothing but the route list *)
Theorem correct_route_keeps : forall k r r', correct_route k r = Ok r' ->
  r_id r' = r_id r /\ r_src r' = r_src r /\ r_dst r' = r_dst r /\ r_trx r' = r_trx r /\ r_mode r' = r_mode r /\
  r_spacing_hz r' = r_spacing_hz r /\ r_power_dbm r' = r_power_dbm r /\ r_nbch r' = r_nbch r /\
  r_disj r' = r_disj r /\ r_loose r' = r_loose r /\ r_bw_bps r' = r_bw_bps r /\ r_bidir r' = r_bidir r /\
  In (r_src r) (uids_of_kind KTrx (k_graph k)) /\ In (r_dst r) (uids_of_kind KTrx (k_graph k)).
Proof.
  intros k r r' H. unfold correct_route in H.
  destruct (smem (r_src r) _) eqn:S; cbn [negb] in H; [|discriminate].
  destruct (smem (r_dst r) _) eqn:D; cbn [negb] in H; [|discriminate].
  destruct (surgery _ _ _ _) as [l'|]; cbn [bind] in H; [|discriminate].
  inversion H; subst r'. cbn. apply smem_In in S, D. repeat split; auto.
Qed.
