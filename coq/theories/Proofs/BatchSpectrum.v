(* C16 — the spectrum fold of planning() (Model/Batch.spectrum_assign) is the request history of the C14 model, and what a
   request gets only depends on what was accepted before it on the OMS it crosses.  Uses the C14 proofs (run_spec = C14_history, pth_assign_one_total = C14_never_raises, the very lemmas Props/C14.v
   restates) as they are; nothing of C14 is modified.  They are taken from Proofs/Spectrum5-6.v rather than from Props/C14.v
   so that this file does not depend on C14's generated translation of the source (Gen/SpectrumGen.v).  The batch model is referred to by qualified names. *)
From Coq Require Import Lia ZifyBool List.
From Verif Require Import Prelude Model.Spectrum.
From Verif Require Import Proofs.SpectrumBase Proofs.Spectrum3 Proofs.Spectrum5 Proofs.Spectrum6.
From Verif Require Model.Verdict Model.Batch.
Open Scope Z_scope.

(* ---- the fold is Spectrum.run ---- *)
Lemma planning_spectrum_run : forall pol sreq n rqs st0 st' outs,
  run pol st0 (Batch.sreqs_of sreq n rqs) = Ok (st', outs) ->
  Batch.planning (Batch.spectrum_assign pol sreq) n (Ok st0) rqs =
  (n, Ok st', combine (map (fun rq => fst (Batch.evaluate n rq)) rqs) (map (@Ok outcome) outs)).
Proof.
  intros pol sreq n. induction rqs as [|rq t IH]; intros st0 st' outs H.
  - cbn in H. inversion H; subst. reflexivity.
  - cbn [Batch.sreqs_of map run] in H. fold (Batch.sreqs_of sreq n t) in H.
    destruct (pth_assign_one pol st0 (sreq rq (Batch.r_ok (fst (Batch.evaluate n rq))))) as [[st1 o]|e] eqn:E;
      cbn [bind fst snd] in H; [|discriminate].
    destruct (run pol st1 (Batch.sreqs_of sreq n t)) as [[st2 outs']|e] eqn:R; cbn [bind fst snd] in H; [|discriminate].
    inversion H; subst st2 outs. cbn [Batch.planning].
    destruct (Batch.evaluate n rq) as [res p'] eqn:Ev. cbn [fst] in E.
    unfold Batch.spectrum_assign at 1. rewrite E. rewrite (IH _ _ _ R).
    cbn [map combine]. rewrite Ev. reflexivity.
Qed.

(* ---- locality: the outcome of a request only looks at the bitmaps of the OMS on its path ---- *)
Definition same_bitmaps (st1 st2 : state) (ids : list Z) : Prop :=
  forall i, In i ids -> exists o1 o2, oms_at st1 i = Some o1 /\ oms_at st2 i = Some o2 /\ bm o1 = bm o2.

Lemma get_oms_same : forall st1 st2 ids i, valid_ids st1 ids -> valid_ids st2 ids -> same_bitmaps st1 st2 ids -> In i ids ->
  exists o1 o2, get_oms st1 i = Ok o1 /\ get_oms st2 i = Ok o2 /\ bm o1 = bm o2.
Proof.
  intros st1 st2 ids i V1 V2 S Hi. unfold valid_ids in *. rewrite Forall_forall in V1, V2.
  destruct (get_oms_valid st1 i (V1 i Hi)) as [o1 [G1 A1]]. destruct (get_oms_valid st2 i (V2 i Hi)) as [o2 [G2 A2]].
  destruct (S i Hi) as [p1 [p2 [B1 [B2 E]]]]. rewrite A1 in B1. rewrite A2 in B2. inversion B1; inversion B2; subst.
  eauto.
Qed.
Lemma agg_cells_local : forall st1 st2 all ids acc, valid_ids st1 all -> valid_ids st2 all -> same_bitmaps st1 st2 all ->
  (forall i, In i ids -> In i all) -> agg_cells st1 ids acc = agg_cells st2 ids acc.
Proof.
  intros st1 st2 all. induction ids as [|i t IH]; intros acc V1 V2 S Hin; [reflexivity|]. cbn [agg_cells].
  destruct (get_oms_same st1 st2 all i V1 V2 S (Hin i (or_introl eq_refl))) as [o1 [o2 [G1 [G2 E]]]].
  rewrite G1, G2. cbn [bind]. rewrite E. apply IH; try assumption. intros j Hj. apply Hin. now right.
Qed.
Lemma aggregate_local : forall st1 st2 ids, valid_ids st1 ids -> valid_ids st2 ids -> same_bitmaps st1 st2 ids ->
  aggregate st1 ids = aggregate st2 ids.
Proof.
  intros st1 st2 [|i0 t] V1 V2 S; [reflexivity|]. cbn [aggregate].
  destruct (get_oms_same st1 st2 (i0 :: t) i0 V1 V2 S (or_introl eq_refl)) as [o1 [o2 [G1 [G2 E]]]].
  rewrite G1, G2. cbn [bind]. rewrite E.
  rewrite (agg_cells_local st1 st2 (i0 :: t) t (cells (bm o2)) V1 V2 S); [reflexivity|]. intros j Hj. now right.
Qed.
Lemma compute_n_m_local : forall st1 st2 req pcm p sl ids, valid_ids st1 ids -> valid_ids st2 ids -> same_bitmaps st1 st2 ids ->
  compute_n_m st1 req pcm p sl ids = compute_n_m st2 req pcm p sl ids.
Proof. intros. unfold compute_n_m. now rewrite (aggregate_local st1 st2 ids). Qed.

Lemma outcome_local : forall d p st1 st2 rq,
  WFst d st1 -> WFst d st2 -> valid_ids st1 (path_oms rq) -> valid_ids st2 (path_oms rq) -> path_oms rq <> [] ->
  0 < rq_pcm rq -> Forall slot_pos (slots rq) -> same_bitmaps st1 st2 (path_oms rq) ->
  exists s1 s2 o, pth_assign_one p st1 rq = Ok (s1, o) /\ pth_assign_one p st2 rq = Ok (s2, o).
Proof.
  intros d p st1 st2 rq W1 W2 V1 V2 Hne Hp Hs S.
  destruct (pth_assign_one_total d p st1 rq W1 V1 Hne Hp Hs) as [[s1 o1] R1].
  destruct (pth_assign_one_total d p st2 rq W2 V2 Hne Hp Hs) as [[s2 o2] R2].
  exists s1, s2, o1. split; [exact R1|]. rewrite R2. f_equal. f_equal.
  unfold pth_assign_one in R1, R2. destruct (pre_blocked rq); [inversion R1; inversion R2; congruence|].
  match type of R1 with (if ?c then _ else _) = _ => destruct c end; [inversion R1; inversion R2; congruence|].
  rewrite (compute_n_m_local st1 st2 _ _ _ _ _ V1 V2 S) in R1.
  destruct (compute_n_m st2 (cdiv (spacing rq) slot_width * cdiv (bandwidth rq) (bit_rate rq))
              (cdiv (spacing rq) slot_width * cdiv (bit_rate rq) (bit_rate rq)) p (slots rq) (path_oms rq))
    as [[[ns ms] rem]|e]; cbn [bind] in R1, R2; [|discriminate].
  destruct (0 <? rem); [inversion R1; inversion R2; congruence|].
  destruct (commit st1 (path_oms rq) ns ms (rid rq) (cdiv (bandwidth rq) (bit_rate rq))); cbn [bind] in R1; [|discriminate].
  destruct (commit st2 (path_oms rq) ns ms (rid rq) (cdiv (bandwidth rq) (bit_rate rq))); cbn [bind] in R2; [|discriminate].
  inversion R1; inversion R2; congruence.
Qed.

(* ---- two histories that booked the same slots on the OMS of a path leave the same bitmaps there ---- *)
Lemma nth_error_ext_len : forall A (l1 l2 : list A), length l1 = length l2 ->
  (forall j, (j < length l1)%nat -> nth_error l1 j = nth_error l2 j) -> l1 = l2.
Proof.
  induction l1 as [|x t IH]; intros [|y u] L H; cbn in L; try discriminate; [reflexivity|].
  pose proof (H 0%nat ltac:(cbn; lia)) as H0. cbn in H0. inversion H0; subst. f_equal.
  apply IH; [lia|]. intros j Hj. apply (H (S j)). cbn. lia.
Qed.
Lemma bitmap_ext : forall d o1 o2, WFo d o1 -> WFo d o2 -> (forall k, cell (bm o1) k = cell (bm o2) k) -> bm o1 = bm o2.
Proof.
  intros d o1 o2 [[I1 [L1 [F1 [G1 _]]]] [N1 [X1 B1]]] [[I2 [L2 [F2 [G2 _]]]] [N2 [X2 B2]]] H.
  destruct (bm o1) as [nmin1 nmax1 fmin1 fmax1 gb1 idx1 c1]. destruct (bm o2) as [nmin2 nmax2 fmin2 fmax2 gb2 idx2 c2].
  cbn in *.
  assert (Ec : c1 = c2).
  { apply nth_error_ext_len; [lia|]. intros j Hj.
    specialize (H (nmin1 + Z.of_nat j)). unfold cell, cellz in H. cbn in H.
    destruct (Z.ltb_spec (nmin1 + Z.of_nat j) nmin1); [lia|].
    destruct (Z.ltb_spec (nmin1 + Z.of_nat j) nmin2); [lia|].
    replace (Z.to_nat (nmin1 + Z.of_nat j - nmin1)) with j in H by lia.
    replace (Z.to_nat (nmin1 + Z.of_nat j - nmin2)) with j in H by lia. exact H. }
  assert (nmin1 = nmin2) by lia. assert (nmax1 = nmax2) by lia. assert (gb1 = gb2) by lia.
  assert (fmin1 = fmin2) by lia. assert (fmax1 = fmax2) by lia. subst. reflexivity.
Qed.
Lemma same_bookings_same_bitmaps : forall d st0 stA stB logA logB ids,
  WFst d stA -> WFst d stB -> valid_ids st0 ids -> hist_inv st0 stA logA -> hist_inv st0 stB logB ->
  (forall i k, In i ids -> booked logA i k = booked logB i k) -> same_bitmaps stA stB ids.
Proof.
  intros d st0 stA stB logA logB ids WA WB V HA HB Hb i Hi.
  unfold valid_ids in V. rewrite Forall_forall in V. specialize (V i Hi).
  destruct (get_oms_valid st0 i V) as [o0 [_ A0]].
  destruct (hi_occ _ _ _ HA i o0 (proj1 V) A0) as [oA [AA CA]]. destruct (hi_occ _ _ _ HB i o0 (proj1 V) A0) as [oB [AB CB]].
  exists oA, oB. split; [exact AA|]. split; [exact AB|].
  apply (bitmap_ext d); [exact (WFst_at d stA i oA WA AA) | exact (WFst_at d stB i oB WB AB)|].
  intros k. rewrite CA, CB, (Hb i k Hi). reflexivity.
Qed.

(* ---- the clause of the property: only what was ACCEPTED before on the OMS a request crosses matters ---- *)
Lemma spectrum_depends_only_on_shared_bookings : forall d p st0 rqsA rqsB stA outsA stB outsB rq,
  WFst d st0 -> Forall (rq_ok st0) rqsA -> Forall (rq_ok st0) rqsB ->
  run p st0 rqsA = Ok (stA, outsA) -> run p st0 rqsB = Ok (stB, outsB) ->
  valid_ids st0 (path_oms rq) -> path_oms rq <> [] -> 0 < rq_pcm rq -> Forall slot_pos (slots rq) ->
  (forall i k, In i (path_oms rq) -> booked (log_of rqsA outsA) i k = booked (log_of rqsB outsB) i k) ->
  exists sA sB o, pth_assign_one p stA rq = Ok (sA, o) /\ pth_assign_one p stB rq = Ok (sB, o).
Proof.
  intros d p st0 rqsA rqsB stA outsA stB outsB rq W FA FB RA RB V Hne Hp Hs Hb.
  destruct (run_spec d p rqsA st0 stA outsA W FA RA) as [WA [_ HA]].
  destruct (run_spec d p rqsB st0 stB outsB W FB RB) as [WB [_ HB]].
  assert (VA : valid_ids stA (path_oms rq)) by (unfold valid_ids in *; rewrite (hi_len _ _ _ HA); exact V).
  assert (VB : valid_ids stB (path_oms rq)) by (unfold valid_ids in *; rewrite (hi_len _ _ _ HB); exact V).
  apply (outcome_local d); try assumption.
  exact (same_bookings_same_bitmaps d st0 stA stB _ _ _ WA WB V HA HB Hb).
Qed.
