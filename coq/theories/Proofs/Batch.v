(* C16 — proofs about Model/Batch.v *)
From Coq Require Import QArith Lia Permutation.
From Verif Require Import Prelude Model.Verdict Model.Batch Proofs.Verdict.
Open Scope Z_scope.

(* the designed network is handed on unchanged *)
Lemma planning_net : forall SS A (assign : SS -> request -> bool -> SS * A) rqs n ss,
  fst (fst (planning assign n ss rqs)) = n.
Proof.
  intros SS A assign. induction rqs as [|rq t IH]; intros n ss; [reflexivity|].
  cbn [planning]. destruct (evaluate n rq) as [res p]. destruct (assign ss rq (r_ok res)) as [ss' a].
  specialize (IH n ss'). destruct (planning assign n ss' t) as [[n' ss''] rest]. exact IH.
Qed.

(* the non-spectrum part of every result is the evaluation of that request alone on the designed network *)
Lemma planning_results : forall SS A (assign : SS -> request -> bool -> SS * A) rqs n ss,
  map fst (snd (planning assign n ss rqs)) = map (fun rq => fst (evaluate n rq)) rqs.
Proof.
  intros SS A assign. induction rqs as [|rq t IH]; intros n ss; [reflexivity|].
  cbn [planning]. destruct (evaluate n rq) as [res p] eqn:E. destruct (assign ss rq (r_ok res)) as [ss' a].
  specialize (IH n ss'). destruct (planning assign n ss' t) as [[n' ss''] rest].
  cbn [snd map] in *. rewrite IH, E. reflexivity.
Qed.

Lemma planning_single : forall SS A (assign : SS -> request -> bool -> SS * A) n ss rq,
  planning assign n ss [rq] =
  (n, fst (assign ss rq (r_ok (fst (evaluate n rq)))),
   [(fst (evaluate n rq), snd (assign ss rq (r_ok (fst (evaluate n rq)))))]).
Proof.
  intros. cbn [planning]. destruct (evaluate n rq) as [res p]. cbn [fst].
  destruct (assign ss rq (r_ok res)) as [ss' a]. reflexivity.
Qed.

(* batch_indep: whatever the batch, whatever the position, whatever the spectrum policies and states *)
Lemma batch_indep : forall SS A (assign : SS -> request -> bool -> SS * A) SS' A' (assign' : SS' -> request -> bool -> SS' * A')
    n ss ss' rqs i rq,
  nth_error rqs i = Some rq ->
  fst (fst (planning assign n ss rqs)) = n /\
  exists res a a' s', nth_error (snd (planning assign n ss rqs)) i = Some (res, a) /\
                      planning assign' n ss' [rq] = (n, s', [(res, a')]).
Proof.
  intros SS A assign SS' A' assign' n ss ss' rqs i rq H. split; [apply planning_net|].
  pose proof (planning_results SS A assign rqs n ss) as R.
  assert (N : nth_error (map fst (snd (planning assign n ss rqs))) i = Some (fst (evaluate n rq))).
  { rewrite R. rewrite nth_error_map, H. reflexivity. }
  rewrite nth_error_map in N. destruct (nth_error (snd (planning assign n ss rqs)) i) as [[res a]|] eqn:E; [|discriminate].
  cbn in N. inversion N; subst res.
  exists (fst (evaluate n rq)), a. eexists. eexists. split; [reflexivity|]. apply planning_single.
Qed.

(* batch_perm: reordering the batch reorders the non-spectrum results and leaves the network alone *)
Lemma batch_perm : forall SS A (assign : SS -> request -> bool -> SS * A) n ss1 ss2 rqs rqs',
  Permutation rqs rqs' ->
  Permutation (map fst (snd (planning assign n ss1 rqs))) (map fst (snd (planning assign n ss2 rqs'))) /\
  fst (fst (planning assign n ss1 rqs)) = fst (fst (planning assign n ss2 rqs')).
Proof.
  intros SS A assign n ss1 ss2 rqs rqs' P. rewrite !planning_results, !planning_net. split; [|reflexivity].
  apply Permutation_map. exact P.
Qed.

(* inside one request the propagations share the copy but start from the designed gains: the figures are those of
   fresh propagations, and the copy ends in the state of the last one *)
Lemma run_loads_fresh : forall d ls p, same_shape d p ->
  snd (run_loads d p ls) = fresh_runs d ls /\
  fst (run_loads d p ls) = match List.last (map Some ls) None with Some l => fst (run_load d l) | None => p end.
Proof.
  intros d. induction ls as [|l t IH]; intros p H; [split; reflexivity|].
  cbn [run_loads]. rewrite (restore_shape _ _ H).
  pose proof (run_load_shape d l) as H'. destruct (run_load d l) as [p' sp] eqn:R. cbn [fst] in H'.
  destruct (IH p' H') as [A B]. destruct (run_loads d p' t) as [p'' r]. cbn [fst snd] in *. split.
  - cbn. rewrite R. cbn. now rewrite A.
  - rewrite B. destruct t as [|l' t']; [cbn; now rewrite R|].
    change (map Some (l :: l' :: t')) with (Some l :: map Some (l' :: t')).
    rewrite last_cons. cbn [map].
    assert (G : forall (u : list load) x dflt, exists y, List.last (Some x :: map Some u) dflt = Some y).
    { induction u as [|z u IHu]; intros x dflt; [exists x; reflexivity|].
      destruct (IHu z dflt) as [y Hy]. exists y. cbn [map]. rewrite last_cons. exact Hy. }
    destruct (G t' l' None) as [y Hy]. rewrite Hy. reflexivity.
Qed.

(* without the copy the pipeline is the same as long as no propagation changes an element *)
Lemma nocopy_same_if_stable : forall SS A (assign : SS -> request -> bool -> SS * A) rqs n ss,
  (forall rq, In rq rqs -> put_path n (r_route (fst (evaluate n rq))) (snd (evaluate n rq)) = n) ->
  planning_nocopy assign n ss rqs = planning assign n ss rqs.
Proof.
  intros SS A assign. induction rqs as [|rq t IH]; intros n ss H; [reflexivity|].
  cbn [planning planning_nocopy]. pose proof (H rq (or_introl eq_refl)) as E.
  destruct (evaluate n rq) as [res p]. cbn [fst snd] in E. rewrite E.
  destruct (assign ss rq (r_ok res)) as [ss' a]. rewrite IH; [reflexivity|].
  intros rq' Hr. apply H. now right.
Qed.

(* ---- witness: the line of Proofs/Verdict.w_path as a network, a saturating request and an ordinary one ---- *)
Definition w_net : network :=
  [(1, Trx); (2, Roadm (1 # 100)); (3, Edfa 100 10 (1 # 100000)); (4, Fiber (1 # 100)); (5, Edfa 100 10 (1 # 100000));
   (6, Roadm (1 # 100)); (7, Trx)].
Definition w_route : list uid := [1; 2; 3; 4; 5; 6; 7].
Definition w_hot : request := mkReq 1 w_route [mkL 4 1 6] 100.       (* +8 dB offset: both amplifiers saturate *)
Definition w_cold : request := mkReq 2 w_route [mkL 4 1 1] 400.

Lemma w_copy_needed :
  map fst (snd (planning_nocopy next_slot w_net 0 [w_hot; w_cold])) <>
  map fst (snd (planning_nocopy next_slot w_net 0 [w_hot])) ++ map fst (snd (planning_nocopy next_slot w_net 0 [w_cold])).
Proof. vm_compute. discriminate. Qed.
Lemma w_copy_needed_verdict :
  map (fun x => r_ok (fst x)) (snd (planning_nocopy next_slot w_net 0 [w_hot; w_cold])) = [true; false] /\
  map (fun x => r_ok (fst x)) (snd (planning_nocopy next_slot w_net 0 [w_cold; w_hot])) = [true; true] /\
  fst (fst (planning_nocopy next_slot w_net 0 [w_hot; w_cold])) <> w_net.
Proof. split; [vm_compute; reflexivity|]. split; [vm_compute; reflexivity|]. vm_compute. discriminate. Qed.
Lemma w_with_copy :
  map (fun x => r_ok (fst x)) (snd (planning next_slot w_net 0 [w_hot; w_cold])) = [true; true] /\
  map snd (snd (planning next_slot w_net 0 [w_hot; w_cold])) = [Some 0; Some 1] /\
  map snd (snd (planning next_slot w_net 0 [w_cold; w_hot])) = [Some 0; Some 1].
Proof. repeat split; vm_compute; reflexivity. Qed.

(* ---- the validator decides its specification ---- *)
Definition FigsClose (a b : list Z) : Prop := Forall2 (fun x y => Z.abs (x - y) <= 1) a b.
Definition SgnClose (a b : sgn) : Prop :=
  s_route a = s_route b /\ s_mode a = s_mode b /\ s_reason a = s_reason b /\ FigsClose (s_figs a) (s_figs b).
Definition ObsSpec (o : batch_obs) : Prop :=
  forall r, In r (b_runs o) ->
    o_before r = b_net o /\ o_after r = b_net o /\
    forall id s, In (id, s) (o_results r) -> exists s0, alone_of (b_alone o) id = Some s0 /\ SgnClose s s0.

Lemma zlist_eqb_iff : forall a b, zlist_eqb a b = true <-> a = b.
Proof.
  induction a as [|x a IH]; intros [|y b]; cbn; try (split; [discriminate | congruence]); [tauto|].
  rewrite andb_true_iff, Z.eqb_eq, IH. split; [intros [-> ->]; reflexivity | intros H; inversion H; auto].
Qed.
Lemma figs_close_iff : forall a b, figs_close a b = true <-> FigsClose a b.
Proof.
  unfold FigsClose. induction a as [|x a IH]; intros [|y b]; cbn.
  - split; [constructor | reflexivity].
  - split; [discriminate | intros H; inversion H].
  - split; [discriminate | intros H; inversion H].
  - rewrite andb_true_iff, Z.leb_le, IH. split.
    + intros [H1 H2]. constructor; assumption.
    + intros H. inversion H; subst. auto.
Qed.
Lemma sgn_close_iff : forall a b, sgn_close a b = true <-> SgnClose a b.
Proof.
  intros a b. unfold sgn_close, SgnClose.
  rewrite !andb_true_iff, zlist_eqb_iff, !Z.eqb_eq, figs_close_iff. tauto.
Qed.
Lemma obs_ok_iff : forall o, obs_ok o = true <-> ObsSpec o.
Proof.
  intros o. unfold obs_ok, ObsSpec. rewrite forallb_forall. split.
  - intros H r Hr. specialize (H r Hr). unfold run_ok in H.
    rewrite !andb_true_iff, !Z.eqb_eq, forallb_forall in H. destruct H as [[H1 H2] H3].
    split; [exact H1|]. split; [exact H2|]. intros id s Hs. specialize (H3 (id, s) Hs). cbn in H3.
    destruct (alone_of (b_alone o) id) as [s0|]; [|discriminate].
    exists s0. split; [reflexivity | now apply sgn_close_iff].
  - intros H r Hr. destruct (H r Hr) as [H1 [H2 H3]]. unfold run_ok.
    rewrite !andb_true_iff, !Z.eqb_eq, forallb_forall. split; [split; assumption|].
    intros [id s] Hs. cbn. destruct (H3 id s Hs) as [s0 [-> C]]. now apply sgn_close_iff.
Qed.
