(* C20 — lemmas about Model/Sheet.v, part 4: the hypotheses under which the converted network is well wired
   (`good`), rendered uids are unique, every connection end point is an element. *)
From Coq Require Import QArith Lia.
From Verif Require Import Prelude Model.Sheet Proofs.Sheet Proofs.Sheet2 Proofs.Sheet3.
Open Scope Z_scope.

(* rows that pass every sanity rule, have well-formed site names, and whose FUSED sites have no Eqpt row (the
   region where convert.py neither rejects nor converts properly, open finding C20-eqpt-on-fused); stated on the
   node list after the ILA -> ROADM correction *)
Record good (ns : list node) (ls : list link) (es : list eqpt) : Prop := mkGood {
  g_cities : NoDup (cities ns);
  g_links : links_distinct ls;
  g_loops : no_loops ls;
  g_link_ends : forall l, In l ls -> In (l_from l) (cities ns) /\ In (l_to l) (cities ns);
  g_eqpt_ends : forall e, In e es -> In (e_from e) (cities ns) /\ In (e_to e) (cities ns);
  g_eqpt_link : forall e, In e es -> exists l, In l (links_of (e_from e) ls) /\ other_city (e_from e) l = e_to e;
  g_eqpt_nodup : NoDup (map (fun e => pair_key (e_from e) (e_to e)) es);
  g_line_two : forall n, In n ns -> n_type n <> TRoadm -> exists l0 l1, links_of (n_city n) ls = [l0; l1];
  g_ila_one : forall n, In n ns -> n_type n = TIla -> (length (eqpts_of (n_city n) es) <= 1)%nat;
  g_fused_none : forall n, In n ns -> n_type n = TFused -> eqpts_of (n_city n) es = [];
  g_names : forall c, In c (cities ns) -> name_ok c = true
}.

Lemma correct_type_cases : forall ls n,
  (correct_type ls n = n /\ (n_type n = TIla -> length (links_of (n_city n) ls) = 2%nat)) \/
  (n_type n = TIla /\ correct_type ls n = set_type n TRoadm).
Proof.
  intros ls n. unfold correct_type.
  destruct (ntype_eqb (n_type n) TIla) eqn:E1; cbn [andb].
  - destruct (Nat.eqb (length (links_of (n_city n) ls)) 2) eqn:E2; cbn [negb].
    + left. split; [reflexivity|]. intros _. apply Nat.eqb_eq. exact E2.
    + right. split; [apply ntype_eqb_eq; exact E1 | reflexivity].
  - left. split; [reflexivity|]. intros H. apply ntype_eqb_eq in H. congruence.
Qed.

Lemma length2 : forall {A} (l : list A), length l = 2%nat -> exists a b, l = [a; b].
Proof. intros A [|a [|b [|c t]]] H; cbn in H; try discriminate. exists a, b. reflexivity. Qed.

Lemma possible_links_In : forall ls a z, (forall l, In l ls -> name_ok (l_from l) = true /\ name_ok (l_to l) = true) ->
  name_ok a = true -> In (pair_key a z) (possible_links ls) ->
  exists l, In l ls /\ ((l_from l = a /\ l_to l = z) \/ (l_to l = a /\ l_from l = z)).
Proof.
  intros ls a z Hn Ha H. unfold possible_links in H. apply in_app_or in H. destruct H as [H|H];
    apply in_map_iff in H; destruct H as [l [E I]]; exists l; (split; [exact I|]); destruct (Hn l I) as [N1 N2].
  - left. apply pair_key_inj in E; assumption.
  - right. apply pair_key_inj in E; assumption.
Qed.

Lemma sane_good : forall ns ls es, sane ns ls es ->
  (forall c, In c (cities ns) -> name_ok c = true) ->
  (forall n, In n ns -> n_type n = TFused -> eqpts_of (n_city n) es = []) ->
  good (map (correct_type ls) ns) ls es.
Proof.
  intros ns ls es S Hn Hf0. destruct S as [Hl S1 S2 S3 S4 S5 S6 S7 S8 S9].
  assert (Hf : forall n, In n ns -> n_type n = TFused ->
                 length (links_of (n_city n) ls) = 2%nat /\ eqpts_of (n_city n) es = []) by (intros; split; auto).
  assert (Hback : forall m, In m (map (correct_type ls) ns) -> exists n, In n ns /\ m = correct_type ls n).
  { intros m Hm. apply in_map_iff in Hm. destruct Hm as [n [E I]]. exists n. split; [exact I | symmetry; exact E]. }
  constructor; try rewrite cities_correct; try assumption.
  - (* Eqpt rows sit on a link of their site *)
    intros e He. destruct (S5 e He) as [Ca Cz]. destruct (S6 e He) as [K _].
    destruct (possible_links_In ls (e_from e) (e_to e)) as [l [Il Hc]]; [| apply Hn; exact Ca | exact K |].
    { intros l Il. destruct (S2 l Il). split; apply Hn; assumption. }
    exists l. destruct Hc as [[A Z]|[A Z]].
    + split; [apply links_of_In; split; [exact Il | left; exact A]|]. unfold other_city. rewrite A, seqb_refl. exact Z.
    + split; [apply links_of_In; split; [exact Il | right; exact A]|]. unfold other_city.
      destruct (seqb (l_from l) (e_from e)) eqn:E; [|exact Z].
      apply seqb_eq in E. exfalso. apply (Hl l Il). congruence.
  - (* line sites have exactly two links *)
    intros m Hm Ht. destruct (Hback m Hm) as [n [In_ Em]]. subst m. rewrite correct_type_city.
    destruct (correct_type_cases ls n) as [[E Hila]|[Hila E]].
    + rewrite E in Ht. destruct (n_type n) eqn:T; [congruence| |].
      * apply length2. apply Hila. reflexivity.
      * apply length2. apply (Hf n In_ T).
    + rewrite E in Ht. cbn in Ht. congruence.
  - (* at most one row per ILA *)
    intros m Hm Ht. destruct (Hback m Hm) as [n [In_ Em]]. subst m. rewrite correct_type_city.
    destruct (correct_type_cases ls n) as [[E _]|[_ E]]; rewrite E in Ht.
    + apply S8; assumption.
    + cbn in Ht. discriminate.
  - (* no row on a FUSED site *)
    intros m Hm Ht. destruct (Hback m Hm) as [n [In_ Em]]. subst m. rewrite correct_type_city.
    destruct (correct_type_cases ls n) as [[E _]|[_ E]]; rewrite E in Ht.
    + apply (Hf n In_ Ht).
    + cbn in Ht. discriminate.
Qed.

(* ------------------------------------------------------------------ rendered uids are unique *)
Lemma uid_list_names : forall ns ls es, good ns ls es -> forall u, In u (uid_list ns ls es) -> uid_names_ok u.
Proof.
  intros ns ls es G u H. destruct G as [G1 G2 G3 G4 G5 G6 G7 G8 G9 G10 G11]. unfold uid_list in H.
  assert (Hc : forall (p : node -> bool) x, In x (filter p ns) -> name_ok (n_city x) = true).
  { intros p x Hx. apply filter_In in Hx. apply G11. apply in_map. exact (proj1 Hx). }
  unfold auto_ilas in H. in_maps; subst; cbn [uid_names_ok east_fiber_uid west_fiber_uid]; try (eapply Hc; eassumption).
  - destruct (G4 _ H). split; apply G11; assumption.
  - destruct (G4 _ H). split; apply G11; assumption.
  - destruct (G5 _ H). split; apply G11; assumption.
  - destruct (G5 _ H). split; apply G11; assumption.
Qed.

Lemma rendered_NoDup : forall ns ls es, good ns ls es -> NoDup (map render (uid_list ns ls es)).
Proof.
  intros ns ls es G. apply NoDup_map_inj_in.
  - destruct G. apply uid_list_NoDup; assumption.
  - intros x y Hx Hy. apply render_inj; eapply uid_list_names; eassumption.
Qed.

(* ------------------------------------------------------------------ anatomy of the chains *)
Definition c_first (ch : chain) : uid := fst (fst ch).
Definition c_mid (ch : chain) : option uid := snd (fst ch).
Definition c_last (ch : chain) : uid := snd ch.
Definition is_fiber (u : uid) : Prop := match u with UFiber _ _ _ => True | _ => False end.
Definition is_mid (u : uid) : Prop := match u with UFused _ _ | UEdfa _ _ | UEdfaTo _ _ _ => True | _ => False end.
(* the site a piece of equipment stands in *)
Definition mid_city (u : uid) : string :=
  match u with UFused _ c | UEdfa _ c | UEdfaTo _ c _ => c | UTrx c | URoadm c => c | UFiber a _ _ => a end.

Lemma all_chains_In : forall ns ls es ch, In ch (all_chains ns ls es) <-> exists n, In n ns /\ In ch (node_chains ls es n).
Proof. intros. unfold all_chains. apply in_flat_map. Qed.

(* the chains of a ROADM site / of a line site *)
Lemma roadm_node_chains : forall ls es n ch, n_type n = TRoadm -> In ch (node_chains ls es n) ->
  exists l, In l (links_of (n_city n) ls) /\
    (ch = (URoadm (n_city n), eqpt_in_city_to_city (n_city n) (other_city (n_city n) l) es TRoadm East, out_uid (n_city n) l) \/
     ch = (in_uid (n_city n) l, eqpt_in_city_to_city (n_city n) (other_city (n_city n) l) es TRoadm West, URoadm (n_city n))).
Proof.
  intros ls es n ch T H. unfold node_chains in H. rewrite T in H. apply in_flat_map in H.
  destruct H as [l [Il H]]. exists l. split; [exact Il|]. unfold roadm_chains in H. cbn [In] in H.
  destruct H as [H|[H|[]]]; [left | right]; symmetry; exact H.
Qed.
Lemma line_node_chains : forall ls es n l0 l1 ch, n_type n <> TRoadm -> links_of (n_city n) ls = [l0; l1] ->
  In ch (node_chains ls es n) ->
  ch = (in_uid (n_city n) l0, eqpt_in_city_to_city (n_city n) (other_city (n_city n) l0) es (n_type n) West, out_uid (n_city n) l1) \/
  ch = (in_uid (n_city n) l1, eqpt_in_city_to_city (n_city n) (other_city (n_city n) l0) es (n_type n) East, out_uid (n_city n) l0).
Proof.
  intros ls es n l0 l1 ch T L H. unfold node_chains in H. rewrite L in H.
  destruct (n_type n) eqn:E; [congruence| |]; unfold line_chains in H; cbn [In] in H;
    destruct H as [H|[H|[]]]; [left | right | left | right]; symmetry; exact H.
Qed.

(* the equipment of a chain stands in the chain's site and is neither a fibre nor a ROADM *)
Lemma ila_fold_inv : forall c o d m st,
  (forall e, In e m -> e_from e = c) ->
  (snd st = None \/ exists d' z, snd st = Some (UEdfaTo d' c z)) ->
  let r := fold_left (fun (st : dir * option uid) e =>
                        let d' := if seqb (e_to e) o then fst st else rev_dir d in
                        (d', Some (UEdfaTo d' (e_from e) (e_to e)))) m st in
  snd r = None \/ exists d' z, snd r = Some (UEdfaTo d' c z).
Proof.
  intros c o d. induction m as [|e t IH]; intros st Hm Hs; cbn [fold_left]; [exact Hs|].
  apply IH; [intros x Hx; apply Hm; right; exact Hx|].
  right. cbn [snd]. rewrite (Hm e (or_introl eq_refl)). eexists. eexists. reflexivity.
Qed.

Lemma ein_kind : forall c o es t d u, eqpt_in_city_to_city c o es t d = Some u -> is_mid u /\ mid_city u = c.
Proof.
  intros c o es t d u H. destruct t.
  - rewrite ein_roadm in H. destruct (has_row c o es); inversion H. split; [exact I | reflexivity].
  - unfold eqpt_in_city_to_city in H.
    assert (Hm : forall e, In e (eqpts_of c es) -> e_from e = c) by (intros e He; apply eqpts_of_In in He; tauto).
    destruct (eqpts_of c es) as [|e t] eqn:E.
    + inversion H. split; [exact I | reflexivity].
    + destruct (ila_fold_inv c o d (e :: t) (d, None) Hm (or_introl eq_refl)) as [N|[d' [z S]]];
        cbv zeta in N || cbv zeta in S.
      * rewrite N in H. discriminate.
      * rewrite S in H. inversion H. split; [exact I | reflexivity].
  - rewrite ein_fused in H. inversion H. split; [exact I | reflexivity].
Qed.
