(* C03, translator tie: the definitions translated from /repo's source on every run (Gen/GNGen.v) are the hand-written
   model (Model/GN.v), for EVERY number structure N.  A semantic edit of a translated fragment breaks a lemma below. *)
From Verif Require Import Prelude Num Model.GN Gen.GNGen.
From Coq Require Import List.
Import ListNotations.

Section G.
Context {N : Num}.
Local Open Scope num_scope.

Lemma gen_weight : forall b, @g_weight N b = weight b.
Proof. intros [|]; reflexivity. Qed.

Lemma gen_effective_length : forall a l : NT N, g_effective_length a l = eff_length a l.
Proof. reflexivity. Qed.

(* _psi with the asymptotic and effective length of the PUMP column, as _gn_analytic hands them over *)
Lemma gen_psi : forall (len : NT N) (ci cj : @pch N),
  psi len ci cj = g_psi ci cj (g_asymptotic_length (p_alpha cj)) (g_effective_length (p_alpha cj) len).
Proof. reflexivity. Qed.

Lemma gen_eta : forall (len : NT N) (ci cj : @pch N) b, eta len ci cj b = g_eta ci cj b (psi len ci cj).
Proof. intros len ci cj [|]; reflexivity. Qed.

Lemma gen_term : forall (len : NT N) (ci cj : @pch N) b, term len ci cj b = g_term ci cj (eta len ci cj b).
Proof. reflexivity. Qed.

(* the whole matrix entry in terms of translated pieces only *)
Lemma gen_entry : forall (len : NT N) (ci cj : @pch N) b,
  term len ci cj b =
  g_term ci cj (g_eta ci cj b (g_psi ci cj (g_asymptotic_length (p_alpha cj)) (g_effective_length (p_alpha cj) len))).
Proof. intros len ci cj [|]; reflexivity. Qed.

(* Fiber.alpha, loss scaling *)
Lemma gen_alpha : forall (fb : @fiber N) f, alpha fb f = (let* lc := loss_coef fb f in Ok (g_alpha lc)).
Proof. reflexivity. Qed.
Lemma gen_loss_scalar : forall (fb : @fiber N) v f, fb_loss fb = LossScalar v -> loss_coef fb f = Ok (g_loss_scale v).
Proof. intros fb v f H. unfold loss_coef. rewrite H. reflexivity. Qed.

(* reference wavelength / frequency *)
Lemma gen_ref : forall fb : @fiber N,
  match fb_ref fb with
  | RefDefault => ref_wavelength fb = g_default_ref_wavelength /\ ref_frequency fb = g_default_ref_frequency
  | RefWavelength w => ref_wavelength fb = w /\ ref_frequency fb = g_ref_frequency_of_wavelength w
  | RefFrequency f => ref_frequency fb = f /\ ref_wavelength fb = g_ref_wavelength_of_frequency f
  end.
Proof. intros fb. unfold ref_wavelength, ref_frequency. destruct (fb_ref fb); split; reflexivity. Qed.

(* Fiber.beta2 for the three scalar dispersion specifications and the one-row table *)
Lemma gen_beta2 : forall (fb : @fiber N) f,
  match fb_disp fb with
  | DispDefault => beta2 fb f = Ok (g_beta2 f (g_disp_noslope f (ref_frequency fb) g_default_dispersion))
  | DispScalar d => beta2 fb f = Ok (g_beta2 f (g_disp_noslope f (ref_frequency fb) d))
  | DispSlope d s => beta2 fb f = Ok (g_beta2 f (g_disp_slope f (ref_frequency fb) d s))
  | DispTable [f0] [d] => beta2 fb f = Ok (g_beta2 f (g_disp_noslope f f0 d))
  | DispTable _ _ => True
  end.
Proof.
  intros fb f. unfold beta2. destruct (fb_disp fb) as [| d | d s | fs vs]; try reflexivity.
  destruct fs as [|f0 [|f1 ft]]; try exact I. destruct vs as [|d [|d1 vt]]; try exact I. reflexivity.
Qed.

(* effective area / gamma, contrast, frequency scaling of the effective area and of gamma *)
Lemma gen_area : forall fb : @fiber N,
  effective_area fb = match fb_area fb with
                      | AreaDefault => g_default_area
                      | AreaGiven a => a
                      | GammaGiven g => g_area_from_gamma (ref_wavelength fb) g
                      end.
Proof. intros fb. unfold effective_area. destruct (fb_area fb); reflexivity. Qed.

Lemma gen_gamma : forall (fb : @fiber N) f,
  contrast fb = g_contrast (ref_frequency fb) (effective_area fb) /\
  effective_area_scaling fb f = g_effective_area_scaling (contrast fb) f /\
  gamma_scaling fb f = g_gamma_scaling (effective_area_scaling fb f) f.
Proof. intros. repeat split; reflexivity. Qed.

(* input connector and padding before the NLI is computed *)
Lemma gen_att_in : forall fb : @fiber N, att_in_lin fb = g_att_lin (g_att_in_db (fb_con_in fb) (fb_att_in fb)).
Proof. reflexivity. Qed.
End G.
