(* C17 translator tie: every definition generated from gnpy/core/elements.py, parameters.py and network.py
   (Gen/RedesignGen.v, regenerated on every run by harness/pygen_c17.py) equals the corresponding part of the hand-written
   model (Model/Redesign.v).  The model keeps exported numbers in lowest terms (a JSON number is a value): oqred / Qred
   around what the source exports as it is. *)
From Coq Require Import QArith Qminmax Lia Lqa.
From Verif Require Import Prelude Model.Chain Model.Redesign Gen.RedesignGen.
Open Scope Z_scope.

(* ------------------------------------------------------------------ Edfa.to_json *)
Theorem gen_export_amp : forall o,
  let gain := Some (o_gain o) in
  let dp := o_dp o in
  let tilt := Some (o_tilt o) in
  let voa := Some (o_voa o) in
  let inv := Some (o_invoa o) in
  export_amp o =
  mkIn (o_name o) (o_var o)
       (g_edfa_gain gain dp tilt voa inv)
       (oqred (g_edfa_dp gain dp tilt voa inv))
       (g_edfa_tilt gain dp tilt voa inv)
       (oqred (g_edfa_voa gain dp tilt voa inv))
       (oqred (g_edfa_invoa gain dp tilt voa inv)).
Proof. reflexivity. Qed.

(* an amplifier without gain / tilt keeps None in the export (the source tests `is not None`, not truthiness: a gain of
   exactly 0 dB is exported as 0) *)
Theorem gen_edfa_none : forall dp voa inv,
  g_edfa_gain None dp None voa inv = None /\ g_edfa_tilt None dp None voa inv = None /\
  g_edfa_gain (Some 0%Q) dp None voa inv = Some (round_dec 6 0).
Proof. intros. repeat split; reflexivity. Qed.

(* ------------------------------------------------------------------ Fiber.to_json, Roadm.to_json *)
Theorem gen_export_fib : forall f,
  f_len (export_fib f) = Qred (g_fiber_len_km (f_len f) * inject_Z 1000) /\
  f_lc (export_fib f) = Qred (g_fiber_lc_km (f_lc f) / inject_Z 1000).
Proof. intros f. split; reflexivity. Qed.

(* lumped losses are exported exactly when there are some, so the reloaded list (default: none) is the designed one;
   the model keeps the list *)
Theorem gen_export_lumped : forall f,
  f_lumped (export_fib f) =
  map qred2 (if g_fiber_lumped_exported (Z.of_nat (length (f_lumped f))) then f_lumped f else []).
Proof.
  intros f. cbn [export_fib f_lumped]. unfold g_fiber_lumped_exported.
  destruct (f_lumped f) as [|x t]; [reflexivity|].
  replace (0 <? Z.of_nat (length (x :: t))) with true; [reflexivity|].
  symmetry. apply Z.ltb_lt. cbn [length]. lia.
Qed.

Theorem gen_export_bands : forall (A : Type) (l : list A),
  export_bands l = if g_roadm_bands_exported (Z.of_nat (length l)) then Some l else None.
Proof.
  intros A l. unfold g_roadm_bands_exported. destruct l as [|x t]; [reflexivity|].
  replace (1 <=? Z.of_nat (length (x :: t))) with true; [reflexivity|].
  symmetry. apply Z.leb_le. cbn [length]. lia.
Qed.

(* ------------------------------------------------------------------ FiberParams *)
(* what Parameters.asdict copies into every span of a split fibre: in particular pmd_coef AND pmd_coef_defined (so
   that a user value survives the split and is exported), the lumped losses, att_in and both connectors *)
Theorem gen_fiberparams_properties :
  g_fiberparams_properties =
  ["length"; "att_in"; "con_in"; "con_out"; "lumped_losses"; "dispersion"; "f_dispersion_ref"; "dispersion_slope";
   "gamma"; "pmd_coef"; "pmd_coef_defined"; "ref_wavelength"; "ref_frequency"; "loss_coef"; "f_loss_ref";
   "raman_coefficient"; "latency"]%string.
Proof. reflexivity. Qed.

(* ------------------------------------------------------------------ RamanParams, NLIParams, SimParams *)
Theorem gen_raman_params : forall p,
  map fst (raman_json p) = g_raman_keys /\
  raman_of [] = Ok (mkRaman (dflt_of "flag" g_raman_defaults JNone) (dflt_of "method" g_raman_defaults JNone)
                            (dflt_of "order" g_raman_defaults JNone)
                            (dflt_of "result_spatial_resolution" g_raman_defaults JNone)
                            (dflt_of "solver_spatial_resolution" g_raman_defaults JNone)) /\
  map fst g_raman_defaults = g_raman_keys.
Proof. intros p. repeat split; reflexivity. Qed.

Theorem gen_nli_params : forall p,
  map fst (nli_json p) = g_nli_keys /\
  nli_of [] = Ok (mkNli match dflt_of "method" g_nli_defaults JNone with JS m => lower m | _ => "" end
                        (dflt_of "dispersion_tolerance" g_nli_defaults JNone)
                        (dflt_of "phase_shift_tolerance" g_nli_defaults JNone)
                        (dflt_of "computed_channels" g_nli_defaults JNone)
                        (dflt_of "computed_number_of_channels" g_nli_defaults JNone)) /\
  map fst g_nli_defaults = g_nli_keys.
Proof. intros p. repeat split; reflexivity. Qed.

(* estimate_raman_gain: saved before the set, the solver sees the source's sim_params, restored afterwards *)
Theorem gen_estimate_params : forall st,
  estimate_raman_gain_params st =
  let save_raman := raman_json (sp_raman st) in
  let save_nli := nli_json (sp_nli st) in
  let* during := set_params g_during_nli g_during_raman in
  let* after := set_params (Some save_nli) (Some save_raman) in
  Ok (during, after).
Proof. reflexivity. Qed.

(* ------------------------------------------------------------------ amplifier design arithmetic
   (compute_gain_power_and_tilt_target, set_one_amplifier, set_amplifier_voa; SRS deviation 0; the model carries
   D = prev_dp - prev_voa, hence == where the source associates the sum differently) *)
Lemma Qmin_qmin : forall a b, Qmin a b = qmin a b.
Proof.
  intros a b. unfold Qmin, GenericMinMax.gmin, qmin.
  destruct (Qle_bool a b) eqn:L; destruct (a ?= b)%Q eqn:E; try reflexivity; exfalso.
  - apply Qle_bool_iff in L. apply Qgt_alt in E. lra.
  - apply Qeq_alt in E. assert (H : (a <= b)%Q) by lra. apply Qle_bool_iff in H. congruence.
  - apply Qlt_alt in E. assert (H : (a <= b)%Q) by lra. apply Qle_bool_iff in H. congruence.
Qed.
Lemma Qmax_qmax : forall a b, (Qmax a b == qmax a b)%Q.
Proof.
  intros a b. unfold Qmax, GenericMinMax.gmax, qmax.
  destruct (Qle_bool a b) eqn:L; destruct (a ?= b)%Q eqn:E; try reflexivity.
  - apply Qeq_alt in E. exact E.
  - exfalso. apply Qle_bool_iff in L. apply Qgt_alt in E. lra.
  - exfalso. apply Qlt_alt in E. assert (H : (a <= b)%Q) by lra. apply Qle_bool_iff in H. congruence.
Qed.
Lemma qmin_compat : forall a x y, (x == y)%Q -> (qmin a x == qmin a y)%Q.
Proof.
  intros a x y H. unfold qmin. rewrite (Qleb_comp a a (Qeq_refl a) x y H).
  destruct (Qle_bool a y); [reflexivity | exact H].
Qed.

Theorem gen_amp_dp0 : forall s x a,
  amp_dp0 s x a =
  match i_dp a with
  | None => g_dp_rule (target_power s (x_next x)) (otru (i_voa a))
  | Some u => g_dp_user u
  end.
Proof. reflexivity. Qed.

Definition power_mode_targets (gd : Q * Q) (loss dp0 prev_dp prev_voa inv : Q) : Prop :=
  (fst gd == g_gain_pm loss 0 dp0 prev_dp prev_voa inv)%Q /\ snd gd = dp0.

Theorem gen_amp_gd : forall s prev_dp prev_voa x a,
  let gd := amp_gd s (prev_dp - prev_voa) x a in
  let dp0 := amp_dp0 s x a in
  let inv := otru (i_invoa a) in
  match i_gain a with
  | Some g =>
      if s_pm s then power_mode_targets gd (x_loss x) dp0 prev_dp prev_voa inv
      else fst gd = g /\ (snd gd == g_dp_gm prev_dp (x_loss x) 0 prev_voa g inv)%Q
  | None => power_mode_targets gd (x_loss x) dp0 prev_dp prev_voa inv
  end.
Proof.
  intros s prev_dp prev_voa x a. unfold amp_gd, power_mode_targets, g_gain_pm, g_dp_gm.
  destruct (i_gain a) as [g|]; [destruct (s_pm s)|]; cbn [fst snd]; split; try reflexivity; ring.
Qed.

Theorem gen_amp_pr : forall s prev_dp prev_voa x a b gd, String.eqb (i_var a) "" = false ->
  (amp_pr s (prev_dp - prev_voa) x a b gd ==
   if s_pm s then g_red_pm (b_pmax b) (x_ptot x) (snd gd)
   else g_red_gm (b_pmax b) (x_ptot x) prev_dp (x_loss x) prev_voa (fst gd))%Q.
Proof.
  intros s prev_dp prev_voa x a b gd H. unfold amp_pr. rewrite H.
  destruct (s_pm s); unfold g_red_pm, g_red_gm; rewrite Qmin_qmin; [reflexivity|].
  apply qmin_compat. ring.
Qed.

Theorem gen_amp_voa : forall s x a b gd pr, i_voa a = None -> s_pm s && b_vauto b = true ->
  (fst (amp_voa s x a b gd pr) == g_auto_voa s (b_pmax b) (b_gfm b) (g_power_target (x_ptot x) (snd gd)) (fst gd + pr))%Q /\
  snd (amp_voa s x a b gd pr) = fst (amp_voa s x a b gd pr).
Proof.
  intros s x a b gd pr H1 H2. unfold amp_voa. rewrite H1, H2. cbn [fst snd]. split; [|reflexivity].
  unfold g_auto_voa, g_power_target, round2float, c_voa_step, c_voa_margin. rewrite !Qmin_qmin.
  symmetry. apply Qmax_qmax.
Qed.
Theorem gen_amp_voa_user : forall s x a b gd pr v, i_voa a = Some v -> amp_voa s x a b gd pr = (v, 0%Q).
Proof. intros s x a b gd pr v H. unfold amp_voa. rewrite H. reflexivity. Qed.
