(* C10 translator tie: every definition generated from gnpy/core/network.py (Gen/SelectGen.v, regenerated on every run
   by harness/pygen_c10.py) equals the hand-written model (Model/Select.v). *)
From Coq Require Import QArith Qminmax Lia.
From Verif Require Import Prelude Model.Select Proofs.Select Gen.SelectGen.
Open Scope Q_scope.

(* ------------------------------------------------------------------ the translated expressions *)
Lemma gen_edfa_power : forall ext gain pt a, g_edfa_power ext gain pt a = pow_margin ext gain pt a.
Proof. reflexivity. Qed.
Lemma gen_raman_power : forall ext gain pt a, g_raman_power ext gain pt a = pow_margin ext gain pt a.
Proof. reflexivity. Qed.
Lemma gen_edfa_gain_min : forall gain a, a_raman a = false -> g_edfa_gain_min gain a = gain_margin gain a.
Proof. intros gain a H. unfold g_edfa_gain_min, gain_margin. rewrite H. reflexivity. Qed.
Lemma gen_raman_gain_min : forall gain a, a_raman a = true -> g_raman_gain_min gain a = gain_margin gain a.
Proof. intros gain a H. unfold g_raman_gain_min, gain_margin. rewrite H. reflexivity. Qed.

(* the Edfa_list entry the model stands for *)
Definition mk_row (ext gain pt : Q) (a : amp) : row := mkRow a (pow_margin ext gain pt a) (gain_margin gain a).

Lemma filter_map_comm : forall A B (f : A -> B) (p : B -> bool) l,
  filter p (map f l) = map f (filter (fun x => p (f x)) l).
Proof.
  intros A B f p l. induction l as [| x t IH]; [reflexivity |]. cbn. destruct (p (f x)); cbn; rewrite IH; reflexivity.
Qed.

Lemma gen_edfa_list : forall ext gain pt lib,
  map (fun a => mkRow a (g_edfa_power ext gain pt a) (g_edfa_gain_min gain a)) (filter g_edfa_filter lib)
  = map (mk_row ext gain pt) (edfa_list lib).
Proof.
  intros ext gain pt lib. unfold edfa_list, g_edfa_filter. apply map_ext_in. intros a Ha.
  apply filter_In in Ha. destruct Ha as [_ Ha]. apply negb_true_iff in Ha.
  unfold mk_row. rewrite gen_edfa_power, (gen_edfa_gain_min gain a Ha). reflexivity.
Qed.

Lemma gen_raman_list : forall (ra : bool) ext gain pt lib,
  (if ra then map (fun a => mkRow a (g_raman_power ext gain pt a) (g_raman_gain_min gain a)) (filter g_raman_filter lib)
   else [])
  = map (mk_row ext gain pt) (raman_list ra lib).
Proof.
  intros ra ext gain pt lib. unfold raman_list, g_raman_filter. destruct ra; [| reflexivity].
  apply map_ext_in. intros a Ha. apply filter_In in Ha. destruct Ha as [_ Ha].
  unfold mk_row. rewrite gen_raman_power, (gen_raman_gain_min gain a Ha). reflexivity.
Qed.

Lemma fold_max_rows : forall ext gain pt t m,
  fold_left (fun m x => Qmax m (r_power x)) (map (mk_row ext gain pt) t) m
  = fold_left (fun m a => Qmax m (pow_margin ext gain pt a)) t m.
Proof. intros ext gain pt t. induction t as [| x t IH]; intros m; [reflexivity |]. cbn. apply IH. Qed.

Lemma length_lt1_map : forall A B (f : A -> B) l, (length (map f l) <? 1)%nat = match l with [] => true | _ => false end.
Proof. intros A B f l. destruct l; reflexivity. Qed.

(* ------------------------------------------------------------------ filter_edfa_list_based_on_targets *)
Theorem gen_filter : forall ra gain pt ext lib,
  g_filter ra gain pt ext lib =
  (let* g := acc_gain ra gain lib in
   match g with
   | [] => Err "ValueError:max() arg is an empty sequence"
   | _ => Ok (map (mk_row ext gain pt) (acc_power ext gain pt g))
   end).
Proof.
  intros ra gain pt ext lib. unfold g_filter.
  rewrite gen_edfa_list, gen_raman_list, <- map_app. fold (amp_list ra lib).
  unfold g_gain_ok. rewrite (filter_map_comm _ _ (mk_row ext gain pt)). cbn [mk_row r_gain_min].
  unfold acc_gain.
  set (fg := filter (fun x => qltb 0 (gain_margin gain x)) (amp_list ra lib)).
  rewrite !length_lt1_map.
  assert (Hpow : forall g, g <> [] ->
    (let acceptable_power_list := filter g_power_ok (map (mk_row ext gain pt) g) in
     if (length acceptable_power_list <? 1)%nat then
       match map (mk_row ext gain pt) g with
       | [] => Err "ValueError:max() arg is an empty sequence"
       | h :: t => let power_max := fold_left (fun m x => Qmax m (r_power x)) t (r_power h) in
                   Ok (filter (g_window power_max) (map (mk_row ext gain pt) g))
       end
     else Ok acceptable_power_list)
    = Ok (map (mk_row ext gain pt) (acc_power ext gain pt g))).
  { intros g Hg. cbv zeta. unfold g_power_ok. rewrite (filter_map_comm _ _ (mk_row ext gain pt)). cbn [mk_row r_power].
    rewrite length_lt1_map. unfold acc_power.
    destruct (filter (fun x => qltb 0 (pow_margin ext gain pt x)) g) as [| y l'] eqn:E.
    - destruct g as [| h t]; [congruence |]. cbn [map]. cbv zeta. cbn [mk_row r_power].
      rewrite fold_max_rows. unfold g_window.
      rewrite <- (map_cons (mk_row ext gain pt) h t), (filter_map_comm _ _ (mk_row ext gain pt)). reflexivity.
    - reflexivity. }
  destruct fg as [| x0 fg'] eqn:Efg.
  - destruct (edfa_list lib) as [| e0 el] eqn:Ee; cbn [bind].
    + reflexivity.
    + rewrite <- Ee at 1. cbn [bind]. rewrite Ee. apply (Hpow (e0 :: el)). discriminate.
  - cbn [bind]. apply (Hpow (x0 :: fg')). discriminate.
Qed.

(* ------------------------------------------------------------------ select_edfa *)
Lemma first_min_row_amp : forall ext gain pt nf t h,
  first_min_row nf (mk_row ext gain pt h) (map (mk_row ext gain pt) t) = mk_row ext gain pt (first_min nf h t).
Proof.
  intros ext gain pt nf t. induction t as [| x t IH]; intros h; [reflexivity |].
  cbn [map first_min_row first_min mk_row r_amp]. destruct (qltb (nf x) (nf h)); apply IH.
Qed.

Theorem gen_select_edfa : forall ra gain pt ext nf lib,
  g_select_edfa ra gain pt ext nf lib = select_edfa ra gain pt ext nf lib.
Proof.
  intros ra gain pt ext nf lib. unfold g_select_edfa, select_edfa. rewrite gen_filter.
  pose proof (acc_gain_pool ra gain lib) as HG.
  destruct (acc_gain ra gain lib) as [g | e]; cbn [bind]; [| reflexivity].
  destruct HG as [_ Hne]. destruct g as [| g0 gt]; [congruence |]. cbn [bind].
  pose proof (acc_power_nonempty ext gain pt (g0 :: gt) Hne) as Hp.
  destruct (acc_power ext gain pt (g0 :: gt)) as [| h t]; [congruence |].
  cbn [map]. rewrite first_min_row_amp. reflexivity.
Qed.

(* ------------------------------------------------------------------ restrictions, band cover, raman_allowed *)
Theorem gen_permb : forall r bmin bmax a, g_permb r bmin bmax a = permb r bmin bmax a.
Proof.
  intros r bmin bmax a. unfold g_permb, permb, covers.
  destruct (a_multi a), (Qle_bool (a_fmin a) bmin), (Qle_bool bmax (a_fmax a)); reflexivity.
Qed.

Theorem gen_presel_cover : forall a bmin bmax, g_presel_cover a bmin bmax = covers a bmin bmax.
Proof. reflexivity. Qed.

Theorem gen_raman_allowed : forall prev maxl, g_raman_allowed prev maxl = raman_allowed prev maxl.
Proof.
  intros prev maxl. unfold g_raman_allowed, raman_allowed. destruct prev as [b p | lcs |]; try reflexivity.
  induction lcs as [| y t IH]; [reflexivity |]. cbn [forallb all_lt]. rewrite IH. reflexivity.
Qed.

(* ------------------------------------------------------------------ edfa_nf, module state (template-matched only) *)
Theorem gen_nf_of_entry_at_hand : g_nf_of_entry_at_hand = true.
Proof. reflexivity. Qed.
