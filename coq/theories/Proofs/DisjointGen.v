(* Translator tie for C12: Gen/DisjointGen.v (generated from /repo's source on every run) against Model/Disjoint.v *)
From Coq Require Import Lia ZifyBool.
From Verif Require Import Prelude Model.Route Proofs.Route Model.Disjoint Proofs.Disjoint Gen.DisjointGen.
Open Scope Z_scope.

Lemma gen_isdisjoint p1 p2 : g_isdisjoint p1 p2 = isdisjoint p1 p2.
Proof. reflexivity. Qed.

(* the candidate enumeration is cut at 80 links, the bound of exists_disjoint_pair_spec *)
Lemma gen_cutoff : Z.to_nat g_cutoff = search_cutoff.
Proof. reflexivity. Qed.

Lemma gen_step2_conflicts a b c : g_step2_conflicts a b c = step2_conflicts a b c.
Proof. reflexivity. Qed.

(* step 2 accepts a candidate exactly when neither it nor its reverse shares a consecutive pair with the chosen path *)
Lemma gen_step2_accept a b c :
  g_step2_accept (g_step2_conflicts a b c) = true <-> isdisjoint a c = 0 /\ isdisjoint b c = 0.
Proof.
  unfold g_step2_accept, g_step2_conflicts.
  destruct (isdisjoint_01 a c) as [H1|H1], (isdisjoint_01 b c) as [H2|H2]; rewrite H1, H2; cbn; split; intros H;
    try (split; reflexivity); try discriminate; try reflexivity; destruct H; discriminate.
Qed.

(* step 4 tests the include list against the full element path of the candidate, not its short list *)
Lemma gen_step4_ok nl full short : g_step4_ok nl full short = step4_ok nl full short.
Proof. reflexivity. Qed.
Lemma gen_step4_strict l : g_step4_strict l = step4_strict l.
Proof. reflexivity. Qed.

(* step 5: no candidate for a group -> DisjunctionError, unconditionally *)
Lemma gen_step5 b : g_step5 b = step5 b.
Proof. reflexivity. Qed.

(* compare_reqs: the group test is the shape test of the model *)
Lemma gen_same_disj r1 r2 gs : g_same_disj r1 r2 gs = same_disj r1 r2 gs.
Proof.
  unfold g_same_disj, same_disj. destruct (in_some r1 gs), (in_some r2 gs); cbn; try reflexivity.
  destruct (ms_eq (shape r1 gs) (shape r2 gs)); reflexivity.
Qed.

Lemma gen_compared_attrs : g_compared_attrs = compared_attrs.
Proof. reflexivity. Qed.

Lemma gen_clean_pops : g_clean_pops = clean_pops.
Proof. reflexivity. Qed.
Lemma gen_twin_attrs : g_twin_attrs = twin_attrs /\ twin_attrs = compared_attrs.
Proof. split; reflexivity. Qed.

Lemma gen_rev_keeps n el : g_rev_keeps n el = rev_keeps n el.
Proof. reflexivity. Qed.
