(* C17 — the whole-line export / reload / redesign fixpoint (fibre side and amplifier side composed). *)
From Verif Require Import Prelude Model.Chain Model.Redesign Proofs.Chain Proofs.ChainSplit Proofs.Redesign.
From Coq Require Import QArith Qround Lia ZifyBool Lqa Permutation.
Open Scope Z_scope.

(* ---------- elements that are equal as values (Qeq on every number) ---------- *)
Definition lumq (a b : Q * Q) : Prop := (fst a == fst b)%Q /\ (snd a == snd b)%Q.
Definition fibq (f g : fib) : Prop :=
  f_name f = f_name g /\ f_raman f = f_raman g /\ (f_len f == f_len g)%Q /\ (f_lc f == f_lc g)%Q /\
  oQeq (f_cin f) (f_cin g) /\ oQeq (f_cout f) (f_cout g) /\ (f_att f == f_att g)%Q /\ Forall2 lumq (f_lumped f) (f_lumped g).
Inductive elq : elem -> elem -> Prop :=
| q_fib : forall f g, fibq f g -> elq (Fib f) (Fib g)
| q_fus : forall n l l', (l == l')%Q -> elq (Fus n l) (Fus n l')
| q_amp : forall a b, a_name a = a_name b -> a_multi a = a_multi b -> a_var a = a_var b -> a_gain a = a_gain b ->
                      a_dp a = a_dp b -> a_voa a = a_voa b -> elq (Amp a) (Amp b).

Definition kind (e : elem) : Z := fst (ekey e).
Lemma elq_kind : forall e e', elq e e' -> kind e = kind e'.
Proof. intros e e' H. destruct H; reflexivity. Qed.
Lemma elq_name : forall e e', elq e e' -> el_name e = el_name e'.
Proof. intros e e' H. destruct H as [f g (N & _)|n l l' _|a b N]; cbn; auto. Qed.
Lemma lumq_sum : forall l l', Forall2 lumq l l' -> (qsum (map snd l) == qsum (map snd l'))%Q.
Proof. induction 1 as [|a b l l' [_ H] _ IH]; [reflexivity|]. cbn. rewrite H, IH. reflexivity. Qed.
Lemma oQeq_oget : forall a b, oQeq a b -> (oget a == oget b)%Q.
Proof. intros [x|] [y|] H; cbn in *; try contradiction; [exact H | reflexivity]. Qed.
Lemma elq_loss : forall e e', elq e e' -> (el_loss e == el_loss e')%Q.
Proof.
  intros e e' H. destruct H as [f g (N & R & L & C & I & O & A & U)|n l l' E|a b]; cbn [el_loss]; [|exact E|reflexivity].
  unfold fib_loss. rewrite L, C, A, (oQeq_oget _ _ I), (oQeq_oget _ _ O), (lumq_sum _ _ U). reflexivity.
Qed.
Lemma elq_run_loss : forall r r', Forall2 elq r r' -> (run_loss r == run_loss r')%Q.
Proof. unfold run_loss. induction 1 as [|e e' r r' H _ IH]; [reflexivity|]. cbn [map qsum]. rewrite (elq_loss e e' H), IH. reflexivity. Qed.
Lemma elq_raman_first : forall rg r r', Forall2 elq r r' -> raman_first rg r = raman_first rg r'.
Proof.
  unfold raman_first. induction 1 as [|e e' r r' H _ IH]; [reflexivity|]. cbn [map qsum]. rewrite IH. f_equal.
  destruct H as [f g (N & R & _)|?|?]; try reflexivity. rewrite N, R. reflexivity.
Qed.
Lemma elq_span_sl : forall c r r', Forall2 elq r r' -> (span_sl c r == span_sl c r')%Q.
Proof. intros c r r' H. unfold span_sl. rewrite (elq_run_loss r r' H), (elq_raman_first (c_rg c) r r' H). reflexivity. Qed.
Lemma elq_has_raman : forall r r', Forall2 elq r r' -> has_raman r = has_raman r'.
Proof.
  unfold has_raman. induction 1 as [|e e' r r' H _ IH]; [reflexivity|]. cbn [existsb]. rewrite IH. f_equal.
  destruct H as [f g (N & R & _)|?|?]; try reflexivity. exact R.
Qed.
Lemma elq_last : forall r r', Forall2 elq r r' -> elq (last r dflt) (last r' dflt).
Proof.
  induction 1 as [|e e' r r' H F IH]; [apply q_fus; reflexivity|].
  destruct F as [|e2 e2' r2 r2' H2 F2]; [exact H | exact IH].
Qed.
Lemma elq_starts_fib : forall r r', Forall2 elq r r' -> starts_fib r = starts_fib r'.
Proof. intros r r' H. destruct H as [|e e' r r' H _]; [reflexivity|]. destruct H; reflexivity. Qed.

(* spans of related chains are related span by span *)
Lemma groups_rel : forall {A} (R : A -> A -> Prop) (b : A -> A -> bool),
  (forall x x' y y', R x x' -> R y y' -> b x y = b x' y') ->
  forall l l', Forall2 R l l' -> Forall2 (Forall2 R) (groups b l) (groups b l').
Proof.
  intros A R b Hb. induction 1 as [|x x' l l' Hx F IH]; [constructor|]. cbn [groups].
  pose proof (groups_nonempty b l) as N1. pose proof (groups_nonempty b l') as N2.
  destruct IH as [|g g' gs gs' Hg Hgs]; [repeat constructor; exact Hx|].
  destruct Hg as [|y y' r r' Hy Hr].
  - inversion N1; subst. contradiction.
  - rewrite (Hb x x' y y' Hx Hy). destruct (b x' y').
    + constructor; [repeat constructor; exact Hx|]. constructor; [constructor; assumption | exact Hgs].
    + constructor; [constructor; [exact Hx | constructor; assumption] | exact Hgs].
Qed.
Lemma elq_brk : forall x x' y y', elq x x' -> elq y y' -> brk x y = brk x' y'.
Proof. intros x x' y y' H1 H2. destruct H1, H2; reflexivity. Qed.
Lemma elq_runs : forall l l', Forall2 elq l l' -> Forall2 (Forall2 elq) (runs l) (runs l').
Proof. intros. unfold runs. apply groups_rel; [exact elq_brk | assumption]. Qed.

(* ---------- a span on which add_fiber_padding has nothing left to do ---------- *)
Definition settled (c : cfg) (r : list elem) : bool :=
  match last r dflt with
  | Fib f => f_raman f || negb (Qltb (span_sl c r) (c_pad c)) || negb (starts_fib r)
  | _ => true
  end.
Lemma pad_run_settled : forall c r r', pad_run c r = Ok r' -> settled c r' = true.
Proof.
  intros c r r' H. unfold pad_run in H. unfold settled.
  destruct (last r dflt) as [f|n lo|a] eqn:El.
  - destruct (f_raman f) eqn:Er.
    + inversion H; subst r'. rewrite El, Er. reflexivity.
    + destruct (Qltb (span_sl c r) (c_pad c)) eqn:Elt.
      * destruct r as [|[g|n lo|a] t].
        -- inversion H; subst r'. reflexivity.
        -- inversion H; subst r'. clear H.
           set (d := (c_pad c - span_sl c (Fib g :: t))%Q) in *.
           assert (L : exists f', last (bump (Fib g) d :: t) dflt = Fib f').
           { destruct t as [|e2 t2]; [eexists; reflexivity|]. exists f. rewrite <- El. reflexivity. }
           destruct L as (f' & L1).
           change (Fib {| f_name := f_name g; f_raman := f_raman g; f_len := f_len g; f_lc := f_lc g; f_cin := f_cin g;
                          f_cout := f_cout g; f_att := f_att g + d; f_lumped := f_lumped g |}) with (bump (Fib g) d).
           rewrite L1.
           assert (Hge : Qltb (span_sl c (bump (Fib g) d :: t)) (c_pad c) = false).
           { apply Qltb_ge. rewrite span_sl_bump. unfold d. ring_simplify. apply Qle_refl. }
           rewrite Hge. cbn [negb]. rewrite Bool.orb_true_r. reflexivity.
        -- inversion H; subst r'. rewrite El. cbn [starts_fib negb]. rewrite Bool.orb_true_r. reflexivity.
        -- inversion H; subst r'. rewrite El. cbn [starts_fib negb]. rewrite Bool.orb_true_r. reflexivity.
      * inversion H; subst r'. rewrite El, Elt. cbn [negb]. rewrite Bool.orb_true_r. reflexivity.
  - inversion H; subst r'. rewrite El. reflexivity.
  - inversion H; subst r'. rewrite El. reflexivity.
Qed.
Lemma settled_pad : forall c q, settled c q = true -> pad_run c q = Ok q.
Proof.
  intros c q H. unfold settled in H. unfold pad_run.
  destruct (last q dflt) as [f|n lo|a]; try reflexivity.
  destruct (f_raman f); [reflexivity|]. cbn [orb] in H.
  destruct (Qltb (span_sl c q) (c_pad c)); [|reflexivity]. cbn [negb orb] in H.
  destruct q as [|[g|n lo|a] t]; try reflexivity. cbn in H. discriminate.
Qed.
Lemma settled_elq : forall c r q, Forall2 elq r q -> settled c r = settled c q.
Proof.
  intros c r q H. unfold settled. pose proof (elq_last r q H) as L.
  destruct L as [f g (N & R & _)|n l l' _|a b]; try reflexivity.
  rewrite R, (elq_starts_fib r q H), (Qltb_comp _ _ _ _ (elq_span_sl c r q H) (Qeq_refl (c_pad c))). reflexivity.
Qed.
Lemma mapM_id : forall {A} (f : A -> res A) l, Forall (fun x => f x = Ok x) l -> mapM f l = Ok l.
Proof. intros A f l H. induction H as [|x l Hx _ IH]; [reflexivity|]. cbn. rewrite Hx. cbn. rewrite IH. reflexivity. Qed.
(* a chain whose spans are all settled is left alone by add_fiber_padding *)
Lemma pad_chain_settled : forall c l, Forall (fun r => settled c r = true) (runs l) -> pad_chain c l = Ok l /\ mapM (pad_run c) (runs l) = Ok (runs l).
Proof.
  intros c l H. assert (M : mapM (pad_run c) (runs l) = Ok (runs l)).
  { apply mapM_id. eapply Forall_impl; [|exact H]. intros r Hr. apply settled_pad. exact Hr. }
  split; [|exact M]. unfold pad_chain. rewrite M. cbn [bind]. unfold runs. rewrite groups_concat. reflexivity.
Qed.

(* ---------- the reloaded chain equals the designed one as values ---------- *)
Lemma elq_export : forall e e', elq e e' -> export_el e = export_el e'.
Proof.
  intros e e' H. destruct H as [f g (N & R & L & C & I & O & A & U)|n l l' E|a b N M V G D W]; cbn [export_el].
  - f_equal. unfold export_fib. rewrite N, R. f_equal.
    + apply Qred_complete. rewrite (round_dec_comp 6 _ _ (Qdiv_comp _ _ L _ _ (Qeq_refl _))). reflexivity.
    + apply Qred_complete. rewrite (round_dec_comp 6 (f_lc f * inject_Z 1000) (f_lc g * inject_Z 1000)) by (rewrite C; reflexivity). reflexivity.
    + apply oqred_eq. exact I.
    + apply oqred_eq. exact O.
    + apply Qred_complete. exact A.
    + induction U as [|x y l l' [U1 U2] _ IH]; [reflexivity|]. cbn [map]. rewrite IH. f_equal. unfold qred2. f_equal; apply Qred_complete; assumption.
  - f_equal. apply Qred_complete. exact E.
  - rewrite N, M, V, G, D, W. reflexivity.
Qed.
Lemma elq_exports : forall l l', Forall2 elq l l' -> export_els l = export_els l'.
Proof. unfold export_els. induction 1 as [|e e' l l' H _ IH]; [reflexivity|]. cbn [map]. rewrite IH, (elq_export e e' H). reflexivity. Qed.

(* the designed fibre lies on the export grid: length [km] and loss coefficient [dB/km] have at most 6 decimals *)
Definition grid_ok (e : elem) : Prop :=
  match e with
  | Fib f => (f_len (export_fib f) == f_len f)%Q /\ (f_lc (export_fib f) == f_lc f)%Q
  | _ => True
  end.
Lemma lumq_qred : forall l, Forall2 lumq l (map qred2 l).
Proof. induction l as [|[a b] t IH]; constructor; [split; cbn; symmetry; apply Qred_correct | exact IH]. Qed.
Lemma reload_conn_elq : forall c p, (c_eol c == 0)%Q -> Forall grid_ok p -> forallb fib_ok p = true ->
  Forall2 elq p (conn c (export_els p)).
Proof.
  intros c p H0 Hg Hf. induction p as [|e t IH]; [constructor|].
  inversion Hg as [|? ? Hge Hgt]; subst. cbn [forallb] in Hf. apply andb_prop in Hf. destruct Hf as [Hfe Hft].
  specialize (IH Hgt Hft). destruct e as [f|n lo|a]; cbn [export_els map export_el conn].
  - constructor; [|exact IH]. constructor. cbn in Hfe. destruct Hge as [G1 G2].
    destruct (f_cin f) as [ci|] eqn:Ei; [|discriminate]. destruct (f_cout f) as [co|] eqn:Eo; [|discriminate].
    unfold fibq, conn_fib. cbn [f_name f_raman f_len f_lc f_cin f_cout f_att f_lumped export_fib oqred]. rewrite Ei, Eo. cbn [oqred oQeq].
    repeat split; try reflexivity.
    + symmetry. exact G1.
    + symmetry. exact G2.
    + symmetry. apply Qred_correct.
    + destruct (next_is_fus (map export_el t)); rewrite ?Qred_correct; [reflexivity|]. rewrite H0. ring.
    + symmetry. apply Qred_correct.
    + apply lumq_qred.
  - constructor; [|exact IH]. constructor. symmetry. apply Qred_correct.
  - constructor; [|exact IH]. constructor; reflexivity.
Qed.

(* ---------- add_missing has nothing to add to a designed and exported chain ---------- *)
Definition short_ok (c : cfg) (e : elem) : Prop := match e with Fib f => (f_len f < qz (c_max c))%Q | _ => True end.
Lemma split_chain_short : forall c l, Forall (short_ok c) l -> split_chain c l = Ok l.
Proof.
  intros c l H. induction H as [|e t He _ IH]; [reflexivity|]. destruct e as [f|n lo|a]; cbn [split_chain]; rewrite IH; try reflexivity.
  unfold split_fib, calc_len. cbn in He. apply Qltb_lt in He. rewrite He. reflexivity.
Qed.
Definition nff (l : list elem) : bool := adj_ok (fun x y => negb (is_fib x && is_fib y)) l.
Lemma add_inline_nff : forall l, nff l = true -> add_inline l = Ok l.
Proof.
  induction l as [|e t IH]; intro H; [reflexivity|]. cbn [add_inline]. unfold nff in *.
  destruct t as [|e2 t2].
  - cbn. destruct e; reflexivity.
  - rewrite adj_cons2 in H. apply andb_prop in H. destruct H as [H1 H2]. rewrite (IH H2). cbn [bind].
    destruct e as [f|n lo|a]; try reflexivity. destruct e2 as [g|n lo|a]; try reflexivity. cbn in H1. discriminate.
Qed.
Lemma add_booster_id : forall l, want_booster l = false -> add_booster l = Ok l.
Proof.
  intros l H. unfold want_booster in H. unfold add_booster. destruct (l_sk l); [|reflexivity]. cbn [is_roadm andb] in H.
  destruct (l_els l) as [|[f|n lo|a] t]; cbn in H; try reflexivity; try discriminate.
  destruct (l_dk l); [discriminate | reflexivity].
Qed.
Lemma add_preamp_id : forall l, want_preamp l = false -> add_preamp l = Ok l.
Proof.
  intros l H. unfold want_preamp, ends_fib in H. unfold add_preamp. destruct (l_dk l); [|reflexivity]. cbn [is_roadm andb] in H.
  destruct (l_els l) as [|e t].
  - cbn in H. destruct (l_sk l); [discriminate | reflexivity].
  - rewrite Bool.orb_false_r in H. destruct (last (e :: t) dflt); [discriminate | reflexivity | reflexivity].
Qed.

Lemma junction_facts : forall dk p x, adj_ok pair_ok (x :: map NEl p ++ [NEnd dk]) = true ->
  nff p = true /\ is_roadm dk && ends_fib p = false /\ n_roadm x && starts_fib p = false.
Proof.
  intros dk. induction p as [|e t IH]; intros x H.
  - repeat split; try reflexivity. destruct (is_roadm dk); reflexivity. apply Bool.andb_false_r.
  - cbn [map app] in H. rewrite adj_cons2 in H. apply andb_prop in H. destruct H as [H1 H2].
    destruct (IH (NEl e) H2) as (I1 & I2 & _). split; [|split].
    + unfold nff in *. destruct t as [|e2 t2]; [reflexivity|]. rewrite adj_cons2, I1, Bool.andb_true_r.
      cbn [map app] in H2. rewrite adj_cons2 in H2. apply andb_prop in H2. destruct H2 as [H2 _].
      unfold pair_ok in H2. destruct e, e2; cbn in *; try reflexivity; discriminate.
    + destruct t as [|e2 t2]; [|exact I2].
      cbn [map app] in H2. rewrite adj_cons2 in H2. apply andb_prop in H2. destruct H2 as [H2 _].
      unfold ends_fib. cbn [last]. unfold pair_ok in H2. destruct e, dk; cbn in *; try reflexivity; discriminate.
    + unfold pair_ok in H1. destruct x as [[|]|y]; destruct e; cbn in *; try reflexivity; discriminate.
Qed.
Lemma export_is_fib : forall e, is_fib (export_el e) = is_fib e.
Proof. destruct e; reflexivity. Qed.
Lemma last_map_dflt : forall l, l <> [] -> last (export_els l) dflt = export_el (last l dflt).
Proof.
  induction l as [|e t IH]; intro H; [contradiction|]. destruct t as [|e2 t2]; [reflexivity|].
  change (export_els (e :: e2 :: t2)) with (export_el e :: export_els (e2 :: t2)).
  change (last (e :: e2 :: t2) dflt) with (last (e2 :: t2) dflt). rewrite <- IH by discriminate. reflexivity.
Qed.
Lemma export_starts_fib : forall l, starts_fib (export_els l) = starts_fib l.
Proof. destruct l as [|[f|n lo|a] t]; reflexivity. Qed.
Lemma export_ends_fib : forall l, ends_fib (export_els l) = ends_fib l.
Proof.
  intro l. unfold ends_fib. destruct l as [|e t]; [reflexivity|].
  change (export_els (e :: t)) with (export_el e :: export_els t).
  change (export_el e :: export_els t) with (export_els (e :: t)). rewrite last_map_dflt by discriminate. apply export_is_fib.
Qed.
Lemma export_nff : forall l, nff (export_els l) = nff l.
Proof.
  unfold nff. induction l as [|e t IH]; [reflexivity|]. destruct t as [|e2 t2]; [reflexivity|].
  change (export_els (e :: e2 :: t2)) with (export_el e :: export_el e2 :: export_els t2).
  rewrite !adj_cons2. change (export_el e2 :: export_els t2) with (export_els (e2 :: t2)). rewrite IH, !export_is_fib. reflexivity.
Qed.

(* a designed, exported and reloaded line is left as it is by add_missing *)
Lemma reload_split_id : forall c p, Forall (fstable c) p -> Forall grid_ok p ->
  split_chain c (export_els p) = Ok (export_els p).
Proof.
  intros c p F G. induction p as [|e t IH]; [reflexivity|].
  inversion F as [|? ? Fe Ft]; subst. inversion G as [|? ? Ge Gt]; subst. specialize (IH Ft Gt).
  destruct e as [f|n lo|a]; cbn [export_els map export_el split_chain]; fold (export_els t); rewrite IH; try reflexivity.
  cbn [fstable] in Fe. destruct Ge as [G1 _]. rewrite (Fe (export_fib f) G1). reflexivity.
Qed.
Lemma add_missing_reloaded : forall c x p, junctions_ok (l_sk x) (l_dk x) p = true -> p <> [] ->
  split_chain c (export_els p) = Ok (export_els p) -> add_missing c (with_els x (export_els p)) = Ok (with_els x (export_els p)).
Proof.
  intros c x p Hj Hne Hs. destruct (junction_facts (l_dk x) p (NEnd (l_sk x)) Hj) as (F1 & F2 & F3).
  set (e1 := export_els p) in *.
  assert (Hne1 : e1 <> []) by (destruct p; [contradiction | discriminate]).
  set (l0 := with_els (with_els x e1) e1).
  assert (E0 : l0 = with_els x e1) by (destruct x; reflexivity).
  assert (WB : want_booster l0 = false).
  { unfold want_booster. rewrite E0. cbn [l_sk l_els l_dk with_els]. unfold e1 at 1. rewrite export_starts_fib.
    assert (Hs1 : n_roadm (NEnd (l_sk x)) = is_roadm (l_sk x)) by (destruct (l_sk x); reflexivity). rewrite Hs1 in F3.
    destruct e1 as [|? ?]; [contradiction|]. rewrite Bool.orb_false_r. exact F3. }
  assert (WP : want_preamp l0 = false).
  { unfold want_preamp. rewrite E0. cbn [l_sk l_els l_dk with_els]. unfold e1 at 1. rewrite export_ends_fib.
    destruct e1 as [|? ?]; [contradiction|]. rewrite Bool.orb_false_r. exact F2. }
  unfold add_missing. cbn [l_els with_els]. rewrite Hs. cbn [bind]. fold l0.
  assert (DF : l_dst_first (with_els x e1) = l_dst_first x) by reflexivity. rewrite DF.
  rewrite (add_preamp_id l0 WP), (add_booster_id l0 WB). cbn [bind]. rewrite (add_preamp_id l0 WP), (add_booster_id l0 WB).
  assert (EL : l_els l0 = e1) by reflexivity.
  destruct (l_dst_first x); cbn [bind]; rewrite EL, (add_inline_nff e1) by (unfold e1; rewrite export_nff; exact F1);
    cbn [bind]; rewrite E0; destruct x; reflexivity.
Qed.

(* ---------- fibre side of a whole line ---------- *)
Lemma pad_chain_all_settled : forall c l p, pad_chain c l = Ok p -> Forall (fun r => settled c r = true) (runs p).
Proof.
  intros c l p H. destruct (pad_chain_runs c l p H) as (rs & E & _ & Er & _). rewrite Er.
  pose proof (mapM_ok _ _ _ E) as F. clear E Er.
  induction F as [|a b X Y Hab _ IH]; constructor; [eapply pad_run_settled; exact Hab | exact IH].
Qed.
Lemma Forall2_settled : forall c X Y, Forall2 (Forall2 elq) X Y -> Forall (fun r => settled c r = true) X ->
  Forall (fun r => settled c r = true) Y.
Proof.
  intros c X Y F H. induction F as [|a b X Y Hab _ IH]; [constructor|]. inversion H; subst.
  constructor; [rewrite <- (settled_elq c a b Hab); assumption | apply IH; assumption].
Qed.

Record fibre_fix (c : cfg) (x : line) (p els2 : list elem) : Prop := {
  ff_design : design_line c (with_els x (export_els p)) = Ok (with_els x els2);
  ff_els : els2 = conn c (export_els p);
  ff_elq : Forall2 elq p els2;
  ff_export : export_els els2 = export_els p;
  ff_runs : mapM (pad_run c) (runs els2) = Ok (runs els2);
  ff_missing : add_missing c (with_els x (export_els p)) = Ok (with_els x (export_els p))
}.
(* EOL = 0 and designed fibres on the export grid: the reloaded line is designed into itself, fibre by fibre
   (no span is split again: ChainSplit.calc_len_idem) *)
Lemma fibre_round : forall c x L1, (c_eol c == 0)%Q -> c_min c <= c_max c -> no_auto (l_els x) ->
  design_line c x = Ok L1 -> l_els L1 <> [] -> Forall grid_ok (l_els L1) ->
  fibre_fix c x (l_els L1) (conn c (export_els (l_els L1))).
Proof.
  intros c x L1 H0 Hc Hna H Hne Hg.
  pose proof (reload_split_id c (l_els L1) (design_line_stable c x L1 Hc Hna H) Hg) as Hs.
  destruct (design_line_spec c x L1 Hc Hna H) as [_ Hj Hf _ _ _ _].
  set (p := l_els L1) in *. set (e1 := export_els p) in *. set (els2 := conn c e1).
  pose proof (add_missing_reloaded c x p Hj Hne Hs) as AM. fold e1 in AM.
  pose proof (reload_conn_elq c p H0 Hg Hf) as Q. fold e1 els2 in Q.
  assert (HS : Forall (fun r => settled c r = true) (runs p)).
  { unfold design_line in H. destruct (add_missing c x) as [l1|]; [|discriminate]. cbn [bind] in H.
    destruct (pad_chain c (conn c (l_els l1))) as [pp|] eqn:E2; [|discriminate]. cbn [bind] in H. inversion H; subst L1.
    exact (pad_chain_all_settled _ _ _ E2). }
  pose proof (Forall2_settled c _ _ (elq_runs p els2 Q) HS) as HS2.
  destruct (pad_chain_settled c els2 HS2) as [PC PM].
  constructor; auto.
  - unfold design_line. fold e1. rewrite AM. cbn [bind l_els with_els]. fold els2. rewrite PC. cbn [bind]. destruct x; reflexivity.
  - symmetry. exact (elq_exports p els2 Q).
Qed.

(* ---------- amplifier contexts of the two rounds ---------- *)
Lemma pad_run_has_raman : forall c r r', pad_run c r = Ok r' -> has_raman r' = has_raman r.
Proof. intros c r r' H. destruct (pad_run_shape c r r' H) as [E|(g & t & E1 & E2 & _)]; subst; reflexivity. Qed.
Lemma pad_run_last_plain : forall c r r', pad_run c r = Ok r' -> last_plain_fib r' = last_plain_fib r.
Proof.
  intros c r r' H. destruct (pad_run_shape c r r' H) as [E|(g & t & E1 & E2 & _)]; subst; [reflexivity|].
  unfold last_plain_fib. destruct t as [|e2 t2]; reflexivity.
Qed.
Lemma elq_last_plain : forall r q, Forall2 elq r q -> last_plain_fib r = last_plain_fib q.
Proof.
  intros r q H. unfold last_plain_fib. destruct (elq_last r q H) as [f g (N & R & _)|?|?]; try reflexivity. rewrite R. reflexivity.
Qed.
Lemma raman_gain_plain : forall rg r, has_raman r = false -> (raman_gain rg r == 0)%Q.
Proof.
  intros rg. unfold raman_gain, has_raman. induction r as [|e t IH]; intro H; [reflexivity|].
  cbn [existsb map qsum] in *. apply Bool.orb_false_iff in H. destruct H as [H1 H2]. rewrite (IH H2).
  destruct e as [f|n lo|a]; try ring. rewrite H1. ring.
Qed.
Lemma run_dsl_settled : forall c q, settled c q = true -> last_plain_fib q = true -> (run_dsl c q == span_sl c q)%Q.
Proof.
  intros c q Hs Hl. unfold run_dsl. destruct (Qltb (span_sl c q) (c_pad c)) eqn:E; [|reflexivity].
  unfold settled in Hs. unfold last_plain_fib in Hl. destruct (last q dflt) as [f|n lo|a]; try discriminate.
  apply Bool.negb_true_iff in Hl. rewrite Hl, E in Hs. cbn in Hs.
  destruct q as [|[g|n lo|a] t]; try reflexivity. cbn in Hs. discriminate.
Qed.
(* the span loss an amplifier is designed against is the same in both rounds *)
Lemma loss_as_prev_stable : forall c rg r r' q, pad_run c r = Ok r' -> Forall2 elq r' q -> has_raman r = false ->
  (loss_as_prev c rg q q == loss_as_prev c rg r r')%Q.
Proof.
  intros c rg r r' q Hp Hq Hr. unfold loss_as_prev.
  rewrite <- (elq_last_plain r' q Hq), (pad_run_last_plain c r r' Hp).
  pose proof (pad_run_settled c r r' Hp) as S1. rewrite (settled_elq c r' q Hq) in S1.
  destruct (last_plain_fib r) eqn:El.
  - rewrite (run_dsl_settled c q S1) by (rewrite <- (elq_last_plain r' q Hq), (pad_run_last_plain c r r' Hp); exact El).
    rewrite (run_dsl_spec c r r' Hp El). symmetry. apply elq_span_sl. exact Hq.
  - assert (R1 : has_raman r' = false) by (rewrite (pad_run_has_raman c r r' Hp); exact Hr).
    assert (R2 : has_raman q = false) by (rewrite <- (elq_has_raman r' q Hq); exact R1).
    rewrite (raman_gain_plain rg r' R1), (raman_gain_plain rg q R2), (elq_run_loss r' q Hq). reflexivity.
Qed.

Lemma amp_items_noamp : forall c rg rgn opsf ptot dr prev r r' t, is_amp_run r = false ->
  amp_items c rg rgn opsf ptot dr prev ((r, r') :: t) = amp_items c rg rgn opsf ptot dr (Some (r, r')) t.
Proof.
  intros c rg rgn opsf ptot dr prev r r' t H. cbn [amp_items].
  destruct r as [|[f|n lo|a] [|e2 t2]]; try reflexivity. cbn in H. discriminate.
Qed.
Lemma pad_run_amp : forall c a r', pad_run c [Amp a] = Ok r' -> r' = [Amp a].
Proof. intros c a r' H. cbn in H. inversion H. reflexivity. Qed.
Lemma pad_run_is_amp : forall c r r', pad_run c r = Ok r' -> is_amp_run r' = is_amp_run r.
Proof. intros c r r' H. destruct (pad_run_shape c r r' H) as [E|(g & t & E1 & E2 & _)]; subst; [reflexivity|]. destruct t; reflexivity. Qed.
Lemma elq_is_amp : forall r q, Forall2 elq r q -> is_amp_run q = is_amp_run r.
Proof.
  intros r q H. destruct H as [|e e' r q He F]; [reflexivity|]. destruct F as [|e2 e2' r q He2 F]; [|destruct He; reflexivity].
  destruct He; reflexivity.
Qed.

Definition irel (opsf opsf2 : string -> ain) (i1 i2 : actx * ain) : Prop :=
  (x_loss (fst i2) == x_loss (fst i1))%Q /\ x_ptot (fst i2) = x_ptot (fst i1) /\
  exists n, snd i1 = opsf n /\ snd i2 = opsf2 n.
Definition prel (c : cfg) (p1 p2 : option (list elem * list elem)) : Prop :=
  match p1, p2 with
  | None, None => True
  | Some (r, r'), Some (q, q2) => q2 = q /\ pad_run c r = Ok r' /\ Forall2 elq r' q /\ has_raman r = false
  | _, _ => False
  end.
Definition dp_given (opsf2 : string -> ain) (q : list elem) : Prop :=
  match q with [Amp b] => exists d, i_dp (opsf2 (a_name b)) = Some d | _ => True end.

(* the walk over the spans of the reloaded line meets the same amplifiers with equal span losses *)
Lemma amp_items_rel : forall c rg rgn opsf opsf2 ptot dr pre1 post1,
  Forall2 (fun r r' => pad_run c r = Ok r') pre1 post1 ->
  forall pre2 prev1 prev2 items1, Forall2 (Forall2 elq) post1 pre2 -> Forall (fun r => has_raman r = false) pre1 ->
  Forall (dp_given opsf2) pre2 -> prel c prev1 prev2 ->
  amp_items c rg rgn opsf ptot dr prev1 (combine pre1 post1) = Ok items1 ->
  exists items2, amp_items c rg rgn opsf2 ptot dr prev2 (combine pre2 pre2) = Ok items2 /\ Forall2 (irel opsf opsf2) items1 items2.
Proof.
  intros c rg rgn opsf opsf2 ptot dr pre1 post1 FP.
  induction FP as [|r r' pre1 post1 Hp _ IH]; intros pre2 prev1 prev2 items1 FQ HR HD HP H.
  - inversion FQ; subst. cbn in H. inversion H. exists []. split; [reflexivity | constructor].
  - inversion FQ as [|? q ? pre2' Hq FQ']; subst. inversion HR as [|? ? Hr HR']; subst. inversion HD as [|? ? Hd HD']; subst.
    cbn [combine] in H |- *.
    destruct (is_amp_run r) eqn:Ea.
    + (* an amplifier *)
      destruct r as [|[f|n lo|a] [|e2 t2]]; try discriminate.
      pose proof (pad_run_amp c a r' Hp) as E; subst r'.
      inversion Hq as [|? eb ? ? Hab Hnil]; subst. inversion Hnil; subst.
      inversion Hab as [| |? b Nab]; subst.
      cbn [amp_items] in H.
      destruct (match i_dp (opsf (a_name a)) with
                | Some _ => Ok NRoadm
                | None => match combine pre1 post1 with
                          | [] => if dr then Ok NRoadm else Err "AttributeError:target_power of a Transceiver"
                          | (n, n') :: _ => if is_amp_run n then Ok (NLoss 0) else let* l := loss_as_next c rgn n n' in Ok (NLoss l)
                          end
                end) as [nx|] eqn:Enx; [|discriminate]. cbn [bind] in H.
      destruct (amp_items c rg rgn opsf ptot dr None (combine pre1 post1)) as [rest|] eqn:Er; [|discriminate]. cbn [bind] in H.
      inversion H; subst items1. clear H.
      destruct (IH pre2' None None rest FQ' HR' HD' I Er) as (rest2 & R1 & R2).
      cbn [amp_items]. cbn [dp_given] in Hd. destruct Hd as (d & Hd). rewrite Hd. cbn [bind]. rewrite R1. cbn [bind].
      eexists. split; [reflexivity|]. constructor; [|exact R2].
      unfold irel. cbn [fst snd x_loss x_ptot]. split; [|split; [reflexivity|]].
      * destruct prev1 as [[p p']|], prev2 as [[q q2]|]; cbn [prel] in HP; try contradiction; [|reflexivity].
        destruct HP as (-> & P1 & P2 & P3). apply (loss_as_prev_stable c rg p p' q P1 P2 P3).
      * exists (a_name a). split; [reflexivity|]. rewrite Nab. reflexivity.
    + (* a fibre / fused span *)
      rewrite (amp_items_noamp c rg rgn opsf ptot dr prev1 r r' _ Ea) in H.
      assert (Ea2 : is_amp_run q = false) by (rewrite (elq_is_amp r' q Hq), (pad_run_is_amp c r r' Hp); exact Ea).
      rewrite (amp_items_noamp c rg rgn opsf2 ptot dr prev2 q q _ Ea2).
      apply (IH pre2' (Some (r, r')) (Some (q, q)) items1 FQ' HR' HD'); [|exact H].
      cbn [prel]. repeat split; assumption.
Qed.

(* ---------- which amplifiers the walk meets ---------- *)
Definition amp_names (rs : list (list elem)) : list string :=
  flat_map (fun r => match r with [Amp a] => [a_name a] | _ => [] end) rs.
Lemma amp_names_noamp : forall r rs, is_amp_run r = false -> amp_names (r :: rs) = amp_names rs.
Proof. intros r rs H. unfold amp_names. cbn [flat_map]. destruct r as [|[f|n lo|a] [|e2 t2]]; try reflexivity. discriminate. Qed.
Lemma amp_items_amps : forall c rg rgn opsf ptot dr gs prev items,
  amp_items c rg rgn opsf ptot dr prev gs = Ok items -> map snd items = map opsf (amp_names (map fst gs)).
Proof.
  intros c rg rgn opsf ptot dr. induction gs as [|[r r'] t IH]; intros prev items H.
  - inversion H. reflexivity.
  - destruct (is_amp_run r) eqn:Ea.
    + destruct r as [|[f|n lo|a] [|e2 t2]]; try discriminate. cbn [amp_items] in H.
      destruct (match i_dp (opsf (a_name a)) with Some _ => Ok NRoadm | None => _ end) as [nx|]; [|discriminate]. cbn [bind] in H.
      destruct (amp_items c rg rgn opsf ptot dr None t) as [rest|] eqn:Er; [|discriminate]. cbn [bind] in H. inversion H; subst items.
      cbn [map fst snd]. unfold amp_names. cbn [flat_map app map]. f_equal. apply (IH None rest Er).
    + rewrite (amp_items_noamp c rg rgn opsf ptot dr prev r r' t Ea) in H. cbn [map fst]. rewrite (amp_names_noamp r _ Ea).
      apply (IH (Some (r, r')) items H).
Qed.
Lemma map_fst_combine_same : forall {A} (l : list A), map fst (combine l l) = l.
Proof. induction l as [|x l IH]; [reflexivity|]. cbn. rewrite IH. reflexivity. Qed.
Lemma amp_names_pad : forall c pre post, Forall2 (fun r r' => pad_run c r = Ok r') pre post -> amp_names post = amp_names pre.
Proof.
  intros c pre post F. induction F as [|r r' pre post Hp _ IH]; [reflexivity|].
  destruct (is_amp_run r) eqn:Ea.
  - destruct r as [|[f|n lo|a] [|e2 t2]]; try discriminate. rewrite (pad_run_amp c a r' Hp).
    unfold amp_names in *. cbn [flat_map]. rewrite IH. reflexivity.
  - rewrite (amp_names_noamp r pre Ea), (amp_names_noamp r' post) by (rewrite (pad_run_is_amp c r r' Hp); exact Ea). exact IH.
Qed.
Lemma amp_names_elq : forall X Y, Forall2 (Forall2 elq) X Y -> amp_names Y = amp_names X.
Proof.
  intros X Y F. induction F as [|r q X Y Hq _ IH]; [reflexivity|].
  destruct (is_amp_run r) eqn:Ea.
  - destruct r as [|[f|n lo|a] [|e2 t2]]; try discriminate.
    inversion Hq as [|? eb ? ? Hab Hnil]; subst. inversion Hnil; subst. inversion Hab as [| |? b Nab]; subst.
    unfold amp_names in *. cbn [flat_map]. rewrite IH, Nab. reflexivity.
  - rewrite (amp_names_noamp r X Ea), (amp_names_noamp q Y) by (rewrite (elq_is_amp r q Hq); exact Ea). exact IH.
Qed.

Lemma design_amps_names : forall s lib sel l D outs, design_amps s lib sel D l = Ok outs ->
  map o_name outs = map (fun i => i_name (snd i)) l.
Proof.
  intros s lib sel. induction l as [|[x a] t IH]; intros D outs H.
  - inversion H. reflexivity.
  - cbn [design_amps] in H. destruct (design_amp s lib sel D x a) as [[o D1]|] eqn:E1; [|discriminate]. cbn [bind fst snd] in H.
    destruct (design_amps s lib sel D1 t) as [rest|] eqn:E2; [|discriminate]. cbn [bind] in H. inversion H; subst outs.
    cbn [map snd]. rewrite (IH D1 rest E2). f_equal.
    unfold design_amp in E1. destruct (lib (amp_var sel a)); [|discriminate]. inversion E1. reflexivity.
Qed.
Lemma design_amps_dp : forall s lib sel l D outs, s_pm s = true -> design_amps s lib sel D l = Ok outs ->
  Forall (fun o => exists d, o_dp o = Some d) outs.
Proof.
  intros s lib sel. induction l as [|[x a] t IH]; intros D outs Hpm H.
  - inversion H. constructor.
  - cbn [design_amps] in H. destruct (design_amp s lib sel D x a) as [[o D1]|] eqn:E1; [|discriminate]. cbn [bind fst snd] in H.
    destruct (design_amps s lib sel D1 t) as [rest|] eqn:E2; [|discriminate]. cbn [bind] in H. inversion H; subst outs.
    constructor; [|apply (IH D1 rest Hpm E2)].
    unfold design_amp in E1. destruct (lib (amp_var sel a)); [|discriminate]. inversion E1. cbn. rewrite Hpm. eauto.
Qed.
Lemma ops_of_lookup : forall l a, NoDup (map i_name l) -> In a l -> ops_of l (i_name a) = a.
Proof.
  unfold ops_of. induction l as [|b t IH]; intros a ND Hin; [contradiction|]. cbn [ops_lookup].
  cbn [map] in ND. inversion ND as [|? ? Hn ND']; subst. destruct Hin as [->|Hin].
  - rewrite String.eqb_refl. reflexivity.
  - destruct (String.eqb (i_name a) (i_name b)) eqn:E.
    + apply String.eqb_eq in E. exfalso. apply Hn. rewrite <- E. apply in_map. exact Hin.
    + apply IH; assumption.
Qed.
Lemma ops_of_exports : forall outs, NoDup (map o_name outs) ->
  map (ops_of (map export_amp outs)) (map o_name outs) = map export_amp outs.
Proof.
  intros outs ND. rewrite map_map.
  assert (ND' : NoDup (map i_name (map export_amp outs))) by (rewrite map_map; exact ND).
  apply map_ext_in. intros o Ho. change (o_name o) with (i_name (export_amp o)).
  apply ops_of_lookup; [exact ND' | apply in_map; exact Ho].
Qed.

(* a whole OMS, contexts equal as values *)
Lemma design_amps_fix_ctx : forall s lib sel l l2 D D2 outs, pm_ok s lib -> (D2 == D)%Q ->
  design_amps s lib sel D l = Ok outs ->
  Forall2 (fun i1 i2 => (x_loss (fst i2) == x_loss (fst i1))%Q /\ (x_ptot (fst i2) == x_ptot (fst i1))%Q) l l2 ->
  map snd l2 = map export_amp outs ->
  exists outs', design_amps s lib sel D2 l2 = Ok outs' /\ map export_amp outs' = map export_amp outs.
Proof.
  intros s lib sel. induction l as [|[x a] t IH]; intros l2 D D2 outs Hok HD H F M.
  - inversion H; subst. inversion F; subst. exists []. split; reflexivity.
  - cbn [design_amps] in H. destruct (design_amp s lib sel D x a) as [[o D1]|] eqn:E1; [|discriminate]. cbn [bind fst snd] in H.
    destruct (design_amps s lib sel D1 t) as [rest|] eqn:E2; [|discriminate]. cbn [bind] in H. inversion H; subst outs.
    inversion F as [|i1 i2 ta t2 Hi F']; subst. destruct i2 as [x2 a2]. destruct Hi as [HL HP].
    cbn [map snd fst] in *. injection M as Ma Mt. subst a2.
    destruct (design_amp_fix_ctx s lib sel D D2 x x2 a o D1 Hok HD HL HP E1) as (o' & D1' & G1 & G2 & G3).
    destruct (IH t2 D1 D1' rest Hok G2 E2 F' Mt) as (rest' & R1 & R2).
    exists (o' :: rest'). cbn [design_amps]. rewrite G1. cbn [bind fst snd]. rewrite R1. cbn [bind].
    split; [reflexivity|]. cbn [map]. rewrite G3, R2. reflexivity.
Qed.

Lemma has_raman_app : forall a b, has_raman (a ++ b) = has_raman a || has_raman b.
Proof. intros. unfold has_raman. apply existsb_app. Qed.
Lemma has_raman_concat : forall X, has_raman (concat X) = false -> Forall (fun r => has_raman r = false) X.
Proof.
  induction X as [|r X IH]; intro H; [constructor|]. cbn [concat] in H. rewrite has_raman_app in H.
  apply Bool.orb_false_iff in H. destruct H as [H1 H2]. constructor; [exact H1 | apply IH; exact H2].
Qed.
Lemma in_amp_names : forall b rs, In [Amp b] rs -> In (a_name b) (amp_names rs).
Proof.
  intros b rs H. unfold amp_names. apply in_flat_map. exists [Amp b]. split; [exact H | left; reflexivity].
Qed.
Lemma Forall2_length : forall {A B} (R : A -> B -> Prop) l l', Forall2 R l l' -> length l = length l'.
Proof. induction 1; cbn; congruence. Qed.

(* ---------- the whole line ---------- *)
(* EOL = 0, power mode, no Raman fibre; the designed fibres lie on the export grid; amplifier uids distinct.  Then exporting the designed line, reloading it and designing it again gives
   a line whose export is the same document: elements (fibres, fused, amplifiers) and amplifier settings. *)
Theorem redesign_line_fixpoint : forall c s lib sel rgain rgn opsf D0 ptot x L1 outs1,
  pm_ok s lib -> (c_eol c == 0)%Q -> c_min c <= c_max c -> no_auto (l_els x) -> (forall n, i_name (opsf n) = n) ->
  design_full c s lib sel rgain rgn opsf D0 ptot x = Ok (L1, outs1) ->
  l_els L1 <> [] -> Forall grid_ok (l_els L1) ->
  has_raman (l_els L1) = false -> NoDup (map o_name outs1) ->
  exists r2, design_full c s lib sel rgain rgn (ops_of (snd (export_full (L1, outs1)))) D0 ptot
                         (reload_full x (export_full (L1, outs1))) = Ok r2 /\
             export_full r2 = export_full (L1, outs1).
Proof.
  intros c s lib sel rgain rgn opsf D0 ptot x L1 outs1 Hok H0 Hc Hna Hops H Hne Hg Hr ND.
  pose proof Hok as (Hpm & _ & _).
  unfold design_full in H.
  destruct (add_missing c x) as [l1|] eqn:E1; [|discriminate]. cbn [bind] in H.
  set (els1 := conn c (l_els l1)) in *.
  destruct (pad_chain c els1) as [p1|] eqn:E2; [|discriminate]. cbn [bind] in H.
  destruct (design_line_amps c s lib sel rgain rgn opsf D0 ptot (match l_dk x with Roadm => true | Trx => false end) els1)
    as [outs|] eqn:E3; [|discriminate]. cbn [bind] in H. inversion H; subst L1 outs1. clear H.
  cbn [l_els with_els] in *.
  assert (DL : design_line c x = Ok (with_els l1 p1)).
  { unfold design_line. rewrite E1. cbn [bind]. fold els1. rewrite E2. reflexivity. }
  pose proof (fibre_round c x (with_els l1 p1) H0 Hc Hna DL Hne Hg) as FF. cbn [l_els with_els] in FF.
  set (e1 := export_els p1) in *. set (els2 := conn c e1) in *.
  destruct FF as [F1 _ F3 F4 F5 F6].
  change (export_els p1) with e1 in F1, F3, F4, F5, F6. change (conn c e1) with els2 in F1, F3, F4, F5, F6.
  (* round 1, amplifier side *)
  unfold design_line_amps in E3.
  destruct (mapM (pad_run c) (runs els1)) as [post1|] eqn:EM; [|discriminate]. cbn [bind] in E3.
  destruct (amp_items c rgain rgn opsf ptot (match l_dk x with Roadm => true | Trx => false end) None (combine (runs els1) post1))
    as [items1|] eqn:EI; [|discriminate]. cbn [bind] in E3.
  destruct (pad_chain_runs c els1 p1 E2) as (rs & EM' & _ & Er & _). rewrite EM in EM'. injection EM' as EM'. subst rs.
  pose proof (mapM_ok _ _ _ EM) as FP.
  assert (FQ : Forall2 (Forall2 elq) post1 (runs els2)) by (rewrite <- Er; apply elq_runs; exact F3).
  assert (HR1 : Forall (fun r => has_raman r = false) (runs els1)).
  { assert (HRp : Forall (fun r => has_raman r = false) post1).
    { rewrite <- Er. apply has_raman_concat. unfold runs. rewrite groups_concat. exact Hr. }
    clear - FP HRp. induction FP as [|a b X Y Hab _ IH]; [constructor|]. inversion HRp; subst.
    constructor; [rewrite <- (pad_run_has_raman c a b Hab); assumption | apply IH; assumption]. }
  (* the amplifiers met by both walks *)
  set (N := amp_names (runs els1)).
  assert (EN2 : amp_names (runs els2) = N).
  { rewrite (amp_names_elq _ _ FQ), (amp_names_pad c _ _ FP). reflexivity. }
  assert (ES1 : map snd items1 = map opsf N).
  { rewrite (amp_items_amps _ _ _ _ _ _ _ _ _ EI), (map_fst_combine (runs els1) post1 (Forall2_length _ _ _ FP)). reflexivity. }
  assert (EO : map o_name outs = N).
  { rewrite (design_amps_names _ _ _ _ _ _ E3), <- (map_map snd i_name), ES1, map_map.
    rewrite (map_ext _ (fun n => n) Hops). apply map_id. }
  set (opsf2 := ops_of (map export_amp outs)).
  assert (EX : map opsf2 N = map export_amp outs) by (rewrite <- EO; apply ops_of_exports; exact ND).
  assert (HD : Forall (dp_given opsf2) (runs els2)).
  { apply Forall_forall. intros q Hq. unfold dp_given. destruct q as [|[f|n lo|b] [|e2 t2]]; try exact I.
    pose proof (in_amp_names b _ Hq) as Hin. rewrite EN2, <- EO in Hin. apply in_map_iff in Hin.
    destruct Hin as (o & Ho1 & Ho2). rewrite <- Ho1. change (o_name o) with (i_name (export_amp o)).
    unfold opsf2. rewrite ops_of_lookup; [|rewrite map_map; exact ND | apply in_map; exact Ho2].
    pose proof (design_amps_dp _ _ _ _ _ _ Hpm E3) as Hdp. rewrite Forall_forall in Hdp. destruct (Hdp o Ho2) as (d & Hd).
    cbn [export_amp i_dp]. rewrite Hd. cbn. eauto. }
  destruct (amp_items_rel c rgain rgn opsf opsf2 ptot (match l_dk x with Roadm => true | Trx => false end) _ _ FP
              (runs els2) None None items1 FQ HR1 HD I EI) as (items2 & EI2 & IR).
  assert (ES2 : map snd items2 = map export_amp outs).
  { rewrite (amp_items_amps _ _ _ _ _ _ _ _ _ EI2), map_fst_combine_same, EN2. exact EX. }
  assert (IR' : Forall2 (fun i1 i2 => (x_loss (fst i2) == x_loss (fst i1))%Q /\ (x_ptot (fst i2) == x_ptot (fst i1))%Q) items1 items2).
  { eapply F2_impl; [|exact IR]. intros a b (A1 & A2 & _). split; [exact A1 | rewrite A2; reflexivity]. }
  destruct (design_amps_fix_ctx s lib sel items1 items2 D0 D0 outs Hok (Qeq_refl D0) E3 IR' ES2) as (outs' & EO1 & EO2).
  (* round 2 *)
  exists (with_els (with_els x e1) els2, outs').
  unfold export_full, reload_full. cbn [fst snd l_els with_els]. fold e1. fold opsf2. split.
  - unfold design_full. rewrite F6. cbn [bind l_els with_els l_dk]. fold els2.
    assert (PC : pad_chain c els2 = Ok els2).
    { unfold pad_chain. rewrite F5. cbn [bind]. unfold runs. rewrite groups_concat. reflexivity. }
    rewrite PC. cbn [bind]. unfold design_line_amps. rewrite F5. cbn [bind]. rewrite EI2. cbn [bind]. rewrite EO1. reflexivity.
  - rewrite F4, EO2. reflexivity.
Qed.

(* ---------- non-vacuity ---------- *)
Definition exl_cfg : cfg := mkCfg 150000 50000 10 0 0 0 (fun _ => 0%Q).
Definition exl_line : line :=
  mkLine Roadm "A" 1 Roadm "B" true
    [Fib (mkFib "f1" false (inject_Z 80000) (1 # 5000) None None 0 []); Fib (mkFib "f2" false (inject_Z 30000) (1 # 5000) None (Some (1 # 2)) 0 [])].
Example exl_hyps : exists L1 outs1,
  design_full exl_cfg ex_s ex_lib ex_sel (fun _ => 0%Q) (fun _ => 0%Q) (ops_of []) (-20) (198 # 10) exl_line = Ok (L1, outs1) /\
  pm_ok ex_s ex_lib /\ (c_eol exl_cfg == 0)%Q /\ c_min exl_cfg <= c_max exl_cfg /\ no_auto (l_els exl_line) /\
  (forall n, i_name (ops_of [] n) = n) /\
  l_els L1 <> [] /\ Forall grid_ok (l_els L1) /\
  has_raman (l_els L1) = false /\ NoDup (map o_name outs1) /\
  map o_name outs1 = ["Edfa_booster_A_to_f1"; "Edfa_f1"; "Edfa_preamp_B_from_f2"]%string.
Proof.
  eexists. eexists. split; [vm_compute; reflexivity|].
  split; [exact ex_pm_ok|]. split; [reflexivity|]. split; [vm_compute; congruence|]. split; [reflexivity|].
  split; [intro n; reflexivity|]. split; [discriminate|].
  split; [repeat constructor; vm_compute; reflexivity|].
  split; [reflexivity|].
  split; [|reflexivity].
  repeat constructor; cbn; intuition discriminate.
Qed.
