(* C08 — the uids auto-design generates cannot collide: syntactic injectivity of the name formats
   "<uid>_(k/n)", "Edfa_booster_<roadm>_to_<uid>", "Edfa_preamp_<roadm>_from_<uid>", "Edfa_<uid>". *)
From Verif Require Import Prelude Model.Chain Proofs.Chain.
From Coq Require Import DecimalString DecimalZ DecimalPos QArith Lia Permutation.
Open Scope Z_scope.

(* ---------- strings ---------- *)
Fixpoint has_char (c : ascii) (s : string) : bool :=
  match s with EmptyString => false | String d t => Ascii.eqb c d || has_char c t end.
Lemma append_inj_l : forall p x y, append p x = append p y -> x = y.
Proof. induction p as [|c p IH]; intros x y H; [exact H|]. cbn in H. injection H as H. apply IH. exact H. Qed.
Lemma append_assoc_s : forall a b c, append (append a b) c = append a (append b c).
Proof. induction a as [|x a IH]; intros b c; [reflexivity|]. cbn. rewrite IH. reflexivity. Qed.
Lemma length_append_s : forall a b, String.length (append a b) = (String.length a + String.length b)%nat.
Proof. induction a as [|x a IH]; intro b; [reflexivity|]. cbn. rewrite IH. reflexivity. Qed.
Lemma append_inv_tail_s : forall a b t, append a t = append b t -> a = b.
Proof.
  induction a as [|x a IH]; intros b t H; destruct b as [|y b]; try reflexivity.
  - exfalso. apply (f_equal String.length) in H. cbn in H. rewrite length_append_s in H. lia.
  - exfalso. apply (f_equal String.length) in H. cbn in H. rewrite length_append_s in H. lia.
  - cbn in H. injection H as H1 H2. subst y. f_equal. apply (IH b t H2).
Qed.
Lemma has_char_append : forall c a b, has_char c (append a b) = has_char c a || has_char c b.
Proof. induction a as [|x a IH]; intro b; [reflexivity|]. cbn. rewrite IH, Bool.orb_assoc. reflexivity. Qed.
(* the first occurrence of a character splits a string in one way only *)
Lemma nochar_split : forall c a b x y, has_char c a = false -> has_char c b = false ->
  append a (String c x) = append b (String c y) -> a = b /\ x = y.
Proof.
  induction a as [|d a IH]; intros b x y Ha Hb H; destruct b as [|e b]; cbn in *.
  - injection H as H. split; [reflexivity | exact H].
  - injection H as H1 H2. subst e. rewrite Ascii.eqb_refl in Hb. discriminate.
  - injection H as H1 H2. subst d. rewrite Ascii.eqb_refl in Ha. discriminate.
  - injection H as H1 H2. subst e. apply Bool.orb_false_iff in Ha. apply Bool.orb_false_iff in Hb.
    destruct (IH b x y (proj2 Ha) (proj2 Hb) H2) as [E1 E2]. subst. split; reflexivity.
Qed.
(* p without the separator, followed by the separator: whoever starts the same way has p as a prefix *)
Lemma prefix_sep : forall sep p u w w', has_char sep p = false ->
  append p (String sep w) = append u (String sep w') -> prefix p u = true.
Proof.
  intros sep. induction p as [|c p IH]; intros u w w' Hp H; [destruct u; reflexivity|].
  cbn in Hp. apply Bool.orb_false_iff in Hp. destruct Hp as [Hc Hp]. destruct u as [|d u]; cbn in H.
  - injection H as H1 H2. subst c. rewrite Ascii.eqb_refl in Hc. discriminate.
  - injection H as H1 H2. subst d. cbn. destruct (ascii_dec c c) as [_|N]; [|contradiction]. apply (IH u w w' Hp H2).
Qed.

(* decimal rendering of positive integers is injective *)
Lemma zs_inj : forall a b, 0 < a -> 0 < b -> zs a = zs b -> a = b.
Proof.
  intros a b Ha Hb H. unfold zs in H.
  assert (N : forall z, 0 < z -> Z.to_int z <> Decimal.Pos Decimal.Nil /\ Z.to_int z <> Decimal.Neg Decimal.Nil).
  { intros z Hz. destruct z as [|p|p]; try lia. cbn. split; [|discriminate].
    intro C. injection C as C. exact (Unsigned.to_uint_nonnil p C). }
  apply (f_equal NilZero.int_of_string) in H.
  rewrite (NilZero.isi _ (proj1 (N a Ha)) (proj2 (N a Ha))), (NilZero.isi _ (proj1 (N b Hb)) (proj2 (N b Hb))) in H.
  injection H as H. apply (f_equal Z.of_int) in H. rewrite !DecimalZ.of_to in H. exact H.
Qed.

(* ---------- the name formats ---------- *)
Definition lpar : ascii := "("%char.
Definition usc : ascii := "_"%char.
Definition safe (n : string) : Prop :=
  has_char lpar n = false /\ prefix "Edfa" n = false /\ prefix "booster" n = false /\ prefix "preamp" n = false.
Definition base_ok (u x : string) : Prop := x = u \/ exists k n, x = split_name u k n.

Lemma split_name_form : forall u k n, exists r, split_name u k n = append (append u (String usc EmptyString)) (String lpar r).
Proof. intros. eexists. unfold split_name. rewrite append_assoc_s. reflexivity. Qed.
Lemma base_ok_inj : forall u u' x, safe u -> safe u' -> base_ok u x -> base_ok u' x -> u = u'.
Proof.
  intros u u' x (S1 & _) (S1' & _) [E|(k & n & E)] [E'|(k' & n' & E')].
  - congruence.
  - exfalso. rewrite <- E, E' in S1. destruct (split_name_form u' k' n') as (r & F). rewrite F in S1.
    rewrite has_char_append in S1. cbn in S1. rewrite Bool.orb_true_r in S1. discriminate.
  - exfalso. rewrite <- E', E in S1'. destruct (split_name_form u k n) as (r & F). rewrite F in S1'.
    rewrite has_char_append in S1'. cbn in S1'. rewrite Bool.orb_true_r in S1'. discriminate.
  - rewrite E in E'. destruct (split_name_form u k n) as (r & F). destruct (split_name_form u' k' n') as (r' & F'). rewrite F, F' in E'.
    assert (A : forall v, has_char lpar v = false -> has_char lpar (append v (String usc EmptyString)) = false).
    { intros v Hv. rewrite has_char_append, Hv. reflexivity. }
    destruct (nochar_split lpar _ _ _ _ (A u S1) (A u' S1') E') as [E1 _].
    symmetry. apply (append_inv_tail_s _ _ _ E1).
Qed.
Lemma split_name_k_inj : forall u n k k', 0 < k -> 0 < k' -> split_name u k n = split_name u k' n -> k = k'.
Proof.
  intros u n k k' Hk Hk' H. unfold split_name in H. apply append_inj_l in H. apply append_inj_l in H.
  rewrite <- !append_assoc_s in H. apply append_inv_tail_s in H. apply append_inv_tail_s in H.
  apply zs_inj; assumption.
Qed.
(* a name that starts with "Edfa_" is neither a safe uid nor a span of one *)
Lemma edfa_not_base : forall u w, safe u -> ~ base_ok u (append "Edfa_" w).
Proof.
  intros u w (_ & S2 & _) [E|(k & n & E)].
  - rewrite <- E in S2. cbn in S2. discriminate.
  - unfold split_name in E.
    assert (P : prefix "Edfa" u = true).
    { apply (prefix_sep usc "Edfa" u w (append "(" (append (zs k) (append "/" (append (zs n) ")"))))); [reflexivity|]. exact E. }
    rewrite P in S2. discriminate.
Qed.
Lemma booster_not_base : forall u w, safe u -> ~ base_ok u (append "booster_" w).
Proof.
  intros u w (_ & _ & S3 & _) [E|(k & n & E)].
  - rewrite <- E in S3. cbn in S3. discriminate.
  - unfold split_name in E.
    assert (P : prefix "booster" u = true).
    { apply (prefix_sep usc "booster" u w (append "(" (append (zs k) (append "/" (append (zs n) ")"))))); [reflexivity|]. exact E. }
    rewrite P in S3. discriminate.
Qed.
Lemma preamp_not_base : forall u w, safe u -> ~ base_ok u (append "preamp_" w).
Proof.
  intros u w (_ & _ & _ & S4) [E|(k & n & E)].
  - rewrite <- E in S4. cbn in S4. discriminate.
  - unfold split_name in E.
    assert (P : prefix "preamp" u = true).
    { apply (prefix_sep usc "preamp" u w (append "(" (append (zs k) (append "/" (append (zs n) ")"))))); [reflexivity|]. exact E. }
    rewrite P in S4. discriminate.
Qed.
