(* C08 — the uids auto-design generates cannot collide: syntactic injectivity of the name formats
   "<uid>_(k/n)", "Edfa_booster_<roadm>_to_<uid>", "Edfa_preamp_<roadm>_from_<uid>", "Edfa_<uid>". *)
From Verif Require Import Prelude Model.Chain Proofs.Chain.
From Coq Require Import DecimalString DecimalZ DecimalPos QArith Lia Permutation.
Open Scope Z_scope.

(* ---------- strings ---------- *)
Fixpoint has_char (c : ascii) (s : string) : bool :=
  match s with EmptyString => false | String d t => Ascii.eqb c d || has_char c t end.
Lemma append_inj_l : forall p x y, append p x = append p y -> x = y.
Proof. induction p as [|c p IH]; intros x y H; [exact H|]. cbn in H. injection H as H. apply IH. exact H. Qed.
Lemma append_assoc_s : forall a b c, append (append a b) c = append a (append b c).
Proof. induction a as [|x a IH]; intros b c; [reflexivity|]. cbn. rewrite IH. reflexivity. Qed.
Lemma length_append_s : forall a b, String.length (append a b) = (String.length a + String.length b)%nat.
Proof. induction a as [|x a IH]; intro b; [reflexivity|]. cbn. rewrite IH. reflexivity. Qed.
Lemma append_inv_tail_s : forall a b t, append a t = append b t -> a = b.
Proof.
  induction a as [|x a IH]; intros b t H; destruct b as [|y b]; try reflexivity.
  - exfalso. apply (f_equal String.length) in H. cbn in H. rewrite length_append_s in H. lia.
  - exfalso. apply (f_equal String.length) in H. cbn in H. rewrite length_append_s in H. lia.
  - cbn in H. injection H as H1 H2. subst y. f_equal. apply (IH b t H2).
Qed.
Lemma has_char_append : forall c a b, has_char c (append a b) = has_char c a || has_char c b.
Proof. induction a as [|x a IH]; intro b; [reflexivity|]. cbn. rewrite IH, Bool.orb_assoc. reflexivity. Qed.
(* the first occurrence of a character splits a string in one way only *)
Lemma nochar_split : forall c a b x y, has_char c a = false -> has_char c b = false ->
  append a (String c x) = append b (String c y) -> a = b /\ x = y.
Proof.
  induction a as [|d a IH]; intros b x y Ha Hb H; destruct b as [|e b]; cbn in *.
  - injection H as H. split; [reflexivity | exact H].
  - injection H as H1 H2. subst e. rewrite Ascii.eqb_refl in Hb. discriminate.
  - injection H as H1 H2. subst d. rewrite Ascii.eqb_refl in Ha. discriminate.
  - injection H as H1 H2. subst e. apply Bool.orb_false_iff in Ha. apply Bool.orb_false_iff in Hb.
    destruct (IH b x y (proj2 Ha) (proj2 Hb) H2) as [E1 E2]. subst. split; reflexivity.
Qed.
(* p without the separator, followed by the separator: whoever starts the same way has p as a prefix *)
Lemma prefix_sep : forall sep p u w w', has_char sep p = false ->
  append p (String sep w) = append u (String sep w') -> prefix p u = true.
Proof.
  intros sep. induction p as [|c p IH]; intros u w w' Hp H; [destruct u; reflexivity|].
  cbn in Hp. apply Bool.orb_false_iff in Hp. destruct Hp as [Hc Hp]. destruct u as [|d u]; cbn in H.
  - injection H as H1 H2. subst c. rewrite Ascii.eqb_refl in Hc. discriminate.
  - injection H as H1 H2. subst d. cbn. destruct (ascii_dec c c) as [_|N]; [|contradiction]. apply (IH u w w' Hp H2).
Qed.

(* decimal rendering of positive integers is injective *)
Lemma zs_inj : forall a b, 0 < a -> 0 < b -> zs a = zs b -> a = b.
Proof.
  intros a b Ha Hb H. unfold zs in H.
  assert (N : forall z, 0 < z -> Z.to_int z <> Decimal.Pos Decimal.Nil /\ Z.to_int z <> Decimal.Neg Decimal.Nil).
  { intros z Hz. destruct z as [|p|p]; try lia. cbn. split; [|discriminate].
    intro C. injection C as C. exact (Unsigned.to_uint_nonnil p C). }
  apply (f_equal NilZero.int_of_string) in H.
  rewrite (NilZero.isi _ (proj1 (N a Ha)) (proj2 (N a Ha))), (NilZero.isi _ (proj1 (N b Hb)) (proj2 (N b Hb))) in H.
  injection H as H. apply (f_equal Z.of_int) in H. rewrite !DecimalZ.of_to in H. exact H.
Qed.

(* ---------- the name formats ---------- *)
Definition lpar : ascii := "("%char.
Definition usc : ascii := "_"%char.
Definition safe (n : string) : Prop :=
  has_char lpar n = false /\ prefix "Edfa" n = false /\ prefix "booster" n = false /\ prefix "preamp" n = false.
Definition base_ok (u x : string) : Prop := x = u \/ exists k n, x = split_name u k n.

Lemma split_name_form : forall u k n, exists r, split_name u k n = append (append u (String usc EmptyString)) (String lpar r).
Proof. intros. eexists. unfold split_name. rewrite append_assoc_s. reflexivity. Qed.
Lemma base_ok_inj : forall u u' x, safe u -> safe u' -> base_ok u x -> base_ok u' x -> u = u'.
Proof.
  intros u u' x (S1 & _) (S1' & _) [E|(k & n & E)] [E'|(k' & n' & E')].
  - congruence.
  - exfalso. rewrite <- E, E' in S1. destruct (split_name_form u' k' n') as (r & F). rewrite F in S1.
    rewrite has_char_append in S1. cbn in S1. rewrite Bool.orb_true_r in S1. discriminate.
  - exfalso. rewrite <- E', E in S1'. destruct (split_name_form u k n) as (r & F). rewrite F in S1'.
    rewrite has_char_append in S1'. cbn in S1'. rewrite Bool.orb_true_r in S1'. discriminate.
  - rewrite E in E'. destruct (split_name_form u k n) as (r & F). destruct (split_name_form u' k' n') as (r' & F'). rewrite F, F' in E'.
    assert (A : forall v, has_char lpar v = false -> has_char lpar (append v (String usc EmptyString)) = false).
    { intros v Hv. rewrite has_char_append, Hv. reflexivity. }
    destruct (nochar_split lpar _ _ _ _ (A u S1) (A u' S1') E') as [E1 _].
    apply (append_inv_tail_s _ _ _ E1).
Qed.
Lemma split_name_k_inj : forall u n k k', 0 < k -> 0 < k' -> split_name u k n = split_name u k' n -> k = k'.
Proof.
  intros u n k k' Hk Hk' H. unfold split_name in H. apply append_inj_l in H. apply append_inj_l in H.
  apply append_inv_tail_s in H. apply zs_inj; assumption.
Qed.
(* a name that starts with "Edfa_" is neither a safe uid nor a span of one *)
Lemma edfa_not_base : forall u w, safe u -> ~ base_ok u (append "Edfa_" w).
Proof.
  intros u w (_ & S2 & _) [E|(k & n & E)].
  - rewrite <- E in S2. cbn in S2. discriminate.
  - unfold split_name in E.
    assert (P : prefix "Edfa" u = true).
    { apply (prefix_sep usc "Edfa" u w (append "(" (append (zs k) (append "/" (append (zs n) ")"))))); [reflexivity|]. exact E. }
    rewrite P in S2. discriminate.
Qed.
Lemma booster_not_base : forall u w, safe u -> ~ base_ok u (append "booster_" w).
Proof.
  intros u w (_ & _ & S3 & _) [E|(k & n & E)].
  - rewrite <- E in S3. cbn in S3. discriminate.
  - unfold split_name in E.
    assert (P : prefix "booster" u = true).
    { apply (prefix_sep usc "booster" u w (append "(" (append (zs k) (append "/" (append (zs n) ")"))))); [reflexivity|]. exact E. }
    rewrite P in S3. discriminate.
Qed.
Lemma preamp_not_base : forall u w, safe u -> ~ base_ok u (append "preamp_" w).
Proof.
  intros u w (_ & _ & _ & S4) [E|(k & n & E)].
  - rewrite <- E in S4. cbn in S4. discriminate.
  - unfold split_name in E.
    assert (P : prefix "preamp" u = true).
    { apply (prefix_sep usc "preamp" u w (append "(" (append (zs k) (append "/" (append (zs n) ")"))))); [reflexivity|]. exact E. }
    rewrite P in S4. discriminate.
Qed.

(* ---------- uids of the split chain ---------- *)
Lemma zrange_pos : forall n x, In x (zrange 1 (n + 1)) -> 0 < x.
Proof. intros n x H. unfold zrange in H. apply in_map_iff in H. destruct H as (k & Hk & _). lia. Qed.
Lemma zrange_nodup : forall a b, NoDup (zrange a b).
Proof.
  intros a b. unfold zrange. apply FinFun.Injective_map_NoDup; [|apply seq_NoDup].
  intros x y H. lia.
Qed.
Lemma NoDup_map_in : forall {A B} (f : A -> B) l, (forall x y, In x l -> In y l -> f x = f y -> x = y) -> NoDup l -> NoDup (map f l).
Proof.
  intros A B f l Hinj ND. induction ND as [|x l Hx ND IH]; [constructor|]. cbn. constructor.
  - intro Hin. apply in_map_iff in Hin. destruct Hin as (y & Hy1 & Hy2).
    assert (y = x) by (apply Hinj; [right; exact Hy2 | left; reflexivity | exact Hy1]). subst y. contradiction.
  - apply IH. intros a b Ha Hb. apply Hinj; right; assumption.
Qed.
Lemma split_fib_names : forall c f r, split_fib c f = Ok r ->
  NoDup (names r) /\ forall x, In x (names r) -> base_ok (f_name f) x.
Proof.
  intros c f r H. unfold split_fib in H.
  destruct (calc_len (f_len f) (c_min c) (c_max c) (c_target c)) as [[len n]|]; [|discriminate]. cbn [bind] in H.
  destruct (n =? 1).
  - inversion H; subst r. cbn. split; [repeat constructor; intros []|]. intros x [<-|[]]. left. reflexivity.
  - destruct (lumped_inside f len); [|discriminate]. inversion H; subst r. unfold names. rewrite map_map. cbn [el_name sub_span f_name].
    split.
    + apply NoDup_map_in; [|apply zrange_nodup]. intros x y Hx Hy E.
      apply (split_name_k_inj (f_name f) n x y (zrange_pos n x Hx) (zrange_pos n y Hy) E).
    + intros x Hx. apply in_map_iff in Hx. destruct Hx as (k & <- & _). right. exists k, n. reflexivity.
Qed.
Lemma split_chain_names_in : forall c l s, split_chain c l = Ok s ->
  forall x, In x (names s) -> exists u, In u (names l) /\ base_ok u x.
Proof.
  intros c. induction l as [|e t IH]; intros s H x Hx.
  - inversion H; subst s. contradiction.
  - destruct e as [f|n lo|a]; cbn [split_chain] in H.
    + destruct (split_fib c f) as [r|] eqn:Ef; [|discriminate]. cbn [bind] in H.
      destruct (split_chain c t) as [b|] eqn:Et; [|discriminate]. cbn [bind] in H. inversion H; subst s.
      rewrite names_app in Hx. apply in_app_or in Hx. destruct Hx as [Hx|Hx].
      * exists (f_name f). split; [left; reflexivity | apply (proj2 (split_fib_names c f r Ef) x Hx)].
      * destruct (IH b eq_refl x Hx) as (u & Hu & Hb). exists u. split; [right; exact Hu | exact Hb].
    + destruct (split_chain c t) as [b|] eqn:Et; [|discriminate]. cbn [bind] in H. inversion H; subst s.
      destruct Hx as [<-|Hx]; [exists n; split; [left; reflexivity | left; reflexivity]|].
      destruct (IH b eq_refl x Hx) as (u & Hu & Hb). exists u. split; [right; exact Hu | exact Hb].
    + destruct (split_chain c t) as [b|] eqn:Et; [|discriminate]. cbn [bind] in H. inversion H; subst s.
      destruct Hx as [<-|Hx]; [exists (a_name a); split; [left; reflexivity | left; reflexivity]|].
      destruct (IH b eq_refl x Hx) as (u & Hu & Hb). exists u. split; [right; exact Hu | exact Hb].
Qed.
Lemma NoDup_app_intro : forall {A} (a b : list A), NoDup a -> NoDup b -> (forall x, In x a -> In x b -> False) -> NoDup (a ++ b).
Proof.
  intros A a b Na Nb D. induction Na as [|x a Hx Na IH]; [exact Nb|]. cbn. constructor.
  - intro Hin. apply in_app_or in Hin. destruct Hin as [Hin|Hin]; [contradiction | apply (D x); [left; reflexivity | exact Hin]].
  - apply IH. intros y Hy. apply D. right. exact Hy.
Qed.
Lemma split_chain_nodup : forall c l s, NoDup (names l) -> Forall safe (names l) -> split_chain c l = Ok s -> NoDup (names s).
Proof.
  intros c. induction l as [|e t IH]; intros s ND SF H.
  - inversion H. constructor.
  - cbn [names map] in ND, SF. inversion ND as [|? ? Hn ND']; subst. inversion SF as [|? ? Se SF']; subst.
    assert (Tail : forall b x, split_chain c t = Ok b -> In x (names b) -> base_ok (el_name e) x -> False).
    { intros b x Hb Hx Hbase. destruct (split_chain_names_in c t b Hb x Hx) as (u & Hu & Hub).
      assert (Su : safe u) by (rewrite Forall_forall in SF'; apply SF'; exact Hu).
      pose proof (base_ok_inj _ _ x Se Su Hbase Hub) as E. subst u. contradiction. }
    destruct e as [f|n lo|a]; cbn [split_chain] in H.
    + destruct (split_fib c f) as [r|] eqn:Ef; [|discriminate]. cbn [bind] in H.
      destruct (split_chain c t) as [b|] eqn:Et; [|discriminate]. cbn [bind] in H. inversion H; subst s.
      destruct (split_fib_names c f r Ef) as [Nr Br]. rewrite names_app. apply NoDup_app_intro; [exact Nr | apply (IH b ND' SF' eq_refl)|].
      intros x Hx1 Hx2. apply (Tail b x eq_refl Hx2). apply Br. exact Hx1.
    + destruct (split_chain c t) as [b|] eqn:Et; [|discriminate]. cbn [bind] in H. inversion H; subst s.
      cbn [names map el_name]. constructor; [|apply (IH b ND' SF' eq_refl)].
      intro Hin. apply (Tail b n eq_refl Hin). left. reflexivity.
    + destruct (split_chain c t) as [b|] eqn:Et; [|discriminate]. cbn [bind] in H. inversion H; subst s.
      cbn [names map el_name]. constructor; [|apply (IH b ND' SF' eq_refl)].
      intro Hin. apply (Tail b (a_name a) eq_refl Hin). left. reflexivity.
Qed.

(* ---------- inserted amplifiers ---------- *)
Lemma inline_names_in : forall s z, In z (inline_names s) -> exists y, In y (names s) /\ z = inline_name y.
Proof.
  induction s as [|e t IH]; intros z H; [contradiction|].
  destruct e as [f|n lo|a]; cbn [inline_names] in H.
  - destruct t as [|[g|n lo|a] t2]; cbn [inline_names] in H.
    + contradiction.
    + destruct H as [<-|H]; [exists (f_name f); split; [left; reflexivity | reflexivity]|].
      destruct (IH z H) as (y & Hy & E). exists y. split; [right; exact Hy | exact E].
    + destruct (IH z H) as (y & Hy & E). exists y. split; [right; exact Hy | exact E].
    + destruct (IH z H) as (y & Hy & E). exists y. split; [right; exact Hy | exact E].
  - destruct (IH z H) as (y & Hy & E). exists y. split; [right; exact Hy | exact E].
  - destruct (IH z H) as (y & Hy & E). exists y. split; [right; exact Hy | exact E].
Qed.
Lemma inline_name_inj : forall x y, inline_name x = inline_name y -> x = y.
Proof. intros x y H. unfold inline_name in H. apply append_inj_l in H. exact H. Qed.
Lemma inline_names_nodup : forall s, NoDup (names s) -> NoDup (inline_names s).
Proof.
  induction s as [|e t IH]; intro ND; [constructor|]. cbn [names map] in ND. inversion ND as [|? ? Hn ND']; subst.
  destruct e as [f|n lo|a]; cbn [inline_names]; try (apply IH; exact ND').
  destruct t as [|[g|n lo|a] t2]; try (apply IH; exact ND').
  constructor; [|apply IH; exact ND'].
  intro Hin. destruct (inline_names_in _ _ Hin) as (y & Hy & E). apply inline_name_inj in E. cbn [el_name] in Hn. subst y. contradiction.
Qed.

(* ---------- all uids of a designed line ---------- *)
Lemma bname_form : forall l s, exists w, bname l s = append "Edfa_" (append "booster_" w).
Proof. intros. eexists. unfold bname, booster_name. reflexivity. Qed.
Lemma pname_form : forall l s, exists w, pname l s = append "Edfa_" (append "preamp_" w).
Proof. intros. eexists. unfold pname, preamp_name. reflexivity. Qed.
Lemma names_s_safe : forall c l s, Forall safe (names l) -> split_chain c l = Ok s ->
  forall x, In x (names s) -> exists u, safe u /\ base_ok u x.
Proof.
  intros c l s SF H x Hx. destruct (split_chain_names_in c l s H x Hx) as (u & Hu & Hb).
  exists u. split; [rewrite Forall_forall in SF; apply SF; exact Hu | exact Hb].
Qed.

(* input uids distinct and safe (no "(", not starting with "Edfa", "booster" or "preamp"): the uids of the designed
   line are distinct - no hypothesis on the generated names any more *)
Theorem design_names_unique : forall c l l', no_auto (l_els l) -> design_line c l = Ok l' ->
  NoDup (names (l_els l)) -> Forall safe (names (l_els l)) -> NoDup (names (l_els l')).
Proof.
  intros c l l' Hna H ND SF. unfold design_line in H.
  destruct (add_missing c l) as [l1|] eqn:E1; [|discriminate]. cbn [bind] in H.
  destruct (pad_chain c (conn c (l_els l1))) as [p|] eqn:E2; [|discriminate]. cbn [bind] in H. inversion H; subst l'.
  cbn [l_els with_els]. destruct (pad_chain_runs c _ _ E2) as (_ & _ & _ & _ & _ & Np). rewrite Np, conn_names.
  destruct (ends_shape c l l1 Hna E1) as (s & B & A & i & Es & Hs & Ei & El & HB & HA & _). subst l1. cbn [l_els with_els].
  eapply Permutation_NoDup; [apply Permutation_sym; apply (inline_names_perm _ _ Ei)|].
  assert (IN : inline_names (B ++ s ++ A) = inline_names s).
  { destruct HB as [HB|(mu & HB)]; destruct HA as [HA|(mu' & HA)]; subst B A; unfold new_amp; cbn [app];
      rewrite ?app_nil_r; cbn [inline_names]; rewrite ?inline_names_amp_r; reflexivity. }
  rewrite IN, !names_app.
  pose proof (split_chain_nodup c _ s ND SF Es) as N1.
  pose proof (inline_names_nodup s N1) as N2.
  pose proof (names_s_safe c _ s SF Es) as SS.
  assert (N3 : forall w, ~ In (append "Edfa_" w) (names s)).
  { intros w Hin. destruct (SS _ Hin) as (u & Su & Hb). exact (edfa_not_base u w Su Hb). }
  assert (N5 : forall z, In z (inline_names s) -> exists y, In y (names s) /\ z = append "Edfa_" y).
  { intros z Hz. destruct (inline_names_in s z Hz) as (y & Hy & E). exists y. split; [exact Hy | exact E]. }
  destruct (bname_form l s) as (wb & Eb). destruct (pname_form l s) as (wp & Ep).
  assert (N7 : ~ In (bname l s) (inline_names s)).
  { intro Hin. destruct (N5 _ Hin) as (y & Hy & E). rewrite Eb in E. apply append_inj_l in E. subst y.
    destruct (SS _ Hy) as (u & Su & Hb). exact (booster_not_base u wb Su Hb). }
  assert (N8 : ~ In (pname l s) (inline_names s)).
  { intro Hin. destruct (N5 _ Hin) as (y & Hy & E). rewrite Ep in E. apply append_inj_l in E. subst y.
    destruct (SS _ Hy) as (u & Su & Hb). exact (preamp_not_base u wp Su Hb). }
  assert (N6 : bname l s <> pname l s).
  { rewrite Eb, Ep. intro E. apply append_inj_l in E. cbn in E. discriminate. }
  assert (NB : ~ In (bname l s) (names s)) by (rewrite Eb; apply N3).
  assert (NP : ~ In (pname l s) (names s)) by (rewrite Ep; apply N3).
  assert (NI : forall z, In z (names s) -> In z (inline_names s) -> False).
  { intros z Hz Hi. destruct (N5 z Hi) as (y & _ & E). subst z. exact (N3 y Hz). }
  assert (Core : NoDup (names s ++ inline_names s)) by (apply NoDup_app_intro; assumption).
  destruct HB as [HB|(mu & HB)]; destruct HA as [HA|(mu' & HA)]; subst B A; unfold new_amp; cbn [names map app el_name a_name];
    rewrite ?app_nil_r.
  - exact Core.
  - rewrite <- app_assoc. apply NoDup_app_intro; [exact N1| |].
    + cbn [app]. constructor; [exact N8 | exact N2].
    + intros z Hz [<-|Hi]; [exact (NP Hz) | exact (NI z Hz Hi)].
  - constructor; [|exact Core]. intro Hin. apply in_app_or in Hin. destruct Hin as [Hin|Hin]; [exact (NB Hin) | exact (N7 Hin)].
  - constructor.
    + intro Hin. rewrite <- app_assoc in Hin. apply in_app_or in Hin. destruct Hin as [Hin|Hin]; [exact (NB Hin)|].
      cbn [app] in Hin. destruct Hin as [E|Hin]; [exact (N6 (eq_sym E)) | exact (N7 Hin)].
    + rewrite <- app_assoc. apply NoDup_app_intro; [exact N1| |].
      * cbn [app]. constructor; [exact N8 | exact N2].
      * intros z Hz [<-|Hi]; [exact (NP Hz) | exact (NI z Hz Hi)].
Qed.
Example ex_names_safe : NoDup (names (l_els ex_line)) /\ Forall safe (names (l_els ex_line)).
Proof. split; [repeat constructor; cbn; intuition discriminate | repeat constructor]. Qed.
