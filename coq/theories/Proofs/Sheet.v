(* C20 — lemmas about Model/Sheet.v, part 1: boolean reflection, the sanity rules, well-formed names and
   injectivity of uid rendering. *)
From Coq Require Import QArith Lia.
From Verif Require Import Prelude Model.Sheet.
Open Scope Z_scope.

(* ------------------------------------------------------------------ strings, membership, duplicates *)
Lemma seqb_eq : forall a b, seqb a b = true <-> a = b.
Proof. exact String.eqb_eq. Qed.
Lemma seqb_neq : forall a b, seqb a b = false <-> a <> b.
Proof. exact String.eqb_neq. Qed.
Lemma seqb_refl : forall a, seqb a a = true.
Proof. exact String.eqb_refl. Qed.
Lemma seqb_sym : forall a b, seqb a b = seqb b a.
Proof. exact String.eqb_sym. Qed.

Lemma smem_In : forall x l, smem x l = true <-> In x l.
Proof.
  intros x l. unfold smem. rewrite existsb_exists. split.
  - intros [y [Hy He]]. apply seqb_eq in He. subst. exact Hy.
  - intros H. exists x. split; [exact H | apply seqb_refl].
Qed.
Lemma iff_false : forall (b : bool) (P : Prop), (b = true <-> P) -> (b = false <-> ~ P).
Proof.
  intros b P [H1 H2]. destruct b; split; intro H.
  - discriminate.
  - exfalso. apply H. apply H1. reflexivity.
  - intro HP. apply H2 in HP. discriminate.
  - reflexivity.
Qed.
Lemma smem_false : forall x l, smem x l = false <-> ~ In x l.
Proof. intros x l. apply iff_false. apply smem_In. Qed.

Lemma dupb_NoDup : forall l, dupb l = false <-> NoDup l.
Proof.
  induction l as [|x t IH]; cbn [dupb].
  - split; [constructor | reflexivity].
  - rewrite orb_false_iff, IH, smem_false. split.
    + intros [H1 H2]. constructor; assumption.
    + intros H. inversion H; subst. split; assumption.
Qed.
Lemma dupb_true : forall l, dupb l = true <-> ~ NoDup l.
Proof.
  intros l. destruct (dupb l) eqn:E.
  - split; [|reflexivity]. intros _ H. apply dupb_NoDup in H. congruence.
  - split; [discriminate|]. intros H. exfalso. apply H. apply dupb_NoDup. exact E.
Qed.

Lemma existsb_false : forall {A} (p : A -> bool) l, existsb p l = false <-> forall x, In x l -> p x = false.
Proof.
  intros A p l. split.
  - intros H x Hx. destruct (p x) eqn:E; [|reflexivity].
    assert (existsb p l = true) by (apply existsb_exists; exists x; split; assumption). congruence.
  - intros H. destruct (existsb p l) eqn:E; [|reflexivity].
    apply existsb_exists in E. destruct E as [x [Hx Hp]]. rewrite (H x Hx) in Hp. discriminate.
Qed.

(* ------------------------------------------------------------------ nodes *)
Lemma find_node_Some : forall c ns n, find_node c ns = Some n -> In n ns /\ n_city n = c.
Proof.
  induction ns as [|m t IH]; cbn [find_node]; intros n H; [discriminate|].
  destruct (seqb (n_city m) c) eqn:E.
  - inversion H; subst. apply seqb_eq in E. split; [left; reflexivity | exact E].
  - destruct (IH n H) as [H1 H2]. split; [right; exact H1 | exact H2].
Qed.
Lemma find_node_None : forall c ns, find_node c ns = None -> ~ In c (cities ns).
Proof.
  induction ns as [|m t IH]; cbn [find_node cities map]; intros H; [intros []|].
  destruct (seqb (n_city m) c) eqn:E; [discriminate|].
  apply seqb_neq in E. intros [H1|H1]; [exact (E H1) | exact (IH H H1)].
Qed.
Lemma find_node_In : forall ns n, NoDup (cities ns) -> In n ns -> find_node (n_city n) ns = Some n.
Proof.
  induction ns as [|m t IH]; intros n Hnd Hin; [destruct Hin|].
  cbn [find_node]. cbn [cities map] in Hnd. inversion Hnd as [|x l Hx Hl]; subst.
  destruct Hin as [Heq|Hin].
  - subst. rewrite seqb_refl. reflexivity.
  - destruct (seqb (n_city m) (n_city n)) eqn:E.
    + apply seqb_eq in E. exfalso. apply Hx. rewrite E. apply in_map. exact Hin.
    + apply IH; assumption.
Qed.
Lemma same_city_same_node : forall ns a b, NoDup (cities ns) -> In a ns -> In b ns -> n_city a = n_city b -> a = b.
Proof.
  intros ns a b Hnd Ha Hb He.
  pose proof (find_node_In ns a Hnd Ha) as H1. pose proof (find_node_In ns b Hnd Hb) as H2.
  rewrite He in H1. congruence.
Qed.

Lemma correct_type_city : forall ls n, n_city (correct_type ls n) = n_city n.
Proof. intros ls n. unfold correct_type. destruct (_ && _); reflexivity. Qed.
Lemma cities_correct : forall ls ns, cities (map (correct_type ls) ns) = cities ns.
Proof.
  intros ls ns. unfold cities. rewrite map_map. apply map_ext. intros n. apply correct_type_city.
Qed.

(* ------------------------------------------------------------------ links *)
Lemma link_eqv_refl : forall l, link_eqv l l = true.
Proof. intros l. unfold link_eqv. rewrite !seqb_refl. reflexivity. Qed.
Lemma link_eqv_sym : forall a b, link_eqv a b = link_eqv b a.
Proof.
  intros a b. unfold link_eqv.
  rewrite (seqb_sym (l_from a) (l_from b)), (seqb_sym (l_to a) (l_to b)),
          (seqb_sym (l_from a) (l_to b)), (seqb_sym (l_to a) (l_from b)).
  destruct (seqb (l_from b) (l_from a)), (seqb (l_to b) (l_to a)), (seqb (l_to b) (l_from a)),
           (seqb (l_from b) (l_to a)); reflexivity.
Qed.
Lemma link_eqv_spec : forall a b, link_eqv a b = true <->
  (l_from a = l_from b /\ l_to a = l_to b) \/ (l_from a = l_to b /\ l_to a = l_from b).
Proof.
  intros a b. unfold link_eqv. rewrite orb_true_iff, !andb_true_iff, !seqb_eq. reflexivity.
Qed.

(* no two rows at different positions join the same pair of sites *)
Definition links_distinct (ls : list link) : Prop := ForallOrdPairs (fun a b => link_eqv a b = false) ls.
Lemma dup_links_spec : forall ls, dup_links ls = false <-> links_distinct ls.
Proof.
  unfold links_distinct. induction ls as [|l t IH]; cbn [dup_links].
  - split; [constructor | reflexivity].
  - rewrite orb_false_iff, IH, existsb_false. split.
    + intros [H1 H2]. constructor; [apply Forall_forall; exact H1 | exact H2].
    + intros H. inversion H as [|x u Hf Hp]; subst. split; [apply Forall_forall; exact Hf | exact Hp].
Qed.
Lemma links_distinct_eq : forall ls a b, links_distinct ls -> In a ls -> In b ls -> link_eqv a b = true -> a = b.
Proof.
  unfold links_distinct. induction ls as [|l t IH]; intros a b Hd Ha Hb He; [destruct Ha|].
  inversion Hd as [|x u Hf Hp]; subst. rewrite Forall_forall in Hf.
  destruct Ha as [Ha|Ha], Hb as [Hb|Hb]; subst.
  - reflexivity.
  - rewrite (Hf b Hb) in He. discriminate.
  - rewrite link_eqv_sym in He. rewrite (Hf a Ha) in He. discriminate.
  - apply IH; assumption.
Qed.
Lemma links_distinct_NoDup : forall ls, links_distinct ls -> NoDup ls.
Proof.
  unfold links_distinct. induction ls as [|l t IH]; intros H; [constructor|].
  inversion H as [|x u Hf Hp]; subst. constructor; [|apply IH; exact Hp].
  intros Hin. rewrite Forall_forall in Hf. pose proof (Hf l Hin) as E. rewrite link_eqv_refl in E. discriminate.
Qed.

(* ------------------------------------------------------------------ keys "A|Z" and well-formed names *)
Fixpoint no_char (c : ascii) (s : string) : bool :=
  match s with EmptyString => true | String x t => negb (Ascii.eqb x c) && no_char c t end.
(* a site name is well formed when it contains none of the separators of the generated names *)
Definition name_ok (s : string) : bool := no_char " " s && no_char ")" s && no_char "|" s.

(* s1 ++ c :: r1 = s2 ++ c :: r2 with c in neither prefix: same split *)
Lemma split_unique : forall c s1 s2 r1 r2,
  no_char c s1 = true -> no_char c s2 = true ->
  (s1 +s String c r1) = (s2 +s String c r2) -> s1 = s2 /\ r1 = r2.
Proof.
  intros c. induction s1 as [|x t IH]; intros s2 r1 r2 H1 H2 He.
  - destruct s2 as [|y u]; cbn in He.
    + inversion He. split; reflexivity.
    + inversion He; subst. cbn in H2. rewrite Ascii.eqb_refl in H2. discriminate.
  - destruct s2 as [|y u]; cbn in He.
    + inversion He; subst. cbn in H1. rewrite Ascii.eqb_refl in H1. discriminate.
    + inversion He; subst. cbn in H1, H2. apply andb_true_iff in H1. apply andb_true_iff in H2.
      destruct (IH u r1 r2 (proj2 H1) (proj2 H2) H3) as [E1 E2]. subst. split; reflexivity.
Qed.

Lemma name_ok_space : forall s, name_ok s = true -> no_char " " s = true.
Proof. unfold name_ok. intros s H. apply andb_true_iff in H. destruct H as [H _]. apply andb_true_iff in H. tauto. Qed.
Lemma name_ok_paren : forall s, name_ok s = true -> no_char ")" s = true.
Proof. unfold name_ok. intros s H. apply andb_true_iff in H. destruct H as [H _]. apply andb_true_iff in H. tauto. Qed.
Lemma name_ok_bar : forall s, name_ok s = true -> no_char "|" s = true.
Proof. unfold name_ok. intros s H. apply andb_true_iff in H. tauto. Qed.

Lemma pair_key_inj : forall a z a' z', name_ok a = true -> name_ok a' = true ->
  pair_key a z = pair_key a' z' -> a = a' /\ z = z'.
Proof.
  intros a z a' z' Ha Ha' H. unfold pair_key in H.
  exact (split_unique "|" a a' z z' (name_ok_bar _ Ha) (name_ok_bar _ Ha') H).
Qed.

Lemma append_inj_l : forall p a b, (p +s a) = (p +s b) -> a = b.
Proof. induction p as [|c p IH]; cbn; intros a b H; [exact H | inversion H; auto]. Qed.

Definition uid_names_ok (u : uid) : Prop :=
  match u with
  | UTrx c | URoadm c | UFused _ c | UEdfa _ c => name_ok c = true
  | UFiber a b _ | UEdfaTo _ a b => name_ok a = true /\ name_ok b = true
  end.

Lemma no_space_in_to : forall a z c, no_char " " c = true -> c <> (a +s " to " +s z).
Proof.
  intros a z. induction a as [|x t IH]; intros c Hc He; subst; cbn in Hc.
  - discriminate.
  - apply andb_true_iff in Hc. exact (IH _ (proj2 Hc) eq_refl).
Qed.

Lemma render_inj : forall u v, uid_names_ok u -> uid_names_ok v -> render u = render v -> u = v.
Proof.
  intros u v Hu Hv H.
  destruct u as [c|c|d c|a b k|d c|d a z], v as [c'|c'|d' c'|a' b' k'|d' c'|d' a' z'];
    try (destruct d); try (destruct d'); cbn in H; try discriminate; cbn in Hu, Hv.
  all: try (injection H as H; subst; reflexivity).
  all: try (repeat (injection H as H)).
  - (* fibres *)
    destruct Hu as [Ha Hb], Hv as [Ha' Hb'].
    change (a +s String " " ("→ " +s b +s ")-" +s k) = a' +s String " " ("→ " +s b' +s ")-" +s k')) in H.
    destruct (split_unique " " _ _ _ _ (name_ok_space _ Ha) (name_ok_space _ Ha') H) as [E1 E2]. subst a'.
    apply (append_inj_l "→ ") in E2.
    change (b +s String ")" ("-" +s k) = b' +s String ")" ("-" +s k')) in E2.
    destruct (split_unique ")" _ _ _ _ (name_ok_paren _ Hb) (name_ok_paren _ Hb') E2) as [E3 E4]. subst b'.
    apply (append_inj_l "-") in E4. subst. reflexivity.
  - exfalso. exact (no_space_in_to a' z' c (name_ok_space _ Hu) H).
  - exfalso. exact (no_space_in_to a' z' c (name_ok_space _ Hu) H).
  - exfalso. symmetry in H. exact (no_space_in_to a z c' (name_ok_space _ Hv) H).
  - exfalso. symmetry in H. exact (no_space_in_to a z c' (name_ok_space _ Hv) H).
  - destruct Hu as [Ha _], Hv as [Ha' _].
    change (a +s String " " ("to " +s z) = a' +s String " " ("to " +s z')) in H.
    destruct (split_unique " " _ _ _ _ (name_ok_space _ Ha) (name_ok_space _ Ha') H) as [E1 E2]. subst.
    apply (append_inj_l "to ") in E2. subst. reflexivity.
  - destruct Hu as [Ha _], Hv as [Ha' _].
    change (a +s String " " ("to " +s z) = a' +s String " " ("to " +s z')) in H.
    destruct (split_unique " " _ _ _ _ (name_ok_space _ Ha) (name_ok_space _ Ha') H) as [E1 E2]. subst.
    apply (append_inj_l "to ") in E2. subst. reflexivity.
Qed.

(* ------------------------------------------------------------------ the sanity rules, as propositions *)
Definition incident (c : string) (l : link) : Prop := l_from l = c \/ l_to l = c.
Record sane (ns : list node) (ls : list link) (es : list eqpt) : Prop := mkSane {
  s_loops : forall l, In l ls -> l_from l <> l_to l;                        (* no link from a site to itself *)
  s_cities : NoDup (cities ns);                                             (* no duplicate city *)
  s_link_ends : forall l, In l ls -> In (l_from l) (cities ns) /\ In (l_to l) (cities ns);   (* no dangling link *)
  s_links : links_distinct ls;                                              (* no duplicate (same or reversed) link *)
  s_referenced : forall n, In n ns -> exists l, In l ls /\ incident (n_city n) l;   (* no unreferenced node *)
  s_eqpt_ends : forall e, In e es -> In (e_from e) (cities ns) /\ In (e_to e) (cities ns);   (* no dangling Eqpt row *)
  s_eqpt_link : forall e, In e es -> In (pair_key (e_from e) (e_to e)) (possible_links ls) /\
                                      In (pair_key (e_to e) (e_from e)) (possible_links ls);   (* Eqpt rows sit on links *)
  s_eqpt_nodup : NoDup (map (fun e => pair_key (e_from e) (e_to e)) es);    (* no duplicate Eqpt row *)
  s_ila_one : forall n, In n ns -> n_type n = TIla -> (length (eqpts_of (n_city n) es) <= 1)%nat;  (* one row per ILA *)
  s_fused_two : forall n, In n ns -> n_type n = TFused -> length (links_of (n_city n) ls) = 2%nat  (* FUSED: degree 2 *)
}.

Lemma has_links_spec : forall c ls, has_links c ls = true <-> exists l, In l ls /\ incident c l.
Proof.
  intros c ls. unfold has_links, incident. rewrite existsb_exists. split; intros [l [H1 H2]]; exists l; split; auto.
  - apply orb_true_iff in H2. rewrite !seqb_eq in H2. exact H2.
  - apply orb_true_iff. rewrite !seqb_eq. exact H2.
Qed.
Lemma ntype_eqb_eq : forall a b, ntype_eqb a b = true <-> a = b.
Proof. intros [] []; cbn; split; intro H; try reflexivity; try discriminate. Qed.

Definition rules : list string :=
  ["duplicate_city"; "link_unknown_node"; "self_loop_link"; "duplicate_link"; "unreferenced_node"; "eqpt_unknown_node";
   "eqpt_unknown_link"; "duplicate_eqpt"; "duplicate_ila"; "fused_degree"]%string.
Definition topo_err (r : string) : string := ("NetworkTopologyError:" +s r)%string.

(* Either one of the ten rules rejects the workbook, or all of them hold and the conversion proper runs. *)
Lemma checks_cases : forall ns ls es,
  (exists r, In r rules /\
     (let* _ := parse_check ns ls in sanity_check ns ls es) = Err (topo_err r)) \/
  (sane ns ls es /\ parse_check ns ls = Ok tt /\ sanity_check ns ls es = Ok (map (correct_type ls) ns)).
Proof.
  intros ns ls es. unfold parse_check.
  destruct (dupb (cities ns)) eqn:E1.
  { left. exists "duplicate_city"%string. split; [cbn; tauto | reflexivity]. }
  destruct (existsb (fun l => negb (smem (l_from l) (cities ns)) || negb (smem (l_to l) (cities ns))) ls) eqn:E2.
  { left. exists "link_unknown_node"%string. split; [cbn; tauto | reflexivity]. }
  cbn [bind]. unfold sanity_check.
  destruct (existsb (fun l => seqb (l_from l) (l_to l)) ls) eqn:E0.
  { left. exists "self_loop_link"%string. split; [cbn; tauto | reflexivity]. }
  destruct (dup_links ls) eqn:E3.
  { left. exists "duplicate_link"%string. split; [cbn; tauto | reflexivity]. }
  destruct (existsb (fun n => negb (has_links (n_city n) ls)) ns) eqn:E4.
  { left. exists "unreferenced_node"%string. split; [cbn; tauto | reflexivity]. }
  destruct (existsb (fun e => negb (smem (e_from e) (cities ns)) || negb (smem (e_to e) (cities ns))) es) eqn:E5.
  { left. exists "eqpt_unknown_node"%string. split; [cbn; tauto | reflexivity]. }
  destruct (existsb (bad_eqpt ls) es) eqn:E6.
  { left. exists "eqpt_unknown_link"%string. split; [cbn; tauto | reflexivity]. }
  destruct (dupb (map (fun e => pair_key (e_from e) (e_to e)) es)) eqn:E7.
  { left. exists "duplicate_eqpt"%string. split; [cbn; tauto | reflexivity]. }
  destruct (existsb (fun n => ntype_eqb (n_type n) TIla && Nat.ltb 1 (length (eqpts_of (n_city n) es))) ns) eqn:E8.
  { left. exists "duplicate_ila"%string. split; [cbn; tauto | reflexivity]. }
  destruct (existsb (fun n => ntype_eqb (n_type n) TFused && negb (Nat.eqb (length (links_of (n_city n) ls)) 2)) ns) eqn:E9.
  { left. exists "fused_degree"%string. split; [cbn; tauto | reflexivity]. }
  right. split; [|split; reflexivity].
  constructor.
  - intros l Hl. rewrite existsb_false in E0. specialize (E0 l Hl). apply seqb_neq. exact E0.
  - apply dupb_NoDup. exact E1.
  - intros l Hl. rewrite existsb_false in E2. specialize (E2 l Hl). apply orb_false_iff in E2.
    destruct E2 as [A B]. apply negb_false_iff in A, B. apply smem_In in A, B. split; assumption.
  - apply dup_links_spec. exact E3.
  - intros n Hn. rewrite existsb_false in E4. specialize (E4 n Hn). apply negb_false_iff in E4.
    apply has_links_spec. exact E4.
  - intros e He. rewrite existsb_false in E5. specialize (E5 e He). apply orb_false_iff in E5.
    destruct E5 as [A B]. apply negb_false_iff in A, B. apply smem_In in A, B. split; assumption.
  - intros e He. rewrite existsb_false in E6. specialize (E6 e He). unfold bad_eqpt in E6. apply orb_false_iff in E6.
    destruct E6 as [A B]. apply negb_false_iff in A, B. apply smem_In in A, B. split; assumption.
  - apply dupb_NoDup. exact E7.
  - intros n Hn Ht. rewrite existsb_false in E8. specialize (E8 n Hn). rewrite Ht in E8. cbn [ntype_eqb andb] in E8.
    apply Nat.ltb_ge in E8. exact E8.
  - intros n Hn Ht. rewrite existsb_false in E9. specialize (E9 n Hn). rewrite Ht in E9. cbn [ntype_eqb andb] in E9.
    apply negb_false_iff in E9. apply Nat.eqb_eq. exact E9.
Qed.

Lemma convert_unfold : forall w,
  convert w = let* ns' := (let* _ := parse_check (map mk_node (w_nodes w)) (map mk_link (w_links w)) in
                           sanity_check (map mk_node (w_nodes w)) (map mk_link (w_links w)) (map mk_eqpt (w_eqpts w))) in
              build ns' (map mk_link (w_links w)) (map mk_eqpt (w_eqpts w)) (w_roadms w).
Proof.
  intros w. unfold convert. destruct (parse_check _ _) as [[]|e]; reflexivity.
Qed.

(* accepted workbooks satisfy every rule, and what is built is built from the corrected node list *)
Lemma convert_ok_sane : forall w n, convert w = Ok n ->
  let ns := map mk_node (w_nodes w) in let ls := map mk_link (w_links w) in let es := map mk_eqpt (w_eqpts w) in
  sane ns ls es /\ build (map (correct_type ls) ns) ls es (w_roadms w) = Ok n.
Proof.
  intros w n H ns ls es. rewrite convert_unfold in H.
  destruct (checks_cases ns ls es) as [[r [_ Hr]]|[Hs [H1 H2]]].
  - fold ns ls es in H. rewrite Hr in H. discriminate.
  - fold ns ls es in H. rewrite H1 in H. cbn [bind] in H. rewrite H2 in H. cbn [bind] in H. split; assumption.
Qed.

(* a workbook breaking any rule is rejected with a topology error naming one of the rules - never converted *)
Lemma convert_rejects : forall w,
  ~ sane (map mk_node (w_nodes w)) (map mk_link (w_links w)) (map mk_eqpt (w_eqpts w)) ->
  exists r, In r rules /\ convert w = Err (topo_err r).
Proof.
  intros w Hn. rewrite convert_unfold.
  destruct (checks_cases (map mk_node (w_nodes w)) (map mk_link (w_links w)) (map mk_eqpt (w_eqpts w)))
    as [[r [Hr He]]|[Hs _]].
  - exists r. split; [exact Hr|]. rewrite He. reflexivity.
  - contradiction.
Qed.
