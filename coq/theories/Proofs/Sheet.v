(* C20 — lemmas about Model/Sheet.v *)
From Coq Require Import QArith Lia.
From Verif Require Import Prelude Model.Sheet.
Open Scope Z_scope.

(* west side of a Links row: every empty cell takes the (defaulted) east value *)
Lemma west_defaults_to_east : forall r,
  l_west (mk_link r) = fill_side (l_east (mk_link r)) (lr_west r).
Proof. reflexivity. Qed.
