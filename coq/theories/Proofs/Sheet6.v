(* C20 — lemmas about Model/Sheet.v, part 6: existence of the chain of every fibre end and of every piece of
   equipment; connection end points exist; unique predecessor / successor; Eqpt rows face their neighbour. *)
From Coq Require Import QArith Lia.
From Verif Require Import Prelude Model.Sheet Proofs.Sheet Proofs.Sheet2 Proofs.Sheet3 Proofs.Sheet4 Proofs.Sheet5.
Open Scope Z_scope.

Lemma city_node : forall ns c, In c (cities ns) -> exists n, In n ns /\ n_city n = c.
Proof. intros ns c H. apply in_map_iff in H. destruct H as [n [E I]]. exists n. split; assumption. Qed.

(* ------------------------------------------------------------------ membership in the uid list, segment by segment *)
Section Segments.
  Context (ns : list node) (ls : list link) (es : list eqpt).
  Let U := uid_list ns ls es.
  Lemma U_trx : forall n, In n ns -> n_type n = TRoadm -> In (UTrx (n_city n)) U.
  Proof.
    intros n I T. unfold U, uid_list. apply in_or_app. left. apply in_map_iff. exists n. split; [reflexivity|].
    apply filter_In. split; [exact I|]. unfold is_t. rewrite T. reflexivity.
  Qed.
  Lemma U_roadm : forall n, In n ns -> n_type n = TRoadm -> In (URoadm (n_city n)) U.
  Proof.
    intros n I T. unfold U, uid_list. apply in_or_app. right. apply in_or_app. left.
    apply in_map_iff. exists n. split; [reflexivity|].
    apply filter_In. split; [exact I|]. unfold is_t. rewrite T. reflexivity.
  Qed.
  Lemma U_fused : forall d n, In n ns -> n_type n = TFused -> In (UFused d (n_city n)) U.
  Proof.
    intros d n I T. unfold U, uid_list. do 2 (apply in_or_app; right).
    assert (F : In n (filter (is_t TFused) ns)) by (apply filter_In; split; [exact I|]; unfold is_t; rewrite T; reflexivity).
    destruct d.
    - apply in_or_app. right. apply in_or_app. left. apply in_map_iff. exists n. split; [reflexivity | exact F].
    - apply in_or_app. left. apply in_map_iff. exists n. split; [reflexivity | exact F].
  Qed.
  Lemma U_fiber_east : forall l, In l ls -> In (east_fiber_uid l) U.
  Proof.
    intros l I. unfold U, uid_list. do 4 (apply in_or_app; right). apply in_or_app. left. apply in_map. exact I.
  Qed.
  Lemma U_fiber_west : forall l, In l ls -> In (west_fiber_uid l) U.
  Proof.
    intros l I. unfold U, uid_list. do 5 (apply in_or_app; right). apply in_or_app. left. apply in_map. exact I.
  Qed.
  Lemma U_auto : forall d n, In n ns -> n_type n = TIla -> eqpts_of (n_city n) es = [] -> In (UEdfa d (n_city n)) U.
  Proof.
    intros d n I T E. unfold U, uid_list. do 6 (apply in_or_app; right).
    assert (F : In n (auto_ilas ns es)).
    { unfold auto_ilas. apply filter_In. split; [exact I|]. unfold is_t. rewrite T. cbn [ntype_eqb andb].
      apply negb_true_iff. unfold has_eqpt. apply existsb_false. intros e He.
      destruct (seqb (e_from e) (n_city n)) eqn:S; [|reflexivity].
      assert (In e (eqpts_of (n_city n) es)) by (apply eqpts_of_In; split; [exact He | apply seqb_eq; exact S]).
      rewrite E in H. destruct H. }
    destruct d.
    - apply in_or_app. right. apply in_or_app. left. apply in_map_iff. exists n. split; [reflexivity | exact F].
    - apply in_or_app. left. apply in_map_iff. exists n. split; [reflexivity | exact F].
  Qed.
  Lemma U_eqpt : forall d e, In e es -> In (UEdfaTo d (e_from e) (e_to e)) U.
  Proof.
    intros d e I. unfold U, uid_list. do 8 (apply in_or_app; right). destruct d.
    - apply in_or_app. left. apply in_map_iff. exists e. split; [reflexivity | exact I].
    - apply in_or_app. right. apply in_map_iff. exists e. split; [reflexivity | exact I].
  Qed.
End Segments.

Lemma in_out_uid_U : forall ns ls es c l, In l (links_of c ls) ->
  In (in_uid c l) (uid_list ns ls es) /\ In (out_uid c l) (uid_list ns ls es).
Proof.
  intros ns ls es c l H. apply links_of_In in H. destruct H as [I _]. unfold in_uid, out_uid.
  destruct (seqb (l_from l) c); split; (apply U_fiber_east || apply U_fiber_west); exact I.
Qed.

(* the equipment named by eqpt_in_city_to_city exists *)
Lemma ein_U : forall ns ls es n o d m, good ns ls es -> In n ns ->
  ein (n_city n) o es (n_type n) d = Some m -> In m (uid_list ns ls es).
Proof.
  intros ns ls es n o d m G Hn H. destruct (n_type n) eqn:T.
  - rewrite ein_roadm in H. destruct (has_row (n_city n) o es) eqn:R; [|discriminate]. inversion H; subst m.
    apply has_row_spec in R. destruct R as [e [Ie [Ef Et]]]. rewrite <- Ef at 1. rewrite <- Et. apply U_eqpt. exact Ie.
  - pose proof (g_ila_one _ _ _ G n Hn T) as Hle.
    destruct (eqpts_of (n_city n) es) as [|e [|e' t]] eqn:E; cbn [length] in Hle; [| |lia].
    + rewrite (ein_ila_none _ _ _ _ E) in H. inversion H. apply U_auto; assumption.
    + rewrite (ein_ila_one _ _ _ _ _ E) in H. inversion H.
      assert (Ie : In e (eqpts_of (n_city n) es)) by (rewrite E; left; reflexivity).
      apply eqpts_of_In in Ie. destruct Ie as [Ie Ef]. rewrite <- Ef at 1. apply U_eqpt. exact Ie.
  - rewrite ein_fused in H. inversion H. apply U_fused; assumption.
Qed.

Lemma chain_uids_exist : forall ns ls es n ch, good ns ls es -> In n ns -> chain_shape ls es n ch ->
  In (c_first ch) (uid_list ns ls es) /\ In (c_last ch) (uid_list ns ls es) /\
  (forall m, c_mid ch = Some m -> In m (uid_list ns ls es)).
Proof.
  intros ns ls es n ch G Hn S.
  destruct S as [l T I E|l T I E|l0 l1 T L E|l0 l1 T L E]; subst ch;
    cbn [c_first c_mid c_last fst snd rc_out rc_in lc_a lc_b].
  - split; [apply U_roadm; assumption|]. split; [apply (in_out_uid_U ns ls es _ l I)|].
    intros m H. rewrite <- T in H. eapply ein_U; eassumption.
  - split; [apply (in_out_uid_U ns ls es _ l I)|]. split; [apply U_roadm; assumption|].
    intros m H. rewrite <- T in H. eapply ein_U; eassumption.
  - destruct (two_links_In _ _ _ _ L) as [I0 I1].
    split; [apply (in_out_uid_U ns ls es _ l0 I0)|]. split; [apply (in_out_uid_U ns ls es _ l1 I1)|].
    intros m H. eapply ein_U; eassumption.
  - destruct (two_links_In _ _ _ _ L) as [I0 I1].
    split; [apply (in_out_uid_U ns ls es _ l1 I1)|]. split; [apply (in_out_uid_U ns ls es _ l0 I0)|].
    intros m H. eapply ein_U; eassumption.
Qed.

(* ------------------------------------------------------------------ connections *)
Definition conns (ns : list node) (ls : list link) (es : list eqpt) : list (uid * uid) :=
  flat_map connect3 (all_chains ns ls es) ++ trx_conns ns.

Lemma connect3_In : forall ch x y, In (x, y) (connect3 ch) <->
  match c_mid ch with
  | Some m => (x = c_first ch /\ y = m) \/ (x = m /\ y = c_last ch)
  | None => x = c_first ch /\ y = c_last ch
  end.
Proof.
  intros [[a m] b] x y. unfold connect3, connect_eqpt, c_mid, c_first, c_last. cbn [fst snd].
  destruct m as [m|]; cbn [In]; split; intros H.
  - destruct H as [H|[H|[]]]; inversion H; subst; auto.
  - destruct H as [[-> ->]|[-> ->]]; auto.
  - destruct H as [H|[]]. inversion H; subst; auto.
  - destruct H as [-> ->]. auto.
Qed.
Lemma trx_conns_In : forall ns x y, In (x, y) (trx_conns ns) ->
  exists n, In n ns /\ n_type n = TRoadm /\
    ((x = UTrx (n_city n) /\ y = URoadm (n_city n)) \/ (x = URoadm (n_city n) /\ y = UTrx (n_city n))).
Proof.
  intros ns x y H. unfold trx_conns in H. apply in_flat_map in H. destruct H as [n [Hn H]].
  apply filter_In in Hn. destruct Hn as [I T]. unfold is_t in T. apply ntype_eqb_eq in T.
  exists n. split; [exact I|]. split; [exact T|]. cbn [In] in H.
  destruct H as [H|[H|[]]]; inversion H; subst; auto.
Qed.
Lemma conns_In : forall ns ls es x y, In (x, y) (conns ns ls es) <->
  (exists ch, In ch (all_chains ns ls es) /\ In (x, y) (connect3 ch)) \/ In (x, y) (trx_conns ns).
Proof.
  intros. unfold conns. rewrite in_app_iff, in_flat_map. reflexivity.
Qed.

(* all connection end points are elements *)
Lemma endpoints_exist : forall ns ls es x y, good ns ls es -> In (x, y) (conns ns ls es) ->
  In x (uid_list ns ls es) /\ In y (uid_list ns ls es).
Proof.
  intros ns ls es x y G H. apply conns_In in H. destruct H as [[ch [Hc H]]|H].
  - destruct (chain_shape_of _ _ _ _ G Hc) as [n [Hn S]].
    destruct (chain_uids_exist _ _ _ _ _ G Hn S) as [F [L M]].
    apply connect3_In in H. destruct (c_mid ch) as [m|] eqn:E.
    + specialize (M m eq_refl). destruct H as [[-> ->]|[-> ->]]; auto.
    + destruct H as [-> ->]. auto.
  - apply trx_conns_In in H. destruct H as [n [I [T [[-> ->]|[-> ->]]]]]; split;
      (apply U_trx || apply U_roadm); assumption.
Qed.

(* ------------------------------------------------------------------ existence of chains *)
Lemma in_chain_exists : forall ns ls es n l, good ns ls es -> In n ns -> In l (links_of (n_city n) ls) ->
  exists ch, In ch (all_chains ns ls es) /\ c_first ch = in_uid (n_city n) l.
Proof.
  intros ns ls es n l G Hn I. destruct (n_type n) eqn:T.
  - exists (rc_in (n_city n) es l). split; [|reflexivity]. apply all_chains_In. exists n. split; [exact Hn|].
    apply rc_in_In; assumption.
  - assert (T' : n_type n <> TRoadm) by congruence. destruct (g_line_two _ _ _ G n Hn T') as [l0 [l1 L]].
    destruct (lc_In ls es n l0 l1 T' L) as [A B]. rewrite L in I. destruct I as [->|[->|[]]].
    + exists (lc_a (n_city n) (n_type n) es l l1). split; [apply all_chains_In; exists n; auto | reflexivity].
    + exists (lc_b (n_city n) (n_type n) es l0 l). split; [apply all_chains_In; exists n; auto | reflexivity].
  - assert (T' : n_type n <> TRoadm) by congruence. destruct (g_line_two _ _ _ G n Hn T') as [l0 [l1 L]].
    destruct (lc_In ls es n l0 l1 T' L) as [A B]. rewrite L in I. destruct I as [->|[->|[]]].
    + exists (lc_a (n_city n) (n_type n) es l l1). split; [apply all_chains_In; exists n; auto | reflexivity].
    + exists (lc_b (n_city n) (n_type n) es l0 l). split; [apply all_chains_In; exists n; auto | reflexivity].
Qed.
Lemma out_chain_exists : forall ns ls es n l, good ns ls es -> In n ns -> In l (links_of (n_city n) ls) ->
  exists ch, In ch (all_chains ns ls es) /\ c_last ch = out_uid (n_city n) l.
Proof.
  intros ns ls es n l G Hn I. destruct (n_type n) eqn:T.
  - exists (rc_out (n_city n) es l). split; [|reflexivity]. apply all_chains_In. exists n. split; [exact Hn|].
    apply rc_out_In; assumption.
  - assert (T' : n_type n <> TRoadm) by congruence. destruct (g_line_two _ _ _ G n Hn T') as [l0 [l1 L]].
    destruct (lc_In ls es n l0 l1 T' L) as [A B]. rewrite L in I. destruct I as [->|[->|[]]].
    + exists (lc_b (n_city n) (n_type n) es l l1). split; [apply all_chains_In; exists n; auto | reflexivity].
    + exists (lc_a (n_city n) (n_type n) es l0 l). split; [apply all_chains_In; exists n; auto | reflexivity].
  - assert (T' : n_type n <> TRoadm) by congruence. destruct (g_line_two _ _ _ G n Hn T') as [l0 [l1 L]].
    destruct (lc_In ls es n l0 l1 T' L) as [A B]. rewrite L in I. destruct I as [->|[->|[]]].
    + exists (lc_b (n_city n) (n_type n) es l l1). split; [apply all_chains_In; exists n; auto | reflexivity].
    + exists (lc_a (n_city n) (n_type n) es l0 l). split; [apply all_chains_In; exists n; auto | reflexivity].
Qed.

(* a fibre is the arriving fibre of its head site and the leaving fibre of its tail site *)
Lemma fiber_as_in_out : forall ls l d, no_loops ls -> In l ls ->
  exists a b, In l (links_of a ls) /\ In l (links_of b ls) /\
    fiber_uid_of d l = out_uid a l /\ fiber_uid_of d l = in_uid b l /\
    ((a = l_from l /\ b = l_to l) \/ (a = l_to l /\ b = l_from l)).
Proof.
  intros ls l d Hl I. pose proof (Hl l I) as N.
  assert (F : seqb (l_from l) (l_to l) = false) by (apply seqb_neq; exact N).
  assert (I1 : In l (links_of (l_from l) ls)) by (apply links_of_In; split; [exact I | left; reflexivity]).
  assert (I2 : In l (links_of (l_to l) ls)) by (apply links_of_In; split; [exact I | right; reflexivity]).
  destruct d; cbn [fiber_uid_of].
  - exists (l_from l), (l_to l). unfold out_uid, in_uid. rewrite seqb_refl, F.
    repeat (split; [assumption || reflexivity|]). left. split; reflexivity.
  - exists (l_to l), (l_from l). unfold out_uid, in_uid. rewrite seqb_refl, F.
    repeat (split; [assumption || reflexivity|]). right. split; reflexivity.
Qed.

Lemma fiber_chains : forall ns ls es l d, good ns ls es -> In l ls ->
  (exists ch, In ch (all_chains ns ls es) /\ c_first ch = fiber_uid_of d l) /\
  (exists ch, In ch (all_chains ns ls es) /\ c_last ch = fiber_uid_of d l).
Proof.
  intros ns ls es l d G I.
  destruct (fiber_as_in_out ls l d (g_loops _ _ _ G) I) as [a [b [Ia [Ib [Eo [Ei Hab]]]]]].
  destruct (g_link_ends _ _ _ G l I) as [Cf Ct].
  assert (Ca : In a (cities ns)) by (destruct Hab as [[-> _]|[-> _]]; assumption).
  assert (Cb : In b (cities ns)) by (destruct Hab as [[_ ->]|[_ ->]]; assumption).
  destruct (city_node ns a Ca) as [na [Na Ea]]. destruct (city_node ns b Cb) as [nb [Nb Eb]]. subst a b.
  split.
  - destruct (in_chain_exists ns ls es nb l G Nb Ib) as [ch [H1 H2]]. exists ch. split; [exact H1 | congruence].
  - destruct (out_chain_exists ns ls es na l G Na Ia) as [ch [H1 H2]]. exists ch. split; [exact H1 | congruence].
Qed.

(* the chain carrying a piece of equipment *)
Lemma eqpt_chain : forall ns ls es e d, good ns ls es -> In e es ->
  exists ch, In ch (all_chains ns ls es) /\ c_mid ch = Some (UEdfaTo d (e_from e) (e_to e)) /\
    (* it faces the named neighbour: the east element feeds the fibre towards it, the west one is fed by the fibre from it *)
    match d with
    | East => exists k, c_last ch = UFiber (e_from e) (e_to e) k
    | West => exists k, c_first ch = UFiber (e_to e) (e_from e) k
    end.
Proof.
  intros ns ls es e d G Ie.
  destruct (g_eqpt_ends _ _ _ G e Ie) as [Ca _]. destruct (city_node ns _ Ca) as [n [Hn Ec]].
  destruct (g_eqpt_link _ _ _ G e Ie) as [l [Il Eo]]. rewrite <- Ec in Il, Eo.
  assert (Ie' : In e (eqpts_of (n_city n) es)) by (apply eqpts_of_In; split; [exact Ie | symmetry; exact Ec]).
  destruct (in_uid_shape _ ls l Il) as [ki Ki]. destruct (out_uid_shape _ ls l Il) as [ko Ko].
  destruct (n_type n) eqn:T.
  - (* ROADM site *)
    assert (R : has_row (n_city n) (other_city (n_city n) l) es = true).
    { apply has_row_spec. exists e. split; [exact Ie|]. split; [symmetry; exact Ec | symmetry; exact Eo]. }
    destruct d.
    + exists (rc_out (n_city n) es l). split; [apply all_chains_In; exists n; split; [exact Hn | apply rc_out_In; assumption]|].
      cbn [c_mid c_last rc_out fst snd]. rewrite ein_roadm, R. rewrite <- Ec, <- Eo. split; [reflexivity|].
      exists ko. exact Ko.
    + exists (rc_in (n_city n) es l). split; [apply all_chains_In; exists n; split; [exact Hn | apply rc_in_In; assumption]|].
      cbn [c_mid c_first rc_in fst snd]. rewrite ein_roadm, R. rewrite <- Ec, <- Eo. split; [reflexivity|].
      exists ki. exact Ki.
  - (* ILA site: its single row *)
    assert (T' : n_type n <> TRoadm) by congruence.
    pose proof (g_ila_one _ _ _ G n Hn T) as Hle.
    destruct (eqpts_of (n_city n) es) as [|e0 [|e1 t]] eqn:E; cbn [length] in Hle; [destruct Ie' | | lia].
    destruct Ie' as [->|[]].
    destruct (g_line_two _ _ _ G n Hn T') as [l0 [l1 L]]. destruct (lc_In ls es n l0 l1 T' L) as [A B].
    destruct (two_links_In _ _ _ _ L) as [I0 I1].
    destruct (in_uid_shape _ ls l0 I0) as [ki0 Ki0]. destruct (out_uid_shape _ ls l0 I0) as [ko0 Ko0].
    destruct (in_uid_shape _ ls l1 I1) as [ki1 Ki1]. destruct (out_uid_shape _ ls l1 I1) as [ko1 Ko1].
    rewrite T in A, B.
    assert (MA : c_mid (lc_a (n_city n) TIla es l0 l1) =
                 Some (UEdfaTo (if seqb (e_to e) (other_city (n_city n) l0) then West else East) (n_city n) (e_to e)))
      by (cbn [c_mid lc_a fst snd]; rewrite (ein_ila_one _ _ _ _ _ E); reflexivity).
    assert (MB : c_mid (lc_b (n_city n) TIla es l0 l1) =
                 Some (UEdfaTo (if seqb (e_to e) (other_city (n_city n) l0) then East else West) (n_city n) (e_to e)))
      by (cbn [c_mid lc_b fst snd]; rewrite (ein_ila_one _ _ _ _ _ E); reflexivity).
    (* l is l0 or l1 *)
    rewrite L in Il. rewrite <- Ec.
    destruct (seqb (e_to e) (other_city (n_city n) l0)) eqn:S.
    + (* the row names the first neighbour *)
      apply seqb_eq in S. destruct d.
      * exists (lc_b (n_city n) TIla es l0 l1). split; [apply all_chains_In; exists n; auto|]. split; [exact MB|].
        cbn [c_last lc_b snd]. rewrite S. exists ko0. exact Ko0.
      * exists (lc_a (n_city n) TIla es l0 l1). split; [apply all_chains_In; exists n; auto|]. split; [exact MA|].
        cbn [c_first lc_a fst]. rewrite S. exists ki0. exact Ki0.
    + (* the row names the second neighbour *)
      apply seqb_neq in S.
      assert (l = l1) by (destruct Il as [->|[->|[]]]; [exfalso; apply S; symmetry; exact Eo | reflexivity]). subst l.
      destruct d.
      * exists (lc_a (n_city n) TIla es l0 l1). split; [apply all_chains_In; exists n; auto|]. split; [exact MA|].
        cbn [c_last lc_a snd]. rewrite <- Eo. exists ko1. exact Ko1.
      * exists (lc_b (n_city n) TIla es l0 l1). split; [apply all_chains_In; exists n; auto|]. split; [exact MB|].
        cbn [c_first lc_b fst]. rewrite <- Eo. exists ki1. exact Ki1.
  - (* FUSED sites have no rows *)
    rewrite (g_fused_none _ _ _ G n Hn T) in Ie'. destruct Ie'.
Qed.

Lemma auto_chain : forall ns ls es n d, good ns ls es -> In n (auto_ilas ns es) ->
  exists ch, In ch (all_chains ns ls es) /\ c_mid ch = Some (UEdfa d (n_city n)).
Proof.
  intros ns ls es n d G H. unfold auto_ilas in H. apply filter_In in H. destruct H as [Hn H].
  apply andb_true_iff in H. destruct H as [T E]. unfold is_t in T. apply ntype_eqb_eq in T.
  apply negb_true_iff in E.
  assert (E' : eqpts_of (n_city n) es = []).
  { unfold has_eqpt in E. rewrite existsb_false in E. unfold eqpts_of.
    destruct (filter _ es) as [|e t] eqn:F; [reflexivity|].
    assert (In e (filter (fun e => seqb (e_from e) (n_city n)) es)) by (rewrite F; left; reflexivity).
    apply filter_In in H. destruct H as [I S]. rewrite (E e I) in S. discriminate. }
  assert (T' : n_type n <> TRoadm) by congruence.
  destruct (g_line_two _ _ _ G n Hn T') as [l0 [l1 L]]. destruct (lc_In ls es n l0 l1 T' L) as [A B].
  rewrite T in A, B. destruct d.
  - exists (lc_b (n_city n) TIla es l0 l1). split; [apply all_chains_In; exists n; auto|].
    cbn [c_mid lc_b fst snd]. apply ein_ila_none. exact E'.
  - exists (lc_a (n_city n) TIla es l0 l1). split; [apply all_chains_In; exists n; auto|].
    cbn [c_mid lc_a fst snd]. apply ein_ila_none. exact E'.
Qed.
Lemma fused_chain : forall ns ls es n d, good ns ls es -> In n ns -> n_type n = TFused ->
  exists ch, In ch (all_chains ns ls es) /\ c_mid ch = Some (UFused d (n_city n)).
Proof.
  intros ns ls es n d G Hn T.
  assert (T' : n_type n <> TRoadm) by congruence.
  destruct (g_line_two _ _ _ G n Hn T') as [l0 [l1 L]]. destruct (lc_In ls es n l0 l1 T' L) as [A B].
  rewrite T in A, B. destruct d.
  - exists (lc_b (n_city n) TFused es l0 l1). split; [apply all_chains_In; exists n; auto|].
    cbn [c_mid lc_b fst snd]. apply ein_fused.
  - exists (lc_a (n_city n) TFused es l0 l1). split; [apply all_chains_In; exists n; auto|].
    cbn [c_mid lc_a fst snd]. apply ein_fused.
Qed.

(* ------------------------------------------------------------------ exactly one successor, exactly one predecessor *)
Definition one_succ (cs : list (uid * uid)) (u : uid) : Prop :=
  exists v, In (u, v) cs /\ forall v', In (u, v') cs -> v' = v.
Definition one_pred (cs : list (uid * uid)) (u : uid) : Prop :=
  exists p, In (p, u) cs /\ forall p', In (p', u) cs -> p' = p.

Lemma chain_first_end : forall ns ls es ch, good ns ls es -> In ch (all_chains ns ls es) ->
  is_end (c_first ch) /\ is_end (c_last ch) /\ forall m, c_mid ch = Some m -> is_mid m.
Proof.
  intros ns ls es ch G H. destruct (chain_shape_of _ _ _ _ G H) as [n [Hn S]].
  destruct (chain_ends _ _ _ _ S) as [A B]. split; [exact A|]. split; [exact B|].
  intros m M. apply (chain_mid_kind _ _ _ _ _ S M).
Qed.

Lemma fiber_one_succ : forall ns ls es ch, good ns ls es -> In ch (all_chains ns ls es) ->
  is_fiber (c_first ch) -> one_succ (conns ns ls es) (c_first ch).
Proof.
  intros ns ls es ch G H F.
  exists (match c_mid ch with Some m => m | None => c_last ch end). split.
  - apply conns_In. left. exists ch. split; [exact H|]. apply connect3_In. destruct (c_mid ch); auto.
  - intros v' Hv. apply conns_In in Hv. destruct Hv as [[ch' [H' Hv]]|Hv].
    + destruct (chain_first_end _ _ _ _ G H') as [_ [_ M']].
      apply connect3_In in Hv. destruct (c_mid ch') as [m'|] eqn:E'.
      * destruct Hv as [[E1 ->]|[E1 ->]].
        -- assert (ch = ch') by (eapply first_unique; eassumption). subst ch'. rewrite E'. reflexivity.
        -- exfalso. apply (fiber_not_mid (c_first ch) F). rewrite E1. apply M'. reflexivity.
      * destruct Hv as [E1 ->].
        assert (ch = ch') by (eapply first_unique; eassumption). subst ch'. rewrite E'. reflexivity.
    + apply trx_conns_In in Hv. destruct Hv as [n [_ [_ [[E _]|[E _]]]]]; rewrite E in F; destruct F.
Qed.
Lemma fiber_one_pred : forall ns ls es ch, good ns ls es -> In ch (all_chains ns ls es) ->
  is_fiber (c_last ch) -> one_pred (conns ns ls es) (c_last ch).
Proof.
  intros ns ls es ch G H F.
  exists (match c_mid ch with Some m => m | None => c_first ch end). split.
  - apply conns_In. left. exists ch. split; [exact H|]. apply connect3_In. destruct (c_mid ch); auto.
  - intros p' Hp. apply conns_In in Hp. destruct Hp as [[ch' [H' Hp]]|Hp].
    + destruct (chain_first_end _ _ _ _ G H') as [_ [_ M']].
      apply connect3_In in Hp. destruct (c_mid ch') as [m'|] eqn:E'.
      * destruct Hp as [[-> E1]|[-> E1]].
        -- exfalso. apply (fiber_not_mid (c_last ch) F). rewrite E1. apply M'. reflexivity.
        -- assert (ch = ch') by (eapply last_unique; eassumption). subst ch'. rewrite E'. reflexivity.
      * destruct Hp as [-> E1].
        assert (ch = ch') by (eapply last_unique; eassumption). subst ch'. rewrite E'. reflexivity.
    + apply trx_conns_In in Hp. destruct Hp as [n [_ [_ [[_ E]|[_ E]]]]]; rewrite E in F; destruct F.
Qed.
Lemma mid_one_succ_pred : forall ns ls es ch m, good ns ls es -> In ch (all_chains ns ls es) ->
  c_mid ch = Some m -> one_succ (conns ns ls es) m /\ one_pred (conns ns ls es) m.
Proof.
  intros ns ls es ch m G H M. destruct (chain_first_end _ _ _ _ G H) as [_ [_ Mk]]. specialize (Mk m M).
  split.
  - exists (c_last ch). split.
    + apply conns_In. left. exists ch. split; [exact H|]. apply connect3_In. rewrite M. auto.
    + intros v' Hv. apply conns_In in Hv. destruct Hv as [[ch' [H' Hv]]|Hv].
      * destruct (chain_first_end _ _ _ _ G H') as [A' [B' _]].
        apply connect3_In in Hv. destruct (c_mid ch') as [m'|] eqn:E'.
        -- destruct Hv as [[E1 ->]|[E1 ->]].
           ++ exfalso. apply (end_not_mid (c_first ch')); [exact A' | rewrite <- E1; exact Mk].
           ++ subst m'. assert (ch = ch') by (eapply mid_unique; eassumption). subst ch'. reflexivity.
        -- destruct Hv as [E1 ->]. exfalso. apply (end_not_mid (c_first ch')); [exact A' | rewrite <- E1; exact Mk].
      * apply trx_conns_In in Hv. destruct Hv as [n [_ [_ [[E _]|[E _]]]]]; rewrite E in Mk; destruct Mk.
  - exists (c_first ch). split.
    + apply conns_In. left. exists ch. split; [exact H|]. apply connect3_In. rewrite M. auto.
    + intros p' Hp. apply conns_In in Hp. destruct Hp as [[ch' [H' Hp]]|Hp].
      * destruct (chain_first_end _ _ _ _ G H') as [A' [B' _]].
        apply connect3_In in Hp. destruct (c_mid ch') as [m'|] eqn:E'.
        -- destruct Hp as [[-> E1]|[-> E1]].
           ++ subst m'. assert (ch = ch') by (eapply mid_unique; eassumption). subst ch'. reflexivity.
           ++ exfalso. apply (end_not_mid (c_last ch')); [exact B' | rewrite <- E1; exact Mk].
        -- destruct Hp as [-> E1]. exfalso. apply (end_not_mid (c_last ch')); [exact B' | rewrite <- E1; exact Mk].
      * apply trx_conns_In in Hp. destruct Hp as [n [_ [_ [[_ E]|[_ E]]]]]; rewrite E in Mk; destruct Mk.
Qed.

(* every line element of the converted network *)
Definition is_line (u : uid) : Prop := is_fiber u \/ is_mid u.
Theorem line_degree : forall ns ls es u, good ns ls es -> In u (uid_list ns ls es) -> is_line u ->
  one_succ (conns ns ls es) u /\ one_pred (conns ns ls es) u.
Proof.
  intros ns ls es u G H L. unfold uid_list, auto_ilas in H. in_maps; subst u.
  - destruct L as [[]|[]].
  - destruct L as [[]|[]].
  - apply filter_In in H. destruct H as [I T]. unfold is_t in T. apply ntype_eqb_eq in T.
    destruct (fused_chain ns ls es x West G I T) as [ch [Hc M]]. eapply mid_one_succ_pred; eassumption.
  - apply filter_In in H. destruct H as [I T]. unfold is_t in T. apply ntype_eqb_eq in T.
    destruct (fused_chain ns ls es x East G I T) as [ch [Hc M]]. eapply mid_one_succ_pred; eassumption.
  - destruct (fiber_chains ns ls es x East G H) as [[c1 [H1 E1]] [c2 [H2 E2]]]. cbn [fiber_uid_of] in E1, E2. split.
    + rewrite <- E1. apply fiber_one_succ; [exact G | exact H1 | rewrite E1; exact Logic.I].
    + rewrite <- E2. apply fiber_one_pred; [exact G | exact H2 | rewrite E2; exact Logic.I].
  - destruct (fiber_chains ns ls es x West G H) as [[c1 [H1 E1]] [c2 [H2 E2]]]. cbn [fiber_uid_of] in E1, E2. split.
    + rewrite <- E1. apply fiber_one_succ; [exact G | exact H1 | rewrite E1; exact Logic.I].
    + rewrite <- E2. apply fiber_one_pred; [exact G | exact H2 | rewrite E2; exact Logic.I].
  - destruct (auto_chain ns ls es x West G H) as [ch [Hc M]]. eapply mid_one_succ_pred; eassumption.
  - destruct (auto_chain ns ls es x East G H) as [ch [Hc M]]. eapply mid_one_succ_pred; eassumption.
  - destruct (eqpt_chain ns ls es x East G H) as [ch [Hc [M _]]]. eapply mid_one_succ_pred; eassumption.
  - destruct (eqpt_chain ns ls es x West G H) as [ch [Hc [M _]]]. eapply mid_one_succ_pred; eassumption.
Qed.
