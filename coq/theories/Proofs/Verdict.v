(* C13 — proofs about Model/Verdict.v *)
From Coq Require Import QArith Qround Qminmax Qabs Lia Lqa Sorted Permutation.
From Verif Require Import Prelude Model.Verdict.
Open Scope Q_scope.

(* ---------------------------------------------------------------- boolean comparisons on Q *)
Lemma Qlt_bool_iff : forall a b, Qlt_bool a b = true <-> a < b.
Proof.
  intros a b. unfold Qlt_bool. rewrite negb_true_iff. split.
  - intros H. apply Qnot_le_lt. intros Hle. apply Qle_bool_iff in Hle. congruence.
  - intros H. destruct (Qle_bool b a) eqn:E; [|reflexivity].
    apply Qle_bool_iff in E. exfalso. apply (Qlt_not_le _ _ H E).
Qed.
Lemma Qlt_bool_false : forall a b, Qlt_bool a b = false <-> b <= a.
Proof.
  intros a b. unfold Qlt_bool. rewrite negb_false_iff. apply Qle_bool_iff.
Qed.

(* ====================================================================================================
   1. update_snr
   ==================================================================================================== *)
Definition same_raw (c d : rxch) : Prop :=
  baud c = baud d /\ raw_osnr_bw c = raw_osnr_bw d /\ raw_snr_bw c = raw_snr_bw d /\
  raw_osnr_01 c = raw_osnr_01 d /\ raw_snr_01 c = raw_snr_01 d.

Lemma update1_raw : forall a c, same_raw (update1 a c) c.
Proof. intros a c. repeat split. Qed.

Lemma update1_idem : forall a b c, update1 a (update1 b c) = update1 a c.
Proof. intros a b c. reflexivity. Qed.

Lemma update_from_length : forall r k args, length (update_from k args r) = length r.
Proof. induction r as [|c t IH]; intros k args; cbn; [reflexivity | now rewrite IH]. Qed.

Lemma update_from_idem : forall r k args args',
  update_from k args (update_from k args' r) = update_from k args r.
Proof.
  induction r as [|c t IH]; intros k args args'; cbn; [reflexivity|].
  now rewrite IH, update1_idem.
Qed.

Lemma update_snr_length : forall r args r', update_snr r args = Ok r' -> length r' = length r.
Proof.
  intros r args r' H. unfold update_snr in H.
  destruct (forallb (arg_fits (length r)) args); inversion H. apply update_from_length.
Qed.

(* one call after another one = the last call alone (same result, same error) *)
Lemma update_snr_twice : forall r a r1 args,
  update_snr r a = Ok r1 -> update_snr r1 args = update_snr r args.
Proof.
  intros r a r1 args H. pose proof (update_snr_length _ _ _ H) as L.
  unfold update_snr in *. destruct (forallb (arg_fits (length r)) a); [|discriminate].
  inversion H; subst r1. rewrite update_from_length.
  destruct (forallb (arg_fits (length r)) args); [|reflexivity].
  now rewrite update_from_idem.
Qed.

(* update_snr_hist_indep: after ANY history of update_snr calls, the figures produced by a further call depend only
   on the raw figures and on the arguments of that call *)
Lemma update_snr_hist_indep : forall h r r1 args,
  run_updates r h = Ok r1 -> update_snr r1 args = update_snr r args.
Proof.
  induction h as [|a t IH]; intros r r1 args H; cbn in H.
  - now inversion H.
  - destruct (update_snr r a) as [r'|e] eqn:E; cbn in H; [|discriminate].
    rewrite (IH _ _ args H). eapply update_snr_twice; eassumption.
Qed.

(* the raw figures survive any history *)
Lemma update_from_raw : forall r k args, Forall2 same_raw (update_from k args r) r.
Proof.
  induction r as [|c t IH]; intros k args; cbn; constructor; [apply update1_raw | apply IH].
Qed.
Lemma same_raw_trans : forall a b c, same_raw a b -> same_raw b c -> same_raw a c.
Proof. unfold same_raw; intros a b c H1 H2; intuition congruence. Qed.
Lemma Forall2_same_raw_trans : forall a b c, Forall2 same_raw a b -> Forall2 same_raw b c -> Forall2 same_raw a c.
Proof.
  induction a as [|x a IH]; intros b c H1 H2; inversion H1; subst; inversion H2; subst; constructor.
  - eapply same_raw_trans; eassumption.
  - eapply IH; eassumption.
Qed.
Lemma Forall2_same_raw_refl : forall a, Forall2 same_raw a a.
Proof. induction a; constructor; [repeat split | assumption]. Qed.
Lemma run_updates_raw : forall h r r1, run_updates r h = Ok r1 -> Forall2 same_raw r1 r.
Proof.
  induction h as [|a t IH]; intros r r1 H; cbn in H.
  - inversion H; subst. apply Forall2_same_raw_refl.
  - destruct (update_snr r a) as [r'|e] eqn:E; cbn in H; [|discriminate].
    eapply Forall2_same_raw_trans; [eapply IH; eassumption|].
    unfold update_snr in E. destruct (forallb (arg_fits (length r)) a); inversion E. apply update_from_raw.
Qed.

(* the figures of channel k after one call *)
Lemma update_from_nth : forall r k0 args k c,
  nth_error r k = Some c -> nth_error (update_from k0 args r) k = Some (update1 (added_at args (k0 + k)) c).
Proof.
  induction r as [|x t IH]; intros k0 args k c H; destruct k; cbn in *; try discriminate.
  - inversion H; subst. now rewrite Nat.add_0_r.
  - rewrite (IH (S k0) args k c H). now rewrite Nat.add_succ_r.
Qed.

Lemma ref_bw_unit : ref_bw / ref_bw == 1.
Proof. reflexivity. Qed.
Lemma snr_sum_ref : forall x a, snr_sum x ref_bw a == x + a.
Proof. intros x a. unfold snr_sum. rewrite ref_bw_unit. ring. Qed.

Fixpoint contrib_at (l : list (option arg)) (k : nat) : Q :=
  match l with
  | [] => 0
  | Some a :: t => arg_at a k + contrib_at t k
  | None :: t => contrib_at t k
  end.
Lemma added_at_app : forall l1 l2 k, added_at (l1 ++ l2) k == added_at l1 k + added_at l2 k.
Proof.
  induction l1 as [|[a|] t IH]; intros l2 k; cbn.
  - ring.
  - rewrite IH. ring.
  - apply IH.
Qed.

(* once_each: with the argument list the code builds (one entry per crossed ROADM — None for an express one — followed
   by the transmitter OSNR), the receiver figure in 0.1 nm is  line + sum of the ROADM entries + tx, each exactly once *)
Lemma once_each : forall r roadms tx r' k c,
  update_snr r (roadms ++ [Some (Scalar tx)]) = Ok r' -> nth_error r k = Some c ->
  exists c', nth_error r' k = Some c' /\ same_raw c' c /\
    snr_01 c' == raw_snr_01 c + added_at roadms k + tx /\
    osnr_01 c' == raw_osnr_01 c + added_at roadms k + tx /\
    snr_bw c' == raw_snr_bw c + (added_at roadms k + tx) * (baud c / ref_bw) /\
    osnr_bw c' == raw_osnr_bw c + (added_at roadms k + tx) * (baud c / ref_bw).
Proof.
  intros r roadms tx r' k c H Hk. unfold update_snr in H.
  destruct (forallb (arg_fits (length r)) (roadms ++ [Some (Scalar tx)])); inversion H; subst r'.
  eexists. split; [apply (update_from_nth r 0%nat _ k c Hk)|]. cbn [Nat.add].
  split; [apply update1_raw|].
  assert (A : added_at (roadms ++ [Some (Scalar tx)]) k == added_at roadms k + tx).
  { rewrite added_at_app. cbn. ring. }
  cbn [update1 snr_01 osnr_01 snr_bw osnr_bw]. rewrite !snr_sum_ref. unfold snr_sum. rewrite A.
  repeat split; ring.
Qed.

(* an express ROADM (None) adds nothing; an add or drop stage adds its own value *)
Lemma added_at_none : forall l k, added_at (None :: l) k = added_at l k.
Proof. reflexivity. Qed.
Lemma added_at_some : forall a l k, added_at (Some a :: l) k = arg_at a k + added_at l k.
Proof. reflexivity. Qed.

(* ====================================================================================================
   2. penalties
   ==================================================================================================== *)
Definition asc (l : table) : Prop := StronglySorted (fun p q => fst p <= fst q) l.

Lemma ins_pt_in : forall p l x, In x (ins_pt p l) <-> x = p \/ In x l.
Proof.
  induction l as [|y t IH]; intros x; cbn.
  - intuition.
  - destruct (Qlt_bool (fst y) (fst p)); cbn; [rewrite IH|]; intuition.
Qed.
Lemma sort_tab_in : forall l x, In x (sort_tab l) <-> In x l.
Proof.
  induction l as [|p t IH]; intros x; cbn; [tauto|].
  unfold sort_tab in *. rewrite ins_pt_in, IH. intuition.
Qed.
Lemma ins_pt_asc : forall p l, asc l -> asc (ins_pt p l).
Proof.
  induction l as [|y t IH]; intros H; cbn.
  - repeat constructor.
  - inversion H as [|? ? Ht Hy]; subst.
    destruct (Qlt_bool (fst y) (fst p)) eqn:E.
    + apply Qlt_bool_iff in E. constructor; [apply IH; assumption|].
      rewrite Forall_forall in *. intros x Hx. apply ins_pt_in in Hx. destruct Hx as [->|Hx].
      * apply Qlt_le_weak; assumption.
      * apply Hy; assumption.
    + apply Qlt_bool_false in E. constructor; [assumption|].
      constructor; [assumption|]. rewrite Forall_forall in *. intros x Hx.
      eapply Qle_trans; [exact E | apply Hy; assumption].
Qed.
Lemma sort_tab_asc : forall l, asc (sort_tab l).
Proof.
  induction l as [|p t IH]; cbn; [constructor|]. apply ins_pt_asc. exact IH.
Qed.
Lemma normalise_asc : forall raw, asc (normalise raw).
Proof. intros raw. apply sort_tab_asc. Qed.
Lemma normalise_in : forall raw p,
  In p (normalise raw) <-> In p raw \/ (p = (0, 0) /\ forallb (fun p => Qlt_bool 0 (fst p)) raw = true).
Proof.
  intros raw p. unfold normalise. rewrite sort_tab_in.
  destruct (forallb (fun p0 => Qlt_bool 0 (fst p0)) raw); cbn; intuition congruence.
Qed.

(* below the first abscissa *)
Lemma interp_below : forall x l, (forall p, In p l -> x < fst p) -> interp x l = PInf.
Proof.
  intros x [|[x0 y0] t] H; cbn; [reflexivity|].
  assert (E : Qlt_bool x x0 = true) by (apply Qlt_bool_iff; apply (H (x0, y0)); now left).
  now rewrite E.
Qed.
(* above the last abscissa *)
Lemma interp_seg_above : forall x l, (forall p, In p l -> fst p < x) -> interp_seg x l = PInf.
Proof.
  intros x l. induction l as [|[x0 y0] t IH]; intros H; [reflexivity|].
  cbn [interp_seg]. destruct t as [|[x1 y1] t'].
  - assert (E : Qeq_bool x x0 = false).
    { destruct (Qeq_bool x x0) eqn:E; [|reflexivity]. apply Qeq_bool_iff in E.
      specialize (H (x0, y0) (or_introl eq_refl)). cbn in H. rewrite E in H. exfalso. exact (Qlt_irrefl _ H). }
    now rewrite E.
  - assert (E : Qlt_bool x x1 = false).
    { apply Qlt_bool_false. apply Qlt_le_weak. apply (H (x1, y1)). right; now left. }
    rewrite E. apply IH. intros p Hp. apply H. now right.
Qed.
Lemma interp_above : forall x l, (forall p, In p l -> fst p < x) -> interp x l = PInf.
Proof.
  intros x [|[x0 y0] t] H; [reflexivity|]. cbn [interp].
  assert (E : Qlt_bool x x0 = false).
  { apply Qlt_bool_false. apply Qlt_le_weak. apply (H (x0, y0)). now left. }
  rewrite E. now apply interp_seg_above.
Qed.
(* inside [first, last] the penalty is finite *)
Lemma interp_seg_inside : forall x l x0 y0, asc ((x0, y0) :: l) -> x0 <= x ->
  (exists p, In p ((x0, y0) :: l) /\ x <= fst p) -> exists q, interp_seg x ((x0, y0) :: l) = PFin q.
Proof.
  intros x l. induction l as [|[x1 y1] t IH]; intros x0 y0 Hs Hlo [p [Hp Hhi]].
  - destruct Hp as [<-|[]]. cbn in Hhi. cbn.
    assert (E : Qeq_bool x x0 = true) by (apply Qeq_bool_iff; apply Qle_antisym; assumption).
    rewrite E. eauto.
  - cbn [interp_seg]. destruct (Qlt_bool x x1) eqn:E; [eauto|].
    apply Qlt_bool_false in E. inversion Hs as [|? ? Ht Hy]; subst.
    apply IH; [assumption | assumption |].
    destruct Hp as [<-|Hp].
    + exists (x1, y1). split; [now left|]. inversion Hy as [|? ? H01 _]; subst. cbn in *.
      eapply Qle_trans; [exact Hhi | exact H01].
    + exists p. split; assumption.
Qed.
Lemma interp_inside : forall x l, asc l ->
  (exists p, In p l /\ fst p <= x) -> (exists p, In p l /\ x <= fst p) -> exists q, interp x l = PFin q.
Proof.
  intros x [|[x0 y0] t] Hs [p [Hp Hlo]] Hhi; [destruct Hp|]. cbn [interp].
  assert (L : x0 <= x).
  { destruct Hp as [<-|Hp]; [exact Hlo|]. inversion Hs as [|? ? Ht Hy]; subst.
    rewrite Forall_forall in Hy. eapply Qle_trans; [apply (Hy p Hp) | exact Hlo]. }
  assert (E : Qlt_bool x x0 = false) by (apply Qlt_bool_false; exact L).
  rewrite E. now apply interp_seg_inside.
Qed.

(* penalty_outside_blocks, table level: an impairment value beyond every tabulated value (or below every value of the
   normalised table) has an infinite penalty, whatever the other impairments *)
Lemma one_pen_above : forall raw x, raw <> [] -> (forall p, In p raw -> fst p < x) -> one_pen raw x = PInf.
Proof.
  intros raw x Hne H. unfold one_pen. destruct raw as [|p0 t] eqn:E; [congruence|]. rewrite <- E in *.
  apply interp_above. intros p Hp. apply normalise_in in Hp. destruct Hp as [Hp|[-> Hall]]; [now apply H|].
  cbn. rewrite forallb_forall in Hall. subst raw.
  specialize (Hall p0 (or_introl eq_refl)). apply Qlt_bool_iff in Hall.
  eapply Qlt_trans; [exact Hall | apply H; now left].
Qed.
Lemma one_pen_below : forall raw x, raw <> [] -> (forall p, In p raw -> x < fst p) -> x < 0 -> one_pen raw x = PInf.
Proof.
  intros raw x Hne H H0. unfold one_pen. destruct raw as [|p0 t] eqn:E; [congruence|]. rewrite <- E in *.
  apply interp_below. intros p Hp. apply normalise_in in Hp. destruct Hp as [Hp|[-> _]]; [now apply H | exact H0].
Qed.
Lemma one_pen_inside : forall raw x, raw <> [] ->
  (exists p, In p (normalise raw) /\ fst p <= x) -> (exists p, In p (normalise raw) /\ x <= fst p) ->
  exists q, one_pen raw x = PFin q.
Proof.
  intros raw x Hne Hlo Hhi. unfold one_pen. destruct raw as [|p0 t] eqn:E; [congruence|]. rewrite <- E in *.
  apply interp_inside; [apply normalise_asc | assumption | assumption].
Qed.

Lemma pen_add_inf_l : forall b, pen_add PInf b = PInf.
Proof. reflexivity. Qed.
Lemma pen_add_inf_r : forall a, pen_add a PInf = PInf.
Proof. destruct a; reflexivity. Qed.
Lemma total_pen_inf : forall T cd pmd pdl,
  one_pen (t_cd T) cd = PInf \/ one_pen (t_pmd T) pmd = PInf \/ one_pen (t_pdl T) pdl = PInf ->
  total_pen T cd pmd pdl = PInf.
Proof.
  intros T cd pmd pdl [H|[H|H]]; unfold total_pen; rewrite H; cbn;
    repeat (rewrite ?pen_add_inf_l, ?pen_add_inf_r); reflexivity.
Qed.

(* ====================================================================================================
   3. metric and fixed-mode verdict
   ==================================================================================================== *)
Definition met_le (a b : met) : Prop :=
  match a, b with
  | MNegInf, _ => True
  | MFin _, MNegInf => False
  | MFin x, MFin y => x <= y
  end.
Lemma met_lt_false_iff : forall a b, met_lt a b = false <-> met_le b a.
Proof.
  intros [|x] [|y]; cbn.
  - split; auto.
  - split; [discriminate | intros []].
  - split; auto.
  - apply Qlt_bool_false.
Qed.
Lemma met_lt_true_iff : forall a b, met_lt a b = true <-> ~ met_le b a.
Proof.
  intros a b. rewrite <- met_lt_false_iff. destruct (met_lt a b); split; congruence.
Qed.
Lemma met_le_refl : forall a, met_le a a.
Proof. intros [|x]; cbn; [exact I | apply Qle_refl]. Qed.
Lemma met_le_trans : forall a b c, met_le a b -> met_le b c -> met_le a c.
Proof.
  intros [|x] [|y] [|z]; cbn; try tauto. apply Qle_trans.
Qed.
Lemma met_min_le_l : forall a b, met_le (met_min a b) a.
Proof. intros [|x] [|y]; cbn; try exact I. apply Q.le_min_l. Qed.
Lemma met_min_le_r : forall a b, met_le (met_min a b) b.
Proof. intros [|x] [|y]; cbn; try exact I. apply Q.le_min_r. Qed.

Definition met_eq (a b : met) : Prop :=
  match a, b with MNegInf, MNegInf => True | MFin x, MFin y => x == y | _, _ => False end.
Lemma met_min_attained : forall a b, met_eq (met_min a b) a \/ met_eq (met_min a b) b.
Proof.
  intros [|x] [|y]; cbn; auto.
  destruct (Q.min_spec x y) as [[_ E]|[_ E]]; rewrite E; [left|right]; reflexivity.
Qed.
Lemma met_eq_le : forall a b, met_eq a b -> met_le a b.
Proof. intros [|x] [|y]; cbn; try tauto. intros E; rewrite E; apply Qle_refl. Qed.
Lemma met_eq_refl : forall a, met_eq a a.
Proof. intros [|x]; cbn; [exact I | reflexivity]. Qed.
Lemma met_eq_trans : forall a b c, met_eq a b -> met_eq b c -> met_eq a c.
Proof. intros [|x] [|y] [|z]; cbn; try tauto. intros H1 H2; now rewrite H1. Qed.
Lemma met_le_eq_l : forall a b c, met_eq a b -> met_le b c -> met_le a c.
Proof. intros a b c H1 H2. eapply met_le_trans; [apply met_eq_le; exact H1 | exact H2]. Qed.

(* fold_left met_min t x is a lower bound of x :: t and is (equal to) one of its elements: the worst channel *)
Lemma fold_min_spec : forall t x,
  (forall y, In y (x :: t) -> met_le (fold_left met_min t x) y) /\
  (exists y, In y (x :: t) /\ met_eq (fold_left met_min t x) y).
Proof.
  induction t as [|z t IH]; intros x; cbn [fold_left].
  - split.
    + intros y [<-|[]]. apply met_le_refl.
    + exists x. split; [now left | apply met_eq_refl].
  - destruct (IH (met_min x z)) as [L [y [Hy E]]]. split.
    + intros w [<-|[<-|Hw]].
      * eapply met_le_trans; [apply L; now left | apply met_min_le_l].
      * eapply met_le_trans; [apply L; now left | apply met_min_le_r].
      * apply L. now right.
    + destruct Hy as [<-|Hy].
      * destruct (met_min_attained x z) as [A|A].
        -- exists x. split; [now left | eapply met_eq_trans; eassumption].
        -- exists z. split; [right; now left | eapply met_eq_trans; eassumption].
      * exists y. split; [right; now right | exact E].
Qed.

(* the per-channel values of the metric *)
Lemma chan_mets_spec : forall T g cd pmd pdl l,
  chan_mets T g cd pmd pdl = Ok l ->
  length l = length g /\
  forall k gk ck pk dk, nth_error g k = Some gk -> nth_error cd k = Some ck -> nth_error pmd k = Some pk ->
    nth_error pdl k = Some dk -> nth_error l k = Some (met_sub gk (total_pen T ck pk dk)).
Proof.
  intros T. induction g as [|g0 g IH]; intros cd pmd pdl l H;
    destruct cd as [|c0 cd]; destruct pmd as [|p0 pmd]; destruct pdl as [|d0 pdl]; cbn in H; try discriminate.
  - inversion H; subst. split; [reflexivity|]. intros [|k] ? ? ? ? Hk; discriminate.
  - destruct (chan_mets T g cd pmd pdl) as [r|e] eqn:E; cbn in H; [|discriminate].
    inversion H; subst l. destruct (IH _ _ _ _ E) as [L N]. split; [cbn; now rewrite L|].
    intros [|k] gk ck pk dk H1 H2 H3 H4; cbn in *.
    + now inversion H1; inversion H2; inversion H3; inversion H4; subst.
    + now apply N.
Qed.

(* round-half-even: within half a unit, monotone *)
Lemma rhe_cases : forall q, let f := Qfloor q in
  (round_half_even q = f /\ q - inject_Z f <= 1 # 2) \/ (round_half_even q = (f + 1)%Z /\ 1 # 2 <= q - inject_Z f).
Proof.
  intros q f. unfold round_half_even. fold f.
  destruct (Qcompare_spec (q - inject_Z f) (1 # 2)) as [E|L|G].
  - destruct (Z.even f); [left|right]; split; try reflexivity; rewrite E; apply Qle_refl.
  - left. split; [reflexivity | apply Qlt_le_weak; exact L].
  - right. split; [reflexivity | apply Qlt_le_weak; exact G].
Qed.
Lemma floor_bounds : forall q, inject_Z (Qfloor q) <= q /\ q < inject_Z (Qfloor q) + 1.
Proof.
  intros q. split; [apply Qfloor_le|].
  pose proof (Qlt_floor q) as H. rewrite inject_Z_plus in H. exact H.
Qed.
Lemma rhe_close : forall q, Qabs (inject_Z (round_half_even q) - q) <= 1 # 2.
Proof.
  intros q. destruct (floor_bounds q) as [B1 B2].
  destruct (rhe_cases q) as [[-> H]|[-> H]]; apply Qabs_Qle_condition; split.
  - lra.
  - lra.
  - rewrite inject_Z_plus. change (inject_Z 1) with 1. lra.
  - rewrite inject_Z_plus. change (inject_Z 1) with 1. lra.
Qed.
Lemma rhe_mono : forall a b, a <= b -> (round_half_even a <= round_half_even b)%Z.
Proof.
  intros a b Hab.
  pose proof (Qfloor_resp_le _ _ Hab) as Hf.
  destruct (floor_bounds a) as [A1 A2]. destruct (floor_bounds b) as [B1 B2].
  destruct (Z.eq_dec (Qfloor a) (Qfloor b)) as [E|NE].
  - unfold round_half_even. rewrite <- E.
    destruct (Qcompare_spec (a - inject_Z (Qfloor a)) (1 # 2)) as [Ea|La|Ga];
      destruct (Qcompare_spec (b - inject_Z (Qfloor a)) (1 # 2)) as [Eb|Lb|Gb];
      try (destruct (Z.even (Qfloor a))); try lia; exfalso; lra.
  - assert (Hlt : (Qfloor a + 1 <= Qfloor b)%Z) by lia.
    destruct (rhe_cases a) as [[-> _]|[-> _]]; destruct (rhe_cases b) as [[-> _]|[-> _]]; lia.
Qed.
Lemma round2_mono : forall a b, a <= b -> round2 a <= round2 b.
Proof.
  intros a b H. unfold round2. apply Qmult_le_compat_r; [|discriminate].
  rewrite <- Zle_Qle. apply rhe_mono. apply Qmult_le_compat_r; [exact H | discriminate].
Qed.
Lemma round2_close : forall q, Qabs (round2 q - q) <= 1 # 200.
Proof.
  intros q. unfold round2. pose proof (rhe_close (q * 100)) as H.
  apply Qabs_Qle_condition in H. destruct H as [H1 H2].
  apply Qabs_Qle_condition. split.
  - apply Qmult_le_r with (z := 100); [reflexivity|]. field_simplify. field_simplify in H1. lra.
  - apply Qmult_le_r with (z := 100); [reflexivity|]. field_simplify. field_simplify in H2. lra.
Qed.
Lemma met_round2_mono : forall a b, met_le a b -> met_le (met_round2 a) (met_round2 b).
Proof. intros [|x] [|y]; cbn; try tauto. apply round2_mono. Qed.
Lemma round2_comp : forall a b, a == b -> round2 a == round2 b.
Proof.
  intros a b E. apply Qle_antisym; apply round2_mono; rewrite E; apply Qle_refl.
Qed.
Lemma met_round2_eq : forall a b, met_eq a b -> met_eq (met_round2 a) (met_round2 b).
Proof. intros [|x] [|y]; cbn; try tauto. apply round2_comp. Qed.

(* metric = round2 of the worst channel *)
Lemma metric_spec : forall T f m, metric T f = Ok m ->
  exists l, chan_mets T (f_g01 f) (f_cd f) (f_pmd f) (f_pdl f) = Ok l /\ l <> [] /\
    (forall y, In y l -> met_le m (met_round2 y)) /\ (exists y, In y l /\ met_eq m (met_round2 y)).
Proof.
  intros T f m H. unfold metric in H.
  destruct (chan_mets T (f_g01 f) (f_cd f) (f_pmd f) (f_pdl f)) as [l|e] eqn:E; cbn in H; [|discriminate].
  exists l. split; [reflexivity|]. destruct l as [|x t]; cbn in H; [discriminate|].
  inversion H; subst m. split; [discriminate|].
  destruct (fold_min_spec t x) as [L [y [Hy A]]]. split.
  - intros w Hw. apply met_round2_mono. apply L. exact Hw.
  - exists y. split; [exact Hy | apply met_round2_eq; exact A].
Qed.

(* a channel with an infinite penalty makes the metric -inf, so the request is blocked / the mode is not selected,
   whatever the threshold *)
Lemma met_le_neginf : forall m, met_le m MNegInf -> m = MNegInf.
Proof. intros [|x]; cbn; [reflexivity | tauto]. Qed.
Lemma metric_neginf : forall T f m k gk ck pk dk, metric T f = Ok m ->
  nth_error (f_g01 f) k = Some gk -> nth_error (f_cd f) k = Some ck -> nth_error (f_pmd f) k = Some pk ->
  nth_error (f_pdl f) k = Some dk -> total_pen T ck pk dk = PInf -> m = MNegInf.
Proof.
  intros T f m k gk ck pk dk H H1 H2 H3 H4 HP.
  destruct (metric_spec _ _ _ H) as [l [E [_ [L _]]]].
  destruct (chan_mets_spec _ _ _ _ _ _ E) as [_ N].
  specialize (N k gk ck pk dk H1 H2 H3 H4). rewrite HP in N. cbn in N.
  apply met_le_neginf. apply (L MNegInf). eapply nth_error_In; exact N.
Qed.
Lemma penalty_outside_blocks : forall T f m k gk ck pk dk thr, metric T f = Ok m ->
  nth_error (f_g01 f) k = Some gk -> nth_error (f_cd f) k = Some ck -> nth_error (f_pmd f) k = Some pk ->
  nth_error (f_pdl f) k = Some dk ->
  one_pen (t_cd T) ck = PInf \/ one_pen (t_pmd T) pk = PInf \/ one_pen (t_pdl T) dk = PInf ->
  blocked_fixed thr m = true /\ passes_auto thr m = false.
Proof.
  intros T f m k gk ck pk dk thr H H1 H2 H3 H4 HP.
  rewrite (metric_neginf _ _ _ _ _ _ _ _ H H1 H2 H3 H4 (total_pen_inf _ _ _ _ HP)). split; reflexivity.
Qed.

(* verdict_fixed_spec: not blocked  <->  the rounded worst-channel metric of the forward direction, and of the reverse
   direction when there is one, is at least the threshold (equality accepted); the only reason is MODE_NOT_FEASIBLE *)
Lemma verdict_fixed_spec : forall thr fwd rev,
  (decide_fixed thr fwd rev = None <->
     met_le (MFin thr) fwd /\ (forall r, rev = Some r -> met_le (MFin thr) r)) /\
  (decide_fixed thr fwd rev = None \/ decide_fixed thr fwd rev = Some MODE_NOT_FEASIBLE).
Proof.
  intros thr fwd rev. unfold decide_fixed, blocked_fixed.
  destruct (met_lt fwd (MFin thr)) eqn:E1.
  - apply met_lt_true_iff in E1. split; [|now right]. split; [discriminate | tauto].
  - apply met_lt_false_iff in E1. destruct rev as [r|].
    + destruct (met_lt r (MFin thr)) eqn:E2.
      * apply met_lt_true_iff in E2. split; [|now right]. split; [discriminate|].
        intros [_ H]. exfalso. apply E2. now apply H.
      * apply met_lt_false_iff in E2. split; [|now left]. split; [|reflexivity].
        intros _. split; [exact E1|]. intros r' [= <-]. exact E2.
    + split; [|now left]. split; [|reflexivity]. intros _. split; [exact E1 | discriminate].
Qed.

(* ====================================================================================================
   4. the mode loop
   ==================================================================================================== *)
(* ---- order on (baud, offset) / (bit rate, offset) pairs ---- *)
Definition iter_gt (a b : iter) : Prop := fst b < fst a \/ (fst a == fst b /\ snd b < snd a).
Lemma iter_gtb_iff : forall a b, iter_gtb a b = true <-> iter_gt a b.
Proof.
  intros a b. unfold iter_gtb, iter_gt. rewrite orb_true_iff, andb_true_iff, !Qlt_bool_iff, Qeq_bool_iff. tauto.
Qed.
Lemma iter_gtb_false : forall a b, iter_gtb a b = false <-> ~ iter_gt a b.
Proof. intros a b. rewrite <- iter_gtb_iff. destruct (iter_gtb a b); split; congruence. Qed.
Lemma iter_eqb_iff : forall a b, iter_eqb a b = true <-> fst a == fst b /\ snd a == snd b.
Proof. intros a b. unfold iter_eqb. rewrite andb_true_iff, !Qeq_bool_iff. tauto. Qed.
Lemma iter_eqb_false : forall a b, iter_eqb a b = false <-> ~ (fst a == fst b /\ snd a == snd b).
Proof. intros a b. rewrite <- iter_eqb_iff. destruct (iter_eqb a b); split; congruence. Qed.
Lemma iter_eqb_refl : forall a, iter_eqb a a = true.
Proof. intros a. apply iter_eqb_iff. split; reflexivity. Qed.
Lemma iter_eqb_sym : forall a b, iter_eqb a b = true -> iter_eqb b a = true.
Proof. intros a b H. apply iter_eqb_iff in H. apply iter_eqb_iff. destruct H; split; symmetry; assumption. Qed.
Lemma iter_eqb_trans : forall a b c, iter_eqb a b = true -> iter_eqb b c = true -> iter_eqb a c = true.
Proof.
  intros a b c H1 H2. apply iter_eqb_iff in H1, H2. apply iter_eqb_iff.
  destruct H1 as [A1 A2], H2 as [B1 B2]. split; [now rewrite A1 | now rewrite A2].
Qed.
Lemma iter_gt_trans : forall a b c, iter_gt a b -> iter_gt b c -> iter_gt a c.
Proof. unfold iter_gt. intros [a1 a2] [b1 b2] [c1 c2]; cbn. intros H1 H2. lra. Qed.
Lemma iter_gt_asym : forall a b, iter_gt a b -> ~ iter_gt b a.
Proof. unfold iter_gt. intros [a1 a2] [b1 b2]; cbn. intros H1 H2. lra. Qed.
Lemma iter_gt_irrefl : forall a, ~ iter_gt a a.
Proof. intros a H. exact (iter_gt_asym _ _ H H). Qed.
Lemma iter_total : forall a b, ~ iter_gt a b -> ~ (fst b == fst a /\ snd b == snd a) -> iter_gt b a.
Proof.
  unfold iter_gt. intros [a1 a2] [b1 b2]; cbn. intros H1 H2.
  destruct (Q_dec a1 b1) as [[L|G]|E]; [left; exact L | exfalso; apply H1; left; exact G |].
  destruct (Q_dec a2 b2) as [[L|G]|E2].
  - right. split; [symmetry; exact E | exact L].
  - exfalso. apply H1. right. split; assumption.
  - exfalso. apply H2. split; symmetry; assumption.
Qed.
Lemma iter_nge_trans : forall a b c, ~ iter_gt b a -> ~ iter_gt c b -> ~ iter_gt c a.
Proof. unfold iter_gt. intros [a1 a2] [b1 b2] [c1 c2]; cbn. intros H1 H2 H3. lra. Qed.

(* ---- generic descending insertion sort ---- *)
Fixpoint ins {A} (gtb : A -> A -> bool) (x : A) (l : list A) : list A :=
  match l with [] => [x] | y :: t => if gtb y x then y :: ins gtb x t else x :: l end.
Definition isort {A} (gtb : A -> A -> bool) (l : list A) : list A := fold_right (ins gtb) [] l.
Lemma ins_in : forall A (gtb : A -> A -> bool) x l z, In z (ins gtb x l) <-> z = x \/ In z l.
Proof.
  induction l as [|y t IH]; intros z; cbn; [intuition|].
  destruct (gtb y x); cbn; [rewrite IH|]; intuition.
Qed.
Lemma isort_in : forall A (gtb : A -> A -> bool) l z, In z (isort gtb l) <-> In z l.
Proof.
  induction l as [|x t IH]; intros z; cbn; [tauto|]. rewrite ins_in, IH. intuition.
Qed.
Lemma ins_iter_eq : forall x l, ins_iter x l = ins iter_gtb x l.
Proof. induction l as [|y t IH]; cbn; [reflexivity | now rewrite IH]. Qed.
Lemma sort_iters_eq : forall l, sort_iters l = isort iter_gtb l.
Proof. induction l as [|x t IH]; cbn; [reflexivity|]. unfold sort_iters in *. cbn. now rewrite ins_iter_eq, IH. Qed.
Lemma ins_mode_eq : forall x l, ins_mode x l = ins key_gtb x l.
Proof. induction l as [|y t IH]; cbn; [reflexivity | now rewrite IH]. Qed.
Lemma sort_modes_eq : forall l, sort_modes l = isort key_gtb l.
Proof. induction l as [|x t IH]; cbn; [reflexivity|]. unfold sort_modes in *. cbn. now rewrite ins_mode_eq, IH. Qed.

(* non-increasing (stable) result: for a relation that is asymmetric and whose complement is transitive *)
Lemma ins_sorted : forall A (gtb : A -> A -> bool),
  (forall a b, gtb a b = true -> gtb b a = false) ->
  (forall a b c, gtb b a = false -> gtb c b = false -> gtb c a = false) ->
  forall x l, StronglySorted (fun a b => gtb b a = false) l -> StronglySorted (fun a b => gtb b a = false) (ins gtb x l).
Proof.
  intros A gtb Hasym Htr x. induction l as [|y t IH]; intros H; cbn.
  - repeat constructor.
  - inversion H as [|? ? Ht Hy]; subst. destruct (gtb y x) eqn:E.
    + constructor; [apply IH; exact Ht|]. rewrite Forall_forall in *. intros z Hz.
      apply ins_in in Hz. destruct Hz as [->|Hz]; [apply Hasym; exact E | apply Hy; exact Hz].
    + constructor; [exact H|]. constructor; [exact E|]. rewrite Forall_forall in *. intros z Hz.
      eapply Htr; [exact E | apply Hy; exact Hz].
Qed.
Lemma isort_sorted : forall A (gtb : A -> A -> bool),
  (forall a b, gtb a b = true -> gtb b a = false) ->
  (forall a b c, gtb b a = false -> gtb c b = false -> gtb c a = false) ->
  forall l, StronglySorted (fun a b => gtb b a = false) (isort gtb l).
Proof.
  intros A gtb H1 H2. induction l as [|x t IH]; cbn; [constructor | apply ins_sorted; assumption].
Qed.
(* strictly decreasing result when the elements are pairwise different *)
Lemma ins_strict : forall A (gtb eqb : A -> A -> bool),
  (forall a b c, gtb a b = true -> gtb b c = true -> gtb a c = true) ->
  (forall a b, gtb a b = false -> eqb b a = false -> gtb b a = true) ->
  forall x l, Forall (fun y => eqb x y = false) l ->
    StronglySorted (fun a b => gtb a b = true) l -> StronglySorted (fun a b => gtb a b = true) (ins gtb x l).
Proof.
  intros A gtb eqb Htr Htot x. induction l as [|y t IH]; intros Hd H; cbn.
  - repeat constructor.
  - inversion H as [|? ? Ht Hy]; subst. inversion Hd as [|? ? Hxy Hdt]; subst. destruct (gtb y x) eqn:E.
    + constructor; [apply IH; assumption|]. rewrite Forall_forall in *. intros z Hz.
      apply ins_in in Hz. destruct Hz as [->|Hz]; [exact E | apply Hy; exact Hz].
    + assert (G : gtb x y = true) by (apply Htot; assumption).
      constructor; [exact H|]. constructor; [exact G|]. rewrite Forall_forall in *. intros z Hz.
      eapply Htr; [exact G | apply Hy; exact Hz].
Qed.

Lemma key_gtb_asym : forall a b, key_gtb a b = true -> key_gtb b a = false.
Proof.
  unfold key_gtb. intros a b H. apply iter_gtb_iff in H. apply iter_gtb_false. now apply iter_gt_asym.
Qed.
Lemma key_nge_trans : forall a b c, key_gtb b a = false -> key_gtb c b = false -> key_gtb c a = false.
Proof.
  unfold key_gtb. intros a b c H1 H2. apply iter_gtb_false in H1, H2. apply iter_gtb_false.
  eapply iter_nge_trans; eassumption.
Qed.
Lemma key_gtb_irrefl : forall a, key_gtb a a = false.
Proof. intros a. unfold key_gtb. apply iter_gtb_false. apply iter_gt_irrefl. Qed.

(* ---- the modes explored under one propagation ---- *)
Lemma modes_of_in : forall lib sp it m,
  In m (modes_of lib sp it) <-> In m lib /\ m_baud m == fst it /\ m_off m == snd it /\ fits sp m = true.
Proof.
  intros lib sp it m. unfold modes_of.
  rewrite sort_modes_eq, isort_in, filter_In, !andb_true_iff, !Qeq_bool_iff. tauto.
Qed.
(* sorted by (bit rate, offset), highest first; equal keys keep the library order (insertion is stable) *)
Lemma modes_of_sorted : forall lib sp it,
  StronglySorted (fun a b => key_gtb b a = false) (modes_of lib sp it).
Proof.
  intros. unfold modes_of. rewrite sort_modes_eq. apply isort_sorted; [apply key_gtb_asym | apply key_nge_trans].
Qed.

(* ---- the propagations ---- *)
Lemma dedup_in : forall l x, In x (dedup l) -> In x l.
Proof.
  induction l as [|y t IH]; intros x H; cbn in *; [exact H|].
  destruct (existsb (iter_eqb y) t); [right; now apply IH|].
  destruct H as [<-|H]; [now left | right; now apply IH].
Qed.
Lemma dedup_repr : forall l x, In x l -> exists y, In y (dedup l) /\ iter_eqb x y = true.
Proof.
  induction l as [|z t IH]; intros x H; [destruct H|]. cbn.
  destruct (existsb (iter_eqb z) t) eqn:E.
  - destruct H as [<-|H]; [|now apply IH].
    apply existsb_exists in E. destruct E as [w [Hw Ew]].
    destruct (IH w Hw) as [y [Hy Ey]]. exists y. split; [exact Hy | eapply iter_eqb_trans; eassumption].
  - destruct H as [<-|H].
    + exists z. split; [now left | apply iter_eqb_refl].
    + destruct (IH x H) as [y [Hy Ey]]. exists y. split; [now right | exact Ey].
Qed.
Lemma dedup_distinct : forall l, ForallOrdPairs (fun a b => iter_eqb a b = false) (dedup l).
Proof.
  induction l as [|z t IH]; cbn; [constructor|].
  destruct (existsb (iter_eqb z) t) eqn:E; [exact IH|].
  constructor; [|exact IH]. rewrite Forall_forall. intros y Hy. apply dedup_in in Hy.
  destruct (iter_eqb z y) eqn:F; [|reflexivity].
  assert (existsb (iter_eqb z) t = true) by (apply existsb_exists; eauto). congruence.
Qed.
Lemma iter_gtb_trans : forall a b c, iter_gtb a b = true -> iter_gtb b c = true -> iter_gtb a c = true.
Proof. intros a b c H1 H2. apply iter_gtb_iff in H1, H2. apply iter_gtb_iff. eapply iter_gt_trans; eassumption. Qed.
Lemma iter_gtb_total : forall a b, iter_gtb a b = false -> iter_eqb b a = false -> iter_gtb b a = true.
Proof.
  intros a b H1 H2. apply iter_gtb_false in H1. apply iter_eqb_false in H2. apply iter_gtb_iff. now apply iter_total.
Qed.
Lemma isort_strict : forall l, ForallOrdPairs (fun a b => iter_eqb a b = false) l ->
  StronglySorted (fun a b => iter_gtb a b = true) (isort iter_gtb l).
Proof.
  induction l as [|x t IH]; intros H; cbn; [constructor|].
  inversion H as [|? ? Hx Ht]; subst.
  apply (ins_strict _ iter_gtb iter_eqb iter_gtb_trans iter_gtb_total); [|apply IH; exact Ht].
  rewrite Forall_forall in *. intros y Hy. apply isort_in in Hy. now apply Hx.
Qed.
(* strictly decreasing: baud rate first, then offset; no (baud, offset) value occurs twice *)
Lemma iters_sorted : forall lib sp, StronglySorted (fun a b => iter_gtb a b = true) (iters lib sp).
Proof. intros. unfold iters. rewrite sort_iters_eq. apply isort_strict. apply dedup_distinct. Qed.
Lemma iters_in : forall lib sp it, In it (iters lib sp) ->
  exists m, In m lib /\ fits sp m = true /\ it = (m_baud m, m_off m).
Proof.
  intros lib sp it H. unfold iters in H. rewrite sort_iters_eq in H. apply isort_in in H. apply dedup_in in H.
  apply in_map_iff in H. destruct H as [m [E Hm]]. apply filter_In in Hm. exists m. intuition.
Qed.
Lemma iters_repr : forall lib sp m, In m lib -> fits sp m = true ->
  exists it, In it (iters lib sp) /\ iter_eqb (m_baud m, m_off m) it = true.
Proof.
  intros lib sp m Hm Hf.
  destruct (dedup_repr (map (fun m => (m_baud m, m_off m)) (filter (fits sp) lib)) (m_baud m, m_off m)) as [y [Hy Ey]].
  - apply in_map_iff. exists m. split; [reflexivity|]. apply filter_In. split; assumption.
  - exists y. split; [|exact Ey]. unfold iters. rewrite sort_iters_eq. apply isort_in. exact Hy.
Qed.
Lemma modes_of_nonempty : forall lib sp it, In it (iters lib sp) -> modes_of lib sp it <> [].
Proof.
  intros lib sp it H. destruct (iters_in _ _ _ H) as [m [Hm [Hf ->]]]. cbn.
  intros E. assert (Hin : In m (modes_of lib sp (m_baud m, m_off m)))
    by (apply modes_of_in; split; [assumption | split; [reflexivity | split; [reflexivity | assumption]]]).
  rewrite E in Hin. destruct Hin.
Qed.
Lemma iters_nil_iff : forall lib sp, iters lib sp = [] <-> forall m, In m lib -> fits sp m = false.
Proof.
  intros lib sp. split.
  - intros E m Hm. destruct (fits sp m) eqn:F; [|reflexivity].
    destruct (iters_repr lib sp m Hm F) as [it [Hit _]]. rewrite E in Hit. destruct Hit.
  - intros H. destruct (iters lib sp) as [|it t] eqn:E; [reflexivity|].
    destruct (iters_in lib sp it) as [m [Hm [Hf _]]]; [rewrite E; now left|].
    rewrite (H m Hm) in Hf. discriminate.
Qed.

(* ---- the loop refines "first decisive pair in exploration order" ---- *)
Lemma last_cons : forall A (x : A) t d, List.last (x :: t) d = match t with [] => x | _ => List.last t d end.
Proof. intros A x [|y t] d; reflexivity. Qed.

Lemma try_modes_spec : forall margin P it ms rest lst,
  first_decisive margin P (map (pair it) ms ++ rest) lst =
  match try_modes margin (fun _ => P it) it ms with
  | Found m => Selected it m
  | Stop o => o
  | Continue => first_decisive margin P rest (match ms with [] => lst | _ => Some (it, List.last ms dummy_mode) end)
  end.
Proof.
  intros margin P it. induction ms as [|m t IH]; intros rest lst; [reflexivity|].
  cbn [map app first_decisive try_modes].
  change (eval1 margin (fun _ => P it) it m) with (eval1 margin P it m).
  destruct (eval1 margin P it m); try reflexivity.
  rewrite IH. destruct (try_modes margin (fun _ => P it) it t); try reflexivity.
  rewrite last_cons. destruct t; reflexivity.
Qed.

Definition explore_of (lib : list mode) (sp : Q) (its : list iter) : list (iter * mode) :=
  flat_map (fun it => map (pair it) (modes_of lib sp it)) its.

Lemma loop_pure : forall margin P lib sp its lst,
  (forall it, In it its -> modes_of lib sp it <> []) -> (its <> [] \/ lst <> None) ->
  loop_st (pure_step P) margin lib sp tt its lst = (first_decisive margin P (explore_of lib sp its) lst, tt).
Proof.
  intros margin P lib sp. induction its as [|it t IH]; intros lst Hne Hl.
  - cbn. destruct lst as [[i m]|]; [reflexivity|]. destruct Hl as [H|H]; congruence.
  - cbn [loop_st explore_of flat_map pure_step]. fold (explore_of lib sp t).
    rewrite try_modes_spec.
    destruct (try_modes margin (fun _ => P it) it (modes_of lib sp it)); try reflexivity.
    apply IH; [intros i Hi; apply Hne; now right|].
    right. destruct (modes_of lib sp it) eqn:E; [|discriminate].
    exfalso. apply (Hne it (or_introl eq_refl)). exact E.
Qed.

(* mode_loop_spec, functional form *)
Lemma mode_loop_first_decisive : forall margin P lib sp,
  mode_loop margin P lib sp = first_decisive margin P (explore lib sp) None.
Proof.
  intros margin P lib sp. unfold mode_loop, mode_loop_st, explore. fold (explore_of lib sp (iters lib sp)).
  destruct (iters lib sp) as [|it t] eqn:E; [reflexivity|].
  rewrite loop_pure; [reflexivity | | left; discriminate].
  intros i Hi. apply modes_of_nonempty. rewrite E. exact Hi.
Qed.

Lemma mode_loop_first_decisive_aux : forall margin P lib sp it t,
  iters lib sp = it :: t ->
  fst (loop_st (pure_step P) margin lib sp tt (it :: t) None) = first_decisive margin P (explore lib sp) None.
Proof.
  intros margin P lib sp it t E. rewrite <- mode_loop_first_decisive. unfold mode_loop, mode_loop_st. now rewrite E.
Qed.

(* ---- what the first decisive pair is ---- *)
Definition fails margin P (x : iter * mode) : Prop := eval1 margin P (fst x) (snd x) = Fail.

Lemma fd_selected : forall margin P l lst it m,
  first_decisive margin P l lst = Selected it m ->
  exists l1 l2, l = l1 ++ (it, m) :: l2 /\ Forall (fails margin P) l1 /\ eval1 margin P it m = Pass.
Proof.
  intros margin P. induction l as [|[i x] t IH]; intros lst it m H; cbn in H.
  - destruct lst as [[? ?]|]; discriminate.
  - destruct (eval1 margin P i x) eqn:E; try discriminate.
    + inversion H; subst. exists [], t. repeat split; [constructor | exact E].
    + destruct (IH _ _ _ H) as [l1 [l2 [-> [F Pm]]]]. exists ((i, x) :: l1), l2.
      repeat split; [constructor; [exact E | exact F] | exact Pm].
Qed.
Lemma fd_selected_conv : forall margin P l1 l2 lst it m,
  Forall (fails margin P) l1 -> eval1 margin P it m = Pass ->
  first_decisive margin P (l1 ++ (it, m) :: l2) lst = Selected it m.
Proof.
  intros margin P. induction l1 as [|[i x] t IH]; intros l2 lst it m F Pm; cbn.
  - now rewrite Pm.
  - inversion F as [|? ? Fx Ft]; subst. unfold fails in Fx. cbn in Fx. rewrite Fx. now apply IH.
Qed.
Lemma last_default : forall A (l : list A) d d', l <> [] -> List.last l d = List.last l d'.
Proof.
  induction l as [|x t IH]; intros d d' H; [congruence|].
  rewrite !last_cons. destruct t; [reflexivity|]. apply IH. discriminate.
Qed.
Lemma fd_nomode : forall margin P l lst it m,
  first_decisive margin P l lst = NoFeasibleMode it m ->
  Forall (fails margin P) l /\ List.last (map Some l) lst = Some (it, m).
Proof.
  intros margin P. induction l as [|[i x] t IH]; intros lst it m H; cbn in H.
  - destruct lst as [[? ?]|]; inversion H; subst. split; [constructor | reflexivity].
  - destruct (eval1 margin P i x) eqn:E; try discriminate.
    destruct (IH _ _ _ H) as [F L]. split; [constructor; [exact E | exact F]|].
    cbn [map]. rewrite last_cons. destruct t as [|p t']; [exact L|].
    rewrite <- L. apply last_default. discriminate.
Qed.
Lemma fd_nomode_conv : forall margin P l lst,
  Forall (fails margin P) l ->
  first_decisive margin P l lst =
    match List.last (map Some l) lst with Some (it, m) => NoFeasibleMode it m | None => NoBaudrate end.
Proof.
  intros margin P. induction l as [|[i x] t IH]; intros lst F.
  - cbn. destruct lst as [[? ?]|]; reflexivity.
  - cbn [first_decisive].
    inversion F as [|? ? Fx Ft]; subst. unfold fails in Fx. cbn in Fx. rewrite Fx. rewrite (IH _ Ft).
    destruct t as [|p t']; [reflexivity|].
    change (map Some ((i, x) :: p :: t')) with (Some (i, x) :: map Some (p :: t')). rewrite last_cons.
    rewrite (last_default _ (map Some (p :: t')) (Some (i, x)) lst); [reflexivity | discriminate].
Qed.
Lemma fd_nobaud : forall margin P l, first_decisive margin P l None = NoBaudrate -> l = [].
Proof.
  intros margin P l H. destruct l as [|[i x] t]; [reflexivity|]. exfalso. cbn in H.
  destruct (eval1 margin P i x) eqn:E; try discriminate.
  assert (G : forall l lst, lst <> None -> first_decisive margin P l lst <> NoBaudrate).
  { induction l as [|[i' x'] t' IH]; intros lst Hl; cbn.
    - destruct lst as [[? ?]|]; [discriminate | congruence].
    - destruct (eval1 margin P i' x'); try discriminate. apply IH. discriminate. }
  apply (G t (Some (i, x))); [discriminate | exact H].
Qed.

(* membership in the exploration order *)
Lemma explore_in : forall lib sp it m,
  In (it, m) (explore lib sp) <->
  In it (iters lib sp) /\ In m lib /\ m_baud m == fst it /\ m_off m == snd it /\ fits sp m = true.
Proof.
  intros lib sp it m. unfold explore. rewrite in_flat_map. split.
  - intros [i [Hi Hm]]. apply in_map_iff in Hm. destruct Hm as [x [E Hx]]. inversion E; subst.
    apply modes_of_in in Hx. tauto.
  - intros [Hi Hm]. exists it. split; [exact Hi|]. apply in_map_iff. exists m. split; [reflexivity|].
    apply modes_of_in. exact Hm.
Qed.
Lemma explore_nil_iff : forall lib sp, explore lib sp = [] <-> forall m, In m lib -> fits sp m = false.
Proof.
  intros lib sp. rewrite <- iters_nil_iff. unfold explore. split.
  - intros E. destruct (iters lib sp) as [|it t] eqn:I; [reflexivity|]. exfalso.
    cbn in E. apply app_eq_nil in E. destruct E as [E _]. apply map_eq_nil in E.
    apply (modes_of_nonempty lib sp it); [rewrite I; now left | exact E].
  - intros ->. reflexivity.
Qed.

(* structure of a selection inside the nested exploration *)
Lemma fd_flat_selected : forall margin P lib sp its lst it m,
  first_decisive margin P (explore_of lib sp its) lst = Selected it m ->
  exists i1 i2 ms1 ms2, its = i1 ++ it :: i2 /\ modes_of lib sp it = ms1 ++ m :: ms2 /\
    Forall (fun i => Forall (fun x => eval1 margin P i x = Fail) (modes_of lib sp i)) i1 /\
    Forall (fun x => eval1 margin P it x = Fail) ms1 /\ eval1 margin P it m = Pass.
Proof.
  intros margin P lib sp. induction its as [|i t IH]; intros lst it m H.
  - cbn in H. destruct lst as [[? ?]|]; discriminate.
  - cbn [explore_of flat_map] in H. fold (explore_of lib sp t) in H.
    assert (G : forall ms pre lst0, modes_of lib sp i = pre ++ ms ->
              Forall (fun x => eval1 margin P i x = Fail) pre ->
              first_decisive margin P (map (pair i) ms ++ explore_of lib sp t) lst0 = Selected it m ->
              exists i1 i2 ms1 ms2, i :: t = i1 ++ it :: i2 /\ modes_of lib sp it = ms1 ++ m :: ms2 /\
                Forall (fun i => Forall (fun x => eval1 margin P i x = Fail) (modes_of lib sp i)) i1 /\
                Forall (fun x => eval1 margin P it x = Fail) ms1 /\ eval1 margin P it m = Pass).
    { induction ms as [|x ms IHm]; intros pre lst0 Epre Fpre Hs.
      - cbn in Hs. destruct (IH _ _ _ Hs) as [i1 [i2 [ms1 [ms2 [-> [E2 [F1 [F2 Pm]]]]]]]].
        exists (i :: i1), i2, ms1, ms2. repeat split; try assumption.
        constructor; [|exact F1]. rewrite Epre, app_nil_r. exact Fpre.
      - cbn [map app first_decisive] in Hs. destruct (eval1 margin P i x) eqn:E; try discriminate.
        + inversion Hs; subst. exists [], t, pre, ms. repeat split; try assumption. constructor.
        + apply (IHm (pre ++ [x]) (Some (i, x))); [now rewrite <- app_assoc | | exact Hs].
          apply Forall_app. split; [exact Fpre | constructor; [exact E | constructor]]. }
    apply (G (modes_of lib sp i) [] lst); [reflexivity | constructor | exact H].
Qed.

Lemma sorted_app_after : forall A (R : A -> A -> Prop) l1 x l2,
  StronglySorted R (l1 ++ x :: l2) -> Forall (R x) l2.
Proof.
  induction l1 as [|y t IH]; intros x l2 H; cbn in H; inversion H; subst; [assumption | now apply IH].
Qed.
Lemma sorted_app_before : forall A (R : A -> A -> Prop) l1 x l2,
  StronglySorted R (l1 ++ x :: l2) -> Forall (fun y => R y x) l1.
Proof.
  induction l1 as [|y t IH]; intros x l2 H; cbn in H; [constructor|].
  inversion H as [|? ? Ht Hy]; subst. constructor; [|now apply IH with l2].
  rewrite Forall_forall in Hy. apply Hy. apply in_or_app. right. now left.
Qed.

(* mode_loop_spec, readable form for a selection: the selected mode fits the spacing, was judged on the propagation made
   with its own baud rate and its own offset, and clears the threshold STRICTLY; every fitting mode with a higher
   (baud rate, offset) was tried under its own propagation and failed; every fitting mode of the same baud rate and
   offset with a higher (bit rate, offset) key was tried under the same propagation and failed *)
Lemma mode_loop_selected : forall margin P lib sp it m,
  mode_loop margin P lib sp = Selected it m ->
  In m lib /\ fits sp m = true /\ m_baud m == fst it /\ m_off m == snd it /\ In it (iters lib sp) /\
  eval1 margin P it m = Pass /\
  (forall m', In m' lib -> fits sp m' = true -> iter_gt (m_baud m', m_off m') it ->
     exists it', In it' (iters lib sp) /\ iter_eqb (m_baud m', m_off m') it' = true /\ eval1 margin P it' m' = Fail) /\
  (forall m', In m' lib -> fits sp m' = true -> m_baud m' == fst it -> m_off m' == snd it -> key_gtb m' m = true ->
     eval1 margin P it m' = Fail).
Proof.
  intros margin P lib sp it m H. rewrite mode_loop_first_decisive in H. unfold explore in H.
  fold (explore_of lib sp (iters lib sp)) in H.
  destruct (fd_flat_selected _ _ _ _ _ _ _ _ H) as [i1 [i2 [ms1 [ms2 [Ei [Em [F1 [F2 Pm]]]]]]]].
  assert (Hit : In it (iters lib sp)) by (rewrite Ei; apply in_or_app; right; now left).
  assert (Hm : In m (modes_of lib sp it)) by (rewrite Em; apply in_or_app; right; now left).
  apply modes_of_in in Hm. destruct Hm as [Hml [Hmb [Hmo Hmf]]].
  repeat split; try assumption.
  - (* higher (baud rate, offset) *)
    intros m' Hl Hf Hb. destruct (iters_repr lib sp m' Hl Hf) as [it' [Hi' Ee]].
    exists it'. repeat split; try assumption.
    apply iter_eqb_iff in Ee. cbn in Ee. destruct Ee as [Eb Eo].
    pose proof (iters_sorted lib sp) as S. rewrite Ei in S, Hi'.
    assert (Hm' : In m' (modes_of lib sp it')) by (apply modes_of_in; repeat split; assumption).
    assert (G : iter_gt it' it).
    { unfold iter_gt in *. cbn in Hb. rewrite <- Eb, <- Eo. exact Hb. }
    apply in_app_or in Hi'. destruct Hi' as [Hi'|[<-|Hi']].
    + rewrite Forall_forall in F1. specialize (F1 it' Hi'). rewrite Forall_forall in F1. now apply F1.
    + exfalso. exact (iter_gt_irrefl _ G).
    + exfalso. apply sorted_app_after in S. rewrite Forall_forall in S. specialize (S it' Hi').
      apply iter_gtb_iff in S. exact (iter_gt_asym _ _ S G).
  - (* same propagation, higher key *)
    intros m' Hl Hf Hb Ho Hk.
    assert (Hm' : In m' (modes_of lib sp it)) by (apply modes_of_in; repeat split; assumption).
    pose proof (modes_of_sorted lib sp it) as S. rewrite Em in S, Hm'.
    apply in_app_or in Hm'. destruct Hm' as [Hm'|[<-|Hm']].
    + rewrite Forall_forall in F2. now apply F2.
    + rewrite key_gtb_irrefl in Hk. discriminate.
    + apply sorted_app_after in S. rewrite Forall_forall in S. rewrite (S m' Hm') in Hk. discriminate.
Qed.

(* ... for a request blocked NO_FEASIBLE_MODE: something fits, every explored pair failed, the mode reported is the
   last one explored *)
Lemma mode_loop_nomode : forall margin P lib sp it m,
  mode_loop margin P lib sp = NoFeasibleMode it m ->
  Forall (fails margin P) (explore lib sp) /\ explore lib sp <> [] /\
  List.last (explore lib sp) (it, m) = (it, m) /\ In (it, m) (explore lib sp).
Proof.
  intros margin P lib sp it m H. rewrite mode_loop_first_decisive in H.
  destruct (fd_nomode _ _ _ _ _ _ H) as [F L]. split; [exact F|].
  destruct (explore lib sp) as [|x t] eqn:E; [cbn in L; discriminate|].
  split; [discriminate|].
  assert (G : forall (l : list (iter * mode)) d d', l <> [] -> List.last (map Some l) d = Some d' -> List.last l d' = d' /\ In d' l).
  { induction l as [|y l' IH]; intros d d' Hne HL; [congruence|].
    destruct l' as [|z l''].
    - cbn in HL. inversion HL; subst. split; [reflexivity | now left].
    - assert (HL' : List.last (map Some (z :: l'')) d = Some d') by exact HL.
      destruct (IH d d' ltac:(discriminate) HL') as [A B]. split; [exact A | now right]. }
  apply (G (x :: t) None (it, m)); [discriminate | exact L].
Qed.
Lemma mode_loop_nomode_conv : forall margin P lib sp,
  Forall (fails margin P) (explore lib sp) -> explore lib sp <> [] ->
  exists it m, mode_loop margin P lib sp = NoFeasibleMode it m /\ In (it, m) (explore lib sp).
Proof.
  intros margin P lib sp F Hne. rewrite mode_loop_first_decisive, (fd_nomode_conv _ _ _ _ F).
  assert (G : forall (l : list (iter * mode)) d, l <> [] -> exists x, List.last (map Some l) d = Some x /\ In x l).
  { induction l as [|y l' IH]; intros d Hl; [congruence|]. destruct l' as [|z l''].
    - exists y. split; [reflexivity | now left].
    - destruct (IH d ltac:(discriminate)) as [x [A B]]. exists x. split; [exact A | now right]. }
  destruct (G _ None Hne) as [[it m] [A B]]. rewrite A. eauto.
Qed.
(* ... NO_FEASIBLE_BAUDRATE_WITH_SPACING exactly when no mode of the library fits the spacing *)
Lemma mode_loop_nobaud : forall margin P lib sp,
  mode_loop margin P lib sp = NoBaudrate <-> forall m, In m lib -> fits sp m = false.
Proof.
  intros margin P lib sp. rewrite <- explore_nil_iff, mode_loop_first_decisive. split.
  - apply fd_nobaud.
  - intros ->. reflexivity.
Qed.
(* completeness of a selection: the first pair of the exploration order that passes is the one selected *)
Lemma mode_loop_selected_conv : forall margin P lib sp l1 l2 it m,
  explore lib sp = l1 ++ (it, m) :: l2 -> Forall (fails margin P) l1 -> eval1 margin P it m = Pass ->
  mode_loop margin P lib sp = Selected it m.
Proof.
  intros margin P lib sp l1 l2 it m E F Pm. rewrite mode_loop_first_decisive, E. now apply fd_selected_conv.
Qed.

(* what Pass / Fail mean: strict comparison of the rounded worst-channel metric with OSNR + margin *)
Lemma eval1_pass : forall margin P it m, eval1 margin P it m = Pass <->
  exists f x, P it m = Some f /\ metric (m_tab m) f = Ok x /\ ~ met_le x (MFin (m_osnr m + margin)).
Proof.
  intros margin P it m. unfold eval1, passes_auto. split.
  - destruct (P it m) as [f|] eqn:EP; [|discriminate]. destruct (metric (m_tab m) f) as [x|e] eqn:EM; [|discriminate].
    destruct (met_lt (MFin (m_osnr m + margin)) x) eqn:E; [|discriminate].
    intros _. exists f, x. split; [reflexivity|]. split; [exact EM|]. now apply met_lt_true_iff.
  - intros [f [x [-> [-> H]]]]. apply met_lt_true_iff in H. now rewrite H.
Qed.
Lemma eval1_fail : forall margin P it m, eval1 margin P it m = Fail <->
  exists f x, P it m = Some f /\ metric (m_tab m) f = Ok x /\ met_le x (MFin (m_osnr m + margin)).
Proof.
  intros margin P it m. unfold eval1, passes_auto. split.
  - destruct (P it m) as [f|] eqn:EP; [|discriminate]. destruct (metric (m_tab m) f) as [x|e] eqn:EM; [|discriminate].
    destruct (met_lt (MFin (m_osnr m + margin)) x) eqn:E; [discriminate|].
    intros _. exists f, x. split; [reflexivity|]. split; [exact EM|]. now apply met_lt_false_iff.
  - intros [f [x [-> [-> H]]]]. apply met_lt_false_iff in H. now rewrite H.
Qed.

(* the deciding propagation is the selected mode's own one: same baud rate, same offset *)
Lemma selected_own_offset : forall margin P lib sp it m,
  mode_loop margin P lib sp = Selected it m -> iter_eqb it (m_baud m, m_off m) = true.
Proof.
  intros margin P lib sp it m H. destruct (mode_loop_selected _ _ _ _ _ _ H) as [_ [_ [Hb [Ho _]]]].
  apply iter_eqb_iff. cbn. split; symmetry; assumption.
Qed.
(* more generally every explored pair is a mode under its own propagation *)
Lemma explored_own_offset : forall lib sp it m, In (it, m) (explore lib sp) -> iter_eqb it (m_baud m, m_off m) = true.
Proof.
  intros lib sp it m H. apply explore_in in H. destruct H as [_ [_ [Hb [Ho _]]]].
  apply iter_eqb_iff. cbn. split; symmetry; assumption.
Qed.

(* ====================================================================================================
   5. the loop with explicit amplifier state
   ==================================================================================================== *)
(* propagations only change the gain an amplifier carries *)
Definition same_shape1 (d e : elem) : Prop :=
  match d, e with
  | Fiber a, Fiber b => a = b
  | Edfa _ pa na, Edfa _ pb nb => pa = pb /\ na = nb
  | Roadm a, Roadm b => a = b
  | Trx, Trx => True
  | _, _ => False
  end.
Definition same_shape (d p : path) : Prop := Forall2 same_shape1 d p.
Lemma same_shape1_refl : forall e, same_shape1 e e.
Proof. intros [a|g pm n|t|]; cbn; auto. Qed.
Lemma same_shape_refl : forall p, same_shape p p.
Proof. induction p; constructor; [apply same_shape1_refl | assumption]. Qed.
Lemma elem_step_shape : forall off e sp, same_shape1 e (fst (elem_step off e sp)).
Proof. intros off [a|g pm n|t|] sp; cbn; auto. Qed.
Lemma propagate_shape : forall off p sp, same_shape p (fst (propagate_path off p sp)).
Proof.
  intros off. induction p as [|e t IH]; intros sp; cbn; [constructor|].
  pose proof (elem_step_shape off e sp) as H1. destruct (elem_step off e sp) as [e' sp'].
  specialize (IH sp'). destruct (propagate_path off t sp') as [t' sp'']. cbn in *. constructor; assumption.
Qed.
Lemma run_load_shape : forall p l, same_shape p (fst (run_load p l)).
Proof. intros p l. apply propagate_shape. Qed.
Lemma restore1_shape : forall d e, same_shape1 d e -> restore1 d e = d.
Proof.
  intros [a|g pm n|t|] [b|g' pm' n'|t'|]; cbn; try tauto; try congruence.
  intros [-> ->]. reflexivity.
Qed.
(* writing the designed gains back gives the designed path again, whatever the propagations did in between *)
Lemma restore_shape : forall d p, same_shape d p -> restore d p = d.
Proof.
  induction d as [|x d IH]; intros p H; inversion H; subst; [reflexivity|].
  cbn. rewrite restore1_shape by assumption. f_equal. now apply IH.
Qed.
Lemma code_step_eq : forall designed load_of conv p it, same_shape designed p ->
  code_step designed load_of conv p it =
  (fst (run_load designed (load_of it)), fresh_provider designed load_of conv it).
Proof.
  intros designed load_of conv p it H. unfold code_step, fresh_provider. rewrite (restore_shape _ _ H).
  destruct (run_load designed (load_of it)); reflexivity.
Qed.

(* the loop of the code: same decision as the specification-level loop on fresh figures; the path handed back is in
   the state of the LAST propagation made, started from the designed gains (no older clamp survives) *)
Definition last_run designed (load_of : iter -> load) (p : path) (lst : option (iter * mode)) : Prop :=
  same_shape designed p /\ forall it m, lst = Some (it, m) -> p = fst (run_load designed (load_of it)).
Lemma loop_code : forall designed load_of conv margin lib sp its lst p,
  (forall it, In it its -> modes_of lib sp it <> []) -> last_run designed load_of p lst ->
  let r := loop_st (code_step designed load_of conv) margin lib sp p its lst in
  fst r = fst (loop_st (pure_step (fresh_provider designed load_of conv)) margin lib sp tt its lst) /\
  same_shape designed (snd r) /\
  (forall it m, fst r = Selected it m \/ fst r = NoFeasibleMode it m -> snd r = fst (run_load designed (load_of it))).
Proof.
  intros designed load_of conv margin lib sp. induction its as [|it t IH]; intros lst p Hne [Hs Hl].
  - cbn. destruct lst as [[i m]|]; cbn.
    + split; [reflexivity|]. split; [exact Hs|]. intros it m' [E|E]; inversion E; subst. now apply (Hl it m').
    + split; [reflexivity|]. split; [exact Hs|]. intros it m' [E|E]; discriminate.
  - cbn [loop_st]. rewrite (code_step_eq _ _ _ _ _ Hs).
    change (pure_step (fresh_provider designed load_of conv) tt it) with (tt, fresh_provider designed load_of conv it).
    cbn iota.
    assert (Hs' : same_shape designed (fst (run_load designed (load_of it)))) by apply run_load_shape.
    destruct (try_modes margin (fun _ => fresh_provider designed load_of conv it) it (modes_of lib sp it)) eqn:T.
    + cbn. split; [reflexivity|]. split; [exact Hs'|]. intros i m' [E|E]; inversion E; subst. reflexivity.
    + cbn. split; [reflexivity|]. split; [exact Hs'|].
      assert (G : forall ms, try_modes margin (fun _ => fresh_provider designed load_of conv it) it ms = Stop o ->
                  forall i m', o <> Selected i m' /\ o <> NoFeasibleMode i m').
      { induction ms as [|x ms IHm]; cbn; [discriminate|].
        destruct (eval1 margin (fun _ => fresh_provider designed load_of conv it) it x); try discriminate; auto;
          intros E; inversion E; subst; split; discriminate. }
      intros i m' [E|E]; destruct (G _ T i m') as [A B]; contradiction.
    + apply IH; [intros i Hi; apply Hne; now right|]. split; [exact Hs'|].
      destruct (modes_of lib sp it) eqn:E; [exfalso; apply (Hne it (or_introl eq_refl)); exact E|].
      intros i m' [= <- _]. reflexivity.
Qed.
(* mode_loop_indep: the statement about the code *)
Lemma mode_loop_indep : forall load_of conv margin lib sp designed,
  let r := mode_loop_st (code_step designed load_of conv) margin lib sp designed in
  fst r = mode_loop margin (fresh_provider designed load_of conv) lib sp /\
  final_state designed load_of (fst r) = Some (snd r) \/
  (fst r = mode_loop margin (fresh_provider designed load_of conv) lib sp /\ final_state designed load_of (fst r) = None).
Proof.
  intros load_of conv margin lib sp designed. unfold mode_loop, mode_loop_st.
  destruct (iters lib sp) as [|it t] eqn:E; [left; split; reflexivity|].
  destruct (loop_code designed load_of conv margin lib sp (it :: t) None designed) as [A [B C]].
  - intros i Hi. apply modes_of_nonempty. rewrite E. exact Hi.
  - split; [apply same_shape_refl | discriminate].
  - cbn zeta. destruct (fst (loop_st (code_step designed load_of conv) margin lib sp designed (it :: t) None)) as [i m|i m| | |e] eqn:O.
    + left. split; [exact A|]. cbn. f_equal. symmetry. apply (C i m). now left.
    + left. split; [exact A|]. cbn. f_equal. symmetry. apply (C i m). now right.
    + exfalso. rewrite mode_loop_first_decisive_aux in A by exact E. symmetry in A. apply fd_nobaud in A.
      unfold explore in A. rewrite E in A. cbn in A. apply app_eq_nil in A. destruct A as [A _]. apply map_eq_nil in A.
      apply (modes_of_nonempty lib sp it); [rewrite E; now left | exact A].
    + right. split; [exact A | reflexivity].
    + right. split; [exact A | reflexivity].
Qed.

Lemma mode_loop_code : forall load_of conv margin lib sp designed,
  fst (mode_loop_st (code_step designed load_of conv) margin lib sp designed) =
    mode_loop margin (fresh_provider designed load_of conv) lib sp /\
  forall pth, final_state designed load_of (fst (mode_loop_st (code_step designed load_of conv) margin lib sp designed)) = Some pth ->
    snd (mode_loop_st (code_step designed load_of conv) margin lib sp designed) = pth.
Proof.
  intros load_of conv margin lib sp designed.
  destruct (mode_loop_indep load_of conv margin lib sp designed) as [[A B]|[A B]]; cbn zeta in *.
  - split; [exact A|]. intros pth H. rewrite B in H. now inversion H.
  - split; [exact A|]. intros pth H. rewrite B in H. discriminate.
Qed.

(* the hypothetical loop WITHOUT the restore: figures of the successive propagations on the same path objects *)
Lemma leaky_head : forall p l t, nth_error (leaky_runs p (l :: t)) 0 = nth_error (fresh_runs p (l :: t)) 0.
Proof. intros p l t. cbn. destruct (run_load p l). reflexivity. Qed.
(* as long as no propagation changes the state of the path (no amplifier clamps) it would be harmless *)
Lemma leaky_eq_fresh_if_stable : forall p ls,
  (forall l, In l ls -> fst (run_load p l) = p) -> leaky_runs p ls = fresh_runs p ls.
Proof.
  intros p. induction ls as [|l t IH]; intros H; [reflexivity|]. cbn.
  pose proof (H l (or_introl eq_refl)) as E. destruct (run_load p l) as [p' sp] eqn:R. cbn in E. subst p'.
  cbn. f_equal. apply IH. intros l' Hl'. apply H. now right.
Qed.

(* ---- worst channel / bookkeeping corollaries ---- *)
Lemma met_le_eq_r : forall a b c, met_le a b -> met_eq b c -> met_le a c.
Proof. intros a b c H1 H2. eapply met_le_trans; [exact H1 | apply met_eq_le; exact H2]. Qed.
Lemma met_eq_sym : forall a b, met_eq a b -> met_eq b a.
Proof. intros [|x] [|y]; cbn; try tauto. intros E; symmetry; exact E. Qed.

(* the metric clears a threshold iff every channel does (after rounding): "the worst channel clears the threshold" *)
Lemma metric_clears_iff : forall T f m thr, metric T f = Ok m ->
  exists l, chan_mets T (f_g01 f) (f_cd f) (f_pmd f) (f_pdl f) = Ok l /\ l <> [] /\
    (met_le (MFin thr) m <-> forall y, In y l -> met_le (MFin thr) (met_round2 y)).
Proof.
  intros T f m thr H. destruct (metric_spec _ _ _ H) as [l [E [Hne [L [y0 [Hy0 A]]]]]].
  exists l. split; [exact E|]. split; [exact Hne|]. split.
  - intros Hm y Hy. eapply met_le_trans; [exact Hm | apply L; exact Hy].
  - intros Hall. eapply met_le_eq_r; [apply Hall; exact Hy0 | apply met_eq_sym; exact A].
Qed.

(* bookkeeping of the automatic mode: the request is feasible iff a mode was selected and (bidir) the reverse direction
   clears that mode's threshold; otherwise the reason is the loop's own, or MODE_NOT_FEASIBLE for the reverse direction *)
Lemma decide_auto_spec : forall margin o rev,
  (decide_auto margin o rev = None <->
     exists it m, o = Selected it m /\ forall r, rev = Some r -> met_le (MFin (m_osnr m + margin)) r) /\
  (forall it m, o = NoFeasibleMode it m -> decide_auto margin o rev = Some "NO_FEASIBLE_MODE"%string) /\
  (o = NoBaudrate -> decide_auto margin o rev = Some "NO_FEASIBLE_BAUDRATE_WITH_SPACING"%string) /\
  (forall it m r, o = Selected it m -> rev = Some r -> ~ met_le (MFin (m_osnr m + margin)) r ->
     decide_auto margin o rev = Some MODE_NOT_FEASIBLE).
Proof.
  intros margin o rev. split; [|split; [|split]].
  - unfold decide_auto. destruct o as [it m|it m| | |e]; cbn; try (split; [discriminate | intros [? [? [? _]]]; discriminate]).
    destruct rev as [r|].
    + unfold blocked_fixed. destruct (met_lt r (MFin (m_osnr m + margin))) eqn:E.
      * apply met_lt_true_iff in E. split; [discriminate|]. intros [it' [m' [Eq Hr]]]. inversion Eq; subst.
        exfalso. apply E. now apply Hr.
      * apply met_lt_false_iff in E. split; [|reflexivity]. intros _. exists it, m. split; [reflexivity|].
        intros r' [= <-]. exact E.
    + split; [|reflexivity]. intros _. exists it, m. split; [reflexivity | discriminate].
  - intros it m ->. reflexivity.
  - intros ->. reflexivity.
  - intros it m r -> -> H. unfold decide_auto. cbn. unfold blocked_fixed.
    apply met_lt_true_iff in H. now rewrite H.
Qed.

(* ---- witnesses (the statements they refute are in Props/C13.v) ---- *)
(* a two-amplifier line: trx, add ROADM (-20 dBm = 1/100 mW per channel), booster (gain 100, 10 mW cap), fibre (1/100),
   preamp (gain 100, 10 mW cap), drop ROADM, trx;  4 channels of 1 mW at the transmitter *)
Definition w_path : path :=
  [Trx; Roadm (1 # 100); Edfa 100 10 (1 # 100000); Fiber (1 # 100); Edfa 100 10 (1 # 100000); Roadm (1 # 100); Trx].
(* the propagation of an iteration: the ROADM targets are raised by the offset (8 dB ~ a factor 6) *)
Definition w_load (it : iter) : load := mkL 4 1 (if Qeq_bool (snd it) 8 then 6 else 1).
(* receiver figures: the signal-to-noise ratio of every channel (a monotone stand-in for the dB value), no impairment *)
Definition w_conv (sp : spectrum) (m : mode) : option figs :=
  Some (mkF (map (fun c => sig c / nse c) sp) (map (fun _ => 0) sp) (map (fun _ => 0) sp) (map (fun _ => 0) sp)).
(* m0: 64 GBd, +8 dB offset, unreachable threshold;  m1: 32 GBd, no offset, threshold 400 *)
Definition w_lib : list mode :=
  [mkM 0 64 8 400 75 1000000 (mkT [] [] []); mkM 1 32 0 100 (75 # 2) 400 (mkT [] [] [])].

Lemma w_figures_differ :
  leaky_runs w_path [w_load (64, 8); w_load (32, 0)] <> fresh_runs w_path [w_load (64, 8); w_load (32, 0)].
Proof. vm_compute. discriminate. Qed.
Lemma w_decision_differs :
  fst (mode_loop_st (leaky_step w_load w_conv) 0 w_lib 75 w_path) = NoFeasibleMode (32, 0) (mkM 1 32 0 100 (75 # 2) 400 (mkT [] [] [])) /\
  mode_loop 0 (fresh_provider w_path w_load w_conv) w_lib 75 = Selected (32, 0) (mkM 1 32 0 100 (75 # 2) 400 (mkT [] [] [])).
Proof. split; vm_compute; reflexivity. Qed.

(* ====================================================================================================
   6. amplifier state in dB
   ==================================================================================================== *)
Lemma clamp_db_le : forall g pmax pin, clamp_db g pmax pin <= g.
Proof. intros g pmax [p|]; cbn; [apply Q.le_min_l | apply Qle_refl]. Qed.
Lemma clamp_db_mono : forall g g' pmax pin, g <= g' -> clamp_db g pmax pin <= clamp_db g' pmax pin.
Proof.
  intros g g' pmax [p|] H; cbn; [|exact H]. apply Q.min_le_compat_r. exact H.
Qed.
Lemma clamp_db_pmax : forall g pmax p, clamp_db g pmax (Some p) + p <= pmax.
Proof. intros g pmax p. cbn. pose proof (Q.le_min_r g (pmax - p)). lra. Qed.

(* the loop of the code: whatever the number of iterations, the gain after the k-th propagation is the clamp of the
   DESIGNED gain by that propagation's own input power *)
Lemma atrace_loop : forall pmax g0 pins cur,
  atrace pmax (mkAst cur g0) (flat_map (fun p => [ARestore; AProp p]) pins) = map (clamp_db g0 pmax) pins.
Proof.
  intros pmax g0. induction pins as [|p t IH]; intros cur; [reflexivity|].
  cbn [flat_map app atrace astep a_cur a_snap map]. f_equal. apply IH.
Qed.
Lemma loop_history : forall g0 pmax pins,
  amp_history g0 pmax (loop_events pins) = map (clamp_db g0 pmax) pins.
Proof. intros. unfold amp_history, loop_events. cbn [atrace astep a_cur]. apply atrace_loop. Qed.

(* propagations on shared objects without restore: each gain is the clamp of the PREVIOUS gain *)
Fixpoint running (pmax g : Q) (pins : list (option Q)) : list Q :=
  match pins with [] => [] | p :: t => clamp_db g pmax p :: running pmax (clamp_db g pmax p) t end.
Lemma atrace_shared : forall pmax pins cur sn,
  atrace pmax (mkAst cur sn) (map AProp pins) = running pmax cur pins.
Proof.
  intros pmax. induction pins as [|p t IH]; intros cur sn; [reflexivity|].
  cbn [map atrace astep a_cur a_snap running]. f_equal. apply IH.
Qed.
Lemma shared_history : forall g0 pmax pins,
  amp_history g0 pmax (shared_events pins) = running pmax g0 pins.
Proof. intros. apply atrace_shared. Qed.
(* ... so the gains never go back up, and each is at most what a fresh propagation would give *)
Lemma running_le_start : forall pmax pins g, Forall (fun x => x <= g) (running pmax g pins).
Proof.
  intros pmax. induction pins as [|p t IH]; intros g; cbn; constructor.
  - apply clamp_db_le.
  - eapply Forall_impl; [|apply IH]. cbn. intros x H. eapply Qle_trans; [exact H | apply clamp_db_le].
Qed.
Lemma running_decreasing : forall pmax pins g, StronglySorted (fun a b => b <= a) (running pmax g pins).
Proof.
  intros pmax. induction pins as [|p t IH]; intros g; cbn; constructor; [apply IH | apply running_le_start].
Qed.
Lemma fresh_weaken : forall pmax g g' (t : list (option Q)) l, g' <= g ->
  Forall2 (fun x f => x <= f) l (map (clamp_db g' pmax) t) -> Forall2 (fun x f => x <= f) l (map (clamp_db g pmax) t).
Proof.
  intros pmax g g'. induction t as [|q t' IHt]; intros l Hg H; inversion H; subst; constructor.
  - eapply Qle_trans; [eassumption | apply clamp_db_mono; exact Hg].
  - now apply IHt.
Qed.
Lemma running_le_fresh : forall pmax pins g, Forall2 (fun x f => x <= f) (running pmax g pins) (map (clamp_db g pmax) pins).
Proof.
  intros pmax. induction pins as [|p t IH]; intros g; cbn; constructor; [apply Qle_refl|].
  eapply fresh_weaken; [apply clamp_db_le | apply IH].
Qed.
(* witness: 23 dB designed, p_max 21 dBm; a +3 dBm load clamps to 18 dB, a following -5 dBm load keeps 18 dB on shared
   objects but sees 23 dB after a restore *)
Lemma shared_differs_from_loop :
  amp_history 23 21 (shared_events [Some 3; Some (-5)]) = [18; 18] /\
  amp_history 23 21 (loop_events [Some 3; Some (-5)]) = [18; 23].
Proof. split; vm_compute; reflexivity. Qed.
