(* C13 — proofs about Model/Verdict.v *)
From Coq Require Import QArith Qround Qminmax Lia.
From Verif Require Import Prelude Model.Verdict.
