(* C20 — lemmas about Model/Sheet.v, part 9: the per-degree impairments of the Roadms sheet land on the ROADM of
   Node A between the named degrees; the list surgery of correct_xls_route_list acts slot by slot. *)
From Coq Require Import QArith Lia.
From Verif Require Import Prelude Model.Sheet Proofs.Sheet Proofs.Sheet2 Proofs.Sheet3 Proofs.Sheet4 Proofs.Sheet6
                          Proofs.Sheet7.
Open Scope Z_scope.

(* ------------------------------------------------------------------ per-degree impairments *)
Lemma cat_options_In : forall {A} (l : list (option (list A))) t,
  In t (odef [] (cat_options l)) <-> exists x, In (Some x) l /\ In t x.
Proof.
  intros A l t. unfold cat_options. destruct (existsb _ l) eqn:E; cbn [odef].
  - rewrite in_flat_map. split.
    + intros [o [Ho Ht]]. destruct o as [x|]; [exists x; auto | destruct Ht].
    + intros [x [Hx Ht]]. exists (Some x). auto.
  - split; [intros []|]. intros [x [Hx _]]. rewrite existsb_false in E. specialize (E _ Hx). discriminate.
Qed.

Lemma row_impairments_spec : forall c r x, row_impairments c r = Ok (Some x) <->
  exists fdc ids, ostr_o (rr_from_deg r) = Some fdc /\ transform_data (rr_imp r) = Ok (Some ids) /\
    length (split bar fdc) = length ids /\
    x = map (fun p => (UEdfaTo West c (fst p), UEdfaTo East c (rr_to r), snd p)) (combine (split bar fdc) ids).
Proof.
  intros c r x. unfold row_impairments. split.
  - intros H. destruct (ostr_o (rr_from_deg r)) as [fdc|]; [|discriminate].
    destruct (transform_data (rr_imp r)) as [[ids|]|] ; cbn [bind] in H; try discriminate.
    destruct (Nat.eqb _ _) eqn:E; [|discriminate]. inversion H. apply Nat.eqb_eq in E.
    exists fdc, ids. auto.
  - intros [fdc [ids [H1 [H2 [H3 H4]]]]]. rewrite H1, H2. cbn [bind]. apply Nat.eqb_eq in H3. rewrite H3, H4. reflexivity.
Qed.

(* the impairment triples of a ROADM site: exactly those of the Roadms rows whose Node A is the site, each from the
   ingress element of a 'from degree' to the egress element towards Node Z *)
Theorem impairments_land : forall w n, convert w = Ok n ->
  forall m, In m (final_nodes w) -> n_type m = TRoadm ->
  exists e v rs pd pi, In e (elements n) /\ el_uid e = URoadm (n_city m) /\ el_c e = CRoadm v rs pd pi /\
    forall t, In t (odef [] pi) <->
      exists r fdc ids fd id, In r (w_roadms w) /\ rr_from r = n_city m /\
        ostr_o (rr_from_deg r) = Some fdc /\ transform_data (rr_imp r) = Ok (Some ids) /\
        In (fd, id) (combine (split bar fdc) ids) /\
        t = (UEdfaTo West (n_city m) fd, UEdfaTo East (n_city m) (rr_to r), id).
Proof.
  intros w n H m Hm T. destruct (convert_ok_sane w n H) as [S B].
  assert (Bi : exists re ef wf ee we, built (final_nodes w) (links_of_w w) (eqpts_of_w w) (w_roadms w) n re ef wf ee we).
  { apply build_inv; [unfold final_nodes; rewrite cities_correct; apply (s_cities _ _ _ S) | apply (s_links _ _ _ S)
                     | exact (s_loops _ _ _ S) | exact B]. }
  destruct Bi as [re [ef [wf [ee [we [B0 _ _ _ _ B5 _]]]]]].
  assert (Fm : In m (filter (is_t TRoadm) (final_nodes w))) by (apply filter_In; split; [exact Hm | unfold is_t; rewrite T; reflexivity]).
  destruct (Forall2_In_l _ _ _ m B0 Fm) as [e [Ie He]].
  destruct (roadm_el_ok _ _ _ He) as [U [_ [imps [M C]]]].
  eexists e, _, _, _, _. split; [rewrite B5; apply in_or_app; right; apply in_or_app; left; exact Ie|].
  split; [exact U|]. split; [exact C|].
  intros t. rewrite cat_options_In. apply mapM_Forall2 in M. split.
  - intros [x [Hx Ht]]. destruct (Forall2_In_r _ _ _ _ M Hx) as [r [Ir Hr]].
    unfold roadms_of in Ir. apply filter_In in Ir. destruct Ir as [Ir Er]. apply seqb_eq in Er.
    apply row_impairments_spec in Hr. destruct Hr as [fdc [ids [H1 [H2 [H3 H4]]]]]. subst x.
    apply in_map_iff in Ht. destruct Ht as [[fd id] [E I]]. cbn [fst snd] in E.
    exists r, fdc, ids, fd, id. auto 10.
  - intros [r [fdc [ids [fd [id [Ir [Er [H1 [H2 [I E]]]]]]]]]].
    assert (Ir' : In r (roadms_of (n_city m) (w_roadms w))) by (apply filter_In; split; [exact Ir | apply seqb_eq; exact Er]).
    destruct (Forall2_In_l _ _ _ r M Ir') as [o [Io Ho]].
    assert (L : length (split bar fdc) = length ids).
    { unfold row_impairments in Ho. rewrite H1, H2 in Ho. cbn [bind] in Ho.
      destruct (Nat.eqb _ _) eqn:EE; [apply Nat.eqb_eq; exact EE | discriminate]. }
    assert (Hs : row_impairments (n_city m) r = Ok (Some (map (fun p => (UEdfaTo West (n_city m) (fst p), UEdfaTo East (n_city m) (rr_to r), snd p))
                                                             (combine (split bar fdc) ids)))).
    { apply row_impairments_spec. exists fdc, ids. auto. }
    rewrite Hs in Ho. inversion Ho; subst o. eexists. split; [exact Io|].
    apply in_map_iff. exists (fd, id). split; [symmetry; exact E | exact I].
Qed.

(* when the Eqpt sheet declares the two degrees, they are elements of the network *)
Theorem impairment_degrees_exist : forall w n, convert w = Ok n -> forall a b c,
  In a (eqpts_of_w w) -> In b (eqpts_of_w w) -> e_from a = c -> e_from b = c ->
  In (UEdfaTo West c (e_to a)) (uids n) /\ In (UEdfaTo East c (e_to b)) (uids n).
Proof.
  intros w n H a b c Ia Ib Ea Eb. destruct (convert_ok_sane w n H) as [S B].
  assert (Bi : exists re ef wf ee we, built (final_nodes w) (links_of_w w) (eqpts_of_w w) (w_roadms w) n re ef wf ee we).
  { apply build_inv; [unfold final_nodes; rewrite cities_correct; apply (s_cities _ _ _ S) | apply (s_links _ _ _ S)
                     | exact (s_loops _ _ _ S) | exact B]. }
  destruct Bi as [re [ef [wf [ee [we Bt]]]]]. unfold uids. rewrite (built_uids _ _ _ _ _ _ _ _ _ _ Bt).
  subst c. split; [apply U_eqpt; exact Ia | rewrite <- Eb; apply U_eqpt; exact Ib].
Qed.

(* ------------------------------------------------------------------ the list surgery of correct_xls_route_list *)
Definition slot (a : action) (n : string) : list string :=
  match a with AKeep => [n] | ARename s => [s] | ADrop => [] | AFail _ => [] end.
(* what each hop becomes, slot by slot; the first hop that cannot be treated raises *)
Fixpoint slots (dec : nat -> string -> action) (i : nat) (temp : list string) : res (list string) :=
  match temp with
  | [] => Ok []
  | n :: t => match dec i n with
              | AFail e => Err e
              | a => let* r := slots dec (S i) t in Ok (slot a n ++ r)
              end
  end.
(* list.remove / list.index act on the first occurrence of the hop's NAME: this is the hop's own slot as long as
   the name does not already occur among the hops treated before it (kept or renamed) *)
Fixpoint clean (dec : nat -> string -> action) (i : nat) (temp done : list string) : Prop :=
  match temp with
  | [] => True
  | n :: t => (dec i n = AKeep \/ ~ In n done) /\ clean dec (S i) t (done ++ slot (dec i n) n)
  end.

Lemma replace_first_app : forall n s done t, ~ In n done -> replace_first n s (done ++ n :: t) = done ++ s :: t.
Proof.
  intros n s. induction done as [|x d IH]; intros t H; cbn [app replace_first].
  - rewrite seqb_refl. reflexivity.
  - destruct (seqb x n) eqn:E; [apply seqb_eq in E; exfalso; apply H; left; exact E|].
    rewrite IH; [reflexivity|]. intros Hin. apply H. right. exact Hin.
Qed.
Lemma remove_first_app : forall n done t, ~ In n done -> remove_first n (done ++ n :: t) = done ++ t.
Proof.
  intros n. induction done as [|x d IH]; intros t H; cbn [app remove_first].
  - rewrite seqb_refl. reflexivity.
  - destruct (seqb x n) eqn:E; [apply seqb_eq in E; exfalso; apply H; left; exact E|].
    rewrite IH; [reflexivity|]. intros Hin. apply H. right. exact Hin.
Qed.

Theorem surgery_slotwise : forall dec temp i done, clean dec i temp done ->
  surgery dec i temp (done ++ temp) = (let* r := slots dec i temp in Ok (done ++ r)).
Proof.
  intros dec. induction temp as [|n t IH]; intros i done C; cbn [surgery slots].
  - cbn [bind]. reflexivity.
  - cbn [clean] in C. destruct C as [C1 C2]. destruct (dec i n) as [|s| |e] eqn:D; cbn [slot] in C2.
    + replace (done ++ n :: t) with ((done ++ [n]) ++ t) by (rewrite <- app_assoc; reflexivity).
      rewrite (IH (S i) (done ++ [n]) C2). destruct (slots dec (S i) t); cbn [bind slot app]; [|reflexivity].
      rewrite <- app_assoc. reflexivity.
    + destruct C1 as [C1|C1]; [discriminate|]. rewrite (replace_first_app n s done t C1).
      replace (done ++ s :: t) with ((done ++ [s]) ++ t) by (rewrite <- app_assoc; reflexivity).
      rewrite (IH (S i) (done ++ [s]) C2). destruct (slots dec (S i) t); cbn [bind slot app]; [|reflexivity].
      rewrite <- app_assoc. reflexivity.
    + destruct C1 as [C1|C1]; [discriminate|]. rewrite (remove_first_app n done t C1).
      rewrite app_nil_r in C2. rewrite (IH (S i) done C2). destruct (slots dec (S i) t); reflexivity.
    + reflexivity.
Qed.

(* whether the correction raises, and with what, never depends on the list: only on the decisions *)
Theorem surgery_raises : forall dec temp i live e,
  surgery dec i temp live = Err e <-> slots dec i temp = Err e.
Proof.
  intros dec. induction temp as [|n t IH]; intros i live e; cbn [surgery slots].
  - split; discriminate.
  - destruct (dec i n) as [|s| |e'] eqn:D.
    + rewrite IH. destruct (slots dec (S i) t); cbn [bind]; split; intros H; congruence.
    + rewrite IH. destruct (slots dec (S i) t); cbn [bind]; split; intros H; congruence.
    + rewrite IH. destruct (slots dec (S i) t); cbn [bind]; split; intros H; congruence.
    + reflexivity.
Qed.

(* a sufficient condition that is easy to check on a route list: no hop name is repeated, and no corrected name
   is itself written in the list *)
Lemma clean_sufficient : forall dec temp i done, NoDup temp -> (forall x, In x done -> ~ In x temp) ->
  (forall j n s, In n temp -> dec j n = ARename s -> ~ In s temp) -> clean dec i temp done.
Proof.
  intros dec. induction temp as [|n t IH]; intros i done N Hd Hr; cbn [clean]; [exact Logic.I|].
  inversion N as [|x l Hx Hl]; subst. split.
  - right. intros Hin. exact (Hd n Hin (or_introl eq_refl)).
  - apply IH; [exact Hl | |].
    + intros x Hin. apply in_app_or in Hin. destruct Hin as [Hin|Hin].
      * intros Ht. exact (Hd x Hin (or_intror Ht)).
      * destruct (dec i n) as [|s| |e] eqn:D; cbn [slot In] in Hin.
        -- destruct Hin as [<-|[]]. exact Hx.
        -- destruct Hin as [<-|[]]. intros Ht. exact (Hr i n s (or_introl eq_refl) D (or_intror Ht)).
        -- destruct Hin.
        -- destruct Hin.
    + intros j m s Hm D Hs. exact (Hr j m s (or_intror Hm) D (or_intror Hs)).
Qed.

(* length bookkeeping: every hop accounts for at most one entry; kept and renamed hops for exactly one *)
Lemma slots_length : forall dec temp i r, slots dec i temp = Ok r ->
  length r = length (filter (fun p => match dec (fst p) (snd p) with ADrop => false | _ => true end)
                            (combine (seq i (length temp)) temp)).
Proof.
  intros dec. induction temp as [|n t IH]; intros i r H; cbn [slots] in H.
  - inversion H. reflexivity.
  - cbn [length seq combine filter fst snd].
    destruct (dec i n) as [|s| |e] eqn:D; try discriminate;
      destruct (slots dec (S i) t) as [r'|] eqn:E; cbn [bind] in H; try discriminate; inversion H; subst r;
      cbn [slot app length]; rewrite (IH (S i) r' E); reflexivity.
Qed.

(* the decision for one hop *)
Lemma decide_strict_unknown : forall g cr cf ci nn dst route i n,
  smem n (uids_of_kind KTrx g ++ uids_of_kind KFiber g) = false -> suggestions g cr cf ci n = [] ->
  decide g cr cf ci nn false dst route i n = AFail "ServiceError:unknown_node_in_strict_route" /\
  decide g cr cf ci nn true dst route i n = ADrop.
Proof. intros. unfold decide. rewrite H, H0. split; reflexivity. Qed.
Lemma decide_strict_trx_fiber : forall g cr cf ci nn dst route i n,
  smem n (uids_of_kind KTrx g ++ uids_of_kind KFiber g) = true ->
  decide g cr cf ci nn false dst route i n = AFail "ServiceError:trx_or_fiber_in_strict_route" /\
  decide g cr cf ci nn true dst route i n = ADrop.
Proof. intros. unfold decide. rewrite H. split; reflexivity. Qed.
(* a hop is only ever renamed into one of its suggestions; an exact ROADM / amplifier uid is kept *)
Lemma decide_rename_in_suggestions : forall g cr cf ci nn loose dst route i n s,
  decide g cr cf ci nn loose dst route i n = ARename s -> In s (suggestions g cr cf ci n).
Proof.
  intros g cr cf ci nn loose dst route i n s H. unfold decide in H.
  destruct (smem n _); [destruct loose; discriminate|].
  destruct (suggestions g cr cf ci n) as [|x [|y t]] eqn:E.
  - destruct loose; discriminate.
  - destruct (seqb x n); inversion H. left. reflexivity.
  - destruct (find _ _) as [z|] eqn:F; [|discriminate]. destruct (seqb z n); inversion H; subst.
    apply find_some in F. exact (proj1 F).
Qed.
Lemma decide_exact_kept : forall g cr cf ci nn loose dst route i n,
  smem n (uids_of_kind KTrx g ++ uids_of_kind KFiber g) = false ->
  smem n (uids_of_kind KRoadm g ++ uids_of_kind KEdfa g) = true ->
  decide g cr cf ci nn loose dst route i n = AKeep.
Proof.
  intros g cr cf ci nn loose dst route i n H1 H2. unfold decide, suggestions. rewrite H1, H2, seqb_refl. reflexivity.
Qed.

(* the corrected request: under `clean`, its route list is the slot-by-slot image of the (popped) list *)
Theorem correct_route_slotwise : forall k r r',
  let l := pop_ends (r_src r) (r_dst r) (r_nodes r) in
  let dec := decide (k_graph k) (k_roadm k) (k_fused k) (k_ila k) (k_next k) (r_loose r) (r_dst r) l in
  clean dec 0 l [] -> correct_route k r = Ok r' -> slots dec 0 l = Ok (r_nodes r').
Proof.
  intros k r r' l dec C H. unfold correct_route in H.
  destruct (smem (r_src r) _); cbn [negb] in H; [|discriminate].
  destruct (smem (r_dst r) _); cbn [negb] in H; [|discriminate].
  fold l in H. fold dec in H. pose proof (surgery_slotwise dec l 0 [] C) as Sw. cbn [app] in Sw. rewrite Sw in H.
  destruct (slots dec 0 l) as [x|]; cbn [bind] in H; [|discriminate]. inversion H. reflexivity.
Qed.

(* ------------------------------------------------------------------ where correct_xls_route_list is wrong: witnesses
   (both reproduced on gnpy, designed or not; corpus/C20/r04, r05) *)
Definition svc_row (src dst path loose : string) : req_row :=
  mkReqRow (CNum 1) (Some src) (Some dst) (CStr "Voyager") CEmpty (Some 50%Q) None None CEmpty (Some path) (Some loose)
           (Some 100%Q).
Definition eq_voyager : list (string * list string) := [("Voyager", ["mode 1"])]%string.
Definition nodes_after (w : rows) (r : req_row) : res (list (list string)) :=
  let* n := convert w in
  let* l := read_service_sheet w n eq_voyager false [r] in Ok (map r_nodes l).

(* `clean` is needed: a hop written as a uid that an EARLIER hop has just been corrected into is removed / replaced at
   that earlier slot.  A - F(fused) - I(ila) - B, loose route  F | I | B | west fused spans in F : the last hop is no
   valid constraint and is dropped, but it is the FIRST hop's slot that disappears, so the fused element ends up
   after ROADM B *)
Definition w_order : rows :=
  mkRows [nd "A" "ROADM"; nd "F" "FUSED"; nd "I" "ILA"; nd "B" "ROADM"] [lk "A" "F"; lk "F" "I"; lk "I" "B"; lk "A" "B"] [] [].
Lemma surgery_order_refuted :
  nodes_after w_order (svc_row "A" "B" "F | I | B | west fused spans in F" "yes")
    = Ok [["west edfa in I"; "roadm B"; "west fused spans in F"]]%string /\
  nodes_after w_order (svc_row "A" "B" "F | I | B" "yes")
    = Ok [["west fused spans in F"; "west edfa in I"; "roadm B"]]%string.
Proof. split; vm_compute; reflexivity. Qed.

(* names are matched by substring (`ila_elem in n.uid`): with sites A10 and A1, 'east edfa in A1' is first found in
   'east edfa in A10'; the hop A1 of the STRICT route  A1 | C  (B -> A1 -> C exists) is silently skipped *)
Definition w_prefix : rows :=
  mkRows [nd "A" "ROADM"; nd "A10" "ILA"; nd "B" "ROADM"; nd "A1" "ILA"; nd "C" "ROADM"]
         [lk "A" "A10"; lk "A10" "B"; lk "B" "A1"; lk "A1" "C"; lk "C" "A"] [] [].
Lemma prefix_name_refuted :
  nodes_after w_prefix (svc_row "B" "C" "A1 | C" "no") = Ok [["roadm C"]]%string /\
  nodes_after w_prefix (svc_row "A" "B" "A10 | B" "no") = Ok [["west edfa in A10"; "roadm B"]]%string.
Proof. split; vm_compute; reflexivity. Qed.
