(* C19 — the CSV row computed from a response that meets Spec states the observed values, and its pass flag is
   (lowest SNR rounded to 2 decimals >= mode OSNR + system margin). *)
From Verif Require Import Prelude Model.Response Proofs.Response.
From Coq Require Import QArith Qround Lia ZifyBool.
Open Scope Z_scope.

Definition Stated (objs : list json) (items : list item) : Prop :=
  Forall2 (fun j it => exists k, classify j = Some (k, it)) objs items.

Lemma RouteSpec_Stated : forall objs items, RouteSpec objs items -> Stated objs items.
Proof.
  intros objs items R. apply route_okb_spec in R. revert R. generalize 0.
  revert items. induction objs as [|j t IH]; intros [|it ti] i H; cbn [route_okb] in H; try discriminate.
  - constructor.
  - destruct (classify j) as [[k it']|] eqn:C; [|discriminate].
    apply andb_prop in H as [H H3]. apply andb_prop in H as [_ H2]. apply item_eqb_eq in H2. subst it'.
    constructor; [eauto|]. exact (IH _ _ H3).
Qed.

(* ------------------------------------------------------------------ what classify tells about the raw object *)
Lemma classify_inv : forall j k it, classify j = Some (k, it) ->
  exists kv inner, j = JObj kv /\ jget "path-route-object" kv = Some (JObj inner) /\
    match it with
    | IHop a b => exists h, jget "num-unnum-hop" inner = Some (JObj h) /\ jget "label-hop" inner = None /\
                            jget "transponder" inner = None /\ jget "node-id" h = Some (JStr a)
    | ILabel l => exists ls, jget "num-unnum-hop" inner = None /\ jget "label-hop" inner = Some (JArr ls) /\
                             labels_parse ls = Some l
    | ITsp ty m => exists t, jget "num-unnum-hop" inner = None /\ jget "label-hop" inner = None /\
                             jget "transponder" inner = Some (JObj t) /\
                             jget "transponder-type" t = Some (JStr ty) /\ jget "transponder-mode" t = Some (ostr_json m)
    end.
Proof.
  intros j k it H. unfold classify in H.
  destruct j as [| | | | |kv]; try discriminate H.
  destruct (jget "path-route-object" kv) as [[| | | | |inner]|] eqn:E0; try discriminate H.
  destruct (jget "index" inner) as [ji|]; [|discriminate H].
  destruct (as_int ji) as [k'|]; [|discriminate H].
  exists kv, inner. split; [reflexivity|]. split; [exact E0|].
  destruct (jget "num-unnum-hop" inner) as [[| | | | |h]|] eqn:E1;
    destruct (jget "label-hop" inner) as [[| | | |ls|]|] eqn:E2;
    destruct (jget "transponder" inner) as [[| | | | |t]|] eqn:E3; try discriminate H.
  - destruct (jget "node-id" h) as [[| | |a| |]|] eqn:E4; try discriminate H.
    destruct (jget "link-tp-id" h) as [[| | |b| |]|] eqn:E5; try discriminate H.
    injection H as <- <-. exists h. auto.
  - destruct (labels_parse ls) as [l|] eqn:E4; [|discriminate H]. injection H as <- <-. exists ls. auto.
  - destruct (jget "transponder-type" t) as [[| | |a| |]|] eqn:E4; try discriminate H.
    destruct (jget "transponder-mode" t) as [[| | |m| |]|] eqn:E5; try discriminate H;
      injection H as <- <-; exists t; auto.
Qed.

Lemma pro_inner_of : forall kv inner, jget "path-route-object" kv = Some (JObj inner) -> pro_inner (JObj kv) = Ok inner.
Proof. intros kv inner H. unfold pro_inner. rewrite H. reflexivity. Qed.

Lemma csv_hops_stated : forall objs items, Stated objs items -> csv_hops objs = Ok (hops_of items).
Proof.
  induction 1 as [|j it objs items [k C] F IH]; [reflexivity|].
  destruct (classify_inv _ _ _ C) as (kv & inner & -> & P & D).
  cbn [csv_hops]. rewrite (pro_inner_of _ _ P). cbn [bind]. rewrite IH. cbn [bind].
  unfold hops_of. cbn [flat_map]. fold (hops_of items).
  destruct it as [a b|l|ty m].
  - destruct D as (h & -> & _ & _ & ->). reflexivity.
  - destruct D as (ls & -> & _). reflexivity.
  - destruct D as (t & -> & _). reflexivity.
Qed.

Lemma py_elem_int : forall j z, as_int j = Some z -> py_elem j = Ok (zs z).
Proof. intros j z H. unfold py_elem. destruct j; try discriminate H. rewrite H. reflexivity. Qed.

Lemma py_elems_labels : forall ls l, labels_parse ls = Some l ->
  py_elems ls "N" = Ok (map (fun p => zs (fst p)) l) /\ py_elems ls "M" = Ok (map (fun p => zs (snd p)) l).
Proof.
  induction ls as [|j t IH]; intros l H; cbn [labels_parse] in H.
  - injection H as <-. split; reflexivity.
  - destruct j as [| | | | |kv]; try discriminate H.
    destruct (jget "N" kv) as [jn|] eqn:EN; [|discriminate H].
    destruct (jget "M" kv) as [jm|] eqn:EM; [|discriminate H].
    destruct (as_int jn) as [n|] eqn:AN; [|discriminate H].
    destruct (as_int jm) as [m|] eqn:AM; [|discriminate H].
    destruct (labels_parse t) as [r|] eqn:LP; [|discriminate H]. injection H as <-.
    destruct (IH r eq_refl) as [I1 I2]. cbn [py_elems map fst snd].
    rewrite EN, EM, (py_elem_int _ _ AN), (py_elem_int _ _ AM), I1, I2. split; reflexivity.
Qed.

Definition label_str (l : list (Z * Z)) : string :=
  (py_list (map (fun p => zs (fst p)) l) ++ ", " ++ py_list (map (fun p => zs (snd p)) l))%string.

Lemma csv_labels_stated : forall objs items, Stated objs items ->
  csv_labels objs = Ok (map label_str (labels_in items)).
Proof.
  induction 1 as [|j it objs items [k C] F IH]; [reflexivity|].
  destruct (classify_inv _ _ _ C) as (kv & inner & -> & P & D).
  cbn [csv_labels]. rewrite (pro_inner_of _ _ P). cbn [bind]. rewrite IH. cbn [bind].
  unfold labels_in. cbn [flat_map]. fold (labels_in items).
  destruct it as [a b|l|ty m].
  - destruct D as (h & _ & -> & _). reflexivity.
  - destruct D as (ls & _ & -> & LP). destruct (py_elems_labels _ _ LP) as [-> ->]. reflexivity.
  - destruct D as (t & _ & -> & _). reflexivity.
Qed.

Lemma Forall2_nth : forall A B (R : A -> B -> Prop) l1 l2 n b,
  Forall2 R l1 l2 -> nth_error l2 n = Some b -> exists a, nth_error l1 n = Some a /\ R a b.
Proof.
  intros A B R l1 l2 n b F. revert n. induction F as [|x y l1 l2 Rxy F IH]; intros [|n] H; cbn [nth_error] in *; try discriminate.
  - injection H as <-. eauto.
  - apply IH. exact H.
Qed.

Lemma Forall2_len : forall A B (R : A -> B -> Prop) l1 l2, Forall2 R l1 l2 -> length l1 = length l2.
Proof. induction 1; cbn [length]; congruence. Qed.

Lemma gsdt_stated : forall objs items emit back s s' d d' ty m,
  Stated objs items ->
  nth_error items 0 = Some (IHop s s') ->
  (back <= length items)%nat -> nth_error items (length items - back) = Some (IHop d d') ->
  nth_error items emit = Some (ITsp ty m) ->
  get_srce_dest_trx objs emit back = Ok (s, d, ty, m).
Proof.
  intros objs items emit back s s' d d' ty m St H0 Hb Hd He.
  pose proof (Forall2_len _ _ _ _ _ St) as Len.
  destruct (Forall2_nth _ _ _ _ _ _ _ St H0) as (j0 & N0 & k0 & C0).
  destruct (Forall2_nth _ _ _ _ _ _ _ St Hd) as (jd & Nd & kd & Cd).
  destruct (Forall2_nth _ _ _ _ _ _ _ St He) as (je & Ne & ke & Ce).
  unfold get_srce_dest_trx. rewrite N0, Ne, Len.
  replace (back <=? length items)%nat with true by (symmetry; apply Nat.leb_le; exact Hb). rewrite Nd.
  destruct (classify_inv _ _ _ C0) as (kv0 & in0 & -> & P0 & h0 & A0 & _ & _ & B0).
  destruct (classify_inv _ _ _ Cd) as (kvd & ind & -> & Pd & hd & Ad & _ & _ & Bd).
  destruct (classify_inv _ _ _ Ce) as (kve & ine & -> & Pe & t & _ & _ & Te & T1 & T2).
  rewrite !(pro_inner_of _ _ P0), !(pro_inner_of _ _ Pd), !(pro_inner_of _ _ Pe). cbn [bind].
  rewrite A0, B0, Ad, Bd, Te, T1, T2. cbn [bind]. destruct m; reflexivity.
Qed.

(* ------------------------------------------------------------------ shape of the expected items *)
Definition ends_trx (o : obs) : Prop :=
  exists src mid dst, o_path o = src :: mid ++ [dst] /\ h_trx src = true /\ h_trx dst = true.

Lemma nth_error_app_len : forall A (l1 l2 : list A) n, nth_error (l1 ++ l2) (length l1 + n) = nth_error l2 n.
Proof. intros. rewrite nth_error_app2 by lia. f_equal. lia. Qed.

Lemma items_served : forall o l src mid dst,
  o_path o = src :: mid ++ [dst] -> h_trx src = true -> h_trx dst = true ->
  exists M, expected_items o (Some l) =
    ([IHop (h_uid src) (h_uid src); ILabel l; ITsp (o_tsp o) (o_mode o)] ++ M) ++
    [IHop (h_uid dst) (h_uid dst); ILabel l; ITsp (o_tsp o) (o_mode o)].
Proof.
  intros o l src mid dst P Hs Hd. exists (flat_map (hop_items (Some l) (o_tsp o) (o_mode o)) mid).
  unfold expected_items. rewrite P. cbn [flat_map]. rewrite flat_map_app. cbn [flat_map].
  unfold hop_items at 1 3. rewrite Hs, Hd. cbn [app]. rewrite ?app_nil_r. reflexivity.
Qed.

Lemma items_blocked : forall o src mid dst,
  o_path o = src :: mid ++ [dst] -> h_trx src = true -> h_trx dst = true ->
  exists M, expected_items o None =
    ([IHop (h_uid src) (h_uid src); ITsp (o_tsp o) (o_mode o)] ++ M) ++
    [IHop (h_uid dst) (h_uid dst); ITsp (o_tsp o) (o_mode o)].
Proof.
  intros o src mid dst P Hs Hd. exists (flat_map (hop_items None (o_tsp o) (o_mode o)) mid).
  unfold expected_items. rewrite P. cbn [flat_map]. rewrite flat_map_app. cbn [flat_map].
  unfold hop_items at 1 3. rewrite Hs, Hd. cbn [app]. rewrite ?app_nil_r. reflexivity.
Qed.

Lemma nth_last3 : forall A (pre : list A) x y z,
  (3 <= length (pre ++ [x; y; z]))%nat /\ nth_error (pre ++ [x; y; z]) (length (pre ++ [x; y; z]) - 3) = Some x.
Proof.
  intros. rewrite app_length. cbn [length]. split; [lia|].
  replace (length pre + 3 - 3)%nat with (length pre + 0)%nat by lia. rewrite nth_error_app_len. reflexivity.
Qed.
Lemma nth_last2 : forall A (pre : list A) x y,
  (2 <= length (pre ++ [x; y]))%nat /\ nth_error (pre ++ [x; y]) (length (pre ++ [x; y]) - 2) = Some x.
Proof.
  intros. rewrite app_length. cbn [length]. split; [lia|].
  replace (length pre + 2 - 2)%nat with (length pre + 0)%nat by lia. rewrite nth_error_app_len. reflexivity.
Qed.

(* ------------------------------------------------------------------ metric cells *)
Lemma round2q_of_stated : forall q' m, (q' == round2q m)%Q -> (round2q q' == round2q m)%Q.
Proof. intros q' m H. rewrite (round2q_compat _ _ H). apply round2q_idem. Qed.

Lemma mval_num : forall q jv, mval_rel (MNum q) jv -> exists q', jv = JNum q' /\ (q' == q)%Q.
Proof. intros q jv H. exact H. Qed.

Lemma raw_cell_mval : forall v jv, mval_rel v jv ->
  raw_cell (Some jv) = Ok (match jv with JNum q => CNum q | JStr s => CStr s | _ => CEmpty end).
Proof. intros [q|s] jv H; cbn in H; [destruct H as (q' & -> & _)|subst jv]; reflexivity. Qed.

(* the ten cells of _jsontopath_metric for a metric list that states the figures of receiver rx *)
Lemma jsontopath_metric_spec : forall rx o l pm pdbm,
  expected_metrics rx o = Some l ->
  (forall name v, In (name, v) l -> exists jv, read_property pm name = Some jv /\ mval_rel v jv) ->
  exists m2 m1 m4 lo hi c_osnr c_snr c_snrbw c_min c_max c_pdl c_cd c_pmd c_bw,
    jsontopath_metric (Some (JArr pm)) pdbm =
      Ok [CNum c_osnr; CNum c_snr; CNum c_snrbw; CNum c_min; CNum c_max; c_pdl; c_cd; c_pmd;
          CNum (round2q pdbm); CNum c_bw] /\
    qmean (r_snr01 rx) = Some m2 /\ qmean (r_snr rx) = Some m1 /\ qmean (r_osnr01 rx) = Some m4 /\
    qmin_list (r_snr01 rx) = Some lo /\ qmax_list (r_snr01 rx) = Some hi /\
    (c_osnr == round2q m4)%Q /\ (c_snr == round2q m2)%Q /\ (c_snrbw == round2q m1)%Q /\
    (c_min == round2q lo)%Q /\ (c_max == round2q hi)%Q /\
    (c_bw == round2q (o_bw o / giga))%Q.
Proof.
  intros rx o l pm pdbm E H.
  destruct (expected_metrics_values _ _ _ E) as (m1 & m2 & m3 & m4 & lo & hi & p1 & p2 & p3 &
    Q1 & Q2 & Q3 & Q4 & Q5 & Q6 & _ & _ & _ & ->).
  assert (G : forall name v, In (name, v)
     [(SNR_BW, MNum (round2q m1)); (SNR_01NM, MNum (round2q m2)); (OSNR_BW, MNum (round2q m3));
      (OSNR_01NM, MNum (round2q m4)); (LOWER_SNR, MNum (round2q lo)); (UPPER_SNR, MNum (round2q hi));
      (PDL_PEN, p1); (CD_PEN, p2); (PMD_PEN, p3); (REF_POWER, MNum (o_power o)); (PATH_BW, MNum (o_bw o))] ->
     exists jv, read_property pm name = Some jv /\ mval_rel v jv) by exact H.
  destruct (G SNR_BW _ ltac:(cbn; auto)) as (j1 & R1 & (q1 & -> & V1)).
  destruct (G SNR_01NM _ ltac:(cbn; auto)) as (j2 & R2 & (q2 & -> & V2)).
  destruct (G OSNR_01NM _ ltac:(cbn; auto 6)) as (j4 & R4 & (q4 & -> & V4)).
  destruct (G LOWER_SNR _ ltac:(cbn; auto 7)) as (j5 & R5 & (q5 & -> & V5)).
  destruct (G UPPER_SNR _ ltac:(cbn; auto 8)) as (j6 & R6 & (q6 & -> & V6)).
  destruct (G PDL_PEN _ ltac:(cbn; auto 9)) as (j7 & R7 & V7).
  destruct (G CD_PEN _ ltac:(cbn; auto 10)) as (j8 & R8 & V8).
  destruct (G PMD_PEN _ ltac:(cbn; auto 11)) as (j9 & R9 & V9).
  destruct (G REF_POWER _ ltac:(cbn; auto 12)) as (j10 & R10 & (q10 & -> & V10)).
  destruct (G PATH_BW _ ltac:(cbn; auto 13)) as (j11 & R11 & (q11 & -> & V11)).
  exists m2, m1, m4, lo, hi.
  exists (round2q q4), (round2q q2), (round2q q1), q5, q6.
  eexists. eexists. eexists. exists (round2q (q11 / (1000000000 # 1))).
  split.
  - unfold jsontopath_metric. rewrite R4, R2, R1, R5, R6, R7, R8, R9, R10, R11.
    rewrite (raw_cell_mval _ _ V7), (raw_cell_mval _ _ V8), (raw_cell_mval _ _ V9).
    cbn [round_cell raw_cell bind]. reflexivity.
  - repeat split; try assumption; try (apply round2q_of_stated; assumption).
    apply round2q_compat. unfold giga. rewrite V11. reflexivity.
Qed.

(* ------------------------------------------------------------------ row lookups *)
Lemma sget_hd : forall A k (v : A) t, sget k ((k, v) :: t) = Some v.
Proof. intros. cbn [sget]. rewrite String.eqb_refl. reflexivity. Qed.
Lemma sget_tl : forall A k k' (v : A) t, k <> k' -> sget k ((k', v) :: t) = sget k t.
Proof. intros A k k' v t H. cbn [sget]. apply String.eqb_neq in H. rewrite H. reflexivity. Qed.
Ltac sget_simp := repeat (rewrite sget_hd || (rewrite sget_tl by discriminate) || (cbn [sget app combine PATH_FIELDS REV_FIELDS tl])).

Lemma Qle_bool_compat_r : forall x a b, (a == b)%Q -> Qle_bool x a = Qle_bool x b.
Proof.
  intros x a b H. destruct (Qle_bool x b) eqn:E.
  - apply Qle_bool_iff. apply Qle_bool_iff in E. rewrite H. exact E.
  - destruct (Qle_bool x a) eqn:E'; [|reflexivity]. apply Qle_bool_iff in E'. rewrite H in E'.
    apply Qle_bool_iff in E'. congruence.
Qed.

Lemma uniq_repeat : forall s k, uniq [] (repeat s (S k)) = [s].
Proof.
  intros s k. cbn [repeat uniq mem_s existsb]. f_equal.
  induction k as [|k IH]; [reflexivity|]. cbn [repeat uniq mem_s existsb]. rewrite String.eqb_refl. cbn [orb]. exact IH.
Qed.

Definition mode_lookup (eqp : eqpt) (ty m : string) : option mode_rec :=
  match sget ty eqp with Some modes => find (fun r => String.eqb (m_format r) m) modes | None => None end.

Lemma map_repeat' : forall A B (f : A -> B) x n, map f (repeat x n) = repeat (f x) n.
Proof. induction n as [|n IH]; [reflexivity|]. cbn [repeat map]. rewrite IH. reflexivity. Qed.

(* ================================================================== served request *)
Theorem csv_consistent_served : forall o resp eqp margin pdbm row,
  Spec o resp -> o_block o = None -> ends_trx o ->
  csv_row eqp margin pdbm resp = Ok row ->
  exists n m src mid dst rx lo mname md,
    o_N o = Some n /\ o_M o = Some m /\ o_path o = src :: mid ++ [dst] /\
    o_fwd o = Some rx /\ qmin_list (r_snr01 rx) = Some lo /\
    o_mode o = Some mname /\ mode_lookup eqp (o_tsp o) mname = Some md /\
    sget "response-id" row = Some (CStr (o_id o)) /\
    sget "source" row = Some (CStr (h_uid src)) /\
    sget "destination" row = Some (CStr (h_uid dst)) /\
    sget "transponder-type" row = Some (CStr (o_tsp o)) /\
    sget "transponder-mode" row = Some (CStr mname) /\
    sget "path" row = Some (CStr (join " | " (map h_uid (o_path o)))) /\
    sget "spectrum (N,M)" row = Some (CStr (label_str (combine n m))) /\
    sget "min required OSNR (inc. margin)" row = Some (CNum (m_osnr md + margin)%Q) /\
    (* the pass flag: lowest SNR (rounded as reported) against the margin-inclusive threshold, inclusive *)
    sget "Pass?" row = Some (CBool (Qle_bool (m_osnr md + margin)%Q (round2q lo))) /\
    (exists c, sget "SNR-0.1nm (min)" row = Some (CNum c) /\ (c == round2q lo)%Q) /\
    (exists c, sget "path_bandwidth" row = Some (CNum c) /\ (c == round2q (o_bw o / giga))%Q) /\
    (if o_bidir o then
       exists rv lo' c, o_rev o = Some rv /\ qmin_list (r_snr01 rv) = Some lo' /\
                        sget "reversed path SNR-0.1nm (min)" row = Some (CNum c) /\ (c == round2q lo')%Q
     else sget "reversed path SNR-0.1nm (min)" row = None).
Proof.
  intros o resp eqp margin pdbm row S B (src & mid & dst & P & Hs & Hd) H.
  destruct S as (kv & -> & I & HS). rewrite B in HS.
  destruct HS as (NP & pp & PPj & (ppkv & -> & M1 & M2 & lab & objs & L & J & R)).
  unfold spec_labels in L. rewrite B in L.
  destruct (o_N o) as [n|]; [|discriminate L]. destruct (o_M o) as [m|]; [|discriminate L]. injection L as <-.
  apply RouteSpec_Stated in R.
  destruct (items_served o (combine n m) src mid dst P Hs Hd) as (Mid & EI).
  assert (G : get_srce_dest_trx objs 2 3 = Ok (h_uid src, h_uid dst, o_tsp o, o_mode o)).
  { destruct (nth_last3 _ ([IHop (h_uid src) (h_uid src); ILabel (combine n m); ITsp (o_tsp o) (o_mode o)] ++ Mid)
                (IHop (h_uid dst) (h_uid dst)) (ILabel (combine n m)) (ITsp (o_tsp o) (o_mode o))) as [Ln Nl].
    rewrite <- EI in Ln, Nl.
    eapply gsdt_stated; [exact R| | exact Ln | exact Nl |]; rewrite EI; reflexivity. }
  destruct M1 as (rx & pm & l & F & Jm & E & Hm).
  destruct (jsontopath_metric_spec rx o l pm pdbm E Hm) as
    (m2 & m1 & m4 & lo & hi & c_osnr & c_snr & c_snrbw & c_min & c_max & c_pdl & c_cd & c_pmd & c_bw &
     JM & _ & _ & _ & Qlo & _ & _ & _ & _ & Vmin & _ & Vbw).
  unfold csv_row in H. rewrite I, NP, PPj, J, G in H. cbn [bind] in H.
  unfold jsontoparams in H. rewrite J, (csv_hops_stated _ _ R), (csv_labels_stated _ _ R) in H. cbn [bind] in H.
  destruct (o_mode o) as [mname|] eqn:MO; [|discriminate H].
  destruct (sget (o_tsp o) eqp) as [modes|] eqn:SG; [|discriminate H].
  destruct (find (fun r => String.eqb (m_format r) mname) modes) as [md|] eqn:FD; [|discriminate H].
  rewrite Jm, JM in H. cbn [bind nth_error cell_ge] in H.
  destruct (Qeq_bool (round2q (m_bitrate md / giga)) 0); [discriminate H|].
  assert (LenP : length (o_path o) = S (length (mid ++ [dst]))) by (rewrite P; reflexivity).
  rewrite hops_expected, labels_expected_some, LenP in H.
  rewrite map_repeat', uniq_repeat in H. cbn [join] in H.
  exists n, m, src, mid, dst, rx, lo, mname, md.
  split; [reflexivity|]. split; [reflexivity|]. split; [exact P|]. split; [exact F|]. split; [exact Qlo|].
  split; [reflexivity|]. split; [unfold mode_lookup; rewrite SG; exact FD|].
  destruct (o_bidir o) eqn:BD.
  - destruct M2 as (rv & pm' & l' & F' & J' & E' & Hm').
    destruct (jsontopath_metric_spec rv o l' pm' pdbm E' Hm') as
      (m2' & m1' & m4' & lo' & hi' & d_osnr & d_snr & d_snrbw & d_min & d_max & d_pdl & d_cd & d_pmd & d_bw &
       JM' & _ & _ & _ & Qlo' & _ & _ & _ & _ & Vmin' & _ & _).
    rewrite J', JM' in H. cbn [bind] in H. injection H as <-.
    repeat split; sget_simp; try reflexivity.
    + rewrite (Qle_bool_compat_r _ _ _ Vmin). reflexivity.
    + eexists. split; [reflexivity|exact Vmin].
    + eexists. split; [reflexivity|exact Vbw].
    + exists rv, lo', d_min. split; [exact F'|]. split; [exact Qlo'|]. split; [sget_simp; reflexivity|exact Vmin'].
  - rewrite M2 in H. cbn [bind] in H. injection H as <-.
    repeat split; sget_simp; try reflexivity.
    + rewrite (Qle_bool_compat_r _ _ _ Vmin). reflexivity.
    + eexists. split; [reflexivity|exact Vmin].
    + eexists. split; [reflexivity|exact Vbw].
Qed.

(* ================================================================== blocked request *)
Theorem csv_consistent_blocked : forall o resp eqp margin pdbm row r,
  Spec o resp -> o_block o = Some r ->
  csv_row eqp margin pdbm resp = Ok row ->
  sget "response-id" row = Some (CStr (o_id o)) /\
  sget "Pass?" row = Some (CStr r) /\                      (* the blocking reason instead of a pass flag *)
  sget "path_bandwidth" row = None /\ sget "nb of tsp pairs" row = None /\
  if mem_s r BLOCKING_NOPATH then
    row = [("response-id"%string, CStr (o_id o)); ("Pass?"%string, CStr r)]    (* nothing else is stated *)
  else
    ends_trx o ->
    exists src mid dst mname,
      o_path o = src :: mid ++ [dst] /\ o_mode o = Some mname /\
      sget "source" row = Some (CStr (h_uid src)) /\
      sget "destination" row = Some (CStr (h_uid dst)) /\
      sget "transponder-type" row = Some (CStr (o_tsp o)) /\
      sget "transponder-mode" row = Some (CStr mname) /\
      sget "path" row = Some (CStr (join " | " (map h_uid (o_path o)))) /\
      sget "spectrum (N,M)" row = Some (CStr "") /\          (* no labels *)
      (if o_bidir o then exists c, sget "reversed path SNR-0.1nm (min)" row = Some (CNum c)
       else sget "reversed path SNR-0.1nm (min)" row = None).
Proof.
  intros o resp eqp margin pdbm row r S B H.
  destruct S as (kv & -> & I & HS). rewrite B in HS. destruct HS as (NPP & np & N1 & N2 & HS).
  unfold csv_row in H. rewrite I, N1, N2 in H.
  destruct (mem_s r BLOCKING_NOPATH) eqn:MB.
  - injection H as <-. cbn [app]. repeat split; sget_simp; reflexivity.
  - destruct HS as (pp & PPj & (ppkv & -> & M1 & M2 & lab & objs & L & J & R)).
    unfold spec_labels in L. rewrite B in L. injection L as <-.
    apply RouteSpec_Stated in R.
    rewrite PPj, J in H.
    destruct (get_srce_dest_trx objs 1 2) as [[[[s0 d0] ty0] mo0]|] eqn:G; [|discriminate H]. cbn [bind] in H.
    unfold jsontoparams in H. rewrite J, (csv_hops_stated _ _ R), (csv_labels_stated _ _ R) in H. cbn [bind] in H.
    destruct mo0 as [mname0|]; [|discriminate H].
    destruct (sget ty0 eqp) as [modes|] eqn:SG; [|discriminate H].
    destruct (find (fun r => String.eqb (m_format r) mname0) modes) as [md|] eqn:FD; [|discriminate H].
    destruct M1 as (rx & pm & l & F & Jm & E & Hm).
    destruct (jsontopath_metric_spec rx o l pm pdbm E Hm) as
      (m2 & m1 & m4 & lo & hi & c_osnr & c_snr & c_snrbw & c_min & c_max & c_pdl & c_cd & c_pmd & c_bw &
       JM & _).
    rewrite Jm, JM in H. cbn [bind] in H.
    rewrite hops_expected, labels_expected_none in H. cbn [map uniq join] in H.
    assert (K : (if o_bidir o then exists rv pm' l', jget "z-a-path-metric" ppkv = Some (JArr pm') /\
                                  expected_metrics rv o = Some l' /\
                                  (forall name v, In (name, v) l' -> exists jv, read_property pm' name = Some jv /\ mval_rel v jv)
                 else jget "z-a-path-metric" ppkv = None)).
    { destruct (o_bidir o); [|exact M2]. destruct M2 as (rv & pm' & l' & _ & J' & E' & Hm'). eauto 6. }
    assert (Common : forall rev, row = [("response-id"%string, CStr (o_id o))] ++
              [("Pass?"%string, CStr r); ("source"%string, CStr s0); ("destination"%string, CStr d0);
               ("transponder-type"%string, CStr ty0); ("transponder-mode"%string, CStr mname0)] ++
              combine (tl PATH_FIELDS)
                (tl [CNum c_bw; CNum c_osnr; CNum c_snr; CNum c_snrbw; CNum c_min; CNum c_max; c_pdl; c_cd; c_pmd;
                     CNum (m_osnr md + margin)%Q; CNum (round2q (m_baud md / giga)); CNum (round2q pdbm);
                     CStr (join " | " (map h_uid (o_path o))); CStr ""; CNum (round2q (m_bitrate md / giga))]) ++ rev ->
              sget "response-id" row = Some (CStr (o_id o)) /\ sget "Pass?" row = Some (CStr r) /\
              sget "source" row = Some (CStr s0) /\ sget "destination" row = Some (CStr d0) /\
              sget "transponder-type" row = Some (CStr ty0) /\ sget "transponder-mode" row = Some (CStr mname0) /\
              sget "path" row = Some (CStr (join " | " (map h_uid (o_path o)))) /\
              sget "spectrum (N,M)" row = Some (CStr "") /\
              sget "path_bandwidth" row = sget "path_bandwidth" rev /\
              sget "nb of tsp pairs" row = sget "nb of tsp pairs" rev /\
              sget "reversed path SNR-0.1nm (min)" row = sget "reversed path SNR-0.1nm (min)" rev).
    { intros rev ->. repeat split; sget_simp; reflexivity. }
    assert (Fin : exists rev, row = [("response-id"%string, CStr (o_id o))] ++
              [("Pass?"%string, CStr r); ("source"%string, CStr s0); ("destination"%string, CStr d0);
               ("transponder-type"%string, CStr ty0); ("transponder-mode"%string, CStr mname0)] ++
              combine (tl PATH_FIELDS)
                (tl [CNum c_bw; CNum c_osnr; CNum c_snr; CNum c_snrbw; CNum c_min; CNum c_max; c_pdl; c_cd; c_pmd;
                     CNum (m_osnr md + margin)%Q; CNum (round2q (m_baud md / giga)); CNum (round2q pdbm);
                     CStr (join " | " (map h_uid (o_path o))); CStr ""; CNum (round2q (m_bitrate md / giga))]) ++ rev /\
              sget "path_bandwidth" rev = None /\ sget "nb of tsp pairs" rev = None /\
              (if o_bidir o then exists c, sget "reversed path SNR-0.1nm (min)" rev = Some (CNum c)
               else sget "reversed path SNR-0.1nm (min)" rev = None)).
    { destruct (o_bidir o).
      - destruct K as (rv & pm' & l' & J' & E' & Hm').
        destruct (jsontopath_metric_spec rv o l' pm' pdbm E' Hm') as
          (m2' & m1' & m4' & lo' & hi' & d_osnr & d_snr & d_snrbw & d_min & d_max & d_pdl & d_cd & d_pmd & d_bw &
           JM' & _).
        rewrite J', JM' in H. cbn [bind] in H. injection H as <-.
        eexists. split; [reflexivity|]. repeat split; sget_simp; try reflexivity. eexists. reflexivity.
      - rewrite K in H. cbn [bind] in H. injection H as <-.
        exists []. split; [reflexivity|]. repeat split. }
    destruct Fin as (rev & Erow & R1 & R2 & R3).
    destruct (Common rev Erow) as (C1 & C2 & C3 & C4 & C5 & C6 & C7 & C8 & C9 & C10 & C11).
    split; [exact C1|]. split; [exact C2|]. split; [rewrite C9; exact R1|]. split; [rewrite C10; exact R2|].
    intros (src & mid & dst & P & Hs & Hd).
    destruct (items_blocked o src mid dst P Hs Hd) as (Mid & EI).
    assert (G' : get_srce_dest_trx objs 1 2 = Ok (h_uid src, h_uid dst, o_tsp o, o_mode o)).
    { destruct (nth_last2 _ ([IHop (h_uid src) (h_uid src); ITsp (o_tsp o) (o_mode o)] ++ Mid)
                  (IHop (h_uid dst) (h_uid dst)) (ITsp (o_tsp o) (o_mode o))) as [Ln Nl].
      rewrite <- EI in Ln, Nl.
      eapply gsdt_stated; [exact R| | exact Ln | exact Nl |]; rewrite EI; reflexivity. }
    rewrite G' in G. injection G as <- <- <- MO.
    exists src, mid, dst, mname0. split; [exact P|]. split; [exact MO|].
    split; [exact C3|]. split; [exact C4|]. split; [exact C5|]. split; [exact C6|]. split; [exact C7|].
    split; [exact C8|]. rewrite C11. exact R3.
Qed.

(* ================================================================== the export never fails on a response that meets Spec *)
Theorem csv_defined : forall o resp eqp margin pdbm,
  Spec o resp ->
  (reports_path o = true ->
     ends_trx o /\
     exists mname md, o_mode o = Some mname /\ mode_lookup eqp (o_tsp o) mname = Some md /\
                      (o_block o = None -> ~ (round2q (m_bitrate md / giga) == 0)%Q)) ->
  exists row, csv_row eqp margin pdbm resp = Ok row.
Proof.
  intros o resp eqp margin pdbm S W.
  destruct S as (kv & -> & I & HS). unfold csv_row. rewrite I. unfold reports_path in W.
  destruct (o_block o) as [r|] eqn:B.
  - destruct HS as (NPP & np & N1 & N2 & HS). rewrite N1, N2.
    destruct (mem_s r BLOCKING_NOPATH) eqn:MB; [eauto|].
    destruct (W eq_refl) as ((src & mid & dst & P & Hs & Hd) & mname & md & MO & ML & _).
    destruct HS as (pp & PPj & (ppkv & -> & M1 & M2 & lab & objs & L & J & R)).
    unfold spec_labels in L. rewrite B in L. injection L as <-.
    apply RouteSpec_Stated in R. rewrite PPj, J.
    destruct (items_blocked o src mid dst P Hs Hd) as (Mid & EI).
    assert (G' : get_srce_dest_trx objs 1 2 = Ok (h_uid src, h_uid dst, o_tsp o, o_mode o)).
    { destruct (nth_last2 _ ([IHop (h_uid src) (h_uid src); ITsp (o_tsp o) (o_mode o)] ++ Mid)
                  (IHop (h_uid dst) (h_uid dst)) (ITsp (o_tsp o) (o_mode o))) as [Ln Nl].
      rewrite <- EI in Ln, Nl.
      eapply gsdt_stated; [exact R| | exact Ln | exact Nl |]; rewrite EI; reflexivity. }
    rewrite G'. cbn [bind].
    unfold jsontoparams. rewrite J, (csv_hops_stated _ _ R), (csv_labels_stated _ _ R). cbn [bind]. rewrite MO.
    unfold mode_lookup in ML. destruct (sget (o_tsp o) eqp) as [modes|]; [|discriminate ML]. rewrite ML.
    destruct M1 as (rx & pm & l & F & Jm & E & Hm).
    destruct (jsontopath_metric_spec rx o l pm pdbm E Hm) as
      (m2 & m1 & m4 & lo & hi & c_osnr & c_snr & c_snrbw & c_min & c_max & c_pdl & c_cd & c_pmd & c_bw & JM & _).
    rewrite Jm, JM. cbn [bind].
    destruct (o_bidir o).
    + destruct M2 as (rv & pm' & l' & _ & J' & E' & Hm').
      destruct (jsontopath_metric_spec rv o l' pm' pdbm E' Hm') as
        (m2' & m1' & m4' & lo' & hi' & d_osnr & d_snr & d_snrbw & d_min & d_max & d_pdl & d_cd & d_pmd & d_bw & JM' & _).
      rewrite J', JM'. cbn [bind]. eauto.
    + rewrite M2. cbn [bind]. eauto.
  - destruct HS as (NP & pp & PPj & (ppkv & -> & M1 & M2 & lab & objs & L & J & R)).
    destruct (W eq_refl) as ((src & mid & dst & P & Hs & Hd) & mname & md & MO & ML & NZ).
    unfold spec_labels in L. rewrite B in L.
    destruct (o_N o) as [n|]; [|discriminate L]. destruct (o_M o) as [m|]; [|discriminate L]. injection L as <-.
    apply RouteSpec_Stated in R. rewrite NP, PPj, J.
    destruct (items_served o (combine n m) src mid dst P Hs Hd) as (Mid & EI).
    assert (G : get_srce_dest_trx objs 2 3 = Ok (h_uid src, h_uid dst, o_tsp o, o_mode o)).
    { destruct (nth_last3 _ ([IHop (h_uid src) (h_uid src); ILabel (combine n m); ITsp (o_tsp o) (o_mode o)] ++ Mid)
                  (IHop (h_uid dst) (h_uid dst)) (ILabel (combine n m)) (ITsp (o_tsp o) (o_mode o))) as [Ln Nl].
      rewrite <- EI in Ln, Nl.
      eapply gsdt_stated; [exact R| | exact Ln | exact Nl |]; rewrite EI; reflexivity. }
    rewrite G. cbn [bind].
    unfold jsontoparams. rewrite J, (csv_hops_stated _ _ R), (csv_labels_stated _ _ R). cbn [bind]. rewrite MO.
    unfold mode_lookup in ML. destruct (sget (o_tsp o) eqp) as [modes|]; [|discriminate ML]. rewrite ML.
    destruct M1 as (rx & pm & l & F & Jm & E & Hm).
    destruct (jsontopath_metric_spec rx o l pm pdbm E Hm) as
      (m2 & m1 & m4 & lo & hi & c_osnr & c_snr & c_snrbw & c_min & c_max & c_pdl & c_cd & c_pmd & c_bw & JM & _).
    rewrite Jm, JM. cbn [bind nth_error cell_ge].
    destruct (Qeq_bool (round2q (m_bitrate md / giga)) 0) eqn:QZ.
    { exfalso. apply (NZ eq_refl). apply Qeq_bool_iff. exact QZ. }
    destruct (o_bidir o).
    + destruct M2 as (rv & pm' & l' & _ & J' & E' & Hm').
      destruct (jsontopath_metric_spec rv o l' pm' pdbm E' Hm') as
        (m2' & m1' & m4' & lo' & hi' & d_osnr & d_snr & d_snrbw & d_min & d_max & d_pdl & d_cd & d_pmd & d_bw & JM' & _).
      rewrite J', JM'. cbn [bind]. eauto.
    + rewrite M2. cbn [bind]. eauto.
Qed.

(* ================================================================== every numeric cell: which response field it prints *)
(* how a cell prints a value of the response: raw, or rounded again to two decimals *)
Definition raw_of (jv : json) : cell := match jv with JNum q => CNum q | JStr s => CStr s | _ => CEmpty end.
Definition round_of (jv : json) : cell := match jv with JNum q => CNum (round2q q) | _ => CEmpty end.

(* column `col` of the row prints (through f) the metric `name` of the metric list pm, which states the value v *)
Definition prints (row : list (string * cell)) (col : string) (pm : list json) (name : string)
           (f : json -> cell) (v : mval) : Prop :=
  exists jv, read_property pm name = Some jv /\ mval_rel v jv /\ sget col row = Some (f jv).

Lemma prints_round_value : forall row col pm name x,
  prints row col pm name round_of (MNum (round2q x)) ->
  exists c, sget col row = Some (CNum c) /\ (c == round2q x)%Q.
Proof.
  intros row col pm name x (jv & _ & (q' & -> & V) & S). cbn [round_of] in S.
  eexists. split; [exact S|]. apply round2q_of_stated. exact V.
Qed.
Lemma prints_raw_value : forall row col pm name x,
  prints row col pm name raw_of (MNum x) -> exists c, sget col row = Some (CNum c) /\ (c == x)%Q.
Proof. intros row col pm name x (jv & _ & (q' & -> & V) & S). cbn [raw_of] in S. eauto. Qed.

Lemma raw_cell_raw_of : forall v jv, mval_rel v jv -> raw_cell (Some jv) = Ok (raw_of jv).
Proof. intros v jv H. rewrite (raw_cell_mval _ _ H). reflexivity. Qed.

Lemma jsontopath_metric_full : forall rx o l pm pdbm,
  expected_metrics rx o = Some l ->
  (forall name v, In (name, v) l -> exists jv, read_property pm name = Some jv /\ mval_rel v jv) ->
  exists m1 m2 m4 lo hi p1 p2 p3 j1 j2 j4 j5 j6 j7 j8 j9 q11,
    qmean (r_snr rx) = Some m1 /\ qmean (r_snr01 rx) = Some m2 /\ qmean (r_osnr01 rx) = Some m4 /\
    qmin_list (r_snr01 rx) = Some lo /\ qmax_list (r_snr01 rx) = Some hi /\
    penalty_val (r_pdl rx) = Some p1 /\ penalty_val (r_cd rx) = Some p2 /\ penalty_val (r_pmd rx) = Some p3 /\
    (read_property pm SNR_BW = Some j1 /\ mval_rel (MNum (round2q m1)) j1) /\
    (read_property pm SNR_01NM = Some j2 /\ mval_rel (MNum (round2q m2)) j2) /\
    (read_property pm OSNR_01NM = Some j4 /\ mval_rel (MNum (round2q m4)) j4) /\
    (read_property pm LOWER_SNR = Some j5 /\ mval_rel (MNum (round2q lo)) j5) /\
    (read_property pm UPPER_SNR = Some j6 /\ mval_rel (MNum (round2q hi)) j6) /\
    (read_property pm PDL_PEN = Some j7 /\ mval_rel p1 j7) /\
    (read_property pm CD_PEN = Some j8 /\ mval_rel p2 j8) /\
    (read_property pm PMD_PEN = Some j9 /\ mval_rel p3 j9) /\
    (read_property pm PATH_BW = Some (JNum q11) /\ (q11 == o_bw o)%Q) /\
    jsontopath_metric (Some (JArr pm)) pdbm =
      Ok [round_of j4; round_of j2; round_of j1; raw_of j5; raw_of j6; raw_of j7; raw_of j8; raw_of j9;
          CNum (round2q pdbm); CNum (round2q (q11 / (1000000000 # 1)))].
Proof.
  intros rx o l pm pdbm E H.
  destruct (expected_metrics_values _ _ _ E) as (m1 & m2 & m3 & m4 & lo & hi & p1 & p2 & p3 &
    Q1 & Q2 & Q3 & Q4 & Q5 & Q6 & P1 & P2 & P3 & ->).
  destruct (H SNR_BW _ ltac:(cbn; auto)) as (j1 & R1 & V1).
  destruct (H SNR_01NM _ ltac:(cbn; auto)) as (j2 & R2 & V2).
  destruct (H OSNR_01NM _ ltac:(cbn; auto 6)) as (j4 & R4 & V4).
  destruct (H LOWER_SNR _ ltac:(cbn; auto 7)) as (j5 & R5 & V5).
  destruct (H UPPER_SNR _ ltac:(cbn; auto 8)) as (j6 & R6 & V6).
  destruct (H PDL_PEN _ ltac:(cbn; auto 9)) as (j7 & R7 & V7).
  destruct (H CD_PEN _ ltac:(cbn; auto 10)) as (j8 & R8 & V8).
  destruct (H PMD_PEN _ ltac:(cbn; auto 11)) as (j9 & R9 & V9).
  destruct (H REF_POWER _ ltac:(cbn; auto 12)) as (j10 & R10 & (q10 & -> & V10)).
  destruct (H PATH_BW _ ltac:(cbn; auto 13)) as (j11 & R11 & (q11 & -> & V11)).
  exists m1, m2, m4, lo, hi, p1, p2, p3, j1, j2, j4, j5, j6, j7, j8, j9, q11.
  repeat (split; [assumption|]).
  split; [split; assumption|]. split; [split; assumption|]. split; [split; assumption|].
  split; [split; assumption|]. split; [split; assumption|]. split; [split; assumption|].
  split; [split; assumption|]. split; [split; assumption|]. split; [split; assumption|].
  unfold jsontopath_metric. rewrite R4, R2, R1, R5, R6, R7, R8, R9, R10, R11.
  rewrite (raw_cell_raw_of _ _ V5), (raw_cell_raw_of _ _ V6), (raw_cell_raw_of _ _ V7),
          (raw_cell_raw_of _ _ V8), (raw_cell_raw_of _ _ V9).
  destruct V1 as (q1 & -> & _). destruct V2 as (q2 & -> & _). destruct V4 as (q4 & -> & _).
  cbn [round_cell bind round_of]. reflexivity.
Qed.

(* the eight metric columns of one direction *)
Definition metric_columns (pre : string) (row : list (string * cell)) (pm : list json)
           (m1 m2 m4 lo hi : Q) (p1 p2 p3 : mval) : Prop :=
  prints row (pre ++ "OSNR-0.1nm (average)") pm OSNR_01NM round_of (MNum (round2q m4)) /\
  prints row (pre ++ "SNR-0.1nm (average)") pm SNR_01NM round_of (MNum (round2q m2)) /\
  prints row (pre ++ "SNR-bandwidth (average)") pm SNR_BW round_of (MNum (round2q m1)) /\
  prints row (pre ++ "SNR-0.1nm (min)") pm LOWER_SNR raw_of (MNum (round2q lo)) /\
  prints row (pre ++ "SNR-0.1nm (max)") pm UPPER_SNR raw_of (MNum (round2q hi)) /\
  prints row (pre ++ "PDL_penalty") pm PDL_PEN raw_of p1 /\
  prints row (pre ++ "CD_penalty") pm CD_PEN raw_of p2 /\
  prints row (pre ++ "PMD_penalty") pm PMD_PEN raw_of p3.

Definition receiver_figures (rx : rxfig) (m1 m2 m4 lo hi : Q) (p1 p2 p3 : mval) : Prop :=
  qmean (r_snr rx) = Some m1 /\ qmean (r_snr01 rx) = Some m2 /\ qmean (r_osnr01 rx) = Some m4 /\
  qmin_list (r_snr01 rx) = Some lo /\ qmax_list (r_snr01 rx) = Some hi /\
  penalty_val (r_pdl rx) = Some p1 /\ penalty_val (r_cd rx) = Some p2 /\ penalty_val (r_pmd rx) = Some p3.

Ltac solve_prints R V := eexists; split; [exact R|split; [exact V|sget_simp; reflexivity]].

Theorem csv_cells_served : forall o resp eqp margin pdbm row,
  Spec o resp -> o_block o = None -> ends_trx o ->
  csv_row eqp margin pdbm resp = Ok row ->
  exists rx mname md m1 m2 m4 lo hi p1 p2 p3,
    o_fwd o = Some rx /\ o_mode o = Some mname /\ mode_lookup eqp (o_tsp o) mname = Some md /\
    receiver_figures rx m1 m2 m4 lo hi p1 p2 p3 /\
    (* forward columns print the 'path-metric' entries, which state the forward receiver *)
    metric_columns "" row (metric_list "path-metric" resp) m1 m2 m4 lo hi p1 p2 p3 /\
    (* transponder figures come from the equipment library, input power from the reference power *)
    sget "baud rate (Gbaud)" row = Some (CNum (round2q (m_baud md / giga))) /\
    sget "bit rate" row = Some (CNum (round2q (m_bitrate md / giga))) /\
    sget "input power (dBm)" row = Some (CNum (round2q pdbm)) /\
    (* number of transponder pairs = ceil(bandwidth / bit rate) on the two printed (rounded, Gbit/s) values *)
    (let nb := Qceiling (round2q (o_bw o / giga) / round2q (m_bitrate md / giga)) in
     sget "nb of tsp pairs" row = Some (CNum (inject_Z nb)) /\
     sget "total cost" row = Some (CNum (inject_Z nb * m_cost md)%Q)) /\
    (* reversed-path columns print the 'z-a-path-metric' entries (reverse receiver), present iff bidirectional *)
    (if o_bidir o then
       exists rv n1 n2 n4 lo' hi' r1 r2 r3,
         o_rev o = Some rv /\ receiver_figures rv n1 n2 n4 lo' hi' r1 r2 r3 /\
         metric_columns "reversed path " row (metric_list "z-a-path-metric" resp) n1 n2 n4 lo' hi' r1 r2 r3
     else Forall (fun col => sget col row = None) REV_FIELDS).
Proof.
  intros o resp eqp margin pdbm row S B (src & mid & dst & P & Hs & Hd) H.
  destruct S as (kv & -> & I & HS). rewrite B in HS.
  destruct HS as (NP & pp & PPj & (ppkv & -> & M1 & M2 & lab & objs & L & J & R)).
  unfold spec_labels in L. rewrite B in L.
  destruct (o_N o) as [n|]; [|discriminate L]. destruct (o_M o) as [m|]; [|discriminate L]. injection L as <-.
  apply RouteSpec_Stated in R.
  destruct (items_served o (combine n m) src mid dst P Hs Hd) as (Mid & EI).
  assert (G : get_srce_dest_trx objs 2 3 = Ok (h_uid src, h_uid dst, o_tsp o, o_mode o)).
  { destruct (nth_last3 _ ([IHop (h_uid src) (h_uid src); ILabel (combine n m); ITsp (o_tsp o) (o_mode o)] ++ Mid)
                (IHop (h_uid dst) (h_uid dst)) (ILabel (combine n m)) (ITsp (o_tsp o) (o_mode o))) as [Ln Nl].
    rewrite <- EI in Ln, Nl.
    eapply gsdt_stated; [exact R| | exact Ln | exact Nl |]; rewrite EI; reflexivity. }
  destruct M1 as (rx & pm & l & F & Jm & E & Hm).
  destruct (jsontopath_metric_full rx o l pm pdbm E Hm) as
    (m1 & m2 & m4 & lo & hi & p1 & p2 & p3 & j1 & j2 & j4 & j5 & j6 & j7 & j8 & j9 & q11 &
     Q1 & Q2 & Q4 & Q5 & Q6 & P1 & P2 & P3 & [R1 V1] & [R2 V2] & [R4 V4] & [R5 V5] & [R6 V6] & [R7 V7] &
     [R8 V8] & [R9 V9] & [R11 V11] & JM).
  unfold csv_row in H. rewrite I, NP, PPj, J, G in H. cbn [bind] in H.
  unfold jsontoparams in H. rewrite J, (csv_hops_stated _ _ R), (csv_labels_stated _ _ R) in H. cbn [bind] in H.
  destruct (o_mode o) as [mname|] eqn:MO; [|discriminate H].
  destruct (sget (o_tsp o) eqp) as [modes|] eqn:SG; [|discriminate H].
  destruct (find (fun r => String.eqb (m_format r) mname) modes) as [md|] eqn:FD; [|discriminate H].
  rewrite Jm, JM in H. cbn [bind nth_error] in H.
  destruct V5 as (q5 & -> & V5). cbn [raw_of cell_ge bind] in H.
  destruct (Qeq_bool (round2q (m_bitrate md / giga)) 0); [discriminate H|].
  assert (NB : Qceiling (round2q (q11 / (1000000000 # 1)) / round2q (m_bitrate md / giga)) =
               Qceiling (round2q (o_bw o / giga) / round2q (m_bitrate md / giga))).
  { apply Qceiling_comp. apply Qdiv_comp; [|reflexivity]. apply round2q_compat. unfold giga.
    apply Qdiv_comp; [exact V11|reflexivity]. }
  rewrite NB in H.
  assert (ML : metric_list "path-metric" (JObj kv) = pm).
  { unfold metric_list, pp_field. cbn [response_pp]. rewrite PPj, Jm. reflexivity. }
  exists rx, mname, md, m1, m2, m4, lo, hi, p1, p2, p3.
  split; [exact F|]. split; [reflexivity|]. split; [unfold mode_lookup; rewrite SG; exact FD|].
  split; [repeat split; assumption|]. rewrite ML.
  assert (V5' : mval_rel (MNum (round2q lo)) (JNum q5)) by (exists q5; split; [reflexivity|exact V5]).
  destruct (o_bidir o) eqn:BD.
  - destruct M2 as (rv & pm' & l' & F' & J' & E' & Hm').
    destruct (jsontopath_metric_full rv o l' pm' pdbm E' Hm') as
      (n1 & n2 & n4 & lo' & hi' & r1 & r2 & r3 & k1 & k2 & k4 & k5 & k6 & k7 & k8 & k9 & q11' &
       Q1' & Q2' & Q4' & Q5' & Q6' & P1' & P2' & P3' & [S1 W1] & [S2 W2] & [S4 W4] & [S5 W5] & [S6 W6] & [S7 W7] &
       [S8 W8] & [S9 W9] & _ & JM').
    rewrite J', JM' in H. cbn [bind] in H. injection H as <-.
    assert (ML' : metric_list "z-a-path-metric" (JObj kv) = pm').
    { unfold metric_list, pp_field. cbn [response_pp]. rewrite PPj, J'. reflexivity. }
    split; [unfold metric_columns; cbn [append];
            repeat split; [solve_prints R4 V4|solve_prints R2 V2|solve_prints R1 V1|solve_prints R5 V5'|
                           solve_prints R6 V6|solve_prints R7 V7|solve_prints R8 V8|solve_prints R9 V9]|].
    split; [sget_simp; reflexivity|]. split; [sget_simp; reflexivity|]. split; [sget_simp; reflexivity|].
    split; [split; sget_simp; reflexivity|].
    exists rv, n1, n2, n4, lo', hi', r1, r2, r3. split; [exact F'|]. split; [repeat split; assumption|].
    rewrite ML'. unfold metric_columns. cbn [append].
    repeat split; [solve_prints S4 W4|solve_prints S2 W2|solve_prints S1 W1|solve_prints S5 W5|
                   solve_prints S6 W6|solve_prints S7 W7|solve_prints S8 W8|solve_prints S9 W9].
  - rewrite M2 in H. cbn [bind] in H. injection H as <-.
    split; [unfold metric_columns; cbn [append];
            repeat split; [solve_prints R4 V4|solve_prints R2 V2|solve_prints R1 V1|solve_prints R5 V5'|
                           solve_prints R6 V6|solve_prints R7 V7|solve_prints R8 V8|solve_prints R9 V9]|].
    split; [sget_simp; reflexivity|]. split; [sget_simp; reflexivity|]. split; [sget_simp; reflexivity|].
    split; [split; sget_simp; reflexivity|].
    unfold REV_FIELDS. repeat constructor; sget_simp; reflexivity.
Qed.

(* the same columns for a request blocked with a candidate path (no bandwidth, no transponder count) *)
Theorem csv_cells_blocked : forall o resp eqp margin pdbm row r,
  Spec o resp -> o_block o = Some r -> mem_s r BLOCKING_NOPATH = false ->
  csv_row eqp margin pdbm resp = Ok row ->
  exists rx m1 m2 m4 lo hi p1 p2 p3,
    o_fwd o = Some rx /\ receiver_figures rx m1 m2 m4 lo hi p1 p2 p3 /\
    metric_columns "" row (metric_list "path-metric" resp) m1 m2 m4 lo hi p1 p2 p3 /\
    sget "input power (dBm)" row = Some (CNum (round2q pdbm)) /\
    sget "total cost" row = None /\
    (if o_bidir o then
       exists rv n1 n2 n4 lo' hi' r1 r2 r3,
         o_rev o = Some rv /\ receiver_figures rv n1 n2 n4 lo' hi' r1 r2 r3 /\
         metric_columns "reversed path " row (metric_list "z-a-path-metric" resp) n1 n2 n4 lo' hi' r1 r2 r3
     else Forall (fun col => sget col row = None) REV_FIELDS).
Proof.
  intros o resp eqp margin pdbm row r S B MB H.
  destruct S as (kv & -> & I & HS). rewrite B in HS. destruct HS as (NPP & np & N1 & N2 & HS).
  unfold csv_row in H. rewrite I, N1, N2, MB in H. rewrite MB in HS.
  destruct HS as (pp & PPj & (ppkv & -> & M1 & M2 & lab & objs & L & J & R)).
  unfold spec_labels in L. rewrite B in L. injection L as <-.
  apply RouteSpec_Stated in R. rewrite PPj, J in H.
  destruct (get_srce_dest_trx objs 1 2) as [[[[s0 d0] ty0] mo0]|] eqn:G; [|discriminate H]. cbn [bind] in H.
  unfold jsontoparams in H. rewrite J, (csv_hops_stated _ _ R), (csv_labels_stated _ _ R) in H. cbn [bind] in H.
  destruct mo0 as [mname0|]; [|discriminate H].
  destruct (sget ty0 eqp) as [modes|] eqn:SG; [|discriminate H].
  destruct (find (fun r => String.eqb (m_format r) mname0) modes) as [md|] eqn:FD; [|discriminate H].
  destruct M1 as (rx & pm & l & F & Jm & E & Hm).
  destruct (jsontopath_metric_full rx o l pm pdbm E Hm) as
    (m1 & m2 & m4 & lo & hi & p1 & p2 & p3 & j1 & j2 & j4 & j5 & j6 & j7 & j8 & j9 & q11 &
     Q1 & Q2 & Q4 & Q5 & Q6 & P1 & P2 & P3 & [R1 V1] & [R2 V2] & [R4 V4] & [R5 V5] & [R6 V6] & [R7 V7] &
     [R8 V8] & [R9 V9] & [R11 V11] & JM).
  rewrite Jm, JM in H. cbn [bind] in H.
  assert (ML : metric_list "path-metric" (JObj kv) = pm).
  { unfold metric_list, pp_field. cbn [response_pp]. rewrite NPP, N1, PPj, Jm. reflexivity. }
  exists rx, m1, m2, m4, lo, hi, p1, p2, p3.
  split; [exact F|]. split; [repeat split; assumption|]. rewrite ML.
  destruct (o_bidir o) eqn:BD.
  - destruct M2 as (rv & pm' & l' & F' & J' & E' & Hm').
    destruct (jsontopath_metric_full rv o l' pm' pdbm E' Hm') as
      (n1 & n2 & n4 & lo' & hi' & r1 & r2 & r3 & k1 & k2 & k4 & k5 & k6 & k7 & k8 & k9 & q11' &
       Q1' & Q2' & Q4' & Q5' & Q6' & P1' & P2' & P3' & [S1 W1] & [S2 W2] & [S4 W4] & [S5 W5] & [S6 W6] & [S7 W7] &
       [S8 W8] & [S9 W9] & _ & JM').
    rewrite J', JM' in H. cbn [bind] in H. injection H as <-.
    assert (ML' : metric_list "z-a-path-metric" (JObj kv) = pm').
    { unfold metric_list, pp_field. cbn [response_pp]. rewrite NPP, N1, PPj, J'. reflexivity. }
    split; [unfold metric_columns; cbn [append];
            repeat split; [solve_prints R4 V4|solve_prints R2 V2|solve_prints R1 V1|solve_prints R5 V5|
                           solve_prints R6 V6|solve_prints R7 V7|solve_prints R8 V8|solve_prints R9 V9]|].
    split; [sget_simp; reflexivity|]. split; [sget_simp; reflexivity|].
    exists rv, n1, n2, n4, lo', hi', r1, r2, r3. split; [exact F'|]. split; [repeat split; assumption|].
    rewrite ML'. unfold metric_columns. cbn [append].
    repeat split; [solve_prints S4 W4|solve_prints S2 W2|solve_prints S1 W1|solve_prints S5 W5|
                   solve_prints S6 W6|solve_prints S7 W7|solve_prints S8 W8|solve_prints S9 W9].
  - rewrite M2 in H. cbn [bind] in H. injection H as <-.
    split; [unfold metric_columns; cbn [append];
            repeat split; [solve_prints R4 V4|solve_prints R2 V2|solve_prints R1 V1|solve_prints R5 V5|
                           solve_prints R6 V6|solve_prints R7 V7|solve_prints R8 V8|solve_prints R9 V9]|].
    split; [sget_simp; reflexivity|]. split; [sget_simp; reflexivity|].
    unfold REV_FIELDS. repeat constructor; sget_simp; reflexivity.
Qed.
