(* C05, Raman on — proofs about Model/Raman.v at the instance NumR (Coq reals): perturbative solver of order 1
   (low-power bound, zero-coupling closed form with every lumped loss once, agreement with the Euler scheme in
   the zero-power limit), structure of the backward sweep of the iterative algorithm; PMD/PDL quadrature of a path. *)
From Coq Require Import Reals Lra Lia List ZArith Bool Permutation QArith Qreals.
Import ListNotations.
From Verif Require Import Prelude Num Model.Fiber Model.Raman Proofs.Fiber Proofs.FiberR.
Open Scope R_scope.


(* the model at the instance NumR, with the projections reduced *)
Notation pertR := (@pert_profile NumR).

Lemma neqb_R : forall a b : R, @neqb NumR a b = true -> a = b.
Proof.
  intros a b H. unfold neqb in H. numR. unfold Rleb in H.
  destruct (Rle_dec a b); destruct (Rle_dec b a); try discriminate. lra.
Qed.

(* ---------- effective length ---------- *)
Lemma eff_bounds : forall a z, 0 < a -> 0 <= z -> 0 <= 1 / a * (1 - exp (- (a * z))) <= z.
Proof.
  intros a z Ha Hz. assert (0 < / a) as Hi by (apply Rinv_0_lt_compat; exact Ha).
  assert (exp (- (a * z)) <= 1) as H1.
  { rewrite <- exp_0. destruct (Req_dec (- (a * z)) 0) as [->|Hne]; [lra|]. left. apply exp_increasing. nra. }
  assert (1 - a * z <= exp (- (a * z))) as H2.
  { pose proof (exp_ineq1_le (- (a * z))). lra. }
  split.
  - unfold Rdiv. rewrite Rmult_1_l. apply Rmult_le_pos; lra.
  - unfold Rdiv. rewrite Rmult_1_l. apply Rmult_le_reg_l with a; [exact Ha|].
    rewrite <- Rmult_assoc, Rinv_r, Rmult_1_l by lra. lra.
Qed.

Lemma eff_lengths_map : forall alpha z,
  @eff_lengths NumR alpha z = map (fun a => 1 / a * (1 - exp (- (a * z)))) alpha.
Proof.
  intros alpha z. unfold eff_lengths, expz, vmap2. numR.
  induction alpha as [|a t IH]; [reflexivity|]. cbn [map combine fst snd]. f_equal. exact IH.
Qed.

Definition sumabs (l : list R) : R := fold_right (fun x s => Rabs x + s) 0 l.
Lemma sumabs_nonneg : forall l, 0 <= sumabs l.
Proof. induction l as [|x t IH]; cbn [sumabs fold_right]; [lra|]. fold (sumabs t). pose proof (Rabs_pos x). lra. Qed.

(* first-order Raman term of one wave: | sum_k cr_k p0_k Leff_k(z) | <= C * sum|p0| * z *)
Lemma gamma1_bound : forall C z, 0 <= C -> 0 <= z -> forall row p0 alpha,
  Forall (fun c => Rabs c <= C) row -> Forall (fun a => 0 < a) alpha ->
  Rabs (@ndot NumR (@vmap2 NumR Rmult row p0) (map (fun a => 1 / a * (1 - exp (- (a * z)))) alpha)) <= C * sumabs p0 * z.
Proof.
  intros C z HC Hz. unfold ndot, vmap2, nsum. numR.
  induction row as [|c row IH]; intros p0 alpha Hrow Hal; cbn [combine map fold_right].
  - rewrite Rabs_R0. pose proof (sumabs_nonneg p0). apply Rmult_le_pos; [apply Rmult_le_pos|]; assumption.
  - destruct p0 as [|p p0]; cbn [combine map fold_right].
    + rewrite Rabs_R0. cbn. lra.
    + destruct alpha as [|a alpha]; cbn [combine map fold_right fst snd].
      * rewrite Rabs_R0. pose proof (sumabs_nonneg (p :: p0)). apply Rmult_le_pos; [apply Rmult_le_pos|]; assumption.
      * inversion Hrow as [|c' r' Hc Hrow']; subst. inversion Hal as [|a' l' Ha Hal']; subst.
        specialize (IH p0 alpha Hrow' Hal'). cbn [sumabs fold_right]. fold (sumabs p0).
        eapply Rle_trans; [apply Rabs_triang|].
        destruct (eff_bounds a z Ha Hz) as [E0 E1]. set (e := 1 / a * (1 - exp (- (a * z)))) in *.
        rewrite !Rabs_mult. rewrite (Rabs_right e) by lra.
        assert (Rabs c * Rabs p * e <= C * Rabs p * z).
        { pose proof (Rabs_pos c) as Pc. pose proof (Rabs_pos p) as Pp.
          assert (Rabs c * Rabs p <= C * Rabs p) as H1 by (apply Rmult_le_compat_r; lra).
          assert (0 <= Rabs c * Rabs p) as H2 by (apply Rmult_le_pos; lra).
          apply Rmult_le_compat; lra. }
        lra.
Qed.

(* the order-1 exponent computed by pert_point *)
Definition exponent1 (alpha : list R) (cr : list (list R)) (p0 : list R) (z : R) : list R :=
  @vmap2 NumR Rplus (map (fun a => - (a * z)) alpha)
         (map (fun row => @ndot NumR row (@eff_lengths NumR alpha z)) (@crp NumR cr p0)).

Lemma pert_point_order1 : forall alpha cr st z,
  fst (@pert_point NumR 1 alpha cr st z) =
  @vmap2 NumR (fun p x => p * exp x) (ps_p0 st) (exponent1 alpha cr (ps_p0 st) (z - ps_z0 st)).
Proof. intros. reflexivity. Qed.

Lemma pert1_low_power : forall C z alpha cr p0, 0 <= C -> 0 <= z ->
  Forall (fun a => 0 < a) alpha -> Forall (Forall (fun c => Rabs c <= C)) cr ->
  forall j x a, nth_error (exponent1 alpha cr p0 z) j = Some x -> nth_error alpha j = Some a ->
  Rabs (x + a * z) <= C * sumabs p0 * z.
Proof.
  intros C z alpha cr p0 HC Hz Hal Hcr. unfold exponent1, crp, vmap2. numR. rewrite eff_lengths_map.
  set (E := map (fun a => 1 / a * (1 - exp (- (a * z)))) alpha).
  assert (forall row, Forall (fun c => Rabs c <= C) row ->
          Rabs (@ndot NumR (map (fun ab : R * R => fst ab * snd ab) (combine row p0)) E) <= C * sumabs p0 * z) as HB.
  { intros row Hrow. apply (gamma1_bound C z HC Hz row p0 alpha Hrow Hal). }
  clearbody E. clear Hal. revert cr Hcr. induction alpha as [|a0 alpha IH]; intros cr Hcr j x a Hx Ha.
  - destruct j; discriminate Ha.
  - destruct cr as [|row cr]; [destruct j; discriminate Hx|]. inversion Hcr as [|r' c' Hrow Hcr']; subst.
    destruct j as [|j]; cbn [map combine nth_error fst snd] in Hx, Ha.
    + injection Hx as <-. injection Ha as <-.
      pose proof (HB row Hrow) as HBr. revert HBr.
      match goal with |- Rabs ?g <= _ -> _ => generalize g end. intros g0 HBr. change (NT NumR) with R in g0.
      replace (- (a0 * z) + g0 + a0 * z) with g0 by ring. exact HBr.
    + apply (IH cr Hcr' j x a Hx Ha).
Qed.


(* ---------- zero coupling: the perturbative profile is plain attenuation times the lumped losses passed so far,
   each lumped loss exactly once ---------- *)
Fixpoint pert_closed (alpha p : list R) (grid : list (R * R)) (K : R) : list (list R) :=
  match grid with
  | [] => []
  | (z, ll) :: t => @vmap2 NumR (fun pj a => pj * K * exp (- (a * z))) p alpha :: pert_closed alpha p t (K * ll)
  end.

Lemma ndot_zero_row : forall row p0 E, Forall (eq 0) row -> @ndot NumR (@vmap2 NumR Rmult row p0) E = 0.
Proof.
  unfold ndot, vmap2, nsum. numR. induction row as [|c row IH]; intros p0 E H; [reflexivity|].
  destruct p0 as [|p p0]; [reflexivity|]. destruct E as [|e E]; [reflexivity|].
  inversion H as [|c' r' Hc Hr]; subst. cbn [combine map fold_right fst snd]. rewrite (IH p0 E Hr). ring.
Qed.

Lemma point_zero : forall K z0 zeta P0 E alpha p cr,
  Forall (Forall (eq 0)) cr -> length cr = length alpha -> length p = length alpha ->
  @vmap2 NumR (fun q x => q * exp x)
     (@vmap2 NumR (fun pj a => pj * K * exp (- (a * z0))) p alpha)
     (@vmap2 NumR Rplus (map (fun a => - (a * zeta)) alpha)
        (map (fun row => @ndot NumR row E) (map (fun row => @vmap2 NumR Rmult row P0) cr)))
  = @vmap2 NumR (fun pj a => pj * K * exp (- (a * (z0 + zeta)))) p alpha.
Proof.
  intros K z0 zeta P0 E. unfold vmap2. change (NT NumR) with R in *. induction alpha as [|a alpha IH]; intros p cr Hz Hc Hp.
  - destruct p; [reflexivity|discriminate Hp].
  - destruct p as [|q p]; [discriminate Hp|]. destruct cr as [|row cr]; [discriminate Hc|].
    inversion Hz as [|r' c' Hrow Hcr]; subst. cbn [map combine fst snd]. f_equal.
    + pose proof (ndot_zero_row row P0 E Hrow) as H0. unfold vmap2 in H0. change (NT NumR) with R in H0. rewrite H0.
      replace (- (a * (z0 + zeta))) with (- (a * z0) + (- (a * zeta) + 0)) by ring. rewrite (exp_plus (- (a * z0))). ring.
    + apply IH; cbn [length] in *; try lia; assumption.
Qed.

Lemma vmap2_scale : forall K z ll (p alpha : list R),
  map (fun x => x * ll) (@vmap2 NumR (fun pj a => pj * K * exp (- (a * z))) p alpha) =
  @vmap2 NumR (fun pj a => pj * (K * ll) * exp (- (a * z))) p alpha.
Proof.
  intros. unfold vmap2. change (NT NumR) with R in *. rewrite map_map. apply map_ext. intros [q a]. cbn [fst snd]. ring.
Qed.

Lemma pert_walk_zero : forall (alpha p : list R) (cr : list (list R)), Forall (Forall (eq 0)) cr -> length cr = length alpha -> length p = length alpha ->
  forall (grid : list (R * R)) (st : @pstate NumR) (K : R), ps_p0 st = @vmap2 NumR (fun pj a => pj * K * exp (- (a * ps_z0 st))) p alpha ->
  @pert_walk NumR 1 alpha cr st grid = pert_closed alpha p grid K.
Proof.
  intros alpha p cr Hz Hc Hp. induction grid as [|[z ll] t IH]; intros st K Hst; [reflexivity|].
  cbn [pert_walk pert_closed].
  assert (fst (@pert_point NumR 1 alpha cr st z) = @vmap2 NumR (fun pj a => pj * K * exp (- (a * z))) p alpha) as Hpw.
  { rewrite pert_point_order1. unfold exponent1, crp. rewrite Hst. numR.
    rewrite (point_zero K (ps_z0 st) (z - ps_z0 st) _ _ alpha p cr Hz Hc Hp).
    unfold vmap2. apply map_ext. intros [q a]. cbn [fst snd]. f_equal. f_equal. f_equal. ring. }
  destruct (@pert_point NumR 1 alpha cr st z) as [pw st'] eqn:E. cbn [fst] in Hpw. subst pw.
  assert (ps_z0 st' = ps_z0 st /\ ps_p0 st' = ps_p0 st) as [Hz0 Hp0].
  { unfold pert_point in E. injection E as _ <-. split; reflexivity. }
  f_equal. destruct (@neqb NumR ll (@none NumR)) eqn:En.
  - apply neqb_R in En. numR. subst ll. rewrite Rmult_1_r. apply IH. rewrite Hz0, Hp0. exact Hst.
  - apply IH. unfold seg_start. cbn [ps_p0 ps_z0]. numR. apply vmap2_scale.
Qed.

Theorem pert1_zero_coupling : forall (alpha p : list R) (cr : list (list R)) (grid : list (R * R)),
  Forall (Forall (eq 0)) cr -> length cr = length alpha -> length p = length alpha ->
  pertR 1%Z alpha cr grid p = pert_closed alpha p grid 1.
Proof.
  intros alpha p cr grid Hz Hc Hp. unfold pert_profile. apply pert_walk_zero; trivial.
  unfold seg_start. cbn [ps_p0 ps_z0]. numR. unfold vmap2. clear Hz Hc. revert p Hp.
  induction alpha as [|a alpha IH]; intros p Hp.
  - destruct p; [reflexivity|discriminate Hp].
  - destruct p as [|q p]; [discriminate Hp|]. cbn [map combine fst snd]. change (NT NumR) with R in *. apply (f_equal2 cons).
    + rewrite Rmult_0_r, Ropp_0, exp_0. ring.
    + apply IH. cbn [length] in Hp. lia.
Qed.

(* the factor carried at the last grid point is the product of the lumped losses of all points before it *)
Fixpoint prod_before_last (lls : list R) : R :=
  match lls with
  | [] => 1
  | l :: t => match t with [] => 1 | _ => l * prod_before_last t end
  end.

Lemma prod_before_last_cons : forall l x r, prod_before_last (l :: x :: r) = l * prod_before_last (x :: r).
Proof. reflexivity. Qed.

Lemma last_cons2 : forall A (a b : A) c d, last (a :: b :: c) d = last (b :: c) d.
Proof. reflexivity. Qed.

Lemma pert_closed_last : forall (alpha p : list R) (grid : list (R * R)) (K z ll : R),
  last (pert_closed alpha p (grid ++ [(z, ll)]) K) [] =
  @vmap2 NumR (fun pj a => pj * (K * prod_before_last (map snd (grid ++ [(z, ll)]))) * exp (- (a * z))) p alpha.
Proof.
  intros alpha p grid. induction grid as [|[z0 l0] t IH]; intros K z ll.
  - cbn [app pert_closed last map snd prod_before_last]. unfold vmap2. change (NT NumR) with R in *.
    apply map_ext. intros [q a]. cbn [fst snd]. ring.
  - change (((z0, l0) :: t) ++ [(z, ll)]) with ((z0, l0) :: (t ++ [(z, ll)])).
    destruct (t ++ [(z, ll)]) as [|[zx lx] r] eqn:Hx; [destruct t; discriminate Hx|].
    cbn [pert_closed]. rewrite last_cons2.
    specialize (IH (K * l0) z ll). rewrite Hx in IH. cbn [pert_closed] in IH. change (NT NumR) with R in *.
    rewrite IH. cbn [map snd]. rewrite prod_before_last_cons. unfold vmap2. change (NT NumR) with R in *.
    apply map_ext. intros [q a]. cbn [fst snd]. ring.
Qed.


(* ================================================================================================
   iterative algorithm: structure of the backward (counter-propagating) sweep *)
Lemma vmap2_vmap2 : forall (g h : R -> R -> R) (P A : list R),
  @vmap2 NumR g (@vmap2 NumR h P A) A = @vmap2 NumR (fun p a => g (h p a) a) P A.
Proof.
  intros g h. unfold vmap2. change (NT NumR) with R in *. induction P as [|p P IH]; intros A; [reflexivity|].
  destruct A as [|a A]; [reflexivity|]. cbn [combine map fst snd]. f_equal. apply IH.
Qed.

Lemma vmap2_ext : forall (f g : R -> R -> R) (P A : list R), (forall p a, f p a = g p a) ->
  @vmap2 NumR f P A = @vmap2 NumR g P A.
Proof. intros f g P A H. unfold vmap2. apply map_ext. intros [p a]. apply H. Qed.

Lemma vmap2_length : forall (f : R -> R -> R) (P A : list R), length P = length A -> length (@vmap2 NumR f P A) = length A.
Proof. intros. unfold vmap2. rewrite map_length, combine_length. change (NT NumR) with R in *. lia. Qed.

Lemma skipn_vmap2 : forall (f : R -> R -> R) n (P A : list R),
  skipn n (@vmap2 NumR f P A) = @vmap2 NumR f (skipn n P) (skipn n A).
Proof.
  intros f. unfold vmap2. change (NT NumR) with R in *. induction n as [|n IH]; intros P A; [reflexivity|].
  destruct P as [|p P]; [reflexivity|]. destruct A as [|a A]; [cbn [skipn combine map]; destruct (skipn n P); reflexivity|].
  cbn [skipn combine map]. apply IH.
Qed.

Lemma ndot_zero_row' : forall (row S : list R), Forall (eq 0) row -> @ndot NumR row S = 0.
Proof.
  unfold ndot, vmap2, nsum. numR. induction row as [|c row IH]; intros S H; [reflexivity|].
  destruct S as [|s S]; [reflexivity|]. inversion H as [|c' r' Hc Hr]; subst.
  cbn [combine map fold_right fst snd]. rewrite (IH S Hr). ring.
Qed.

Lemma step_col_zero : forall (alpha : list R) (cr : list (list R)) (src : list R) (d l : R),
  Forall (Forall (eq 0)) cr -> length cr = length alpha ->
  @step_col NumR alpha cr src d l = @vmap2 NumR (fun p a => p * (1 + (- a + 0) * d) * l) src alpha.
Proof.
  intros alpha cr src d l Hz Hc. unfold step_col, vmap2. numR. change (NT NumR) with R in *.
  generalize src at 1 as S. intros S. revert alpha cr Hz Hc. induction src as [|p src IH]; intros alpha cr Hz Hc; [reflexivity|].
  destruct alpha as [|a alpha]; [reflexivity|]. destruct cr as [|row cr]; [discriminate Hc|].
  inversion Hz as [|r' c' Hrow Hcr]; subst. cbn [combine map fst snd]. f_equal.
  - rewrite (ndot_zero_row' row S Hrow). reflexivity.
  - apply IH; cbn [length] in *; try lia; assumption.
Qed.

Lemma skipn_firstn_app : forall A (n : nat) (c X : list A), (n <= length c)%nat -> skipn n (firstn n c ++ X) = X.
Proof.
  intros A n c X H. rewrite skipn_app, firstn_length_le by exact H. rewrite Nat.sub_diag. cbn [skipn].
  rewrite skipn_all2; [reflexivity|]. rewrite firstn_length_le by exact H. lia.
Qed.

(* zero coupling: the counter-propagating parts produced by the backward sweep, in the order of production *)
Fixpoint cumcols (P acnt : list R) (rest : list (list R)) (rdz rll : list R) : list (list R) :=
  match rest, rdz, rll with
  | _ :: r, d :: ds, l :: ls =>
      let P' := @vmap2 NumR (fun p a => p * (1 + (- a + 0) * d) * l) P acnt in
      P' :: cumcols P' acnt r ds ls
  | _, _, _ => []
  end.

Lemma bwd_from_zero : forall nco (alpha : list R) (cr : list (list R)),
  Forall (Forall (eq 0)) cr -> length cr = length alpha -> (nco <= length alpha)%nat ->
  forall (rest : list (list R)) (prev : list R) (rdz rll : list R),
  length prev = length alpha -> Forall (fun c => length c = length alpha) rest ->
  map (skipn nco) (@bwd_from NumR nco alpha cr prev rest rdz rll) = cumcols (skipn nco prev) (skipn nco alpha) rest rdz rll.
Proof.
  intros nco alpha cr Hz Hc Hn. induction rest as [|c rest IH]; intros prev rdz rll Hp Hr; [reflexivity|].
  destruct rdz as [|d rdz]; [reflexivity|]. destruct rll as [|l rll]; [reflexivity|].
  inversion Hr as [|c' r' Hlc Hrest]; subst. cbn [bwd_from cumcols map].
  rewrite step_col_zero by assumption.
  assert (skipn nco (firstn nco c ++ skipn nco (@vmap2 NumR (fun p a => p * (1 + (- a + 0) * d) * l) prev alpha)) =
          @vmap2 NumR (fun p a => p * (1 + (- a + 0) * d) * l) (skipn nco prev) (skipn nco alpha)) as Hs.
  { rewrite skipn_firstn_app by lia. apply skipn_vmap2. }
  change (NT NumR) with R in *. rewrite Hs. f_equal. rewrite IH; trivial.
  - change (NT NumR) with R in *. rewrite Hs. reflexivity.
  - rewrite app_length, firstn_length_le, skipn_length, vmap2_length by lia. lia.
Qed.

(* ... in closed form: after i backward steps every counter-propagating wave carries the product of the factors
   (1 - alpha dz) * lumped of the i steps taken so far, i.e. of the LAST i steps of the grid, in reverse order *)
Fixpoint facs (F : R -> R) (rest : list (list R)) (rdz rll : list R) : list (R -> R) :=
  match rest, rdz, rll with
  | _ :: r, d :: ds, l :: ls =>
      let F' := fun a => F a * ((1 + (- a + 0) * d) * l) in
      F' :: facs F' r ds ls
  | _, _, _ => []
  end.

Lemma cumcols_facs : forall (A : list R) rest (P : list R) (F : R -> R) rdz rll,
  cumcols (@vmap2 NumR (fun p a => p * F a) P A) A rest rdz rll =
  map (fun G => @vmap2 NumR (fun p a => p * G a) P A) (facs F rest rdz rll).
Proof.
  intros A. induction rest as [|c rest IH]; intros P F rdz rll; [reflexivity|].
  destruct rdz as [|d rdz]; [reflexivity|]. destruct rll as [|l rll]; [reflexivity|].
  cbn [cumcols facs map]. rewrite vmap2_vmap2.
  assert (@vmap2 NumR (fun p a => p * F a * (1 + (- a + 0) * d) * l) P A =
          @vmap2 NumR (fun p a => p * (F a * ((1 + (- a + 0) * d) * l))) P A) as -> by (apply vmap2_ext; intros; ring).
  f_equal. apply IH.
Qed.

Lemma vmap2_one : forall (P A : list R), length P = length A -> P = @vmap2 NumR (fun p a => p * 1) P A.
Proof.
  unfold vmap2. change (NT NumR) with R in *. induction P as [|p P IH]; intros A H; destruct A as [|a A]; try discriminate H; [reflexivity|].
  cbn [combine map fst snd]. f_equal; [ring|]. apply IH. cbn [length] in H. lia.
Qed.

Theorem bwd_sweep_zero_coupling : forall nco (alpha : list R) (cr : list (list R)) (cols : list (list R)) (dz ll : list R)
  (cl : list R) (rest : list (list R)),
  Forall (Forall (eq 0)) cr -> length cr = length alpha -> (nco <= length alpha)%nat ->
  rev cols = cl :: rest -> Forall (fun c => length c = length alpha) cols ->
  map (skipn nco) (@bwd_sweep NumR nco alpha cr cols dz ll) =
  rev (map (fun G => @vmap2 NumR (fun p a => p * G a) (skipn nco cl) (skipn nco alpha))
           ((fun _ => 1) :: facs (fun _ => 1) rest (rev dz) (rev ll))).
Proof.
  intros nco alpha cr cols dz ll cl rest Hz Hc Hn Hrev Hlen. unfold bwd_sweep. change (NT NumR) with R in *. rewrite Hrev.
  assert (Forall (fun c => length c = length alpha) (cl :: rest)) as Hl.
  { rewrite <- Hrev. rewrite Forall_forall in *. intros c Hin. apply Hlen. apply in_rev. exact Hin. }
  inversion Hl as [|c' r' Hcl Hrest]; subst.
  rewrite map_rev. f_equal. cbn [map]. rewrite bwd_from_zero by assumption.
  assert (length (skipn nco cl) = length (skipn nco alpha)) as Hsk by (rewrite !skipn_length; lia).
  rewrite (vmap2_one (skipn nco cl) (skipn nco alpha) Hsk) at 1 2.
  rewrite cumcols_facs. reflexivity.
Qed.

(* the step lengths of the mirrored grid (positions measured from the far end) are those of the grid, reversed:
   what the backward sweep consumes, rev (dzs z), is the forward step sequence seen from the other end *)
Lemma dzs_cons2 : forall (a b : R) t, @dzs NumR (a :: b :: t) = (b - a) :: @dzs NumR (b :: t).
Proof. reflexivity. Qed.

Lemma dzs_snoc : forall (l : list R) x y, @dzs NumR (l ++ [x; y]) = @dzs NumR (l ++ [x]) ++ [y - x].
Proof.
  induction l as [|c l IH]; intros x y; [reflexivity|].
  destruct l as [|c2 l'].
  - reflexivity.
  - change ((c :: c2 :: l') ++ [x; y]) with (c :: c2 :: (l' ++ [x; y])).
    change ((c :: c2 :: l') ++ [x]) with (c :: c2 :: (l' ++ [x])).
    rewrite !dzs_cons2. change (c2 :: l' ++ [x; y]) with ((c2 :: l') ++ [x; y]).
    change (c2 :: l' ++ [x]) with ((c2 :: l') ++ [x]). rewrite IH. reflexivity.
Qed.

Theorem dzs_mirror : forall (L : R) (z : list R), @dzs NumR (map (fun x => L - x) (rev z)) = rev (@dzs NumR z).
Proof.
  intros L. induction z as [|a z IH]; [reflexivity|]. destruct z as [|b t]; [reflexivity|].
  rewrite dzs_cons2. cbn [rev]. cbn [rev] in IH. rewrite <- app_assoc. cbn [app].
  rewrite map_app. cbn [map]. rewrite dzs_snoc. 
  change (map (fun x => L - x) (rev t) ++ [L - b]) with (map (fun x => L - x) (rev t) ++ map (fun x => L - x) [b]).
  rewrite <- map_app, IH. replace (L - a - (L - b)) with (b - a) by ring. reflexivity.
Qed.

(* every step length is used exactly once by the backward sweep *)
Theorem bwd_steps_once : forall (z : list R), Permutation (rev (@dzs NumR z)) (@dzs NumR z).
Proof. intros z. apply Permutation_sym, Permutation_rev. Qed.


(* end value of the order-1 perturbative profile at zero coupling: every lumped loss before the end, once *)
Theorem pert1_end_value : forall (alpha p : list R) (cr : list (list R)) (g : list (R * R)) (z ll : R),
  Forall (Forall (eq 0)) cr -> length cr = length alpha -> length p = length alpha ->
  last (pertR 1%Z alpha cr (g ++ [(z, ll)]) p) [] =
  @vmap2 NumR (fun pj a => pj * (1 * prod_before_last (map snd (g ++ [(z, ll)]))) * exp (- (a * z))) p alpha.
Proof. intros. rewrite pert1_zero_coupling by assumption. apply pert_closed_last. Qed.

(* ---------- agreement of the perturbative (order 1) and Euler schemes in the zero-power limit ---------- *)
Lemma Q2R_qprod_removelast : forall grid : list (Q * Q),
  prod_before_last (map (fun zl => Q2R (snd zl)) grid) = Q2R (qprod (map snd (removelast grid))).
Proof.
  induction grid as [|[z0 l0] t IH]; [cbn; symmetry; apply Q2R_1|].
  destruct t as [|[z1 l1] t']; [cbn; symmetry; apply Q2R_1|].
  rewrite removelast_step. cbn [map snd]. rewrite prod_before_last_cons, qprod_cons, Q2R_mult.
  f_equal. exact IH.
Qed.

Lemma last_default : forall A (l : list A) a d d', last (a :: l) d = last (a :: l) d'.
Proof.
  intros A. induction l as [|b l IH]; intros a d d'; [reflexivity|].
  change (last (a :: b :: l) d) with (last (b :: l) d). change (last (a :: b :: l) d') with (last (b :: l) d'). apply IH.
Qed.

Lemma rsum_dzs_telescope : forall (a : Q) (t : list (Q * Q)) z0 l0,
  rsum (map (fun dz => Q2R a * Q2R dz) (grid_dzs ((z0, l0) :: t))) =
  Q2R a * (Q2R (fst (last ((z0, l0) :: t) (z0, l0))) - Q2R z0).
Proof.
  intros a. induction t as [|[z1 l1] t IH]; intros z0 l0.
  - cbn. ring.
  - change (grid_dzs ((z0, l0) :: (z1, l1) :: t)) with ((z1 - z0)%Q :: grid_dzs ((z1, l1) :: t)).
    cbn [map rsum fold_right]. fold (rsum (map (fun dz => Q2R a * Q2R dz) (grid_dzs ((z1, l1) :: t)))).
    rewrite (IH z1 l1), Q2R_minus.
    change (last ((z0, l0) :: (z1, l1) :: t) (z0, l0)) with (last ((z1, l1) :: t) (z0, l0)).
    rewrite (last_default _ t (z1, l1) (z0, l0) (z1, l1)).
    ring.
Qed.

Theorem pert_euler_zero_power_agree : forall (a : Q) (t : list (Q * Q)) z0 l0,
  let grid := (z0, l0) :: t in
  Forall (fun dz => 0 <= Q2R a * Q2R dz <= 1 / 2) (grid_dzs grid) ->
  let L := Q2R (fst (last grid (z0, l0))) - Q2R z0 in
  let K := prod_before_last (map (fun zl => Q2R (snd zl)) grid) in
  let xs := map (fun dz => Q2R a * Q2R dz) (grid_dzs grid) in
  exists r, Q2R (grid_factor a grid) = r * (K * exp (- (Q2R a * L))) /\
            exp (- 2 * rsum (map (fun x => x * x) xs)) <= r <= 1.
Proof.
  intros a t z0 l0 grid HF L K xs.
  pose proof (euler_discretisation_bound a grid HF) as HB. cbv zeta in HB. fold xs in HB.
  assert (rsum xs = Q2R a * L) as Hs by (apply rsum_dzs_telescope).
  assert (0 < Q2R (step_prod a grid)) as Hpos.
  { rewrite step_prod_R. apply prod1m_pos. rewrite Forall_forall in *. intros x Hx.
    apply in_map_iff in Hx. destruct Hx as [dz [<- Hdz]]. apply HF; exact Hdz. }
  exists (Q2R (step_prod a grid) / exp (- (Q2R a * L))). split.
  - rewrite (Qeq_eqR _ _ (grid_factor_split a grid)), Q2R_mult. unfold K. rewrite Q2R_qprod_removelast.
    field. apply Rgt_not_eq, exp_pos.
  - assert (Q2R (step_prod a grid) / exp (- (Q2R a * L)) = exp (ln (Q2R (step_prod a grid)) + rsum xs)) as ->.
    { rewrite exp_plus, exp_ln by exact Hpos. rewrite Hs, exp_Ropp. field. apply Rgt_not_eq, exp_pos. }
    destruct HB as [H1 H2]. split.
    + destruct (Req_dec (- 2 * rsum (map (fun x => x * x) xs)) (ln (Q2R (step_prod a grid)) + rsum xs)) as [->|Hne]; [lra|].
      left. apply exp_increasing. lra.
    + rewrite <- exp_0. destruct (Req_dec (ln (Q2R (step_prod a grid)) + rsum xs) 0) as [->|Hne]; [lra|].
      left. apply exp_increasing. lra.
Qed.

(* ================================================================================================
   PMD / PDL of a path: the rational squared accumulators of the model are the squares of the code's
   sqrt(x**2 + c**2) accumulators, for fibres (PMD), amplifiers and ROADMs (PMD and PDL) alike *)
Theorem path_quadrature_R : forall (cs : list contrib) (a : acc),
  0 <= Q2R (a_pmd2 a) -> 0 <= Q2R (a_pdl2 a) ->
  Forall (fun c => 0 <= Q2R (d_pmd2 c) /\ 0 <= Q2R (d_pdl2 c)) cs ->
  sqrt (Q2R (a_pmd2 (accumulate cs a))) =
    quad_fold (map (fun c => sqrt (Q2R (d_pmd2 c))) cs) (sqrt (Q2R (a_pmd2 a))) /\
  sqrt (Q2R (a_pdl2 (accumulate cs a))) =
    quad_fold (map (fun c => sqrt (Q2R (d_pdl2 c))) cs) (sqrt (Q2R (a_pdl2 a))).
Proof.
  assert (forall (f : contrib -> Q) (cs : list contrib) (s : Q), 0 <= Q2R s -> Forall (fun c => 0 <= Q2R (f c)) cs ->
          sqrt (Q2R (fold_left (fun s c => (s + f c)%Q) cs s)) = quad_fold (map (fun c => sqrt (Q2R (f c))) cs) (sqrt (Q2R s))) as H.
  { intros f. induction cs as [|c t IH]; intros s Hs HF; [reflexivity|].
    inversion HF as [|c' t' Hc Ht]; subst. cbn [fold_left map quad_fold]. fold (quad_fold (map (fun c => sqrt (Q2R (f c))) t)).
    rewrite IH; trivial; [|rewrite Q2R_plus; lra]. f_equal. unfold quad_step.
    rewrite !sqrt_sqrt by assumption. rewrite Q2R_plus. reflexivity. }
  intros cs a Hpm Hpd HF. destruct (accumulate_pmd2_fold cs a) as [E1 E2]. rewrite E1, E2. split; apply H; trivial.
  - rewrite Forall_forall in *. intros c Hc. apply (HF c Hc).
  - rewrite Forall_forall in *. intros c Hc. apply (HF c Hc).
Qed.

(* the contributions of the model are non-negative (squares; coef^2 * length for a fibre) *)
Lemma elem_contrib_nonneg : forall pi e f c, elem_contrib pi e f = Ok c ->
  (forall fib, e = EFiber fib -> (0 <= len_m fib)%Q) ->
  0 <= Q2R (d_pmd2 c) /\ 0 <= Q2R (d_pdl2 c).
Proof.
  intros pi e f c H Hlen.
  assert (forall x : Q, 0 <= Q2R (sq x)) as Hsq.
  { intros x. unfold sq. rewrite Q2R_mult. nra. }
  assert (Q2R 0 = 0) as H0 by (unfold Q2R; cbn; field).
  destruct e as [fib|pmd pdl|pmd pdl|]; cbn [elem_contrib] in H.
  - destruct (fiber_check fib); cbn [bind] in H; [|discriminate].
    destruct (loss_coef_at fib f); cbn [bind] in H; [|discriminate].
    destruct (chromatic_dispersion pi fib f); cbn [bind] in H; [|discriminate].
    apply Ok_inj in H. subst c. cbn [d_pmd2 d_pdl2]. split; [|rewrite H0; lra].
    unfold fiber_pmd2. rewrite Q2R_mult. specialize (Hlen fib eq_refl). apply Qle_Rle in Hlen. rewrite H0 in Hlen.
    specialize (Hsq (f_pmd_coef fib)). nra.
  - apply Ok_inj in H. subst c. cbn [d_pmd2 d_pdl2]. split; apply Hsq.
  - destruct (band_lookup pmd f); cbn [bind] in H; [|discriminate].
    destruct (band_lookup pdl f); cbn [bind] in H; [|discriminate].
    apply Ok_inj in H. subst c. cbn [d_pmd2 d_pdl2]. split; apply Hsq.
  - apply Ok_inj in H. subst c. cbn [d_pmd2 d_pdl2]. rewrite H0. lra.
Qed.

Lemma dzs_mirror_once : forall (L : R) (z : list R),
  @dzs NumR (map (fun x => L - x) (rev z)) = rev (@dzs NumR z) /\ Permutation (rev (@dzs NumR z)) (@dzs NumR z).
Proof. intros. split; [apply dzs_mirror|apply bwd_steps_once]. Qed.
