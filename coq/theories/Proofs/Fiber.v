(* C05 — proofs about Model/Fiber.v *)
From Coq Require Import QArith Qminmax Lia Lqa ZifyBool Permutation Sorted SetoidList Morphisms.
From Verif Require Import Prelude Model.Fiber.
Open Scope Q_scope.

(* ================================================================================================
   0. small facts about qsum / qprod *)
Lemma qsum_cons : forall x l, qsum (x :: l) = x + qsum l.
Proof. reflexivity. Qed.
Lemma qprod_cons : forall x l, qprod (x :: l) = x * qprod l.
Proof. reflexivity. Qed.
Lemma qsum_nil : qsum [] = 0.
Proof. reflexivity. Qed.
Lemma qprod_nil : qprod [] = 1.
Proof. reflexivity. Qed.

Lemma qsum_app : forall l1 l2, qsum (l1 ++ l2) == qsum l1 + qsum l2.
Proof.
  induction l1 as [|x t IH]; intros l2; cbn [app].
  - rewrite qsum_nil. ring.
  - rewrite !qsum_cons, IH. ring.
Qed.

Lemma qprod_app : forall l1 l2, qprod (l1 ++ l2) == qprod l1 * qprod l2.
Proof.
  induction l1 as [|x t IH]; intros l2; cbn [app].
  - rewrite qprod_nil. ring.
  - rewrite !qprod_cons, IH. ring.
Qed.

Lemma qsum_perm : forall l l', Permutation l l' -> qsum l == qsum l'.
Proof.
  induction 1 as [|x l l' HP IH|x y l|l l' l'' HP1 IH1 HP2 IH2].
  - reflexivity.
  - rewrite !qsum_cons, IH. reflexivity.
  - rewrite !qsum_cons. ring.
  - rewrite IH1. exact IH2.
Qed.

Lemma qprod_perm : forall l l', Permutation l l' -> qprod l == qprod l'.
Proof.
  induction 1 as [|x l l' HP IH|x y l|l l' l'' HP1 IH1 HP2 IH2].
  - reflexivity.
  - rewrite !qprod_cons, IH. reflexivity.
  - rewrite !qprod_cons. ring.
  - rewrite IH1. exact IH2.
Qed.

(* ================================================================================================
   1. _create_lumped_losses: the merged grid keeps exactly the first occurrence of every position *)

(* first occurrences (w.r.t. ==) of the keys of l that are not in seen *)
Definition seenb (s : list Q) (k : Q) : bool := existsb (Qeq_bool k) s.
Fixpoint firsts {V : Type} (s : list Q) (l : list (Q * V)) : list (Q * V) :=
  match l with
  | [] => []
  | (k, v) :: t => if seenb s k then firsts s t else (k, v) :: firsts (k :: s) t
  end.
(* the keys ks are pairwise distinct and none is in s *)
Fixpoint fresh (s : list Q) (ks : list Q) : bool :=
  match ks with
  | [] => true
  | k :: t => negb (seenb s k) && fresh (k :: s) t
  end.
Definition distinct_positions (ks : list Q) : bool := fresh [] ks.

Definition klt {V : Type} (a b : Q * V) : Prop := fst a < fst b.

Lemma seenb_true : forall s k, seenb s k = true <-> exists x, In x s /\ k == x.
Proof.
  intros s k. unfold seenb. rewrite existsb_exists. split; intros [x [Hin Hx]]; exists x; split; trivial.
  - apply Qeq_bool_iff; exact Hx.
  - apply Qeq_bool_iff; exact Hx.
Qed.

Lemma seenb_ext : forall s1 s2, (forall k, seenb s1 k = seenb s2 k) ->
  forall k x, seenb (x :: s1) k = seenb (x :: s2) k.
Proof. intros s1 s2 H k x. unfold seenb in *. cbn [existsb]. rewrite (H k). reflexivity. Qed.

Lemma firsts_ext : forall V (l : list (Q * V)) s1 s2, (forall k, seenb s1 k = seenb s2 k) ->
  firsts s1 l = firsts s2 l.
Proof.
  induction l as [|[k v] t IH]; intros s1 s2 H; cbn [firsts]; trivial.
  rewrite (H k). destruct (seenb s2 k) eqn:E.
  - apply IH; exact H.
  - f_equal. apply IH. intros k'. apply seenb_ext; exact H.
Qed.

Lemma seenb_perm : forall s1 s2, Permutation s1 s2 -> forall k, seenb s1 k = seenb s2 k.
Proof.
  intros s1 s2 HP k. apply eq_true_iff_eq. rewrite !seenb_true.
  split; intros [x [Hin Hx]]; exists x; split; trivial.
  - eapply Permutation_in; eauto.
  - eapply Permutation_in; [apply Permutation_sym|]; eauto.
Qed.

Lemma seenb_compat : forall s k k', k == k' -> seenb s k = seenb s k'.
Proof.
  intros s k k' H. apply eq_true_iff_eq. rewrite !seenb_true.
  split; intros [x [Hin Hx]]; exists x; split; trivial.
  - rewrite <- H; exact Hx.
  - rewrite H; exact Hx.
Qed.

(* sortedness invariant of the accumulator *)
Lemma ins_first_hd : forall V (k : Q) (v : V) l a, (forall b, In b l -> klt a b) -> fst a < k ->
  forall b, In b (ins_first k v l) -> klt a b.
Proof.
  induction l as [|[k' v'] t IH]; intros a Hall Hk b Hin; cbn [ins_first] in Hin.
  - destruct Hin as [<-|[]]. exact Hk.
  - destruct (k ?= k') eqn:E.
    + apply Hall; exact Hin.
    + destruct Hin as [<-|Hin]; [exact Hk|apply Hall; exact Hin].
    + destruct Hin as [<-|Hin]; [apply Hall; left; reflexivity|].
      apply (IH a); trivial. intros b' Hb'. apply Hall. right; exact Hb'.
Qed.

Lemma ins_first_sorted : forall V (k : Q) (v : V) l, StronglySorted klt l -> StronglySorted klt (ins_first k v l).
Proof.
  induction l as [|[k' v'] t IH]; intros HS; cbn [ins_first].
  - constructor; [constructor|constructor].
  - inversion HS as [|a l' HSt Hall]; subst. destruct (k ?= k') eqn:E.
    + exact HS.
    + apply Qlt_alt in E. constructor; [exact HS|].
      constructor; [exact E|]. rewrite Forall_forall in *. intros b Hb. unfold klt in *; cbn [fst] in *.
      eapply Qlt_trans; [exact E|]. apply (Hall b Hb).
    + apply Qgt_alt in E. constructor; [apply IH; exact HSt|].
      rewrite Forall_forall in *. intros b Hb.
      eapply (ins_first_hd V k v t (k', v')); eauto.
Qed.

Lemma ins_first_seen : forall V (k : Q) (v : V) l, StronglySorted klt l -> seenb (map fst l) k = true ->
  ins_first k v l = l.
Proof.
  induction l as [|[k' v'] t IH]; intros HS Hs.
  - discriminate Hs.
  - inversion HS as [|a l' HSt Hall]; subst. cbn [ins_first]. destruct (k ?= k') eqn:E; trivial.
    + exfalso. apply Qlt_alt in E. apply seenb_true in Hs. destruct Hs as [x [Hin Hx]].
      cbn [map fst] in Hin. destruct Hin as [<-|Hin].
      * rewrite Hx in E. exact (Qlt_irrefl _ E).
      * apply in_map_iff in Hin. destruct Hin as [b [<- Hb]]. rewrite Forall_forall in Hall.
        specialize (Hall b Hb). unfold klt in Hall; cbn [fst] in Hall. rewrite Hx in E.
        exact (Qlt_irrefl _ (Qlt_trans _ _ _ E Hall)).
    + f_equal. apply IH; trivial. apply Qgt_alt in E. apply seenb_true in Hs. apply seenb_true.
      destruct Hs as [x [Hin Hx]]. cbn [map fst] in Hin. destruct Hin as [<-|Hin].
      * exfalso. rewrite Hx in E. exact (Qlt_irrefl _ E).
      * exists x; split; trivial.
Qed.

Lemma ins_first_new : forall V (k : Q) (v : V) l, seenb (map fst l) k = false ->
  Permutation (ins_first k v l) ((k, v) :: l).
Proof.
  induction l as [|[k' v'] t IH]; intros Hs; cbn [ins_first].
  - apply Permutation_refl.
  - destruct (k ?= k') eqn:E.
    + exfalso. apply Qeq_alt in E. assert (seenb (map fst ((k', v') :: t)) k = true) as H.
      { apply seenb_true. exists k'. split; [left; reflexivity|exact E]. }
      rewrite H in Hs; discriminate.
    + apply Permutation_refl.
    + eapply Permutation_trans; [apply perm_skip; apply IH|apply perm_swap].
      unfold seenb in *. cbn [map fst existsb] in Hs. apply orb_false_iff in Hs. tauto.
Qed.

Lemma merge_fold_perm : forall V (l : list (Q * V)) acc, StronglySorted klt acc ->
  Permutation (fold_left (fun a kv => ins_first (fst kv) (snd kv) a) l acc) (acc ++ firsts (map fst acc) l).
Proof.
  induction l as [|[k v] t IH]; intros acc HS; cbn [fold_left firsts fst snd].
  - rewrite app_nil_r. apply Permutation_refl.
  - destruct (seenb (map fst acc) k) eqn:E.
    + rewrite ins_first_seen; trivial. apply IH; exact HS.
    + eapply Permutation_trans; [apply IH; apply ins_first_sorted; exact HS|].
      pose proof (ins_first_new V k v acc E) as HP.
      rewrite (firsts_ext V t (map fst (ins_first k v acc)) (k :: map fst acc)).
      * eapply Permutation_trans; [apply Permutation_app_tail; exact HP|].
        cbn [app]. apply Permutation_middle.
      * apply seenb_perm. change (k :: map fst acc) with (map fst ((k, v) :: acc)).
        apply Permutation_map; exact HP.
Qed.

(* the merged grid is a permutation of the first occurrences: nothing else is lost or invented *)
Lemma merge_list_perm : forall V (l : list (Q * V)), Permutation (merge_list l) (firsts [] l).
Proof. intros V l. unfold merge_list. apply (merge_fold_perm V l []). constructor. Qed.

Lemma merge_list_sorted_gen : forall V (l : list (Q * V)) acc, StronglySorted klt acc ->
  StronglySorted klt (fold_left (fun a kv => ins_first (fst kv) (snd kv) a) l acc).
Proof.
  induction l as [|[k v] t IH]; intros acc HS; cbn [fold_left]; trivial.
  apply IH. apply ins_first_sorted; exact HS.
Qed.
Lemma merge_list_sorted : forall V (l : list (Q * V)), StronglySorted klt (merge_list l).
Proof. intros. apply merge_list_sorted_gen. constructor. Qed.

(* with fresh keys nothing is dropped *)
Lemma firsts_fresh : forall V (l : list (Q * V)) s, fresh s (map fst l) = true -> firsts s l = l.
Proof.
  induction l as [|[k v] t IH]; intros s H; cbn [firsts]; trivial.
  cbn [map fst fresh] in H. apply andb_true_iff in H. destruct H as [H1 H2].
  apply negb_true_iff in H1. rewrite H1. f_equal. apply IH; exact H2.
Qed.

Lemma firsts_app : forall V (l1 l2 : list (Q * V)) s,
  firsts s (l1 ++ l2) = firsts s l1 ++ firsts (rev (map fst (firsts s l1)) ++ s) l2.
Proof.
  induction l1 as [|[k v] t IH]; intros l2 s; cbn [firsts app]; trivial.
  destruct (seenb s k) eqn:E.
  - apply IH.
  - cbn [app map fst rev]. f_equal. rewrite IH. f_equal. rewrite <- app_assoc. reflexivity.
Qed.

Lemma firsts_const : forall V (one : V) (z : list Q) s,
  Forall (fun kv => snd kv = one) (firsts s (map (fun x => (x, one)) z)).
Proof.
  induction z as [|x t IH]; intros s; cbn [map firsts]; [constructor|].
  destruct (seenb s x); [apply IH|constructor; [reflexivity|apply IH]].
Qed.

Lemma qsum_zeros : forall l : list (Q * Q), Forall (fun kv => snd kv = 0) l -> qsum (map snd l) == 0.
Proof.
  induction 1 as [|x l Hx HF IH]; cbn [map]; [reflexivity|]. rewrite qsum_cons, Hx, IH. ring.
Qed.
Lemma qprod_ones : forall l : list (Q * Q), Forall (fun kv => snd kv = 1) l -> qprod (map snd l) == 1.
Proof.
  induction 1 as [|x l Hx HF IH]; cbn [map]; [reflexivity|]. rewrite qprod_cons, Hx, IH. ring.
Qed.

(* total of the merged grid, dB domain (neutral 0) and linear domain (neutral 1) *)
Lemma merge_total_db : forall zl z,
  qsum (map snd (merge_grid 0 zl z)) == qsum (map snd (firsts [] zl)).
Proof.
  intros zl z. unfold merge_grid.
  rewrite (qsum_perm _ _ (Permutation_map snd (merge_list_perm Q _))).
  rewrite firsts_app, map_app, qsum_app. rewrite (qsum_zeros _ (firsts_const Q 0 z _)). ring.
Qed.
Lemma merge_total_lin : forall zl z,
  qprod (map snd (merge_grid 1 zl z)) == qprod (map snd (firsts [] zl)).
Proof.
  intros zl z. unfold merge_grid.
  rewrite (qprod_perm _ _ (Permutation_map snd (merge_list_perm Q _))).
  rewrite firsts_app, map_app, qprod_app. rewrite (qprod_ones _ (firsts_const Q 1 z _)). ring.
Qed.

Lemma lumped_merge_db : forall zl z, distinct_positions (map fst zl) = true ->
  qsum (map snd (merge_grid 0 zl z)) == qsum (map snd zl).
Proof. intros zl z H. rewrite merge_total_db, firsts_fresh; [reflexivity|exact H]. Qed.
Lemma lumped_merge_lin : forall zl z, distinct_positions (map fst zl) = true ->
  qprod (map snd (merge_grid 1 zl z)) == qprod (map snd zl).
Proof. intros zl z H. rewrite merge_total_lin, firsts_fresh; [reflexivity|exact H]. Qed.

(* converse for strictly positive losses: a repeated position loses a strictly positive amount *)
Lemma firsts_le : forall (l : list (Q * Q)) s, Forall (fun kv => 0 < snd kv) l ->
  qsum (map snd (firsts s l)) <= qsum (map snd l).
Proof.
  induction l as [|[k v] t IH]; intros s HF; cbn [firsts map]; [apply Qle_refl|].
  inversion HF as [|a l' Hv HFt]; subst. cbn [snd] in Hv. specialize (IH s HFt) as IHs.
  destruct (seenb s k).
  - rewrite qsum_cons. cbn [snd]. lra.
  - cbn [map snd]. rewrite !qsum_cons. specialize (IH (k :: s) HFt). lra.
Qed.
Lemma firsts_lt : forall (l : list (Q * Q)) s, Forall (fun kv => 0 < snd kv) l ->
  fresh s (map fst l) = false -> qsum (map snd (firsts s l)) < qsum (map snd l).
Proof.
  induction l as [|[k v] t IH]; intros s HF H; cbn [firsts map]; [discriminate H|].
  inversion HF as [|a l' Hv HFt]; subst. cbn [snd] in Hv.
  cbn [map fst fresh] in H. destruct (seenb s k) eqn:E.
  - rewrite qsum_cons. cbn [snd]. pose proof (firsts_le t s HFt). lra.
  - cbn [negb andb] in H. cbn [map snd]. rewrite !qsum_cons. specialize (IH (k :: s) HFt H). lra.
Qed.

Lemma lumped_merge_iff : forall zl z, Forall (fun kv => 0 < snd kv) zl ->
  (qsum (map snd (merge_grid 0 zl z)) == qsum (map snd zl) <-> distinct_positions (map fst zl) = true).
Proof.
  intros zl z HF. split.
  - intros H. destruct (distinct_positions (map fst zl)) eqn:E; trivial. exfalso.
    rewrite merge_total_db in H. pose proof (firsts_lt zl [] HF E) as Hlt. rewrite H in Hlt.
    exact (Qlt_irrefl _ Hlt).
  - apply lumped_merge_db.
Qed.

(* distinct_positions is pairwise distinctness up to == *)
Lemma fresh_spec : forall ks s, fresh s ks = true <->
  (NoDupA Qeq ks /\ forall k, InA Qeq k ks -> seenb s k = false).
Proof.
  induction ks as [|k t IH]; intros s; cbn [fresh].
  - split; [intros _; split; [constructor|intros k H; inversion H]|trivial].
  - rewrite andb_true_iff, negb_true_iff, IH. split.
    + intros [H1 [H2 H3]]. split.
      * constructor; trivial. intros Hin. specialize (H3 k Hin). unfold seenb in H3. cbn [existsb] in H3.
        apply orb_false_iff in H3. destruct H3 as [H3 _].
        assert (Qeq_bool k k = true) by (apply Qeq_bool_iff; reflexivity). congruence.
      * intros k' Hk'. inversion Hk' as [y l Heq|y l Hin]; subst.
        -- rewrite (seenb_compat s k' k Heq). exact H1.
        -- specialize (H3 k' Hin). unfold seenb in *. cbn [existsb] in H3. apply orb_false_iff in H3. tauto.
    + intros [HN Hs]. inversion HN as [|x l Hnin HNt]; subst. split; [|split]; trivial.
      * apply Hs. left. reflexivity.
      * intros k' Hk'. unfold seenb. cbn [existsb]. apply orb_false_iff. split.
        -- destruct (Qeq_bool k' k) eqn:E; trivial. exfalso. apply Qeq_bool_iff in E. apply Hnin.
           rewrite <- E. exact Hk'.
        -- apply (Hs k'). right. exact Hk'.
Qed.
Lemma distinct_positions_spec : forall ks, distinct_positions ks = true <-> NoDupA Qeq ks.
Proof.
  intros ks. unfold distinct_positions. rewrite fresh_spec. split; [tauto|].
  intros H. split; trivial.
Qed.

(* ================================================================================================
   2. the loss budget of a fibre span (Raman off) *)
Lemma seenb_scale : forall s k, seenb (map (fun z => z * 1000) s) (k * 1000) = seenb s k.
Proof.
  intros s k. apply eq_true_iff_eq. rewrite !seenb_true. split.
  - intros [x [Hin Hx]]. apply in_map_iff in Hin. destruct Hin as [y [<- Hy]]. exists y. split; trivial.
    apply Qmult_inj_r in Hx; trivial. discriminate.
  - intros [x [Hin Hx]]. exists (x * 1000). split; [apply (in_map (fun z => z * 1000)); exact Hin|rewrite Hx; reflexivity].
Qed.
Lemma fresh_scale : forall ks s, fresh (map (fun z => z * 1000) s) (map (fun z => z * 1000) ks) = fresh s ks.
Proof.
  induction ks as [|k t IH]; intros s; cbn [map fresh]; trivial.
  rewrite seenb_scale. f_equal. apply (IH (k :: s)).
Qed.
Lemma lumped_m_fst : forall fib, map fst (lumped_m fib) = map (fun z => z * 1000) (map fst (f_lumped fib)).
Proof. intros fib. unfold lumped_m. rewrite !map_map. reflexivity. Qed.
Lemma lumped_m_snd : forall fib, map snd (lumped_m fib) = map snd (f_lumped fib).
Proof. intros fib. unfold lumped_m. rewrite !map_map. reflexivity. Qed.
Lemma lumped_m_distinct : forall fib,
  distinct_positions (map fst (lumped_m fib)) = distinct_positions (map fst (f_lumped fib)).
Proof. intros fib. rewrite lumped_m_fst. unfold distinct_positions. apply (fresh_scale _ []). Qed.

(* what the span does in every case: duplicated positions count once (the first one) *)
Lemma fiber_power_general : forall fib f p a,
  lumped_in_range fib = true -> loss_coef_at fib f = Ok a ->
  exists out, fiber_power_out fib f p = Ok out /\
    out == p - (f_att_in fib + f_con_in fib + len_m fib * a
                + qsum (map snd (firsts [] (lumped_m fib))) + f_con_out fib).
Proof.
  intros fib f p a Hr Ha. unfold fiber_power_out, fiber_check. rewrite Hr. cbn [bind]. rewrite Ha. cbn [bind].
  eexists. split; [reflexivity|]. unfold attenuation_db. rewrite merge_total_db. ring.
Qed.

Lemma fiber_budget : forall fib f p a,
  lumped_in_range fib = true ->
  distinct_positions (map fst (f_lumped fib)) = true ->
  loss_coef_at fib f = Ok a ->
  exists out, fiber_power_out fib f p = Ok out /\ out == p - loss_budget fib a.
Proof.
  intros fib f p a Hr Hd Ha. destruct (fiber_power_general fib f p a Hr Ha) as [out [H1 H2]].
  exists out. split; trivial. rewrite H2. unfold loss_budget.
  rewrite firsts_fresh by (rewrite lumped_m_distinct; exact Hd). rewrite lumped_m_snd. ring.
Qed.

(* positive losses: the budget is met exactly when the positions are pairwise distinct *)
Lemma fiber_budget_iff : forall fib f p a out,
  lumped_in_range fib = true -> Forall (fun zl => 0 < snd zl) (f_lumped fib) ->
  loss_coef_at fib f = Ok a -> fiber_power_out fib f p = Ok out ->
  (out == p - loss_budget fib a <-> distinct_positions (map fst (f_lumped fib)) = true).
Proof.
  intros fib f p a out Hr Hpos Ha Hout. split.
  - intros Hb. destruct (fiber_power_general fib f p a Hr Ha) as [out' [H1 H2]].
    rewrite Hout in H1. injection H1 as <-. rewrite Hb in H2. unfold loss_budget in H2.
    destruct (distinct_positions (map fst (f_lumped fib))) eqn:E; trivial. exfalso.
    rewrite <- lumped_m_distinct in E.
    assert (Forall (fun kv => 0 < snd kv) (lumped_m fib)) as HF.
    { unfold lumped_m. rewrite Forall_forall in *. intros x Hx. apply in_map_iff in Hx.
      destruct Hx as [y [<- Hy]]. cbn [snd]. apply Hpos; exact Hy. }
    pose proof (firsts_lt (lumped_m fib) [] HF E) as Hlt. rewrite lumped_m_snd in Hlt. lra.
  - intros Hd. destruct (fiber_budget fib f p a Hr Hd Ha) as [out' [H1 H2]].
    rewrite Hout in H1. injection H1 as <-. exact H2.
Qed.

(* Fiber.loss (the figure the design uses) is the budget at the reference frequency *)
Lemma fiber_loss_prop_budget : forall fib a, loss_coef_at fib (f_ref fib) = Ok a ->
  exists l, fiber_loss_prop fib = Ok l /\ l == loss_budget fib a.
Proof.
  intros fib a Ha. unfold fiber_loss_prop. rewrite Ha. cbn [bind]. eexists. split; [reflexivity|].
  unfold loss_budget. ring.
Qed.

(* scalar loss coefficient *)
Lemma loss_coef_scalar : forall fib f v, f_loss fib = Scalar v -> loss_coef_at fib f = Ok (v / 1000).
Proof. intros fib f v H. unfold loss_coef_at. rewrite H. reflexivity. Qed.

(* a linear interpolation lies between the two knots that enclose the frequency *)
Lemma interp_sorted_between : forall pts x v, interp_sorted pts x = Ok v ->
  exists x0 y0 x1 y1, In (x0, y0) pts /\ In (x1, y1) pts /\ x0 <= x /\ x <= x1 /\ x0 < x1 /\
    Qmin y0 y1 <= v /\ v <= Qmax y0 y1.
Proof.
  induction pts as [|[x0 y0] t IH]; intros x v H; cbn [interp_sorted] in H; [discriminate|].
  destruct t as [|[x1 y1] t']; [discriminate|].
  destruct (Qle_bool x0 x && Qle_bool x x1) eqn:E.
  - destruct (Qeq_bool x0 x1) eqn:E2; [discriminate|]. injection H as <-.
    apply andb_true_iff in E. destruct E as [E0 E1]. apply Qle_bool_iff in E0, E1.
    assert (~ x0 == x1) as Hne by (intros Hc; apply Qeq_bool_iff in Hc; congruence).
    assert (x0 < x1) as Hlt.
    { destruct (Qlt_le_dec x0 x1) as [Hl|Hl]; trivial. exfalso. apply Hne. apply Qle_antisym; trivial.
      eapply Qle_trans; eauto. }
    exists x0, y0, x1, y1. repeat split; trivial; [left; reflexivity|right; left; reflexivity| |].
    + set (t := (x - x0) / (x1 - x0)).
      assert (0 <= t) as Ht0 by (unfold t; apply Qle_shift_div_l; lra).
      assert (t <= 1) as Ht1 by (unfold t; apply Qle_shift_div_r; lra).
      assert (y0 + (y1 - y0) / (x1 - x0) * (x - x0) == y0 + (y1 - y0) * t) as -> by (unfold t; field; lra).
      destruct (Q.min_spec y0 y1) as [[Hc ->]|[Hc ->]]; nra.
    + set (t := (x - x0) / (x1 - x0)).
      assert (0 <= t) as Ht0 by (unfold t; apply Qle_shift_div_l; lra).
      assert (t <= 1) as Ht1 by (unfold t; apply Qle_shift_div_r; lra).
      assert (y0 + (y1 - y0) / (x1 - x0) * (x - x0) == y0 + (y1 - y0) * t) as -> by (unfold t; field; lra).
      destruct (Q.max_spec y0 y1) as [[Hc ->]|[Hc ->]]; nra.
  - destruct (IH x v H) as [a0 [b0 [a1 [b1 [H1 [H2 H3]]]]]].
    exists a0, b0, a1, b1. repeat split; try tauto; right; tauto.
Qed.

(* ================================================================================================
   3. accumulation of CD, latency, PMD^2, PDL^2 along a path *)
Definition acc_eq (a b : acc) : Prop :=
  a_cd a == a_cd b /\ a_lat a == a_lat b /\ a_pmd2 a == a_pmd2 b /\ a_pdl2 a == a_pdl2 b.

Lemma accumulate_app : forall cs1 cs2 a, accumulate (cs1 ++ cs2) a = accumulate cs2 (accumulate cs1 a).
Proof. intros. unfold accumulate. apply fold_left_app. Qed.

Lemma accumulate_sums : forall cs a,
  a_cd (accumulate cs a) == a_cd a + qsum (map d_cd cs) /\
  a_lat (accumulate cs a) == a_lat a + qsum (map d_lat cs) /\
  a_pmd2 (accumulate cs a) == a_pmd2 a + qsum (map d_pmd2 cs) /\
  a_pdl2 (accumulate cs a) == a_pdl2 a + qsum (map d_pdl2 cs).
Proof.
  induction cs as [|c t IH]; intros a; cbn [accumulate fold_left map].
  - rewrite qsum_nil. repeat split; ring.
  - fold (accumulate t (add_contrib a c)). destruct (IH (add_contrib a c)) as [H1 [H2 [H3 H4]]].
    rewrite !qsum_cons, H1, H2, H3, H4. unfold add_contrib; cbn [a_cd a_lat a_pmd2 a_pdl2].
    repeat split; ring.
Qed.

Lemma accumulate_perm : forall cs cs' a, Permutation cs cs' -> acc_eq (accumulate cs a) (accumulate cs' a).
Proof.
  intros cs cs' a HP. destruct (accumulate_sums cs a) as [H1 [H2 [H3 H4]]].
  destruct (accumulate_sums cs' a) as [K1 [K2 [K3 K4]]]. unfold acc_eq.
  rewrite H1, H2, H3, H4, K1, K2, K3, K4.
  rewrite (qsum_perm _ _ (Permutation_map d_cd HP)), (qsum_perm _ _ (Permutation_map d_lat HP)),
          (qsum_perm _ _ (Permutation_map d_pmd2 HP)), (qsum_perm _ _ (Permutation_map d_pdl2 HP)).
  repeat split; reflexivity.
Qed.

Lemma mapM_app : forall A B (f : A -> res B) l1 l2 r1 r2,
  mapM f l1 = Ok r1 -> mapM f l2 = Ok r2 -> mapM f (l1 ++ l2) = Ok (r1 ++ r2).
Proof.
  induction l1 as [|x t IH]; intros l2 r1 r2 H1 H2; cbn [mapM app] in *.
  - injection H1 as <-. exact H2.
  - destruct (f x) as [y|e]; cbn [bind] in *; [|discriminate].
    destruct (mapM f t) as [r|e] eqn:E; cbn [bind] in *; [|discriminate].
    injection H1 as <-. rewrite (IH l2 r r2 eq_refl H2). reflexivity.
Qed.

Lemma mapM_app_inv : forall A B (f : A -> res B) l1 l2 r,
  mapM f (l1 ++ l2) = Ok r -> exists r1 r2, mapM f l1 = Ok r1 /\ mapM f l2 = Ok r2 /\ r = r1 ++ r2.
Proof.
  induction l1 as [|x t IH]; intros l2 r H; cbn [mapM app] in *.
  - exists [], r. repeat split; trivial.
  - destruct (f x) as [y|e]; cbn [bind] in *; [|discriminate].
    destruct (mapM f (t ++ l2)) as [r'|e] eqn:E; cbn [bind] in *; [|discriminate].
    injection H as <-. destruct (IH l2 r' E) as [r1 [r2 [H1 [H2 H3]]]].
    exists (y :: r1), r2. rewrite H1. cbn [bind]. repeat split; trivial. rewrite H3. reflexivity.
Qed.

Lemma mapM_perm : forall A B (f : A -> res B) l l', Permutation l l' ->
  forall r, mapM f l = Ok r -> exists r', mapM f l' = Ok r' /\ Permutation r r'.
Proof.
  induction 1 as [|x l l' HP IH|x y l|l l' l'' HP1 IH1 HP2 IH2]; intros r H.
  - exists r. split; trivial.
  - cbn [mapM] in *. destruct (f x) as [v|e]; cbn [bind] in *; [|discriminate].
    destruct (mapM f l) as [r0|e] eqn:E; cbn [bind] in *; [|discriminate]. injection H as <-.
    destruct (IH r0 eq_refl) as [r' [H1 H2]]. rewrite H1. cbn [bind]. exists (v :: r'). split; trivial.
    apply perm_skip; exact H2.
  - cbn [mapM] in *. destruct (f y) as [vy|e]; cbn [bind] in *; [|discriminate].
    destruct (f x) as [vx|e]; cbn [bind] in *; [|discriminate].
    destruct (mapM f l) as [r0|e]; cbn [bind] in *; [|discriminate]. injection H as <-.
    exists (vx :: vy :: r0). split; trivial. apply perm_swap.
  - destruct (IH1 r H) as [r1 [H1 P1]]. destruct (IH2 r1 H1) as [r2 [H2 P2]].
    exists r2. split; trivial. eapply Permutation_trans; eauto.
Qed.

(* linear accumulation: the total after a path is the start value plus the sum of the contributions *)
Lemma path_totals : forall pi els f a r, propagate_path pi els f a = Ok r ->
  exists cs, mapM (fun e => elem_contrib pi e f) els = Ok cs /\
    a_cd r == a_cd a + qsum (map d_cd cs) /\ a_lat r == a_lat a + qsum (map d_lat cs) /\
    a_pmd2 r == a_pmd2 a + qsum (map d_pmd2 cs) /\ a_pdl2 r == a_pdl2 a + qsum (map d_pdl2 cs).
Proof.
  intros pi els f a r H. unfold propagate_path in H.
  destruct (mapM (fun e => elem_contrib pi e f) els) as [cs|e]; cbn [bind] in H; [|discriminate].
  injection H as <-. exists cs. split; trivial. apply accumulate_sums.
Qed.

(* two path segments in sequence = the second started from the result of the first *)
Lemma path_additive : forall pi els1 els2 f a r,
  propagate_path pi (els1 ++ els2) f a = Ok r <->
  exists r1, propagate_path pi els1 f a = Ok r1 /\ propagate_path pi els2 f r1 = Ok r.
Proof.
  intros pi els1 els2 f a r. unfold propagate_path. split.
  - intros H. destruct (mapM (fun e => elem_contrib pi e f) (els1 ++ els2)) as [cs|e] eqn:E;
      cbn [bind] in H; [|discriminate]. injection H as <-.
    destruct (mapM_app_inv _ _ _ _ _ _ E) as [r1 [r2 [H1 [H2 ->]]]].
    rewrite H1, H2. cbn [bind]. eexists. split; [reflexivity|]. rewrite accumulate_app. reflexivity.
  - intros [r1 [H1 H2]].
    destruct (mapM (fun e => elem_contrib pi e f) els1) as [c1|e] eqn:E1; cbn [bind] in H1; [|discriminate].
    destruct (mapM (fun e => elem_contrib pi e f) els2) as [c2|e] eqn:E2; cbn [bind] in H2; [|discriminate].
    injection H1 as <-. injection H2 as <-.
    rewrite (mapM_app _ _ _ _ _ c1 c2 E1 E2).
    cbn [bind]. rewrite accumulate_app. reflexivity.
Qed.

(* the order of the elements of a path is irrelevant for the accumulated values *)
Lemma path_perm : forall pi els els' f a r, Permutation els els' ->
  propagate_path pi els f a = Ok r ->
  exists r', propagate_path pi els' f a = Ok r' /\ acc_eq r r'.
Proof.
  intros pi els els' f a r HP H. unfold propagate_path in *.
  destruct (mapM (fun e => elem_contrib pi e f) els) as [cs|e] eqn:E; cbn [bind] in H; [|discriminate].
  injection H as <-. destruct (mapM_perm _ _ _ _ _ HP cs E) as [cs' [H1 H2]].
  rewrite H1. cbn [bind]. eexists. split; [reflexivity|]. apply accumulate_perm; exact H2.
Qed.

(* ================================================================================================
   4. chromatic dispersion of one span: pi cancels *)
Lemma c_light_nz : ~ c_light == 0.
Proof. unfold c_light. discriminate. Qed.

Lemma cd_scalar : forall pi fib f d, f_disp fib = DispScalar d None ->
  ~ pi == 0 -> ~ f == 0 -> ~ f_ref fib == 0 ->
  exists v, chromatic_dispersion pi fib f = Ok v /\ v == d * len_m fib.
Proof.
  intros pi fib f d Hd Hpi Hf Hr. unfold chromatic_dispersion, beta3, beta2, dispersion_at. rewrite Hd.
  cbn [bind]. eexists. split; [reflexivity|]. pose proof c_light_nz as Hc. rewrite !Qred_correct. unfold sq. field. auto.
Qed.

Definition cd_slope_closed (fib : fiber) (d s f : Q) : Q :=
  let fr := f_ref fib in
  let dl := d + s * (c_light / f - c_light / fr) in
  sq fr * (dl / sq f - (s + 2 * f * dl / c_light) * c_light * (f - fr) / (sq f * sq f)) * len_m fib.

Lemma cd_slope : forall pi fib f d s, f_disp fib = DispScalar d (Some s) ->
  ~ pi == 0 -> ~ f == 0 -> ~ f_ref fib == 0 ->
  exists v, chromatic_dispersion pi fib f = Ok v /\ v == cd_slope_closed fib d s f.
Proof.
  intros pi fib f d s Hd Hpi Hf Hr. unfold chromatic_dispersion, beta3, beta2, dispersion_at. rewrite Hd.
  cbn [bind]. eexists. split; [reflexivity|]. pose proof c_light_nz as Hc. rewrite !Qred_correct.
  unfold cd_slope_closed, sq, cube. field. auto.
Qed.

(* ================================================================================================
   5. Raman on, Euler ('numerical') solver: zero-power limit, each lumped loss once *)
Definition zipw {A B C : Type} (f : A -> B -> C) (l1 : list A) (l2 : list B) : list C :=
  map (fun ab => f (fst ab) (snd ab)) (combine l1 l2).

Lemma F2_refl : forall l, Forall2 Qeq l l.
Proof. induction l; constructor; [reflexivity|assumption]. Qed.
Lemma F2_sym : forall l l', Forall2 Qeq l l' -> Forall2 Qeq l' l.
Proof. induction 1; constructor; [symmetry|]; assumption. Qed.
Lemma F2_trans : forall l1 l2 l3, Forall2 Qeq l1 l2 -> Forall2 Qeq l2 l3 -> Forall2 Qeq l1 l3.
Proof.
  intros l1 l2 l3 H. revert l3. induction H as [|x y l l' Hxy HF IH]; intros l3 H3; inversion H3; subst; constructor.
  - rewrite Hxy; assumption.
  - apply IH; assumption.
Qed.
Lemma F2_length : forall l l', Forall2 Qeq l l' -> length l = length l'.
Proof. induction 1; cbn [length]; congruence. Qed.

Lemma zipw_length : forall A B C (f : A -> B -> C) l1 l2, length l1 = length l2 -> length (zipw f l1 l2) = length l1.
Proof. intros. unfold zipw. rewrite map_length, combine_length. lia. Qed.

Lemma zipw_zipw : forall (f h : Q -> Q -> Q) g al,
  zipw f (zipw h g al) al = zipw (fun gj aj => f (h gj aj) aj) g al.
Proof.
  induction g as [|x g IH]; intros al; [reflexivity|]. destruct al as [|a al]; [reflexivity|].
  unfold zipw in *. cbn [combine map fst snd]. f_equal. apply IH.
Qed.

Lemma zipw_ext : forall (f h : Q -> Q -> Q) g g' al, Forall2 Qeq g g' ->
  (forall x y a, x == y -> f x a == h y a) -> Forall2 Qeq (zipw f g al) (zipw h g' al).
Proof.
  intros f h g g' al HF Hfh. revert al. induction HF as [|x y l l' Hxy HF IH]; intros al.
  - constructor.
  - destruct al as [|a al]; [constructor|]. unfold zipw in *. cbn [combine map fst snd].
    constructor; [apply Hfh; exact Hxy|apply IH].
Qed.

Lemma dot_zero : forall r p, Forall (fun x => x == 0) p -> dot r p == 0.
Proof.
  unfold dot. induction r as [|a r IH]; intros p HF; [reflexivity|].
  destruct p as [|x p]; [reflexivity|]. inversion HF as [|x' p' Hx HFp]; subst.
  cbn [combine map fst snd]. rewrite qsum_cons, (IH p HFp), Hx. ring.
Qed.

Lemma powers_zero : forall p0 g, Forall (fun x => x == 0) p0 ->
  Forall (fun x => x == 0) (map (fun pg => fst pg * snd pg) (combine p0 g)).
Proof.
  induction p0 as [|x p0 IH]; intros g HF; [constructor|]. destruct g as [|y g]; [constructor|].
  inversion HF as [|x' p' Hx HFp]; subst. cbn [combine map fst snd]. constructor; [rewrite Hx; ring|apply IH; exact HFp].
Qed.

Lemma euler_step_g_length : forall alpha cr p0 dz ll g,
  length alpha = length g -> length cr = length g -> length (euler_step_g alpha cr p0 dz ll g) = length g.
Proof. intros. unfold euler_step_g. rewrite map_length, !combine_length. lia. Qed.

Lemma euler_step_g_zero : forall alpha cr p0 dz ll g g',
  Forall (fun x => x == 0) p0 -> Forall2 Qeq g g' -> length alpha = length cr ->
  Forall2 Qeq (euler_step_g alpha cr p0 dz ll g) (zipw (fun gj aj => gj * (1 - aj * dz) * ll) g' alpha).
Proof.
  intros alpha cr p0 dz ll g g' H0 HF Hl. unfold euler_step_g.
  pose proof (powers_zero p0 g H0) as HP. set (P := map (fun pg => fst pg * snd pg) (combine p0 g)) in *.
  clearbody P. revert alpha cr Hl. induction HF as [|x y l l' Hxy HF IH]; intros alpha cr Hl.
  - constructor.
  - destruct alpha as [|a alpha]; destruct cr as [|c cr]; try discriminate Hl; [constructor|].
    unfold zipw. cbn [combine map fst snd]. constructor.
    + rewrite !Qred_correct, (dot_zero c P HP), Hxy. ring.
    + apply IH. cbn [length] in Hl. lia.
Qed.

Lemma zipw_unit : forall (g alpha : list Q), length alpha = length g ->
  Forall2 Qeq g (zipw (fun gj aj => gj * 1) g alpha).
Proof.
  induction g as [|x g IH]; intros alpha Hl; [constructor|].
  destruct alpha as [|a alpha]; [discriminate Hl|]. unfold zipw in *. cbn [combine map fst snd].
  constructor; [ring|apply IH; cbn [length] in Hl; lia].
Qed.

Lemma grid_factor_step : forall a z0 l0 z1 l1 t,
  grid_factor a ((z0, l0) :: (z1, l1) :: t) = (1 - a * (z1 - z0)) * l0 * grid_factor a ((z1, l1) :: t).
Proof. reflexivity. Qed.

(* zero input power: every channel decouples and sees prod_k (1 - alpha_j dz_k) * lumped_k *)
Lemma euler_zero_power : forall alpha cr p0 grid g g',
  Forall (fun x => x == 0) p0 -> Forall2 Qeq g g' ->
  length alpha = length g -> length cr = length g ->
  Forall2 Qeq (euler_g alpha cr p0 grid g) (zipw (fun gj aj => gj * grid_factor aj grid) g' alpha).
Proof.
  intros alpha cr p0 grid. induction grid as [|[z0 l0] t IH]; intros g g' H0 HF Ha Hc.
  - cbn [euler_g grid_factor]. eapply F2_trans; [exact HF|]. apply zipw_unit.
    rewrite <- (F2_length _ _ HF). exact Ha.
  - destruct t as [|[z1 l1] t'].
    + cbn [euler_g grid_factor]. eapply F2_trans; [exact HF|]. apply zipw_unit.
      rewrite <- (F2_length _ _ HF). exact Ha.
    + cbn [euler_g].
      pose proof (euler_step_g_zero alpha cr p0 (z1 - z0) l0 g g' H0 HF ltac:(lia)) as Hs.
      eapply F2_trans.
      * apply (IH _ _ H0 Hs); rewrite euler_step_g_length; lia.
      * rewrite zipw_zipw. apply zipw_ext; [apply F2_refl|]. intros x y a Hxy. rewrite grid_factor_step, Hxy. ring.
Qed.

(* the zero-power factor = (Euler attenuation steps) * (lumped factor of every grid point but the last) *)
Fixpoint step_prod (a : Q) (grid : list (Q * Q)) : Q :=
  match grid with
  | [] => 1
  | (z0, _) :: t =>
      match t with
      | [] => 1
      | (z1, _) :: _ => (1 - a * (z1 - z0)) * step_prod a t
      end
  end.
Lemma step_prod_step : forall a z0 l0 z1 l1 t,
  step_prod a ((z0, l0) :: (z1, l1) :: t) = (1 - a * (z1 - z0)) * step_prod a ((z1, l1) :: t).
Proof. reflexivity. Qed.
Lemma removelast_step : forall (x y : Q * Q) t, removelast (x :: y :: t) = x :: removelast (y :: t).
Proof. reflexivity. Qed.

Lemma grid_factor_split : forall a grid,
  grid_factor a grid == step_prod a grid * qprod (map snd (removelast grid)).
Proof.
  intros a grid. induction grid as [|[z0 l0] t IH].
  - cbn. reflexivity.
  - destruct t as [|[z1 l1] t'].
    + cbn. reflexivity.
    + rewrite grid_factor_step, step_prod_step, removelast_step, IH.
      cbn [map snd]. rewrite qprod_cons. ring.
Qed.

Lemma firsts_incl : forall V (l : list (Q * V)) s x, In x (firsts s l) -> In x l.
Proof.
  induction l as [|[k v] t IH]; intros s x H; cbn [firsts] in H; [exact H|].
  destruct (seenb s k).
  - right. apply (IH s); exact H.
  - destruct H as [<-|H]; [left; reflexivity|right; apply (IH (k :: s)); exact H].
Qed.

Lemma firsts_covers : forall V (l : list (Q * V)) s kv, In kv l -> seenb s (fst kv) = false ->
  exists kv', In kv' (firsts s l) /\ fst kv' == fst kv.
Proof.
  induction l as [|[k v] t IH]; intros s kv Hin Hs; [destruct Hin|]. cbn [firsts].
  destruct (seenb s k) eqn:E.
  - destruct Hin as [<-|Hin]; [cbn [fst] in Hs; congruence|]. apply IH; assumption.
  - destruct Hin as [<-|Hin].
    + exists (k, v). split; [left; reflexivity|reflexivity].
    + destruct (Qeq_bool (fst kv) k) eqn:E2.
      * exists (k, v). split; [left; reflexivity|]. cbn [fst]. apply Qeq_bool_iff in E2. symmetry; exact E2.
      * destruct (IH (k :: s) kv Hin) as [kv' [H1 H2]].
        -- unfold seenb in *. cbn [existsb]. rewrite E2, Hs. reflexivity.
        -- exists kv'. split; [right; exact H1|exact H2].
Qed.

Lemma sorted_last : forall (l : list (Q * Q)) x, StronglySorted klt l -> In x l ->
  (forall y, In y l -> fst y <= fst x) -> exists l', l = l' ++ [x].
Proof.
  induction l as [|a t IH]; intros x HS Hin Hmax; [destruct Hin|].
  inversion HS as [|a' t' HSt Hall]; subst. destruct t as [|b t''].
  - destruct Hin as [<-|[]]. exists []. reflexivity.
  - destruct Hin as [<-|Hin].
    + exfalso. rewrite Forall_forall in Hall. specialize (Hall b (or_introl eq_refl)). unfold klt in Hall.
      specialize (Hmax b (or_intror (or_introl eq_refl))). lra.
    + destruct (IH x HSt Hin) as [l' Hl'].
      * intros y Hy. apply Hmax. right; exact Hy.
      * exists (a :: l'). rewrite Hl'. reflexivity.
Qed.

(* on the solver grid (last point = fibre end, all lumped positions before it) the Euler scheme
   applies every lumped loss exactly once, provided the positions are pairwise distinct *)
Lemma euler_lumped_once : forall zl z' L,
  distinct_positions (map fst zl) = true ->
  (forall kv, In kv zl -> fst kv < L) -> (forall x, In x z' -> x <= L) ->
  qprod (map snd (removelast (merge_grid 1 zl (z' ++ [L])))) == qprod (map snd zl).
Proof.
  intros zl z' L Hd Hzl Hz.
  pose proof (lumped_merge_lin zl (z' ++ [L]) Hd) as Htot.
  set (M := merge_grid 1 zl (z' ++ [L])) in *.
  set (G := map (fun x : Q => (x, 1)) (z' ++ [L])).
  assert (Permutation M (firsts [] (zl ++ G))) as HP by (apply merge_list_perm).
  assert (forall y, In y M -> In y (zl ++ G)) as Hsub.
  { intros y Hy. eapply firsts_incl. eapply Permutation_in; eauto. }
  destruct (firsts_covers Q (zl ++ G) [] (L, 1)) as [kv [Hkv1 Hkv2]].
  { apply in_or_app. right. unfold G. apply (in_map (fun x : Q => (x, 1))). apply in_or_app. right. left. reflexivity. }
  { reflexivity. }
  cbn [fst] in Hkv2.
  assert (In kv M) as HkvM by (eapply Permutation_in; [apply Permutation_sym; exact HP|exact Hkv1]).
  assert (snd kv = 1) as Hv.
  { specialize (Hsub kv HkvM). apply in_app_or in Hsub. destruct Hsub as [Hin|Hin].
    - exfalso. specialize (Hzl kv Hin). lra.
    - unfold G in Hin. apply in_map_iff in Hin. destruct Hin as [x [<- _]]. reflexivity. }
  destruct (sorted_last M kv) as [M' HM'].
  - apply merge_list_sorted.
  - exact HkvM.
  - intros y Hy. specialize (Hsub y Hy). apply in_app_or in Hsub. destruct Hsub as [Hin|Hin].
    + specialize (Hzl y Hin). lra.
    + unfold G in Hin. apply in_map_iff in Hin. destruct Hin as [x [<- Hx]]. cbn [fst].
      apply in_app_or in Hx. destruct Hx as [Hx|[<-|[]]]; [specialize (Hz x Hx)|]; lra.
  - rewrite HM' in *. rewrite removelast_last. rewrite map_app, qprod_app in Htot.
    cbn [map] in Htot. rewrite qprod_cons, qprod_nil, Hv in Htot. rewrite <- Htot. ring.
Qed.

(* the loss-profile form euler_g is the scheme of the code (euler) divided by the input powers *)
Lemma dot_compat : forall r p p', Forall2 Qeq p p' -> dot r p == dot r p'.
Proof.
  unfold dot. induction r as [|a r IH]; intros p p' HF; [reflexivity|].
  inversion HF as [|x y l l' Hxy HFt]; subst; [reflexivity|].
  cbn [combine map fst snd]. rewrite !qsum_cons, (IH l l' HFt), Hxy. reflexivity.
Qed.

Lemma euler_step_link : forall P P', Forall2 Qeq P P' -> forall dz ll p0 g p alpha cr,
  Forall2 Qeq p (zipw Qmult p0 g) ->
  Forall2 Qeq
    (map (fun t : Q * (Q * list Q) => let '(pj, (aj, crj)) := t in Qred (pj * (1 + (- aj + Qred (dot crj P)) * dz) * ll))
         (combine p (combine alpha cr)))
    (zipw Qmult p0
       (map (fun t : Q * (Q * list Q) => let '(gj, (aj, crj)) := t in Qred (gj * (1 + (- aj + Qred (dot crj P')) * dz) * ll))
            (combine g (combine alpha cr)))).
Proof.
  intros P P' HP dz ll. induction p0 as [|x p0 IH]; intros g p alpha cr H.
  - inversion H; subst. constructor.
  - destruct g as [|y g].
    + inversion H; subst. constructor.
    + unfold zipw in H. cbn [combine map fst snd] in H. inversion H as [|q xy p' l' Hq Ht]; subst.
      destruct alpha as [|a alpha]; [constructor|]. destruct cr as [|c cr]; [constructor|].
      unfold zipw. cbn [combine map fst snd]. constructor.
      * rewrite !Qred_correct, Hq, (dot_compat c P P' HP). ring.
      * apply IH. exact Ht.
Qed.

Lemma euler_g_correct : forall alpha cr p0 grid p g,
  Forall2 Qeq p (zipw Qmult p0 g) ->
  Forall2 Qeq (euler alpha cr grid p) (zipw Qmult p0 (euler_g alpha cr p0 grid g)).
Proof.
  intros alpha cr p0 grid. induction grid as [|[z0 l0] t IH]; intros p g H.
  - exact H.
  - destruct t as [|[z1 l1] t']; [exact H|]. cbn [euler euler_g]. apply IH.
    unfold euler_step, euler_step_g. apply euler_step_link; [|exact H]. exact H.
Qed.

(* ================================================================================================
   6. refutations: what the faithful model does when two lumped losses share a position (F10) *)
Definition wit_fiber : fiber :=
  mkFiber 80 true 1 (1 # 2) (7 # 10) (Scalar (1 # 5)) [(10, 3 # 2); (10, 2)] 193414489032258
          (DispScalar (167 # 10000000) None) (1265 # 1000000000000000000) (1468 # 1000).

Lemma lumped_dup_refuted : exists zl z,
  Forall (fun kv => 0 < snd kv) zl /\ ~ qsum (map snd (merge_grid 0 zl z)) == qsum (map snd zl).
Proof.
  exists [(10000, 3 # 2); (10000, 2)], [0; 80000]. split.
  - repeat constructor.
  - intros H. vm_compute in H. discriminate H.
Qed.

Lemma fiber_budget_dup_refuted : exists fib f p a out,
  lumped_in_range fib = true /\ Forall (fun zl => 0 < snd zl) (f_lumped fib) /\
  loss_coef_at fib f = Ok a /\ fiber_power_out fib f p = Ok out /\
  ~ out == p - loss_budget fib a /\ out == p - loss_budget fib a + 2.
Proof.
  exists wit_fiber, 193100000000000, 0, ((1 # 5) / 1000). eexists. split; [reflexivity|]. split; [repeat constructor|].
  split; [reflexivity|]. split; [vm_compute; reflexivity|]. split.
  - intros H. vm_compute in H. discriminate H.
  - vm_compute. reflexivity.
Qed.

(* ================================================================================================
   7. the runner's sharing of beta3 between the channels of one fibre does not change any result *)
Lemma beta3_shared_sound : forall pi fib sh f, beta3_shared pi fib = sh ->
  chromatic_dispersion_with pi fib sh f = chromatic_dispersion pi fib f.
Proof.
  intros pi fib sh f <-. unfold chromatic_dispersion_with, chromatic_dispersion, beta3_shared, beta3.
  destruct (f_disp fib) as [d [s|]|pts]; reflexivity.
Qed.

Lemma elem_contrib_with_sound : forall pi e f, elem_contrib_with pi e (elem_shared pi e) f = elem_contrib pi e f.
Proof.
  intros pi e f. destruct e as [fib|pmd pdl|pmd pdl|]; try reflexivity.
  unfold elem_contrib_with, elem_contrib, elem_shared. rewrite (beta3_shared_sound pi fib _ f eq_refl). reflexivity.
Qed.

Lemma mapM_combine_map : forall A B C (F : A -> B -> res C) (g : A -> B) l,
  mapM (fun es => F (fst es) (snd es)) (combine l (map g l)) = mapM (fun e => F e (g e)) l.
Proof.
  induction l as [|x t IH]; [reflexivity|]. cbn [map combine mapM fst snd]. rewrite IH. reflexivity.
Qed.

Lemma mapM_ext : forall A B (f g : A -> res B) l, (forall x, f x = g x) -> mapM f l = mapM g l.
Proof. induction l as [|x t IH]; intros H; [reflexivity|]. cbn [mapM]. rewrite H, (IH H). reflexivity. Qed.

Lemma propagate_path_with_sound : forall pi els f a,
  propagate_path_with pi els (map (elem_shared pi) els) f a = propagate_path pi els f a.
Proof.
  intros pi els f a. unfold propagate_path_with, propagate_path.
  rewrite (mapM_combine_map _ _ _ (fun e sh => elem_contrib_with pi e sh f) (elem_shared pi) els).
  rewrite (mapM_ext _ _ _ (fun e => elem_contrib pi e f) els); [reflexivity|].
  intros e. apply elem_contrib_with_sound.
Qed.
