(* C05 — proofs about Model/Fiber.v *)
From Coq Require Import QArith Qminmax Lia Lqa ZifyBool Permutation Sorted SetoidList Morphisms.
From Verif Require Import Prelude Model.Fiber.
Open Scope Q_scope.

(* ================================================================================================
   0. small facts about qsum / qprod *)
Lemma qsum_cons : forall x l, qsum (x :: l) = x + qsum l.
Proof. reflexivity. Qed.
Lemma qprod_cons : forall x l, qprod (x :: l) = x * qprod l.
Proof. reflexivity. Qed.
Lemma qsum_nil : qsum [] = 0.
Proof. reflexivity. Qed.
Lemma qprod_nil : qprod [] = 1.
Proof. reflexivity. Qed.

Lemma qsum_app : forall l1 l2, qsum (l1 ++ l2) == qsum l1 + qsum l2.
Proof.
  induction l1 as [|x t IH]; intros l2; cbn [app].
  - rewrite qsum_nil. ring.
  - rewrite !qsum_cons, IH. ring.
Qed.

Lemma qprod_app : forall l1 l2, qprod (l1 ++ l2) == qprod l1 * qprod l2.
Proof.
  induction l1 as [|x t IH]; intros l2; cbn [app].
  - rewrite qprod_nil. ring.
  - rewrite !qprod_cons, IH. ring.
Qed.

Lemma qsum_perm : forall l l', Permutation l l' -> qsum l == qsum l'.
Proof.
  induction 1 as [|x l l' HP IH|x y l|l l' l'' HP1 IH1 HP2 IH2].
  - reflexivity.
  - rewrite !qsum_cons, IH. reflexivity.
  - rewrite !qsum_cons. ring.
  - rewrite IH1. exact IH2.
Qed.

Lemma qprod_perm : forall l l', Permutation l l' -> qprod l == qprod l'.
Proof.
  induction 1 as [|x l l' HP IH|x y l|l l' l'' HP1 IH1 HP2 IH2].
  - reflexivity.
  - rewrite !qprod_cons, IH. reflexivity.
  - rewrite !qprod_cons. ring.
  - rewrite IH1. exact IH2.
Qed.

(* ================================================================================================
   1. _create_lumped_losses: the merged grid is sorted and carries every lumped loss (losses that share a
      position accumulate on one grid point) *)
Definition klt {V : Type} (a b : Q * V) : Prop := fst a < fst b.

Lemma ins_acc_hd : forall V op (k : Q) (v : V) l a, (forall b, In b l -> klt a b) -> fst a < k ->
  forall b, In b (ins_acc op k v l) -> klt a b.
Proof.
  induction l as [|[k' v'] t IH]; intros a Hall Hk b Hin; cbn [ins_acc] in Hin.
  - destruct Hin as [<-|[]]. exact Hk.
  - destruct (k ?= k') eqn:E.
    + destruct Hin as [<-|Hin]; [|apply Hall; right; exact Hin].
      specialize (Hall (k', v') (or_introl eq_refl)). exact Hall.
    + destruct Hin as [<-|Hin]; [exact Hk|apply Hall; exact Hin].
    + destruct Hin as [<-|Hin]; [apply Hall; left; reflexivity|].
      apply (IH a); trivial. intros b' Hb'. apply Hall. right; exact Hb'.
Qed.

Lemma ins_acc_sorted : forall V op (k : Q) (v : V) l, StronglySorted klt l -> StronglySorted klt (ins_acc op k v l).
Proof.
  induction l as [|[k' v'] t IH]; intros HS; cbn [ins_acc].
  - constructor; [constructor|constructor].
  - inversion HS as [|a l' HSt Hall]; subst. destruct (k ?= k') eqn:E.
    + constructor; [exact HSt|]. rewrite Forall_forall in *. intros b Hb. exact (Hall b Hb).
    + apply Qlt_alt in E. constructor; [exact HS|].
      constructor; [exact E|]. rewrite Forall_forall in *. intros b Hb. unfold klt in *; cbn [fst] in *.
      eapply Qlt_trans; [exact E|]. apply (Hall b Hb).
    + apply Qgt_alt in E. constructor; [apply IH; exact HSt|].
      rewrite Forall_forall in *. intros b Hb.
      eapply (ins_acc_hd V op k v t (k', v')); eauto.
Qed.

Lemma merge_list_sorted_gen : forall V op (l : list (Q * V)) acc, StronglySorted klt acc ->
  StronglySorted klt (fold_left (fun a kv => ins_acc op (fst kv) (snd kv) a) l acc).
Proof.
  induction l as [|[k v] t IH]; intros acc HS; cbn [fold_left]; trivial.
  apply IH. apply ins_acc_sorted; exact HS.
Qed.
Lemma merge_list_sorted : forall V op (l : list (Q * V)), StronglySorted klt (merge_list op l).
Proof. intros. apply merge_list_sorted_gen. constructor. Qed.

(* totals: inserting adds exactly the inserted value, whatever the positions are *)
Lemma ins_acc_sum : forall k v l, qsum (map snd (ins_acc Qplus k v l)) == v + qsum (map snd l).
Proof.
  induction l as [|[k' v'] t IH]; cbn [ins_acc].
  - cbn [map snd]. reflexivity.
  - destruct (k ?= k'); cbn [map snd]; rewrite ?qsum_cons.
    + ring.
    + ring.
    + rewrite IH. ring.
Qed.
Lemma ins_acc_prod : forall k v l, qprod (map snd (ins_acc Qmult k v l)) == v * qprod (map snd l).
Proof.
  induction l as [|[k' v'] t IH]; cbn [ins_acc].
  - cbn [map snd]. reflexivity.
  - destruct (k ?= k'); cbn [map snd]; rewrite ?qprod_cons.
    + ring.
    + ring.
    + rewrite IH. ring.
Qed.

Lemma merge_fold_sum : forall (l acc : list (Q * Q)),
  qsum (map snd (fold_left (fun a kv => ins_acc Qplus (fst kv) (snd kv) a) l acc)) == qsum (map snd acc) + qsum (map snd l).
Proof.
  induction l as [|[k v] t IH]; intros acc; cbn [fold_left map snd fst].
  - rewrite qsum_nil. ring.
  - rewrite IH, ins_acc_sum, qsum_cons. ring.
Qed.
Lemma merge_fold_prod : forall (l acc : list (Q * Q)),
  qprod (map snd (fold_left (fun a kv => ins_acc Qmult (fst kv) (snd kv) a) l acc)) == qprod (map snd acc) * qprod (map snd l).
Proof.
  induction l as [|[k v] t IH]; intros acc; cbn [fold_left map snd fst].
  - rewrite qprod_nil. ring.
  - rewrite IH, ins_acc_prod, qprod_cons. ring.
Qed.

Lemma qsum_const0 : forall z : list Q, qsum (map snd (map (fun x : Q => (x, 0)) z)) == 0.
Proof. induction z as [|x t IH]; cbn [map snd]; [reflexivity|]. rewrite qsum_cons, IH. ring. Qed.
Lemma qprod_const1 : forall z : list Q, qprod (map snd (map (fun x : Q => (x, 1)) z)) == 1.
Proof. induction z as [|x t IH]; cbn [map snd]; [reflexivity|]. rewrite qprod_cons, IH. ring. Qed.

(* the merged grid carries the total of all lumped losses, for every list of positions *)
Lemma lumped_merge_db : forall zl z, qsum (map snd (merge_grid Qplus 0 zl z)) == qsum (map snd zl).
Proof.
  intros zl z. unfold merge_grid, merge_list. rewrite merge_fold_sum, map_app, qsum_app, qsum_const0.
  cbn [map]. rewrite qsum_nil. ring.
Qed.
Lemma lumped_merge_lin : forall zl z, qprod (map snd (merge_grid Qmult 1 zl z)) == qprod (map snd zl).
Proof.
  intros zl z. unfold merge_grid, merge_list. rewrite merge_fold_prod, map_app, qprod_app, qprod_const1.
  cbn [map]. rewrite qprod_nil. ring.
Qed.

Lemma lumped_merge_both : forall zl z,
  qsum (map snd (merge_grid Qplus 0 zl z)) == qsum (map snd zl) /\
  qprod (map snd (merge_grid Qmult 1 zl z)) == qprod (map snd zl).
Proof. intros zl z. split; [apply lumped_merge_db|apply lumped_merge_lin]. Qed.

Lemma merge_grid_sorted : forall (op : Q -> Q -> Q) one zl z,
  StronglySorted (fun a b : Q * Q => fst a < fst b) (merge_grid op one zl z).
Proof. intros op one zl z. exact (merge_list_sorted Q op _). Qed.

(* ================================================================================================
   2. the loss budget of a fibre span (Raman off) *)
Lemma lumped_m_snd : forall fib, map snd (lumped_m fib) = map snd (f_lumped fib).
Proof. intros fib. unfold lumped_m. rewrite !map_map. reflexivity. Qed.

Lemma fiber_budget : forall fib f p a,
  lumped_in_range fib = true ->
  loss_coef_at fib f = Ok a ->
  exists out, fiber_power_out fib f p = Ok out /\ out == p - loss_budget fib a.
Proof.
  intros fib f p a Hr Ha. unfold fiber_power_out, fiber_check. rewrite Hr. cbn [bind]. rewrite Ha. cbn [bind].
  eexists. split; [reflexivity|]. unfold attenuation_db, loss_budget. rewrite lumped_merge_db, lumped_m_snd. ring.
Qed.

(* Fiber.loss (the figure the design uses) is the budget at the reference frequency *)
Lemma fiber_loss_prop_budget : forall fib a, loss_coef_at fib (f_ref fib) = Ok a ->
  exists l, fiber_loss_prop fib = Ok l /\ l == loss_budget fib a.
Proof.
  intros fib a Ha. unfold fiber_loss_prop. rewrite Ha. cbn [bind]. eexists. split; [reflexivity|].
  unfold loss_budget. ring.
Qed.

(* scalar loss coefficient *)
Lemma loss_coef_scalar : forall fib f v, f_loss fib = Scalar v -> loss_coef_at fib f = Ok (v / 1000).
Proof. intros fib f v H. unfold loss_coef_at. rewrite H. reflexivity. Qed.

(* a linear interpolation lies between the two knots that enclose the frequency *)
Lemma interp_sorted_between : forall pts x v, interp_sorted pts x = Ok v ->
  exists x0 y0 x1 y1, In (x0, y0) pts /\ In (x1, y1) pts /\ x0 <= x /\ x <= x1 /\ x0 < x1 /\
    Qmin y0 y1 <= v /\ v <= Qmax y0 y1.
Proof.
  induction pts as [|[x0 y0] t IH]; intros x v H; cbn [interp_sorted] in H; [discriminate|].
  destruct t as [|[x1 y1] t']; [discriminate|].
  destruct (Qle_bool x0 x && Qle_bool x x1) eqn:E.
  - destruct (Qeq_bool x0 x1) eqn:E2; [discriminate|]. injection H as <-.
    apply andb_true_iff in E. destruct E as [E0 E1]. apply Qle_bool_iff in E0, E1.
    assert (~ x0 == x1) as Hne by (intros Hc; apply Qeq_bool_iff in Hc; congruence).
    assert (x0 < x1) as Hlt.
    { destruct (Qlt_le_dec x0 x1) as [Hl|Hl]; trivial. exfalso. apply Hne. apply Qle_antisym; trivial.
      eapply Qle_trans; eauto. }
    exists x0, y0, x1, y1. repeat split; trivial; [left; reflexivity|right; left; reflexivity| |].
    + set (t := (x - x0) / (x1 - x0)).
      assert (0 <= t) as Ht0 by (unfold t; apply Qle_shift_div_l; lra).
      assert (t <= 1) as Ht1 by (unfold t; apply Qle_shift_div_r; lra).
      assert (y0 + (y1 - y0) / (x1 - x0) * (x - x0) == y0 + (y1 - y0) * t) as -> by (unfold t; field; lra).
      destruct (Q.min_spec y0 y1) as [[Hc ->]|[Hc ->]]; nra.
    + set (t := (x - x0) / (x1 - x0)).
      assert (0 <= t) as Ht0 by (unfold t; apply Qle_shift_div_l; lra).
      assert (t <= 1) as Ht1 by (unfold t; apply Qle_shift_div_r; lra).
      assert (y0 + (y1 - y0) / (x1 - x0) * (x - x0) == y0 + (y1 - y0) * t) as -> by (unfold t; field; lra).
      destruct (Q.max_spec y0 y1) as [[Hc ->]|[Hc ->]]; nra.
  - destruct (IH x v H) as [a0 [b0 [a1 [b1 [H1 [H2 H3]]]]]].
    exists a0, b0, a1, b1. repeat split; try tauto; right; tauto.
Qed.

(* ================================================================================================
   3. accumulation of CD, latency, PMD^2, PDL^2 along a path *)
Definition acc_eq (a b : acc) : Prop :=
  a_cd a == a_cd b /\ a_lat a == a_lat b /\ a_pmd2 a == a_pmd2 b /\ a_pdl2 a == a_pdl2 b.

Lemma accumulate_app : forall cs1 cs2 a, accumulate (cs1 ++ cs2) a = accumulate cs2 (accumulate cs1 a).
Proof. intros. unfold accumulate. apply fold_left_app. Qed.

Lemma accumulate_sums : forall cs a,
  a_cd (accumulate cs a) == a_cd a + qsum (map d_cd cs) /\
  a_lat (accumulate cs a) == a_lat a + qsum (map d_lat cs) /\
  a_pmd2 (accumulate cs a) == a_pmd2 a + qsum (map d_pmd2 cs) /\
  a_pdl2 (accumulate cs a) == a_pdl2 a + qsum (map d_pdl2 cs).
Proof.
  induction cs as [|c t IH]; intros a; cbn [accumulate fold_left map].
  - rewrite qsum_nil. repeat split; ring.
  - fold (accumulate t (add_contrib a c)). destruct (IH (add_contrib a c)) as [H1 [H2 [H3 H4]]].
    rewrite !qsum_cons, H1, H2, H3, H4. unfold add_contrib; cbn [a_cd a_lat a_pmd2 a_pdl2].
    repeat split; ring.
Qed.

Lemma accumulate_perm : forall cs cs' a, Permutation cs cs' -> acc_eq (accumulate cs a) (accumulate cs' a).
Proof.
  intros cs cs' a HP. destruct (accumulate_sums cs a) as [H1 [H2 [H3 H4]]].
  destruct (accumulate_sums cs' a) as [K1 [K2 [K3 K4]]]. unfold acc_eq.
  rewrite H1, H2, H3, H4, K1, K2, K3, K4.
  rewrite (qsum_perm _ _ (Permutation_map d_cd HP)), (qsum_perm _ _ (Permutation_map d_lat HP)),
          (qsum_perm _ _ (Permutation_map d_pmd2 HP)), (qsum_perm _ _ (Permutation_map d_pdl2 HP)).
  repeat split; reflexivity.
Qed.

Lemma mapM_app : forall A B (f : A -> res B) l1 l2 r1 r2,
  mapM f l1 = Ok r1 -> mapM f l2 = Ok r2 -> mapM f (l1 ++ l2) = Ok (r1 ++ r2).
Proof.
  induction l1 as [|x t IH]; intros l2 r1 r2 H1 H2; cbn [mapM app] in *.
  - injection H1 as <-. exact H2.
  - destruct (f x) as [y|e]; cbn [bind] in *; [|discriminate].
    destruct (mapM f t) as [r|e] eqn:E; cbn [bind] in *; [|discriminate].
    injection H1 as <-. rewrite (IH l2 r r2 eq_refl H2). reflexivity.
Qed.

Lemma mapM_app_inv : forall A B (f : A -> res B) l1 l2 r,
  mapM f (l1 ++ l2) = Ok r -> exists r1 r2, mapM f l1 = Ok r1 /\ mapM f l2 = Ok r2 /\ r = r1 ++ r2.
Proof.
  induction l1 as [|x t IH]; intros l2 r H; cbn [mapM app] in *.
  - exists [], r. repeat split; trivial.
  - destruct (f x) as [y|e]; cbn [bind] in *; [|discriminate].
    destruct (mapM f (t ++ l2)) as [r'|e] eqn:E; cbn [bind] in *; [|discriminate].
    injection H as <-. destruct (IH l2 r' E) as [r1 [r2 [H1 [H2 H3]]]].
    exists (y :: r1), r2. rewrite H1. cbn [bind]. repeat split; trivial. rewrite H3. reflexivity.
Qed.

Lemma mapM_perm : forall A B (f : A -> res B) l l', Permutation l l' ->
  forall r, mapM f l = Ok r -> exists r', mapM f l' = Ok r' /\ Permutation r r'.
Proof.
  induction 1 as [|x l l' HP IH|x y l|l l' l'' HP1 IH1 HP2 IH2]; intros r H.
  - exists r. split; trivial.
  - cbn [mapM] in *. destruct (f x) as [v|e]; cbn [bind] in *; [|discriminate].
    destruct (mapM f l) as [r0|e] eqn:E; cbn [bind] in *; [|discriminate]. injection H as <-.
    destruct (IH r0 eq_refl) as [r' [H1 H2]]. rewrite H1. cbn [bind]. exists (v :: r'). split; trivial.
    apply perm_skip; exact H2.
  - cbn [mapM] in *. destruct (f y) as [vy|e]; cbn [bind] in *; [|discriminate].
    destruct (f x) as [vx|e]; cbn [bind] in *; [|discriminate].
    destruct (mapM f l) as [r0|e]; cbn [bind] in *; [|discriminate]. injection H as <-.
    exists (vx :: vy :: r0). split; trivial. apply perm_swap.
  - destruct (IH1 r H) as [r1 [H1 P1]]. destruct (IH2 r1 H1) as [r2 [H2 P2]].
    exists r2. split; trivial. eapply Permutation_trans; eauto.
Qed.

(* linear accumulation: the total after a path is the start value plus the sum of the contributions *)
Lemma path_totals : forall pi els f a r, propagate_path pi els f a = Ok r ->
  exists cs, mapM (fun e => elem_contrib pi e f) els = Ok cs /\
    a_cd r == a_cd a + qsum (map d_cd cs) /\ a_lat r == a_lat a + qsum (map d_lat cs) /\
    a_pmd2 r == a_pmd2 a + qsum (map d_pmd2 cs) /\ a_pdl2 r == a_pdl2 a + qsum (map d_pdl2 cs).
Proof.
  intros pi els f a r H. unfold propagate_path in H.
  destruct (mapM (fun e => elem_contrib pi e f) els) as [cs|e]; cbn [bind] in H; [|discriminate].
  injection H as <-. exists cs. split; trivial. apply accumulate_sums.
Qed.

(* two path segments in sequence = the second started from the result of the first *)
Lemma path_additive : forall pi els1 els2 f a r,
  propagate_path pi (els1 ++ els2) f a = Ok r <->
  exists r1, propagate_path pi els1 f a = Ok r1 /\ propagate_path pi els2 f r1 = Ok r.
Proof.
  intros pi els1 els2 f a r. unfold propagate_path. split.
  - intros H. destruct (mapM (fun e => elem_contrib pi e f) (els1 ++ els2)) as [cs|e] eqn:E;
      cbn [bind] in H; [|discriminate]. injection H as <-.
    destruct (mapM_app_inv _ _ _ _ _ _ E) as [r1 [r2 [H1 [H2 ->]]]].
    rewrite H1, H2. cbn [bind]. eexists. split; [reflexivity|]. rewrite accumulate_app. reflexivity.
  - intros [r1 [H1 H2]].
    destruct (mapM (fun e => elem_contrib pi e f) els1) as [c1|e] eqn:E1; cbn [bind] in H1; [|discriminate].
    destruct (mapM (fun e => elem_contrib pi e f) els2) as [c2|e] eqn:E2; cbn [bind] in H2; [|discriminate].
    injection H1 as <-. injection H2 as <-.
    rewrite (mapM_app _ _ _ _ _ c1 c2 E1 E2).
    cbn [bind]. rewrite accumulate_app. reflexivity.
Qed.

(* the order of the elements of a path is irrelevant for the accumulated values *)
Lemma path_perm : forall pi els els' f a r, Permutation els els' ->
  propagate_path pi els f a = Ok r ->
  exists r', propagate_path pi els' f a = Ok r' /\ acc_eq r r'.
Proof.
  intros pi els els' f a r HP H. unfold propagate_path in *.
  destruct (mapM (fun e => elem_contrib pi e f) els) as [cs|e] eqn:E; cbn [bind] in H; [|discriminate].
  injection H as <-. destruct (mapM_perm _ _ _ _ _ HP cs E) as [cs' [H1 H2]].
  rewrite H1. cbn [bind]. eexists. split; [reflexivity|]. apply accumulate_perm; exact H2.
Qed.

(* ================================================================================================
   4. chromatic dispersion of one span: pi cancels *)
Lemma c_light_nz : ~ c_light == 0.
Proof. unfold c_light. discriminate. Qed.

Lemma cd_scalar : forall pi fib f d, f_disp fib = DispScalar d None ->
  ~ pi == 0 -> ~ f == 0 -> ~ f_ref fib == 0 ->
  exists v, chromatic_dispersion pi fib f = Ok v /\ v == d * len_m fib.
Proof.
  intros pi fib f d Hd Hpi Hf Hr. unfold chromatic_dispersion, beta3, beta2, dispersion_at. rewrite Hd.
  cbn [bind]. eexists. split; [reflexivity|]. pose proof c_light_nz as Hc. rewrite !Qred_correct. unfold sq. field. auto.
Qed.

Definition cd_slope_closed (fib : fiber) (d s f : Q) : Q :=
  let fr := f_ref fib in
  let dl := d + s * (c_light / f - c_light / fr) in
  sq fr * (dl / sq f - (s + 2 * f * dl / c_light) * c_light * (f - fr) / (sq f * sq f)) * len_m fib.

Lemma cd_slope : forall pi fib f d s, f_disp fib = DispScalar d (Some s) ->
  ~ pi == 0 -> ~ f == 0 -> ~ f_ref fib == 0 ->
  exists v, chromatic_dispersion pi fib f = Ok v /\ v == cd_slope_closed fib d s f.
Proof.
  intros pi fib f d s Hd Hpi Hf Hr. unfold chromatic_dispersion, beta3, beta2, dispersion_at. rewrite Hd.
  cbn [bind]. eexists. split; [reflexivity|]. pose proof c_light_nz as Hc. rewrite !Qred_correct.
  unfold cd_slope_closed, sq, cube. field. auto.
Qed.

(* ================================================================================================
   5. Raman on, Euler ('numerical') solver: zero-power limit, each lumped loss once *)
Definition zipw {A B C : Type} (f : A -> B -> C) (l1 : list A) (l2 : list B) : list C :=
  map (fun ab => f (fst ab) (snd ab)) (combine l1 l2).

Lemma F2_refl : forall l, Forall2 Qeq l l.
Proof. induction l; constructor; [reflexivity|assumption]. Qed.
Lemma F2_sym : forall l l', Forall2 Qeq l l' -> Forall2 Qeq l' l.
Proof. induction 1; constructor; [symmetry|]; assumption. Qed.
Lemma F2_trans : forall l1 l2 l3, Forall2 Qeq l1 l2 -> Forall2 Qeq l2 l3 -> Forall2 Qeq l1 l3.
Proof.
  intros l1 l2 l3 H. revert l3. induction H as [|x y l l' Hxy HF IH]; intros l3 H3; inversion H3; subst; constructor.
  - rewrite Hxy; assumption.
  - apply IH; assumption.
Qed.
Lemma F2_length : forall l l', Forall2 Qeq l l' -> length l = length l'.
Proof. induction 1; cbn [length]; congruence. Qed.

Lemma zipw_length : forall A B C (f : A -> B -> C) l1 l2, length l1 = length l2 -> length (zipw f l1 l2) = length l1.
Proof. intros. unfold zipw. rewrite map_length, combine_length. lia. Qed.

Lemma zipw_zipw : forall (f h : Q -> Q -> Q) g al,
  zipw f (zipw h g al) al = zipw (fun gj aj => f (h gj aj) aj) g al.
Proof.
  induction g as [|x g IH]; intros al; [reflexivity|]. destruct al as [|a al]; [reflexivity|].
  unfold zipw in *. cbn [combine map fst snd]. f_equal. apply IH.
Qed.

Lemma zipw_ext : forall (f h : Q -> Q -> Q) g g' al, Forall2 Qeq g g' ->
  (forall x y a, x == y -> f x a == h y a) -> Forall2 Qeq (zipw f g al) (zipw h g' al).
Proof.
  intros f h g g' al HF Hfh. revert al. induction HF as [|x y l l' Hxy HF IH]; intros al.
  - constructor.
  - destruct al as [|a al]; [constructor|]. unfold zipw in *. cbn [combine map fst snd].
    constructor; [apply Hfh; exact Hxy|apply IH].
Qed.

Lemma dot_zero : forall r p, Forall (fun x => x == 0) p -> dot r p == 0.
Proof.
  unfold dot. induction r as [|a r IH]; intros p HF; [reflexivity|].
  destruct p as [|x p]; [reflexivity|]. inversion HF as [|x' p' Hx HFp]; subst.
  cbn [combine map fst snd]. rewrite qsum_cons, (IH p HFp), Hx. ring.
Qed.

Lemma powers_zero : forall p0 g, Forall (fun x => x == 0) p0 ->
  Forall (fun x => x == 0) (map (fun pg => fst pg * snd pg) (combine p0 g)).
Proof.
  induction p0 as [|x p0 IH]; intros g HF; [constructor|]. destruct g as [|y g]; [constructor|].
  inversion HF as [|x' p' Hx HFp]; subst. cbn [combine map fst snd]. constructor; [rewrite Hx; ring|apply IH; exact HFp].
Qed.

Lemma euler_step_g_length : forall alpha cr p0 dz ll g,
  length alpha = length g -> length cr = length g -> length (euler_step_g alpha cr p0 dz ll g) = length g.
Proof. intros. unfold euler_step_g. rewrite map_length, !combine_length. lia. Qed.

Lemma euler_step_g_zero : forall alpha cr p0 dz ll g g',
  Forall (fun x => x == 0) p0 -> Forall2 Qeq g g' -> length alpha = length cr ->
  Forall2 Qeq (euler_step_g alpha cr p0 dz ll g) (zipw (fun gj aj => gj * (1 - aj * dz) * ll) g' alpha).
Proof.
  intros alpha cr p0 dz ll g g' H0 HF Hl. unfold euler_step_g.
  pose proof (powers_zero p0 g H0) as HP. set (P := map (fun pg => fst pg * snd pg) (combine p0 g)) in *.
  clearbody P. revert alpha cr Hl. induction HF as [|x y l l' Hxy HF IH]; intros alpha cr Hl.
  - constructor.
  - destruct alpha as [|a alpha]; destruct cr as [|c cr]; try discriminate Hl; [constructor|].
    unfold zipw. cbn [combine map fst snd]. constructor.
    + rewrite !Qred_correct, (dot_zero c P HP), Hxy. ring.
    + apply IH. cbn [length] in Hl. lia.
Qed.

Lemma zipw_unit : forall (g alpha : list Q), length alpha = length g ->
  Forall2 Qeq g (zipw (fun gj aj => gj * 1) g alpha).
Proof.
  induction g as [|x g IH]; intros alpha Hl; [constructor|].
  destruct alpha as [|a alpha]; [discriminate Hl|]. unfold zipw in *. cbn [combine map fst snd].
  constructor; [ring|apply IH; cbn [length] in Hl; lia].
Qed.

Lemma grid_factor_step : forall a z0 l0 z1 l1 t,
  grid_factor a ((z0, l0) :: (z1, l1) :: t) = (1 - a * (z1 - z0)) * l0 * grid_factor a ((z1, l1) :: t).
Proof. reflexivity. Qed.

(* zero input power: every channel decouples and sees prod_k (1 - alpha_j dz_k) * lumped_k *)
Lemma euler_zero_power : forall alpha cr p0 grid g g',
  Forall (fun x => x == 0) p0 -> Forall2 Qeq g g' ->
  length alpha = length g -> length cr = length g ->
  Forall2 Qeq (euler_g alpha cr p0 grid g) (zipw (fun gj aj => gj * grid_factor aj grid) g' alpha).
Proof.
  intros alpha cr p0 grid. induction grid as [|[z0 l0] t IH]; intros g g' H0 HF Ha Hc.
  - cbn [euler_g grid_factor]. eapply F2_trans; [exact HF|]. apply zipw_unit.
    rewrite <- (F2_length _ _ HF). exact Ha.
  - destruct t as [|[z1 l1] t'].
    + cbn [euler_g grid_factor]. eapply F2_trans; [exact HF|]. apply zipw_unit.
      rewrite <- (F2_length _ _ HF). exact Ha.
    + cbn [euler_g].
      pose proof (euler_step_g_zero alpha cr p0 (z1 - z0) l0 g g' H0 HF ltac:(lia)) as Hs.
      eapply F2_trans.
      * apply (IH _ _ H0 Hs); rewrite euler_step_g_length; lia.
      * rewrite zipw_zipw. apply zipw_ext; [apply F2_refl|]. intros x y a Hxy. rewrite grid_factor_step, Hxy. ring.
Qed.

(* the zero-power factor = (Euler attenuation steps) * (lumped factor of every grid point but the last) *)
Fixpoint step_prod (a : Q) (grid : list (Q * Q)) : Q :=
  match grid with
  | [] => 1
  | (z0, _) :: t =>
      match t with
      | [] => 1
      | (z1, _) :: _ => (1 - a * (z1 - z0)) * step_prod a t
      end
  end.
Lemma step_prod_step : forall a z0 l0 z1 l1 t,
  step_prod a ((z0, l0) :: (z1, l1) :: t) = (1 - a * (z1 - z0)) * step_prod a ((z1, l1) :: t).
Proof. reflexivity. Qed.
Lemma removelast_step : forall (x y : Q * Q) t, removelast (x :: y :: t) = x :: removelast (y :: t).
Proof. reflexivity. Qed.

Lemma grid_factor_split : forall a grid,
  grid_factor a grid == step_prod a grid * qprod (map snd (removelast grid)).
Proof.
  intros a grid. induction grid as [|[z0 l0] t IH].
  - cbn. reflexivity.
  - destruct t as [|[z1 l1] t'].
    + cbn. reflexivity.
    + rewrite grid_factor_step, step_prod_step, removelast_step, IH.
      cbn [map snd]. rewrite qprod_cons. ring.
Qed.

Lemma sorted_last : forall (l : list (Q * Q)) x, StronglySorted klt l -> In x l ->
  (forall y, In y l -> fst y <= fst x) -> exists l', l = l' ++ [x].
Proof.
  induction l as [|a t IH]; intros x HS Hin Hmax; [destruct Hin|].
  inversion HS as [|a' t' HSt Hall]; subst. destruct t as [|b t''].
  - destruct Hin as [<-|[]]. exists []. reflexivity.
  - destruct Hin as [<-|Hin].
    + exfalso. rewrite Forall_forall in Hall. specialize (Hall b (or_introl eq_refl)). unfold klt in Hall.
      specialize (Hmax b (or_intror (or_introl eq_refl))). lra.
    + destruct (IH x HSt Hin) as [l' Hl'].
      * intros y Hy. apply Hmax. right; exact Hy.
      * exists (a :: l'). rewrite Hl'. reflexivity.
Qed.

(* invariants of the accumulator while the lumped losses (positions < L) and then grid points (<= L,
   value 1) are inserted: keys stay <= L, an entry at the fibre end has value 1, a key once present stays *)
Definition end_ok (L : Q) (acc : list (Q * Q)) : Prop :=
  forall x, In x acc -> fst x <= L /\ (L <= fst x -> snd x == 1).
Definition has_key (k : Q) (acc : list (Q * Q)) : Prop := exists x, In x acc /\ fst x == k.

Lemma ins_acc_end_ok : forall L k v acc, end_ok L acc -> k <= L -> (k < L \/ v == 1) ->
  end_ok L (ins_acc Qmult k v acc).
Proof.
  intros L k v. induction acc as [|[k' v'] t IH]; intros Hok Hk Hv; cbn [ins_acc].
  - intros x [<-|[]]. cbn [fst snd]. split; [exact Hk|]. intros HL. destruct Hv as [Hv|Hv]; [lra|exact Hv].
  - assert (end_ok L t) as Hokt by (intros x Hx; apply Hok; right; exact Hx).
    destruct (Hok (k', v') (or_introl eq_refl)) as [Hk' Hv']. cbn [fst snd] in Hk', Hv'.
    destruct (k ?= k') eqn:E.
    + apply Qeq_alt in E. intros x [<-|Hx]; [|apply Hok; right; exact Hx]. cbn [fst snd]. split; [exact Hk'|].
      intros HL. rewrite (Hv' HL). destruct Hv as [Hv|Hv]; [lra|rewrite Hv; ring].
    + intros x [<-|Hx]; [|apply Hok; exact Hx]. cbn [fst snd]. split; [exact Hk|].
      intros HL. destruct Hv as [Hv|Hv]; [lra|exact Hv].
    + intros x [<-|Hx]; [cbn [fst snd]; split; assumption|]. apply (IH Hokt Hk Hv x Hx).
Qed.

Lemma ins_acc_has_new : forall k v acc, has_key k (ins_acc Qmult k v acc).
Proof.
  intros k v. induction acc as [|[k' v'] t IH]; cbn [ins_acc].
  - exists (k, v). split; [left; reflexivity|reflexivity].
  - destruct (k ?= k') eqn:E.
    + apply Qeq_alt in E. exists (k', v' * v). split; [left; reflexivity|]. cbn [fst]. symmetry; exact E.
    + exists (k, v). split; [left; reflexivity|reflexivity].
    + destruct IH as [x [Hx Hk]]. exists x. split; [right; exact Hx|exact Hk].
Qed.

Lemma ins_acc_has_old : forall k0 k v acc, has_key k0 acc -> has_key k0 (ins_acc Qmult k v acc).
Proof.
  intros k0 k v. induction acc as [|[k' v'] t IH]; intros [x [Hx Hk]]; [destruct Hx|]. cbn [ins_acc].
  destruct (k ?= k') eqn:E.
  - destruct Hx as [<-|Hx].
    + exists (k', v' * v). split; [left; reflexivity|exact Hk].
    + exists x. split; [right; exact Hx|exact Hk].
  - exists x. split; [right; exact Hx|exact Hk].
  - destruct Hx as [<-|Hx].
    + exists (k', v'). split; [left; reflexivity|exact Hk].
    + destruct (IH (ex_intro _ x (conj Hx Hk))) as [y [Hy Hky]]. exists y. split; [right; exact Hy|exact Hky].
Qed.

Lemma merge_fold_inv : forall L (l acc : list (Q * Q)), end_ok L acc ->
  (forall kv, In kv l -> fst kv <= L /\ (fst kv < L \/ snd kv == 1)) ->
  end_ok L (fold_left (fun a kv => ins_acc Qmult (fst kv) (snd kv) a) l acc).
Proof.
  intros L. induction l as [|[k v] t IH]; intros acc Hok Hl; cbn [fold_left]; [exact Hok|].
  apply IH.
  - destruct (Hl (k, v) (or_introl eq_refl)) as [H1 H2]. apply ins_acc_end_ok; assumption.
  - intros kv Hkv. apply Hl. right; exact Hkv.
Qed.

Lemma merge_fold_has : forall k0 (l acc : list (Q * Q)), has_key k0 acc ->
  has_key k0 (fold_left (fun a kv => ins_acc Qmult (fst kv) (snd kv) a) l acc).
Proof.
  intros k0. induction l as [|[k v] t IH]; intros acc H; cbn [fold_left]; [exact H|].
  apply IH. apply ins_acc_has_old; exact H.
Qed.

(* on the solver grid (last point = fibre end, all lumped positions before it) the Euler scheme applies
   every lumped loss exactly once — also when several of them share a position *)
Lemma euler_lumped_once : forall zl z' L,
  (forall kv, In kv zl -> fst kv < L) -> (forall x, In x z' -> x <= L) ->
  qprod (map snd (removelast (merge_grid Qmult 1 zl (z' ++ [L])))) == qprod (map snd zl).
Proof.
  intros zl z' L Hzl Hz.
  pose proof (lumped_merge_lin zl (z' ++ [L])) as Htot.
  set (M := merge_grid Qmult 1 zl (z' ++ [L])) in *.
  assert (end_ok L M) as Hok.
  { unfold M, merge_grid, merge_list. apply merge_fold_inv; [intros x []|].
    intros kv Hkv. apply in_app_or in Hkv. destruct Hkv as [Hkv|Hkv].
    - specialize (Hzl kv Hkv). split; [lra|left; exact Hzl].
    - apply in_map_iff in Hkv. destruct Hkv as [x [<- Hx]]. cbn [fst snd]. split; [|right; reflexivity].
      apply in_app_or in Hx. destruct Hx as [Hx|[<-|[]]]; [apply Hz; exact Hx|lra]. }
  assert (has_key L M) as [x [HxM HxL]].
  { unfold M, merge_grid, merge_list. rewrite map_app, app_assoc. cbn [map app]. rewrite fold_left_app.
    cbn [fold_left fst snd]. apply ins_acc_has_new. }
  destruct (Hok x HxM) as [_ Hx1]. assert (snd x == 1) as Hv by (apply Hx1; lra).
  destruct (sorted_last M x) as [M' HM'].
  - apply merge_list_sorted.
  - exact HxM.
  - intros y Hy. destruct (Hok y Hy) as [Hy1 _]. lra.
  - rewrite HM' in *. rewrite removelast_last. rewrite map_app, qprod_app in Htot.
    cbn [map] in Htot. rewrite qprod_cons, qprod_nil, Hv in Htot. rewrite <- Htot. ring.
Qed.

(* the loss-profile form euler_g is the scheme of the code (euler) divided by the input powers *)
Lemma dot_compat : forall r p p', Forall2 Qeq p p' -> dot r p == dot r p'.
Proof.
  unfold dot. induction r as [|a r IH]; intros p p' HF; [reflexivity|].
  inversion HF as [|x y l l' Hxy HFt]; subst; [reflexivity|].
  cbn [combine map fst snd]. rewrite !qsum_cons, (IH l l' HFt), Hxy. reflexivity.
Qed.

Lemma euler_step_link : forall P P', Forall2 Qeq P P' -> forall dz ll p0 g p alpha cr,
  Forall2 Qeq p (zipw Qmult p0 g) ->
  Forall2 Qeq
    (map (fun t : Q * (Q * list Q) => let '(pj, (aj, crj)) := t in Qred (pj * (1 + (- aj + Qred (dot crj P)) * dz) * ll))
         (combine p (combine alpha cr)))
    (zipw Qmult p0
       (map (fun t : Q * (Q * list Q) => let '(gj, (aj, crj)) := t in Qred (gj * (1 + (- aj + Qred (dot crj P')) * dz) * ll))
            (combine g (combine alpha cr)))).
Proof.
  intros P P' HP dz ll. induction p0 as [|x p0 IH]; intros g p alpha cr H.
  - inversion H; subst. constructor.
  - destruct g as [|y g].
    + inversion H; subst. constructor.
    + unfold zipw in H. cbn [combine map fst snd] in H. inversion H as [|q xy p' l' Hq Ht]; subst.
      destruct alpha as [|a alpha]; [constructor|]. destruct cr as [|c cr]; [constructor|].
      unfold zipw. cbn [combine map fst snd]. constructor.
      * rewrite !Qred_correct, Hq, (dot_compat c P P' HP). ring.
      * apply IH. exact Ht.
Qed.

Lemma euler_g_correct : forall alpha cr p0 grid p g,
  Forall2 Qeq p (zipw Qmult p0 g) ->
  Forall2 Qeq (euler alpha cr grid p) (zipw Qmult p0 (euler_g alpha cr p0 grid g)).
Proof.
  intros alpha cr p0 grid. induction grid as [|[z0 l0] t IH]; intros p g H.
  - exact H.
  - destruct t as [|[z1 l1] t']; [exact H|]. cbn [euler euler_g]. apply IH.
    unfold euler_step, euler_step_g. apply euler_step_link; [|exact H]. exact H.
Qed.

(* ================================================================================================
   6. regression witness of the repaired defect F10: two lumped losses at one position are both applied *)
Definition wit_fiber : fiber :=
  mkFiber 80 true 1 (1 # 2) (7 # 10) (Scalar (1 # 5)) [(10, 3 # 2); (10, 2)] 193414489032258
          (DispScalar (167 # 10000000) None) (1265 # 1000000000000000000) (1468 # 1000).

(* ================================================================================================
   7. the runner's sharing of beta3 between the channels of one fibre does not change any result *)
Lemma beta3_shared_sound : forall pi fib sh f, beta3_shared pi fib = sh ->
  chromatic_dispersion_with pi fib sh f = chromatic_dispersion pi fib f.
Proof.
  intros pi fib sh f <-. unfold chromatic_dispersion_with, chromatic_dispersion, beta3_shared, beta3.
  destruct (f_disp fib) as [d [s|]|pts]; reflexivity.
Qed.

Lemma elem_contrib_with_sound : forall pi e f, elem_contrib_with pi e (elem_shared pi e) f = elem_contrib pi e f.
Proof.
  intros pi e f. destruct e as [fib|pmd pdl|pmd pdl|]; try reflexivity.
  unfold elem_contrib_with, elem_contrib, elem_shared. rewrite (beta3_shared_sound pi fib _ f eq_refl). reflexivity.
Qed.

Lemma mapM_combine_map : forall A B C (F : A -> B -> res C) (g : A -> B) l,
  mapM (fun es => F (fst es) (snd es)) (combine l (map g l)) = mapM (fun e => F e (g e)) l.
Proof.
  induction l as [|x t IH]; [reflexivity|]. cbn [map combine mapM fst snd]. rewrite IH. reflexivity.
Qed.

Lemma mapM_ext : forall A B (f g : A -> res B) l, (forall x, f x = g x) -> mapM f l = mapM g l.
Proof. induction l as [|x t IH]; intros H; [reflexivity|]. cbn [mapM]. rewrite H, (IH H). reflexivity. Qed.

Lemma propagate_path_with_sound : forall pi els f a,
  propagate_path_with pi els (map (elem_shared pi) els) f a = propagate_path pi els f a.
Proof.
  intros pi els f a. unfold propagate_path_with, propagate_path.
  rewrite (mapM_combine_map _ _ _ (fun e sh => elem_contrib_with pi e sh f) (elem_shared pi) els).
  rewrite (mapM_ext _ _ _ (fun e => elem_contrib pi e f) els); [reflexivity|].
  intros e. apply elem_contrib_with_sound.
Qed.

(* ================================================================================================
   8. pi cancels in the chromatic dispersion of a span also for a dispersion table
      (beta3 from the least-squares parabola through beta2 at the table frequencies) *)
Lemma Ok_inj : forall A (a b : A), @Ok A a = Ok b -> a = b.
Proof. intros A a b H. injection H. auto. Qed.

Lemma qsum_red_correct : forall l, qsum_red l == qsum l.
Proof.
  induction l as [|x t IH]; [reflexivity|]. cbn [qsum_red fold_right]. fold (qsum_red t).
  rewrite Qred_correct, IH, qsum_cons. reflexivity.
Qed.

Lemma det3_plain : forall a b c d e f g h i,
  det3 a b c d e f g h i == a * (e * i - f * h) - b * (d * i - f * g) + c * (d * h - e * g).
Proof. intros. unfold det3. rewrite !Qred_correct. reflexivity. Qed.

(* scaled equality of two value lists: v * k == v' * k' pointwise *)
Definition scaled (k k' : Q) (v v' : Q) : Prop := v * k == v' * k'.

Lemma pmom_scaled : forall n xs ys ys' k k', Forall2 (scaled k k') ys ys' ->
  pmom n xs ys * k == pmom n xs ys' * k'.
Proof.
  intros n xs ys ys' k k' HF. unfold pmom. rewrite !qsum_red_correct. revert xs.
  induction HF as [|y y' l l' Hy HF IH]; intros xs.
  - destruct xs; cbn [combine map]; rewrite !qsum_nil; ring.
  - destruct xs as [|x xs]; cbn [combine map fst snd]; [rewrite !qsum_nil; ring|].
    rewrite !qsum_cons. unfold scaled in Hy.
    transitivity (Qpower (Qred x) (Z.of_nat n) * (y * k) + qsum (map (fun xy => Qpower (Qred (fst xy)) (Z.of_nat n) * snd xy) (combine xs l)) * k); [ring|].
    rewrite Hy, (IH xs). ring.
Qed.

Lemma polyfit_scaled : forall xs ys ys' k k' b, Forall2 (scaled k k') ys ys' ->
  polyfit2_lin xs ys = Ok b -> exists b', polyfit2_lin xs ys' = Ok b' /\ b * k == b' * k'.
Proof.
  intros xs ys ys' k k' b HF H. unfold polyfit2_lin in *.
  set (s0 := psum 0 xs) in *. set (s1 := psum 1 xs) in *. set (s2 := psum 2 xs) in *.
  set (s3 := psum 3 xs) in *. set (s4 := psum 4 xs) in *.
  set (d := Qred (det3 s4 s3 s2 s3 s2 s1 s2 s1 s0)) in *.
  destruct (Qeq_bool d 0) eqn:E; [discriminate|]. apply Ok_inj in H. subst b.
  eexists. split; [reflexivity|].
  assert (~ d == 0) as Hd by (intros Hc; apply Qeq_bool_iff in Hc; congruence).
  pose proof (pmom_scaled 0 xs ys ys' k k' HF) as H0.
  pose proof (pmom_scaled 1 xs ys ys' k k' HF) as H1.
  pose proof (pmom_scaled 2 xs ys ys' k k' HF) as H2.
  rewrite !Qred_correct, !det3_plain.
  set (t0 := pmom 0 xs ys) in *. set (t1 := pmom 1 xs ys) in *. set (t2 := pmom 2 xs ys) in *.
  set (u0 := pmom 0 xs ys') in *. set (u1 := pmom 1 xs ys') in *. set (u2 := pmom 2 xs ys') in *.
  transitivity ((s4 * ((t1 * k) * s0 - s1 * (t0 * k)) - (t2 * k) * (s3 * s0 - s1 * s2) + s2 * (s3 * (t0 * k) - (t1 * k) * s2)) / d);
    [field; exact Hd|].
  rewrite H0, H1, H2. field. exact Hd.
Qed.

Lemma beta2_scaled : forall pi pi' fib x v, ~ pi == 0 -> ~ pi' == 0 ->
  beta2 pi fib x = Ok v -> exists v', beta2 pi' fib x = Ok v' /\ scaled pi pi' v v'.
Proof.
  intros pi pi' fib x v Hpi Hpi' H. unfold beta2 in *.
  destruct (dispersion_at fib x) as [d|e]; cbn [bind] in *; [|discriminate]. apply Ok_inj in H. subst v.
  eexists. split; [reflexivity|]. unfold scaled. rewrite !Qred_correct. pose proof c_light_nz. field. auto.
Qed.

Lemma beta2s_scaled : forall pi pi' fib (pts : list (Q * Q)) vs, ~ pi == 0 -> ~ pi' == 0 ->
  mapM (fun p => beta2 pi fib (fst p)) pts = Ok vs ->
  exists vs', mapM (fun p => beta2 pi' fib (fst p)) pts = Ok vs' /\ Forall2 (scaled pi pi') vs vs'.
Proof.
  intros pi pi' fib pts. induction pts as [|p t IH]; intros vs Hpi Hpi' H; cbn [mapM] in *.
  - injection H as <-. exists []. split; [reflexivity|constructor].
  - destruct (beta2 pi fib (fst p)) as [v|e] eqn:E; cbn [bind] in H; [|discriminate].
    destruct (mapM (fun p0 => beta2 pi fib (fst p0)) t) as [r|e] eqn:Er; cbn [bind] in H; [|discriminate].
    injection H as <-. destruct (beta2_scaled pi pi' fib (fst p) v Hpi Hpi' E) as [v' [E' Hs]].
    destruct (IH r Hpi Hpi' eq_refl) as [r' [Er' HF]]. rewrite E', Er'. cbn [bind].
    exists (v' :: r'). split; [reflexivity|constructor; assumption].
Qed.

Lemma cd_table_pi_indep : forall pi pi' fib f pts v, f_disp fib = DispPerFreq pts ->
  ~ pi == 0 -> ~ pi' == 0 ->
  chromatic_dispersion pi fib f = Ok v ->
  exists v', chromatic_dispersion pi' fib f = Ok v' /\ v == v'.
Proof.
  intros pi pi' fib f pts v Hd Hpi Hpi' H. unfold chromatic_dispersion in *.
  destruct (beta2 pi fib f) as [b2|e] eqn:E2; cbn [bind] in H; [|discriminate].
  destruct (beta2_scaled pi pi' fib f b2 Hpi Hpi' E2) as [b2' [E2' Hs2]]. rewrite E2'. cbn [bind].
  unfold beta3 in *. rewrite Hd in *.
  destruct (mapM (fun p => beta2 pi fib (fst p)) pts) as [vs|e] eqn:Em; cbn [bind] in H; [|discriminate].
  destruct (beta2s_scaled pi pi' fib pts vs Hpi Hpi' Em) as [vs' [Em' HF]]. rewrite Em'. cbn [bind].
  destruct (polyfit2_lin (map (fun p => fst p - f_ref fib) pts) vs) as [b|e] eqn:Ep; cbn [bind] in H; [|discriminate].
  destruct (polyfit_scaled _ vs vs' pi pi' b HF Ep) as [b' [Ep' Hb]]. rewrite Ep'. cbn [bind].
  apply Ok_inj in H. subst v. eexists. split; [reflexivity|]. unfold scaled in Hs2.
  assert (b2 == b2' * pi' / pi) as -> by (rewrite <- Hs2; field; exact Hpi).
  assert (b == b' * pi' / pi) as -> by (rewrite <- Hb; field; exact Hpi).
  pose proof c_light_nz. field. auto.
Qed.
