(* C19 — exact shape: a response that passes `response_exact` states what was computed (Spec) and nothing else
   (Shape: no extra key in any object, no extra metric entry); the model of ResultElement.json passes it. *)
From Verif Require Import Prelude Model.Response Proofs.Response.
From Coq Require Import QArith Lia ZifyBool Permutation.
Open Scope Z_scope.

(* ------------------------------------------------------------------ declarative shape *)
Definition has_size (n : nat) (j : json) : Prop := exists kv, j = JObj kv /\ length kv = n.

Definition BodyShape (inner : list (string * json)) : Prop :=
  match jget "num-unnum-hop" inner, jget "label-hop" inner, jget "transponder" inner with
  | Some h, None, None => has_size 2 h                       (* node-id, link-tp-id *)
  | None, Some (JArr ls), None => Forall (has_size 2) ls     (* N, M *)
  | None, None, Some t => has_size 2 t                       (* transponder-type, transponder-mode *)
  | _, _, _ => False
  end.
(* a route object is { 'path-route-object': { 'index': ., <one kind>: . } } *)
Definition RouteObjShape (j : json) : Prop :=
  exists inner, j = JObj [("path-route-object"%string, JObj inner)] /\ length inner = 2%nat /\ BodyShape inner.
(* eleven entries of two members each *)
Definition MetricsShape (j : option json) : Prop :=
  exists pm, j = Some (JArr pm) /\ length pm = 11%nat /\ Forall (has_size 2) pm.
Definition PPShape (pp : json) : Prop :=
  exists kv, pp = JObj kv /\
    MetricsShape (jget "path-metric" kv) /\
    match jget "z-a-path-metric" kv with
    | Some za => length kv = 3%nat /\ MetricsShape (Some za)
    | None => length kv = 2%nat
    end /\
    exists objs, jget "path-route-objects" kv = Some (JArr objs) /\ Forall RouteObjShape objs.
Definition Shape (resp : json) : Prop :=
  exists kv, resp = JObj kv /\ length kv = 2%nat /\
    match jget "path-properties" kv, jget "no-path" kv with
    | Some pp, None => PPShape pp
    | None, Some (JObj np) =>
        match jget "path-properties" np with
        | Some pp => length np = 2%nat /\ PPShape pp
        | None => length np = 1%nat
        end
    | _, _ => False
    end.

(* ------------------------------------------------------------------ reflection *)
Lemma sizeb_spec : forall n j, sizeb n j = true <-> has_size n j.
Proof.
  intros n j. unfold sizeb, has_size. destruct j as [| | | | |kv]; split; try discriminate;
    try (intros (kv' & H & _); discriminate H).
  - intros H. apply Nat.eqb_eq in H. eauto.
  - intros (kv' & H & L). injection H as <-. apply Nat.eqb_eq. exact L.
Qed.

Lemma forallb_sizeb : forall n l, forallb (sizeb n) l = true <-> Forall (has_size n) l.
Proof.
  intros n l. rewrite forallb_forall, Forall_forall. split; intros H x Hx; apply sizeb_spec; apply H; exact Hx.
Qed.

Lemma body_shape_spec : forall inner, body_shape inner = true <-> BodyShape inner.
Proof.
  intros inner. unfold body_shape, BodyShape.
  destruct (jget "num-unnum-hop" inner) as [h|]; destruct (jget "label-hop" inner) as [[| | | |ls|]|];
    destruct (jget "transponder" inner) as [t|];
    try (split; [discriminate|intros []]); try apply sizeb_spec; try apply forallb_sizeb.
Qed.

Lemma route_obj_shape_spec : forall j, route_obj_shape j = true <-> RouteObjShape j.
Proof.
  intros j. unfold route_obj_shape, RouteObjShape. split.
  - destruct j as [| | | | |kv]; try discriminate. destruct kv as [|[k v] t]; try discriminate.
    destruct v as [| | | | |inner]; destruct t as [|? ?]; try discriminate. intros H.
    apply andb_prop in H as [H H3]. apply andb_prop in H as [H1 H2].
    apply String.eqb_eq in H1. apply Nat.eqb_eq in H2. apply body_shape_spec in H3. subst k. eauto.
  - intros (inner & -> & L & B). rewrite String.eqb_refl. rewrite (proj2 (Nat.eqb_eq _ _) L).
    rewrite (proj2 (body_shape_spec _) B). reflexivity.
Qed.

Lemma metrics_shape_spec : forall j, metrics_shape j = true <-> MetricsShape j.
Proof.
  intros j. unfold metrics_shape, MetricsShape. split.
  - destruct j as [[| | | |pm|]|]; try discriminate. intros H. apply andb_prop in H as [H1 H2].
    apply Nat.eqb_eq in H1. apply forallb_sizeb in H2. eauto.
  - intros (pm & -> & L & F). rewrite (proj2 (Nat.eqb_eq _ _) L), (proj2 (forallb_sizeb _ _) F). reflexivity.
Qed.

Lemma forallb_route : forall l, forallb route_obj_shape l = true <-> Forall RouteObjShape l.
Proof.
  intros l. rewrite forallb_forall, Forall_forall. split; intros H x Hx; apply route_obj_shape_spec; apply H; exact Hx.
Qed.

Lemma pp_shape_spec : forall pp, pp_shape pp = true <-> PPShape pp.
Proof.
  intros pp. unfold pp_shape, PPShape. split.
  - destruct pp as [| | | | |kv]; try discriminate. intros H.
    apply andb_prop in H as [H H3]. apply andb_prop in H as [H1 H2]. apply metrics_shape_spec in H1.
    exists kv. split; [reflexivity|]. split; [exact H1|]. split.
    + destruct (jget "z-a-path-metric" kv) as [za|].
      * apply andb_prop in H2 as [A B]. apply Nat.eqb_eq in A. apply metrics_shape_spec in B. auto.
      * apply Nat.eqb_eq in H2. exact H2.
    + destruct (jget "path-route-objects" kv) as [[| | | |objs|]|]; try discriminate.
      exists objs. split; [reflexivity|]. apply forallb_route. exact H3.
  - intros (kv & -> & M & Z & objs & J & F). rewrite (proj2 (metrics_shape_spec _) M), J, (proj2 (forallb_route _) F).
    destruct (jget "z-a-path-metric" kv) as [za|].
    + destruct Z as [A B]. rewrite (proj2 (Nat.eqb_eq _ _) A), (proj2 (metrics_shape_spec _) B). reflexivity.
    + rewrite (proj2 (Nat.eqb_eq _ _) Z). reflexivity.
Qed.

Lemma shape_ok_spec : forall resp, shape_ok resp = true <-> Shape resp.
Proof.
  intros resp. unfold shape_ok, Shape. split.
  - destruct resp as [| | | | |kv]; try discriminate. intros H. apply andb_prop in H as [H1 H2].
    apply Nat.eqb_eq in H1. exists kv. split; [reflexivity|]. split; [exact H1|].
    destruct (jget "path-properties" kv) as [pp|]; destruct (jget "no-path" kv) as [[| | | | |np]|]; try discriminate.
    + apply pp_shape_spec. exact H2.
    + destruct (jget "path-properties" np) as [pp|].
      * apply andb_prop in H2 as [A B]. apply Nat.eqb_eq in A. apply pp_shape_spec in B. auto.
      * apply Nat.eqb_eq in H2. exact H2.
  - intros (kv & -> & L & H). rewrite (proj2 (Nat.eqb_eq _ _) L). cbn [andb].
    destruct (jget "path-properties" kv) as [pp|]; destruct (jget "no-path" kv) as [[| | | | |np]|]; try contradiction.
    + apply pp_shape_spec. exact H.
    + destruct (jget "path-properties" np) as [pp|].
      * destruct H as [A B]. rewrite (proj2 (Nat.eqb_eq _ _) A), (proj2 (pp_shape_spec _) B). reflexivity.
      * apply Nat.eqb_eq. exact H.
Qed.

Theorem response_exact_spec : forall o resp, response_exact o resp = true <-> Spec o resp /\ Shape resp.
Proof.
  intros o resp. unfold response_exact. rewrite andb_true_iff, response_ok_spec, shape_ok_spec. reflexivity.
Qed.

(* ------------------------------------------------------------------ the model passes the strict validator *)
Lemma forallb_label_json : forall l, forallb (sizeb 2) (map label_json l) = true.
Proof. induction l as [|p t IH]; [reflexivity|]. cbn [map forallb label_json sizeb length]. exact IH. Qed.

Lemma route_obj_shape_item : forall i it, route_obj_shape (item_obj i it) = true.
Proof.
  intros i it. unfold route_obj_shape, item_obj. rewrite String.eqb_refl.
  destruct it as [a b|l|ty m]; cbn [length Nat.eqb andb]; unfold body_shape; jget_simp; cbn [sizeb length Nat.eqb];
    try reflexivity. apply forallb_label_json.
Qed.

Lemma forallb_index_from : forall items i, forallb route_obj_shape (index_from i items) = true.
Proof.
  induction items as [|it t IH]; intros i; [reflexivity|].
  cbn [index_from forallb]. rewrite route_obj_shape_item, IH. reflexivity.
Qed.

Lemma metrics_shape_gen : forall rx o l, expected_metrics rx o = Some l ->
  metrics_shape (Some (JArr (map metric_obj l))) = true.
Proof.
  intros rx o l E. destruct (expected_metrics_values _ _ _ E) as (m1 & m2 & m3 & m4 & lo & hi & p1 & p2 & p3 & H).
  destruct H as (_ & _ & _ & _ & _ & _ & _ & _ & _ & ->). reflexivity.
Qed.

Lemma path_properties_shape : forall o pp, path_properties o = Ok pp -> pp_shape pp = true.
Proof.
  intros o pp H. unfold path_properties, bind in H.
  destruct (path_metric (o_fwd o) o) as [pm|] eqn:PM; [|discriminate].
  destruct (path_metric_inv _ _ _ PM) as (rx & l & F & E & ->).
  assert (D : forall pro, detailed_path_json o = Ok pro -> forallb route_obj_shape pro = true).
  { intros pro HD. unfold detailed_path_json in HD. destruct (o_path o) as [|h t]; [injection HD as <-; reflexivity|].
    unfold bind in HD. destruct (labels_of o) as [lab|]; [|discriminate]. injection HD as <-. apply forallb_index_from. }
  destruct (o_bidir o).
  - destruct (path_metric (o_rev o) o) as [za|] eqn:ZA; [|discriminate].
    destruct (path_metric_inv _ _ _ ZA) as (rv & l' & R & E' & ->).
    destruct (detailed_path_json o) as [pro|] eqn:HD; [|discriminate]. injection H as <-.
    unfold pp_shape. jget_simp. rewrite (metrics_shape_gen _ _ _ E), (metrics_shape_gen _ _ _ E'), (D pro eq_refl). reflexivity.
  - destruct (detailed_path_json o) as [pro|] eqn:HD; [|discriminate]. injection H as <-.
    unfold pp_shape. jget_simp. rewrite (metrics_shape_gen _ _ _ E), (D pro eq_refl). reflexivity.
Qed.

Theorem pathresult_shape : forall o r, pathresult o = Ok r -> shape_ok r = true.
Proof.
  intros o r H. unfold pathresult in H. destruct (o_block o) as [reason|].
  - destruct (mem_s reason BLOCKING_NOPATH).
    + injection H as <-. unfold shape_ok. jget_simp. reflexivity.
    + unfold bind in H. destruct (path_properties o) as [pp|] eqn:PP; [|discriminate]. injection H as <-.
      unfold shape_ok. jget_simp. rewrite (path_properties_shape _ _ PP). reflexivity.
  - unfold bind in H. destruct (path_properties o) as [pp|] eqn:PP; [|discriminate]. injection H as <-.
    unfold shape_ok. jget_simp. rewrite (path_properties_shape _ _ PP). reflexivity.
Qed.

Theorem pathresult_exact : forall o r,
  (o_path o = [] -> o_fwd o = None) -> pathresult o = Ok r -> response_exact o r = true.
Proof.
  intros o r WF H. unfold response_exact. rewrite (pathresult_ok _ _ WF H), (pathresult_shape _ _ H). reflexivity.
Qed.

(* ------------------------------------------------------------------ what exactness means for the keys *)
Lemma jget_in : forall k kv v, jget k kv = Some v -> In k (map fst kv).
Proof.
  induction kv as [|[k' v'] t IH]; intros v H; cbn [jget] in H; [discriminate|].
  destruct (String.eqb k k') eqn:E; cbn [map fst In].
  - apply String.eqb_eq in E. left. symmetry. exact E.
  - right. eapply IH. exact H.
Qed.

(* an object of n members in which n distinct keys can be looked up has exactly these keys *)
Lemma keys_exact : forall kv ks, NoDup ks -> length kv = length ks ->
  (forall k, In k ks -> jget k kv <> None) -> Permutation ks (map fst kv).
Proof.
  intros kv ks ND L H. apply NoDup_Permutation_bis; [exact ND|rewrite map_length; lia|].
  intros k Hk. specialize (H k Hk). destruct (jget k kv) as [v|] eqn:E; [|contradiction]. eapply jget_in. exact E.
Qed.

Definition metric_types (pm : list json) : list string :=
  flat_map (fun e => match e with
                     | JObj kv => match jget "metric-type" kv with Some (JStr s) => [s] | _ => [] end
                     | _ => []
                     end) pm.

Lemma read_property_in : forall pm name v, read_property pm name = Some v -> In name (metric_types pm).
Proof.
  induction pm as [|e t IH]; intros name v H; cbn [read_property] in H; [discriminate|].
  unfold metric_types. cbn [flat_map]. apply in_or_app.
  destruct e as [| | | | |kv]; try (right; eapply IH; exact H).
  destruct (jget "metric-type" kv) as [[| | |s| |]|]; try (right; eapply IH; exact H).
  destruct (String.eqb s name) eqn:E.
  - apply String.eqb_eq in E. left. left. exact E.
  - right. eapply IH. exact H.
Qed.

Lemma metric_types_length : forall pm, (length (metric_types pm) <= length pm)%nat.
Proof.
  induction pm as [|e t IH]; [apply Nat.le_refl|]. unfold metric_types in *. cbn [flat_map length]. rewrite app_length.
  destruct e as [| | | | |kv]; cbn [length]; try lia.
  destruct (jget "metric-type" kv) as [[| | |s| |]|]; cbn [length]; lia.
Qed.

(* the metric list of an exact response has one entry per metric of the code's list and no other *)
Theorem exact_metric_entries : forall r o j,
  MetricsSpec r o j -> MetricsShape j ->
  exists pm, j = Some (JArr pm) /\ Permutation METRIC_NAMES (metric_types pm).
Proof.
  intros r o j (rx & pm & l & _ & -> & E & H) (pm' & J & L & _). injection J as <-.
  exists pm. split; [reflexivity|].
  apply NoDup_Permutation_bis; [apply metric_names_nodup| |].
  - pose proof (metric_types_length pm). rewrite L in H0. exact H0.
  - intros name Hn. rewrite <- (expected_metrics_names _ _ _ E) in Hn.
    apply in_map_iff in Hn as ([n v] & <- & Hin). destruct (H _ _ Hin) as (jv & R & _).
    eapply read_property_in. exact R.
Qed.

(* keys of the top-level object and of the path properties of an exact response *)
Theorem exact_keys : forall o resp, Spec o resp -> Shape resp ->
  exists kv, resp = JObj kv /\
    Permutation ["response-id"; match o_block o with None => "path-properties" | Some _ => "no-path" end]%string (map fst kv) /\
    (reports_path o = true ->
     exists ppkv, response_pp resp = Some (JObj ppkv) /\
       Permutation (if o_bidir o then ["path-metric"; "z-a-path-metric"; "path-route-objects"]
                    else ["path-metric"; "path-route-objects"])%string (map fst ppkv)).
Proof.
  intros o resp S (kv & -> & L & SH). exists kv. split; [reflexivity|].
  pose proof S as (kv' & Ekv & I & HS). injection Ekv as <-. split.
  - destruct (o_block o).
    + apply keys_exact; [repeat constructor; cbn; intuition discriminate|exact L|].
      intros k [<-|[<-|[]]]; [rewrite I; discriminate|].
      destruct HS as (_ & np & -> & _). discriminate.
    + apply keys_exact; [repeat constructor; cbn; intuition discriminate|exact L|].
      intros k [<-|[<-|[]]]; [rewrite I; discriminate|].
      destruct HS as (_ & pp & -> & _). discriminate.
  - intros RP. destruct (Spec_pp _ _ S RP) as (pp & E & (ppkv & -> & M1 & M2 & lab & objs & _ & J & _)).
    exists ppkv. split; [exact E|].
    assert (PS : PPShape (JObj ppkv)).
    { cbn [response_pp] in E. destruct (jget "path-properties" kv) as [pp0|].
      - injection E as ->. destruct (jget "no-path" kv) as [[| | | | |np]|]; try contradiction. exact SH.
      - destruct (jget "no-path" kv) as [[| | | | |np]|]; try discriminate. rewrite E in SH. apply SH. }
    destruct PS as (ppkv' & Ep & MS & Z & _). injection Ep as <-.
    destruct (o_bidir o).
    + destruct M2 as (rv & pm & l & _ & Jz & _). rewrite Jz in Z. destruct Z as [L3 _].
      apply keys_exact; [repeat constructor; cbn; intuition discriminate|exact L3|].
      destruct M1 as (rx & pm1 & l1 & _ & J1 & _).
      intros k [<-|[<-|[<-|[]]]]; [rewrite J1|rewrite Jz|rewrite J]; discriminate.
    + rewrite M2 in Z.
      apply keys_exact; [repeat constructor; cbn; intuition discriminate|exact Z|].
      destruct M1 as (rx & pm1 & l1 & _ & J1 & _).
      intros k [<-|[<-|[]]]; [rewrite J1|rewrite J]; discriminate.
Qed.
