(* C19 — requests_aggregation, run level: when the original ids are distinct and contain no '|', and the groups name
   existing requests at most once each, then after aggregation the reported ids are still distinct and no group names
   a request that no longer exists (the statement C12's own model proves as no_stale). *)
From Verif Require Import Prelude Model.Response Proofs.Response Proofs.ResponseAgg Proofs.ResponseDisj.
From Coq Require Import QArith Lia ZifyBool Permutation.
Open Scope Z_scope.

(* ------------------------------------------------------------------ strings: the joined id determines its first member *)
Definition bar : ascii := "|"%char.
Fixpoint has_bar (s : string) : bool :=
  match s with EmptyString => false | String c t => Ascii.eqb c bar || has_bar t end.
Fixpoint before_bar (s : string) : string :=
  match s with
  | EmptyString => EmptyString
  | String c t => if Ascii.eqb c bar then EmptyString else String c (before_bar t)
  end.

Lemma has_bar_app : forall a b, has_bar (a ++ b) = has_bar a || has_bar b.
Proof. induction a as [|c a IH]; intros b; cbn; [reflexivity|]. rewrite IH, orb_assoc. reflexivity. Qed.
Lemma before_bar_app : forall a b, has_bar a = false -> before_bar (a ++ b) = (a ++ before_bar b)%string.
Proof.
  induction a as [|c a IH]; intros b H; cbn in *; [reflexivity|].
  apply orb_false_iff in H as [H1 H2]. rewrite H1, IH by exact H2. reflexivity.
Qed.
Lemma append_inj_r : forall a b c : string, (a ++ c = b ++ c)%string -> a = b.
Proof.
  induction a as [|x a IH]; intros [|y b] c H; cbn in H.
  - reflexivity.
  - exfalso. apply (f_equal String.length) in H. cbn in H. rewrite append_length in H. lia.
  - exfalso. apply (f_equal String.length) in H. cbn in H. rewrite append_length in H. lia.
  - injection H as -> H. f_equal. eapply IH. exact H.
Qed.

Lemma join_cons2 : forall s x y t, join s (x :: y :: t) = (x ++ s ++ join s (y :: t))%string.
Proof. reflexivity. Qed.

Lemma join_head_inj : forall x t1 y t2,
  has_bar x = false -> has_bar y = false -> join sep (x :: t1) = join sep (y :: t2) -> x = y.
Proof.
  intros x t1 y t2 Hx Hy H. destruct t1 as [|x2 t1]; destruct t2 as [|y2 t2].
  - exact H.
  - exfalso. rewrite join_cons2 in H. cbn [join] in H. rewrite H, !has_bar_app in Hx.
    rewrite Hy in Hx. cbn in Hx. discriminate.
  - exfalso. rewrite join_cons2 in H. cbn [join] in H. rewrite <- H, !has_bar_app in Hy.
    rewrite Hx in Hy. cbn in Hy. discriminate.
  - rewrite !join_cons2 in H. apply (f_equal before_bar) in H.
    rewrite (before_bar_app x), (before_bar_app y) in H by assumption. cbn in H.
    eapply append_inj_r. exact H.
Qed.

(* ------------------------------------------------------------------ reported ids stay distinct *)
Definition barfree (reqs : list areq) : Prop := Forall (fun r => has_bar (a_id r) = false) reqs.

Lemma id_of_barfree : forall reqs t, barfree reqs -> has_bar (id_of reqs t) = false.
Proof.
  intros reqs t BF. unfold id_of, oget. destruct (by_tag reqs t) as [r|] eqn:B; [|reflexivity].
  apply by_tag_some in B as [I _]. unfold barfree in BF. rewrite Forall_forall in BF. apply BF. exact I.
Qed.

Lemma id_of_tag : forall reqs r, NoDup (map a_tag reqs) -> In r reqs -> id_of reqs (a_tag r) = a_id r.
Proof. intros reqs r ND I. unfold id_of, oget. rewrite (by_tag_in reqs r ND I). reflexivity. Qed.

Lemma NoDup_map_inj_in : forall A B (f : A -> B) l,
  (forall x y, In x l -> In y l -> f x = f y -> x = y) -> NoDup l -> NoDup (map f l).
Proof.
  intros A B f l. induction l as [|x t IH]; intros Inj ND; [constructor|].
  inversion ND as [|? ? Hn ND']; subst. cbn [map]. constructor.
  - intros H. apply in_map_iff in H as (y & E & Hy). apply Hn.
    rewrite (Inj x y (or_introl eq_refl) (or_intror Hy) (eq_sym E)). exact Hy.
  - apply IH; [|exact ND']. intros a b Ha Hb. apply Inj; right; assumption.
Qed.

Lemma nodup_map_inj : forall A B (f : A -> B) l x y,
  NoDup (map f l) -> In x l -> In y l -> f x = f y -> x = y.
Proof.
  intros A B f l x y. induction l as [|z l IH]; intros ND H1 H2 E; [destruct H1|].
  cbn [map] in ND. inversion ND as [|? ? Hn ND']; subst.
  destruct H1 as [->|H1]; destruct H2 as [->|H2]; try reflexivity.
  - exfalso. apply Hn. rewrite E. apply in_map. exact H2.
  - exfalso. apply Hn. rewrite <- E. apply in_map. exact H1.
  - apply IH; assumption.
Qed.

Lemma inv_tags : forall reqs local, NoDup (map a_tag reqs) -> Inv reqs local ->
  NoDup (map a_tag local) /\ forall r, In r local -> In (a_tag r) (map a_tag reqs).
Proof.
  intros reqs local NDr [P F].
  assert (HH : Forall (fun r => hd_error (a_members r) = Some (a_tag r)) local).
  { eapply Forall_impl; [|exact F]. intros r J. exact (j_head _ _ J). }
  split.
  - apply tags_nodup; [exact HH|]. eapply Permutation_NoDup; [symmetry; exact P|exact NDr].
  - intros r Hr. eapply Permutation_in; [exact P|]. apply tags_in_members; [exact HH|]. apply in_map. exact Hr.
Qed.

Theorem inv_ids_nodup : forall reqs local,
  NoDup (map a_tag reqs) -> NoDup (map a_id reqs) -> barfree reqs -> Inv reqs local ->
  NoDup (map a_id local).
Proof.
  intros reqs local NDt NDi BF I. destruct (inv_tags _ _ NDt I) as [NDl Tin]. destruct I as [P F].
  rewrite Forall_forall in F.
  apply NoDup_map_inj_in; [|eapply NoDup_map_inv; exact NDl].
  intros r1 r2 H1 H2 E.
  assert (HT : a_tag r1 = a_tag r2).
  { pose proof (F _ H1) as J1. pose proof (F _ H2) as J2.
    rewrite (j_id _ _ J1), (j_id _ _ J2) in E.
    pose proof (j_head _ _ J1) as h1. pose proof (j_head _ _ J2) as h2.
    destruct (a_members r1) as [|m1 ms1]; [discriminate|]. destruct (a_members r2) as [|m2 ms2]; [discriminate|].
    injection h1 as ->. injection h2 as ->. cbn [map] in E.
    apply join_head_inj in E; try (apply id_of_barfree; exact BF).
    destruct (proj1 (in_map_iff _ _ _) (Tin _ H1)) as (o1 & T1 & I1).
    destruct (proj1 (in_map_iff _ _ _) (Tin _ H2)) as (o2 & T2 & I2).
    rewrite <- T1, <- T2 in E. rewrite !id_of_tag in E by assumption.
    assert (o1 = o2).
    { clear - NDi I1 I2 E. induction reqs as [|x t IH]; [destruct I1|]. cbn [map] in NDi.
      inversion NDi as [|? ? Hn ND']; subst. destruct I1 as [->|I1]; destruct I2 as [->|I2]; try reflexivity.
      - exfalso. apply Hn. rewrite E. apply in_map. exact I2.
      - exfalso. apply Hn. rewrite <- E. apply in_map. exact I1.
      - apply IH; assumption. }
    subst o2. congruence. }
  pose proof (by_tag_in local r1 NDl H1) as B1. pose proof (by_tag_in local r2 NDl H2) as B2.
  rewrite HT in B1. rewrite B1 in B2. injection B2 as ->. reflexivity.
Qed.

(* ------------------------------------------------------------------ groups keep naming existing requests *)
Definition GInv (local : list areq) (disj : disjs) : Prop :=
  Forall (fun d => NoDup d) disj /\ forall d x, In d disj -> In x d -> In x (map a_id local).

Lemma NoDup_snoc : forall A (l : list A) x, NoDup l -> ~ In x l -> NoDup (l ++ [x]).
Proof.
  intros A l x ND Hn. induction l as [|y t IH]; cbn [app]; [constructor; [intros []|constructor]|].
  inversion ND as [|? ? Hy ND']; subst. constructor.
  - intros H. apply in_app_or in H as [H|[H|[]]]; [contradiction|]. subst. apply Hn. left. reflexivity.
  - apply IH; [exact ND'|]. intros H. apply Hn. right. exact H.
Qed.

Lemma agg_step_full : forall local disj t local' disj', agg_step (local, disj) t = (local', disj') ->
  (local' = local /\ disj' = disj) \/
  exists req this_r,
    by_tag local t = Some req /\ In this_r local /\ can_absorb req disj this_r = true /\
    local' = map (fun r => if Nat.eqb (a_tag r) (a_tag this_r) then merge this_r req else r)
                 (filter (fun r => negb (Nat.eqb (a_tag r) t)) local) /\
    disj' = groups_after (a_id req) (a_id this_r) (a_id (merge this_r req)) disj.
Proof.
  intros local disj t local' disj' H. unfold agg_step in H. fold (by_tag local t) in H.
  destruct (by_tag local t) as [req|] eqn:B; [|left; injection H as <- <-; auto].
  destruct (find (can_absorb req disj) local) as [this_r|] eqn:F; [|left; injection H as <- <-; auto].
  right. injection H as <- <-. apply find_some in F as [I C]. exists req, this_r. auto.
Qed.

Lemma step_ginv : forall reqs local disj t local' disj',
  NoDup (map a_tag reqs) -> NoDup (map a_id reqs) -> barfree reqs ->
  Inv reqs local -> GInv local disj -> agg_step (local, disj) t = (local', disj') -> GInv local' disj'.
Proof.
  intros reqs local disj t local' disj' NDt NDi BF I [G1 G2] S.
  pose proof (agg_step_inv _ _ _ _ _ _ NDt I S) as I'.
  destruct (agg_step_full _ _ _ _ _ S) as [[-> ->]|(req & this_r & B & Ithis & C & El & ->)]; [split; assumption|].
  apply by_tag_some in B as [Ireq Treq].
  destruct (inv_tags _ _ NDt I) as [NDl _].
  pose proof (inv_ids_nodup _ _ NDt NDi BF I') as NDi'.
  destruct (absorbed_same_shape _ _ _ C) as (NEab & _).
  set (a := a_id req) in *. set (b := a_id this_r) in *. set (nr := merge this_r req) in *. set (n := a_id nr) in *.
  destruct (joined_id_new this_r req) as [Nnb Nna]. fold nr n b a in Nnb, Nna.
  assert (Tne : a_tag this_r <> t).
  { intros E. assert (this_r = req).
    { pose proof (by_tag_in local this_r NDl Ithis) as A1. pose proof (by_tag_in local req NDl Ireq) as A2.
      rewrite E, <- Treq in A1. rewrite A1 in A2. injection A2 as ->. reflexivity. }
    subst this_r. apply NEab. reflexivity. }
  (* who is in local' *)
  assert (Inr : In nr local').
  { rewrite El. apply in_map_iff. exists this_r. split; [rewrite Nat.eqb_refl; reflexivity|].
    apply filter_In. split; [exact Ithis|]. apply Nat.eqb_neq in Tne. rewrite Tne. reflexivity. }
  assert (Keep : forall r, In r local -> a_id r <> a -> a_id r <> b -> In r local').
  { intros r Hr Na Nb. rewrite El. apply in_map_iff. exists r.
    assert (T1 : a_tag r <> t).
    { intros E. assert (r = req).
      { pose proof (by_tag_in local r NDl Hr) as A1. pose proof (by_tag_in local req NDl Ireq) as A2.
        rewrite E, <- Treq in A1. rewrite A1 in A2. injection A2 as ->. reflexivity. }
      subst r. apply Na. reflexivity. }
    assert (T2 : a_tag r <> a_tag this_r).
    { intros E. assert (r = this_r).
      { pose proof (by_tag_in local r NDl Hr) as A1. pose proof (by_tag_in local this_r NDl Ithis) as A2.
        rewrite E in A1. rewrite A1 in A2. injection A2 as ->. reflexivity. }
      subst r. apply Nb. reflexivity. }
    split.
    - apply Nat.eqb_neq in T2. rewrite T2. reflexivity.
    - apply filter_In. split; [exact Hr|]. apply Nat.eqb_neq in T1. rewrite T1. reflexivity. }
  (* the joined id is new *)
  assert (Fresh : forall r, In r local -> a_id r <> n).
  { intros r Hr E.
    destruct (String.eqb (a_id r) a) eqn:Ea; [apply String.eqb_eq in Ea; apply Nna; rewrite <- E; exact Ea|].
    destruct (String.eqb (a_id r) b) eqn:Eb; [apply String.eqb_eq in Eb; apply Nnb; rewrite <- E; exact Eb|].
    apply String.eqb_neq in Ea. apply String.eqb_neq in Eb.
    pose proof (Keep r Hr Ea Eb) as Hr'.
    assert (Er : r = nr) by (apply (nodup_map_inj _ _ a_id local' r nr NDi' Hr' Inr); exact E).
    assert (E2 : nr = this_r).
    { pose proof (by_tag_in local r NDl Hr) as A1. pose proof (by_tag_in local this_r NDl Ithis) as A2.
      rewrite Er in A1. change (a_tag nr) with (a_tag this_r) in A1. rewrite A1 in A2. injection A2 as E2. exact E2. }
    apply Nnb. unfold n, b. rewrite E2. reflexivity. }
  assert (Nnd : forall d, In d disj -> ~ In n d).
  { intros d Hd Hn. apply (G2 d n Hd) in Hn. apply in_map_iff in Hn as (r & E & Hr). exact (Fresh r Hr E). }
  destruct (groups_after_spec a b n disj) as (Gb & _ & Ginv & _).
  rewrite Forall_forall in G1, Gb. split.
  - apply Forall_forall. intros d' Hd'. destruct (Ginv d' Hd') as (d & Hd & ->).
    unfold rename. destruct (mem_s a d) eqn:M; [|apply G1; exact Hd].
    apply NoDup_snoc; [apply (remove_first_nodup a d (G1 d Hd))|].
    intros H. apply (Nnd d Hd). eapply in_remove_first. exact H.
  - intros d' x Hd' Hx. pose proof (Gb d' Hd') as Nb'. destruct (Ginv d' Hd') as (d & Hd & ->).
    apply rename_in in Hx as Hx'. destruct Hx' as [[-> _]|Hx'].
    + apply in_map_iff. exists nr. split; [reflexivity|exact Inr].
    + assert (Na : x <> a).
      { intros ->. destruct (mem_s a d) eqn:M.
        - apply (rename_drops_old a n d (G1 d Hd) Nna). exact Hx.
        - apply mem_s_false in M. contradiction. }
      assert (Nb : x <> b) by (intros ->; contradiction).
      apply (G2 d x Hd) in Hx'. apply in_map_iff in Hx' as (r & <- & Hr).
      apply in_map. apply Keep; assumption.
Qed.

Lemma fold_ginv : forall reqs tags local disj local' disj',
  NoDup (map a_tag reqs) -> NoDup (map a_id reqs) -> barfree reqs ->
  Inv reqs local -> GInv local disj ->
  fold_left agg_step tags (local, disj) = (local', disj') -> Inv reqs local' /\ GInv local' disj'.
Proof.
  intros reqs tags. induction tags as [|t ts IH]; intros local disj local' disj' NDt NDi BF I G H; cbn [fold_left] in H.
  - injection H as <- <-. split; assumption.
  - destruct (agg_step (local, disj) t) as [l1 d1] eqn:S.
    apply (IH l1 d1 local' disj' NDt NDi BF); [eapply agg_step_inv; eassumption| |exact H].
    eapply (step_ginv reqs local disj t l1 d1); eassumption.
Qed.

(* ================================================================== the theorem *)
Theorem aggregation_no_stale : forall reqs disj out disj',
  fresh reqs -> NoDup (map a_id reqs) -> barfree reqs ->
  (* every group names existing requests, each at most once *)
  Forall (fun d => NoDup d) disj -> (forall d x, In d disj -> In x d -> In x (map a_id reqs)) ->
  requests_aggregation reqs disj = (out, disj') ->
  (* reported ids are distinct; every id named by a remaining group is the id of a reported request, named once *)
  NoDup (map a_id out) /\
  Forall (fun d => NoDup d) disj' /\
  (forall d x, In d disj' -> In x d -> In x (map a_id out)).
Proof.
  intros reqs disj out disj' FR NDi BF G1 G2 H. unfold requests_aggregation in H.
  destruct (fold_ginv reqs _ _ _ _ _ (proj1 FR) NDi BF (inv_init _ FR) (conj G1 G2) H) as [I [G1' G2']].
  split; [eapply inv_ids_nodup; try eassumption; apply FR|]. split; assumption.
Qed.
