(* C04, translator tie: the definitions translated from /repo's source on every run (Gen/AmpGen.v) are the hand-written
   model (Model/Amp.v), for EVERY number structure N (so for NumR, about which the theorems are, and for NumF, which is
   executed).  A semantic edit of one of the translated source fragments changes the generated term and breaks a lemma. *)
From Coq Require Import Reals Psatz Lia List.
From Verif Require Import Prelude Num Model.Amp Gen.AmpGen.
Import ListNotations.

Section G.
Context {N : Num}.
Local Open Scope num_scope.

(* Edfa._nf *)
Lemma gen_nf : forall (s : @stage N) g pin nch sw, g_nf s g pin nch sw = nf_stage s g pin nch sw.
Proof. intros [m gmin gmax] g pin nch sw. destruct m; reflexivity. Qed.

(* Edfa._calc_nf *)
Lemma gen_calc_nf_avg : forall (k : @amp_kind N) eff pin nch sw, g_calc_nf_avg k eff pin nch sw = calc_nf_avg k eff pin nch sw.
Proof. intros [s | pre boost] eff pin nch sw; unfold g_calc_nf_avg, calc_nf_avg; rewrite ?gen_nf; reflexivity. Qed.

Lemma gen_edfa_nf : forall (a : @amp N) chs,
  edfa_nf a chs =
  map (fun r => g_nf_channel r (g_calc_nf_avg (a_kind a) (edfa_eff a chs) (edfa_pin_db chs) (nlen (map k_pch chs)) (edfa_slot_width chs)))
      (grid_interp a (a_nf_ripple a) chs).
Proof. reflexivity. Qed.

(* Edfa.interpol_params *)
Lemma gen_pin_db : forall chs : list (@ch N), edfa_pin_db chs = g_pin_db (nsum (map k_pch chs)).
Proof. reflexivity. Qed.
Lemma gen_eff_gain : forall g pmax pin : NT N, g_eff_gain g pmax pin = eff_gain g pmax pin.
Proof. reflexivity. Qed.
Lemma gen_edfa_eff : forall (a : @amp N) chs,
  edfa_eff a chs = g_eff_gain (a_gain_target a) (a_p_max a) (g_pin_db (nsum (map k_pch chs))).
Proof. reflexivity. Qed.

Lemma gen_clamp : forall (a : @amp N) chs,
  edfa_eff a chs = g_eff_gain (a_gain_target a) (a_p_max a) (g_pin_db (nsum (map k_pch chs))) /\
  edfa_pin_db chs = g_pin_db (nsum (map k_pch chs)).
Proof. intros. split; reflexivity. Qed.

(* Edfa.noise_profile, Edfa.propagate *)
Lemma gen_ase_in : forall (c : @ch N) nf, g_ase_in c nf = ase_in c nf.
Proof. reflexivity. Qed.
Lemma gen_amp_ch : forall ov (c : @ch N) nf g,
  amp_ch ov c nf g = scale_ch (db2lin (g_channel_gain_db g ov)) (add_ase_ch (g_ase_in c nf) c).
Proof. reflexivity. Qed.

(* info.is_in_band as called by demuxed_spectral_information *)
Lemma gen_in_band : forall fmin fmax (c : @ch N), g_in_band fmin fmax c = in_band fmin fmax c.
Proof. reflexivity. Qed.

(* Edfa._gain_profile *)
Lemma gen_g1st : forall (a : @amp N) freqs dgt ripple,
  g1st_of a freqs dgt ripple =
  map2 (g_g1st_elem (a_gain_flatmax a) (g_dgts1 (g_targ_slope (a_tilt_target a) (a_f_min a) (a_f_max a)) (ols_slope freqs dgt))) ripple dgt.
Proof. reflexivity. Qed.

Lemma gen_normalise : forall (g1st : list (NT N)) eff, normalise g1st eff = map (fun g => g - g_voa g1st eff) g1st.
Proof. reflexivity. Qed.

Lemma gen_tilted : forall (g1st dgt : list (NT N)) eff x,
  tilt_by (normalise g1st eff) dgt x = map2 (g_tilted_elem (g_voa g1st eff) x) g1st dgt.
Proof.
  intros g1st dgt eff x. rewrite gen_normalise. unfold tilt_by. generalize (g_voa g1st eff). intros v.
  revert dgt. induction g1st as [|g t IH]; intros [|d dt]; cbn [map map2]; try reflexivity. rewrite IH. reflexivity.
Qed.

Lemma gen_profile_pieces : forall (a : @amp N) freqs dgt ripple (g1st : list (NT N)) eff x,
  g1st_of a freqs dgt ripple =
    map2 (g_g1st_elem (a_gain_flatmax a) (g_dgts1 (g_targ_slope (a_tilt_target a) (a_f_min a) (a_f_max a)) (ols_slope freqs dgt))) ripple dgt /\
  normalise g1st eff = map (fun g => nsub g (g_voa g1st eff)) g1st /\
  tilt_by (normalise g1st eff) dgt x = map2 (g_tilted_elem (g_voa g1st eff) x) g1st dgt.
Proof. intros. split; [apply gen_g1st|]. split; [apply gen_normalise | apply gen_tilted]. Qed.

Lemma gen_gavg : forall (pin g : list (NT N)) pin_db, gavg_of pin g pin_db = g_gavg (g_pout_db pin g) pin_db.
Proof. reflexivity. Qed.

Lemma gen_secant : forall eff xc gc xl gl xh gh : NT N, g_secant eff xc gc xl gl xh gh = secant_step eff xc gc xl gl xh gh.
Proof. reflexivity. Qed.

(* the whole decision structure of _gain_profile for two or more channels, in terms of the translated pieces *)
Lemma gen_gain_profile : forall (a : @amp N) freqs pin d0 d1 dt ripple pin_db eff,
  let dgt := d0 :: d1 :: dt in
  let g1st := g1st_of a freqs dgt ripple in
  let base := normalise g1st eff in
  let gavg := fun x => g_gavg (g_pout_db pin (tilt_by base dgt x)) pin_db in
  let dgts2 := g_dgts2 eff (g_pout_db pin base) pin_db in
  let dx := deltax_of g1st in
  gain_profile a freqs pin dgt ripple pin_db eff =
  if g_flat dx then base
  else tilt_by base dgt (g_secant eff dgts2 (gavg dgts2) (g_xlow dgts2 dx) (gavg (g_xlow dgts2 dx))
                                  (g_xhigh dgts2 dx) (gavg (g_xhigh dgts2 dx))).
Proof. reflexivity. Qed.

(* json_io._update_dual_stage *)
Lemma gen_dual : forall a b : NT N,
  g_dual_p_max a b = dual_p_max a b /\ g_dual_gain_flatmax a b = dual_gain_flatmax a b /\ g_dual_rejected a b = dual_rejected a b.
Proof. repeat split; reflexivity. Qed.

(* science_utils.estimate_nf_model: same outcome (same triple, or an error in both; the model's error strings carry a
   detail the source does not have) *)
Definition res_agree {A} (x y : res A) : Prop :=
  match x, y with Ok a, Ok b => a = b | Err _, Err _ => True | _, _ => False end.

Lemma gen_estimate : forall gmin gmax nfmin nfmax : NT N,
  res_agree (g_estimate_nf_model gmin gmax nfmin nfmax) (estimate_nf_model gmin gmax nfmin nfmax).
Proof.
  intros. unfold g_estimate_nf_model, estimate_nf_model, calc_nf_at. cbv zeta.
  repeat (match goal with |- context [if ?c then _ else _] =>
            lazymatch c with
            | negb ?d => destruct d eqn:?
            | _ => destruct c eqn:?
            end end; cbn [negb andb]);
    try exact I; try reflexivity; try discriminate; cbn [res_agree]; try exact I; try reflexivity.
Qed.
End G.

(* Edfa.interpol_params, slot width: over the reals (the test `nch > 1` is on the channel count) *)
Lemma gen_slot_width : forall (c0 : @ch NumR) (t : list (@ch NumR)),
  edfa_slot_width (c0 :: t) =
  g_slot_width (@nlen NumR (map k_pch (c0 :: t))) (k_f c0) (match t with c1 :: _ => k_f c1 | [] => k_f c0 end) (k_sw c0).
Proof.
  intros c0 t. unfold g_slot_width, nlen. numR. rewrite map_length. unfold Rltb.
  destruct t as [|c1 t']; cbn [edfa_slot_width length].
  - destruct (Rlt_dec 1 (IZR (Z.of_nat 1))) as [H|_]; [cbn in H; lra | reflexivity].
  - destruct (Rlt_dec 1 (IZR (Z.of_nat (S (S (length t')))))) as [_|H]; [reflexivity|].
    exfalso. apply H. rewrite <- INR_IZR_INZ. rewrite !S_INR. assert (0 <= INR (length t'))%R by apply pos_INR. lra.
Qed.
