(* C03 — proofs about the GN model at the instance NumR (Coq reals). *)
From Coq Require Import Reals Lra Lia List Permutation Rpower.
From Verif Require Import Prelude Num Model.GN.
Import ListNotations.
Open Scope R_scope.

Notation pchR := (@pch NumR).
Notation chanR := (@chan NumR).
Notation fiberR := (@fiber NumR).
Notation psiR := (@psi NumR). Notation etaR := (@eta NumR). Notation termR := (@term NumR).
Notation scale_pchR := (@scale_pch NumR). Notation scale_chanR := (@scale_chan NumR).
Notation rowR := (@row NumR). Notation nli_fromR := (@nli_from NumR). Notation nli_allR := (@nli_all NumR).

Ltac gn_unfold := unfold term, eta, psi, eff_length, weight, spm_weight, xpm_weight in *; numR.

Lemma Rinv_nonneg : forall x : R, 0 <= x -> 0 <= / x.
Proof.
  intros x [Hx | Hx].
  - left. apply Rinv_0_lt_compat. exact Hx.
  - subst x. rewrite Rinv_0. lra.
Qed.

(* ------------------------------------------------------------------ non-negativity *)
(* pump channel cj: baud rate >= 0, loss coefficient > 0 ; cut channel ci: baud rate >= 0. Nothing is assumed about
   the sign of the dispersion, of the frequency offset or of the fibre length. *)
Lemma psi_nonneg : forall (len : R) (ci cj : pchR),
  0 <= p_B ci -> 0 <= p_B cj -> 0 < p_alpha cj -> 0 <= psiR len ci cj.
Proof.
  intros len ci cj HBi HBj Ha. unfold psi, eff_length. numR.
  set (la := 1 / p_alpha cj).
  set (b2 := Rabs ((p_beta2 ci + p_beta2 cj) / 2)).
  set (le := (1 - exp (- p_alpha cj * len)) / p_alpha cj).
  assert (Hla : 0 < la). { unfold la. apply Rdiv_lt_0_compat; lra. }
  assert (Hb2 : 0 <= b2). { unfold b2. apply Rabs_pos. }
  assert (Hpi := PI_RGT_0).
  assert (Hc : 0 <= PI * PI * la * b2 * p_B ci).
  { apply Rmult_le_pos; [|exact HBi]. apply Rmult_le_pos; [|exact Hb2].
    apply Rmult_le_pos; [|lra]. apply Rmult_le_pos; lra. }
  apply Rmult_le_pos.
  - assert (H : arcsinh (PI * PI * la * b2 * p_B ci * (p_f cj - p_f ci - p_B cj / 2))
               <= arcsinh (PI * PI * la * b2 * p_B ci * (p_f cj - p_f ci + p_B cj / 2))).
    { apply arcsinh_le. apply Rmult_le_compat_l; [exact Hc | lra]. }
    lra.
  - unfold Rdiv at 1. apply Rmult_le_pos.
    + apply Rle_0_sqr.
    + apply Rinv_nonneg. apply Rmult_le_pos; [|lra]. apply Rmult_le_pos; [|exact Hb2]. lra.
Qed.

Definition good (c : pchR) : Prop := 0 < p_B c /\ 0 < p_alpha c.
Definition goodP (c : pchR) : Prop := good c /\ 0 <= p_P c.

Lemma weight_pos : forall b, 0 < @weight NumR b.
Proof. intros [|]; unfold weight, spm_weight, xpm_weight; numR; lra. Qed.

Lemma eta_nonneg : forall (len : R) (ci cj : pchR) b, good ci -> good cj -> 0 <= etaR len ci cj b.
Proof.
  intros len ci cj b [HBi _] [HBj Haj]. unfold eta. numR.
  assert (Hpsi := psi_nonneg len ci cj (Rlt_le _ _ HBi) (Rlt_le _ _ HBj) Haj).
  assert (Hw := weight_pos b).
  apply Rmult_le_pos; [lra|]. unfold Rdiv. apply Rmult_le_pos.
  - apply Rmult_le_pos; [|exact Hpsi]. apply Rmult_le_pos; [apply Rle_0_sqr | lra].
  - apply Rinv_nonneg. apply Rmult_le_pos; [lra|]. apply Rle_0_sqr.
Qed.

Lemma term_nonneg : forall (len : R) (ci cj : pchR) b, good ci -> good cj -> 0 <= p_P ci -> 0 <= termR len ci cj b.
Proof.
  intros len ci cj b Hi Hj HP. unfold term. numR.
  apply Rmult_le_pos; [|apply eta_nonneg; assumption].
  apply Rmult_le_pos; [exact HP | apply Rle_0_sqr].
Qed.

Lemma row_nonneg : forall (len : R) (ci : pchR) i l j,
  good ci -> 0 <= p_P ci -> Forall good l -> 0 <= rowR len ci i l j.
Proof.
  intros len ci i l. induction l as [|cj t IH]; intros j Hi HP Hl; cbn [row]; numR.
  - lra.
  - inversion Hl as [|? ? Hj Ht]; subst.
    assert (H1 := term_nonneg len ci cj (Nat.eqb i j) Hi Hj HP).
    assert (H2 := IH (S j) Hi HP Ht). lra.
Qed.

Lemma goodP_good : forall l, Forall goodP l -> Forall good l.
Proof. intros l H. eapply Forall_impl; [|exact H]. intros c [Hc _]. exact Hc. Qed.

Lemma nli_from_nonneg : forall (len : R) all l i,
  Forall goodP all -> Forall goodP l -> Forall (fun x : R => 0 <= x) (nli_fromR len all l i).
Proof.
  intros len all l. induction l as [|ci t IH]; intros i Hall Hl; cbn [nli_from]; constructor.
  - inversion Hl as [|? ? [Hg HP] Ht]; subst. apply row_nonneg; [exact Hg | exact HP | apply goodP_good; exact Hall].
  - inversion Hl; subst. apply IH; assumption.
Qed.

Theorem nli_nonneg : forall (len : R) l, Forall goodP l -> Forall (fun x : R => 0 <= x) (nli_allR len l).
Proof. intros len l H. unfold nli_all. apply nli_from_nonneg; exact H. Qed.

(* ------------------------------------------------------------------ cube law (any real factor k) *)
Lemma eta_scale : forall (len k : R) (ci cj : pchR) b,
  etaR len (scale_pchR k ci) (scale_pchR k cj) b = etaR len ci cj b.
Proof. intros. reflexivity. Qed.

Lemma term_scale : forall (len k : R) (ci cj : pchR) b,
  termR len (scale_pchR k ci) (scale_pchR k cj) b = k * k * k * termR len ci cj b.
Proof.
  intros. unfold term. rewrite eta_scale. cbn [scale_pch p_P]. numR. ring.
Qed.

Lemma row_scale : forall (len k : R) (ci : pchR) i l j,
  rowR len (scale_pchR k ci) i (map (scale_pchR k) l) j = k * k * k * rowR len ci i l j.
Proof.
  intros len k ci i l. induction l as [|cj t IH]; intros j; cbn [row map]; numR.
  - ring.
  - rewrite term_scale, IH. ring.
Qed.

Lemma nli_from_scale : forall (len k : R) all l i,
  nli_fromR len (map (scale_pchR k) all) (map (scale_pchR k) l) i = map (Rmult (k * k * k)) (nli_fromR len all l i).
Proof.
  intros len k all l. induction l as [|ci t IH]; intros i; cbn [nli_from map].
  - reflexivity.
  - rewrite row_scale, IH. reflexivity.
Qed.

Theorem nli_cubic : forall (len k : R) l,
  nli_allR len (map (scale_pchR k) l) = map (Rmult (k * k * k)) (nli_allR len l).
Proof. intros. unfold nli_all. apply nli_from_scale. Qed.

(* ------------------------------------------------------------------ monotone in every power *)
Definition same_phys (c c' : pchR) : Prop :=
  p_f c = p_f c' /\ p_B c = p_B c' /\ p_alpha c = p_alpha c' /\ p_beta2 c = p_beta2 c' /\ p_gamma c = p_gamma c'.
(* c' is c with its power raised (or kept) *)
Definition raised (c c' : pchR) : Prop := same_phys c c' /\ 0 <= p_P c <= p_P c'.

Lemma eta_same : forall (len : R) (ci ci' cj cj' : pchR) b,
  same_phys ci ci' -> same_phys cj cj' -> etaR len ci cj b = etaR len ci' cj' b.
Proof.
  intros len [f1 B1 P1 a1 b1 g1] [f1' B1' P1' a1' b1' g1'] [f2 B2 P2 a2 b2 g2] [f2' B2' P2' a2' b2' g2'] b.
  unfold same_phys. cbn [p_f p_B p_alpha p_beta2 p_gamma].
  intros (-> & -> & -> & -> & ->) (-> & -> & -> & -> & ->). reflexivity.
Qed.

Lemma same_good : forall c c', same_phys c c' -> good c -> good c'.
Proof. intros c c' (_ & HB & Ha & _) [H1 H2]. unfold good. rewrite <- HB, <- Ha. split; assumption. Qed.

Lemma term_mono : forall (len : R) (ci ci' cj cj' : pchR) b,
  good ci -> good cj -> raised ci ci' -> raised cj cj' -> termR len ci cj b <= termR len ci' cj' b.
Proof.
  intros len ci ci' cj cj' b Gi Gj [Si [Pi0 Pi]] [Sj [Pj0 Pj]]. unfold term. numR.
  rewrite <- (eta_same len ci ci' cj cj' b Si Sj).
  apply Rmult_le_compat_r; [apply eta_nonneg; assumption|].
  apply Rmult_le_compat; [exact Pi0 | apply Rle_0_sqr | exact Pi |].
  apply Rmult_le_compat; lra.
Qed.

Lemma row_mono : forall (len : R) (ci ci' : pchR) i l l' j,
  good ci -> raised ci ci' -> Forall good l -> Forall2 raised l l' ->
  rowR len ci i l j <= rowR len ci' i l' j.
Proof.
  intros len ci ci' i l l' j Gi Ri Gl H. revert j Gl.
  induction H as [|cj cj' t t' Rj Ht IH]; intros j Gl; cbn [row]; numR.
  - lra.
  - inversion Gl as [|? ? Gj Gt]; subst.
    assert (H1 := term_mono len ci ci' cj cj' (Nat.eqb i j) Gi Gj Ri Rj).
    assert (H2 := IH (S j) Gt). lra.
Qed.

Lemma nli_from_mono : forall (len : R) all all' l l' i,
  Forall good all -> Forall2 raised all all' -> Forall good l -> Forall2 raised l l' ->
  Forall2 Rle (nli_fromR len all l i) (nli_fromR len all' l' i).
Proof.
  intros len all all' l l' i Ga Ha Gl H. revert i Gl.
  induction H as [|ci ci' t t' Ri Ht IH]; intros i Gl; cbn [nli_from]; constructor.
  - inversion Gl; subst. apply row_mono; assumption.
  - inversion Gl; subst. apply IH. assumption.
Qed.

Theorem nli_mono_power : forall (len : R) l l',
  Forall good l -> Forall2 raised l l' -> Forall2 Rle (nli_allR len l) (nli_allR len l').
Proof. intros. unfold nli_all. apply nli_from_mono; assumption. Qed.

(* ------------------------------------------------------------------ index-free form: the NLI of a channel within a comb *)
(* sum over all pumps with the XPM weight ... *)
Fixpoint xsum (len : R) (ci : pchR) (l : list pchR) : R :=
  match l with [] => 0 | cj :: t => termR len ci cj false + xsum len ci t end.
(* ... corrected on the channel itself: SPM weight instead of XPM weight *)
Definition nli_of (len : R) (ci : pchR) (l : list pchR) : R :=
  xsum len ci l - (termR len ci ci false - termR len ci ci true).

Lemma row_above : forall (len : R) (ci : pchR) i l j, (i < j)%nat -> rowR len ci i l j = xsum len ci l.
Proof.
  intros len ci i l. induction l as [|cj t IH]; intros j Hij; cbn [row xsum]; numR.
  - reflexivity.
  - replace (Nat.eqb i j) with false by (symmetry; apply Nat.eqb_neq; lia).
    rewrite IH by lia. reflexivity.
Qed.

Lemma row_at : forall (len : R) (ci c' : pchR) i l j,
  (j <= i)%nat -> nth_error l (i - j) = Some c' ->
  rowR len ci i l j = xsum len ci l - (termR len ci c' false - termR len ci c' true).
Proof.
  intros len ci c' i l. induction l as [|cj t IH]; intros j Hji Hn.
  - destruct (i - j)%nat; discriminate.
  - cbn [row xsum]. numR. destruct (Nat.eqb i j) eqn:E.
    + apply Nat.eqb_eq in E. subst j. rewrite Nat.sub_diag in Hn. cbn in Hn. inversion Hn; subst c'.
      rewrite row_above by lia. ring.
    + apply Nat.eqb_neq in E. replace (i - j)%nat with (S (i - S j)) in Hn by lia. cbn [nth_error] in Hn.
      rewrite (IH (S j)) by (lia || exact Hn). ring.
Qed.

Lemma nli_from_spec : forall (len : R) all l i,
  (forall k, nth_error l k = nth_error all (i + k)) ->
  nli_fromR len all l i = map (fun c => nli_of len c all) l.
Proof.
  intros len all l. induction l as [|ci t IH]; intros i H; cbn [nli_from map].
  - reflexivity.
  - f_equal.
    + unfold nli_of. apply row_at; [lia|]. rewrite Nat.sub_0_r. rewrite <- (Nat.add_0_r i). rewrite <- H. reflexivity.
    + apply IH. intros k. specialize (H (S k)). cbn [nth_error] in H. rewrite H. f_equal. lia.
Qed.

(* the per-channel results are the index-free quantity, channel by channel *)
Theorem nli_all_spec : forall (len : R) l, nli_allR len l = map (fun c => nli_of len c l) l.
Proof. intros. unfold nli_all. apply nli_from_spec. intros k. reflexivity. Qed.

(* ------------------------------------------------------------------ order independence *)
Lemma xsum_perm : forall (len : R) ci l l', Permutation l l' -> xsum len ci l = xsum len ci l'.
Proof.
  intros len ci l l' H. induction H as [|x l l' HP IH|x y l|l l' l'' HP1 IH1 HP2 IH2]; cbn [xsum].
  - reflexivity.
  - rewrite IH. reflexivity.
  - ring.
  - congruence.
Qed.

Theorem nli_of_perm : forall (len : R) c l l', Permutation l l' -> nli_of len c l = nli_of len c l'.
Proof. intros. unfold nli_of. rewrite (xsum_perm len c l l') by assumption. reflexivity. Qed.

(* the set of (channel, NLI on that channel) pairs does not depend on the order in which the comb is given *)
Theorem nli_perm : forall (len : R) l l', Permutation l l' ->
  Permutation (combine l (nli_allR len l)) (combine l' (nli_allR len l')).
Proof.
  intros len l l' H. rewrite !nli_all_spec.
  assert (E : forall (g : pchR -> R) (m : list pchR), combine m (map g m) = map (fun c => (c, g c)) m).
  { intros g m. induction m as [|a t IHm]; cbn; [reflexivity | rewrite IHm; reflexivity]. }
  rewrite !E.
  rewrite (map_ext (fun c => (c, nli_of len c l)) (fun c => (c, nli_of len c l'))).
  - apply Permutation_map. exact H.
  - intros c. rewrite (nli_of_perm len c l l' H). reflexivity.
Qed.

(* ------------------------------------------------------------------ adding a channel *)
Lemma xsum_app : forall (len : R) ci l1 l2, xsum len ci (l1 ++ l2) = xsum len ci l1 + xsum len ci l2.
Proof. intros len ci l1 l2. induction l1 as [|a t IH]; cbn [xsum app]; [lra | rewrite IH; lra]. Qed.

Lemma nli_of_add : forall (len : R) ci l c, nli_of len ci (l ++ [c]) = nli_of len ci l + termR len ci c false.
Proof. intros. unfold nli_of. rewrite xsum_app. cbn [xsum]. lra. Qed.

(* every channel already present receives the extra non-negative XPM term of the new channel *)
Theorem nli_add_channel : forall (len : R) l c,
  nli_allR len (l ++ [c]) =
  map (fun ci => nli_of len ci l + termR len ci c false) l ++ [nli_of len c (l ++ [c])].
Proof.
  intros. rewrite nli_all_spec, map_app. cbn [map]. f_equal.
  apply map_ext. intros ci. apply nli_of_add.
Qed.

Theorem nli_add_channel_le : forall (len : R) l c, Forall goodP l -> good c ->
  Forall2 Rle (nli_allR len l) (firstn (length l) (nli_allR len (l ++ [c]))).
Proof.
  intros len l c Hl Hc. rewrite nli_add_channel, nli_all_spec.
  rewrite firstn_app, map_length, Nat.sub_diag, firstn_O, app_nil_r.
  rewrite <- (map_length (fun ci => nli_of len ci l + termR len ci c false) l) at 1. rewrite firstn_all.
  induction Hl as [|ci t [Gi HP] Ht IH]; cbn [map]; constructor.
  - assert (H := term_nonneg len ci c false Gi Hc HP). lra.
  - (* the tail: same statement with the comb t replaced by the full comb in nli_of *)
    clear IH.
    assert (G : forall m, Forall goodP m ->
              Forall2 Rle (map (fun c0 => nli_of len c0 (ci :: t)) m)
                          (map (fun ci0 => nli_of len ci0 (ci :: t) + termR len ci0 c false) m)).
    { intros m Hm. induction Hm as [|x m' [Gx HPx] Hm' IHm]; cbn [map]; constructor.
      - assert (H := term_nonneg len x c false Gx Hc HPx). lra.
      - exact IHm. }
    apply G. exact Ht.
Qed.

(* ------------------------------------------------------------------ the published closed form *)
(* eq. 120-123 of arXiv:1209.0394 for cut channel i and pump channel j:
     eta_ij = gamma_i^2 * w_ij * psi_ij / B_j^2 ,   w_ii = 16/27,  w_ij = 32/27 (i <> j)
     psi_ij = [asinh(pi^2 La_j |b_ij| B_i (df + B_j/2)) - asinh(pi^2 La_j |b_ij| B_i (df - B_j/2))] / (4 pi |b_ij| La_j) * Leff_j^2 *)
Definition closed_psi (len : R) (ci cj : pchR) : R :=
  let la := / p_alpha cj in
  let leff := (1 - exp (- (p_alpha cj * len))) / p_alpha cj in
  let b := Rabs ((p_beta2 ci + p_beta2 cj) / 2) in
  let df := p_f cj - p_f ci in
  (arcsinh (PI ^ 2 * la * b * p_B ci * (df + p_B cj / 2)) - arcsinh (PI ^ 2 * la * b * p_B ci * (df - p_B cj / 2)))
  / (4 * PI * b * la) * leff ^ 2.
Definition closed_term (len : R) (ci cj : pchR) (w : R) : R :=
  p_P ci * (p_P cj) ^ 2 * (p_gamma ci) ^ 2 * w * closed_psi len ci cj / (p_B cj) ^ 2.

Lemma psi_closed : forall (len : R) (ci cj : pchR), psiR len ci cj = closed_psi len ci cj.
Proof.
  intros. unfold psi, closed_psi, eff_length. numR.
  replace (1 / p_alpha cj) with (/ p_alpha cj) by (unfold Rdiv; ring).
  replace (- p_alpha cj * len) with (- (p_alpha cj * len)) by ring.
  replace (PI ^ 2) with (PI * PI) by ring.
  set (A := arcsinh _). set (B := arcsinh _).
  set (b := Rabs _). set (le := (1 - _) / _).
  replace 4 with (2 * 2) by ring. unfold Rdiv. rewrite !Rinv_mult. ring.
Qed.

Theorem weights : forall (len : R) (ci cj : pchR),
  p_B ci <> 0 ->
  termR len ci cj true = closed_term len ci cj (16 / 27) /\
  termR len ci cj false = closed_term len ci cj (32 / 27).
Proof.
  intros len ci cj HB. unfold term, eta, closed_term, weight, spm_weight, xpm_weight. rewrite psi_closed. numR.
  set (psi0 := closed_psi len ci cj).
  replace (p_B cj ^ 2) with (p_B cj * p_B cj) by ring.
  unfold Rdiv. rewrite !(Rinv_mult (p_B ci)). set (q := / (p_B cj * p_B cj)).
  split; field; exact HB.
Qed.

(* ------------------------------------------------------------------ fibre level *)
Lemma attach_all_length : forall (fb : fiberR) l pl, attach_all fb l = Ok pl -> length pl = length l.
Proof.
  intros fb l. induction l as [|c t IH]; intros pl H; cbn [attach_all] in H.
  - inversion H. reflexivity.
  - destruct (attach fb c) as [p|e]; cbn [bind] in H; [|discriminate].
    destruct (attach_all fb t) as [pt|e]; cbn [bind] in H; [|discriminate].
    inversion H; subst. cbn [length]. rewrite (IH pt eq_refl). reflexivity.
Qed.

Lemma attach_scale : forall (fb : fiberR) k c p, attach fb c = Ok p -> attach fb (scale_chanR k c) = Ok (scale_pchR k p).
Proof.
  intros fb k c p H. unfold attach in *. cbn [scale_chan c_f c_B c_P].
  destruct (alpha fb (c_f c)) as [a|e]; cbn [bind] in *; [|discriminate].
  destruct (beta2 fb (c_f c)) as [b|e]; cbn [bind] in *; [|discriminate].
  set (g := gamma_scaling fb (c_f c)) in *. set (att := att_in_lin fb) in *. clearbody g att.
  injection H as Hp. subst p. unfold scale_pch. cbn [p_f p_B p_P p_alpha p_beta2 p_gamma]. numR.
  f_equal. f_equal. ring.
Qed.

Lemma attach_all_scale : forall (fb : fiberR) k l pl,
  attach_all fb l = Ok pl -> attach_all fb (map (scale_chanR k) l) = Ok (map (scale_pchR k) pl).
Proof.
  intros fb k l. induction l as [|c t IH]; intros pl H; cbn [attach_all map] in *.
  - inversion H. reflexivity.
  - destruct (attach fb c) as [p|e] eqn:E; cbn [bind] in H; [|discriminate].
    destruct (attach_all fb t) as [pt|e]; cbn [bind] in H; [|discriminate].
    inversion H; subst. rewrite (attach_scale fb k c p E). cbn [bind].
    rewrite (IH pt eq_refl). reflexivity.
Qed.

(* scaling every launched power by k scales every channel's NLI by k^3 *)
Theorem fiber_nli_cubic : forall (fb : fiberR) (k : R) l v,
  fiber_nli fb l = Ok v -> fiber_nli fb (map (scale_chanR k) l) = Ok (map (Rmult (k * k * k)) v).
Proof.
  intros fb k l v H. unfold fiber_nli in *.
  destruct (attach_all fb l) as [pl|e] eqn:E; cbn [bind] in H; [|discriminate].
  inversion H; subst. rewrite (attach_all_scale fb k l pl E). cbn [bind].
  rewrite nli_cubic. reflexivity.
Qed.

Lemma attach_all_perm : forall (fb : fiberR) l l' pl, Permutation l l' -> attach_all fb l = Ok pl ->
  exists pl', attach_all fb l' = Ok pl' /\ Permutation (combine l pl) (combine l' pl').
Proof.
  intros fb l l' pl H. revert pl.
  induction H as [|x l l' HP IH|x y l|l l' l'' HP1 IH1 HP2 IH2]; intros pl Hl.
  - exists pl. split; [exact Hl | apply Permutation_refl].
  - cbn [attach_all] in *. destruct (attach fb x) as [p|e]; cbn [bind] in *; [|discriminate].
    destruct (attach_all fb l) as [pt|e]; cbn [bind] in *; [|discriminate].
    inversion Hl; subst. destruct (IH pt eq_refl) as (pt' & E' & P'). rewrite E'. cbn [bind].
    exists (p :: pt'). split; [reflexivity|]. cbn [combine]. apply perm_skip. exact P'.
  - cbn [attach_all] in *. destruct (attach fb y) as [py|e]; cbn [bind] in *; [|discriminate].
    destruct (attach fb x) as [px|e]; cbn [bind] in *; [|discriminate].
    destruct (attach_all fb l) as [pt|e]; cbn [bind] in *; [|discriminate].
    inversion Hl; subst. exists (px :: py :: pt). split; [reflexivity|]. cbn [combine]. apply perm_swap.
  - destruct (IH1 pl Hl) as (pl' & E' & P'). destruct (IH2 pl' E') as (pl'' & E'' & P'').
    exists pl''. split; [exact E''|]. eapply Permutation_trans; eassumption.
Qed.

Lemma combine_map_r : forall A B C (g : B -> C) (l : list A) (m : list B),
  combine l (map g m) = map (fun ab => (fst ab, g (snd ab))) (combine l m).
Proof.
  intros A B C g l. induction l as [|a t IH]; intros [|b m]; cbn; try reflexivity. rewrite IH. reflexivity.
Qed.

Lemma snd_combine : forall A B (l : list A) (m : list B), length m = length l -> map snd (combine l m) = m.
Proof.
  intros A B l. induction l as [|a t IH]; intros [|b m] H; cbn in *; try reflexivity; try discriminate.
  rewrite IH by lia. reflexivity.
Qed.

(* the comb supplied in another order: same fibre, same per-channel NLI (as a set of (channel, NLI) pairs) *)
Theorem fiber_nli_perm : forall (fb : fiberR) l l' v, Permutation l l' -> fiber_nli fb l = Ok v ->
  exists v', fiber_nli fb l' = Ok v' /\ Permutation (combine l v) (combine l' v').
Proof.
  intros fb l l' v HP H. unfold fiber_nli in *.
  destruct (attach_all fb l) as [pl|e] eqn:E; cbn [bind] in H; [|discriminate].
  inversion H; subst. destruct (attach_all_perm fb l l' pl HP E) as (pl' & E' & P').
  rewrite E'. cbn [bind]. eexists. split; [reflexivity|].
  rewrite !nli_all_spec.
  (* both sides: map over the (chan, pch) pairs *)
  assert (Pp : Permutation pl pl').
  { assert (L := attach_all_length fb l pl E). assert (L' := attach_all_length fb l' pl' E').
    apply (Permutation_map snd) in P'. rewrite !snd_combine in P' by assumption. exact P'. }
  rewrite !combine_map_r.
  rewrite (map_ext (fun ab : chanR * pchR => (fst ab, nli_of (fb_length fb) (snd ab) pl))
                   (fun ab => (fst ab, nli_of (fb_length fb) (snd ab) pl'))).
  - apply Permutation_map. exact P'.
  - intros ab. rewrite (nli_of_perm _ (snd ab) pl pl' Pp). reflexivity.
Qed.

Theorem fiber_nli_nonneg : forall (fb : fiberR) l pl v,
  attach_all fb l = Ok pl -> Forall goodP pl -> fiber_nli fb l = Ok v -> Forall (fun x : R => 0 <= x) v.
Proof.
  intros fb l pl v E G H. unfold fiber_nli in H. rewrite E in H. cbn [bind] in H. inversion H; subst.
  apply nli_nonneg. exact G.
Qed.

Lemma attach_all_app : forall (fb : fiberR) l1 l2 p1 p2,
  attach_all fb l1 = Ok p1 -> attach_all fb l2 = Ok p2 -> attach_all fb (l1 ++ l2) = Ok (p1 ++ p2).
Proof.
  intros fb l1. induction l1 as [|c t IH]; intros l2 p1 p2 H1 H2; cbn [attach_all app] in *.
  - injection H1 as <-. exact H2.
  - destruct (attach fb c) as [p|e]; cbn [bind] in *; [|discriminate].
    destruct (attach_all fb t) as [pt|e]; cbn [bind] in *; [|discriminate].
    injection H1 as <-. rewrite (IH l2 pt p2 eq_refl H2). reflexivity.
Qed.

(* adding a channel c to the comb never lowers the NLI of the channels already there *)
Theorem fiber_nli_add_channel : forall (fb : fiberR) l c pl pc v,
  attach_all fb l = Ok pl -> attach fb c = Ok pc -> Forall goodP pl -> good pc ->
  fiber_nli fb l = Ok v ->
  exists v', fiber_nli fb (l ++ [c]) = Ok v' /\ Forall2 Rle v (firstn (length v) v').
Proof.
  intros fb l c pl pc v El Ec Gl Gc H. unfold fiber_nli in *. rewrite El in H. cbn [bind] in H. injection H as <-.
  assert (E1 : attach_all fb [c] = Ok [pc]). { cbn [attach_all]. rewrite Ec. reflexivity. }
  rewrite (attach_all_app fb l [c] pl [pc] El E1). cbn [bind]. eexists. split; [reflexivity|].
  replace (length (nli_allR (fb_length fb) pl)) with (length pl).
  - apply nli_add_channel_le; assumption.
  - rewrite nli_all_spec, map_length. reflexivity.
Qed.

Lemma att_in_lin_pos : forall fb : fiberR, 0 < att_in_lin fb.
Proof.
  intros fb. unfold att_in_lin, db2lin. numR. unfold Rpow10.
  apply Rdiv_lt_0_compat; [lra | apply exp_pos].
Qed.

(* launched comb l' = l with some powers raised *)
Definition chan_raised (c c' : chanR) : Prop := c_f c = c_f c' /\ c_B c = c_B c' /\ 0 <= c_P c <= c_P c'.

Lemma attach_raised : forall (fb : fiberR) c c' p, chan_raised c c' -> attach fb c = Ok p ->
  exists p', attach fb c' = Ok p' /\ raised p p'.
Proof.
  intros fb [f B P] [f' B' P'] p (Hf & HB & HP) H. cbn [c_f c_B c_P] in *. subst f' B'.
  unfold attach in *. cbn [c_f c_B c_P] in *.
  destruct (alpha fb f) as [a|e]; cbn [bind] in *; [|discriminate].
  destruct (beta2 fb f) as [b|e]; cbn [bind] in *; [|discriminate].
  assert (Hatt := att_in_lin_pos fb).
  set (g := gamma_scaling fb f) in *. set (att := att_in_lin fb) in *. clearbody g att.
  injection H as <-. eexists. split; [reflexivity|].
  unfold raised, same_phys. cbn [p_f p_B p_P p_alpha p_beta2 p_gamma]. numR.
  repeat split; try reflexivity.
  - apply Rmult_le_pos; lra.
  - apply Rmult_le_compat_r; lra.
Qed.

Lemma attach_all_raised : forall (fb : fiberR) l l' pl, Forall2 chan_raised l l' -> attach_all fb l = Ok pl ->
  exists pl', attach_all fb l' = Ok pl' /\ Forall2 raised pl pl'.
Proof.
  intros fb l l' pl H. revert pl. induction H as [|c c' t t' Hc Ht IH]; intros pl E; cbn [attach_all] in *.
  - injection E as <-. exists []. split; [reflexivity | constructor].
  - destruct (attach fb c) as [p|e] eqn:Ep; cbn [bind] in *; [|discriminate].
    destruct (attach_all fb t) as [pt|e]; cbn [bind] in *; [|discriminate].
    injection E as <-. destruct (attach_raised fb c c' p Hc Ep) as (p' & Ep' & Rp).
    destruct (IH pt eq_refl) as (pt' & Et' & Rt). rewrite Ep', Et'. cbn [bind].
    exists (p' :: pt'). split; [reflexivity | constructor; assumption].
Qed.

(* raising any launched powers never lowers any channel's NLI *)
Theorem fiber_nli_mono_power : forall (fb : fiberR) l l' pl v,
  attach_all fb l = Ok pl -> Forall good pl -> Forall2 chan_raised l l' -> fiber_nli fb l = Ok v ->
  exists v', fiber_nli fb l' = Ok v' /\ Forall2 Rle v v'.
Proof.
  intros fb l l' pl v E G HR H. unfold fiber_nli in *. rewrite E in H. cbn [bind] in H. injection H as <-.
  destruct (attach_all_raised fb l l' pl HR E) as (pl' & E' & R'). rewrite E'. cbn [bind].
  eexists. split; [reflexivity|]. apply nli_mono_power; assumption.
Qed.
