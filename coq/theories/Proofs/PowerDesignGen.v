(* C09 translator tie: every definition generated from gnpy/core/utils.py and gnpy/core/network.py
   (Gen/PowerDesignGen.v, regenerated on every run by harness/pygen_c09.py) equals the hand-written model
   (Model/PowerDesign.v); == on Q where the source associates a sum differently or adds the zero SRS deviation. *)
From Coq Require Import QArith Qminmax Lra.
From Verif Require Import Prelude Model.Select Model.PowerDesign Gen.PowerDesignGen.
Open Scope Q_scope.

(* ------------------------------------------------------------------ utils.round2float, target_power *)
Theorem gen_round2float : forall x step, g_round2float x step = round2float x step.
Proof. reflexivity. Qed.

Theorem gen_dp_rule : forall c loss lo hi step,
  nth_q (c_dpr c) 0 = Some lo -> nth_q (c_dpr c) 1 = Some hi -> nth_q (c_dpr c) 2 = Some step ->
  dp_rule c loss = Ok (g_dp_rule c loss lo hi step).
Proof. intros c loss lo hi step H0 H1 H2. unfold dp_rule. rewrite H0, H1, H2. reflexivity. Qed.

(* ------------------------------------------------------------------ prev_node_generator, next_node_generator, span_loss *)
Theorem gen_link : forall p n, g_prev_link p n = link_ok p n /\ g_next_link p n = link_ok p n.
Proof. intros p n. split; reflexivity. Qed.

Theorem gen_span_loss : forall cached before node after,
  live_loss cached before node after
  = g_span_ret ((if is_ff node then eloss node else 0) + qsum (map eloss (walk_gen before node)) + qsum (map eloss (walk_gen after node)))
               (rgain cached node + qsum (map (rgain cached) (walk_gen before node))
                + qsum (map (rgain cached) (walk_gen after node))).
Proof. reflexivity. Qed.

(* ------------------------------------------------------------------ add_fiber_padding *)
Theorem gen_pad_needed : forall c sl, g_pad_needed (c_padding c) sl = pad_needed c sl.
Proof. reflexivity. Qed.
Theorem gen_pad_incr : forall c sl, g_pad_dsl_incr (c_padding c) sl = pad_incr c sl.
Proof. reflexivity. Qed.
(* the new att_in of the first fibre of the span (bump, at the fibre itself) *)
Theorem gen_pad_att : forall c f sl seg node att',
  bump [] (Fib f) (pad_incr c sl) = (seg, node, Some att') -> att' == g_pad_att (f_att f) (c_padding c) sl.
Proof.
  intros c f sl seg node att' H. cbn in H. injection H as _ _ H. subst att'. unfold g_pad_att, pad_incr. ring.
Qed.

(* ------------------------------------------------------------------ compute_gain_power_and_tilt_target *)
Definition req4 (x y : res (Q * Q * Q * Q)) : Prop :=
  match x, y with
  | Ok (a1, b1, c1, d1), Ok (a2, b2, c2, d2) => a1 == a2 /\ b1 == b2 /\ c1 == c2 /\ d1 == d2
  | Err e1, Err e2 => e1 = e2
  | _, _ => False
  end.

Theorem gen_targets : forall c pref_total prev_dp prev_voa nl tp a,
  req4 (g_targets c pref_total prev_dp prev_voa nl tp a) (targets c pref_total prev_dp prev_voa nl tp a).
Proof.
  intros c pref_total prev_dp prev_voa nl tp a. unfold g_targets, targets. cbv zeta.
  destruct (an_dp a) as [u |]; [| destruct tp as [t | e]]; cbn [bind];
    destruct (an_gain a) as [g |]; destruct (c_power_mode c); cbn [orb req4];
    try reflexivity; repeat split; try reflexivity; ring.
Qed.

(* ------------------------------------------------------------------ set_one_amplifier, set_amplifier_voa *)
Theorem gen_imposed_red : forall (pm : bool) pmax pref_total prev_dp prev_voa nl g0 dp0,
  (if pm then g_red_power_mode pmax pref_total dp0
   else g_red_gain_mode pmax pref_total prev_dp nl prev_voa g0)
  = imposed_red pm pmax pref_total prev_dp prev_voa nl g0 dp0.
Proof. intros. destruct pm; reflexivity. Qed.

Theorem gen_auto_voa : forall c pmax gmax pt gain, g_auto_voa c pmax gmax pt gain = auto_voa c pmax gmax pt gain.
Proof. reflexivity. Qed.

(* ------------------------------------------------------------------ set_egress_amplifier *)
(* the first amplifier of the OMS is handed the offset of the ingress power to the reference, and no VOA *)
Theorem gen_start : forall c lib bmin bmax pref_ch pref_total p0 s e chain,
  design c lib bmin bmax pref_ch pref_total p0 s e chain
  = design_from c lib bmin bmax pref_total e (start_neigh s) [] (g_start_dp p0 pref_ch) 0 chain.
Proof. reflexivity. Qed.
Theorem gen_start_mb : forall c lib groups bis pref_ch p0 s e chain,
  design_mb c lib groups bis pref_ch p0 s e chain
  = design_mb_from c lib groups bis e (start_neigh s) [] (map (fun _ => (g_start_dp p0 pref_ch, 0)) bis) chain.
Proof. reflexivity. Qed.
(* the total reference power of a band, an input of the model (pref_total, bi_pref_total): the reference channel power
   plus the number of channels of the band in dB *)
Theorem gen_pref_total : forall pref_ch nch_db, g_pref_total pref_ch nch_db = pref_ch + nch_db.
Proof. reflexivity. Qed.
Theorem gen_walk_matched : g_walk_matched = true.
Proof. reflexivity. Qed.
