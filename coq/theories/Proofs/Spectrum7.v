(* C14 proofs, part 7: first/last fit for EVERY free-N slot of a multi-slot request: the centre chosen for a slot whose
   N the user left free is extremal among the centres that are feasible on the path once the slots processed before
   it (larger M first) have been taken. *)
From Coq Require Import Lia ZifyBool Permutation Sorted.
From Verif Require Import Prelude Model.Spectrum Proofs.SpectrumBase Proofs.Spectrum Proofs.Spectrum2
     Proofs.Spectrum3 Proofs.Spectrum4 Proofs.Spectrum5.
Open Scope Z_scope.
Local Arguments Z.mul : simpl never.
Local Arguments Z.add : simpl never.
Local Arguments Z.sub : simpl never.
Local Arguments Z.opp : simpl never.
Local Arguments Z.div : simpl never.
Local Arguments Z.max : simpl never.
Local Arguments Z.min : simpl never.
Local Arguments Z.of_nat : simpl never.
Local Arguments Z.to_nat : simpl never.

Definition extremal (p : policy) (n n' : Z) : Prop :=
  match p with FirstFit => n <= n' | LastFit => n' <= n end.

(* feasible on the aggregate once the ranges of `earlier` are taken *)
Definition feasible_excl (test0 : bitmap) (earlier : list (Z * Z)) (n m : Z) : Prop :=
  feasible test0 n m /\ forall k, n - m <= k <= n + m - 1 -> covered earlier k = false.

Inductive processed_ff (p : policy) (test0 : bitmap) :
  list (Z * Z) -> list slot_req -> list (Z * Z) -> list slot_req -> Prop :=
  | PF_done : forall earlier rest, processed_ff p test0 earlier rest [] rest
  | PF_step : forall earlier s l n m sel rest,
      slot_matches s n m ->
      (fst s = None -> forall n', feasible_excl test0 earlier n' m -> extremal p n n') ->
      processed_ff p test0 (earlier ++ [(n, m)]) l sel rest ->
      processed_ff p test0 earlier (s :: l) ((n, m) :: sel) rest.

Lemma feasible_of_excl test0 test sel n m :
  sel_inv test0 test sel -> feasible_excl test0 sel n m -> feasible test n m.
Proof.
  intros [W (A & B & C & D & E & F) Cc _ _] ((H1 & H2 & H3) & Hc). unfold feasible.
  rewrite C, D. split; [exact H1|]. split; [exact H2|].
  intros k Hk. rewrite Cc, (Hc k Hk). apply H3. exact Hk.
Qed.

Lemma cnm_loop_ff test0 p pcm :
  forall l test rem sel sel' rem' test',
  sel_inv test0 test sel ->
  cnm_loop test rem pcm p l sel = Ok (Some (sel', rem', test')) ->
  exists done rest, sel' = sel ++ done /\ processed_ff p test0 sel l done rest.
Proof.
  induction l as [|s t IH]; intros test rem sel sel' rem' test' I H.
  - cbn [cnm_loop] in H. injection H as <- <- <-. exists [], []. rewrite app_nil_r. split; [reflexivity|constructor].
  - cbn [cnm_loop] in H. destruct (cnm_step test rem pcm p s) as [r|e] eqn:Es; [|discriminate]. cbn [bind] in H.
    destruct r as [n m| |].
    + destruct (assign test n m) as [test1|e] eqn:Ea; [|discriminate]. cbn [bind] in H.
      assert (Hm : 0 < m) by (apply (assign_inv test n m test1 (si_wf _ _ _ I)) in Ea; lia).
      destruct (cnm_step_continue test rem pcm p s n m (si_wf _ _ _ I) Hm Es) as (Hf & Hsm & _ & Hmin).
      destruct (sel_inv_step test0 test sel n m test1 I Hm Hf Ea) as (I1 & _).
      destruct (IH test1 (rem - m) (sel ++ [(n, m)]) sel' rem' test' I1 H) as (done & rest & -> & Hp).
      exists ((n, m) :: done), rest. rewrite <- app_assoc. split; [reflexivity|].
      constructor; [exact Hsm| |exact Hp].
      intros Hnone n' Hfe. specialize (Hmin Hnone). pose proof (feasible_of_excl test0 test sel n' m I Hfe) as Hft.
      unfold extremal. destruct p; apply Hmin; exact Hft.
    + injection H as <- <- <-. exists [], (s :: t). rewrite app_nil_r. split; [reflexivity|constructor].
    + discriminate.
Qed.

(* lifted to the OMS of the path: feasibility on the aggregate = feasibility on every OMS of path U reverse path *)
Definition feasible_excl_on_path (st : state) (ids : list Z) (earlier : list (Z * Z)) (n m : Z) : Prop :=
  feasible_on_path st ids n m /\ forall k, n - m <= k <= n + m - 1 -> covered earlier k = false.

Inductive processed_ff_path (p : policy) (st : state) (ids : list Z) :
  list (Z * Z) -> list slot_req -> list (Z * Z) -> list slot_req -> Prop :=
  | PFP_done : forall earlier rest, processed_ff_path p st ids earlier rest [] rest
  | PFP_step : forall earlier s l n m sel rest,
      slot_matches s n m ->
      (fst s = None -> forall n', feasible_excl_on_path st ids earlier n' m -> extremal p n n') ->
      processed_ff_path p st ids (earlier ++ [(n, m)]) l sel rest ->
      processed_ff_path p st ids earlier (s :: l) ((n, m) :: sel) rest.

Lemma processed_ff_lift d p st ids test0 :
  WFst d st -> valid_ids st ids -> aggregate st ids = Ok test0 ->
  forall earlier l sel rest, processed_ff p test0 earlier l sel rest -> processed_ff_path p st ids earlier l sel rest.
Proof.
  intros W Hv Hag earlier l sel rest H. induction H as [|earlier s l n m sel rest Hs Hmin Hp IH]; [constructor|].
  constructor; [exact Hs| |exact IH].
  intros Hn n' (Hf & Hc). apply Hmin; [exact Hn|]. split; [|exact Hc].
  apply (feasible_aggregate d st ids test0 n' m W Hv Hag). exact Hf.
Qed.

Theorem pth_assign_one_first_fit d p st rq st' ns ms :
  WFst d st -> valid_ids st (path_oms rq) -> 0 < rq_required rq ->
  pth_assign_one p st rq = Ok (st', Accepted ns ms) ->
  exists done rest,
    Permutation (combine ns ms) done /\
    processed_ff_path p st (path_oms rq) [] (map snd (order_slots (slots rq))) done rest.
Proof.
  intros W Hv Hreq H. unfold pth_assign_one in H.
  destruct (pre_blocked rq); [discriminate|].
  fold (rq_nb_wl rq) in H. fold (rq_pcm rq) in H. fold (rq_required rq) in H.
  match type of H with (if ?c then _ else _) = _ => destruct c end; [discriminate|].
  destruct (compute_n_m st (rq_required rq) (rq_pcm rq) p (slots rq) (path_oms rq)) as [r|e] eqn:Ec; [|discriminate].
  cbn [bind] in H. destruct r as [[ns0 ms0] remaining].
  destruct (0 <? remaining) eqn:Er; [discriminate|].
  destruct (commit st (path_oms rq) ns0 ms0 (rid rq) (rq_nb_wl rq)) as [st1|e] eqn:Eco; [|discriminate].
  cbn [bind] in H. injection H as <- <- <-.
  unfold compute_n_m in Ec.
  destruct (aggregate st (path_oms rq)) as [test0|e] eqn:Eag; [|discriminate]. cbn [bind] in Ec.
  destruct (aggregate_spec d st _ test0 W Hv Eag) as (_ & Wt & _).
  set (ordered := order_slots (slots rq)) in *.
  destruct (cnm_loop test0 (rq_required rq) (rq_pcm rq) p (map snd ordered) []) as [r|e] eqn:El; [|discriminate].
  cbn [bind] in Ec. destruct r as [[[sel rem] tfin]|].
  2:{ injection Ec as <- <- <-. lia. }
  injection Ec as <- <- <-.
  destruct (cnm_loop_ff test0 p (rq_pcm rq) _ test0 _ [] sel rem tfin (sel_inv_init test0 Wt) El) as (done & rest & Hsel & Hp).
  cbn [app] in Hsel. subst done.
  destruct (cnm_loop_spec test0 p (rq_pcm rq) _ test0 _ [] sel rem tfin (sel_inv_init test0 Wt) El)
    as (_ & done2 & rest2 & Hsel2 & _ & Hproc & _).
  cbn [app] in Hsel2. subst done2.
  pose proof (processed_length _ _ _ Hproc) as Hlen. rewrite map_length in Hlen.
  exists sel, rest. split.
  - rewrite combine_fst_snd. apply restore_order_perm. rewrite map_length. lia.
  - eapply processed_ff_lift; eauto.
Qed.
