(* C08 through the entry point worker_utils.designed_network with its option no_insert_edfas (Model/Chain.v:
   design_line_opt): without the option it is design_line; with it nothing is inserted or split, and connector losses
   and padding are as complete as in a full design. *)
From Coq Require Import QArith Lia.
From Verif Require Import Prelude Model.Chain Proofs.Chain.
Open Scope Z_scope.

Lemma design_line_opt_default : forall c l, design_line_opt false c l = design_line c l.
Proof. reflexivity. Qed.

Lemma design_line_no_insert : forall c l l', design_line_opt true c l = Ok l' ->
  forallb fib_ok (l_els l') = true /\ padding_ok (c_pad c) (l_els l') = true /\
  map ekey (l_els l') = map ekey (l_els l) /\ names (l_els l') = names (l_els l) /\
  tot_len (l_els l') = tot_len (l_els l) /\ endpoints l' = endpoints l.
Proof.
  intros c l l' H. unfold design_line_opt in H.
  destruct (pad_chain c (conn c (l_els l))) as [p|] eqn:E; [|discriminate]. cbn [bind] in H. inversion H; subst l'.
  cbn [l_els with_els].
  pose proof (pad_chain_key2 _ _ _ E) as K2.
  destruct (key2_facts _ _ K2) as (P1 & P2 & P3 & P4 & P5 & _).
  destruct (conn_totals c (l_els l)) as [C1 _].
  repeat split.
  - rewrite P5. apply conn_all_some.
  - apply (pad_chain_padded _ _ _ E).
  - rewrite P1. apply conn_key.
  - rewrite P2. apply conn_names.
  - rewrite P3. exact C1.
Qed.

(* the option never fails: connector losses and padding are total *)
Lemma design_line_no_insert_total : forall c l, exists l', design_line_opt true c l = Ok l'.
Proof.
  intros c l. unfold design_line_opt.
  assert (T : forall rs, exists ps, mapM (pad_run c) rs = Ok ps).
  { induction rs as [|r rs [ps IH]]; [exists []; reflexivity|].
    assert (R : exists r', pad_run c r = Ok r').
    { unfold pad_run. destruct (last r dflt) as [f|n q|a]; try (eexists; reflexivity).
      destruct (f_raman f); [eexists; reflexivity|].
      destruct (Qltb (span_sl c r) (c_pad c)); [|eexists; reflexivity].
      destruct r as [|[g|n q|a] t]; eexists; reflexivity. }
    destruct R as [r' R]. exists (r' :: ps). cbn [mapM]. rewrite R. cbn [bind]. rewrite IH. reflexivity. }
  unfold pad_chain. destruct (T (runs (conn c (l_els l)))) as [ps E]. rewrite E. cbn [bind]. eexists. reflexivity.
Qed.

Example ex_no_insert : exists l', design_line_opt true w_cfg (w_line [Fib (w_fib "f" 30 [])]) = Ok l' /\
  names (l_els l') = ["f"]%string /\ forallb fib_ok (l_els l') = true /\ padding_ok (c_pad w_cfg) (l_els l') = true.
Proof. eexists. split; [vm_compute; reflexivity|]. repeat split; vm_compute; reflexivity. Qed.
