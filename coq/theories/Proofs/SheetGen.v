(* C20 — the translator tie: every definition generated from the source of convert.py / service_sheet.py
   (Gen/SheetGen.v, harness/pygen_c20.py) is equal to the corresponding piece of the hand-written model. *)
From Coq Require Import QArith Lia.
From Verif Require Import Prelude Model.Sheet Gen.SheetGen Proofs.Sheet.
Open Scope Z_scope.

(* ------------------------------------------------------------------ defaults, east -> west defaulting *)
Lemma gen_link_default : g_link_default = default_side.
Proof. reflexivity. Qed.
Lemma gen_mk_link : forall r, g_mk_link r = mk_link r.
Proof. reflexivity. Qed.

Lemma oor_none : forall {A} (o : option A), oor o None = o.
Proof. intros A [x|]; reflexivity. Qed.
Lemma fill_amp_default : forall r, fill_amp g_amp_default r = mk_amp r.
Proof.
  intros r. unfold fill_amp, g_amp_default, mk_amp. cbn [a_type a_gain a_dp a_tilt a_att_out a_att_in].
  rewrite !oor_none. reflexivity.
Qed.
Lemma gen_mk_eqpt : forall r, g_mk_eqpt r = mk_eqpt r.
Proof. intros r. unfold g_mk_eqpt, mk_eqpt. cbv zeta. rewrite !fill_amp_default. reflexivity. Qed.

Lemma gen_link_eqv : forall a b, g_link_eqv a b = link_eqv a b.
Proof. reflexivity. Qed.

(* ------------------------------------------------------------------ fibre elements *)
Definition g_fiber_uid (d : dir) := match d with East => g_fiber_uid_East | West => g_fiber_uid_West end.
Definition g_fiber_mid (d : dir) := match d with East => g_fiber_mid_East | West => g_fiber_mid_West end.
Definition g_fiber_content (d : dir) := match d with East => g_fiber_content_East | West => g_fiber_content_West end.

Lemma pmd2_parts_same : forall s, pmd2_parts (s_pmd s) (s_pmd s) (s_dist s) = pmd2_of s.
Proof.
  intros s. unfold pmd2_parts, pmd2_of, truthy_oq. destruct (s_pmd s) as [p|]; [|reflexivity].
  destruct (Qeq_bool p 0); reflexivity.
Qed.
Lemma gen_fiber_content : forall d l,
  g_fiber_content d l = fiber_content (match d with East => l_east l | West => l_west l end).
Proof.
  intros [] l; unfold g_fiber_content, g_fiber_content_East, g_fiber_content_West, fiber_content;
    rewrite pmd2_parts_same; reflexivity.
Qed.
Lemma gen_fiber_uid : forall d l,
  g_fiber_uid d l = match d with East => east_fiber_uid l | West => west_fiber_uid l end.
Proof. intros [] l; reflexivity. Qed.
(* the whole element: location between the two cities named, uid and content as generated *)
Lemma gen_fiber_el : forall ns d l,
  fiber_el ns d l =
  (let* a := lookup_node (fst (g_fiber_mid d l)) ns in
   let* b := lookup_node (snd (g_fiber_mid d l)) ns in
   let* _ := pmd_check (match d with East => l_east l | West => l_west l end) in
   Ok (mkEl (g_fiber_uid d l) (midpoint a b) (g_fiber_content d l))).
Proof.
  intros ns d l. unfold fiber_el. destruct d; cbn [g_fiber_mid g_fiber_mid_East g_fiber_mid_West fst snd];
    destruct (lookup_node (l_from l) ns); cbn [bind]; try reflexivity;
    destruct (lookup_node (l_to l) ns); cbn [bind]; try reflexivity;
    destruct (pmd_check _) as [[]|]; cbn [bind]; try reflexivity.
  - rewrite (gen_fiber_content East l). reflexivity.
  - rewrite (gen_fiber_content West l). reflexivity.
Qed.

(* ------------------------------------------------------------------ amplifier elements of an Eqpt row *)
Definition g_amp_uid (d : dir) := match d with East => g_amp_uid_East | West => g_amp_uid_West end.
Definition g_amp_city (d : dir) := match d with East => g_amp_city_East | West => g_amp_city_West end.
Definition g_amp_content (d : dir) := match d with East => g_amp_content_East | West => g_amp_content_West end.

Lemma lower_empty : forall t, seqb (lower t) "" = seqb t "".
Proof. intros [|c t]; reflexivity. Qed.
Lemma amp_content_chain : forall a,
  (if negb (seqb (lower (a_type a)) "") && negb (seqb (lower (a_type a)) "fused")
   then CEdfa (Some (a_type a)) (mkOper (a_gain a) (a_dp a) (a_tilt a) (a_att_out a) (a_att_in a))
   else if seqb (lower (a_type a)) "" then CEdfa None (mkOper (a_gain a) (a_dp a) (a_tilt a) (a_att_out a) (a_att_in a))
   else if seqb (lower (a_type a)) "fused" then CFused true else CTrx) = amp_content a.
Proof.
  intros a. unfold amp_content, is_fused_type, amp_oper. rewrite lower_empty.
  destruct (seqb (a_type a) "") eqn:E1; cbn [negb andb]; [reflexivity|].
  destruct (seqb (lower (a_type a)) "fused") eqn:E2; cbn [negb]; reflexivity.
Qed.
Lemma gen_amp_content : forall d e,
  g_amp_content d e = amp_content (match d with East => e_east e | West => e_west e end).
Proof. intros [] e; [exact (amp_content_chain (e_east e)) | exact (amp_content_chain (e_west e))]. Qed.
Lemma gen_eqpt_el : forall ns d e,
  eqpt_el ns d e =
  (let* a := lookup_node (g_amp_city d e) ns in Ok (mkEl (g_amp_uid d e) (node_loc a) (g_amp_content d e))).
Proof.
  intros ns d e. unfold eqpt_el. destruct d; unfold g_amp_city, g_amp_city_East, g_amp_city_West;
    destruct (lookup_node (e_from e) ns); cbn [bind]; try reflexivity.
  - rewrite (gen_amp_content East e). reflexivity.
  - rewrite (gen_amp_content West e). reflexivity.
Qed.

(* ------------------------------------------------------------------ fiber_link, eqpt_in_city_to_city *)
Lemma gen_fiber_link : forall f t ls,
  fiber_link f t ls =
  match find (fun li => in2 (l_from li) f t && in2 (l_to li) f t) (links_of f ls) with
  | Some li => Ok (g_fiber_link_uid f t li)
  | None => Err "StopIteration:fiber_link"%string
  end.
Proof. reflexivity. Qed.

Lemma fold_left_ext : forall {A B} (f g : A -> B -> A) l a, (forall x y, f x y = g x y) -> fold_left f l a = fold_left g l a.
Proof. intros A B f g. induction l as [|y t IH]; intros a H; cbn [fold_left]; [reflexivity|]. rewrite H. apply IH. exact H. Qed.
Lemma gen_ein : forall c to_ es t d, g_ein c to_ es t d = eqpt_in_city_to_city c to_ es t d.
Proof.
  intros c to_ es t d. unfold g_ein, eqpt_in_city_to_city. destruct t; try reflexivity.
  destruct (eqpts_of c es) as [|e0 m]; [reflexivity|]. f_equal. apply fold_left_ext.
  intros st e. destruct (seqb (e_to e) to_); reflexivity.
Qed.

Lemma gen_skipped_kind : forall k, g_skipped_kind k = skipped_kind k.
Proof. intros []; reflexivity. Qed.

(* ------------------------------------------------------------------ sanity_check *)
Lemma gen_correct_type : forall ls n, g_correct_type ls n = correct_type ls n.
Proof. reflexivity. Qed.
Lemma gen_sanity_check : forall ns ls es, g_sanity_check ns ls es = sanity_check ns ls es.
Proof. reflexivity. Qed.

(* ------------------------------------------------------------------ Request_element: units *)
Lemma gen_request_units : forall equipment bidir r q, request_element equipment bidir r = Ok q ->
  g_spacing r = Some (r_spacing_hz q) /\ g_power_dbm r = r_power_dbm q /\ g_nbch r = r_nbch q /\ g_bw r = r_bw_bps q.
Proof.
  intros equipment bidir r q H. unfold request_element in H.
  destruct (id_str (q_trx r)) as [trx|]; [|discriminate].
  destruct (assoc trx equipment) as [modes|]; cbn [bind] in H; [|discriminate].
  destruct (match id_str (q_mode r) with
            | Some m => if smem m (snd (trx, modes)) then Ok (Some m) else Err "ServiceError:unknown_mode"%string
            | None => Ok None end) as [mode|]; cbn [bind] in H; [|discriminate].
  destruct (q_spacing r) as [sp|] eqn:S; [|discriminate].
  destruct (Qeq_bool sp 0) eqn:Z; cbn [bind] in H; [discriminate|].
  inversion H; subst q; clear H. cbn [r_spacing_hz r_power_dbm r_nbch r_bw_bps].
  unfold g_spacing, g_power_dbm, g_nbch, g_bw. rewrite S. unfold truthy_oq. rewrite Z. cbn [negb is_some].
  split; [reflexivity|]. split; [destruct (q_power r); reflexivity|].
  split; [destruct (q_nbch r); reflexivity | destruct (q_bw r); reflexivity].
Qed.
(* and the spacing cell decides alone whether the row is refused for its spacing *)
Lemma gen_spacing_refused : forall r, g_spacing r = None <->
  match q_spacing r with Some s => Qeq_bool s 0 = true | None => True end.
Proof.
  intros r. unfold g_spacing, truthy_oq. destruct (q_spacing r) as [s|]; [|tauto].
  destruct (Qeq_bool s 0); cbn [negb]; split; intros H; congruence.
Qed.

(* ------------------------------------------------------------------ correct_xls_route_list *)
Lemma gen_pop_ends : forall src dst l, g_pop_ends src dst l = pop_ends src dst l.
Proof.
  intros src dst l. unfold g_pop_ends, pop_ends, head_is, last_is.
  destruct l as [|x t].
  - reflexivity.
  - cbn [tl]. destruct (seqb src x); destruct (last_s _) as [y|]; try reflexivity; destruct (seqb dst y); reflexivity.
Qed.
Lemma gen_writeback : forall i n s live, g_writeback i n s live = replace_first n s live.
Proof. reflexivity. Qed.
