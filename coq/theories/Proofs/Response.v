(* C19 — proofs about Model/Response.v: rounding, validator reflection, generator satisfies the specification. *)
From Verif Require Import Prelude Model.Response.
From Coq Require Import QArith Qround Qabs Qfield Lia ZifyBool Permutation.
Open Scope Z_scope.

(* ================================================================== A. rounding *)
(* z is the integer nearest to n/d, ties to even *)
Definition nearest_he (n d z : Z) : Prop :=
  - d <= 2 * (n - z * d) <= d /\
  (2 * (n - z * d) = d \/ 2 * (n - z * d) = - d -> Z.even z = true).

Lemma round_he_ok : forall q, nearest_he (Qnum q) (Zpos (Qden q)) (round_he q).
Proof.
  intros [n d]. unfold round_he, nearest_he. cbn [Qnum Qden].
  set (D := Zpos d). assert (HD : 0 < D) by (unfold D; lia).
  pose proof (Z.div_mod n D ltac:(lia)) as Hdm.
  pose proof (Z.mod_pos_bound n D HD) as Hr.
  set (f := n / D) in *. set (r := n mod D) in *.
  assert (Hn : n - f * D = r) by lia.
  destruct (2 * r <? D) eqn:E1.
  - split; [lia|]. intros [H|H]; lia.
  - destruct (D <? 2 * r) eqn:E2.
    + split; [lia|]. intros [H|H]; lia.
    + assert (2 * r = D) by lia.
      destruct (Z.even f) eqn:Ev.
      * split; [lia|]. intros _. exact Ev.
      * split; [lia|]. intros _. rewrite Z.even_add. rewrite Ev. reflexivity.
Qed.

Lemma nearest_he_unique : forall n d z z', 0 < d -> nearest_he n d z -> nearest_he n d z' -> z = z'.
Proof.
  intros n d z z' Hd [B1 T1] [B2 T2].
  assert (Hc : z' = z \/ z' = z + 1 \/ z' = z - 1) by nia.
  destruct Hc as [H|[H|H]]; [lia| |]; subst z'; exfalso.
  - assert (E1 : 2 * (n - z * d) = d) by nia.
    assert (E2 : 2 * (n - (z + 1) * d) = - d) by nia.
    specialize (T1 (or_introl E1)). specialize (T2 (or_intror E2)).
    rewrite Z.even_add in T2. rewrite T1 in T2. discriminate.
  - assert (E1 : 2 * (n - z * d) = - d) by nia.
    assert (E2 : 2 * (n - (z - 1) * d) = d) by nia.
    specialize (T1 (or_intror E1)). specialize (T2 (or_introl E2)).
    rewrite Z.even_sub in T2. rewrite T1 in T2. discriminate.
Qed.

Lemma nearest_he_cross : forall n d n' d' z, 0 < d -> 0 < d' -> n * d' = n' * d ->
  nearest_he n d z -> nearest_he n' d' z.
Proof.
  intros n d n' d' z Hd Hd' He [B T]. split.
  - nia.
  - intros H. apply T. destruct H as [H|H]; [left|right]; nia.
Qed.

(* round() only depends on the value, not on the representation of the rational *)
Lemma round_he_compat : forall q q', (q == q')%Q -> round_he q = round_he q'.
Proof.
  intros q q' H. unfold Qeq in H.
  apply (nearest_he_unique (Qnum q') (Zpos (Qden q'))); [lia| |apply round_he_ok].
  apply (nearest_he_cross (Qnum q) (Zpos (Qden q))); [lia|lia|lia|apply round_he_ok].
Qed.

Lemma round2_compat : forall q q', (q == q')%Q -> round2 q = round2 q'.
Proof. intros q q' H. unfold round2. apply round_he_compat. rewrite H. reflexivity. Qed.

Lemma round2q_compat : forall q q', (q == q')%Q -> (round2q q == round2q q')%Q.
Proof. intros q q' H. unfold round2q. rewrite (round2_compat _ _ H). reflexivity. Qed.

(* a value with two decimals is its own rounding *)
Lemma round2_cents : forall z, round2 (of_cents z) = z.
Proof.
  intros z. unfold round2, of_cents.
  apply (nearest_he_unique (z * 100) 100); [lia| |].
  - pose proof (round_he_ok ((z # 100) * (100 # 1))) as H. cbn [Qnum Qden Qmult] in H.
    replace (Z.pos (100 * 1)) with 100 in H by reflexivity. exact H.
  - split; [lia|]. intros [H|H]; lia.
Qed.

Lemma round2q_idem : forall q, (round2q (round2q q) == round2q q)%Q.
Proof. intros q. unfold round2q. rewrite round2_cents. reflexivity. Qed.

(* the rounded value is within half a hundredth of the exact one, ties to the even hundredth *)
Theorem round2_spec : forall q,
  (Qabs (q - round2q q) <= 1 # 200)%Q /\
  ((Qabs (q - round2q q) == 1 # 200)%Q -> Z.even (round2 q) = true).
Proof.
  intros q. unfold round2q, of_cents, round2.
  pose proof (round_he_ok (q * (100 # 1))) as [B T].
  set (z := round_he (q * (100 # 1))) in *.
  destruct q as [n d]. cbn [Qnum Qden Qmult] in B, T.
  replace (Z.pos (d * 1)) with (Z.pos d) in * by (f_equal; lia).
  split.
  - apply Qabs_Qle_condition. unfold Qle, Qminus, Qplus, Qopp. cbn [Qnum Qden]. split; nia.
  - intros H. apply T.
    unfold Qabs, Qeq, Qminus, Qplus, Qopp in H. cbn [Qnum Qden] in H.
    destruct (Z.abs_spec (n * 100 + - z * Z.pos d)) as [[_ E]|[_ E]];
      rewrite E in H; [left|right]; nia.
Qed.

(* ---- sums, means, extrema *)
Fixpoint qsum_plain (l : list Q) : Q := match l with [] => 0%Q | x :: t => (x + qsum_plain t)%Q end.

Lemma qadd_cd_ok : forall a b, (qadd_cd a b == a + b)%Q.
Proof.
  intros [an ad] [bn bd]. unfold qadd_cd. cbn [Qnum Qden].
  destruct (Pos.eqb ad bd) eqn:E; [|reflexivity].
  apply Pos.eqb_eq in E. subst bd. unfold Qeq, Qplus. cbn [Qnum Qden]. nia.
Qed.

Lemma qsum_ok : forall l, (qsum l == qsum_plain l)%Q.
Proof. induction l as [|x t IH]; cbn [qsum qsum_plain]; [reflexivity|]. rewrite qadd_cd_ok. apply Qplus_comp; [reflexivity|exact IH]. Qed.

Lemma qmean_spec : forall l m, qmean l = Some m ->
  l <> [] /\ (m * inject_Z (Z.of_nat (length l)) == qsum_plain l)%Q.
Proof.
  intros l m H. destruct l as [|x t]; [discriminate|]. split; [discriminate|].
  assert (Hm : m = (qsum (x :: t) / inject_Z (Z.of_nat (length (x :: t))))%Q) by (unfold qmean in H; congruence).
  transitivity (qsum (x :: t)); [|apply qsum_ok].
  set (s := qsum (x :: t)) in *. set (k := length (x :: t)) in *.
  assert (Hk : ~ (inject_Z (Z.of_nat k) == 0)%Q) by (unfold Qeq; cbn; unfold k; cbn [length]; lia).
  rewrite Hm. field. exact Hk.
Qed.

Lemma qmin2_le : forall a b, (qmin2 a b <= a)%Q /\ (qmin2 a b <= b)%Q /\ (qmin2 a b = a \/ qmin2 a b = b).
Proof.
  intros a b. unfold qmin2. destruct (Qle_bool a b) eqn:E.
  - apply Qle_bool_iff in E. repeat split; [apply Qle_refl|exact E|left; reflexivity].
  - assert (~ (a <= b)%Q) by (intro H; apply Qle_bool_iff in H; congruence).
    repeat split; [apply Qlt_le_weak, Qnot_le_lt; assumption|apply Qle_refl|right; reflexivity].
Qed.
Lemma qmax2_ge : forall a b, (a <= qmax2 a b)%Q /\ (b <= qmax2 a b)%Q /\ (qmax2 a b = a \/ qmax2 a b = b).
Proof.
  intros a b. unfold qmax2. destruct (Qle_bool b a) eqn:E.
  - apply Qle_bool_iff in E. repeat split; [apply Qle_refl|exact E|left; reflexivity].
  - assert (~ (b <= a)%Q) by (intro H; apply Qle_bool_iff in H; congruence).
    repeat split; [apply Qlt_le_weak, Qnot_le_lt; assumption|apply Qle_refl|right; reflexivity].
Qed.

Lemma fold_qmin2 : forall t x, let m := fold_left qmin2 t x in
  In m (x :: t) /\ forall y, In y (x :: t) -> (m <= y)%Q.
Proof.
  induction t as [|a t IH]; intros x; cbn [fold_left].
  - split; [left; reflexivity|]. intros y [<-|[]]. apply Qle_refl.
  - specialize (IH (qmin2 x a)). cbv zeta in IH. destruct IH as [Hin Hle].
    destruct (qmin2_le x a) as (L1 & L2 & L3). split.
    + destruct Hin as [H|H]; [|right; right; exact H].
      rewrite <- H. destruct L3 as [->| ->]; [left; reflexivity|right; left; reflexivity].
    + intros y [<-|[<-|H]].
      * eapply Qle_trans; [apply Hle; left; reflexivity|exact L1].
      * eapply Qle_trans; [apply Hle; left; reflexivity|exact L2].
      * apply Hle. right. exact H.
Qed.
Lemma fold_qmax2 : forall t x, let m := fold_left qmax2 t x in
  In m (x :: t) /\ forall y, In y (x :: t) -> (y <= m)%Q.
Proof.
  induction t as [|a t IH]; intros x; cbn [fold_left].
  - split; [left; reflexivity|]. intros y [<-|[]]. apply Qle_refl.
  - specialize (IH (qmax2 x a)). cbv zeta in IH. destruct IH as [Hin Hle].
    destruct (qmax2_ge x a) as (L1 & L2 & L3). split.
    + destruct Hin as [H|H]; [|right; right; exact H].
      rewrite <- H. destruct L3 as [->| ->]; [left; reflexivity|right; left; reflexivity].
    + intros y [<-|[<-|H]].
      * eapply Qle_trans; [exact L1|apply Hle; left; reflexivity].
      * eapply Qle_trans; [exact L2|apply Hle; left; reflexivity].
      * apply Hle. right. exact H.
Qed.

Lemma qmin_list_spec : forall l m, qmin_list l = Some m -> In m l /\ forall y, In y l -> (m <= y)%Q.
Proof. intros [|x t] m H; [discriminate|]. injection H as <-. apply fold_qmin2. Qed.
Lemma qmax_list_spec : forall l m, qmax_list l = Some m -> In m l /\ forall y, In y l -> (y <= m)%Q.
Proof. intros [|x t] m H; [discriminate|]. injection H as <-. apply fold_qmax2. Qed.

(* ================================================================== B. the validator decides the specification *)
Definition mval_rel (v : mval) (j : json) : Prop :=
  match v with
  | MNum q => exists q', j = JNum q' /\ (q' == q)%Q
  | MStr s => j = JStr s
  end.

Lemma mval_matches_spec : forall v j, mval_matches v j = true <-> mval_rel v j.
Proof.
  intros [q|s] j; cbn.
  - destruct j; split; try discriminate; try (intros (q' & H & _); discriminate).
    + intros H. apply Qeq_bool_iff in H. eauto.
    + intros (q' & H & E). injection H as ->. apply Qeq_bool_iff. exact E.
  - destruct j; split; try discriminate.
    + intros H. apply String.eqb_eq in H. congruence.
    + intros H. injection H as ->. apply String.eqb_refl.
Qed.

(* the metric list states, for every metric of the code's list, the expected value (first entry of that type) *)
Definition MetricsSpec (r : option rxfig) (o : obs) (j : option json) : Prop :=
  exists rx pm l, r = Some rx /\ j = Some (JArr pm) /\ expected_metrics rx o = Some l /\
    forall name v, In (name, v) l -> exists jv, read_property pm name = Some jv /\ mval_rel v jv.

Lemma metrics_okb_spec : forall r o j, metrics_okb r o j = true <-> MetricsSpec r o j.
Proof.
  intros r o j. unfold metrics_okb, MetricsSpec. split.
  - destruct r as [rx|]; [|discriminate]. destruct j as [[| | | |pm|]|]; try discriminate.
    destruct (expected_metrics rx o) as [l|] eqn:E; [|discriminate].
    intros H. exists rx, pm, l. split; [reflexivity|]. split; [reflexivity|]. split; [exact E|].
    intros name v Hin. rewrite forallb_forall in H. specialize (H _ Hin). unfold metric_okb in H. cbn [fst snd] in H.
    destruct (read_property pm name) as [jv|]; [|discriminate].
    exists jv. split; [reflexivity|]. apply mval_matches_spec. exact H.
  - intros (rx & pm & l & -> & -> & E & H). rewrite E. apply forallb_forall. intros [name v] Hin.
    unfold metric_okb. cbn [fst snd]. destruct (H _ _ Hin) as (jv & -> & R). apply mval_matches_spec. exact R.
Qed.

Lemma zz_eqb_eq : forall a b, zz_eqb a b = true <-> a = b.
Proof.
  induction a as [|[x y] t IH]; intros [|[x' y'] t']; cbn [zz_eqb]; split; try discriminate; try reflexivity.
  - intros H. apply andb_prop in H as [H H3]. apply andb_prop in H as [H1 H2]. apply IH in H3.
    apply Z.eqb_eq in H1. apply Z.eqb_eq in H2. congruence.
  - intros H. injection H as E1 E2 E3. subst. rewrite !Z.eqb_refl. cbn. apply IH. reflexivity.
Qed.
Lemma ostr_eqb_eq : forall a b, ostr_eqb a b = true <-> a = b.
Proof.
  intros [a|] [b|]; cbn; split; try discriminate; try reflexivity.
  - intros H. apply String.eqb_eq in H. congruence.
  - intros H. injection H as ->. apply String.eqb_refl.
Qed.
Lemma item_eqb_eq : forall a b, item_eqb a b = true <-> a = b.
Proof.
  intros [x y|l|t m] [x' y'|l'|t' m']; cbn [item_eqb]; split; try discriminate.
  - intros H. apply andb_prop in H as [H1 H2]. apply String.eqb_eq in H1. apply String.eqb_eq in H2. congruence.
  - intros H. injection H as -> ->. rewrite !String.eqb_refl. reflexivity.
  - intros H. apply zz_eqb_eq in H. congruence.
  - intros H. injection H as ->. apply zz_eqb_eq. reflexivity.
  - intros H. apply andb_prop in H as [H1 H2]. apply String.eqb_eq in H1. apply ostr_eqb_eq in H2. congruence.
  - intros H. injection H as -> ->. rewrite String.eqb_refl. cbn. apply ostr_eqb_eq. reflexivity.
Qed.

(* the n-th route object has index n and states the n-th expected item *)
Definition RouteSpec (objs : list json) (items : list item) : Prop :=
  length objs = length items /\
  forall n j, nth_error objs n = Some j ->
    exists it, nth_error items n = Some it /\ classify j = Some (Z.of_nat n, it).

Lemma route_okb_spec_gen : forall objs items i, route_okb i objs items = true <->
  (length objs = length items /\
   forall n j, nth_error objs n = Some j ->
     exists it, nth_error items n = Some it /\ classify j = Some (i + Z.of_nat n, it)).
Proof.
  induction objs as [|j tj IH]; intros [|it ti] i; cbn [route_okb length].
  - split; [|reflexivity]. intros _. split; [reflexivity|]. intros [|n] j H; discriminate.
  - split; [discriminate|]. intros [H _]. discriminate.
  - split; [discriminate|]. intros [H _]. discriminate.
  - split.
    + destruct (classify j) as [[k it']|] eqn:C; [|discriminate]. intros H.
      apply andb_prop in H as [H H3]. apply andb_prop in H as [H1 H2].
      apply Z.eqb_eq in H1. apply item_eqb_eq in H2. subst k it'. apply IH in H3 as [L N].
      split; [lia|]. intros [|n] j' Hn; cbn [nth_error] in *.
      * injection Hn as <-. exists it. split; [reflexivity|]. rewrite C. do 2 f_equal. lia.
      * destruct (N _ _ Hn) as (it2 & A & B). exists it2. split; [exact A|]. rewrite B. do 2 f_equal. lia.
    + intros [L N]. destruct (N 0%nat j eq_refl) as (it0 & A & B). cbn [nth_error] in A. injection A as <-.
      rewrite B. replace (i + Z.of_nat 0) with i by lia. rewrite Z.eqb_refl.
      rewrite (proj2 (item_eqb_eq it it) eq_refl). cbn [andb]. apply IH. split; [lia|].
      intros n j' Hn. destruct (N (S n) j' Hn) as (it2 & A2 & B2). cbn [nth_error] in A2.
      exists it2. split; [exact A2|]. rewrite B2. do 2 f_equal. lia.
Qed.

Lemma route_okb_spec : forall objs items, route_okb 0 objs items = true <-> RouteSpec objs items.
Proof. intros objs items. exact (route_okb_spec_gen objs items 0). Qed.

Lemma isNone_spec : forall A (x : option A), isNone x = true <-> x = None.
Proof. intros A [a|]; cbn; split; congruence. Qed.
Lemma jstr_is_spec : forall j s, jstr_is j s = true <-> j = Some (JStr s).
Proof.
  intros [[| | |s'| |]|] s; cbn; split; try discriminate.
  - intros H. apply String.eqb_eq in H. congruence.
  - intros H. injection H as ->. apply String.eqb_refl.
Qed.

(* path-properties: forward metrics under 'path-metric', reverse metrics under 'z-a-path-metric' exactly when the
   request is bidirectional, and the route objects: per path element its hop object, the label object (zip N M) when
   served and none when blocked, the transponder object (selected type and mode) after a transceiver *)
Definition PPSpec (o : obs) (pp : json) : Prop :=
  exists kv, pp = JObj kv /\
    MetricsSpec (o_fwd o) o (jget "path-metric" kv) /\
    (if o_bidir o then MetricsSpec (o_rev o) o (jget "z-a-path-metric" kv)
     else jget "z-a-path-metric" kv = None) /\
    exists lab objs, spec_labels o = Some lab /\ jget "path-route-objects" kv = Some (JArr objs) /\
                     RouteSpec objs (expected_items o lab).

Lemma pp_okb_spec : forall o pp, pp_okb o pp = true <-> PPSpec o pp.
Proof.
  intros o pp. split.
  - destruct pp as [| | | | |kv]; try discriminate. cbn [pp_okb]. intros H.
    apply andb_prop in H as [H H3]. apply andb_prop in H as [H1 H2].
    exists kv. split; [reflexivity|]. split; [apply metrics_okb_spec; exact H1|]. split.
    { destruct (o_bidir o); [apply metrics_okb_spec; exact H2|apply isNone_spec; exact H2]. }
    destruct (spec_labels o) as [lab|]; [|discriminate].
    destruct (jget "path-route-objects" kv) as [[| | | |objs|]|]; try discriminate.
    exists lab, objs. repeat split; try reflexivity; apply route_okb_spec in H3; apply H3.
  - intros (kv & -> & M1 & M2 & lab & objs & L & J & R). cbn [pp_okb].
    rewrite (proj2 (metrics_okb_spec _ _ _) M1). rewrite L, J.
    rewrite (proj2 (route_okb_spec _ _) R).
    destruct (o_bidir o).
    + rewrite (proj2 (metrics_okb_spec _ _ _) M2). reflexivity.
    + rewrite (proj2 (isNone_spec _ _) M2). reflexivity.
Qed.

(* THE SPECIFICATION of one reported request *)
Definition Spec (o : obs) (resp : json) : Prop :=
  exists kv, resp = JObj kv /\
    jget "response-id" kv = Some (JStr (o_id o)) /\
    match o_block o with
    | None =>                                   (* served: no 'no-path', path-properties at top level *)
        jget "no-path" kv = None /\
        exists pp, jget "path-properties" kv = Some pp /\ PPSpec o pp
    | Some r =>                                 (* blocked: the reason; the candidate path unless there is none *)
        jget "path-properties" kv = None /\
        exists np, jget "no-path" kv = Some (JObj np) /\ jget "no-path" np = Some (JStr r) /\
          if mem_s r BLOCKING_NOPATH then jget "path-properties" np = None
          else exists pp, jget "path-properties" np = Some pp /\ PPSpec o pp
    end.

Theorem response_ok_spec : forall o resp, response_ok o resp = true <-> Spec o resp.
Proof.
  intros o resp. split.
  - destruct resp as [| | | | |kv]; try discriminate. cbn [response_ok]. intros H.
    apply andb_prop in H as [H1 H]. apply jstr_is_spec in H1.
    exists kv. split; [reflexivity|]. split; [exact H1|].
    destruct (o_block o) as [r|].
    + apply andb_prop in H as [H2 H]. apply isNone_spec in H2. split; [exact H2|].
      destruct (jget "no-path" kv) as [[| | | | |np]|]; try discriminate.
      apply andb_prop in H as [H3 H]. apply jstr_is_spec in H3.
      exists np. split; [reflexivity|]. split; [exact H3|].
      destruct (mem_s r BLOCKING_NOPATH).
      * apply isNone_spec. exact H.
      * destruct (jget "path-properties" np) as [pp|]; [|discriminate].
        exists pp. split; [reflexivity|]. apply pp_okb_spec. exact H.
    + apply andb_prop in H as [H2 H]. apply isNone_spec in H2. split; [exact H2|].
      destruct (jget "path-properties" kv) as [pp|]; [|discriminate].
      exists pp. split; [reflexivity|]. apply pp_okb_spec. exact H.
  - intros (kv & -> & I & H). cbn [response_ok]. rewrite (proj2 (jstr_is_spec _ _) I). cbn [andb].
    destruct (o_block o) as [r|].
    + destruct H as (P & np & N1 & N2 & H). rewrite (proj2 (isNone_spec _ _) P), N1.
      rewrite (proj2 (jstr_is_spec _ _) N2). cbn [andb].
      destruct (mem_s r BLOCKING_NOPATH).
      * apply isNone_spec. exact H.
      * destruct H as (pp & -> & H). apply pp_okb_spec. exact H.
    + destruct H as (P & pp & -> & H). rewrite (proj2 (isNone_spec _ _) P). cbn [andb].
      apply pp_okb_spec. exact H.
Qed.

(* ================================================================== C. the model of pathresult satisfies the specification *)
Lemma jget_hd : forall k v t, jget k ((k, v) :: t) = Some v.
Proof. intros. cbn [jget]. rewrite String.eqb_refl. reflexivity. Qed.
Lemma jget_tl : forall k k' v t, k <> k' -> jget k ((k', v) :: t) = jget k t.
Proof. intros k k' v t H. cbn [jget]. apply String.eqb_neq in H. rewrite H. reflexivity. Qed.
Ltac jget_simp := repeat (rewrite jget_hd || (rewrite jget_tl by discriminate) || (cbn [jget])).

Lemma as_int_jint : forall z, as_int (jint z) = Some z.
Proof.
  intros z. unfold as_int, jint. rewrite Qfloor_Z.
  replace (Qeq_bool (inject_Z z) (inject_Z z)) with true; [reflexivity|].
  symmetry. apply Qeq_bool_iff. reflexivity.
Qed.

Lemma labels_parse_map : forall l, labels_parse (map label_json l) = Some l.
Proof.
  induction l as [|[n m] t IH]; [reflexivity|].
  cbn [map labels_parse label_json fst snd]. jget_simp. rewrite !as_int_jint, IH. reflexivity.
Qed.

Lemma classify_item_obj : forall i it, classify (item_obj i it) = Some (i, it).
Proof.
  intros i it. unfold classify, item_obj. jget_simp. rewrite as_int_jint.
  destruct it as [a b|l|ty [m|]]; jget_simp; try reflexivity.
  rewrite labels_parse_map. reflexivity.
Qed.

Lemma item_eqb_refl : forall it, item_eqb it it = true.
Proof. intros it. apply item_eqb_eq. reflexivity. Qed.

Lemma route_okb_index_from : forall items i, route_okb i (index_from i items) items = true.
Proof.
  induction items as [|it t IH]; intros i; [reflexivity|].
  cbn [index_from route_okb]. rewrite classify_item_obj, Z.eqb_refl, item_eqb_refl, IH. reflexivity.
Qed.

Definition METRIC_NAMES : list string :=
  [SNR_BW; SNR_01NM; OSNR_BW; OSNR_01NM; LOWER_SNR; UPPER_SNR; PDL_PEN; CD_PEN; PMD_PEN; REF_POWER; PATH_BW].

Ltac destr_obind H :=
  repeat match type of H with
         | obind ?x _ = Some _ => let E := fresh "E" in destruct x eqn:E; [cbn [obind] in H|discriminate H]
         end.

Lemma expected_metrics_names : forall rx o l, expected_metrics rx o = Some l -> map fst l = METRIC_NAMES.
Proof.
  intros rx o l H. unfold expected_metrics in H. destr_obind H. injection H as <-. reflexivity.
Qed.

Lemma metric_names_nodup : NoDup METRIC_NAMES.
Proof.
  unfold METRIC_NAMES.
  repeat (constructor; [cbn [In]; intros H; repeat (destruct H as [H|H]; [discriminate H|]); exact H|]).
  constructor.
Qed.

Lemma read_property_metric_obj : forall l name v,
  NoDup (map fst l) -> In (name, v) l -> read_property (map metric_obj l) name = Some (mval_json v).
Proof.
  induction l as [|[n0 v0] t IH]; intros name v ND Hin; [destruct Hin|].
  cbn [map fst] in ND. inversion ND as [|x xs Hnot ND']; subst.
  cbn [map read_property metric_obj fst snd]. jget_simp.
  destruct Hin as [H|H].
  - injection H as -> ->. rewrite String.eqb_refl. reflexivity.
  - assert (Hne : n0 <> name).
    { intros ->. apply Hnot. apply (in_map fst) in H. exact H. }
    apply String.eqb_neq in Hne. rewrite Hne. apply IH; assumption.
Qed.

Lemma mval_matches_refl : forall v, mval_matches v (mval_json v) = true.
Proof. intros v. apply mval_matches_spec. destruct v; cbn; [eexists; split; [reflexivity|reflexivity]|reflexivity]. Qed.

Lemma metrics_okb_gen : forall rx o l, expected_metrics rx o = Some l ->
  metrics_okb (Some rx) o (Some (JArr (map metric_obj l))) = true.
Proof.
  intros rx o l E. unfold metrics_okb. rewrite E. apply forallb_forall. intros [name v] Hin.
  unfold metric_okb. cbn [fst snd]. rewrite (read_property_metric_obj l name v).
  - apply mval_matches_refl.
  - rewrite (expected_metrics_names _ _ _ E). apply metric_names_nodup.
  - exact Hin.
Qed.

Lemma labels_of_spec : forall o lab, labels_of o = Ok lab -> spec_labels o = Some lab.
Proof.
  intros o lab. unfold labels_of, spec_labels.
  destruct (o_block o); destruct (o_N o); destruct (o_M o); intros H; try discriminate; injection H as <-; reflexivity.
Qed.

Lemma path_metric_inv : forall r o pm, path_metric r o = Ok pm ->
  exists rx l, r = Some rx /\ expected_metrics rx o = Some l /\ pm = JArr (map metric_obj l).
Proof.
  intros [rx|] o pm H; cbn [path_metric] in H; [|discriminate].
  destruct (expected_metrics rx o) as [l|] eqn:E; [|discriminate]. injection H as <-. eauto.
Qed.

Lemma path_properties_ok : forall o pp,
  (o_path o = [] -> o_fwd o = None) -> path_properties o = Ok pp -> pp_okb o pp = true.
Proof.
  intros o pp WF H. unfold path_properties, bind in H.
  destruct (path_metric (o_fwd o) o) as [pm|] eqn:PM; [|discriminate].
  destruct (path_metric_inv _ _ _ PM) as (rx & l & F & E & ->).
  assert (NE : o_path o <> []) by (intros P; rewrite (WF P) in F; discriminate).
  assert (D : forall pro, detailed_path_json o = Ok pro ->
              exists lab, spec_labels o = Some lab /\ route_okb 0 pro (expected_items o lab) = true).
  { intros pro HD. unfold detailed_path_json in HD. destruct (o_path o) as [|h t] eqn:P; [contradiction|].
    unfold bind in HD. destruct (labels_of o) as [lab|] eqn:L; [|discriminate]. injection HD as <-.
    exists lab. split; [apply labels_of_spec; exact L|apply route_okb_index_from]. }
  destruct (o_bidir o) eqn:B.
  - destruct (path_metric (o_rev o) o) as [za|] eqn:ZA; [|discriminate].
    destruct (path_metric_inv _ _ _ ZA) as (rv & l' & R & E' & ->).
    destruct (detailed_path_json o) as [pro|] eqn:HD; [|discriminate]. injection H as <-.
    destruct (D pro eq_refl) as (lab & SL & RO).
    cbn [pp_okb]. jget_simp. rewrite B, F, R, SL, RO, !metrics_okb_gen by assumption. reflexivity.
  - destruct (detailed_path_json o) as [pro|] eqn:HD; [|discriminate]. injection H as <-.
    destruct (D pro eq_refl) as (lab & SL & RO).
    cbn [pp_okb]. jget_simp. rewrite B, F, SL, RO, metrics_okb_gen by assumption. reflexivity.
Qed.

Lemma jstr_is_refl : forall s, jstr_is (Some (JStr s)) s = true.
Proof. intros s. apply jstr_is_spec. reflexivity. Qed.

(* whenever the model of ResultElement.json returns a document, that document satisfies the validator;
   the side condition says that receiver figures only exist for a non-empty path *)
Theorem pathresult_ok : forall o r,
  (o_path o = [] -> o_fwd o = None) -> pathresult o = Ok r -> response_ok o r = true.
Proof.
  intros o r WF H. unfold pathresult in H.
  destruct (o_block o) as [reason|] eqn:B.
  - destruct (mem_s reason BLOCKING_NOPATH) eqn:M.
    + injection H as <-. cbn [response_ok]. jget_simp. rewrite B, M, !jstr_is_refl. reflexivity.
    + unfold bind in H. destruct (path_properties o) as [pp|] eqn:PP; [|discriminate]. injection H as <-.
      cbn [response_ok]. jget_simp. rewrite B, M, !jstr_is_refl. cbn [isNone andb].
      apply path_properties_ok; assumption.
  - unfold bind in H. destruct (path_properties o) as [pp|] eqn:PP; [|discriminate]. injection H as <-.
    cbn [response_ok]. jget_simp. rewrite B, jstr_is_refl. cbn [isNone andb].
    apply path_properties_ok; assumption.
Qed.

Corollary pathresult_spec : forall o r,
  (o_path o = [] -> o_fwd o = None) -> pathresult o = Ok r -> Spec o r.
Proof. intros o r WF H. apply response_ok_spec. apply pathresult_ok; assumption. Qed.

(* ================================================================== D. what a response that meets Spec tells its reader *)
(* the path properties of a response, wherever they sit *)
Definition response_pp (resp : json) : option json :=
  match resp with
  | JObj kv =>
      match jget "path-properties" kv with
      | Some pp => Some pp
      | None => match jget "no-path" kv with Some (JObj np) => jget "path-properties" np | _ => None end
      end
  | _ => None
  end.
Definition pp_field (k : string) (resp : json) : option json :=
  match response_pp resp with Some (JObj kv) => jget k kv | _ => None end.
Definition route_objects (resp : json) : list json :=
  match pp_field "path-route-objects" resp with Some (JArr l) => l | _ => [] end.
Definition metric_list (k : string) (resp : json) : list json :=
  match pp_field k resp with Some (JArr l) => l | _ => [] end.
(* what the route objects state, in order *)
Definition stated (objs : list json) : list item :=
  flat_map (fun j => match classify j with Some (_, it) => [it] | None => [] end) objs.
Definition hops_of (l : list item) : list string :=
  flat_map (fun it => match it with IHop a _ => [a] | _ => [] end) l.
Definition labels_in (l : list item) : list (list (Z * Z)) :=
  flat_map (fun it => match it with ILabel x => [x] | _ => [] end) l.
Definition tsps_in (l : list item) : list (string * option string) :=
  flat_map (fun it => match it with ITsp t m => [(t, m)] | _ => [] end) l.

(* does the request report a path (served, or blocked with a candidate path)? *)
Definition reports_path (o : obs) : bool :=
  match o_block o with None => true | Some r => negb (mem_s r BLOCKING_NOPATH) end.

Lemma Spec_pp : forall o resp, Spec o resp -> reports_path o = true ->
  exists pp, response_pp resp = Some pp /\ PPSpec o pp.
Proof.
  intros o resp (kv & -> & _ & H) RP. unfold reports_path in RP. cbn [response_pp].
  destruct (o_block o) as [r|].
  - destruct H as (P & np & N1 & _ & H). rewrite P, N1.
    destruct (mem_s r BLOCKING_NOPATH); [discriminate|]. exact H.
  - destruct H as (_ & pp & -> & H). eauto.
Qed.

Lemma Spec_nopath : forall o resp r, Spec o resp -> o_block o = Some r -> mem_s r BLOCKING_NOPATH = true ->
  response_pp resp = None /\
  exists kv np, resp = JObj kv /\ jget "no-path" kv = Some (JObj np) /\ jget "no-path" np = Some (JStr r).
Proof.
  intros o resp r (kv & -> & _ & H) B M. rewrite B in H. destruct H as (P & np & N1 & N2 & H). rewrite M in H.
  split; [cbn [response_pp]; rewrite P, N1; exact H|eauto].
Qed.

Lemma route_okb_stated : forall objs items i, route_okb i objs items = true -> stated objs = items.
Proof.
  induction objs as [|j t IH]; intros [|it ti] i H; cbn [route_okb] in H; try discriminate; [reflexivity|].
  destruct (classify j) as [[k it']|] eqn:C; [|discriminate].
  apply andb_prop in H as [H H3]. apply andb_prop in H as [_ H2]. apply item_eqb_eq in H2. subst it'.
  unfold stated. cbn [flat_map]. rewrite C. cbn [app]. f_equal. exact (IH _ _ H3).
Qed.

(* the route objects state, element by element of the computed path: its hop, its labels when served, its
   transponder when it is a transceiver — in this order and nothing else *)
Theorem Spec_route : forall o resp, Spec o resp -> reports_path o = true ->
  exists lab, spec_labels o = Some lab /\ stated (route_objects resp) = expected_items o lab /\
              map classify (route_objects resp) =
              map (fun p => Some p) (combine (map Z.of_nat (seq 0 (length (route_objects resp)))) (expected_items o lab)).
Proof.
  intros o resp S RP. destruct (Spec_pp _ _ S RP) as (pp & E & (kv & -> & _ & _ & lab & objs & L & J & R)).
  exists lab. split; [exact L|]. unfold route_objects, pp_field. rewrite E, J. split.
  - apply (route_okb_stated _ _ 0). apply route_okb_spec. exact R.
  - destruct R as [Len N]. clear - Len N.
    assert (G : forall os its k, length os = length its ->
              (forall n j, nth_error os n = Some j -> exists it, nth_error its n = Some it /\ classify j = Some (Z.of_nat (k + n), it)) ->
              map classify os = map (fun p => Some p) (combine (map Z.of_nat (seq k (length os))) its)).
    { induction os as [|j t IH]; intros its k Hl Hn; destruct its as [|it ti].
      - reflexivity.
      - discriminate Hl.
      - discriminate Hl.
      - cbn [length seq map combine]. f_equal.
        + destruct (Hn 0%nat j eq_refl) as (it0 & A & B). cbn [nth_error] in A. injection A as <-.
          rewrite B. do 3 f_equal. lia.
        + apply IH; [cbn [length] in Hl; lia|]. intros n j' Hj. destruct (Hn (S n) j' Hj) as (it2 & A & B).
          cbn [nth_error] in A. exists it2. split; [exact A|]. rewrite B. do 3 f_equal. lia. }
    apply (G objs (expected_items o lab) 0%nat Len). exact N.
Qed.

Lemma flat_map_app' : forall A B (f : A -> list B) l1 l2, flat_map f (l1 ++ l2) = flat_map f l1 ++ flat_map f l2.
Proof. intros. apply flat_map_app. Qed.

Lemma hops_expected : forall o lab, hops_of (expected_items o lab) = map h_uid (o_path o).
Proof.
  intros o lab. unfold expected_items, hops_of. induction (o_path o) as [|h t IH]; [reflexivity|].
  cbn [flat_map map]. rewrite flat_map_app, IH. unfold hop_items. cbn [flat_map app].
  rewrite flat_map_app. destruct lab; destruct (h_trx h); reflexivity.
Qed.

Lemma labels_expected_none : forall o, labels_in (expected_items o None) = [].
Proof.
  intros o. unfold expected_items, labels_in. induction (o_path o) as [|h t IH]; [reflexivity|].
  cbn [flat_map]. rewrite flat_map_app, IH. unfold hop_items. cbn [flat_map app].
  destruct (h_trx h); reflexivity.
Qed.

Lemma labels_expected_some : forall o l,
  labels_in (expected_items o (Some l)) = repeat l (length (o_path o)).
Proof.
  intros o l. unfold expected_items, labels_in. induction (o_path o) as [|h t IH]; [reflexivity|].
  cbn [flat_map length repeat]. rewrite flat_map_app, IH. unfold hop_items. cbn [flat_map app].
  destruct (h_trx h); reflexivity.
Qed.

Lemma tsps_expected : forall o lab,
  tsps_in (expected_items o lab) = repeat (o_tsp o, o_mode o) (length (filter h_trx (o_path o))).
Proof.
  intros o lab. unfold expected_items, tsps_in. induction (o_path o) as [|h t IH]; [reflexivity|].
  cbn [flat_map filter]. rewrite flat_map_app, IH. unfold hop_items. cbn [flat_map app]. rewrite flat_map_app.
  destruct lab; destruct (h_trx h); reflexivity.
Qed.

(* hop by hop: the node ids of the hop objects, in order, are the uids of the computed path *)
Theorem Spec_hops : forall o resp, Spec o resp -> reports_path o = true ->
  hops_of (stated (route_objects resp)) = map h_uid (o_path o).
Proof. intros o resp S RP. destruct (Spec_route _ _ S RP) as (lab & _ & -> & _). apply hops_expected. Qed.

(* a blocked request carries its reason and no label object at all *)
Theorem Spec_blocked : forall o resp r, Spec o resp -> o_block o = Some r ->
  labels_in (stated (route_objects resp)) = [] /\
  exists kv np, resp = JObj kv /\ jget "no-path" kv = Some (JObj np) /\ jget "no-path" np = Some (JStr r) /\
                jget "path-properties" kv = None.
Proof.
  intros o resp r S B. split.
  - destruct (mem_s r BLOCKING_NOPATH) eqn:M.
    + destruct (Spec_nopath _ _ _ S B M) as [E _]. unfold route_objects, pp_field. rewrite E. reflexivity.
    + assert (RP : reports_path o = true) by (unfold reports_path; rewrite B, M; reflexivity).
      destruct (Spec_route _ _ S RP) as (lab & L & -> & _).
      unfold spec_labels in L. rewrite B in L. injection L as <-. apply labels_expected_none.
  - destruct S as (kv & -> & _ & H). rewrite B in H. destruct H as (P & np & N1 & N2 & _). eauto 8.
Qed.

(* a served request shows, after every hop, the labels zip(N, M) that were assigned; its transponder objects show
   the selected type and mode *)
Theorem Spec_served : forall o resp, Spec o resp -> o_block o = None ->
  exists n m, o_N o = Some n /\ o_M o = Some m /\
    labels_in (stated (route_objects resp)) = repeat (combine n m) (length (o_path o)) /\
    tsps_in (stated (route_objects resp)) = repeat (o_tsp o, o_mode o) (length (filter h_trx (o_path o))).
Proof.
  intros o resp S B.
  assert (RP : reports_path o = true) by (unfold reports_path; rewrite B; reflexivity).
  destruct (Spec_route _ _ S RP) as (lab & L & -> & _).
  unfold spec_labels in L. rewrite B in L.
  destruct (o_N o) as [n|]; [|discriminate]. destruct (o_M o) as [m|]; [|discriminate]. injection L as <-.
  exists n, m. repeat split; [apply labels_expected_some|apply tsps_expected].
Qed.

Theorem Spec_tsps : forall o resp, Spec o resp -> reports_path o = true ->
  tsps_in (stated (route_objects resp)) = repeat (o_tsp o, o_mode o) (length (filter h_trx (o_path o))).
Proof. intros o resp S RP. destruct (Spec_route _ _ S RP) as (lab & _ & -> & _). apply tsps_expected. Qed.

(* metrics: 'path-metric' states the forward receiver, 'z-a-path-metric' the reverse receiver, present exactly for
   bidirectional requests *)
Theorem Spec_metrics : forall o resp, Spec o resp -> reports_path o = true ->
  (exists rx l, o_fwd o = Some rx /\ expected_metrics rx o = Some l /\
     forall name v, In (name, v) l ->
       exists jv, read_property (metric_list "path-metric" resp) name = Some jv /\ mval_rel v jv) /\
  (if o_bidir o then
     exists rv l, o_rev o = Some rv /\ expected_metrics rv o = Some l /\
       forall name v, In (name, v) l ->
         exists jv, read_property (metric_list "z-a-path-metric" resp) name = Some jv /\ mval_rel v jv
   else pp_field "z-a-path-metric" resp = None).
Proof.
  intros o resp S RP. destruct (Spec_pp _ _ S RP) as (pp & E & (kv & -> & M1 & M2 & _)).
  unfold metric_list, pp_field. rewrite E. split.
  - destruct M1 as (rx & pm & l & F & J & EM & H). rewrite J. eauto 6.
  - destruct (o_bidir o).
    + destruct M2 as (rx & pm & l & F & J & EM & H). rewrite J. eauto 6.
    + exact M2.
Qed.

(* what expected_metrics contains: the six figures are round2 of the exact mean / minimum / maximum *)
Theorem expected_metrics_values : forall rx o l, expected_metrics rx o = Some l ->
  exists m1 m2 m3 m4 lo hi p1 p2 p3,
    qmean (r_snr rx) = Some m1 /\ qmean (r_snr01 rx) = Some m2 /\ qmean (r_osnr rx) = Some m3 /\
    qmean (r_osnr01 rx) = Some m4 /\ qmin_list (r_snr01 rx) = Some lo /\ qmax_list (r_snr01 rx) = Some hi /\
    penalty_val (r_pdl rx) = Some p1 /\ penalty_val (r_cd rx) = Some p2 /\ penalty_val (r_pmd rx) = Some p3 /\
    l = [(SNR_BW, MNum (round2q m1)); (SNR_01NM, MNum (round2q m2)); (OSNR_BW, MNum (round2q m3));
         (OSNR_01NM, MNum (round2q m4)); (LOWER_SNR, MNum (round2q lo)); (UPPER_SNR, MNum (round2q hi));
         (PDL_PEN, p1); (CD_PEN, p2); (PMD_PEN, p3); (REF_POWER, MNum (o_power o)); (PATH_BW, MNum (o_bw o))].
Proof.
  intros rx o l H. unfold expected_metrics in H. destr_obind H. injection H as <-.
  do 9 eexists. repeat split.
Qed.
