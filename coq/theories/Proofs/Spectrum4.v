(* C14 proofs, part 4: commit, one request, whole histories. *)
From Coq Require Import Lia ZifyBool Permutation Sorted.
From Verif Require Import Prelude Model.Spectrum Proofs.SpectrumBase Proofs.Spectrum Proofs.Spectrum2 Proofs.Spectrum3.
Open Scope Z_scope.
Local Arguments Z.mul : simpl never.
Local Arguments Z.add : simpl never.
Local Arguments Z.sub : simpl never.
Local Arguments Z.opp : simpl never.
Local Arguments Z.div : simpl never.
Local Arguments Z.max : simpl never.
Local Arguments Z.min : simpl never.
Local Arguments Z.of_nat : simpl never.
Local Arguments Z.to_nat : simpl never.

(* ------------------------------------------------------------------ assign_all *)
Lemma assign_all_spec : forall ns ms b b',
  WFb b -> assign_all b ns ms = Ok b' ->
  WFb b' /\ same_dims b b' /\ forall k, cell b' k = if covered (combine ns ms) k then Some SO else cell b k.
Proof.
  induction ns as [|n tn IH]; intros ms b b' W H.
  - cbn [assign_all] in H. injection H as <-. split; [exact W|]. split; [unfold same_dims; auto 10|]. reflexivity.
  - destruct ms as [|m tm].
    + cbn [assign_all] in H. injection H as <-. split; [exact W|]. split; [unfold same_dims; auto 10|]. reflexivity.
    + cbn [assign_all] in H. destruct (assign b n m) as [b1|e] eqn:Ea; [|discriminate]. cbn [bind] in H.
      destruct (assign_spec b n m b1 W Ea) as (W1 & D1 & C1).
      destruct (IH tm b1 b' W1 H) as (W' & D' & C'). split; [exact W'|]. split.
      * destruct D1 as (A1 & A2 & A3 & A4 & A5 & A6). destruct D' as (B1 & B2 & B3 & B4 & B5 & B6).
        unfold same_dims. repeat split; congruence.
      * intros k. rewrite C', C1. cbn [combine]. unfold covered. cbn [existsb fst snd].
        destruct (in_range n m k); [rewrite orb_true_l|rewrite orb_false_l].
        -- destruct (existsb _ _); reflexivity.
        -- reflexivity.
Qed.

Lemma assign_all_defined : forall sel b,
  WFb b -> Forall (fun nm => 0 < snd nm /\ fi_min b <= fst nm - snd nm /\ fst nm + snd nm - 1 <= fi_max b) sel ->
  exists b', assign_all b (map fst sel) (map snd sel) = Ok b'.
Proof.
  induction sel as [|[n m] t IH]; intros b W H; cbn [map assign_all fst snd].
  - eauto.
  - inversion H as [|? ? (Hm & Hlo & Hhi) Ht]; subst. cbn [fst snd] in *.
    destruct (assign_defined b n m W Hm Hlo Hhi) as (b1 & Ha). rewrite Ha. cbn [bind].
    destruct (assign_spec b n m b1 W Ha) as (W1 & (A1 & A2 & A3 & A4 & A5 & A6) & _).
    apply IH; [exact W1|]. rewrite A3, A4. exact Ht.
Qed.

(* ------------------------------------------------------------------ update_oms / commit *)
Lemma update_oms_spec : forall st i f st',
  update_oms st i f = Ok st' ->
  0 <= i < Z.of_nat (length st) /\
  exists o o', oms_at st i = Some o /\ f o = Ok o' /\ length st' = length st /\
               forall j, 0 <= j -> oms_at st' j = if j =? i then Some o' else oms_at st j.
Proof.
  induction st as [|x t IH]; intros i f st' H; [discriminate|].
  cbn [update_oms] in H. destruct (i =? 0) eqn:E.
  - destruct (f x) as [x'|e] eqn:Ef; [|discriminate]. cbn [bind] in H. injection H as <-.
    assert (i = 0) by lia. subst i. split; [cbn [length]; lia|]. exists x, x'.
    split; [reflexivity|]. split; [exact Ef|]. split; [reflexivity|].
    intros j Hj. unfold oms_at. destruct (j =? 0) eqn:Ej.
    + replace j with 0 by lia. reflexivity.
    + replace (Z.to_nat j) with (S (Z.to_nat (j - 1))) by lia. reflexivity.
  - destruct (update_oms t (i - 1) f) as [t'|e] eqn:Eu; [|discriminate]. cbn [bind] in H. injection H as <-.
    apply IH in Eu. destruct Eu as (Hi & o & o' & Ho & Hf & Hl & Hj).
    split; [cbn [length]; lia|]. exists o, o'. split.
    + unfold oms_at in *. replace (Z.to_nat i) with (S (Z.to_nat (i - 1))) by lia. exact Ho.
    + split; [exact Hf|]. split; [cbn [length]; lia|]. intros j Hj0. unfold oms_at in *.
      destruct (j =? 0) eqn:Ej0.
      * replace j with 0 by lia. replace (0 =? i) with false by lia. reflexivity.
      * replace (Z.to_nat j) with (S (Z.to_nat (j - 1))) by lia. cbn [nth_error].
        rewrite (Hj (j - 1)) by lia. replace (j - 1 =? i - 1) with (j =? i) by lia. reflexivity.
Qed.

Definition in_ids (i : Z) (ids : list Z) : bool := existsb (Z.eqb i) ids.

(* relation between a state and its successor after committing rs on the OMS listed in ids *)
Definition committed (d : dims) (st st' : state) (ids : list Z) (rs : list (Z * Z)) : Prop :=
  WFst d st' /\ length st' = length st /\
  forall i o, 0 <= i -> oms_at st i = Some o ->
    exists o', oms_at st' i = Some o' /\
      forall k, cell (bm o') k = if in_ids i ids && covered rs k then Some SO else cell (bm o) k.

Lemma Forall_nth_iff {A} (P : A -> Prop) (l : list A) :
  Forall P l <-> forall j x, nth_error l j = Some x -> P x.
Proof.
  rewrite Forall_forall. split.
  - intros H j x Hj. apply H. eapply nth_error_In; eauto.
  - intros H x Hx. apply In_nth_error in Hx. destruct Hx as (j & Hj). eauto.
Qed.

Lemma covered_idem rs k (c : option slot) :
  (if covered rs k then Some SO else if covered rs k then Some SO else c) = if covered rs k then Some SO else c.
Proof. destruct (covered rs k); reflexivity. Qed.

Lemma commit_spec d ns ms r nb : forall ids st st',
  WFst d st -> commit st ids ns ms r nb = Ok st' -> committed d st st' ids (combine ns ms).
Proof.
  induction ids as [|i t IH]; intros st st' W H.
  - cbn [commit] in H. injection H as <-. split; [exact W|]. split; [reflexivity|].
    intros i o Hi Ho. exists o. split; [exact Ho|]. intros k. reflexivity.
  - cbn [commit] in H.
    destruct (update_oms st i _) as [st1|e] eqn:Eu; [|discriminate]. cbn [bind] in H.
    apply update_oms_spec in Eu. destruct Eu as (Hi & o & o1 & Ho & Hf & Hl & Hj).
    destruct (assign_all (bm o) ns ms) as [b1|e] eqn:Ea; [|discriminate]. cbn [bind] in Hf. injection Hf as <-.
    pose proof (WFst_at d st i o W Ho) as (Wb & Dn & Dx & Dg).
    destruct (assign_all_spec ns ms (bm o) b1 Wb Ea) as (W1 & (A1 & A2 & A3 & A4 & A5 & A6) & C1).
    assert (W1st : WFst d st1).
    { unfold WFst. apply Forall_nth_iff. intros j x Hx.
      assert (Hjj : oms_at st1 (Z.of_nat j) = Some x) by (unfold oms_at; rewrite Nat2Z.id; exact Hx).
      rewrite Hj in Hjj by lia. destruct (Z.of_nat j =? i) eqn:E.
      - injection Hjj as <-. unfold WFo; cbn [bm]. split; [exact W1|]. repeat split; congruence.
      - eapply WFst_at; eauto. }
    destruct (IH st1 st' W1st H) as (W' & Hl' & C').
    split; [exact W'|]. split; [congruence|].
    intros j oj Hj0 Hoj.
    assert (Hst1 : oms_at st1 j = Some (if j =? i then mkO b1 (nb_ch o + nb) (services o ++ [r]) else oj)).
    { rewrite Hj by lia. destruct (j =? i) eqn:E; [reflexivity|exact Hoj]. }
    destruct (C' j _ Hj0 Hst1) as (o' & Ho' & Ck). exists o'. split; [exact Ho'|].
    intros k. rewrite Ck. unfold in_ids. cbn [existsb].
    destruct (j =? i) eqn:E.
    + assert (j = i) by lia. subst j. rewrite Ho in Hoj. injection Hoj as <-. cbn [bm]. rewrite C1.
      rewrite orb_true_l. cbn [andb]. destruct (existsb (Z.eqb i) t); cbn [andb].
      * apply covered_idem.
      * reflexivity.
    + rewrite orb_false_l. reflexivity.
Qed.

(* commit never raises for a selection that fits inside the guard bands *)
Lemma commit_defined d r nb sel : forall ids st,
  WFst d st -> valid_ids st ids ->
  Forall (fun nm => 0 < snd nm /\ d_min d + d_gb d <= fst nm - snd nm /\ fst nm + snd nm - 1 <= d_max d - d_gb d) sel ->
  exists st', commit st ids (map fst sel) (map snd sel) r nb = Ok st'.
Proof.
  induction ids as [|i t IH]; intros st W Hv Hs; cbn [commit]; [eauto|].
  inversion Hv as [|? ? Hi Ht]; subst.
  assert (G : forall st0 j, 0 <= j < Z.of_nat (length st0) -> WFst d st0 ->
              exists st1, update_oms st0 j (fun o => let* b' := assign_all (bm o) (map fst sel) (map snd sel) in
                                                     Ok (mkO b' (nb_ch o + nb) (services o ++ [r]))) = Ok st1).
  { induction st0 as [|x u IHu]; intros j Hj Wu; [cbn [length] in Hj; lia|].
    cbn [update_oms]. inversion Wu as [|? ? Wx Wt]; subst. destruct (j =? 0) eqn:E.
    - destruct Wx as (Wb & Dn & Dx & Dg). pose proof Wb as (_ & _ & Hfm & HfM & _).
      destruct (assign_all_defined sel (bm x) Wb) as (b' & Hb).
      { eapply Forall_impl; [|exact Hs]. intros nm (A & B & C). split; [exact A|]. lia. }
      rewrite Hb. cbn [bind]. eauto.
    - destruct (IHu (j - 1)) as (u' & Hu); [cbn [length] in Hj; lia|exact Wt|]. rewrite Hu. cbn [bind]. eauto. }
  destruct (G st i Hi W) as (st1 & Hu). rewrite Hu. cbn [bind].
  pose proof Hu as Hu'. apply update_oms_spec in Hu'. destruct Hu' as (_ & o & o1 & Ho & Hf & Hl & Hj).
  destruct (assign_all (bm o) (map fst sel) (map snd sel)) as [b1|e] eqn:Ea; [|discriminate]. cbn [bind] in Hf. injection Hf as <-.
  pose proof (WFst_at d st i o W Ho) as (Wb & Dn & Dx & Dg).
  destruct (assign_all_spec _ _ (bm o) b1 Wb Ea) as (W1 & (A1 & A2 & A3 & A4 & A5 & A6) & C1).
  apply IH; [| |exact Hs].
  - unfold WFst. apply Forall_nth_iff. intros j x Hx.
    assert (Hjj : oms_at st1 (Z.of_nat j) = Some x) by (unfold oms_at; rewrite Nat2Z.id; exact Hx).
    rewrite Hj in Hjj by lia. destruct (Z.of_nat j =? i) eqn:E.
    + injection Hjj as <-. unfold WFo; cbn [bm]. split; [exact W1|]. repeat split; congruence.
    + eapply WFst_at; eauto.
  - unfold valid_ids in *. rewrite Hl. exact Ht.
Qed.
