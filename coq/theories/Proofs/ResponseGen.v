(* C19 — translator tie: every definition of Gen/ResponseGen.v (generated from /repo's source by harness/pygen_c19.py on
   every run) equals the hand-written model of Model/Response.v.  An edit of the source that changes a translated
   decision changes the generated term and breaks one of these lemmas. *)
From Verif Require Import Prelude Model.Response Gen.ResponseGen.
From Verif Require Import Proofs.Response.
From Coq Require Import QArith Lia.
Open Scope Z_scope.

(* ------------------------------------------------------------------ blocking classes *)
Definition BLOCKING_NOMODE : list string := ["NO_FEASIBLE_MODE"; "MODE_NOT_FEASIBLE"]%string.
Definition BLOCKING_NOSPECTRUM : list string := ["NO_SPECTRUM"; "NOT_ENOUGH_RESERVED_SPECTRUM"]%string.

Lemma gen_blocking :
  g_BLOCKING_NOPATH = BLOCKING_NOPATH /\ g_BLOCKING_NOMODE = BLOCKING_NOMODE /\ g_BLOCKING_NOSPECTRUM = BLOCKING_NOSPECTRUM.
Proof. repeat split; reflexivity. Qed.

(* ------------------------------------------------------------------ ResultElement *)
Lemma gen_penalty_val : forall p, g_penalty_val p = penalty_val p.
Proof.
  intros [l|]; [|reflexivity]. unfold g_penalty_val, penalty_val.
  destruct (fins l) as [ql|]; [|reflexivity]. destruct (qmean ql); reflexivity.
Qed.

Lemma gen_metric_obj : forall nv, g_metric_obj nv = metric_obj nv.
Proof. reflexivity. Qed.

Lemma gen_expected_metrics : forall r o, g_expected_metrics r o = expected_metrics r o.
Proof.
  intros r o. unfold g_expected_metrics, expected_metrics.
  rewrite (gen_penalty_val (r_pdl r)), (gen_penalty_val (r_cd r)), (gen_penalty_val (r_pmd r)).
  destruct (qmean (r_snr r)); [|reflexivity].
  destruct (qmean (r_snr01 r)); [|reflexivity].
  destruct (qmean (r_osnr r)); [|reflexivity].
  destruct (qmean (r_osnr01 r)); [|reflexivity].
  destruct (qmin_list (r_snr01 r)); [|reflexivity].
  destruct (qmax_list (r_snr01 r)); [|reflexivity].
  destruct (penalty_val (r_pdl r)); [|reflexivity].
  destruct (penalty_val (r_cd r)); [|cbv [oseq oseq_acc mv_round obind]; reflexivity].
  destruct (penalty_val (r_pmd r)); cbv [oseq oseq_acc mv_round obind]; reflexivity.
Qed.

Lemma gen_path_metric : forall r o, g_path_metric r o = path_metric r o.
Proof.
  intros [rx|] o; [|reflexivity]. unfold g_path_metric, path_metric. rewrite gen_expected_metrics.
  destruct (expected_metrics rx o); reflexivity.
Qed.

Lemma gen_route_objects : forall i uid nm ty mode,
  g_hop_obj i uid = item_obj i (IHop uid uid) /\
  g_label_obj i nm = item_obj i (ILabel nm) /\
  g_tsp_obj i ty mode = item_obj i (ITsp ty mode).
Proof. intros. repeat split; reflexivity. Qed.

Lemma gen_dpj_loop : forall lab ty mode path i,
  g_dpj_loop lab ty mode i path = index_from i (flat_map (hop_items lab ty mode) path).
Proof.
  intros lab ty mode path. induction path as [|h t IH]; intros i; [reflexivity|].
  cbn [g_dpj_loop flat_map]. unfold hop_items at 1.
  destruct lab as [nm|]; destruct (h_trx h); cbn [app index_from]; rewrite IH; reflexivity.
Qed.

Lemma gen_labels_of : forall o, g_labels_of o = labels_of o.
Proof.
  intros o. unfold g_labels_of, labels_of.
  destruct (o_block o); destruct (o_N o); destruct (o_M o); reflexivity.
Qed.

Lemma gen_detailed_path_json : forall o, g_detailed_path_json o = detailed_path_json o.
Proof.
  intros o. unfold g_detailed_path_json, detailed_path_json. rewrite gen_labels_of.
  destruct (o_path o) as [|h t] eqn:P; [reflexivity|]. unfold bind.
  destruct (labels_of o) as [lab|]; [|reflexivity]. rewrite gen_dpj_loop.
  unfold expected_items. rewrite P. reflexivity.
Qed.

Lemma gen_path_properties : forall o, g_path_properties o = path_properties o.
Proof.
  intros o. unfold g_path_properties, path_properties.
  rewrite (gen_path_metric (o_fwd o)), (gen_path_metric (o_rev o)), gen_detailed_path_json.
  destruct (o_bidir o); destruct (path_metric (o_fwd o) o); reflexivity.
Qed.

Theorem gen_pathresult : forall o, g_pathresult o = pathresult o.
Proof.
  intros o. unfold g_pathresult, pathresult. rewrite gen_path_properties.
  destruct (o_block o) as [r|]; reflexivity.
Qed.

(* ------------------------------------------------------------------ jsontocsv *)
(* the decisions as they stand in the model csv_row: a blocked response carries path properties unless its reason is a
   BLOCKING_NOPATH one; Pass? compares the lowest SNR (the average when there is none) with the required OSNR, inclusive *)
Lemma gen_csv_reports_path : forall reason, g_csv_reports_path reason = negb (mem_s reason BLOCKING_NOPATH).
Proof. reflexivity. Qed.

Lemma gen_csv_pass : forall smin snr minosnr,
  g_csv_pass smin snr minosnr = match smin with CEmpty => cell_ge snr minosnr | _ => cell_ge smin minosnr end.
Proof. reflexivity. Qed.

Lemma gen_csv_positions : g_csv_positions = ((1, 2), (2, 3))%nat.
Proof. reflexivity. Qed.

(* csv_row is built from exactly these decisions *)
Lemma csv_row_nopath_reason : forall eqp margin pdbm kv id np reason,
  jget "response-id" kv = Some (JStr id) -> jget "no-path" kv = Some (JObj np) -> jget "no-path" np = Some (JStr reason) ->
  g_csv_reports_path reason = false ->
  csv_row eqp margin pdbm (JObj kv) = Ok [("response-id"%string, CStr id); ("Pass?"%string, CStr reason)].
Proof.
  intros eqp margin pdbm kv id np reason I N1 N2 G. rewrite gen_csv_reports_path in G.
  unfold csv_row. rewrite I, N1, N2. destruct (mem_s reason BLOCKING_NOPATH); [reflexivity|discriminate].
Qed.

Definition JSONTOPATH_COLS : list (string * colfmt) :=
  [(OSNR_01NM, CRound); (SNR_01NM, CRound); (SNR_BW, CRound); (LOWER_SNR, CRaw); (UPPER_SNR, CRaw);
   (PDL_PEN, CRaw); (CD_PEN, CRaw); (PMD_PEN, CRaw); (REF_POWER, CRoundDbm); (PATH_BW, CRoundGiga)].
Lemma gen_jsontopath_cols : g_jsontopath_cols = JSONTOPATH_COLS.
Proof. reflexivity. Qed.

(* the model of _jsontopath_metric prints these metrics in this order with these formats *)
Definition fmt_cell (f : colfmt) (pdbm : Q) (j : option json) : res cell :=
  match f with
  | CRaw => raw_cell j
  | CRound => round_cell j
  | CRoundDbm => match j with Some (JNum _) => Ok (CNum (round2q pdbm)) | _ => Err "TypeError:power or path_bandwidth" end
  | CRoundGiga => match j with Some (JNum bw) => Ok (CNum (round2q (bw / (1000000000 # 1)))) | _ => Err "TypeError:power or path_bandwidth" end
  end.
Lemma jsontopath_metric_cols : forall l pdbm cells,
  jsontopath_metric (Some (JArr l)) pdbm = Ok cells ->
  Forall2 (fun c nf => fmt_cell (snd nf) pdbm (read_property l (fst nf)) = Ok c) cells g_jsontopath_cols.
Proof.
  intros l pdbm cells H. rewrite gen_jsontopath_cols. unfold jsontopath_metric, bind in H.
  destruct (round_cell (read_property l OSNR_01NM)) as [c1|] eqn:E1; [|discriminate].
  destruct (round_cell (read_property l SNR_01NM)) as [c2|] eqn:E2; [|discriminate].
  destruct (round_cell (read_property l SNR_BW)) as [c3|] eqn:E3; [|discriminate].
  destruct (raw_cell (read_property l LOWER_SNR)) as [c4|] eqn:E4; [|discriminate].
  destruct (raw_cell (read_property l UPPER_SNR)) as [c5|] eqn:E5; [|discriminate].
  destruct (raw_cell (read_property l PDL_PEN)) as [c6|] eqn:E6; [|discriminate].
  destruct (raw_cell (read_property l CD_PEN)) as [c7|] eqn:E7; [|discriminate].
  destruct (raw_cell (read_property l PMD_PEN)) as [c8|] eqn:E8; [|discriminate].
  destruct (read_property l REF_POWER) as [[| |qp| | |]|] eqn:E9; try discriminate.
  destruct (read_property l PATH_BW) as [[| |qb| | |]|] eqn:E10; try discriminate.
  injection H as <-. unfold JSONTOPATH_COLS.
  repeat constructor; cbn [fst snd fmt_cell]; try assumption; rewrite ?E9, ?E10; reflexivity.
Qed.

(* the values _jsontoparams returns, by origin — the order in which the model jsontoparams lists them
   ([bw; osnr; snr; snrbw; smin; smax; pdl; cd; pmd; OSNR + margin; baud; power; path; spectrum; bit rate], the ten
   metric cells being numbered as _jsontopath_metric returns them) *)
Definition JSONTOPARAMS_VALUES : list string :=
  ["metric:9"; "metric:0"; "metric:1"; "metric:2"; "metric:3"; "metric:4"; "metric:5"; "metric:6"; "metric:7";
   "mode:OSNR+margin"; "mode:baud_rate"; "metric:8"; "path"; "spectrum"; "mode:bit_rate"]%string.
Lemma gen_jsontoparams_values :
  g_jsontoparams_values = JSONTOPARAMS_VALUES /\ g_csv_separators = (" | ", " | ")%string /\
  length g_jsontoparams_values = length PATH_FIELDS.
Proof. repeat split; reflexivity. Qed.

(* ------------------------------------------------------------------ aggregation *)
Definition KEY_FIELD_NAMES : list string :=
  ["source"; "destination"; "bidir"; "tsp"; "tsp_mode"; "baud_rate"; "nodes_list"; "loose_list"; "spacing"; "power";
   "nb_channel"; "f_min"; "f_max"; "format"; "OSNR"; "roll_off"; "tx_power"]%string.
Lemma gen_compare_fields : g_compare_fields = KEY_FIELD_NAMES /\ nth_error g_compare_fields 2 = Some "bidir"%string.
Proof. split; reflexivity. Qed.
Lemma gen_compare_reqs : forall r1 r2 disj, g_compare_reqs r1 r2 disj = compare_reqs r1 r2 disj.
Proof. reflexivity. Qed.
Lemma gen_can_absorb : forall req disj this_r, g_can_absorb req disj this_r = can_absorb req disj this_r.
Proof. reflexivity. Qed.
Lemma gen_merge : forall this_r req, g_merge this_r req = merge this_r req.
Proof. reflexivity. Qed.

(* ------------------------------------------------------------------ planning: order of the steps *)
Definition PLANNING_STEPS : list (string * list string * list string) :=
  [("build_oms_list", ["network"; "equipment"], ["oms_list"]);
   ("requests_from_json", ["data"; "equipment"], ["rqs"]);
   ("check_request_path_ids", ["rqs"], []);
   ("correct_json_route_list", ["network"; "rqs"], ["rqs"]);
   ("disjunctions_from_json", ["data"], ["dsjn"]);
   ("deduplicate_disjunctions", ["dsjn"], ["dsjn"]);
   ("requests_aggregation", ["rqs"; "dsjn"], ["rqs"; "dsjn"]);
   ("compute_path_dsjctn", ["network"; "equipment"; "rqs"; "dsjn"], ["pths"]);
   ("compute_path_with_disjunction", ["network"; "equipment"; "rqs"; "pths"; "redesign"],
    ["propagatedpths"; "reversed_pths"; "reversed_propagatedpths"]);
   ("pth_assign_spectrum", ["pths"; "rqs"; "oms_list"; "reversed_pths"; "user_policy"], [])]%string.
Lemma gen_planning_steps : g_planning_steps = PLANNING_STEPS.
Proof. reflexivity. Qed.

Fixpoint step_index (name : string) (steps : list (string * list string * list string)) (k : nat) : option nat :=
  match steps with
  | [] => None
  | (f, _, _) :: t => if String.eqb f name then Some k else step_index name t (S k)
  end.
Definition before (a b : string) (steps : list (string * list string * list string)) : bool :=
  match step_index a steps 0, step_index b steps 0 with Some i, Some j => Nat.ltb i j | _, _ => false end.
(* requests are checked for unique ids and harmonised, and the groups de-duplicated, before they are aggregated;
   routing, propagation and spectrum assignment work on the aggregated requests *)
Lemma planning_order :
  before "check_request_path_ids" "requests_aggregation" g_planning_steps = true /\
  before "correct_json_route_list" "requests_aggregation" g_planning_steps = true /\
  before "deduplicate_disjunctions" "requests_aggregation" g_planning_steps = true /\
  before "requests_aggregation" "compute_path_dsjctn" g_planning_steps = true /\
  before "compute_path_dsjctn" "compute_path_with_disjunction" g_planning_steps = true /\
  before "compute_path_with_disjunction" "pth_assign_spectrum" g_planning_steps = true.
Proof. repeat split; reflexivity. Qed.
