(* C08 / C17 — calculate_new_length is idempotent: a span it produced is never split again. *)
From Verif Require Import Prelude Model.Chain Proofs.Chain.
From Coq Require Import QArith Qround Lia ZifyBool Lqa Psatz.
Open Scope Z_scope.

Lemma Qfloor_one : forall x, (1 <= x)%Q -> (x < 2)%Q -> Qfloor x = 1.
Proof.
  intros x H1 H2. pose proof (Qfloor_le x) as A. pose proof (Qlt_floor x) as B.
  assert (C : (inject_Z (Qfloor x) < inject_Z 2)%Q) by (change (inject_Z 2) with 2%Q; lra).
  rewrite <- Zlt_Qlt in C.
  assert (D : (inject_Z 1 < inject_Z (Qfloor x + 1))%Q) by (change (inject_Z 1) with 1%Q; lra).
  rewrite <- Zlt_Qlt in D. lia.
Qed.
Lemma in_bounds_iff : forall x mn mx, in_bounds x mn mx = true <-> (qz mn <= x)%Q /\ (x <= qz mx)%Q.
Proof.
  intros. unfold in_bounds. rewrite Bool.andb_true_iff, !Qle_bool_iff. reflexivity.
Qed.

(* whatever calculate_new_length returned as span length is left in one piece by calculate_new_length *)
Lemma calc_len_idem : forall L mn mx tg len n L',
  0 < tg -> tg <= mx -> mn <= mx -> calc_len L mn mx tg = Ok (len, n) -> (L' == len)%Q ->
  exists len', calc_len L' mn mx tg = Ok (len', 1).
Proof.
  intros L mn mx tg len n L' Htg Hmx Hmn H HL.
  destruct (calc_len_spec L mn mx tg len n Htg Hmx H) as (Hn & Hmul & Hbig & Hsmall).
  destruct (Qlt_le_dec L' (qz mx)) as [Hlt|Hge].
  { exists L'. unfold calc_len. apply Qltb_lt in Hlt. rewrite Hlt. reflexivity. }
  (* L' >= max: then the first call was on a fibre >= max and returned exactly max *)
  destruct (Qlt_le_dec L (qz mx)) as [HLs|HLb].
  { destruct (Hsmall HLs) as [_ E]. subst len. exfalso. rewrite HL in Hge. apply (Qlt_not_le _ _ HLs Hge). }
  specialize (Hbig HLb).
  assert (HM : (len == qz mx)%Q) by (apply Qle_antisym; [exact Hbig | rewrite <- HL; exact Hge]).
  assert (Qtg : (0 < qz tg)%Q) by (apply qz_pos; exact Htg).
  assert (Qmx : (qz tg <= qz mx)%Q) by (apply qz_le; exact Hmx).
  assert (Qmn : (qz mn <= qz mx)%Q) by (apply qz_le; exact Hmn).
  unfold calc_len in H. assert (E0 : Qltb L (qz mx) = false) by (apply Qltb_ge; exact HLb). rewrite E0 in H.
  set (n2 := Qfloor (L / qz tg)) in *.
  assert (Hf1 : (inject_Z n2 <= L / qz tg)%Q) by (unfold n2; apply Qfloor_le).
  assert (Hf2 : (L / qz tg < inject_Z (n2 + 1))%Q) by (unfold n2; apply Qlt_floor).
  assert (Hn2 : 1 <= n2).
  { unfold n2. assert (Hle : (inject_Z 1 <= L / qz tg)%Q).
    { apply Qle_shift_div_l; [exact Qtg|]. change (inject_Z 1) with 1%Q. lra. }
    apply Qfloor_resp_le in Hle. rewrite Qfloor_Z in Hle. exact Hle. }
  clearbody n2.
  destruct ((n2 =? 0) || (n2 + 1 =? 0)) eqn:Ez; [discriminate|].
  set (N := qz n2) in *.
  assert (HN : (1 <= N)%Q) by (unfold N, qz; change 1%Q with (inject_Z 1); rewrite <- Zle_Qle; exact Hn2).
  assert (HN1 : (qz (n2 + 1) == N + 1)%Q) by (unfold N, qz; rewrite inject_Z_plus; reflexivity).
  set (len1 := (L / qz (n2 + 1))%Q) in *. set (len2 := (L / N)%Q) in *.
  assert (M1 : ((N + 1) * len1 == L)%Q) by (rewrite <- HN1; unfold len1; apply Qmult_div_r; apply qz_nz; lia).
  assert (M2 : (N * len2 == L)%Q) by (unfold len2, N; apply Qmult_div_r; apply qz_nz; lia).
  assert (HLt : (L < (N + 1) * qz tg)%Q).
  { assert (X : (L == (L / qz tg) * qz tg)%Q) by (field; apply Qnot_eq_sym; apply Qlt_not_eq; exact Qtg). rewrite X. rewrite <- HN1. unfold qz at 1.
    apply Qmult_lt_compat_r; [exact Qtg | exact Hf2]. }
  assert (Hl1 : (len1 < qz tg)%Q) by nra.
  (* the first call returned the longer candidate *)
  assert (Hsel : (len == len2)%Q /\ (in_bounds len1 mn mx = false \/
                 (Qle_bool (len2 - qz tg) (qz tg - len1) && Qle_bool len2 (qz mx) = true))).
  { destruct (in_bounds len1 mn mx && negb (in_bounds len2 mn mx)) eqn:B1.
    { assert (Hlen : len1 = len) by (inversion H; reflexivity). exfalso. rewrite <- Hlen in HM. lra. }
    destruct (in_bounds len2 mn mx && negb (in_bounds len1 mn mx)) eqn:B2.
    { assert (Hlen : len2 = len) by (inversion H; reflexivity). split; [rewrite <- Hlen; reflexivity|]. left.
      apply andb_prop in B2. destruct B2 as [_ B2]. apply Bool.negb_true_iff in B2. exact B2. }
    destruct (Qle_bool (len2 - qz tg) (qz tg - len1) && Qle_bool len2 (qz mx)) eqn:B3.
    { assert (Hlen : len2 = len) by (inversion H; reflexivity). split; [rewrite <- Hlen; reflexivity|]. right. reflexivity. }
    assert (Hlen : len1 = len) by (inversion H; reflexivity). exfalso. rewrite <- Hlen in HM. lra. }
  destruct Hsel as [Hl2 Hwhy]. rewrite Hl2 in HM.
  assert (Hhalf : (qz mx * (1 # 2) <= len1)%Q) by nra.
  assert (Hq : (1 <= L' / qz tg)%Q /\ (L' / qz tg < 2)%Q).
  { assert (EL : (L' == qz mx)%Q) by (rewrite HL, Hl2; exact HM).
    split.
    - apply Qle_shift_div_l; [exact Qtg|]. lra.
    - apply Qlt_shift_div_r; [exact Qtg|]. rewrite EL. nra. }
  assert (EL : (L' == qz mx)%Q) by (rewrite HL, Hl2; exact HM).
  unfold calc_len. assert (E1 : Qltb L' (qz mx) = false) by (apply Qltb_ge; exact Hge). rewrite E1.
  rewrite (Qfloor_one _ (proj1 Hq) (proj2 Hq)). cbn [Z.eqb orb Z.add Pos.add].
  change (1 + 1) with 2.
  assert (D1 : (L' / qz 1 == qz mx)%Q) by (rewrite EL; unfold qz; field).
  assert (D2 : (L' / qz 2 == qz mx * (1 # 2))%Q) by (rewrite EL; unfold qz; field).
  assert (B2' : in_bounds (L' / qz 1) mn mx = true) by (apply in_bounds_iff; rewrite D1; split; [exact Qmn | apply Qle_refl]).
  rewrite B2'. cbn [negb andb]. rewrite Bool.andb_false_r.
  destruct (in_bounds (L' / qz 2) mn mx) eqn:B1'; cbn [negb andb]; [|eexists; reflexivity].
  assert (C3 : Qle_bool (L' / qz 1 - qz tg) (qz tg - L' / qz 2) && Qle_bool (L' / qz 1) (qz mx) = true).
  { apply in_bounds_iff in B1'. destruct B1' as [B1a B1b]. rewrite D2 in B1a.
    destruct Hwhy as [W|W].
    - exfalso. assert (in_bounds len1 mn mx = true); [|congruence]. apply in_bounds_iff. split; lra.
    - apply andb_prop in W. destruct W as [W1 W2]. apply Qle_bool_iff in W1.
      apply andb_true_intro. split; apply Qle_bool_iff; rewrite ?D1, ?D2; lra. }
  rewrite C3. eexists. reflexivity.
Qed.

(* a length that split_fiber leaves alone, whatever the other parameters of the fibre *)
Definition stable_len (c : cfg) (L : Q) : Prop := forall g, (f_len g == L)%Q -> split_fib c g = Ok [Fib g].
Definition fstable (c : cfg) (e : elem) : Prop := match e with Fib g => stable_len c (f_len g) | _ => True end.
Lemma calc_one_split : forall c g len', calc_len (f_len g) (c_min c) (c_max c) (c_target c) = Ok (len', 1) -> split_fib c g = Ok [Fib g].
Proof. intros c g len' H. unfold split_fib. rewrite H. reflexivity. Qed.
Lemma c_min_le_target : forall c, c_min c <= c_target c.
Proof. intro c. unfold c_target. lia. Qed.
Lemma split_fib_stable : forall c f r, c_min c <= c_max c -> split_fib c f = Ok r -> Forall (fstable c) r.
Proof.
  intros c f r Hc H. unfold split_fib in H.
  destruct (calc_len (f_len f) (c_min c) (c_max c) (c_target c)) as [[len n]|] eqn:E; [|discriminate]. cbn [bind] in H.
  assert (St : stable_len c len).
  { intros g Hg. destruct (calc_len_idem _ _ _ _ _ _ (f_len g) (c_target_pos c) (c_target_le c Hc) Hc E Hg) as (len' & E').
    exact (calc_one_split c g len' E'). }
  destruct (n =? 1) eqn:En.
  - inversion H; subst r. constructor; [|constructor]. cbn [fstable].
    destruct (calc_len_spec _ _ _ _ _ _ (c_target_pos c) (c_target_le c Hc) E) as (_ & Hmul & _).
    assert (n = 1) by lia. subst n. intros g Hg. apply St. rewrite Hg, <- Hmul. unfold qz. ring.
  - destruct (lumped_inside f len); [|discriminate]. inversion H; subst r. apply Forall_forall. intros e He.
    apply in_map_iff in He. destruct He as (k & <- & _). cbn [fstable sub_span f_len]. exact St.
Qed.
Lemma split_chain_stable : forall c l s, c_min c <= c_max c -> Forall (fstable c) (filter (fun e => negb (is_fib e)) l) ->
  split_chain c l = Ok s -> Forall (fstable c) s.
Proof.
  intros c. induction l as [|e t IH]; intros s Hc _ H.
  - inversion H. constructor.
  - destruct e as [f|n lo|a]; cbn [split_chain] in H.
    + destruct (split_fib c f) as [r|] eqn:Ef; [|discriminate]. cbn [bind] in H.
      destruct (split_chain c t) as [b|] eqn:Et; [|discriminate]. cbn [bind] in H. inversion H; subst s.
      apply Forall_app. split; [exact (split_fib_stable c f r Hc Ef) | apply (IH b Hc); [apply Forall_forall; intros x Hx; apply filter_In in Hx; destruct Hx as [_ Hx]; destruct x; cbn in *; try discriminate; exact I | reflexivity]].
    + destruct (split_chain c t) as [b|] eqn:Et; [|discriminate]. cbn [bind] in H. inversion H; subst s.
      constructor; [exact I|]. apply (IH b Hc); [apply Forall_forall; intros x Hx; apply filter_In in Hx; destruct Hx as [_ Hx]; destruct x; cbn in *; try discriminate; exact I | reflexivity].
    + destruct (split_chain c t) as [b|] eqn:Et; [|discriminate]. cbn [bind] in H. inversion H; subst s.
      constructor; [exact I|]. apply (IH b Hc); [apply Forall_forall; intros x Hx; apply filter_In in Hx; destruct Hx as [_ Hx]; destruct x; cbn in *; try discriminate; exact I | reflexivity].
Qed.
Lemma fstable_key2 : forall c l l', map ekey2 l' = map ekey2 l -> Forall (fstable c) l -> Forall (fstable c) l'.
Proof.
  intros c l. induction l as [|e t IH]; intros l' H F; destruct l' as [|e' t']; try discriminate; [constructor|].
  cbn [map] in H. pose proof (f_equal (@hd _ (ekey2 e)) H) as He. pose proof (f_equal (@tl _) H) as Ht. cbn [hd tl] in He, Ht.
  inversion F as [|? ? Fe Ft]; subst. constructor; [|apply IH; assumption].
  assert (K1 : ekey e' = ekey e) by (apply (f_equal (fun t => fst (fst (fst (fst t))))) in He; exact He).
  assert (K3 : e_len e' = e_len e) by (apply (f_equal (fun t => snd (fst (fst t)))) in He; exact He).
  destruct e' as [f'|? ?|?]; [|exact I | exact I]. destruct e as [f|? ?|?]; cbn in K1; try discriminate.
  cbn in K3. cbn [fstable] in *. rewrite K3. exact Fe.
Qed.
Lemma fstable_conn : forall c l, Forall (fstable c) l -> Forall (fstable c) (conn c l).
Proof.
  intros c l F. induction F as [|e t Fe _ IH]; [constructor|]. destruct e as [f|n lo|a]; cbn [conn]; constructor; auto.
Qed.
Lemma fstable_erase : forall c L, Forall (fstable c) (erase L) -> Forall (fstable c) L.
Proof.
  intros c L. unfold erase. induction L as [|e t IH]; intro F; [constructor|]. cbn [filter] in F.
  destruct (is_auto e) eqn:Ea; cbn [negb] in F.
  - constructor; [destruct e; cbn in *; try discriminate; exact I | apply IH; exact F].
  - inversion F; subst. constructor; [assumption | apply IH; assumption].
Qed.
(* every fibre of a designed line has a length that split_fiber leaves alone *)
Lemma design_line_stable : forall c l l', c_min c <= c_max c -> no_auto (l_els l) -> design_line c l = Ok l' ->
  Forall (fstable c) (l_els l').
Proof.
  intros c l l' Hc Hna H. unfold design_line in H.
  destruct (add_missing c l) as [l1|] eqn:E1; [|discriminate]. cbn [bind] in H.
  destruct (pad_chain c (conn c (l_els l1))) as [p|] eqn:E2; [|discriminate]. cbn [bind] in H. inversion H; subst l'.
  cbn [l_els with_els]. apply (fstable_key2 c _ p (pad_chain_key2 _ _ _ E2)). apply fstable_conn.
  destruct (add_missing_erase c l l1 Hna E1) as (s & Es & Er & _). apply fstable_erase. rewrite Er.
  apply (split_chain_stable c (l_els l) s Hc); [|exact Es].
  apply Forall_forall. intros x Hx. apply filter_In in Hx. destruct Hx as [_ Hx]. destruct x; cbn in *; try discriminate; exact I.
Qed.
