(* Lemmas about Model/Redesign.v (C17). *)
From Verif Require Import Prelude Model.Chain Model.Redesign Proofs.Chain.
From Coq Require Import QArith Qround Lia ZifyBool Lqa.
Open Scope Z_scope.

(* ---------- SimParams ---------- *)
Lemma lower_ascii_idem : forall c, lower_ascii (lower_ascii c) = lower_ascii c.
Proof. intro c. destruct c as [[] [] [] [] [] [] [] []]; vm_compute; reflexivity. Qed.
Lemma lower_idem : forall s, lower (lower s) = lower s.
Proof. induction s as [|c t IH]; [reflexivity|]. cbn. rewrite lower_ascii_idem, IH. reflexivity. Qed.

(* of_json (to_json p) = p, all fields *)
Lemma raman_roundtrip : forall p, raman_of (raman_json p) = Ok p.
Proof. intros [a b c d e]. reflexivity. Qed.
Lemma nli_roundtrip_lower : forall p, nli_of (nli_json p) = Ok (mkNli (lower (n_method p)) (n_disp p) (n_phase p) (n_channels p) (n_nch p)).
Proof. intros [a b c d e]. reflexivity. Qed.
Lemma nli_of_lower : forall d p, nli_of d = Ok p -> lower (n_method p) = n_method p.
Proof.
  intros d p H. unfold nli_of in H. destruct (known_keys _ d); [|discriminate].
  destruct (dflt_of "method" d (JS "gn_model_analytic")); try discriminate. inversion H. cbn. apply lower_idem.
Qed.
Lemma nli_roundtrip : forall d p, nli_of d = Ok p -> nli_of (nli_json p) = Ok p.
Proof.
  intros d p H. rewrite nli_roundtrip_lower, (nli_of_lower d p H). destruct p; reflexivity.
Qed.

(* estimate_raman_gain leaves the shared parameters exactly as it found them, whatever they were; the solver in
   between sees flag = True with the coarse resolutions and default method / order / NLI settings *)
Lemma simparams_restored : forall dn dr st, set_params dn dr = Ok st ->
  exists during, estimate_raman_gain_params st = Ok (during, st) /\
    r_flag (sp_raman during) = JB true /\ r_result_res (sp_raman during) = JQ (inject_Z 50000) /\
    r_solver_res (sp_raman during) = JZ 100.
Proof.
  intros dn dr st H. unfold set_params in H.
  destruct (nli_of (match dn with Some d => d | None => [] end)) as [n|] eqn:En; [|discriminate]. cbn [bind] in H.
  destruct (raman_of (match dr with Some d => d | None => [] end)) as [r|] eqn:Er; [|discriminate]. cbn [bind] in H.
  inversion H; subst st. unfold estimate_raman_gain_params. cbn [sp_raman sp_nli].
  eexists. split.
  - unfold set_params at 1. cbn [nli_of raman_of known_keys forallb existsb String.eqb bind dflt_of kget Ascii.eqb Bool.eqb fst andb orb].
    unfold set_params. rewrite (nli_roundtrip _ n En), raman_roundtrip. cbn [bind]. reflexivity.
  - repeat split; reflexivity.
Qed.

(* ---------- rounding ---------- *)
Lemma Qltb_comp : forall a b c d, (a == b)%Q -> (c == d)%Q -> Qltb a c = Qltb b d.
Proof. intros a b c d H1 H2. unfold Qltb. rewrite (Qleb_comp _ _ H2 _ _ H1). reflexivity. Qed.
Lemma rhe_comp : forall x y, (x == y)%Q -> rhe x = rhe y.
Proof.
  intros x y H. unfold rhe. rewrite (Qfloor_comp _ _ H).
  assert (E : (x - inject_Z (Qfloor y) == y - inject_Z (Qfloor y))%Q) by (rewrite H; reflexivity).
  rewrite (Qltb_comp _ _ _ _ E (Qeq_refl (1 # 2))), (Qltb_comp _ _ _ _ (Qeq_refl (1 # 2)) E). reflexivity.
Qed.
Lemma rhe_Z : forall z, rhe (inject_Z z) = z.
Proof.
  intro z. unfold rhe. rewrite Qfloor_Z.
  assert (E : (inject_Z z - inject_Z z == 0)%Q) by ring.
  rewrite (Qltb_comp _ _ _ _ E (Qeq_refl (1 # 2))). reflexivity.
Qed.
Lemma pow10_nz : forall n, ~ (pow10 n == 0)%Q.
Proof.
  intros n C. unfold pow10 in C. assert (0 < 10 ^ Z.of_nat n) by (apply Z.pow_pos_nonneg; lia).
  unfold Qeq in C. simpl in C. lia.
Qed.
Lemma round_dec_comp : forall n x y, (x == y)%Q -> round_dec n x = round_dec n y.
Proof. intros n x y H. unfold round_dec. rewrite (rhe_comp (x * pow10 n) (y * pow10 n)) by (rewrite H; reflexivity). reflexivity. Qed.
Lemma round_dec_idem : forall n x, round_dec n (round_dec n x) = round_dec n x.
Proof.
  intros n x. unfold round_dec at 1.
  assert (E : rhe (round_dec n x * pow10 n) = rhe (x * pow10 n)).
  { unfold round_dec. set (z := rhe (x * pow10 n)).
    rewrite (rhe_comp _ (inject_Z z)); [apply rhe_Z|].
    rewrite Qred_correct. field. apply pow10_nz. }
  rewrite E. reflexivity.
Qed.
Lemma round_dec_qred : forall n x, Qred (round_dec n x) = round_dec n x.
Proof. intros. unfold round_dec. apply Qred_complete. apply Qred_correct. Qed.

Lemma rhe_le : forall x, (inject_Z (rhe x) <= x + (1 # 2))%Q.
Proof.
  intro x. unfold rhe. pose proof (Qfloor_le x) as Hf. pose proof (Qlt_floor x) as Hl.
  set (f := Qfloor x) in *.
  destruct (Qltb (x - inject_Z f) (1 # 2)) eqn:E1.
  - lra.
  - apply Qltb_ge in E1.
    assert (H1 : (inject_Z (f + 1) <= x + (1 # 2))%Q) by (rewrite inject_Z_plus; unfold inject_Z at 2; lra).
    destruct (Qltb (1 # 2) (x - inject_Z f)); [exact H1|]. destruct (Z.even f); [lra | exact H1].
Qed.
Lemma rhe_ge : forall x, (x - (1 # 2) <= inject_Z (rhe x))%Q.
Proof.
  intro x. unfold rhe. pose proof (Qfloor_le x) as Hf. pose proof (Qlt_floor x) as Hl.
  set (f := Qfloor x) in *. rewrite inject_Z_plus in Hl. unfold inject_Z at 2 in Hl.
  assert (H1 : (x - (1 # 2) <= inject_Z (f + 1))%Q) by (rewrite inject_Z_plus; unfold inject_Z at 2; lra).
  destruct (Qltb (x - inject_Z f) (1 # 2)) eqn:E1.
  - apply Qltb_lt in E1. lra.
  - destruct (Qltb (1 # 2) (x - inject_Z f)) eqn:E2; [exact H1|]. apply Qltb_ge in E2.
    destruct (Z.even f); [lra | exact H1].
Qed.

(* ---------- amplifier settings: export / reload / redesign ---------- *)
Lemma qmin_l : forall a b, (qmin a b <= a)%Q.
Proof. intros. unfold qmin. destruct (Qle_bool a b) eqn:E; [apply Qle_refl|]. apply Qlt_le_weak. apply Qltb_lt. unfold Qltb. rewrite E. reflexivity. Qed.
Lemma qmin_r : forall a b, (qmin a b <= b)%Q.
Proof. intros. unfold qmin. destruct (Qle_bool a b) eqn:E; [apply Qle_bool_iff; exact E | apply Qle_refl]. Qed.
Lemma qmin_cases : forall a b, qmin a b = a \/ qmin a b = b.
Proof. intros. unfold qmin. destruct (Qle_bool a b); auto. Qed.
Lemma qmax_cases : forall a b, (qmax a b = b /\ (a <= b)%Q) \/ (qmax a b = a /\ (b <= a)%Q).
Proof.
  intros. unfold qmax. destruct (Qle_bool a b) eqn:E.
  - left. split; [reflexivity | apply Qle_bool_iff; exact E].
  - right. split; [reflexivity|]. apply Qlt_le_weak. apply Qltb_lt. unfold Qltb. rewrite E. reflexivity.
Qed.
Lemma qmin0_zero : forall b, (0 <= b)%Q -> qmin 0 b = 0%Q.
Proof. intros b H. unfold qmin. apply Qle_bool_iff in H. rewrite H. reflexivity. Qed.

(* the power after the output VOA never exceeds p_max once design is through: the saturation test of a redesign
   finds nothing to reduce *)
Lemma headroom : forall pt pmax pr v m x,
  (pr <= pmax - pt)%Q -> (pr <= 0)%Q -> ((pr < 0)%Q -> (m <= 0)%Q) -> (m <= pmax - pt)%Q ->
  v = qmax (qmin x m) 0 -> (pt + pr + v <= pmax)%Q.
Proof.
  intros pt pmax pr v m x H1 H2 H3 H4 Hv.
  pose proof (qmin_r x m) as Hm.
  destruct (qmax_cases (qmin x m) 0) as [[E _]|[E Hpos]]; rewrite E in Hv; subst v; [lra|].
  destruct (Qlt_le_dec pr 0) as [Hn|Hp]; [specialize (H3 Hn); lra|].
  assert (pr == 0)%Q by lra. lra.
Qed.

Definition oQeq (a b : option Q) : Prop :=
  match a, b with Some x, Some y => (x == y)%Q | None, None => True | _, _ => False end.
Lemma oqred_eq : forall a b, oQeq a b -> oqred a = oqred b.
Proof. intros [x|] [y|] H; cbn in *; try contradiction; [f_equal; apply Qred_complete; exact H | reflexivity]. Qed.

(* hypotheses of the power-mode theorems, bundled: power mode; target_extended_gain >= 0; no library entry is called "" *)
Definition pm_ok (s : scfg) (lib : string -> option alib) : Prop :=
  s_pm s = true /\ (0 <= s_ext s)%Q /\ lib ""%string = None.

Lemma amp_gd_pm : forall s D x a, s_pm s = true ->
  amp_gd s D x a = ((x_loss x + amp_dp0 s x a - D + otru (i_invoa a))%Q, amp_dp0 s x a).
Proof. intros s D x a H. unfold amp_gd. rewrite H. destruct (i_gain a); reflexivity. Qed.

(* after design, the power behind the output VOA never exceeds p_max *)
Lemma amp_headroom : forall s lib D x a b, pm_ok s lib ->
  let gd := amp_gd s D x a in let pr := amp_pr s D x a b gd in
  (x_ptot x + (snd gd + pr + snd (amp_voa s x a b gd pr)) <= b_pmax b)%Q.
Proof.
  intros s lib D x a b (Hpm & Hext & _). cbn zeta. rewrite (amp_gd_pm s D x a Hpm). cbn [fst snd].
  set (dp0 := amp_dp0 s x a). set (gain0 := (x_loss x + dp0 - D + otru (i_invoa a))%Q).
  set (pt := (x_ptot x + dp0)%Q).
  set (pr := amp_pr s D x a b (gain0, dp0)).
  assert (Hpr1 : (pr <= b_pmax b - pt)%Q).
  { unfold pr, amp_pr. cbn [fst snd]. fold pt. rewrite Hpm. destruct (String.eqb (i_var a) "").
    - eapply Qle_trans; [apply qmin_r|]. pose proof (qmin_r (pt - gain0 + b_gfm b + s_ext s) (b_pmax b)). lra.
    - apply qmin_r. }
  assert (Hpr0 : (pr <= 0)%Q).
  { unfold pr, amp_pr. rewrite Hpm. destruct (String.eqb (i_var a) ""); apply qmin_l. }
  assert (Hneg : (pr < 0)%Q -> (qmin (b_pmax b - pt) (b_gfm b - (gain0 + pr)) <= 0)%Q).
  { intro Hn. unfold pr, amp_pr in *. cbn [fst snd] in *. fold pt in Hn |- *. rewrite Hpm in *.
    destruct (String.eqb (i_var a) "").
    - destruct (qmin_cases 0 (qmin (pt - gain0 + b_gfm b + s_ext s) (b_pmax b) - pt)) as [E|E]; rewrite E in *; [lra|].
      destruct (qmin_cases (pt - gain0 + b_gfm b + s_ext s) (b_pmax b)) as [E2|E2]; rewrite E2 in *.
      + eapply Qle_trans; [apply qmin_r|]. lra.
      + eapply Qle_trans; [apply qmin_l|]. lra.
    - destruct (qmin_cases 0 (b_pmax b - pt)) as [E|E]; rewrite E in *; [lra|].
      eapply Qle_trans; [apply qmin_l|]. lra. }
  unfold amp_voa. cbn [fst snd]. fold pt. rewrite Hpm. destruct (i_voa a) as [v|]; cbn [snd andb].
  - unfold pt in *. lra.
  - destruct (b_vauto b); cbn [snd]; [|unfold pt in *; lra].
    pose proof (headroom pt (b_pmax b) pr _ (qmin (b_pmax b - pt) (b_gfm b - (gain0 + pr)))
                  (r2f (qmin (b_pmax b - pt) (b_gfm b - (gain0 + pr))) (s_vstep s) - s_margin s) Hpr1 Hpr0 Hneg (qmin_l _ _) eq_refl) as K.
    unfold pt in *. lra.
Qed.

(* one amplifier, power mode: redesigning the exported amplifier in the same context (same span losses, an
   equal power budget D) reproduces it: same variety, equal gain / delta_p / VOAs, tilt rounded as exported *)
Lemma design_amp_fix_ctx : forall s lib sel D D2 x x2 a o D1, pm_ok s lib ->
  (D2 == D)%Q -> (x_loss x2 == x_loss x)%Q -> (x_ptot x2 == x_ptot x)%Q -> design_amp s lib sel D x a = Ok (o, D1) ->
  exists o' D1', design_amp s lib sel D2 x2 (export_amp o) = Ok (o', D1') /\ (D1' == D1)%Q /\
    export_amp o' = export_amp o.
Proof.
  intros s lib sel D D2 x x2 a o D1 Hok HD HL HP H. pose proof Hok as (Hpm & Hext & Hlib).
  unfold design_amp in H. destruct (lib (amp_var sel a)) as [b|] eqn:Elib; [|discriminate].
  pose proof (amp_headroom s lib D x a b Hok) as K. cbn zeta in K.
  set (gd := amp_gd s D x a) in *. set (pr := amp_pr s D x a b gd) in *. set (vv := amp_voa s x a b gd pr) in *.
  inversion H; subst o D1; clear H. rewrite Hpm in *.
  assert (Hvar : String.eqb (amp_var sel a) "" = false).
  { destruct (String.eqb (amp_var sel a) "") eqn:E; [|reflexivity]. apply String.eqb_eq in E. rewrite E, Hlib in Elib. discriminate. }
  set (a' := export_amp _).
  assert (Ea : a' = mkIn (i_name a) (amp_var sel a) (Some (round_dec 6 (fst gd + pr + snd vv)))
                         (Some (Qred (snd gd + pr + snd vv))) (Some (round_dec 5 (match i_tilt a with None => 0%Q | Some t => t end)))
                         (Some (Qred (fst vv))) (Some (Qred (otru (i_invoa a))))) by reflexivity.
  assert (Evar : amp_var sel a' = amp_var sel a) by (rewrite Ea; unfold amp_var at 1; cbn [i_var i_name]; rewrite Hvar; reflexivity).
  assert (Egd : amp_gd s D2 x2 a' = ((x_loss x2 + Qred (snd gd + pr + snd vv) - D2 + Qred (otru (i_invoa a)))%Q, Qred (snd gd + pr + snd vv))).
  { rewrite (amp_gd_pm s D2 x2 a' Hpm). rewrite Ea. reflexivity. }
  assert (Epr : amp_pr s D2 x2 a' b (amp_gd s D2 x2 a') = 0%Q).
  { rewrite Egd. unfold amp_pr. cbn [fst snd]. rewrite Ea at 1. cbn [i_var]. rewrite Hvar, Hpm.
    apply qmin0_zero. rewrite Qred_correct. lra. }
  assert (Evv : amp_voa s x2 a' b (amp_gd s D2 x2 a') 0 = (Qred (fst vv), 0%Q)) by (rewrite Ea; reflexivity).
  unfold design_amp. rewrite Evar, Elib, Epr, Evv, Egd, Hpm. cbn [fst snd].
  eexists. eexists. split; [reflexivity|]. split.
  - rewrite Ea. cbn [i_voa otru]. rewrite !Qred_correct.
    unfold vv, amp_voa. rewrite Hpm. destruct (i_voa a) as [v|]; cbn [fst snd otru andb]; [ring|].
    destruct (b_vauto b); cbn [fst snd]; ring.
  - unfold export_amp. cbn [o_name o_var o_gain o_dp o_tilt o_voa o_invoa oqred]. rewrite Ea. cbn [i_name i_tilt i_invoa otru].
    f_equal.
    + f_equal. apply round_dec_comp. rewrite !Qred_correct, HD, HL.
      unfold gd. rewrite (amp_gd_pm s D x a Hpm). cbn [fst snd]. ring.
    + f_equal. apply Qred_complete. rewrite !Qred_correct. ring.
    + f_equal. apply round_dec_idem.
    + f_equal. apply Qred_complete. rewrite Qred_correct. reflexivity.
    + f_equal. apply Qred_complete. rewrite Qred_correct. reflexivity.
Qed.
Lemma design_amp_fix : forall s lib sel D D2 x a o D1, pm_ok s lib ->
  (D2 == D)%Q -> design_amp s lib sel D x a = Ok (o, D1) ->
  exists o' D1', design_amp s lib sel D2 x (export_amp o) = Ok (o', D1') /\ (D1' == D1)%Q /\
    export_amp o' = export_amp o.
Proof. intros. eapply design_amp_fix_ctx; eauto; reflexivity. Qed.


(* a whole OMS: the exported design is reproduced by a redesign in the same span contexts *)
Definition reload (l : list (actx * ain)) (outs : list aout) : list (actx * ain) :=
  combine (map fst l) (map export_amp outs).
Lemma design_amps_fix : forall s lib sel l D D2 outs, pm_ok s lib -> (D2 == D)%Q ->
  design_amps s lib sel D l = Ok outs ->
  exists outs', design_amps s lib sel D2 (reload l outs) = Ok outs' /\ map export_amp outs' = map export_amp outs.
Proof.
  intros s lib sel. induction l as [|[x a] t IH]; intros D D2 outs Hok HD H.
  - inversion H. exists []. split; reflexivity.
  - cbn [design_amps] in H. destruct (design_amp s lib sel D x a) as [[o D1]|] eqn:E1; [|discriminate]. cbn [bind fst snd] in H.
    destruct (design_amps s lib sel D1 t) as [rest|] eqn:E2; [|discriminate]. cbn [bind] in H. inversion H; subst outs.
    destruct (design_amp_fix s lib sel D D2 x a o D1 Hok HD E1) as (o' & D1' & F1 & F2 & F3).
    destruct (IH D1 D1' rest Hok F2 E2) as (rest' & G1 & G2).
    exists (o' :: rest'). unfold reload in *. cbn [map combine fst design_amps]. rewrite F1. cbn [bind fst snd].
    rewrite G1. cbn [bind]. split; [reflexivity|]. cbn [map]. rewrite F3, G2. reflexivity.
Qed.

(* one export / reload / redesign round on the amplifier side, and any number of them *)
Definition amp_round (s : scfg) (lib : string -> option alib) (sel : string -> string) (D : Q) (ctxs : list actx)
  (ins : list ain) : res (list ain) :=
  let* outs := design_amps s lib sel D (combine ctxs ins) in Ok (map export_amp outs).
Fixpoint amp_rounds (s : scfg) (lib : string -> option alib) (sel : string -> string) (D : Q) (ctxs : list actx)
  (n : nat) (ins : list ain) : res (list ain) :=
  match n with O => Ok ins | S k => let* j := amp_round s lib sel D ctxs ins in amp_rounds s lib sel D ctxs k j end.
Lemma design_amps_length : forall s lib sel l D outs, design_amps s lib sel D l = Ok outs -> length outs = length l.
Proof.
  intros s lib sel. induction l as [|[x a] t IH]; intros D outs H.
  - inversion H. reflexivity.
  - cbn [design_amps] in H. destruct (design_amp s lib sel D x a) as [[o D1]|]; [|discriminate]. cbn [bind fst snd] in H.
    destruct (design_amps s lib sel D1 t) as [rest|] eqn:E2; [|discriminate]. cbn [bind] in H. inversion H.
    cbn. f_equal. apply (IH D1). exact E2.
Qed.
Lemma map_fst_combine : forall {A B} (a : list A) (b : list B), length a = length b -> map fst (combine a b) = a.
Proof. induction a as [|x a IH]; intros [|y b] H; try discriminate; [reflexivity|]. cbn. f_equal. apply IH. cbn in H. lia. Qed.
Lemma amp_round_fix : forall s lib sel D ctxs ins j1, pm_ok s lib -> length ctxs = length ins ->
  amp_round s lib sel D ctxs ins = Ok j1 -> amp_round s lib sel D ctxs j1 = Ok j1.
Proof.
  intros s lib sel D ctxs ins j1 Hok Hlen H. unfold amp_round in *.
  destruct (design_amps s lib sel D (combine ctxs ins)) as [outs|] eqn:E; [|discriminate]. cbn [bind] in H. inversion H; subst j1.
  destruct (design_amps_fix s lib sel _ D D outs Hok (Qeq_refl D) E) as (outs' & F1 & F2).
  unfold reload in F1. rewrite (map_fst_combine ctxs ins Hlen) in F1. rewrite F1. cbn [bind]. rewrite F2. reflexivity.
Qed.
Lemma amp_rounds_fix : forall s lib sel D ctxs ins j1 n, pm_ok s lib -> length ctxs = length ins ->
  amp_round s lib sel D ctxs ins = Ok j1 -> amp_rounds s lib sel D ctxs n j1 = Ok j1.
Proof.
  intros s lib sel D ctxs ins j1 n Hok Hlen H. induction n as [|k IH]; [reflexivity|].
  cbn [amp_rounds]. rewrite (amp_round_fix s lib sel D ctxs ins j1 Hok Hlen H). cbn [bind]. exact IH.
Qed.

(* round2float: the rounded value minus a margin of at least half a (rounded) step never exceeds the value *)
Lemma r2f_margin : forall step margin x,
  (1 # 100 <= round_dec 1 step)%Q -> (round_dec 1 step <= 2 * margin)%Q -> (r2f x step - margin <= x)%Q.
Proof.
  intros step margin x H1 H2. unfold r2f. apply Qle_bool_iff in H1. rewrite H1. apply Qle_bool_iff in H1.
  set (st := round_dec 1 step) in *.
  assert (Hst : (0 < st)%Q) by lra.
  set (k := rhe (x / st)).
  (* k * st is a multiple of st; st has one decimal, so rounding to one decimal changes nothing *)
  assert (Ek : (round_dec 1 (inject_Z k * st) == inject_Z k * st)%Q).
  { set (z := rhe (step * pow10 1)).
    assert (Est : (st == inject_Z z / pow10 1)%Q) by (unfold st, round_dec; fold z; apply Qred_correct).
    unfold round_dec. rewrite Qred_correct.
    assert (E : (inject_Z k * st * pow10 1 == inject_Z (k * z))%Q)
      by (rewrite Est, inject_Z_mult; field; apply pow10_nz).
    rewrite (rhe_comp _ _ E), rhe_Z, inject_Z_mult, Est. field. apply pow10_nz. }
  rewrite Ek.
  pose proof (rhe_le (x / st)) as Hle. fold k in Hle.
  assert (inject_Z k * st <= x + st * (1 # 2))%Q.
  { assert (Hx : ((x / st + (1 # 2)) * st == x + st * (1 # 2))%Q) by (field; lra).
    rewrite <- Hx. apply Qmult_le_compat_r; [exact Hle | lra]. }
  lra.
Qed.

(* ---------- fibre side ---------- *)
(* F7: the EOL margin is added to con_out by every design, so each export / reload / redesign round adds it again *)
Lemma conn_fib_cout : forall c f nf, exists x, f_cout (conn_fib c f nf) = Some x.
Proof. intros. unfold conn_fib. cbn. destruct nf; eauto. Qed.
Lemma conn_fib_again : forall c f nf x, f_cout f = Some x ->
  f_cout (conn_fib c f nf) = Some (if nf then x else (x + c_eol c)%Q).
Proof. intros c f nf x H. unfold conn_fib. cbn. rewrite H. reflexivity. Qed.
Fixpoint conn_n (c : cfg) (nf : bool) (n : nat) (f : fib) : fib :=
  match n with O => f | S k => conn_fib c (export_fib (conn_n c nf k f)) nf end.
(* after n further rounds a fibre that is not followed by a Fused carries n more EOL margins *)
Lemma conn_n_growth : forall c f x n, f_cout f = Some x ->
  exists y, f_cout (conn_n c false n f) = Some y /\ (y == x + inject_Z (Z.of_nat n) * c_eol c)%Q.
Proof.
  intros c f x n H. induction n as [|k (y & Hy & Ey)].
  - exists x. split; [exact H|]. cbn. ring.
  - cbn [conn_n]. eexists. split.
    + apply conn_fib_again. unfold export_fib. cbn [f_cout]. rewrite Hy. reflexivity.
    + cbn [oqred]. rewrite Qred_correct, Ey, Nat2Z.inj_succ. unfold Z.succ. rewrite inject_Z_plus. ring.
Qed.
Lemma redesign_eol_refuted : exists c f y1 y2, (0 < c_eol c)%Q /\
  f_cout (conn_n c false 1 f) = Some y1 /\ f_cout (conn_n c false 2 f) = Some y2 /\ (y2 == y1 + c_eol c)%Q /\ ~ (y2 == y1)%Q.
Proof.
  exists (mkCfg 150000 50000 10 0 (1 # 2) (3 # 2) (fun _ => 0%Q)), (mkFib "f" false (inject_Z 80000) (1 # 5000) (Some 0%Q) (Some (1 # 2)) 0 []).
  eexists. eexists. split; [reflexivity|]. split; [reflexivity|]. split; [reflexivity|]. split; vm_compute; congruence.
Qed.
(* with EOL = 0 connector losses are stable *)
Lemma map_qred2_idem : forall l, map qred2 (map qred2 l) = map qred2 l.
Proof.
  induction l as [|[a b] t IH]; [reflexivity|]. cbn [map]. rewrite IH. f_equal. unfold qred2. cbn [fst snd].
  f_equal; apply Qred_complete; apply Qred_correct.
Qed.
Lemma conn_fib_stable : forall c f nf, (c_eol c == 0)%Q ->
  export_fib (conn_fib c (export_fib (conn_fib c f nf)) nf) = export_fib (conn_fib c f nf).
Proof.
  intros c f nf H0. unfold export_fib, conn_fib. cbn [f_name f_raman f_len f_lc f_cin f_cout f_att f_lumped oqred].
  f_equal.
  - apply Qred_complete. rewrite (round_dec_comp 6 _ (round_dec 6 (f_len f / inject_Z 1000))).
    + rewrite round_dec_idem. reflexivity.
    + rewrite Qred_correct. field.
  - apply Qred_complete. rewrite (round_dec_comp 6 _ (round_dec 6 (f_lc f * inject_Z 1000))).
    + rewrite round_dec_idem. reflexivity.
    + rewrite Qred_correct. field.
  - f_equal. apply Qred_complete. apply Qred_correct.
  - f_equal. apply Qred_complete. destruct nf; rewrite ?Qred_correct; [reflexivity|]. rewrite H0. ring.
  - apply Qred_complete. apply Qred_correct.
  - apply map_qred2_idem.
Qed.

(* padding is stable: a span that has been padded is not padded again *)
Lemma span_sl_bump : forall c g d t, (span_sl c (bump (Fib g) d :: t) == span_sl c (Fib g :: t) + d)%Q.
Proof. intros. unfold span_sl. rewrite fib_loss_bump, raman_first_bump. ring. Qed.
Lemma pad_run_idem : forall c r r', pad_run c r = Ok r' -> pad_run c r' = Ok r'.
Proof.
  intros c r r' H. unfold pad_run in H.
  destruct (last r dflt) as [f|n lo|a] eqn:El.
  - destruct (f_raman f) eqn:Er.
    + inversion H; subst r'. unfold pad_run. rewrite El, Er. reflexivity.
    + destruct (Qltb (span_sl c r) (c_pad c)) eqn:Elt.
      * destruct r as [|[g|n lo|a] t].
        -- inversion H; subst r'. reflexivity.
        -- inversion H; subst r'. clear H. unfold pad_run.
           set (d := (c_pad c - span_sl c (Fib g :: t))%Q) in *.
           assert (L : exists f', last (bump (Fib g) d :: t) dflt = Fib f' /\ f_raman f' = false).
           { destruct t as [|e2 t2].
             - cbn in El. inversion El; subst f. eexists. split; [reflexivity | exact Er].
             - exists f. split; [|exact Er]. rewrite <- El. reflexivity. }
           destruct L as (f' & L1 & L2).
           change (Fib {| f_name := f_name g; f_raman := f_raman g; f_len := f_len g; f_lc := f_lc g; f_cin := f_cin g;
                          f_cout := f_cout g; f_att := f_att g + d; f_lumped := f_lumped g |}) with (bump (Fib g) d).
           rewrite L1, L2.
           assert (Hge : Qltb (span_sl c (bump (Fib g) d :: t)) (c_pad c) = false).
           { apply Qltb_ge. rewrite span_sl_bump. unfold d. ring_simplify. apply Qle_refl. }
           rewrite Hge. reflexivity.
        -- inversion H; subst r'. unfold pad_run. rewrite El, Er, Elt. reflexivity.
        -- inversion H; subst r'. unfold pad_run. rewrite El, Er, Elt. reflexivity.
      * inversion H; subst r'. unfold pad_run. rewrite El, Er, Elt. reflexivity.
  - inversion H; subst r'. unfold pad_run. rewrite El. reflexivity.
  - inversion H; subst r'. unfold pad_run. rewrite El. reflexivity.
Qed.

(* the span loss cached for the amplifier design is the loss of the padded span minus the estimated Raman gains
   (after gnpy fix 13a35c31) *)
Lemma run_dsl_spec : forall c r r', pad_run c r = Ok r' -> last_plain_fib r = true ->
  (run_dsl c r == span_sl c r')%Q.
Proof.
  intros c r r' H Hl. unfold run_dsl.
  destruct (pad_run_shape c r r' H) as [E|(g & t & E1 & E2 & Hlt)].
  - subst r'. destruct (Qltb (span_sl c r) (c_pad c)) eqn:E; [|reflexivity].
    (* below the padding but unchanged: only when the first element is not a fibre *)
    unfold pad_run in H. unfold last_plain_fib in Hl.
    destruct (last r dflt) as [f|n lo|a]; try discriminate.
    apply Bool.negb_true_iff in Hl. rewrite Hl, E in H.
    destruct r as [|[g|n lo|a] t]; try reflexivity.
    exfalso. inversion H as [H1]. apply (f_equal f_att) in H1.
    cbn [f_att] in H1. apply Qltb_lt in E.
    assert (Hq : (f_att g + (c_pad c - span_sl c (Fib g :: t)) == f_att g)%Q) by (rewrite H1; reflexivity). lra.
  - subst r r'. apply Qltb_lt in Hlt. rewrite Hlt. rewrite span_sl_bump. ring.
Qed.
(* hence the redesign of an exported padded span sees the same loss as the first design *)
Lemma run_dsl_stable : forall c r r', pad_run c r = Ok r' -> (run_dsl c r' == run_dsl c r)%Q.
Proof.
  intros c r r' H. destruct (pad_run_shape c r r' H) as [E|(g & t & E1 & E2 & Hlt)]; [subst r'; reflexivity|].
  subst r r'. unfold run_dsl.
  assert (Hge : Qltb (span_sl c (bump (Fib g) (c_pad c - span_sl c (Fib g :: t)) :: t)) (c_pad c) = false).
  { apply Qltb_ge. rewrite span_sl_bump. ring_simplify. apply Qle_refl. }
  rewrite Hge. apply Qltb_lt in Hlt. rewrite Hlt. rewrite span_sl_bump. reflexivity.
Qed.
(* the export keeps the lumped losses (gnpy fix 562b868b for finding F19): same positions and losses, hence the same
   fibre loss *)
Lemma export_keeps_lumped : forall f,
  Forall2 (fun a b => (fst a == fst b)%Q /\ (snd a == snd b)%Q) (f_lumped f) (f_lumped (export_fib f)) /\
  (qsum (map snd (f_lumped (export_fib f))) == qsum (map snd (f_lumped f)))%Q.
Proof.
  intro f. unfold export_fib. cbn [f_lumped]. induction (f_lumped f) as [|[a b] t [IH1 IH2]]; [split; [constructor | reflexivity]|].
  split.
  - constructor; [cbn; split; symmetry; apply Qred_correct | exact IH1].
  - cbn [map qsum qred2 fst snd]. rewrite IH2, Qred_correct. reflexivity.
Qed.
(* node-level design bands survive the export whenever there is at least one (gnpy fix 37844749 for finding F8);
   an empty list is re-filled from the SI bands by the design, as it was before the export *)
Lemma bands_roundtrip : forall {A} (si bands : list A), bands <> [] -> reload_bands si (export_bands bands) = bands.
Proof. intros A si [|b t] H; [contradiction | reflexivity]. Qed.
Lemma export_fib_idem : forall f, export_fib (export_fib f) = export_fib f.
Proof.
  intro f. unfold export_fib. cbn [f_name f_raman f_len f_lc f_cin f_cout f_att f_lumped].
  f_equal.
  - apply Qred_complete. rewrite (round_dec_comp 6 _ (round_dec 6 (f_len f / inject_Z 1000))).
    + rewrite round_dec_idem. reflexivity.
    + rewrite Qred_correct. field.
  - apply Qred_complete. rewrite (round_dec_comp 6 _ (round_dec 6 (f_lc f * inject_Z 1000))).
    + rewrite round_dec_idem. reflexivity.
    + rewrite Qred_correct. field.
  - destruct (f_cin f); cbn; [f_equal; apply Qred_complete; apply Qred_correct | reflexivity].
  - destruct (f_cout f); cbn; [f_equal; apply Qred_complete; apply Qred_correct | reflexivity].
  - apply Qred_complete. apply Qred_correct.
  - apply map_qred2_idem.
Qed.

(* ---------- non-vacuity ---------- *)
Definition ex_s : scfg := mkS true (-2) 3 (1 # 2) (3 # 10) 20 1 (1 # 2) (5 # 2).
Definition ex_lib (v : string) : option alib :=
  if String.eqb v "std_low_gain" then Some (mkLib 23 16 true)
  else if String.eqb v "std_medium_gain" then Some (mkLib 23 26 false) else None.
Example ex_pm_ok : pm_ok ex_s ex_lib.
Proof.
  unfold pm_ok. split; [reflexivity|]. split; [vm_compute; congruence | reflexivity].
Qed.
Definition ex_items : list (actx * ain) :=
  [(mkX 0 (NLoss (165 # 10)) (198 # 10), mkIn "booster" "" None None None None None);
   (mkX (165 # 10) (NLoss 24) (198 # 10), mkIn "ila" "std_medium_gain" (Some 20%Q) None (Some (1234567 # 1000000)) (Some (1 # 2)) None);
   (mkX 24 NRoadm (198 # 10), mkIn "preamp" "" None None None None None)].
Definition ex_sel (n : string) : string := if String.eqb n "booster" then "std_low_gain"%string else "std_medium_gain"%string.
Example ex_round : exists j1, amp_round ex_s ex_lib ex_sel (-20) (map fst ex_items) (map snd ex_items) = Ok j1 /\
  amp_round ex_s ex_lib ex_sel (-20) (map fst ex_items) j1 = Ok j1 /\ length j1 = 3%nat.
Proof. eexists. split; [vm_compute; reflexivity|]. split; vm_compute; reflexivity. Qed.
Example ex_simparams : exists st during, set_params (Some [("method", JS "GGN_Spectrally_Separated")]%string)
                                           (Some [("flag", JB true); ("order", JZ 3)]%string) = Ok st /\
  estimate_raman_gain_params st = Ok (during, st) /\ n_method (sp_nli st) = "ggn_spectrally_separated"%string /\
  r_order (sp_raman during) = JZ 2.
Proof. eexists. eexists. split; [vm_compute; reflexivity|]. split; [vm_compute; reflexivity|]. split; vm_compute; reflexivity. Qed.

(* ---------- gain mode: the redesign reproduces the export up to the exported rounding ---------- *)
Definition hh : Q := 1 # 2000000.      (* half a unit of the 6th decimal *)
Lemma round6_err : forall x, (- hh <= round_dec 6 x - x)%Q /\ (round_dec 6 x - x <= hh)%Q.
Proof.
  intro x. unfold round_dec. rewrite Qred_correct.
  assert (P : (pow10 6 == inject_Z 1000000)%Q) by reflexivity.
  pose proof (rhe_le (x * pow10 6)) as H1. pose proof (rhe_ge (x * pow10 6)) as H2.
  set (z := inject_Z (rhe (x * pow10 6))) in *. rewrite P in *. unfold hh.
  assert (E : (z / inject_Z 1000000 == z * (1 # 1000000))%Q) by (field).
  rewrite E. change (inject_Z 1000000) with (1000000 # 1)%Q in *. split; lra.
Qed.
Lemma amp_gd_gain_mode : forall s D x a, s_pm s = false ->
  (snd (amp_gd s D x a) == D - x_loss x + fst (amp_gd s D x a) - otru (i_invoa a))%Q.
Proof. intros s D x a H. unfold amp_gd. rewrite H. destruct (i_gain a); cbn [fst snd]; ring. Qed.
Lemma amp_var_ne : forall (lib : string -> option alib) sel a b, lib ""%string = None -> lib (amp_var sel a) = Some b -> String.eqb (amp_var sel a) "" = false.
Proof.
  intros lib sel a b Hl H. destruct (String.eqb (amp_var sel a) "") eqn:E; [|reflexivity].
  apply String.eqb_eq in E. rewrite E, Hl in H. discriminate.
Qed.

(* one amplifier, gain mode.  D2 within e of D: the redesign of the exported amplifier gives a gain within
   e + 2 hh below / hh above the designed one, a budget within e + hh, and everything else as exported. *)
Lemma design_amp_gain_mode : forall s lib sel D D2 x a o D1 e,
  s_pm s = false -> lib ""%string = None -> (i_var a = ""%string -> (otru (i_invoa a) == 0)%Q) ->
  (0 <= e)%Q -> (- e <= D2 - D)%Q -> (D2 - D <= e)%Q ->
  design_amp s lib sel D x a = Ok (o, D1) ->
  exists o' D1', design_amp s lib sel D2 x (export_amp o) = Ok (o', D1') /\
    (- (e + hh) <= D1' - D1)%Q /\ (D1' - D1 <= e + hh)%Q /\
    (- (e + 2 * hh) <= o_gain o' - o_gain o)%Q /\ (o_gain o' - o_gain o <= hh)%Q /\
    o_name o' = o_name o /\ o_var o' = o_var o /\ o_dp o' = None /\ o_dp o = None /\
    (o_voa o' == o_voa o)%Q /\ (o_invoa o' == o_invoa o)%Q /\ o_tilt o' = round_dec 5 (o_tilt o).
Proof.
  intros s lib sel D D2 x a o D1 e Hpm Hlib Hinv He HD1 HD2 H.
  unfold design_amp in H. destruct (lib (amp_var sel a)) as [b|] eqn:Elib; [|discriminate].
  pose proof (amp_gd_gain_mode s D x a Hpm) as Hdp.
  set (gd := amp_gd s D x a) in *. set (pr := amp_pr s D x a b gd) in *.
  set (vv := amp_voa s x a b gd pr) in *.
  inversion H; subst o D1; clear H. rewrite Hpm in *.
  pose proof (amp_var_ne lib sel a b Hlib Elib) as Hvar.
  (* round 1: no saturation left, nothing added by the VOA *)
  assert (Hvv : snd vv = 0%Q /\ fst vv = otru (i_voa a)).
  { unfold vv, amp_voa. rewrite Hpm. destruct (i_voa a); cbn; split; reflexivity. }
  destruct Hvv as [Hv1 Hv2].
  assert (Hpr0 : (pr <= 0)%Q).
  { unfold pr, amp_pr. rewrite Hpm. destruct (String.eqb (i_var a) ""); apply qmin_l. }
  assert (Hsat : (x_ptot x + D - x_loss x + fst gd + pr <= b_pmax b)%Q).
  { unfold pr, amp_pr. rewrite Hpm. destruct (String.eqb (i_var a) "") eqn:Ea.
    - apply String.eqb_eq in Ea. specialize (Hinv Ea).
      pose proof (qmin_r 0 (qmin (x_ptot x + snd gd - fst gd + b_gfm b + s_ext s) (b_pmax b) - (x_ptot x + snd gd))).
      pose proof (qmin_r (x_ptot x + snd gd - fst gd + b_gfm b + s_ext s) (b_pmax b)). lra.
    - pose proof (qmin_r 0 (b_pmax b - (x_ptot x + D - x_loss x + fst gd))). lra. }
  set (G := (fst gd + pr + snd vv)%Q) in *.
  set (a' := export_amp _).
  assert (Ea : a' = mkIn (i_name a) (amp_var sel a) (Some (round_dec 6 G)) None
                         (Some (round_dec 5 (match i_tilt a with None => 0%Q | Some t => t end)))
                         (Some (Qred (fst vv))) (Some (Qred (otru (i_invoa a))))) by reflexivity.
  destruct (round6_err G) as [R1 R2]. set (g6 := round_dec 6 G) in *.
  assert (Evar : amp_var sel a' = amp_var sel a) by (rewrite Ea; unfold amp_var at 1; cbn [i_var i_name]; rewrite Hvar; reflexivity).
  assert (Egd : amp_gd s D2 x a' = (g6, (D2 - x_loss x + g6 - Qred (otru (i_invoa a)))%Q)).
  { unfold amp_gd. rewrite Hpm, Ea. reflexivity. }
  set (pr' := qmin 0 (b_pmax b - (x_ptot x + D2 - x_loss x + g6))).
  assert (Epr : amp_pr s D2 x a' b (amp_gd s D2 x a') = pr').
  { rewrite Egd. unfold amp_pr. cbn [fst snd]. rewrite Ea at 1. cbn [i_var]. rewrite Hvar, Hpm. reflexivity. }
  assert (Evv : amp_voa s x a' b (amp_gd s D2 x a') pr' = (Qred (fst vv), 0%Q)) by (rewrite Ea; reflexivity).
  unfold design_amp. rewrite Evar, Elib, Epr, Evv, Egd, Hpm. cbn [fst snd].
  eexists. eexists. split; [reflexivity|].
  assert (P0 : (pr' <= 0)%Q) by apply qmin_l.
  assert (P1 : (pr' <= b_pmax b - (x_ptot x + D2 - x_loss x + g6))%Q) by apply qmin_r.
  assert (P2 : pr' = 0%Q \/ pr' = (b_pmax b - (x_ptot x + D2 - x_loss x + g6))%Q) by apply qmin_cases.
  assert (PG : (G == fst gd + pr)%Q) by (unfold G; rewrite Hv1; ring).
  cbn [o_gain o_name o_var o_dp o_voa o_invoa o_tilt]. rewrite Ea. cbn [i_voa i_name i_tilt i_invoa otru].
  rewrite !Qred_correct. rewrite Hv2 in *.
  repeat split; try reflexivity; try (destruct P2 as [P2|P2]; rewrite P2 in *; lra).
Qed.

(* the same, exactly, when the designed gain already lies on the export grid *)
Lemma design_amp_gain_mode_exact : forall s lib sel D D2 x a o D1,
  s_pm s = false -> lib ""%string = None -> (i_var a = ""%string -> (otru (i_invoa a) == 0)%Q) ->
  (D2 == D)%Q -> design_amp s lib sel D x a = Ok (o, D1) -> (round_dec 6 (o_gain o) == o_gain o)%Q ->
  exists o' D1', design_amp s lib sel D2 x (export_amp o) = Ok (o', D1') /\ (D1' == D1)%Q /\ export_amp o' = export_amp o.
Proof.
  intros s lib sel D D2 x a o D1 Hpm Hlib Hinv HD H Hgrid.
  unfold design_amp in H. destruct (lib (amp_var sel a)) as [b|] eqn:Elib; [|discriminate].
  pose proof (amp_gd_gain_mode s D x a Hpm) as Hdp.
  set (gd := amp_gd s D x a) in *. set (pr := amp_pr s D x a b gd) in *.
  set (vv := amp_voa s x a b gd pr) in *.
  inversion H; subst o D1; clear H. rewrite Hpm in *. cbn [o_gain] in Hgrid.
  pose proof (amp_var_ne lib sel a b Hlib Elib) as Hvar.
  assert (Hvv : snd vv = 0%Q /\ fst vv = otru (i_voa a)).
  { unfold vv, amp_voa. rewrite Hpm. destruct (i_voa a); cbn; split; reflexivity. }
  destruct Hvv as [Hv1 Hv2].
  assert (Hsat : (x_ptot x + D - x_loss x + fst gd + pr <= b_pmax b)%Q).
  { unfold pr, amp_pr. rewrite Hpm. destruct (String.eqb (i_var a) "") eqn:Ea.
    - apply String.eqb_eq in Ea. specialize (Hinv Ea).
      pose proof (qmin_r 0 (qmin (x_ptot x + snd gd - fst gd + b_gfm b + s_ext s) (b_pmax b) - (x_ptot x + snd gd))).
      pose proof (qmin_r (x_ptot x + snd gd - fst gd + b_gfm b + s_ext s) (b_pmax b)). lra.
    - pose proof (qmin_r 0 (b_pmax b - (x_ptot x + D - x_loss x + fst gd))). lra. }
  set (G := (fst gd + pr + snd vv)%Q) in *.
  set (a' := export_amp _).
  assert (Ea : a' = mkIn (i_name a) (amp_var sel a) (Some (round_dec 6 G)) None
                         (Some (round_dec 5 (match i_tilt a with None => 0%Q | Some t => t end)))
                         (Some (Qred (fst vv))) (Some (Qred (otru (i_invoa a))))) by reflexivity.
  set (g6 := round_dec 6 G) in *.
  assert (Evar : amp_var sel a' = amp_var sel a) by (rewrite Ea; unfold amp_var at 1; cbn [i_var i_name]; rewrite Hvar; reflexivity).
  assert (Egd : amp_gd s D2 x a' = (g6, (D2 - x_loss x + g6 - Qred (otru (i_invoa a)))%Q)).
  { unfold amp_gd. rewrite Hpm, Ea. reflexivity. }
  assert (PG : (G == fst gd + pr)%Q) by (unfold G; rewrite Hv1; ring).
  assert (Epr : amp_pr s D2 x a' b (amp_gd s D2 x a') = 0%Q).
  { rewrite Egd. unfold amp_pr. cbn [fst snd]. rewrite Ea at 1. cbn [i_var]. rewrite Hvar, Hpm.
    apply qmin0_zero. lra. }
  assert (Evv : amp_voa s x a' b (amp_gd s D2 x a') 0 = (Qred (fst vv), 0%Q)) by (rewrite Ea; reflexivity).
  unfold design_amp. rewrite Evar, Elib, Epr, Evv, Egd, Hpm. cbn [fst snd].
  eexists. eexists. split; [reflexivity|]. split.
  - rewrite Ea. cbn [i_voa otru]. rewrite !Qred_correct, Hv2. lra.
  - unfold export_amp. cbn [o_name o_var o_gain o_dp o_tilt o_voa o_invoa oqred]. rewrite Ea. cbn [i_name i_tilt i_invoa otru].
    f_equal.
    + f_equal. apply round_dec_comp. lra.
    + f_equal. apply round_dec_idem.
    + f_equal. apply Qred_complete. rewrite Qred_correct. reflexivity.
    + f_equal. apply Qred_complete. rewrite Qred_correct. reflexivity.
Qed.

(* a whole OMS in gain mode *)
Fixpoint gm_close (e : Q) (outs outs' : list aout) : Prop :=
  match outs, outs' with
  | [], [] => True
  | o :: t, o' :: t' =>
      (- (e + 2 * hh) <= o_gain o' - o_gain o)%Q /\ (o_gain o' - o_gain o <= hh)%Q /\
      o_name o' = o_name o /\ o_var o' = o_var o /\ o_dp o' = None /\ o_dp o = None /\
      (o_voa o' == o_voa o)%Q /\ (o_invoa o' == o_invoa o)%Q /\ o_tilt o' = round_dec 5 (o_tilt o) /\
      gm_close (e + hh) t t'
  | _, _ => False
  end.
Definition inv_ok (xa : actx * ain) : Prop := i_var (snd xa) = ""%string -> (otru (i_invoa (snd xa)) == 0)%Q.
Lemma design_amps_gain_mode : forall s lib sel l D D2 outs e,
  s_pm s = false -> lib ""%string = None -> Forall inv_ok l -> (0 <= e)%Q -> (- e <= D2 - D)%Q -> (D2 - D <= e)%Q ->
  design_amps s lib sel D l = Ok outs ->
  exists outs', design_amps s lib sel D2 (reload l outs) = Ok outs' /\ gm_close e outs outs'.
Proof.
  intros s lib sel. induction l as [|[x a] t IH]; intros D D2 outs e Hpm Hlib Hi He H1 H2 H.
  - inversion H. exists []. split; [reflexivity | exact I].
  - cbn [design_amps] in H. destruct (design_amp s lib sel D x a) as [[o Dn]|] eqn:E1; [|discriminate]. cbn [bind fst snd] in H.
    destruct (design_amps s lib sel Dn t) as [rest|] eqn:E2; [|discriminate]. cbn [bind] in H. inversion H; subst outs.
    inversion Hi as [|? ? Hia Hit]; subst.
    destruct (design_amp_gain_mode s lib sel D D2 x a o Dn e Hpm Hlib Hia He H1 H2 E1)
      as (o' & Dn' & F1 & B1 & B2 & G1 & G2 & N1 & N2 & N3 & N4 & N5 & N6 & N7).
    assert (He' : (0 <= e + hh)%Q) by (unfold hh; lra).
    destruct (IH Dn Dn' rest (e + hh)%Q Hpm Hlib Hit He' B1 B2 E2) as (rest' & R1 & R2).
    exists (o' :: rest'). unfold reload in *. cbn [map combine fst design_amps]. rewrite F1. cbn [bind fst snd].
    rewrite R1. cbn [bind]. split; [reflexivity|]. cbn [gm_close]. repeat split; assumption.
Qed.
Lemma design_amps_gain_mode_exact : forall s lib sel l D D2 outs,
  s_pm s = false -> lib ""%string = None -> Forall inv_ok l -> (D2 == D)%Q ->
  design_amps s lib sel D l = Ok outs -> Forall (fun o => (round_dec 6 (o_gain o) == o_gain o)%Q) outs ->
  exists outs', design_amps s lib sel D2 (reload l outs) = Ok outs' /\ map export_amp outs' = map export_amp outs.
Proof.
  intros s lib sel. induction l as [|[x a] t IH]; intros D D2 outs Hpm Hlib Hi HD H Hg.
  - inversion H. exists []. split; reflexivity.
  - cbn [design_amps] in H. destruct (design_amp s lib sel D x a) as [[o Dn]|] eqn:E1; [|discriminate]. cbn [bind fst snd] in H.
    destruct (design_amps s lib sel Dn t) as [rest|] eqn:E2; [|discriminate]. cbn [bind] in H. inversion H; subst outs.
    inversion Hi as [|? ? Hia Hit]; subst. inversion Hg as [|? ? Hgo Hgr]; subst.
    destruct (design_amp_gain_mode_exact s lib sel D D2 x a o Dn Hpm Hlib Hia HD E1 Hgo) as (o' & Dn' & F1 & F2 & F3).
    destruct (IH Dn Dn' rest Hpm Hlib Hit F2 E2 Hgr) as (rest' & R1 & R2).
    exists (o' :: rest'). unfold reload in *. cbn [map combine fst design_amps]. rewrite F1. cbn [bind fst snd].
    rewrite R1. cbn [bind]. split; [reflexivity|]. cbn [map]. rewrite F3, R2. reflexivity.
Qed.
(* what gm_close means for the exported documents: everything but gain_target identical, gain_target within
   e + 4 hh below / 3 hh above, i.e. at most 2 units of the 6th decimal below and 1 above for the first amplifier
   (e = 0), half a unit more per amplifier further down the OMS *)
Lemma gm_close_export : forall e o o',
  (- (e + 2 * hh) <= o_gain o' - o_gain o)%Q -> (o_gain o' - o_gain o <= hh)%Q ->
  o_name o' = o_name o -> o_var o' = o_var o -> o_dp o' = None -> o_dp o = None ->
  (o_voa o' == o_voa o)%Q -> (o_invoa o' == o_invoa o)%Q -> o_tilt o' = round_dec 5 (o_tilt o) ->
  i_name (export_amp o') = i_name (export_amp o) /\ i_var (export_amp o') = i_var (export_amp o) /\
  i_dp (export_amp o') = i_dp (export_amp o) /\ i_tilt (export_amp o') = i_tilt (export_amp o) /\
  i_voa (export_amp o') = i_voa (export_amp o) /\ i_invoa (export_amp o') = i_invoa (export_amp o) /\
  exists g g', i_gain (export_amp o) = Some g /\ i_gain (export_amp o') = Some g' /\
               (- (e + 4 * hh) <= g' - g)%Q /\ (g' - g <= 3 * hh)%Q.
Proof.
  intros e o o' G1 G2 N1 N2 N3 N4 N5 N6 N7. unfold export_amp. cbn [i_name i_var i_dp i_tilt i_voa i_invoa i_gain].
  rewrite N1, N2, N3, N4, N7, round_dec_idem. repeat split; try reflexivity.
  - f_equal. apply Qred_complete. exact N5.
  - f_equal. apply Qred_complete. exact N6.
  - eexists. eexists. split; [reflexivity|]. split; [reflexivity|].
    destruct (round6_err (o_gain o)) as [A1 A2]. destruct (round6_err (o_gain o')) as [B1 B2]. split; lra.
Qed.
Example ex_gain_mode : exists outs outs',
  design_amps (mkS false (-2) 3 (1 # 2) (3 # 10) 20 1 (1 # 2) (5 # 2)) ex_lib ex_sel (-20) ex_items = Ok outs /\
  design_amps (mkS false (-2) 3 (1 # 2) (3 # 10) 20 1 (1 # 2) (5 # 2)) ex_lib ex_sel (-20) (reload ex_items outs) = Ok outs' /\
  map export_amp outs' = map export_amp outs /\ Forall inv_ok ex_items /\ length outs = 3%nat.
Proof.
  eexists. eexists. split; [vm_compute; reflexivity|]. split; [vm_compute; reflexivity|]. split; [vm_compute; reflexivity|].
  split; [|reflexivity]. repeat constructor; intro; reflexivity.
Qed.
