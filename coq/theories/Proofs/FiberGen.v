(* C05 translator tie: every definition of Gen/FiberGen.v (generated on every run from /repo's source by
   harness/pygen_c05.py) equals the corresponding piece of the hand-written models Model/Fiber.v (read in R through Q2R)
   and Model/Raman.v (at NumR; the executed NumF instance is the same Gallina term). *)
From Coq Require Import Reals Lra Lia List ZArith Bool QArith Qreals.
Import ListNotations.
From Verif Require Import Prelude Num Model.Fiber Model.Raman Proofs.Fiber Proofs.FiberR Gen.FiberGen.
Open Scope R_scope.


Ltac gen_unfold := unfold g_fiber_att_in, g_fiber_pmd_update, g_fiber_att_out, g_fiber_power_db, g_fiber_cd_lat_update,
  g_ramanfiber_att_in, g_ramanfiber_pmd_update, g_ramanfiber_att_out, g_ramanfiber_power_db, g_ramanfiber_cd_lat_update,
  g_fiber_pmd, g_fiber_loss, g_chromatic_dispersion, g_dispersion_noslope, g_dispersion_slope, g_beta2, g_beta3_slope,
  g_lumped_lin, g_lumped_pos_m, g_latency, g_euler_wave, g_iter_dpdz, g_iter_fwd, g_iter_bwd, nsq, lin2db, db2lin in *; numR.

Lemma Q2R_2 : Q2R 2 = 2.  Proof. unfold Q2R. cbn. field. Qed.
Lemma Q2R_4 : Q2R 4 = 4.  Proof. unfold Q2R. cbn. field. Qed.
Lemma Q2R_1000 : Q2R 1000 = 1000.  Proof. unfold Q2R. cbn. field. Qed.
Lemma Q2R_nz : forall q : Q, ~ (q == 0)%Q -> Q2R q <> 0.
Proof. intros q H Hc. apply H. apply eqR_Qeq. rewrite Hc. unfold Q2R. cbn. field. Qed.

(* ---------- Fiber.propagate / RamanFiber.propagate ---------- *)
Lemma gen_fiber_pmd_update : forall x y : R, @g_fiber_pmd_update NumR x y = quad_step x y.
Proof. intros. reflexivity. Qed.
Lemma gen_ramanfiber_pmd_update : forall x y : R, @g_ramanfiber_pmd_update NumR x y = quad_step x y.
Proof. intros. reflexivity. Qed.
Lemma gen_ramanfiber_is_fiber : forall ci ai co s p x y cd lat scd slat : R,
  @g_ramanfiber_power_db NumR ci ai co s p = @g_fiber_power_db NumR ci ai co s p /\
  @g_ramanfiber_pmd_update NumR x y = @g_fiber_pmd_update NumR x y /\
  @g_ramanfiber_cd_lat_update NumR cd lat scd slat = @g_fiber_cd_lat_update NumR cd lat scd slat.
Proof. intros. repeat split; reflexivity. Qed.

Lemma gen_fiber_power : forall fib f p a out, loss_coef_at fib f = Ok a -> fiber_power_out fib f p = Ok out ->
  Q2R out = @g_fiber_power_db NumR (Q2R (f_con_in fib)) (Q2R (f_att_in fib)) (Q2R (f_con_out fib)) (Q2R (attenuation_db fib a)) (Q2R p).
Proof.
  intros fib f p a out Ha H. unfold fiber_power_out in H. destruct (fiber_check fib); cbn [bind] in H; [|discriminate].
  rewrite Ha in H. cbn [bind] in H. apply Ok_inj in H. subst out. gen_unfold.
  rewrite !Q2R_minus, Q2R_plus. reflexivity.
Qed.

Lemma gen_fiber_cd_lat : forall (a : acc) (c : contrib),
  (Q2R (a_cd (add_contrib a c)), Q2R (a_lat (add_contrib a c))) =
  @g_fiber_cd_lat_update NumR (Q2R (a_cd a)) (Q2R (a_lat a)) (Q2R (d_cd c)) (Q2R (d_lat c)).
Proof. intros. gen_unfold. unfold add_contrib. cbn [a_cd a_lat]. rewrite !Q2R_plus. reflexivity. Qed.

(* ---------- Fiber.pmd ---------- *)
Lemma gen_fiber_pmd : forall fib, (0 <= len_m fib)%Q ->
  @g_fiber_pmd NumR (Q2R (f_pmd_coef fib)) (Q2R (len_m fib)) * @g_fiber_pmd NumR (Q2R (f_pmd_coef fib)) (Q2R (len_m fib)) =
  Q2R (fiber_pmd2 fib).
Proof.
  intros fib H. gen_unfold. apply Qle_Rle in H. replace (Q2R 0) with 0 in H by (unfold Q2R; cbn; field).
  rewrite fiber_pmd_sq by exact H. unfold fiber_pmd2, sq. rewrite !Q2R_mult. reflexivity.
Qed.

(* ---------- Fiber.loss ---------- *)
Lemma ln10_pos : 0 < ln 10.
Proof. rewrite <- ln_1. apply ln_increasing; lra. Qed.

Lemma lin2db_inv_db2lin : forall x : R, @lin2db NumR (1 / @db2lin NumR (- x)) = x.
Proof.
  intros x. unfold lin2db, db2lin. numR. unfold Rlog10, Rpow10. pose proof ln10_pos as H.
  assert (1 / exp (- x / 10 * ln 10) = exp (x / 10 * ln 10)) as ->.
  { replace (x / 10 * ln 10) with (- (- x / 10 * ln 10)) by field. rewrite exp_Ropp. field. apply Rgt_not_eq, exp_pos. }
  rewrite ln_exp. field. lra.
Qed.

Lemma gen_lumped_sum : forall losses : list R,
  @nsum NumR (map (fun l => @lin2db NumR (IZR 1 / l)) (map (fun x => @g_lumped_lin NumR x) losses)) = fold_right Rplus 0 losses.
Proof.
  induction losses as [|x t IH]; [reflexivity|]. cbn [map nsum fold_right]. numR. fold (@nsum NumR).
  unfold nsum in IH. numR. rewrite IH. unfold g_lumped_lin. rewrite lin2db_inv_db2lin. reflexivity.
Qed.

Lemma Q2R_qsum : forall l : list Q, Q2R (qsum l) = fold_right Rplus 0 (map Q2R l).
Proof. induction l as [|x t IH]; [unfold Q2R; cbn; field|]. rewrite qsum_cons, Q2R_plus, IH. reflexivity. Qed.

Lemma gen_fiber_loss : forall fib a l, loss_coef_at fib (f_ref fib) = Ok a -> fiber_loss_prop fib = Ok l ->
  Q2R l = @g_fiber_loss NumR (Q2R a) (Q2R (len_m fib)) (Q2R (f_con_in fib)) (Q2R (f_con_out fib)) (Q2R (f_att_in fib))
                        (map (fun x => @g_lumped_lin NumR x) (map Q2R (map snd (f_lumped fib)))).
Proof.
  intros fib a l Ha H. unfold fiber_loss_prop in H. rewrite Ha in H. cbn [bind] in H. apply Ok_inj in H. subst l.
  unfold g_fiber_loss. rewrite gen_lumped_sum. numR. rewrite !Q2R_plus, Q2R_mult, Q2R_qsum. reflexivity.
Qed.


Lemma Q2R_Qred' : forall q, Q2R (Qred q) = Q2R q.
Proof. intros q. apply Qeq_eqR. apply Qred_correct. Qed.

(* ---------- chromatic dispersion ---------- *)
Lemma c_light_R_nz : Q2R c_light <> 0.
Proof. apply Q2R_nz. apply c_light_nz. Qed.

Lemma gen_dispersion_noslope : forall fib f d, f_disp fib = DispScalar d None -> ~ (f_ref fib == 0)%Q ->
  exists v, dispersion_at fib f = Ok v /\
    Q2R v = @g_dispersion_noslope NumR (Q2R f) (Q2R (f_ref fib)) (Q2R d).
Proof.
  intros fib f d H Hr. unfold dispersion_at. rewrite H. eexists. split; [reflexivity|]. gen_unfold. unfold sq.
  rewrite !Q2R_mult, Q2R_div by exact Hr. reflexivity.
Qed.

Lemma gen_dispersion_slope : forall fib f d s, f_disp fib = DispScalar d (Some s) -> ~ (f == 0)%Q -> ~ (f_ref fib == 0)%Q ->
  exists v, dispersion_at fib f = Ok v /\
    Q2R v = @g_dispersion_slope NumR (Q2R c_light) (Q2R f) (Q2R (f_ref fib)) (Q2R d) (Q2R s).
Proof.
  intros fib f d s H Hf Hr. unfold dispersion_at. rewrite H. eexists. split; [reflexivity|]. gen_unfold.
  rewrite Q2R_plus, Q2R_mult, Q2R_minus, !Q2R_div by assumption. reflexivity.
Qed.

Lemma gen_beta2 : forall pi fib f b, ~ (pi == 0)%Q -> ~ (f == 0)%Q -> beta2 pi fib f = Ok b ->
  exists d, dispersion_at fib f = Ok d /\ Q2R b = @g_beta2 NumR (Q2R pi) (Q2R c_light) (Q2R f) (Q2R d).
Proof.
  intros pi fib f b Hpi Hf H. unfold beta2 in H. destruct (dispersion_at fib f) as [d|e]; cbn [bind] in H; [|discriminate].
  apply Ok_inj in H. subst b. exists d. split; [reflexivity|]. gen_unfold. unfold sq. pose proof c_light_nz as Hc.
  rewrite Q2R_Qred'. rewrite Q2R_div.
  - rewrite Q2R_opp, !Q2R_mult, Q2R_div by exact Hf. rewrite Q2R_2. reflexivity.
  - intros Hz. assert (Q2R (2 * pi * c_light) = 0) as Hz' by (rewrite (Qeq_eqR _ _ Hz); unfold Q2R; cbn; field).
    rewrite !Q2R_mult, Q2R_2 in Hz'. pose proof (Q2R_nz pi Hpi). pose proof c_light_R_nz. nra.
Qed.

Lemma gen_beta3_slope : forall pi fib f d s b3, f_disp fib = DispScalar d (Some s) -> ~ (pi == 0)%Q -> ~ (f == 0)%Q ->
  beta3 pi fib f = Ok b3 ->
  exists b2, beta2 pi fib f = Ok b2 /\ Q2R b3 = @g_beta3_slope NumR (Q2R pi) (Q2R c_light) (Q2R f) (Q2R s) (Q2R b2).
Proof.
  intros pi fib f d s b3 H Hpi Hf Hb. unfold beta3 in Hb. rewrite H in Hb.
  destruct (beta2 pi fib f) as [b2|e]; cbn [bind] in Hb; [|discriminate]. apply Ok_inj in Hb. subst b3.
  exists b2. split; [reflexivity|]. gen_unfold. unfold sq, cube. pose proof c_light_nz as Hc.
  pose proof (Q2R_nz pi Hpi) as Rpi. pose proof (Q2R_nz f Hf) as Rf. pose proof c_light_R_nz as Rc.
  assert (forall x y : Q, Q2R y <> 0 -> Q2R (x / y) = Q2R x / Q2R y) as Qd.
  { intros x y Hy. apply Q2R_div. intros Hz. apply Hy. rewrite (Qeq_eqR _ _ Hz). unfold Q2R; cbn; field. }
  assert (Q2R (c_light * c_light) <> 0) as Hcc by (rewrite Q2R_mult; nra).
  assert (Q2R (2 * pi * (f * f) / c_light) <> 0) as Hden.
  { rewrite Qd by exact Rc. rewrite !Q2R_mult, Q2R_2. unfold Rdiv. apply Rmult_integral_contrapositive_currified.
    - assert (Q2R f * Q2R f <> 0) by nra. nra.
    - apply Rinv_neq_0_compat. exact Rc. }
  rewrite Qd; [|rewrite Q2R_mult; nra].
  rewrite Q2R_minus, !Q2R_mult. rewrite (Qd _ (c_light * c_light)%Q Hcc). rewrite (Qd _ c_light Rc).
  rewrite !Q2R_mult, Q2R_2, Q2R_4. reflexivity.
Qed.

Lemma gen_chromatic_dispersion : forall pi fib f v, chromatic_dispersion pi fib f = Ok v ->
  exists b2 b3, beta2 pi fib f = Ok b2 /\ beta3 pi fib f = Ok b3 /\
    Q2R v = @g_chromatic_dispersion NumR (Q2R pi) (Q2R c_light) (Q2R b2) (Q2R b3) (Q2R f) (Q2R (f_ref fib)) (Q2R (len_m fib)).
Proof.
  intros pi fib f v H. unfold chromatic_dispersion in H.
  destruct (beta2 pi fib f) as [b2|e]; cbn [bind] in H; [|discriminate].
  destruct (beta3 pi fib f) as [b3|e]; cbn [bind] in H; [|discriminate].
  apply Ok_inj in H. subst v. exists b2, b3. repeat split. gen_unfold. unfold sq.
  rewrite Q2R_mult, Q2R_div by apply c_light_nz. rewrite !Q2R_mult, Q2R_opp, Q2R_plus, !Q2R_mult, Q2R_minus, Q2R_2. reflexivity.
Qed.

(* ---------- FiberParams latency, Fiber.__init__ km -> m ---------- *)
Lemma gen_latency : forall fib, ~ (f_n1 fib == 0)%Q ->
  Q2R (fiber_latency fib) = @g_latency NumR (Q2R c_light) (Q2R (len_m fib)) (Q2R (f_n1 fib)).
Proof.
  intros fib Hn. unfold fiber_latency. gen_unfold. rewrite Q2R_div.
  - rewrite Q2R_div by exact Hn. reflexivity.
  - intros Hz. pose proof c_light_nz as Hc. apply Hc.
    assert (c_light == c_light / f_n1 fib * f_n1 fib)%Q as -> by (field; exact Hn). rewrite Hz. ring.
Qed.

Lemma gen_lumped_pos_m : forall fib, map (fun zl => Q2R (fst zl)) (lumped_m fib) =
  map (fun zl => @g_lumped_pos_m NumR (Q2R (fst zl))) (f_lumped fib).
Proof.
  intros fib. unfold lumped_m. rewrite map_map. apply map_ext. intros [z l]. cbn [fst]. gen_unfold.
  rewrite Q2R_mult, Q2R_1000. reflexivity.
Qed.

(* ---------- Euler update, sweeps of the iterative algorithm ---------- *)
Lemma gen_step_col_R : forall (alpha : list R) (cr : list (list R)) (src : list R) (dz ll : R),
  @step_col NumR alpha cr src dz ll =
  map (fun t : R * (R * list R) => let '(p, (a, row)) := t in @g_euler_wave NumR p a row src dz ll) (combine src (combine alpha cr)).
Proof. intros. reflexivity. Qed.

Lemma gen_step_col_iter_R : forall (alpha : list R) (cr : list (list R)) (src : list R) (dz ll : R),
  @step_col NumR alpha cr src dz ll =
  map (fun t : R * (R * list R) => let '(p, (a, row)) := t in @g_iter_fwd NumR p (@g_iter_dpdz NumR a row src) dz ll)
      (combine src (combine alpha cr)).
Proof. intros. reflexivity. Qed.

Lemma gen_iter_bwd_is_fwd : forall p g dz ll : R, @g_iter_bwd NumR p g dz ll = @g_iter_fwd NumR p g dz ll.
Proof. intros. reflexivity. Qed.

(* the rational Euler model of Model/Fiber.v *)
Lemma Q2R_dot : forall r p : list Q, Q2R (dot r p) = @ndot NumR (map Q2R r) (map Q2R p).
Proof.
  unfold dot, ndot, vmap2, nsum. numR. induction r as [|a r IH]; intros p; [unfold Q2R; cbn; field|].
  destruct p as [|x p]; [unfold Q2R; cbn; field|]. cbn [combine map fold_right fst snd].
  rewrite qsum_cons, Q2R_plus, Q2R_mult, <- IH. reflexivity.
Qed.

Lemma gen_euler_step : forall alpha cr dz ll p,
  map Q2R (euler_step alpha cr dz ll p) =
  map (fun t : Q * (Q * list Q) => let '(pj, (aj, crj)) := t in
         @g_euler_wave NumR (Q2R pj) (Q2R aj) (map Q2R crj) (map Q2R p) (Q2R dz) (Q2R ll)) (combine p (combine alpha cr)).
Proof.
  intros. unfold euler_step. rewrite map_map. apply map_ext. intros [pj [aj crj]]. gen_unfold.
  rewrite Q2R_Qred', !Q2R_mult, Q2R_plus, Q2R_mult, Q2R_plus, Q2R_opp, Q2R_Qred', Q2R_dot. 
  replace (Q2R 1) with 1 by (unfold Q2R; cbn; field). reflexivity.
Qed.

(* ---------- ROADM side of the accumulation ---------- *)
Lemma gen_roadm_pmd_update : forall x y : R, @g_roadm_pmd_update NumR x y = quad_step x y.
Proof. intros. reflexivity. Qed.
Lemma gen_roadm_pdl_update : forall x y : R, @g_roadm_pdl_update NumR x y = quad_step x y.
Proof. intros. reflexivity. Qed.

Lemma gen_roadm_profile : forall A (profiles : list (Z * Z * A)) global pt id,
  g_roadm_profile profiles global pt id = roadm_profile profiles global pt id.
Proof.
  intros A profiles global pt id. unfold g_roadm_profile, roadm_profile. destruct id as [i|].
  - induction profiles as [|[[j t] a] r IH]; [reflexivity|]. cbn [fold_right profile_by_id].
    destruct (Z.eqb j i); [reflexivity|exact IH].
  - induction profiles as [|[[j t] a] r IH]; [reflexivity|]. cbn [fold_right first_of_type].
    destruct (Z.eqb t pt); [reflexivity|exact IH].
Qed.

(* the id 0 is an id: a crossing bound to profile 0 gets profile 0, wherever it stands in the library *)
Lemma roadm_profile_id0 : forall A (profiles : list (Z * Z * A)) global pt a,
  profile_by_id profiles 0%Z = Some a -> roadm_profile profiles global pt (Some 0%Z) = Ok a.
Proof. intros A profiles global pt a H. unfold roadm_profile. rewrite H. reflexivity. Qed.

(* conjunctions used by Props/C05.v *)
Lemma gen_quadrature_updates : forall x y : R,
  @g_fiber_pmd_update NumR x y = sqrt (x * x + y * y) /\ @g_ramanfiber_pmd_update NumR x y = sqrt (x * x + y * y) /\
  @g_roadm_pmd_update NumR x y = sqrt (x * x + y * y) /\ @g_roadm_pdl_update NumR x y = sqrt (x * x + y * y).
Proof. intros. repeat split; reflexivity. Qed.

Lemma gen_iter_sweeps : forall (alpha : list R) (cr : list (list R)) (src : list R) (dz ll p g : R),
  @step_col NumR alpha cr src dz ll =
  map (fun t : R * (R * list R) => let '(p, (a, row)) := t in @g_iter_fwd NumR p (@g_iter_dpdz NumR a row src) dz ll)
      (combine src (combine alpha cr)) /\
  @g_iter_bwd NumR p g dz ll = @g_iter_fwd NumR p g dz ll.
Proof. intros. split; reflexivity. Qed.

Lemma gen_latency_and_positions : forall fib, ~ (f_n1 fib == 0)%Q ->
  Q2R (fiber_latency fib) = @g_latency NumR (Q2R c_light) (Q2R (len_m fib)) (Q2R (f_n1 fib)) /\
  map (fun zl => Q2R (fst zl)) (lumped_m fib) = map (fun zl => @g_lumped_pos_m NumR (Q2R (fst zl))) (f_lumped fib).
Proof. intros fib H. split; [apply gen_latency; exact H|apply gen_lumped_pos_m]. Qed.
