(* Lemmas about Model/Chain.v (C08). *)
From Verif Require Import Prelude Model.Chain.
From Coq Require Import QArith Qround Lia ZifyBool Permutation Lqa.
Open Scope Z_scope.

(* ---------- Q helpers ---------- *)
Lemma Qltb_lt : forall x y, Qltb x y = true <-> (x < y)%Q.
Proof.
  intros x y. unfold Qltb. rewrite Bool.negb_true_iff. split.
  - intro H. apply Qnot_le_lt. intro C. apply Qle_bool_iff in C. congruence.
  - intro H. destruct (Qle_bool y x) eqn:E; [|reflexivity].
    apply Qle_bool_iff in E. exfalso. apply (Qlt_not_le _ _ H E).
Qed.
Lemma Qltb_ge : forall x y, Qltb x y = false <-> (y <= x)%Q.
Proof.
  intros x y. unfold Qltb. rewrite Bool.negb_false_iff. apply Qle_bool_iff.
Qed.
Lemma qz_pos : forall z, 0 < z -> (0 < qz z)%Q.
Proof. intros z H. unfold qz. change 0%Q with (inject_Z 0). rewrite <- Zlt_Qlt. exact H. Qed.
Lemma qz_le : forall a b, a <= b -> (qz a <= qz b)%Q.
Proof. intros a b H. unfold qz. rewrite <- Zle_Qle. exact H. Qed.
Lemma qz_nz : forall z, z <> 0 -> ~ (qz z == 0)%Q.
Proof. intros z H C. unfold qz, Qeq in C. simpl in C. lia. Qed.

(* ---------- calculate_new_length ---------- *)
(* For every length and every configuration with target <= max (i.e. min_length <= max_length):
   at least one span, the spans are equal and add up to the original length, a fibre at or above max_length is
   cut into spans of at most max_length, a fibre below max_length is left alone. *)
Lemma calc_len_spec : forall L mn mx tg len n,
  0 < tg -> tg <= mx ->
  calc_len L mn mx tg = Ok (len, n) ->
  1 <= n /\ (qz n * len == L)%Q /\ ((qz mx <= L)%Q -> (len <= qz mx)%Q) /\ ((L < qz mx)%Q -> n = 1 /\ len = L).
Proof.
  intros L mn mx tg len n Htg Hmx H. unfold calc_len in H.
  destruct (Qltb L (qz mx)) eqn:Elt.
  - inversion H; subst. apply Qltb_lt in Elt. repeat split; try lia.
    + unfold qz. ring.
    + intro C. exfalso. apply (Qlt_not_le _ _ Elt C).
  - apply Qltb_ge in Elt.
    set (n2 := Qfloor (L / qz tg)) in *.
    assert (Hq : (0 < qz tg)%Q) by (apply qz_pos; exact Htg).
    assert (Hn2 : 1 <= n2).
    { unfold n2. assert (Hle : (inject_Z 1 <= L / qz tg)%Q).
      { apply Qle_shift_div_l; [exact Hq|]. change (inject_Z 1) with 1%Q. rewrite Qmult_1_l.
        eapply Qle_trans; [apply qz_le; exact Hmx | exact Elt]. }
      apply Qfloor_resp_le in Hle. rewrite Qfloor_Z in Hle. exact Hle. }
    assert (Hf : (L / qz tg < inject_Z (n2 + 1))%Q) by (unfold n2; apply Qlt_floor).
    clearbody n2.
    destruct ((n2 =? 0) || (n2 + 1 =? 0)) eqn:Ez; [discriminate|].
    assert (Hl1 : (L / qz (n2 + 1) < qz tg)%Q).
    { apply Qlt_shift_div_r; [apply qz_pos; lia|].
      assert (Hl : (L < qz (n2 + 1) * qz tg)%Q).
      { apply Qle_lt_trans with ((L / qz tg) * qz tg)%Q.
        - rewrite Qmult_comm, Qmult_div_r; [apply Qle_refl | apply qz_nz; lia].
        - apply Qmult_lt_compat_r; [exact Hq | exact Hf]. }
      rewrite Qmult_comm. exact Hl. }
    assert (Hl1' : (L / qz (n2 + 1) <= qz mx)%Q).
    { apply Qlt_le_weak. eapply Qlt_le_trans; [exact Hl1 | apply qz_le; exact Hmx]. }
    assert (R1 : forall k, 1 <= k -> (qz k * (L / qz k) == L)%Q).
    { intros k Hk. apply Qmult_div_r. apply qz_nz. lia. }
    assert (NL : ~ (L < qz mx)%Q) by (intro C; apply (Qlt_not_le _ _ C Elt)).
    destruct (in_bounds (L / qz (n2 + 1)) mn mx && negb (in_bounds (L / qz n2) mn mx)) eqn:E1.
    { inversion H; subst. repeat split; try lia; auto; try (exfalso; apply NL; assumption); try (apply R1; lia). }
    destruct (in_bounds (L / qz n2) mn mx && negb (in_bounds (L / qz (n2 + 1)) mn mx)) eqn:E2.
    { inversion H; subst. apply andb_prop in E2. destruct E2 as [E2 _]. unfold in_bounds in E2.
      apply andb_prop in E2. destruct E2 as [_ E2]. apply Qle_bool_iff in E2.
      repeat split; try lia; auto; try (exfalso; apply NL; assumption); try (apply R1; lia). }
    destruct (Qle_bool (L / qz n2 - qz tg) (qz tg - L / qz (n2 + 1)) && Qle_bool (L / qz n2) (qz mx)) eqn:E3.
    { inversion H; subst. apply andb_prop in E3. destruct E3 as [_ E3]. apply Qle_bool_iff in E3.
      repeat split; try lia; auto; try (exfalso; apply NL; assumption); try (apply R1; lia). }
    inversion H; subst. repeat split; try lia; auto; try (exfalso; apply NL; assumption); try (apply R1; lia).
Qed.

(* ---------- totals ---------- *)
Definition e_len (e : elem) : Q := match e with Fib f => f_len f | _ => 0%Q end.
Definition e_ll (e : elem) : Q := match e with Fib f => (f_len f * f_lc f)%Q | _ => 0%Q end.
Definition tot_len (l : list elem) : Q := qsum (map e_len l).
Definition tot_ll (l : list elem) : Q := qsum (map e_ll l).
Definition lumped_total (l : list elem) : Q :=
  qsum (map (fun e => match e with Fib f => qsum (map snd (f_lumped f)) | _ => 0%Q end) l).

Lemma qsum_app : forall a b, (qsum (a ++ b) == qsum a + qsum b)%Q.
Proof. induction a as [|x a IH]; intro b; simpl; [ring | rewrite IH; ring]. Qed.
Lemma qsum_const : forall {A} (l : list A) (g : A -> Q) (c : Q),
  (forall x, In x l -> (g x == c)%Q) -> (qsum (map g l) == qz (Z.of_nat (length l)) * c)%Q.
Proof.
  intros A l g c. induction l as [|x l IH]; intro H.
  - simpl. unfold qz. simpl. ring.
  - cbn [map qsum length]. rewrite IH by (intros y Hy; apply H; right; exact Hy).
    rewrite (H x) by (left; reflexivity). rewrite Nat2Z.inj_succ. unfold qz, Z.succ.
    rewrite inject_Z_plus. ring.
Qed.
Lemma zrange_length : forall a b, length (zrange a b) = Z.to_nat (b - a).
Proof. intros. unfold zrange. rewrite map_length, seq_length. reflexivity. Qed.

Lemma c_target_pos : forall c, 0 < c_target c.
Proof. intro c. unfold c_target, c_min. lia. Qed.
Lemma c_target_le : forall c, c_min c <= c_max c -> c_target c <= c_max c.
Proof. intro c. unfold c_target. lia. Qed.

(* what split_fiber does to one fibre *)
Record split_spec (c : cfg) (f : fib) (r : list elem) : Prop := {
  ss_len : (tot_len r == f_len f)%Q;
  ss_ll : (tot_ll r == f_len f * f_lc f)%Q;
  ss_fib : forall e, In e r -> exists g, e = Fib g /\ f_lc g = f_lc f /\ (qz (Z.of_nat (length r)) * f_len g == f_len f)%Q
                                   /\ ((qz (c_max c) <= f_len f)%Q -> (f_len g <= qz (c_max c))%Q);
  ss_small : (f_len f < qz (c_max c))%Q -> r = [Fib f];
  ss_ne : r <> []
}.
Lemma split_fib_spec : forall c f r, c_min c <= c_max c -> split_fib c f = Ok r -> split_spec c f r.
Proof.
  intros c f r Hc H. unfold split_fib in H.
  destruct (calc_len (f_len f) (c_min c) (c_max c) (c_target c)) as [[len n]|e] eqn:E; [|discriminate].
  cbn [bind] in H.
  destruct (calc_len_spec _ _ _ _ _ _ (c_target_pos c) (c_target_le c Hc) E) as (Hn & Hmul & Hbig & Hsmall).
  destruct (n =? 1) eqn:En.
  - inversion H; subst r. assert (n = 1) by lia. subst n.
    assert (Hl : (len == f_len f)%Q) by (rewrite <- Hmul; unfold qz; ring).
    constructor.
    + unfold tot_len. simpl. ring.
    + unfold tot_ll. simpl. ring.
    + intros e [He|[]]. subst e. exists f. repeat split.
      * simpl. unfold qz. simpl. ring.
      * intro Hb. rewrite <- Hl. apply Hbig. exact Hb.
    + reflexivity.
    + discriminate.
  - destruct (lumped_inside f len); [|discriminate]. inversion H; subst r.
    assert (Hlen : length (map (sub_span f len n) (zrange 1 (n + 1))) = Z.to_nat n).
    { rewrite map_length, zrange_length. f_equal. lia. }
    constructor.
    + unfold tot_len. rewrite map_map. rewrite (qsum_const _ _ len) by (intros; reflexivity).
      rewrite zrange_length. replace (n + 1 - 1) with n by lia. rewrite Z2Nat.id by lia. exact Hmul.
    + unfold tot_ll. rewrite map_map. rewrite (qsum_const _ _ (len * f_lc f)%Q) by (intros; reflexivity).
      rewrite zrange_length. replace (n + 1 - 1) with n by lia. rewrite Z2Nat.id by lia.
      rewrite Qmult_assoc, Hmul. reflexivity.
    + intros e He. apply in_map_iff in He. destruct He as (k & Hk & _). subst e.
      eexists. split; [reflexivity|]. cbn [f_lc f_len]. repeat split.
      * rewrite Hlen, Z2Nat.id by lia. exact Hmul.
      * exact Hbig.
    + intro Hs. destruct (Hsmall Hs) as [Hn1 _]. lia.
    + intro C. apply (f_equal (@length _)) in C. rewrite Hlen in C. simpl in C. lia.
Qed.

Lemma tot_len_app : forall a b, (tot_len (a ++ b) == tot_len a + tot_len b)%Q.
Proof. intros. unfold tot_len. rewrite map_app. apply qsum_app. Qed.
Lemma tot_ll_app : forall a b, (tot_ll (a ++ b) == tot_ll a + tot_ll b)%Q.
Proof. intros. unfold tot_ll. rewrite map_app. apply qsum_app. Qed.

(* splitting preserves the total length and the total length x loss coefficient of a chain *)
Lemma split_chain_totals : forall c l r, c_min c <= c_max c -> split_chain c l = Ok r ->
  (tot_len r == tot_len l)%Q /\ (tot_ll r == tot_ll l)%Q.
Proof.
  intros c l. induction l as [|e l IH]; intros r Hc H.
  - inversion H. split; reflexivity.
  - destruct e as [f|n lo|a]; cbn [split_chain] in H.
    + destruct (split_fib c f) as [a|] eqn:Ea; [|discriminate]. cbn [bind] in H.
      destruct (split_chain c l) as [b|] eqn:Eb; [|discriminate]. cbn [bind] in H. inversion H; subst r.
      destruct (IH b Hc eq_refl) as [I1 I2]. destruct (split_fib_spec c f a Hc Ea) as [S1 S2 _ _ _].
      rewrite tot_len_app, tot_ll_app, S1, S2, I1, I2. unfold tot_len, tot_ll. simpl. split; reflexivity.
    + destruct (split_chain c l) as [b|] eqn:Eb; [|discriminate]. cbn [bind] in H. inversion H; subst r.
      destruct (IH b Hc eq_refl) as [I1 I2]. unfold tot_len, tot_ll in *. simpl. rewrite I1, I2. split; reflexivity.
    + destruct (split_chain c l) as [b|] eqn:Eb; [|discriminate]. cbn [bind] in H. inversion H; subst r.
      destruct (IH b Hc eq_refl) as [I1 I2]. unfold tot_len, tot_ll in *. simpl. rewrite I1, I2. split; reflexivity.
Qed.

(* ---------- amplifier insertion ---------- *)
Definition no_auto (l : list elem) : Prop := forallb (fun e => negb (is_auto e)) l = true.
Definition erase (l : list elem) : list elem := filter (fun e => negb (is_auto e)) l.
Definition starts_fib (l : list elem) : bool := match l with Fib _ :: _ => true | _ => false end.
Definition ends_fib (l : list elem) : bool := match l with [] => false | _ => is_fib (last l dflt) end.
Definition is_roadm (k : ekind) : bool := match k with Roadm => true | Trx => false end.
Definition want_booster (l : line) : bool :=
  is_roadm (l_sk l) && (starts_fib (l_els l) || (match l_els l with [] => is_roadm (l_dk l) | _ => false end)).
Definition want_preamp (l : line) : bool :=
  is_roadm (l_dk l) && (ends_fib (l_els l) || (match l_els l with [] => is_roadm (l_sk l) | _ => false end)).

Definition hdn (s : list elem) (d : string) : string := match s with e :: _ => el_name e | [] => d end.
Definition lastn (s : list elem) (d : string) : string := match s with [] => d | _ => el_name (last s dflt) end.
Definition bname (l : line) (s : list elem) : string := booster_name (l_src l) (hdn s (l_dst l)).
Definition pname (l : line) (s : list elem) : string := preamp_name (l_dst l) (lastn s (l_src l)).
Lemma with_els_id : forall l, with_els l (l_els l) = l.
Proof. destruct l; reflexivity. Qed.

Opaque kind_check preamp_name booster_name inline_name.
Lemma booster_shape : forall l l', add_booster l = Ok l' ->
  exists mu, l' = with_els l (if want_booster l then new_amp (bname l (l_els l)) mu :: l_els l else l_els l).
Proof.
  intros l l' H. unfold add_booster, want_booster, bname, hdn in *. destruct l as [sk src bands dk dst df els]; cbn in *.
  destruct sk; cbn.
  - destruct els as [|[f|n lo|a] t]; cbn in *.
    + destruct dk; cbn in *.
      * destruct (kind_check []); [|discriminate]. cbn in H. inversion H. eexists. reflexivity.
      * inversion H. exists false. reflexivity.
    + destruct (kind_check (Fib f :: t)); [|discriminate]. cbn in H. inversion H. eexists. reflexivity.
    + inversion H. exists false. reflexivity.
    + inversion H. exists false. reflexivity.
  - inversion H. exists false. reflexivity.
Qed.

Lemma last_cons_ne : forall (e : elem) t d, t <> [] -> last (e :: t) d = last t d.
Proof. intros e t d H. destruct t; [contradiction | reflexivity]. Qed.

Lemma preamp_shape : forall l l', add_preamp l = Ok l' ->
  exists mu, l' = with_els l (if want_preamp l then l_els l ++ [new_amp (pname l (l_els l)) mu] else l_els l).
Proof.
  intros l l' H. unfold add_preamp, want_preamp, ends_fib, pname, lastn in *. destruct l as [sk src bands dk dst df els]; cbn in *.
  destruct dk; cbn.
  - destruct els as [|e t]; cbn in *.
    + destruct sk; cbn in *.
      * destruct (kind_check []); [|discriminate]. cbn in H. inversion H. eexists. reflexivity.
      * inversion H. exists false. reflexivity.
    + destruct (match t with [] => e | _ :: _ => last t dflt end) as [f|n lo|a] eqn:El; cbn in *.
      * destruct (kind_check (e :: t)); [|discriminate]. cbn in H. inversion H. eexists. reflexivity.
      * inversion H. exists false. reflexivity.
      * inversion H. exists false. reflexivity.
  - inversion H. exists false. reflexivity.
Qed.

Lemma erase_app : forall a b, erase (a ++ b) = erase a ++ erase b.
Proof. intros. unfold erase. apply filter_app. Qed.
Lemma no_auto_erase : forall l, no_auto l -> erase l = l.
Proof.
  unfold no_auto, erase. induction l as [|e l IH]; intro H; [reflexivity|].
  cbn in *. apply andb_prop in H. destruct H as [H1 H2]. rewrite H1, IH by exact H2. reflexivity.
Qed.
Lemma no_auto_app : forall a b, no_auto a -> no_auto b -> no_auto (a ++ b).
Proof. unfold no_auto. intros. rewrite forallb_app. apply andb_true_intro; split; assumption. Qed.

Lemma inline_erase : forall l l', add_inline l = Ok l' -> erase l' = erase l.
Proof.
  induction l as [|e t IH]; intros l' H.
  - inversion H. reflexivity.
  - cbn [add_inline] in H. destruct (add_inline t) as [t'|] eqn:Et; [|discriminate]. cbn [bind] in H.
    specialize (IH t' eq_refl).
    assert (D : erase (e :: t') = erase (e :: t)).
    { unfold erase in *. cbn [filter]. rewrite IH. reflexivity. }
    destruct e as [f|n lo|a]; try (inversion H; subst l'; exact D).
    destruct t as [|[g|n lo|a] t2]; try (inversion H; subst l'; exact D).
    destruct (kind_check (Fib g :: t2)); [|discriminate]. cbn [bind] in H. inversion H; subst l'.
    unfold erase in *. cbn. cbn in IH. rewrite IH. reflexivity.
Qed.

Lemma split_fib_no_auto : forall c f r, split_fib c f = Ok r -> no_auto r.
Proof.
  intros c f r H. unfold split_fib in H.
  destruct (calc_len (f_len f) (c_min c) (c_max c) (c_target c)) as [[len n]|]; [|discriminate]. cbn [bind] in H.
  destruct (n =? 1); [inversion H; reflexivity|].
  destruct (lumped_inside f len); [|discriminate]. inversion H. unfold no_auto.
  apply forallb_forall. intros x Hx. apply in_map_iff in Hx. destruct Hx as (k & Hk & _). subst x. reflexivity.
Qed.
Lemma split_chain_no_auto : forall c l r, no_auto l -> split_chain c l = Ok r -> no_auto r.
Proof.
  intros c l. induction l as [|e l IH]; intros r Hn H.
  - inversion H. reflexivity.
  - unfold no_auto in Hn. cbn in Hn. apply andb_prop in Hn. destruct Hn as [H1 H2].
    destruct e as [f|n lo|a]; cbn [split_chain] in H.
    + destruct (split_fib c f) as [x|] eqn:Ea; [|discriminate]. cbn [bind] in H.
      destruct (split_chain c l) as [b|] eqn:Eb; [|discriminate]. cbn [bind] in H. inversion H.
      apply no_auto_app; [eapply split_fib_no_auto; eassumption | apply IH; auto].
    + destruct (split_chain c l) as [b|] eqn:Eb; [|discriminate]. cbn [bind] in H. inversion H.
      unfold no_auto. cbn. apply (IH b H2 eq_refl).
    + destruct (split_chain c l) as [b|] eqn:Eb; [|discriminate]. cbn [bind] in H. inversion H.
      unfold no_auto. cbn [forallb]. rewrite H1. apply (IH b H2 eq_refl).
Qed.

(* shape of a line after the booster / preamp passes, whatever their order *)
Lemma hdn_app : forall (s : list elem) x d (b : bool), s <> [] -> hdn (if b then s ++ [x] else s) d = hdn s d.
Proof. intros s x d b H. destruct s; [contradiction|]. destruct b; reflexivity. Qed.
Lemma lastn_cons : forall (s : list elem) x d (b : bool), s <> [] -> lastn (if b then x :: s else s) d = lastn s d.
Proof.
  intros s x d b H. destruct s as [|e t]; [contradiction|]. destruct b; [|reflexivity].
  unfold lastn. cbn [last]. reflexivity.
Qed.

Lemma ends_shape : forall c l l', no_auto (l_els l) -> add_missing c l = Ok l' ->
  exists s B A i, split_chain c (l_els l) = Ok s /\ no_auto s /\
    add_inline (B ++ s ++ A) = Ok i /\ l' = with_els l i /\
    (B = [] \/ exists mu, B = [new_amp (bname l s) mu]) /\ (A = [] \/ exists mu, A = [new_amp (pname l s) mu]) /\
    match s with
    | [] => (B = [] \/ A = []) /\ ((B = [] /\ A = []) <-> (is_roadm (l_sk l) && is_roadm (l_dk l) = false))
    | _ => (B <> [] <-> is_roadm (l_sk l) && starts_fib s = true) /\ (A <> [] <-> is_roadm (l_dk l) && ends_fib s = true)
    end.
Proof.
  intros c l l' Hna H. unfold add_missing in H.
  destruct (split_chain c (l_els l)) as [s|] eqn:Es; [|discriminate]. cbn [bind] in H.
  assert (Hs : no_auto s) by (eapply split_chain_no_auto; eassumption).
  set (l0 := with_els l s) in *.
  assert (E0 : l_els l0 = s) by reflexivity.
  assert (Ks : l_sk l0 = l_sk l) by reflexivity. assert (Kd : l_dk l0 = l_dk l) by reflexivity.
  assert (Nb : forall x, bname (with_els l x) s = bname l s) by reflexivity.
  assert (Np : forall x, pname (with_els l x) s = pname l s) by reflexivity.
  destruct (l_dst_first l) eqn:Edf.
  - (* preamp, then booster *)
    destruct (add_preamp l0) as [l1|] eqn:E1; [|discriminate]. cbn [bind] in H.
    destruct (add_booster l1) as [l2|] eqn:E2; [|discriminate]. cbn [bind] in H.
    destruct (add_inline (l_els l2)) as [i|] eqn:Ei; [|discriminate]. cbn [bind] in H. inversion H; subst l'.
    destruct (preamp_shape _ _ E1) as (mu1 & P1). destruct (booster_shape _ _ E2) as (mu2 & P2).
    subst l1. subst l2. unfold want_booster, want_preamp in *. cbn [l_els l_sk l_dk with_els] in *.
    rewrite E0, Ks, Kd in *. clear E1 E2.
    destruct s as [|e t].
    + cbn [ends_fib starts_fib orb] in *. destruct (is_roadm (l_dk l)) eqn:Rd; destruct (is_roadm (l_sk l)) eqn:Rs;
        cbn [andb orb app starts_fib] in *.
      * exists [], [], [new_amp (pname l []) mu1], i. repeat split; auto; try (right; eauto); try (intros [_ C]; discriminate); try discriminate.
      * exists [], [], [], i. repeat split; auto; try (destruct l; reflexivity).
      * exists [], [], [], i. repeat split; auto; try (destruct l; reflexivity).
      * exists [], [], [], i. repeat split; auto; try (destruct l; reflexivity).
    + remember (e :: t) as s eqn:Hse. assert (Hne : s <> []) by (subst s; discriminate).
      assert (SF : forall x, starts_fib (if is_roadm (l_dk l) && (ends_fib s || false) then s ++ [x] else s) = starts_fib s).
      { intro x. subst s. destruct (is_roadm (l_dk l) && (ends_fib (e :: t) || false)); reflexivity. }
      assert (NE : forall x, match (if is_roadm (l_dk l) && (ends_fib s || false) then s ++ [x] else s) with
                   | [] => is_roadm (l_dk l) | _ => false end = false).
      { intro x. subst s. destruct (is_roadm (l_dk l) && (ends_fib (e :: t) || false)); reflexivity. }
      assert (BN : forall x (b : bool), bname (with_els l0 (if b then s ++ [x] else s)) (if b then s ++ [x] else s) = bname l s).
      { intros x b. unfold bname. cbn [l_src l_dst with_els l0]. rewrite hdn_app by exact Hne. reflexivity. }
      assert (NE2 : match s with [] => is_roadm (l_sk l) | _ :: _ => false end = false) by (subst s; reflexivity).
      rewrite SF, NE, BN in Ei. rewrite ?NE2 in Ei. rewrite !Bool.orb_false_r in Ei.
      exists s, (if is_roadm (l_sk l) && starts_fib s then [new_amp (bname l s) mu2] else []),
             (if is_roadm (l_dk l) && ends_fib s then [new_amp (pname l s) mu1] else []), i.
      subst s. repeat split; auto.
      all: try (rewrite <- Ei; f_equal);
        destruct (is_roadm (l_sk l) && starts_fib (e :: t)); destruct (is_roadm (l_dk l) && ends_fib (e :: t));
        cbn [app]; rewrite ?app_nil_r; auto; try (right; eauto);
        try (intro C; try discriminate; exfalso; apply C; reflexivity).
  - (* booster, then preamp *)
    destruct (add_booster l0) as [l1|] eqn:E1; [|discriminate]. cbn [bind] in H.
    destruct (add_preamp l1) as [l2|] eqn:E2; [|discriminate]. cbn [bind] in H.
    destruct (add_inline (l_els l2)) as [i|] eqn:Ei; [|discriminate]. cbn [bind] in H. inversion H; subst l'.
    destruct (booster_shape _ _ E1) as (mu1 & P1). destruct (preamp_shape _ _ E2) as (mu2 & P2).
    subst l1. subst l2. unfold want_booster, want_preamp in *. cbn [l_els l_sk l_dk with_els] in *.
    rewrite E0, Ks, Kd in *. clear E1 E2.
    destruct s as [|e t].
    + cbn [ends_fib starts_fib orb] in *. destruct (is_roadm (l_dk l)) eqn:Rd; destruct (is_roadm (l_sk l)) eqn:Rs;
        cbn [andb orb app ends_fib last is_fib new_amp] in *.
      * exists [], [new_amp (bname l []) mu1], [], i. repeat split; auto; try (right; eauto); try (intros [C _]; discriminate); try discriminate.
      * exists [], [], [], i. repeat split; auto; try (destruct l; reflexivity).
      * exists [], [], [], i. repeat split; auto; try (destruct l; reflexivity).
      * exists [], [], [], i. repeat split; auto; try (destruct l; reflexivity).
    + remember (e :: t) as s eqn:Hse. assert (Hne : s <> []) by (subst s; discriminate).
      assert (EF : forall x, ends_fib (if is_roadm (l_sk l) && (starts_fib s || false) then x :: s else s) = ends_fib s).
      { intro x. subst s. destruct (is_roadm (l_sk l) && (starts_fib (e :: t) || false)); [|reflexivity]. unfold ends_fib. cbn [last]. reflexivity. }
      assert (NE : forall x, match (if is_roadm (l_sk l) && (starts_fib s || false) then x :: s else s) with
                   | [] => is_roadm (l_sk l) | _ => false end = false).
      { intro x. subst s. destruct (is_roadm (l_sk l) && (starts_fib (e :: t) || false)); reflexivity. }
      assert (PN : forall x (b : bool), pname (with_els l0 (if b then x :: s else s)) (if b then x :: s else s) = pname l s).
      { intros x b. unfold pname. cbn [l_src l_dst with_els l0]. rewrite lastn_cons by exact Hne. reflexivity. }
      assert (NE2 : match s with [] => is_roadm (l_dk l) | _ :: _ => false end = false) by (subst s; reflexivity).
      rewrite EF, NE, PN in Ei. rewrite ?NE2 in Ei. rewrite !Bool.orb_false_r in Ei.
      exists s, (if is_roadm (l_sk l) && starts_fib s then [new_amp (bname l s) mu1] else []),
             (if is_roadm (l_dk l) && ends_fib s then [new_amp (pname l s) mu2] else []), i.
      subst s. repeat split; auto.
      all: try (rewrite <- Ei; f_equal);
        destruct (is_roadm (l_sk l) && starts_fib (e :: t)); destruct (is_roadm (l_dk l) && ends_fib (e :: t));
        cbn [app]; rewrite ?app_nil_r; auto; try (right; eauto);
        try (intro C; try discriminate; exfalso; apply C; reflexivity).
Qed.

(* ---------- junction rule ---------- *)
Definition pair_ok0 (x y : node) : bool :=
  negb (n_roadm x && n_fib y) && negb (n_fib x && n_roadm y)
  && (negb (n_auto x) || n_fib y || n_roadm y) && (negb (n_auto y) || n_fib x || n_roadm x).
Lemma pair_ok_split : forall x y, pair_ok x y = negb (n_fib x && n_fib y) && pair_ok0 x y.
Proof.
  intros. unfold pair_ok, pair_ok0.
  destruct (n_fib x), (n_fib y), (n_roadm x), (n_roadm y), (n_auto x), (n_auto y); reflexivity.
Qed.
Lemma adj_cons2 : forall {A} (P : A -> A -> bool) x y t, adj_ok P (x :: y :: t) = P x y && adj_ok P (y :: t).
Proof. reflexivity. Qed.

Lemma inline_adj : forall els els' p q,
  add_inline els = Ok els' -> n_fib q = false ->
  negb (n_fib p) || negb (starts_fib els) = true ->
  adj_ok pair_ok0 (p :: map NEl els ++ [q]) = true ->
  adj_ok pair_ok (p :: map NEl els' ++ [q]) = true.
Proof.
  induction els as [|e t IH]; intros els' p q H Hq Hp Hadj.
  - inversion H; subst els'. cbn in *. rewrite pair_ok_split, Hq, Bool.andb_false_r. exact Hadj.
  - cbn [add_inline] in H. destruct (add_inline t) as [t'|] eqn:Et; [|discriminate]. cbn [bind] in H.
    cbn [map app] in Hadj. rewrite adj_cons2 in Hadj. apply andb_prop in Hadj. destruct Hadj as [Hpe Htl].
    assert (Ppe : pair_ok p (NEl e) = true).
    { rewrite pair_ok_split, Hpe, Bool.andb_true_r. destruct (n_fib p); [|reflexivity].
      cbn in Hp. destruct e; cbn in *; [discriminate | reflexivity | reflexivity]. }
    assert (Plain : forall r, r = Ok (e :: t') -> negb (is_fib e) || negb (starts_fib t) = true ->
                     r = Ok els' -> adj_ok pair_ok (p :: map NEl els' ++ [q]) = true).
    { intros r Hr Hc Hr'. rewrite Hr in Hr'. inversion Hr'; subst els'. cbn [map app]. rewrite adj_cons2, Ppe. cbn [andb].
      apply (IH t' (NEl e) q eq_refl Hq); [|exact Htl]. destruct e; exact Hc. }
    destruct e as [f|n lo|a]; try (eapply Plain; [reflexivity | reflexivity | exact H]).
    destruct t as [|[g|n lo|a] t2]; try (eapply Plain; [reflexivity | reflexivity | exact H]).
    destruct (kind_check (Fib g :: t2)); [|discriminate]. cbn [bind] in H. inversion H; subst els'.
    cbn [map app]. rewrite !adj_cons2, Ppe. cbn [andb].
    match goal with |- context [new_amp ?a ?b] => set (am := new_amp a b) in * end.
    assert (P1 : pair_ok (NEl (Fib f)) (NEl am) = true) by reflexivity.
    rewrite P1. cbn [andb].
    apply (IH t' (NEl am) q eq_refl Hq); [reflexivity|].
    cbn [map app] in Htl |- *. rewrite adj_cons2 in Htl |- *. apply andb_prop in Htl. destruct Htl as [_ Htl].
    rewrite Htl. reflexivity.
Qed.

Lemma adj_inner : forall s p q rest, no_auto s -> s <> [] ->
  adj_ok pair_ok0 (p :: map NEl s ++ q :: rest) =
  pair_ok0 p (NEl (hd dflt s)) && pair_ok0 (NEl (last s dflt)) q && adj_ok pair_ok0 (q :: rest).
Proof.
  induction s as [|e t IH]; intros p q rest Hn Hne; [contradiction|].
  unfold no_auto in Hn. cbn [forallb] in Hn. apply andb_prop in Hn. destruct Hn as [He Ht].
  destruct t as [|e2 t2].
  - cbn [map app hd last]. rewrite !adj_cons2. rewrite Bool.andb_assoc. reflexivity.
  - cbn [map app hd]. rewrite adj_cons2.
    change (NEl e :: NEl e2 :: map NEl t2 ++ q :: rest) with (NEl e :: map NEl (e2 :: t2) ++ q :: rest).
    rewrite (IH (NEl e) q rest Ht) by discriminate.
    assert (In2 : pair_ok0 (NEl e) (NEl (hd dflt (e2 :: t2))) = true).
    { cbn [hd forallb] in *. apply andb_prop in Ht. destruct Ht as [He2 _].
      unfold pair_ok0. cbn [n_roadm n_auto andb negb]. rewrite Bool.negb_true_iff in He, He2. rewrite He, He2.
      destruct (n_fib (NEl e)), (n_fib (NEl e2)); reflexivity. }
    rewrite In2. cbn [andb]. rewrite (last_cons_ne e (e2 :: t2) dflt) by (intro C; discriminate C). rewrite !Bool.andb_assoc. reflexivity.
Qed.

Lemma nfib_hd : forall s, n_fib (NEl (hd dflt s)) = starts_fib s.
Proof. destruct s as [|[f|n lo|a] t]; reflexivity. Qed.
Lemma nfib_last : forall s, s <> [] -> n_fib (NEl (last s dflt)) = ends_fib s.
Proof. intros s H. unfold ends_fib. destruct s; [contradiction|]. destruct (last (e :: s) dflt); reflexivity. Qed.
Lemma nauto_in : forall s e, no_auto s -> In e s -> is_auto e = false.
Proof.
  intros s e H Hin. unfold no_auto in H. rewrite forallb_forall in H. apply H in Hin.
  apply Bool.negb_true_iff in Hin. exact Hin.
Qed.
Lemma last_in : forall (s : list elem) d, s <> [] -> In (last s d) s.
Proof.
  induction s as [|e t IH]; intros d H; [contradiction|]. destruct t as [|e2 t2]; [left; reflexivity|].
  right. apply (IH d). discriminate.
Qed.

Lemma nn1 : forall e, n_auto (NEl e) = is_auto e. Proof. reflexivity. Qed.
Lemma nn2 : forall e, n_roadm (NEl e) = false. Proof. reflexivity. Qed.
Lemma nn3 : forall k, n_fib (NEnd k) = false. Proof. reflexivity. Qed.
Lemma nn4 : forall k, n_auto (NEnd k) = false. Proof. reflexivity. Qed.
Lemma nn5 : forall k, n_roadm (NEnd k) = is_roadm k. Proof. destruct k; reflexivity. Qed.
Lemma nn6 : forall a b, n_fib (NEl (new_amp a b)) = false. Proof. reflexivity. Qed.
Lemma nn7 : forall a b, is_auto (new_amp a b) = true. Proof. reflexivity. Qed.
Ltac nn := rewrite ?adj_cons2; cbn [adj_ok]; unfold pair_ok0; rewrite ?nn1, ?nn2, ?nn3, ?nn4, ?nn5, ?nn6, ?nn7.

(* every junction of a designed line obeys the rule, whatever the order of the booster / preamp passes *)
Lemma add_missing_junctions : forall c l l', no_auto (l_els l) -> add_missing c l = Ok l' ->
  junctions_ok (l_sk l) (l_dk l) (l_els l') = true.
Proof.
  intros c l l' Hna H.
  destruct (ends_shape c l l' Hna H) as (s & B & A & i & Es & Hs & Ei & El & HB & HA & Hcond).
  subst l'. cbn [l_els with_els]. unfold junctions_ok, path.
  apply (inline_adj (B ++ s ++ A) i (NEnd (l_sk l)) (NEnd (l_dk l)) Ei); [reflexivity | reflexivity |].
  destruct s as [|e t].
  - destruct Hcond as [Hor Hiff].
    destruct HB as [HB|(mu & HB)]; destruct HA as [HA|(mu' & HA)]; subst B A; cbn [app map].
    + destruct Hiff as [Hiff _]. specialize (Hiff (conj eq_refl eq_refl)).
      destruct (l_sk l), (l_dk l); cbn in *; try reflexivity; discriminate.
    + destruct (l_sk l) eqn:Ks, (l_dk l) eqn:Kd; try reflexivity;
        exfalso; destruct Hiff as [_ Hiff]; specialize (Hiff eq_refl); destruct Hiff; discriminate.
    + destruct (l_sk l) eqn:Ks, (l_dk l) eqn:Kd; try reflexivity;
        exfalso; destruct Hiff as [_ Hiff]; specialize (Hiff eq_refl); destruct Hiff; discriminate.
    + destruct Hor; discriminate.
  - destruct Hcond as [CB CA].
    remember (e :: t) as s eqn:Hse. assert (Hne : s <> []) by (subst s; discriminate).
    assert (Ah : is_auto (hd dflt s) = false) by (apply (nauto_in s); [exact Hs | subst s; left; reflexivity]).
    assert (Al : is_auto (last s dflt) = false) by (apply (nauto_in s); [exact Hs | apply last_in; exact Hne]).
    pose proof (nfib_hd s) as Fh. pose proof (nfib_last s Hne) as Fl.
    destruct HB as [HB|(mu & HB)]; destruct HA as [HA|(mu' & HA)]; subst B A; cbn [app].
    + rewrite app_nil_r.
      change (NEnd (l_sk l) :: map NEl s ++ [NEnd (l_dk l)]) with (NEnd (l_sk l) :: map NEl s ++ NEnd (l_dk l) :: []).
      rewrite adj_inner by assumption. nn. rewrite ?Fh, ?Fl, ?Ah, ?Al.
      assert (B1 : is_roadm (l_sk l) && starts_fib s = false).
      { destruct (is_roadm (l_sk l) && starts_fib s) eqn:E; [|reflexivity]. destruct CB as [_ CB]. exfalso. apply (CB eq_refl). reflexivity. }
      assert (A1 : is_roadm (l_dk l) && ends_fib s = false).
      { destruct (is_roadm (l_dk l) && ends_fib s) eqn:E; [|reflexivity]. destruct CA as [_ CA]. exfalso. apply (CA eq_refl). reflexivity. }
      destruct (is_roadm (l_sk l)), (is_roadm (l_dk l)), (starts_fib s), (ends_fib s); cbn in *; try reflexivity; discriminate.
    + rewrite map_app. rewrite <- app_assoc. cbn [map app].
      rewrite adj_inner by assumption. nn. rewrite ?Fh, ?Fl, ?Ah, ?Al.
      assert (B1 : is_roadm (l_sk l) && starts_fib s = false).
      { destruct (is_roadm (l_sk l) && starts_fib s) eqn:E; [|reflexivity]. destruct CB as [_ CB]. exfalso. apply (CB eq_refl). reflexivity. }
      assert (A1 : is_roadm (l_dk l) && ends_fib s = true).
      { destruct CA as [CA _]. apply CA. discriminate. }
      destruct (is_roadm (l_sk l)), (is_roadm (l_dk l)), (starts_fib s), (ends_fib s); cbn in *; try reflexivity; discriminate.
    + cbn [map app]. rewrite app_nil_r. rewrite adj_cons2.
      match goal with |- context [NEl (new_amp ?a ?b) :: map NEl s ++ [NEnd (l_dk l)]] =>
        change (NEl (new_amp a b) :: map NEl s ++ [NEnd (l_dk l)]) with (NEl (new_amp a b) :: map NEl s ++ NEnd (l_dk l) :: []) end.
      rewrite adj_inner by assumption. nn. rewrite ?Fh, ?Fl, ?Ah, ?Al.
      assert (B1 : is_roadm (l_sk l) && starts_fib s = true).
      { destruct CB as [CB _]. apply CB. discriminate. }
      assert (A1 : is_roadm (l_dk l) && ends_fib s = false).
      { destruct (is_roadm (l_dk l) && ends_fib s) eqn:E; [|reflexivity]. destruct CA as [_ CA]. exfalso. apply (CA eq_refl). reflexivity. }
      destruct (is_roadm (l_sk l)), (is_roadm (l_dk l)), (starts_fib s), (ends_fib s); cbn in *; try reflexivity; discriminate.
    + cbn [map app]. rewrite map_app. rewrite <- app_assoc. cbn [map app]. rewrite adj_cons2.
      rewrite adj_inner by assumption. nn. rewrite ?Fh, ?Fl, ?Ah, ?Al.
      assert (B1 : is_roadm (l_sk l) && starts_fib s = true).
      { destruct CB as [CB _]. apply CB. discriminate. }
      assert (A1 : is_roadm (l_dk l) && ends_fib s = true).
      { destruct CA as [CA _]. apply CA. discriminate. }
      destruct (is_roadm (l_sk l)), (is_roadm (l_dk l)), (starts_fib s), (ends_fib s); cbn in *; try reflexivity; discriminate.
Qed.

(* removing the inserted amplifiers gives back the split expansion of the input chain *)
Lemma add_missing_erase : forall c l l', no_auto (l_els l) -> add_missing c l = Ok l' ->
  exists s, split_chain c (l_els l) = Ok s /\ erase (l_els l') = s /\
            l_sk l' = l_sk l /\ l_src l' = l_src l /\ l_dk l' = l_dk l /\ l_dst l' = l_dst l.
Proof.
  intros c l l' Hna H.
  destruct (ends_shape c l l' Hna H) as (s & B & A & i & Es & Hs & Ei & El & HB & HA & _).
  exists s. subst l'. cbn [l_els with_els l_sk l_src l_dk l_dst]. repeat split; auto.
  rewrite (inline_erase _ _ Ei), !erase_app, (no_auto_erase s Hs).
  destruct HB as [HB|(mu & HB)]; destruct HA as [HA|(mu' & HA)]; subst B A; cbn; rewrite ?app_nil_r; reflexivity.
Qed.

Lemma e_len_auto : forall e, is_auto e = true -> e_len e = 0%Q /\ e_ll e = 0%Q.
Proof. destruct e; cbn; intro H; try discriminate; split; reflexivity. Qed.
Lemma tot_erase : forall l, (tot_len (erase l) == tot_len l)%Q /\ (tot_ll (erase l) == tot_ll l)%Q.
Proof.
  induction l as [|e l [I1 I2]]; [split; reflexivity|].
  unfold erase in *. cbn [filter]. destruct (is_auto e) eqn:Ea; cbn [negb].
  - destruct (e_len_auto e Ea) as [Z1 Z2]. unfold tot_len, tot_ll in *. cbn [map qsum]. rewrite Z1, Z2, I1, I2. split; ring.
  - unfold tot_len, tot_ll in *. cbn [map qsum]. rewrite I1, I2. split; reflexivity.
Qed.

(* total length and total length x loss coefficient survive amplifier insertion and splitting *)
Lemma add_missing_totals : forall c l l', c_min c <= c_max c -> no_auto (l_els l) -> add_missing c l = Ok l' ->
  (tot_len (l_els l') == tot_len (l_els l))%Q /\ (tot_ll (l_els l') == tot_ll (l_els l))%Q.
Proof.
  intros c l l' Hc Hna H. destruct (add_missing_erase c l l' Hna H) as (s & Es & Er & _).
  destruct (split_chain_totals c _ _ Hc Es) as [S1 S2]. destruct (tot_erase (l_els l')) as [T1 T2].
  rewrite Er in T1, T2. rewrite <- T1, <- T2, S1, S2. split; reflexivity.
Qed.

(* ---------- names ---------- *)
Lemma names_app : forall a b, names (a ++ b) = names a ++ names b.
Proof. intros. unfold names. apply map_app. Qed.
(* names of the amplifiers inserted between two fibres *)
Fixpoint inline_names (l : list elem) : list string :=
  match l with
  | Fib f :: ((Fib _ :: _) as t) => inline_name (f_name f) :: inline_names t
  | _ :: t => inline_names t
  | [] => []
  end.
Lemma inline_names_perm : forall l l', add_inline l = Ok l' -> Permutation (names l') (names l ++ inline_names l).
Proof.
  induction l as [|e t IH]; intros l' H.
  - inversion H. constructor.
  - cbn [add_inline] in H. destruct (add_inline t) as [t'|] eqn:Et; [|discriminate]. cbn [bind] in H.
    specialize (IH t' eq_refl).
    assert (Plain : inline_names (e :: t) = inline_names t -> Ok (e :: t') = Ok l' ->
                    Permutation (names l') (names (e :: t) ++ inline_names (e :: t))).
    { intros Hn Hl. inversion Hl; subst l'. rewrite Hn. cbn [names map app]. constructor. exact IH. }
    destruct e as [f|n lo|a]; try (apply Plain; [reflexivity | exact H]).
    destruct t as [|[g|n lo|a] t2]; try (apply Plain; [reflexivity | exact H]).
    destruct (kind_check (Fib g :: t2)); [|discriminate]. cbn [bind] in H. inversion H; subst l'.
    cbn [names map app inline_names el_name new_amp a_name]. constructor.
    cbn [names map] in IH.
    eapply Permutation_trans; [apply perm_skip; exact IH|].
    apply (Permutation_middle (f_name g :: map el_name t2) (inline_names (Fib g :: t2)) (inline_name (f_name f))).
Qed.

Lemma inline_names_amp_r : forall s a, inline_names (s ++ [Amp a]) = inline_names s.
Proof.
  induction s as [|e t IH]; intro a; [reflexivity|].
  destruct e as [f|n lo|x]; cbn [app]; try (cbn [inline_names]; apply IH).
  destruct t as [|[g|n lo|x] t2]; cbn [app] in *; try reflexivity.
  - cbn [inline_names]. f_equal. apply (IH a).
  - cbn [inline_names]. apply (IH a).
  - cbn [inline_names]. apply (IH a).
Qed.

(* uids after add_missing = uids of the split chain + at most one booster uid + at most one preamp uid + one
   inline uid per fibre-fibre junction, each exactly once *)
Lemma add_missing_names : forall c l l', no_auto (l_els l) -> add_missing c l = Ok l' ->
  exists s extra, split_chain c (l_els l) = Ok s /\
    Permutation (names (l_els l')) (names s ++ extra ++ inline_names s) /\
    (forall n, In n extra -> n = bname l s \/ n = pname l s) /\ (length extra <= 2)%nat /\
    (NoDup (names s ++ extra ++ inline_names s) -> NoDup (names (l_els l'))).
Proof.
  intros c l l' Hna H.
  destruct (ends_shape c l l' Hna H) as (s & B & A & i & Es & Hs & Ei & El & HB & HA & _).
  exists s, (names B ++ names A). subst l'. cbn [l_els with_els].
  assert (P : Permutation (names i) (names s ++ (names B ++ names A) ++ inline_names s)).
  { eapply Permutation_trans; [apply (inline_names_perm _ _ Ei)|].
    assert (IN : inline_names (B ++ s ++ A) = inline_names s).
    { destruct HB as [HB|(mu & HB)]; destruct HA as [HA|(mu' & HA)]; subst B A; unfold new_amp; cbn [app];
        rewrite ?app_nil_r; cbn [inline_names]; rewrite ?inline_names_amp_r; reflexivity. }
    rewrite IN, !names_app. rewrite !app_assoc.
    apply Permutation_app_tail. apply Permutation_app_tail. apply Permutation_app_comm. }
  repeat split; auto.
  - intros n Hn. apply in_app_or in Hn.
    destruct HB as [HB|(mu & HB)]; destruct HA as [HA|(mu' & HA)]; subst B A; cbn in Hn; intuition.
  - rewrite app_length.
    destruct HB as [HB|(mu & HB)]; destruct HA as [HA|(mu' & HA)]; subst B A; cbn; lia.
  - intro ND. eapply Permutation_NoDup; [apply Permutation_sym; exact P | exact ND].
Qed.


(* ---------- groups (spans) ---------- *)
Lemma groups_nonempty : forall {A} (b : A -> A -> bool) l, Forall (fun g => g <> []) (groups b l).
Proof.
  intros A b. induction l as [|x t IH]; [constructor|]. cbn [groups].
  destruct (groups b t) as [|[|y r] rs] eqn:E.
  - constructor; [discriminate | constructor].
  - constructor; [discriminate | constructor].
  - destruct (b x y).
    + constructor; [discriminate | exact IH].
    + inversion IH; subst. constructor; [discriminate | assumption].
Qed.
Lemma groups_concat : forall {A} (b : A -> A -> bool) l, concat (groups b l) = l.
Proof.
  intros A b. induction l as [|x t IH]; [reflexivity|]. cbn [groups].
  pose proof (groups_nonempty b t) as NE.
  destruct (groups b t) as [|[|y r] rs] eqn:E.
  - cbn in *. subst t. reflexivity.
  - inversion NE; subst. contradiction.
  - destruct (b x y); cbn [concat app] in *; rewrite <- IH; reflexivity.
Qed.
Lemma groups_key : forall {A K} (k : A -> K) (b : A -> A -> bool) (b' : K -> K -> bool),
  (forall x y, b x y = b' (k x) (k y)) -> forall l, map (map k) (groups b l) = groups b' (map k l).
Proof.
  intros A K k b b' Hb. induction l as [|x t IH]; [reflexivity|]. cbn [groups map].
  rewrite <- IH. pose proof (groups_nonempty b t) as NE.
  destruct (groups b t) as [|[|y r] rs] eqn:E.
  - reflexivity.
  - inversion NE; subst. contradiction.
  - cbn [map]. rewrite <- Hb. destruct (b x y); reflexivity.
Qed.
Lemma app_eq_len : forall {A} (a b c d : list A), length a = length b -> a ++ c = b ++ d -> a = b /\ c = d.
Proof.
  induction a as [|x a IH]; intros b c d Hl H; destruct b as [|y b]; try discriminate.
  - split; [reflexivity | exact H].
  - cbn in *. inversion H; subst. inversion Hl. destruct (IH b c d H1 H2). subst. split; reflexivity.
Qed.
Lemma concat_eq_lengths : forall {A} (X Y : list (list A)),
  map (@length A) X = map (@length A) Y -> concat X = concat Y -> X = Y.
Proof.
  induction X as [|x X IH]; intros Y Hl H; destruct Y as [|y Y]; try discriminate; [reflexivity|].
  cbn in *. inversion Hl. destruct (app_eq_len _ _ _ _ H1 H). subst. f_equal. apply IH; assumption.
Qed.

(* what the junction rule and the span structure look at *)
Definition ekey (e : elem) : Z * bool :=
  match e with Fib _ => (0, false) | Fus _ _ => (1, false) | Amp a => (2, a_auto a) end.
Definition brk' (x y : Z * bool) : bool :=
  (fst x =? 2) || (fst y =? 2) || ((fst x =? 0) && (fst y =? 0)).
Lemma brk_key : forall x y, brk x y = brk' (ekey x) (ekey y).
Proof. destruct x, y; reflexivity. Qed.
Lemma runs_key : forall l l', map ekey l = map ekey l' -> map (map ekey) (runs l) = map (map ekey) (runs l').
Proof. intros l l' H. unfold runs. rewrite !(groups_key ekey brk brk' brk_key), H. reflexivity. Qed.

Definition nkey (n : node) : bool * bool * bool := (n_fib n, n_roadm n, n_auto n).
Definition pair_k (x y : bool * bool * bool) : bool :=
  let '(fx, rx, ax) := x in let '(fy, ry, ay) := y in
  negb (fx && fy) && negb (rx && fy) && negb (fx && ry) && (negb ax || fy || ry) && (negb ay || fx || rx).
Lemma adj_ok_map : forall {A B} (g : A -> B) (P : B -> B -> bool) l,
  adj_ok (fun x y => P (g x) (g y)) l = adj_ok P (map g l).
Proof.
  intros A B g P. induction l as [|x t IH]; [reflexivity|]. destruct t as [|y t2]; [reflexivity|].
  cbn [map]. rewrite !adj_cons2. cbn [map] in IH. rewrite IH. reflexivity.
Qed.
Lemma junctions_key : forall sk dk l l', map ekey l = map ekey l' -> junctions_ok sk dk l = junctions_ok sk dk l'.
Proof.
  intros sk dk l l' H. unfold junctions_ok.
  assert (E : forall m, adj_ok pair_ok m = adj_ok pair_k (map nkey m)).
  { intro m. rewrite <- adj_ok_map. reflexivity. }
  rewrite !E. f_equal. unfold path. cbn [map]. f_equal. rewrite !map_app. f_equal.
  rewrite !map_map.
  assert (F : forall e, nkey (NEl e) = (Z.eqb (fst (ekey e)) 0, false, snd (ekey e))) by (destruct e; reflexivity).
  rewrite (map_ext _ _ F).
  rewrite <- (map_map ekey (fun k => (Z.eqb (fst k) 0, false, snd k))), H, map_map. symmetry. apply map_ext. exact F.
Qed.

(* ---------- add_connector_loss ---------- *)
Lemma conn_key : forall c l, map ekey (conn c l) = map ekey l.
Proof. induction l as [|[f|n lo|a] t IH]; cbn [conn map]; rewrite ?IH; reflexivity. Qed.
Lemma conn_names : forall c l, names (conn c l) = names l.
Proof. unfold names. induction l as [|[f|n lo|a] t IH]; cbn [conn map]; rewrite ?IH; reflexivity. Qed.
Lemma conn_all_some : forall c l, forallb fib_ok (conn c l) = true.
Proof. induction l as [|[f|n lo|a] t IH]; cbn [conn forallb]; rewrite ?IH; reflexivity. Qed.
Lemma conn_totals : forall c l, tot_len (conn c l) = tot_len l /\ tot_ll (conn c l) = tot_ll l.
Proof.
  unfold tot_len, tot_ll. induction l as [|[f|n lo|a] t [I1 I2]]; cbn [conn map qsum]; rewrite ?I1, ?I2; split; reflexivity.
Qed.

(* ---------- add_fiber_padding ---------- *)
Lemma mapM_ok : forall {A B} (f : A -> res B) l r, mapM f l = Ok r -> Forall2 (fun x y => f x = Ok y) l r.
Proof.
  induction l as [|x t IH]; intros r H; cbn in H.
  - inversion H. constructor.
  - destruct (f x) as [y|] eqn:E; [|discriminate]. cbn in H. destruct (mapM f t) as [ys|] eqn:E2; [|discriminate].
    cbn in H. inversion H. constructor; [exact E | apply IH; reflexivity].
Qed.

Lemma fib_loss_bump : forall g d t, (run_loss (bump (Fib g) d :: t) == run_loss (Fib g :: t) + d)%Q.
Proof. intros. unfold run_loss. cbn [map qsum el_loss bump]. unfold fib_loss. cbn. ring. Qed.

Lemma raman_first_plain : forall rg r, has_raman r = false -> (raman_first rg r == 0)%Q.
Proof.
  intros rg. unfold raman_first, has_raman. induction r as [|e t IH]; intro H; [reflexivity|].
  cbn [existsb map qsum] in *. apply Bool.orb_false_iff in H. destruct H as [H1 H2]. rewrite (IH H2).
  destruct e as [f|n lo|a]; try ring. rewrite H1. ring.
Qed.
Lemma raman_first_bump : forall rg g d t, raman_first rg (bump (Fib g) d :: t) = raman_first rg (Fib g :: t).
Proof. reflexivity. Qed.
(* the only thing padding changes: att_in of the first element of a span, when that is a fibre *)
Lemma pad_run_shape : forall c r r', pad_run c r = Ok r' ->
  r' = r \/ exists g t, r = Fib g :: t /\ r' = bump (Fib g) (c_pad c - span_sl c r) :: t /\ (span_sl c r < c_pad c)%Q.
Proof.
  intros c r r' H. unfold pad_run in H.
  destruct (last r dflt) as [f|n lo|a]; try (inversion H; left; reflexivity).
  destruct (f_raman f); [inversion H; left; reflexivity|].
  destruct (Qltb (span_sl c r) (c_pad c)) eqn:E; [|inversion H; left; reflexivity].
  destruct r as [|[g|n lo|a] t]; try (inversion H; left; reflexivity).
  inversion H. right. exists g, t. repeat split. apply Qltb_lt. exact E.
Qed.
Lemma pad_run_key : forall c r r', pad_run c r = Ok r' -> map ekey r' = map ekey r /\ names r' = names r.
Proof.
  intros c r r' H. destruct (pad_run_shape c r r' H) as [E|(g & t & E1 & E2 & _)]; subst; split; reflexivity.
Qed.
Lemma has_raman_bump : forall g d t, has_raman (bump (Fib g) d :: t) = has_raman (Fib g :: t).
Proof. reflexivity. Qed.

Definition run_padded' (pad : Q) (r : list elem) : bool :=
  match last r dflt with
  | Fib f => negb (starts_fib r) || f_raman f || has_raman r || Qle_bool pad (run_loss r)
  | _ => true
  end.
Lemma run_padded_eq : forall pad r, run_padded pad r = run_padded' pad r.
Proof.
  intros pad r. unfold run_padded, run_padded'. destruct r as [|[g|n lo|a] t]; try reflexivity.
  - destruct (last (Fus n lo :: t) dflt); reflexivity.
  - destruct (last (Amp a :: t) dflt); reflexivity.
Qed.
Lemma pad_run_padded : forall c r r', pad_run c r = Ok r' -> run_padded (c_pad c) r' = true.
Proof.
  intros c r r' H. pose proof H as H0. unfold pad_run in H. rewrite run_padded_eq. unfold run_padded'.
  destruct (last r dflt) as [f|n lo|a] eqn:El.
  - destruct (f_raman f) eqn:Er.
    + (assert (Hrr : r' = r) by (inversion H; reflexivity)); subst r'. rewrite El, Er.
      rewrite Bool.orb_true_r. reflexivity.
    + destruct (has_raman r) eqn:Hr.
      { (* a Raman fibre in the span: exempt, whatever was padded *)
        destruct (pad_run_shape c r r' H0) as [E|(g & t & E1 & E2 & _)].
        - subst r'. rewrite El, Hr. rewrite Bool.orb_true_r. reflexivity.
        - subst r r'. rewrite has_raman_bump, Hr.
          destruct t as [|e2 t2].
          + cbn [last bump]. rewrite Bool.orb_true_r. reflexivity.
          + assert (L1 : last (bump (Fib g) (c_pad c - span_sl c (Fib g :: e2 :: t2)) :: e2 :: t2) dflt = Fib f)
              by (rewrite <- El; reflexivity).
            rewrite L1. rewrite Bool.orb_true_r. reflexivity. }
      pose proof (raman_first_plain (c_rg c) r Hr) as R0.
      destruct (Qltb (span_sl c r) (c_pad c)) eqn:E.
      * destruct r as [|e t]; [cbn in El; discriminate|].
        destruct e as [g|n lo|a]; try ((assert (Hrr : r' = Fus n lo :: t) by (inversion H; reflexivity)); subst r'; rewrite El, Er, Hr; reflexivity);
          try ((assert (Hrr : r' = Amp a :: t) by (inversion H; reflexivity)); subst r'; rewrite El, Er, Hr; reflexivity).
        assert (Hrr : r' = bump (Fib g) (c_pad c - span_sl c (Fib g :: t)) :: t) by (inversion H; reflexivity). subst r'. clear H.
        assert (L : exists f', last (bump (Fib g) (c_pad c - span_sl c (Fib g :: t)) :: t) dflt = Fib f' /\ f_raman f' = false).
        { destruct t as [|e2 t2].
          - cbn in El. inversion El; subst f. eexists. split; [reflexivity | exact Er].
          - exists f. split; [|exact Er]. rewrite <- El. reflexivity. }
        destruct L as (f' & L1 & L2). rewrite L1, L2, has_raman_bump, Hr.
        assert (SF : starts_fib (bump (Fib g) (c_pad c - span_sl c (Fib g :: t)) :: t) = true) by reflexivity.
        rewrite SF. cbn [orb negb].
        apply Qle_bool_iff. rewrite fib_loss_bump. unfold span_sl. rewrite R0. ring_simplify. apply Qle_refl.
      * (assert (Hrr : r' = r) by (inversion H; reflexivity)); subst r'. rewrite El, Er, Hr.
        apply Qltb_ge in E. unfold span_sl in E. rewrite R0 in E.
        assert (E' : (c_pad c <= run_loss r)%Q) by (eapply Qle_trans; [exact E|]; ring_simplify; apply Qle_refl).
        apply Qle_bool_iff in E'. rewrite E'. rewrite !Bool.orb_true_r. reflexivity.
  - (assert (Hrr : r' = r) by (inversion H; reflexivity)); subst r'. rewrite El. reflexivity.
  - (assert (Hrr : r' = r) by (inversion H; reflexivity)); subst r'. rewrite El. reflexivity.
Qed.

Lemma F2_impl : forall {A B} (P Q : A -> B -> Prop) X Y, (forall a b, P a b -> Q a b) -> Forall2 P X Y -> Forall2 Q X Y.
Proof. intros A B P Q X Y H F. induction F; constructor; auto. Qed.
Lemma Forall2_concat_key : forall (X Y : list (list elem)),
  Forall2 (fun r r' => map ekey r' = map ekey r /\ names r' = names r) X Y ->
  map ekey (concat Y) = map ekey (concat X) /\ names (concat Y) = names (concat X) /\
  map (map ekey) Y = map (map ekey) X.
Proof.
  induction 1 as [|x y X Y [H1 H2] _ (I1 & I2 & I3)]; [repeat split; reflexivity|].
  cbn [concat map]. rewrite !map_app, !names_app, H1, H2, I1, I2, I3. repeat split; reflexivity.
Qed.

Lemma map_length_key : forall (X Y : list (list elem)),
  map (map ekey) X = map (map ekey) Y -> map (@length elem) X = map (@length elem) Y.
Proof.
  induction X as [|x X IH]; intros Y H; destruct Y as [|y Y]; try discriminate; [reflexivity|].
  cbn [map] in *. inversion H. f_equal; [|apply IH; assumption].
  apply (f_equal (@length _)) in H1. rewrite !map_length in H1. exact H1.
Qed.
(* pad_chain works span by span and the spans of its result are the padded spans *)
Lemma pad_chain_runs : forall c l l', pad_chain c l = Ok l' ->
  exists rs, mapM (pad_run c) (runs l) = Ok rs /\ l' = concat rs /\ runs l' = rs /\
             map ekey l' = map ekey l /\ names l' = names l.
Proof.
  intros c l l' H. unfold pad_chain in H. destruct (mapM (pad_run c) (runs l)) as [rs|] eqn:E; [|discriminate].
  cbn [bind] in H. inversion H; subst l'. exists rs.
  pose proof (mapM_ok _ _ _ E) as F.
  assert (F' : Forall2 (fun r r' => map ekey r' = map ekey r /\ names r' = names r) (runs l) rs).
  { eapply F2_impl; [|exact F]. intros a b Hab. exact (pad_run_key c a b Hab). }
  destruct (Forall2_concat_key _ _ F') as (K1 & K2 & K3).
  unfold runs in K1, K2. rewrite groups_concat in K1, K2.
  repeat split; auto.
  apply concat_eq_lengths.
  - pose proof (runs_key (concat rs) l K1) as RK. rewrite <- K3 in RK. apply map_length_key. exact RK.
  - unfold runs. apply groups_concat.
Qed.

(* every span that starts with a fibre and ends with a non-Raman fibre (no Raman fibre inside) has at least the
   padding loss after add_fiber_padding *)
Lemma pad_chain_padded : forall c l l', pad_chain c l = Ok l' -> padding_ok (c_pad c) l' = true.
Proof.
  intros c l l' H. destruct (pad_chain_runs c l l' H) as (rs & E & _ & Er & _).
  unfold padding_ok. rewrite Er. apply forallb_forall. intros r' Hin.
  pose proof (mapM_ok _ _ _ E) as F.
  assert (G : forall X Y, Forall2 (fun x y => pad_run c x = Ok y) X Y -> In r' Y -> exists r, pad_run c r = Ok r').
  { induction 1 as [|x y X Y Hxy _ IH]; intros Hi; [contradiction|]. destruct Hi as [->|Hi]; [eauto | auto]. }
  destruct (G _ _ F Hin) as (r & Hr). eapply pad_run_padded. exact Hr.
Qed.

(* ---------- everything add_connector_loss / add_fiber_padding leave untouched ---------- *)
Definition ekey2 (e : elem) : (Z * bool) * string * Q * Q * bool := (ekey e, el_name e, e_len e, e_ll e, fib_ok e).
Lemma map_proj : forall {A B C} (f : A -> B) (g : B -> C) l l', map f l = map f l' -> map (fun x => g (f x)) l = map (fun x => g (f x)) l'.
Proof. intros. rewrite <- !(map_map f g). f_equal. assumption. Qed.
Lemma pad_run_key2 : forall c r r', pad_run c r = Ok r' -> map ekey2 r' = map ekey2 r.
Proof.
  intros c r r' H. destruct (pad_run_shape c r r' H) as [E|(g & t & E1 & E2 & _)]; subst; reflexivity.
Qed.
Lemma pad_runs_key2 : forall c X Y, Forall2 (fun x y => pad_run c x = Ok y) X Y ->
  map ekey2 (concat Y) = map ekey2 (concat X).
Proof.
  intros c X Y F. induction F as [|x y X Y Hxy _ IH]; [reflexivity|].
  cbn [concat]. rewrite !map_app, IH, (pad_run_key2 c x y Hxy). reflexivity.
Qed.
Lemma pad_chain_key2 : forall c l l', pad_chain c l = Ok l' -> map ekey2 l' = map ekey2 l.
Proof.
  intros c l l' H. destruct (pad_chain_runs c l l' H) as (rs & E & El & _). subst l'.
  rewrite (pad_runs_key2 c _ _ (mapM_ok _ _ _ E)). unfold runs. rewrite groups_concat. reflexivity.
Qed.
Lemma key2_facts : forall l l', map ekey2 l' = map ekey2 l ->
  map ekey l' = map ekey l /\ names l' = names l /\ tot_len l' = tot_len l /\ tot_ll l' = tot_ll l /\
  forallb fib_ok l' = forallb fib_ok l /\ names (erase l') = names (erase l) /\
  tot_len (erase l') = tot_len (erase l) /\ tot_ll (erase l') = tot_ll (erase l).
Proof.
  intros l l'. revert l. induction l' as [|x l' IH]; intros l H; destruct l as [|y l]; try discriminate.
  - repeat split; reflexivity.
  - cbn [map] in H. inversion H as [[K1 K2 K3 K4 K5 K6]].
    destruct (IH l K6) as (I1 & I2 & I3 & I4 & I5 & I6 & I7 & I8).
    unfold names, tot_len, tot_ll, erase in *. cbn [map forallb filter qsum].
    assert (Ax : is_auto x = is_auto y) by (destruct x, y; cbn in K1 |- *; inversion K1; auto).
    rewrite Ax. rewrite K1, K2, K3, K4, K5, I1, I2, I3, I4, I5.
    destruct (negb (is_auto y)); cbn [map qsum]; rewrite ?K2, ?K3, ?K4, ?I6, ?I7, ?I8; repeat split; reflexivity.
Qed.
Lemma conn_key2 : forall c l, map (fun e => (ekey e, el_name e, e_len e, e_ll e)) (conn c l)
                            = map (fun e => (ekey e, el_name e, e_len e, e_ll e)) l.
Proof. induction l as [|[f|n lo|a] t IH]; cbn [conn map]; rewrite ?IH; reflexivity. Qed.
Lemma conn_erase : forall c l, names (erase (conn c l)) = names (erase l) /\
  tot_len (erase (conn c l)) = tot_len (erase l) /\ tot_ll (erase (conn c l)) = tot_ll (erase l).
Proof.
  unfold names, tot_len, tot_ll, erase.
  induction l as [|[f|n lo|a] t (I1 & I2 & I3)]; cbn [conn filter is_auto negb map qsum]; rewrite ?I1, ?I2, ?I3; try (repeat split; reflexivity).
  destruct (negb (a_auto a)); cbn [map qsum]; rewrite ?I1, ?I2, ?I3; repeat split; reflexivity.
Qed.

(* ---------- the design of one line ---------- *)
Record designed (c : cfg) (l l' : line) : Prop := {
  d_ends : l_sk l' = l_sk l /\ l_src l' = l_src l /\ l_dk l' = l_dk l /\ l_dst l' = l_dst l;
  d_junctions : junctions_ok (l_sk l) (l_dk l) (l_els l') = true;
  d_connectors : forallb fib_ok (l_els l') = true;
  d_padding : padding_ok (c_pad c) (l_els l') = true;
  d_erase : exists s, split_chain c (l_els l) = Ok s /\ names (erase (l_els l')) = names s /\
                      (tot_len (erase (l_els l')) == tot_len (l_els l))%Q /\ (tot_ll (erase (l_els l')) == tot_ll (l_els l))%Q;
  d_totals : (tot_len (l_els l') == tot_len (l_els l))%Q /\ (tot_ll (l_els l') == tot_ll (l_els l))%Q;
  d_names : exists s extra, split_chain c (l_els l) = Ok s /\
              Permutation (names (l_els l')) (names s ++ extra ++ inline_names s) /\
              (forall n, In n extra -> n = bname l s \/ n = pname l s) /\ (length extra <= 2)%nat
}.
Lemma design_line_spec : forall c l l', c_min c <= c_max c -> no_auto (l_els l) ->
  design_line c l = Ok l' -> designed c l l'.
Proof.
  intros c l l' Hc Hna H. unfold design_line in H.
  destruct (add_missing c l) as [l1|] eqn:E1; [|discriminate]. cbn [bind] in H.
  destruct (pad_chain c (conn c (l_els l1))) as [p|] eqn:E2; [|discriminate]. cbn [bind] in H. inversion H; subst l'.
  cbn [l_els with_els l_sk l_src l_dk l_dst].
  pose proof (pad_chain_key2 _ _ _ E2) as K2.
  destruct (key2_facts _ _ K2) as (P1 & P2 & P3 & P4 & P5 & P6 & P7 & P8).
  destruct (add_missing_erase c l l1 Hna E1) as (s & Es & Er & X1 & X2 & X3 & X4).
  destruct (add_missing_totals c l l1 Hc Hna E1) as [T1 T2].
  destruct (conn_totals c (l_els l1)) as [C1 C2]. destruct (conn_erase c (l_els l1)) as (C3 & C4 & C5).
  destruct (split_chain_totals c _ _ Hc Es) as [S1 S2].
  constructor; cbn [l_els with_els l_sk l_src l_dk l_dst].
  - auto.
  - rewrite (junctions_key _ _ p (l_els l1)); [apply (add_missing_junctions c l l1 Hna E1)|].
    rewrite P1. apply conn_key.
  - rewrite P5. apply conn_all_some.
  - apply (pad_chain_padded _ _ _ E2).
  - exists s. repeat split; auto.
    + rewrite P6, C3, Er. reflexivity.
    + rewrite P7, C4, Er. exact S1.
    + rewrite P8, C5, Er. exact S2.
  - rewrite P3, P4, C1, C2. split; assumption.
  - destruct (add_missing_names c l l1 Hna E1) as (s' & extra & Es' & Pm & Hin & Hlen & _).
    exists s', extra. repeat split; auto. rewrite P2, conn_names. exact Pm.
Qed.

(* ---------- validators: reflection ---------- *)
Definition FibOk (e : elem) : Prop :=
  match e with Fib f => (exists x, f_cin f = Some x) /\ (exists y, f_cout f = Some y) | _ => True end.
Definition AmpOk (lib : list string) (pm : bool) (e : elem) : Prop :=
  match e with
  | Amp a => In (a_var a) lib /\ (exists g, a_gain a = Some g) /\ (exists v, a_voa a = Some v)
             /\ (pm = true -> exists d, a_dp a = Some d)
  | _ => True
  end.
Lemma is_some_iff : forall {A} (o : option A), is_some o = true <-> exists x, o = Some x.
Proof. intros A [x|]; cbn; split; intro H; eauto; try discriminate. destruct H; discriminate. Qed.
Lemma designed_ok_iff : forall lib pm els,
  designed_ok lib pm els = true <-> Forall (fun e => FibOk e /\ AmpOk lib pm e) els.
Proof.
  intros lib pm els. unfold designed_ok. rewrite forallb_forall, Forall_forall.
  split; intros H e He; specialize (H e He).
  - apply andb_prop in H. destruct H as [H1 H2]. split.
    + destruct e as [f|n lo|a]; cbn in *; auto. destruct (f_cin f), (f_cout f); try discriminate. split; eauto.
    + destruct e as [f|n lo|a]; cbn in *; auto.
      apply andb_prop in H2. destruct H2 as [H2 H5]. apply andb_prop in H2. destruct H2 as [H2 H4].
      apply andb_prop in H2. destruct H2 as [H2 H3].
      repeat split.
      * apply existsb_exists in H2. destruct H2 as (x & Hx & Heq). apply String.eqb_eq in Heq. subst x. exact Hx.
      * apply is_some_iff. exact H3.
      * apply is_some_iff. exact H4.
      * intro Hp. subst pm. cbn in H5. apply is_some_iff. exact H5.
  - destruct H as [H1 H2]. apply andb_true_intro. split.
    + destruct e as [f|n lo|a]; cbn in *; auto. destruct H1 as [[x Hx] [y Hy]]. rewrite Hx, Hy. reflexivity.
    + destruct e as [f|n lo|a]; cbn in *; auto. destruct H2 as (L & G & V & D).
      apply is_some_iff in G. apply is_some_iff in V. rewrite G, V.
      assert (Hl : existsb (String.eqb (a_var a)) lib = true).
      { apply existsb_exists. exists (a_var a). split; [exact L | apply String.eqb_refl]. }
      rewrite Hl. cbn [andb]. destruct pm; cbn [negb orb]; [|reflexivity]. apply is_some_iff. apply D. reflexivity.
Qed.

Inductive AdjAll {A} (P : A -> A -> Prop) : list A -> Prop :=
| AA_nil : AdjAll P []
| AA_one : forall x, AdjAll P [x]
| AA_cons : forall x y t, P x y -> AdjAll P (y :: t) -> AdjAll P (x :: y :: t).
Lemma adj_ok_iff : forall {A} (p : A -> A -> bool) l, adj_ok p l = true <-> AdjAll (fun x y => p x y = true) l.
Proof.
  intros A p. induction l as [|x t IH]; [split; [constructor | reflexivity]|].
  destruct t as [|y t2]; [split; [constructor | reflexivity]|].
  rewrite adj_cons2. split.
  - intro H. apply andb_prop in H. destruct H as [H1 H2]. constructor; [exact H1 | apply IH; exact H2].
  - intro H. inversion H; subst. apply andb_true_intro. split; [assumption | apply IH; assumption].
Qed.
(* the junction rule spelled out *)
Definition PairOk (x y : node) : Prop :=
  ~ (n_fib x = true /\ n_fib y = true) /\ ~ (n_roadm x = true /\ n_fib y = true) /\ ~ (n_fib x = true /\ n_roadm y = true)
  /\ (n_auto x = true -> n_fib y = true \/ n_roadm y = true) /\ (n_auto y = true -> n_fib x = true \/ n_roadm x = true).
Lemma pair_ok_iff : forall x y, pair_ok x y = true <-> PairOk x y.
Proof.
  intros x y. unfold pair_ok, PairOk.
  destruct (n_fib x), (n_fib y), (n_roadm x), (n_roadm y), (n_auto x), (n_auto y); cbn; split; intro H;
    try discriminate; try reflexivity; try (exfalso; tauto);
    try (repeat split; try (intros [? ?]; discriminate); try (intro; discriminate); try (intro; auto); auto).
Qed.

(* ---------- witnesses: where the faithful model does NOT satisfy the full-strength property ---------- *)
Transparent kind_check preamp_name booster_name inline_name.
Definition w_cfg : cfg := mkCfg 150000 50000 10 0 0 0 (fun _ => 0%Q).
Definition w_fib (n : string) (km : Z) (lum : list (Q * Q)) : fib :=
  mkFib n false (qz (km * 1000)) (1 # 5000) None None 0 lum.

(* F9: lumped losses are copied into every sub-span *)
Lemma split_lumped_refuted : exists c f r,
  split_fib c f = Ok r /\ (lumped_total r == 2 * lumped_total [Fib f])%Q /\ ~ (lumped_total [Fib f] == 0)%Q.
Proof.
  exists w_cfg, (w_fib "f" 200 [(10, 3 # 2)]%Q). eexists. split; [vm_compute; reflexivity|]. split; [vm_compute; reflexivity | vm_compute; congruence].
Qed.
(* F9: ... or the design raises because the position lies beyond the new span *)
Lemma split_lumped_raises : exists c f e, lumped_inside f (f_len f) = true /\ split_fib c f = Err e.
Proof. exists w_cfg, (w_fib "f" 200 [(150, 3 # 2)]%Q). eexists. split; vm_compute; reflexivity. Qed.
(* min_length > max_length: division by zero, or spans longer than max_length *)
Lemma calc_len_zero_division : exists c L e, c_max c < c_min c /\ (qz (c_max c) <= L)%Q /\
  calc_len L (c_min c) (c_max c) (c_target c) = Err e.
Proof.
  exists (mkCfg 40000 50000 10 0 0 0 (fun _ => 0%Q)), (qz 45000). eexists.
  split; [vm_compute; reflexivity|]. split; [vm_compute; congruence | vm_compute; reflexivity].
Qed.
Lemma calc_len_above_max_refuted : exists c L len n, c_max c < c_min c /\
  calc_len L (c_min c) (c_max c) (c_target c) = Ok (len, n) /\ (qz (c_max c) < len)%Q.
Proof.
  exists (mkCfg 150000 200000 40 0 0 0 (fun _ => 0%Q)), (qz 500000). eexists. eexists.
  split; [vm_compute; reflexivity|]. split; vm_compute; reflexivity.
Qed.
(* a Raman fibre at or above max_length is replaced by plain fibres *)
Lemma split_raman_lost : exists c f r, f_raman f = true /\ split_fib c f = Ok r /\
  forallb (fun e => match e with Fib g => negb (f_raman g) | _ => false end) r = true /\ (2 <= length r)%nat.
Proof.
  exists w_cfg, (mkFib "r" true (qz 200000) (1 # 5000) (Some 0%Q) (Some (1 # 2)) 0 []). eexists.
  split; [reflexivity|]. split; [vm_compute; reflexivity|]. split; vm_compute; [reflexivity | lia].
Qed.
(* a span between two amplifiers that ends (or starts) with a Fused is never padded *)
Definition w_user_amp (n : string) : elem := Amp (mkAmp n false false "" None None None).
Definition w_line (els : list elem) : line := mkLine Roadm "A" 1 Roadm "B" true els.
Lemma padding_fused_refuted : exists c l l' r,
  design_line c l = Ok l' /\ In r (runs (l_els l')) /\ existsb is_amp r = false /\ has_raman r = false /\
  (run_loss r < c_pad c)%Q /\ junctions_ok (l_sk l) (l_dk l) (l_els l') = true.
Proof.
  exists w_cfg, (w_line [Fib (w_fib "f" 5 []); Fus "u" 1; w_user_amp "a"]). eexists. eexists.
  split; [vm_compute; reflexivity|]. split; [right; left; reflexivity|]. repeat split; vm_compute; reflexivity.
Qed.
(* a Raman fibre inside a fused run that ends with a plain fibre is designed (gnpy fix 36fd5b85 for finding F15):
   the span is padded against its loss minus the estimated Raman gain, att_in goes to the Raman fibre (first of the run) *)
Definition w_cfg_r : cfg := mkCfg 150000 50000 10 0 0 0 (fun _ => (15 # 2)%Q).
Lemma pad_raman_designs : exists l', no_auto (l_els (w_line [w_user_amp "a";
    Fib (mkFib "r" true (qz 80000) (1 # 5000) (Some 0%Q) (Some (1 # 2)) 0 []); Fus "u" 1; Fib (w_fib "f" 5 [])])) /\
  design_line w_cfg_r (w_line [w_user_amp "a"; Fib (mkFib "r" true (qz 80000) (1 # 5000) (Some 0%Q) (Some (1 # 2)) 0 []);
                               Fus "u" 1; Fib (w_fib "f" 5 [])]) = Ok l' /\
  names (l_els l') = ["a"; "r"; "u"; "f"; "Edfa_preamp_B_from_f"]%string.
Proof. eexists. split; [vm_compute; reflexivity|]. split; vm_compute; reflexivity. Qed.

(* ---------- non-vacuity ---------- *)
Definition ex_line : line :=
  w_line [Fib (w_fib "f1" 200 []); Fus "u" 1; Fib (w_fib "f2" 5 []); Fib (w_fib "f3" 80 []); w_user_amp "a"; Fib (w_fib "f4" 3 [])].
Example ex_hyps : c_min w_cfg <= c_max w_cfg /\ no_auto (l_els ex_line).
Proof. split; vm_compute; congruence. Qed.
Example ex_design : exists l', design_line w_cfg ex_line = Ok l' /\
  names (l_els l') = ["Edfa_booster_A_to_f1_(1/2)"; "f1_(1/2)"; "Edfa_f1_(1/2)"; "f1_(2/2)"; "u"; "f2"; "Edfa_f2"; "f3"; "a"; "f4";
                      "Edfa_preamp_B_from_f4"]%string.
Proof. eexists. split; vm_compute; reflexivity. Qed.

(* ---------- reflection of the remaining validators ---------- *)
Lemma AdjAll_impl : forall {A} (P Q : A -> A -> Prop) l, (forall x y, P x y -> Q x y) -> AdjAll P l -> AdjAll Q l.
Proof. intros A P Q l H F. induction F; constructor; auto. Qed.
Lemma junctions_ok_iff : forall sk dk els, junctions_ok sk dk els = true <-> AdjAll PairOk (path sk dk els).
Proof.
  intros. unfold junctions_ok. rewrite adj_ok_iff. split; apply AdjAll_impl; intros x y; apply pair_ok_iff.
Qed.
Definition RunPadded (pad : Q) (r : list elem) : Prop :=
  forall f, starts_fib r = true -> last r dflt = Fib f -> f_raman f = false -> has_raman r = false -> (pad <= run_loss r)%Q.
Lemma run_padded_iff : forall pad r, run_padded pad r = true <-> RunPadded pad r.
Proof.
  intros pad r. rewrite run_padded_eq. unfold run_padded', RunPadded. split.
  - intros H f Hs Hl Hr Hh. rewrite Hl, Hs, Hr, Hh in H. cbn in H. apply Qle_bool_iff. exact H.
  - intro H. destruct (last r dflt) as [f|n lo|a] eqn:El; try reflexivity.
    destruct (starts_fib r) eqn:Es; [|reflexivity]. destruct (f_raman f) eqn:Er; [reflexivity|].
    destruct (has_raman r) eqn:Eh; [reflexivity|]. cbn. apply Qle_bool_iff. apply (H f); auto.
Qed.
Lemma padding_ok_iff : forall pad els, padding_ok pad els = true <-> Forall (RunPadded pad) (runs els).
Proof.
  intros. unfold padding_ok. rewrite forallb_forall, Forall_forall.
  split; intros H r Hr; apply run_padded_iff; apply H; exact Hr.
Qed.

(* ---------- endpoints and reachability ---------- *)
Definition endpoints (l : line) : (ekind * string) * (ekind * string) := ((l_sk l, l_src l), (l_dk l, l_dst l)).
Lemma add_missing_endpoints : forall c l l', add_missing c l = Ok l' -> endpoints l' = endpoints l.
Proof.
  intros c l l' H. unfold add_missing in H.
  destruct (split_chain c (l_els l)) as [s|]; [|discriminate]. cbn [bind] in H.
  assert (E0 : endpoints (with_els l s) = endpoints l) by reflexivity.
  assert (B : forall a b, add_booster a = Ok b -> endpoints b = endpoints a).
  { intros a b Hb. destruct (booster_shape _ _ Hb) as (mu & ->). reflexivity. }
  assert (P : forall a b, add_preamp a = Ok b -> endpoints b = endpoints a).
  { intros a b Hb. destruct (preamp_shape _ _ Hb) as (mu & ->). reflexivity. }
  destruct (l_dst_first l).
  - destruct (add_preamp (with_els l s)) as [l1|] eqn:E1; [|discriminate]. cbn [bind] in H.
    destruct (add_booster l1) as [l2|] eqn:E2; [|discriminate]. cbn [bind] in H.
    destruct (add_inline (l_els l2)) as [i|]; [|discriminate]. cbn [bind] in H. inversion H.
    change (endpoints (with_els l2 i)) with (endpoints l2). rewrite (B _ _ E2), (P _ _ E1). exact E0.
  - destruct (add_booster (with_els l s)) as [l1|] eqn:E1; [|discriminate]. cbn [bind] in H.
    destruct (add_preamp l1) as [l2|] eqn:E2; [|discriminate]. cbn [bind] in H.
    destruct (add_inline (l_els l2)) as [i|]; [|discriminate]. cbn [bind] in H. inversion H.
    change (endpoints (with_els l2 i)) with (endpoints l2). rewrite (P _ _ E2), (B _ _ E1). exact E0.
Qed.
(* design keeps the endpoint pair of a line: for every line and configuration, no hypothesis *)
Lemma design_line_endpoints : forall c l l', design_line c l = Ok l' -> endpoints l' = endpoints l.
Proof.
  intros c l l' H. unfold design_line in H.
  destruct (add_missing c l) as [l1|] eqn:E1; [|discriminate]. cbn [bind] in H.
  destruct (pad_chain c (conn c (l_els l1))) as [p|]; [|discriminate]. cbn [bind] in H. inversion H.
  change (endpoints (with_els l1 p)) with (endpoints l1). exact (add_missing_endpoints c l l1 E1).
Qed.

(* a network = its lines; a node reaches another through a sequence of lines *)
Definition design_net (c : cfg) (ls : list line) : res (list line) := mapM (design_line c) ls.
Definition edges (ls : list line) : list (string * string) := map (fun l => (l_src l, l_dst l)) ls.
Inductive reach (es : list (string * string)) : string -> string -> Prop :=
| reach_refl : forall a, reach es a a
| reach_step : forall a b d, In (a, b) es -> reach es b d -> reach es a d.
Lemma design_net_endpoints : forall c ls ls', design_net c ls = Ok ls' -> map endpoints ls' = map endpoints ls.
Proof.
  intros c ls ls' H. pose proof (mapM_ok _ _ _ H) as F. clear H.
  induction F as [|x y X Y Hxy _ IH]; [reflexivity|]. cbn [map]. rewrite IH, (design_line_endpoints c x y Hxy). reflexivity.
Qed.
Lemma edges_endpoints : forall ls, edges ls = map (fun e => (snd (fst e), snd (snd e))) (map endpoints ls).
Proof. intro ls. unfold edges. rewrite map_map. apply map_ext. intro l. reflexivity. Qed.
Lemma design_net_edges : forall c ls ls', design_net c ls = Ok ls' -> edges ls' = edges ls.
Proof. intros c ls ls' H. rewrite !edges_endpoints, (design_net_endpoints c ls ls' H). reflexivity. Qed.
(* auto-design leaves reachability between ROADMs / transceivers unchanged *)
Lemma design_net_reach : forall c ls ls' a b, design_net c ls = Ok ls' -> (reach (edges ls') a b <-> reach (edges ls) a b).
Proof. intros c ls ls' a b H. rewrite (design_net_edges c ls ls' H). reflexivity. Qed.
Example ex_reach : exists ls', design_net w_cfg [ex_line; mkLine Roadm "B" 1 Roadm "C" true [Fib (w_fib "g" 60 [])]] = Ok ls' /\
  reach (edges ls') "A" "C" /\ ~ reach (edges ls') "C" "A".
Proof.
  eexists. split; [vm_compute; reflexivity|]. split.
  - eapply reach_step; [left; reflexivity|]. eapply reach_step; [right; left; reflexivity|]. apply reach_refl.
  - intro H. inversion H as [|a b d Hin _]; subst. cbn in Hin. destruct Hin as [E|[E|[]]]; inversion E.
Qed.
