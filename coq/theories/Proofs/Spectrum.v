(* Proofs about the spectrum-assignment model (C14). *)
From Coq Require Import Lia ZifyBool Permutation Sorted.
From Verif Require Import Prelude Model.Spectrum Proofs.SpectrumBase.
Open Scope Z_scope.
Local Arguments Z.mul : simpl never.
Local Arguments Z.add : simpl never.
Local Arguments Z.sub : simpl never.
Local Arguments Z.opp : simpl never.
Local Arguments Z.div : simpl never.
Local Arguments Z.max : simpl never.
Local Arguments Z.min : simpl never.
Local Arguments Z.of_nat : simpl never.
Local Arguments Z.to_nat : simpl never.

Definition same_dims (b b' : bitmap) : Prop :=
  n_min b' = n_min b /\ n_max b' = n_max b /\ fi_min b' = fi_min b /\ fi_max b' = fi_max b /\
  gb b' = gb b /\ idx b' = idx b.

Definition in_range (n m k : Z) : bool := (n - m <=? k) && (k <=? n + m - 1).

(* ------------------------------------------------------------------ assign *)
Lemma geti_wf b n : WFb b -> n_min b <= n <= n_max b -> geti b n = Ok (n - n_min b).
Proof.
  intros (Hi & _) H. unfold geti. rewrite Hi, zindex_zrange by lia. reflexivity.
Qed.

Lemma assign_inv b n m b' :
  WFb b -> assign b n m = Ok b' ->
  0 < m /\ fi_min b <= n <= fi_max b /\ n + m - 1 <= n_max b /\ n_min b < n - m /\
  b' = set_cells b (firstn (Z.to_nat (n - m - n_min b)) (cells b) ++ repeat SO (Z.to_nat (2 * m)) ++
                    skipn (Z.to_nat (n + m - n_min b)) (cells b)).
Proof.
  intros W H. pose proof W as (Hi & Hl & Hfm & HfM & Hg). unfold assign in H.
  destruct (m <=? 0) eqn:E1; [discriminate|].
  destruct (fi_max b <? n) eqn:E2; [discriminate|].
  destruct (n <? fi_min b) eqn:E3; [discriminate|].
  destruct (n_max b <? n + m - 1) eqn:E4; [discriminate|].
  destruct (n - m <=? n_min b) eqn:E5; [discriminate|].
  rewrite (geti_wf b (n - m)) in H by (auto; lia).
  rewrite (geti_wf b (n + m - 1)) in H by (auto; lia).
  cbn [bind] in H. injection H as <-.
  repeat (split; [lia|]).
  f_equal. rewrite pyslice_assign_in_range by lia.
  replace (n + m - 1 - (n - m) + 1) with (2 * m) by lia.
  replace (n + m - 1 - n_min b + 1) with (n + m - n_min b) by lia. reflexivity.
Qed.

Lemma assign_defined b n m :
  WFb b -> 0 < m -> fi_min b <= n - m -> n + m - 1 <= fi_max b -> exists b', assign b n m = Ok b'.
Proof.
  intros W Hm Hlo Hhi. pose proof W as (Hi & Hl & Hfm & HfM & Hg). unfold assign.
  replace (m <=? 0) with false by lia.
  replace (fi_max b <? n) with false by lia.
  replace (n <? fi_min b) with false by lia.
  replace (n_max b <? n + m - 1) with false by lia.
  replace (n - m <=? n_min b) with false by lia.
  rewrite (geti_wf b (n - m)) by (auto; lia).
  rewrite (geti_wf b (n + m - 1)) by (auto; lia).
  cbn [bind]. eexists. reflexivity.
Qed.

Lemma assign_spec b n m b' :
  WFb b -> assign b n m = Ok b' ->
  WFb b' /\ same_dims b b' /\
  forall k, cell b' k = if in_range n m k then Some SO else cell b k.
Proof.
  intros W H. destruct (assign_inv b n m b' W H) as (Hm & Hn & Hhi & Hlo & ->).
  pose proof W as (Hi & Hl & Hfm & HfM & Hg).
  set (a := n - m - n_min b). set (z := n + m - n_min b).
  assert (Hlen : length (firstn (Z.to_nat a) (cells b) ++ repeat SO (Z.to_nat (2 * m)) ++
                         skipn (Z.to_nat z) (cells b)) = length (cells b)).
  { replace (2 * m) with (z - a) by (unfold a, z; lia). apply assign_cells_length; unfold a, z; lia. }
  split; [|split].
  - unfold WFb, set_cells; cbn [cells n_min n_max fi_min fi_max gb idx]. rewrite Hlen. auto.
  - unfold same_dims, set_cells; cbn [cells n_min n_max fi_min fi_max gb idx]. auto 10.
  - intros k. unfold cell, set_cells, cellz, in_range; cbn [cells n_min].
    destruct (k <? n_min b) eqn:Ek.
    + replace ((n - m <=? k) && (k <=? n + m - 1)) with false by lia. reflexivity.
    + replace (2 * m) with (z - a) by (unfold a, z; lia).
      rewrite assign_cells_nth by (unfold a, z; lia).
      unfold a, z.
      destruct ((n - m <=? k) && (k <=? n + m - 1)) eqn:Er.
      * replace ((n - m - n_min b <=? k - n_min b) && (k - n_min b <? n + m - n_min b)) with true by lia.
        reflexivity.
      * replace ((n - m - n_min b <=? k - n_min b) && (k - n_min b <? n + m - n_min b)) with false by lia.
        reflexivity.
Qed.

(* ------------------------------------------------------------------ free ranges from the two selection tests *)
Lemma idx_at_wf b i : WFb b -> 0 <= i < Z.of_nat (length (cells b)) -> idx_at b i = Ok (n_min b + i).
Proof.
  intros (Hi & Hl & _) H. unfold idx_at. rewrite Hi, pyidx_zrange by lia. reflexivity.
Qed.

(* local free window [lo, lo+k) of the cell list  ==> Free over n-values *)
Lemma free_of_local b lo k :
  0 <= lo ->
  (forall j, lo <= j < lo + k -> nth_error (cells b) (Z.to_nat j) = Some SF) ->
  Free b (n_min b + lo) (n_min b + lo + k - 1).
Proof.
  intros H0 H n Hn. unfold cell, cellz. replace (n <? n_min b) with false by lia.
  apply H. lia.
Qed.

Lemma local_of_free b lo k :
  0 <= lo -> Free b (n_min b + lo) (n_min b + lo + k - 1) ->
  forall j, lo <= j < lo + k -> nth_error (cells b) (Z.to_nat j) = Some SF.
Proof.
  intros H0 H j Hj. specialize (H (n_min b + j)). unfold cell, cellz in H.
  replace (n_min b + j <? n_min b) with false in H by lia.
  replace (n_min b + j - n_min b) with j in H by lia. apply H. lia.
Qed.

Lemma cand_ok_spec b m i :
  WFb b -> 0 < m -> 0 <= i ->
  forall r, cand_ok b m i = Ok r ->
  (r = true <-> (fi_min b <= n_min b + i /\ n_min b + i + 2 * m - 1 <= fi_max b /\
                 Free b (n_min b + i) (n_min b + i + 2 * m - 1))).
Proof.
  intros W Hm Hi r H. pose proof W as (Hx & Hl & Hfm & HfM & Hg). unfold cand_ok in H.
  destruct (slice_all_free (cells b) i (i + 2 * m) (2 * m)) eqn:Es.
  - apply slice_all_free_spec in Es; [|lia|lia]. destruct Es as (_ & Hlen & Hf).
    rewrite idx_at_wf in H by (auto; lia). cbn [bind] in H.
    destruct (fi_min b <=? n_min b + i) eqn:E1.
    + rewrite idx_at_wf in H by (auto; lia). cbn [bind] in H. injection H as <-.
      split.
      * intros E. split; [lia|]. split; [lia|]. apply free_of_local; [lia|exact Hf].
      * intros (_ & E & _). lia.
    + injection H as <-. split; [discriminate|]. intros (E & _). lia.
  - injection H as <-. split; [discriminate|]. intros (_ & E & Hf).
    assert (Hin : n_min b + i + 2 * m - 1 <= n_max b) by lia.
    assert (Es' : slice_all_free (cells b) i (i + 2 * m) (2 * m) = true).
    { apply slice_all_free_spec; [lia|lia|]. split; [lia|]. split; [lia|].
      apply local_of_free; [lia|]. exact Hf. }
    congruence.
Qed.

(* candidates are produced in increasing position order *)
Lemma cands_from_spec b m : WFb b -> 0 < m ->
  forall fuel i l, 0 <= i -> i + Z.of_nat fuel <= Z.of_nat (length (cells b)) ->
  cands_from b m i fuel = Ok l ->
  (forall n, In n l <-> exists j, i <= j < i + Z.of_nat fuel /\ n = n_min b + j + m /\ cand_ok b m j = Ok true) /\
  StronglySorted Z.lt l /\ (forall n, In n l -> n_min b + i + m <= n).
Proof.
  intros W Hm. induction fuel as [|f IH]; intros i l Hi Hlen H.
  - cbn in H. injection H as <-. split; [|split].
    + intros n. split; [intros []|intros (j & Hj & _); lia].
    + constructor.
    + intros n [].
  - cbn [cands_from] in H.
    destruct (cand_ok b m i) as [ok|e] eqn:Ec; [|discriminate]. cbn [bind] in H.
    destruct (cands_from b m (i + 1) f) as [rest|e] eqn:Er; [|discriminate]. cbn [bind] in H.
    specialize (IH (i + 1) rest ltac:(lia) ltac:(lia) Er). destruct IH as (IHin & IHs & IHlb).
    destruct ok.
    + rewrite idx_at_wf in H by (auto; lia). cbn [bind] in H. injection H as <-.
      split; [|split].
      * intros n. split.
        -- intros [<-|Hn].
           ++ exists i. split; [lia|]. split; [reflexivity|exact Ec].
           ++ apply IHin in Hn. destruct Hn as (j & Hj & Hn & Hc). exists j. split; [lia|]. auto.
        -- intros (j & Hj & Hn & Hc). destruct (Z.eq_dec j i) as [->|Hne]; [left; lia|].
           right. apply IHin. exists j. split; [lia|]. auto.
      * constructor; [exact IHs|]. apply Forall_forall. intros n Hn. apply IHlb in Hn. lia.
      * intros n [<-|Hn]; [lia|]. apply IHlb in Hn. lia.
    + injection H as <-. split; [|split].
      * intros n. rewrite IHin. split.
        -- intros (j & Hj & Hn & Hc). exists j. split; [lia|]. auto.
        -- intros (j & Hj & Hn & Hc). destruct (Z.eq_dec j i) as [->|Hne]; [congruence|].
           exists j. split; [lia|]. auto.
      * exact IHs.
      * intros n Hn. apply IHlb in Hn. lia.
Qed.

Definition feasible (b : bitmap) (n m : Z) : Prop :=
  fi_min b <= n - m /\ n + m - 1 <= fi_max b /\ Free b (n - m) (n + m - 1).

Lemma cand_total b m i : WFb b -> 0 < m -> 0 <= i -> exists r, cand_ok b m i = Ok r.
Proof.
  intros W Hm Hi. pose proof W as (Hx & Hl & Hfm & HfM & Hg). unfold cand_ok.
  destruct (slice_all_free (cells b) i (i + 2 * m) (2 * m)) eqn:Es; [|eauto].
  apply slice_all_free_spec in Es; [|lia|lia]. destruct Es as (_ & Hlen & Hf).
  rewrite idx_at_wf by (auto; lia). cbn [bind].
  destruct (fi_min b <=? n_min b + i); [|eauto].
  rewrite idx_at_wf by (auto; lia). cbn [bind]. eauto.
Qed.

Lemma select_free_spec b m p r :
  WFb b -> 0 < m -> select_free b m p = Ok r ->
  match r with
  | Some n => feasible b n m /\
              match p with
              | FirstFit => forall n', feasible b n' m -> n <= n'
              | LastFit => forall n', feasible b n' m -> n' <= n
              end
  | None => forall n', ~ feasible b n' m
  end.
Proof.
  intros W Hm H. pose proof W as (Hx & Hl & Hfm & HfM & Hg). unfold select_free in H.
  destruct (cands_from b m 0 (length (cells b))) as [l|e] eqn:Ec; [|discriminate]. cbn [bind] in H.
  destruct (cands_from_spec b m W Hm (length (cells b)) 0 l ltac:(lia) ltac:(lia) Ec) as (Hin & Hs & _).
  (* membership characterised by feasibility *)
  assert (Hfe : forall n, In n l <-> feasible b n m).
  { intros n. rewrite Hin. split.
    - intros (j & Hj & -> & Hc). apply (cand_ok_spec b m j W Hm ltac:(lia) true) in Hc.
      destruct Hc as (Hc & _). specialize (Hc eq_refl). destruct Hc as (A & B & C).
      unfold feasible. replace (n_min b + j + m - m) with (n_min b + j) by lia.
      replace (n_min b + j + m + m - 1) with (n_min b + j + 2 * m - 1) by lia. auto.
    - intros (A & B & C). exists (n - m - n_min b). split; [lia|]. split; [lia|].
      destruct (cand_total b m (n - m - n_min b) W Hm ltac:(lia)) as (r' & Hr). rewrite Hr. f_equal.
      apply (cand_ok_spec b m (n - m - n_min b) W Hm ltac:(lia) r' Hr).
      replace (n_min b + (n - m - n_min b)) with (n - m) by lia.
      replace (n - m + 2 * m - 1) with (n + m - 1) by lia. auto. }
  destruct p.
  - injection H as <-. destruct l as [|n t]; cbn [hd_error].
    + intros n' Hf. apply Hfe in Hf. exact Hf.
    + split; [apply Hfe; left; reflexivity|]. intros n' Hf. apply Hfe in Hf. destruct Hf as [<-|Hf]; [lia|].
      inversion Hs as [|? ? _ Hall]; subst. rewrite Forall_forall in Hall. specialize (Hall n' Hf). lia.
  - injection H as <-. destruct (rev l) as [|n t] eqn:Er; cbn [hd_error].
    + assert (l = []) by (rewrite <- (rev_involutive l), Er; reflexivity). subst l.
      intros n' Hf. apply Hfe in Hf. exact Hf.
    + assert (Hl' : l = rev t ++ [n]) by (rewrite <- (rev_involutive l), Er; reflexivity).
      split; [apply Hfe; rewrite Hl'; apply in_or_app; right; left; reflexivity|].
      intros n' Hf. apply Hfe in Hf. rewrite Hl' in Hf, Hs. apply in_app_or in Hf.
      destruct Hf as [Hf|[<-|[]]]; [|lia].
      clear - Hs Hf. induction (rev t) as [|x u IH]; [destruct Hf|].
      cbn in Hs. inversion Hs as [|? ? Hs' Hall]; subst. destruct Hf as [<-|Hf].
      * rewrite Forall_forall in Hall. specialize (Hall n ltac:(apply in_or_app; right; left; reflexivity)). lia.
      * apply IH; assumption.
Qed.
